import AL.Props.C02Rules
import AL.Props.C01Cron
import AL.Model.ProjLint
/-
  C09 on the CRON check inside the whole-file model (AL.Rules.ruleEvents / rules / lint, tied by `lintwf`; the check itself is
  AL.Cron, tied by `cron`, theorems in AL.Props.C01Cron):

  * `cron_diags_exact` / `rules_cron_exact` / `lint_cron_exact`: the diagnostics of the CRON check in the output of the rule, of all
    rules, of the whole model are exactly what `AL.Cron.checkCron` says about each entry of each `schedule`, in the order of
    `on:` (in `lint`: stably sorted by position like everything else), each at the position of its entry, with the entry's
    text as argument (`cronEntry_cases`);
  * `cron_independent`: they depend on nothing else in the workflow — not on the jobs, not on the other events, not on the
    functions the other rules use (`lower`, `isNum`, `urlOk`); of the configuration only the known zone names matter, and
    those only for entries with a zone prefix (`cron_no_zone_independent`);
  * `no_schedule_no_cron`: a workflow without `schedule` has none;
  * `too_frequent_text` / `too_frequent_arg`: the number in `cron-too-frequent` is one of 0, 60, 120, 180, 240 (rendered as Go's
    `%g` renders it) or the saturated negative duration;
  * `cronUnmodelled_eq`: the entries the model leaves unjudged (and the tie leaves out) are those in a known zone other than UTC.
-/
namespace AL.C09C
open AL.Rules AL.Yaml AL.Ast

def cronCodes : List String := ["cron-no-schedule", "cron-invalid", "cron-too-frequent"]

/-- a diagnostic of the CRON check -/
def isCron (d : Diag) : Bool := d.kind == "events" && cronCodes.contains d.code

/-- the entries of all `schedule` events, in the order of `on:` -/
def scheduleEntries (w : Workflow) : List Str :=
  (w.on.getD []).flatMap fun e => match e with
    | .schedule cron _ => cron
    | _ => []

/-- what the rule reports for a verdict of `AL.Cron.checkCron` on the entry `s` -/
def ofVerdict (s : Str) : AL.Cron.Verdict → List Diag
  | .diags l => l.map (cronDiag s.pos)
  | .outOfScope _ => []

/-- what the CRON check says about all entries of the workflow, in source order -/
def cronDiags (zk : List Char → Bool) (w : Workflow) : List Diag :=
  (scheduleEntries w).flatMap fun s => ofVerdict s (AL.Cron.checkCron zk s.value)

theorem cronEntry_eq (zk : List Char → Bool) (s : Str) : cronEntry zk s = ofVerdict s (AL.Cron.checkCron zk s.value) := by
  unfold cronEntry ofVerdict
  split <;> simp_all

theorem isCron_cronDiag (p : AL.Rules.Pos) (d : AL.Cron.Diag') : isCron (cronDiag p d) = true := by
  cases d <;> simp [cronDiag, isCron, cronCodes]

theorem filter_cronEntry (zk : List Char → Bool) (s : Str) : (cronEntry zk s).filter isCron = cronEntry zk s := by
  rw [List.filter_eq_self]
  intro d hd
  unfold cronEntry at hd
  split at hd
  · obtain ⟨x, -, rfl⟩ := List.mem_map.1 hd
    exact isCron_cronDiag _ _
  · simp at hd

theorem filter_checkSchedule (zk : List Char → Bool) (cron : List Str) :
    (checkScheduleEvent zk cron).filter isCron = cron.flatMap (cronEntry zk) := by
  unfold checkScheduleEvent
  rw [List.filter_flatMap]
  congr 1
  funext s
  exact filter_cronEntry zk s

/-! ### the other events report nothing of the CRON check -/
/-- no diagnostic of the CRON check in the list -/
def NoCron (l : List Diag) : Prop := ∀ d ∈ l, isCron d = false

theorem noCron_nil : NoCron [] := by intro d hd; simp at hd
theorem noCron_append {a b : List Diag} (ha : NoCron a) (hb : NoCron b) : NoCron (a ++ b) := by
  intro d hd
  rcases List.mem_append.1 hd with h | h
  · exact ha d h
  · exact hb d h
theorem noCron_flatMap {α} {l : List α} {f : α → List Diag} (h : ∀ x ∈ l, NoCron (f x)) : NoCron (l.flatMap f) := by
  intro d hd
  obtain ⟨x, hx, hd⟩ := List.mem_flatMap.1 hd
  exact h x hx d hd
theorem noCron_filter {l : List Diag} (h : NoCron l) : l.filter isCron = [] := by
  rw [List.filter_eq_nil_iff]
  intro d hd
  simp [h d hd]
theorem noCron_kind {l : List Diag} {k : String} (hk : k ≠ "events") (h : ∀ d ∈ l, d.kind = k) : NoCron l := by
  intro d hd
  simp [isCron, h d hd, hk]
theorem noCron_code {l : List Diag} (h : ∀ d ∈ l, d.code ∉ cronCodes) : NoCron l := by
  intro d hd
  simp [isCron, h d hd]

theorem mem_ite {c : Prop} [Decidable c] {x d : Diag} (h : d ∈ (if c then [x] else [])) : d = x := by
  split at h <;> simp_all

/-- close a goal `d.code ∉ cronCodes` from `h : d ∈ [⟨…⟩]` or `h : d ∈ []` -/
macro "lit " h:ident : tactic =>
  `(tactic| first | (simp at $h:ident; done) | (simp at $h:ident; subst $h:ident; simp [cronCodes]) | (simp at $h:ident; rcases $h:ident with rfl | rfl <;> simp [cronCodes]))

theorem noCron_exclusive (f i : Option Filter) (hook : String) (av : List String) : NoCron (exclusiveFilters f i hook av) := by
  apply noCron_code
  intro d hd
  unfold exclusiveFilters at hd
  split at hd
  · split at hd
    · split at hd
      · lit hd
      · lit hd
    · lit hd
  · rcases List.mem_append.1 hd with h | h
    · split at h
      · split at h
        · lit h
        · lit h
      · lit h
    · split at h
      · split at h
        · lit h
        · lit h
      · lit h

theorem noCron_webhook (e : WebhookEvent) : NoCron (checkWebhookEvent e) := by
  unfold checkWebhookEvent
  simp only []
  split
  · apply noCron_code; intro d hd; lit hd
  · refine noCron_append (noCron_append (noCron_append (noCron_append ?_ ?_) (noCron_exclusive _ _ _ _)) (noCron_exclusive _ _ _ _)) (noCron_exclusive _ _ _ _)
    · apply noCron_code
      intro d hd
      split at hd
      · lit hd
      · obtain ⟨ty, -, hd⟩ := List.mem_flatMap.1 hd
        split at hd
        · lit hd
        · lit hd
    · apply noCron_code
      intro d hd
      split at hd
      · split at hd
        · lit hd
        · lit hd
      · split at hd
        · lit hd
        · lit hd

theorem noCron_call (lower : String → String) (isNum : String → Bool) (inputs : List CallInput) : NoCron (checkCallEvent lower isNum inputs) := by
  unfold checkCallEvent
  apply noCron_flatMap
  intro i _
  apply noCron_code
  intro d hd
  split at hd
  · lit hd
  · rcases List.mem_append.1 hd with h | h
    · split at h
      · split at h
        · split at h
          · lit h
          · lit h
        · split at h
          · lit h
          · lit h
        · lit h
      · lit h
    · have := mem_ite h
      subst this
      simp [cronCodes]


theorem noCron_dupOptions : ∀ (opts : List Str) (seen : List String), ∀ d ∈ (dupOptions opts seen).1, d.code = "option-duplicated"
  | [], _ => by intro d hd; simp [dupOptions] at hd
  | o :: rest, seen => by
    intro d hd
    unfold dupOptions at hd
    split at hd
    · simp only [List.mem_cons] at hd
      rcases hd with rfl | hd
      · rfl
      · exact noCron_dupOptions rest seen d hd
    · exact noCron_dupOptions rest _ d hd

theorem noCron_dispatch (lower : String → String) (isNum : String → Bool) (inputs : List (String × DispatchInput)) (pos : AL.Rules.Pos) :
    NoCron (checkDispatchEvent lower isNum inputs pos) := by
  unfold checkDispatchEvent
  refine noCron_append (noCron_flatMap ?_) ?_
  · intro kv _
    apply noCron_code
    intro d hd
    simp only [] at hd
    split at hd
    · split at hd
      · lit hd
      · rcases List.mem_append.1 hd with h | h
        · obtain ⟨x, hx, rfl⟩ := List.mem_map.1 h
          simp [noCron_dupOptions _ _ x hx, cronCodes]
        · split at h
          · split at h
            · lit h
            · lit h
          · lit h
    · rcases List.mem_append.1 hd with h | h
      · have := mem_ite h
        subst this
        simp [cronCodes]
      · split at h
        · split at h
          · split at h
            · lit h
            · lit h
          · split at h
            · lit h
            · lit h
          · lit h
        · lit h
  · apply noCron_code
    intro d hd
    have := mem_ite hd
    subst this
    simp [cronCodes]


/-! ### the other rules report under other kinds -/

/-- every diagnostic of the list has the kind `k` -/
def KindIs (k : String) (l : List Diag) : Prop := ∀ d ∈ l, d.kind = k

theorem kindIs_nil {k} : KindIs k [] := by intro d hd; simp at hd
theorem kindIs_append {k} {a b : List Diag} (ha : KindIs k a) (hb : KindIs k b) : KindIs k (a ++ b) := by
  intro d hd
  rcases List.mem_append.1 hd with h | h
  · exact ha d h
  · exact hb d h
theorem kindIs_flatMap {k} {α} {l : List α} {f : α → List Diag} (h : ∀ x ∈ l, KindIs k (f x)) : KindIs k (l.flatMap f) := by
  intro d hd
  obtain ⟨x, hx, hd⟩ := List.mem_flatMap.1 hd
  exact h x hx d hd
theorem kindIs_map {k} {α} {l : List α} {f : α → Diag} (h : ∀ x, (f x).kind = k) : KindIs k (l.map f) := by
  intro d hd
  obtain ⟨x, -, rfl⟩ := List.mem_map.1 hd
  exact h x
theorem kindIs_single {k} {d : Diag} (h : d.kind = k) : KindIs k [d] := by
  intro x hx; simp at hx; subst hx; exact h
theorem kindIs_ite {k} {c : Prop} [Decidable c] {a b : List Diag} (ha : KindIs k a) (hb : KindIs k b) : KindIs k (if c then a else b) := by
  split <;> assumption

theorem kind_matrix (w : Workflow) : KindIs "matrix" (ruleMatrix w) := by
  unfold ruleMatrix
  apply kindIs_flatMap
  intro j _
  unfold matrixJob
  split
  · exact kindIs_nil
  · split
    · exact kindIs_nil
    · apply kindIs_ite kindIs_nil
      apply kindIs_map
      intro x; cases x <;> rfl

theorem kind_credContainer (a b : String) (c : Container) : KindIs "credentials" (checkCredContainer a b c) := by
  unfold checkCredContainer
  split
  · exact kindIs_nil
  · split
    · exact kindIs_nil
    · exact kindIs_ite kindIs_nil (kindIs_single rfl)

theorem kind_credentials (w : Workflow) : KindIs "credentials" (ruleCredentials w) := by
  unfold ruleCredentials
  apply kindIs_flatMap
  intro j _
  unfold credentialsJob
  apply kindIs_append
  · split
    · exact kind_credContainer _ _ _
    · exact kindIs_nil
  · split
    · exact kindIs_flatMap fun kv _ => kind_credContainer _ _ _
    · exact kindIs_nil

theorem kind_checkShellName (lower : String → String) (pf : Platform) (n : Option Str) : KindIs "shell-name" (checkShellName lower pf n) := by
  unfold checkShellName
  split
  · exact kindIs_nil
  · apply kindIs_ite kindIs_nil
    apply kindIs_ite kindIs_nil
    simp only []
    apply kindIs_ite kindIs_nil
    exact kindIs_single rfl

theorem kind_shellName (lower : String → String) (w : Workflow) : KindIs "shell-name" (ruleShellName lower w) := by
  unfold ruleShellName
  apply kindIs_append (kind_checkShellName _ _ _)
  apply kindIs_flatMap
  intro j _
  unfold shellNameJob
  simp only []
  apply kindIs_append
  · split
    · exact kind_checkShellName _ _ _
    · exact kindIs_nil
  · apply kindIs_flatMap
    intro st _
    split
    · exact kind_checkShellName _ _ _
    · exact kindIs_nil


theorem kind_knownLoop (lc : LabelCfg) (label : Str) : ∀ (ks : List String) (ds : List Diag),
    knownLoop lc label ks = some ds → KindIs "runner-label" ds
  | [], ds, h => by simp [knownLoop] at h
  | k :: rest, ds, h => by
    unfold knownLoop at h
    split at h
    · simp only [Option.some.injEq] at h; subst h; exact kindIs_single rfl
    · simp only [Option.some.injEq] at h; subst h; exact kindIs_nil
    · exact kind_knownLoop lc label rest ds h

theorem kind_verify (lower : String → String) (label : Str) (lc : LabelCfg) : KindIs "runner-label" (verifyRunnerLabel lower label lc).2 := by
  unfold verifyRunnerLabel
  split
  · exact kindIs_nil
  · split
    · exact kindIs_nil
    · split
      · rename_i ds h
        exact kind_knownLoop lc label _ ds h
      · exact kindIs_single rfl

theorem kind_checkCompat (compats : Compats) (comp : Nat) (label : Str) : KindIs "runner-label" (checkCompat compats comp label).2 := by
  unfold checkCompat
  split
  · exact kindIs_nil
  · split
    · exact kindIs_single rfl
    · exact kindIs_nil

theorem kind_checkCombi (compats : Compats) (cls : List (Nat × Str)) : KindIs "runner-label" (checkCombiCompat compats cls).2 := by
  unfold checkCombiCompat
  simp only []
  apply kindIs_flatMap
  intro x hx
  obtain ⟨cl, -, rfl⟩ := List.mem_map.1 hx
  split
  · split
    · exact kindIs_single rfl
    · exact kindIs_nil
  · exact kindIs_nil

theorem kind_labelAndConflict (lc : LabelCfg) (lower : String → String) (m : Option Matrix) (acc : Compats × List Diag) (l : Str)
    (h : KindIs "runner-label" acc.2) : KindIs "runner-label" (checkLabelAndConflict lc lower m acc l).2 := by
  unfold checkLabelAndConflict
  split
  · simp only []
    refine kindIs_append (kindIs_append h ?_) (kind_checkCombi _ _)
    apply kindIs_flatMap
    intro x hx
    obtain ⟨s, -, rfl⟩ := List.mem_map.1 hx
    exact kind_verify _ _ _
  · simp only []
    exact kindIs_append (kindIs_append h (kind_verify _ _ _)) (kind_checkCompat _ _ _)

theorem kind_foldLabels (lc : LabelCfg) (lower : String → String) (m : Option Matrix) : ∀ (ls : List Str) (acc : Compats × List Diag),
    KindIs "runner-label" acc.2 → KindIs "runner-label" (ls.foldl (checkLabelAndConflict lc lower m) acc).2
  | [], acc, h => h
  | l :: rest, acc, h => by
    simp only [List.foldl_cons]
    exact kind_foldLabels lc lower m rest _ (kind_labelAndConflict lc lower m acc l h)

theorem kind_runnerLabel (lower : String → String) (w : Workflow) (lc : LabelCfg) : KindIs "runner-label" (ruleRunnerLabel lower w lc) := by
  unfold ruleRunnerLabel
  apply kindIs_flatMap
  intro j _
  unfold runnerLabelJob
  split
  · exact kindIs_nil
  · simp only []
    split
    · split
      · exact kindIs_flatMap fun s _ => kind_verify _ _ _
      · exact kind_verify _ _ _
    · split
      · exact kind_labelAndConflict _ _ _ _ _ kindIs_nil
      · exact kind_foldLabels _ _ _ _ _ kindIs_nil

theorem kind_jobNeeds (lower : String → String) (w : Workflow) : KindIs "job-needs" (ruleJobNeeds lower w) := by
  unfold ruleJobNeeds
  simp only []
  apply kindIs_map
  intro x; cases x <;> rfl

theorem kind_checkEnv (e : Option Env) : KindIs "env-var" (checkEnv e) := by
  unfold checkEnv
  split
  · exact kindIs_nil
  · apply kindIs_ite kindIs_nil
    apply kindIs_flatMap
    intro kv _
    exact kindIs_ite kindIs_nil (kindIs_ite (kindIs_single rfl) kindIs_nil)

theorem kind_envVar (w : Workflow) : KindIs "env-var" (ruleEnvVar w) := by
  unfold ruleEnvVar
  apply kindIs_append (kind_checkEnv _)
  apply kindIs_flatMap
  intro j _
  unfold envVarJob
  refine kindIs_append (kindIs_append (kindIs_append (kind_checkEnv _) ?_) ?_) (kindIs_flatMap fun st _ => kind_checkEnv _)
  · split
    · exact kind_checkEnv _
    · exact kindIs_nil
  · split
    · exact kindIs_flatMap fun kv _ => kind_checkEnv _
    · exact kindIs_nil

theorem kind_validate (id : Option Str) (what : String) : KindIs "id" (validateConvention id what) := by
  unfold validateConvention
  split
  · exact kindIs_nil
  · exact kindIs_ite kindIs_nil (kindIs_single rfl)

theorem kind_idSteps (lower : String → String) : ∀ (steps : List Step) (seen : List (String × AL.Rules.Pos)), KindIs "id" (idSteps lower steps seen)
  | [], _ => by unfold idSteps; exact kindIs_nil
  | st :: rest, seen => by
    unfold idSteps
    split
    · exact kind_idSteps lower rest seen
    · simp only []
      split
      · exact kindIs_append (kindIs_append (kind_validate _ _) (kindIs_single rfl)) (kind_idSteps lower rest seen)
      · exact kindIs_append (kind_validate _ _) (kind_idSteps lower rest _)

theorem kind_id (lower : String → String) (w : Workflow) : KindIs "id" (ruleId lower w) := by
  unfold ruleId
  apply kindIs_flatMap
  intro j _
  unfold idJob
  exact kindIs_append (kindIs_append (kind_validate _ _) (kindIs_flatMap fun n _ => kind_validate _ _)) (kind_idSteps _ _ _)

theorem kind_checkGlobs (isRef : Bool) (f : Option Filter) : KindIs "glob" (checkGlobs isRef f) := by
  unfold checkGlobs
  split
  · exact kindIs_nil
  · apply kindIs_flatMap
    intro v _
    apply kindIs_ite kindIs_nil
    unfold globErrors
    exact kindIs_map fun _ => rfl

theorem kind_glob (w : Workflow) : KindIs "glob" (ruleGlob w) := by
  unfold ruleGlob
  apply kindIs_flatMap
  intro e _
  split
  · exact kindIs_append (kindIs_append (kindIs_append (kindIs_append (kindIs_append (kind_checkGlobs _ _) (kind_checkGlobs _ _))
      (kind_checkGlobs _ _)) (kind_checkGlobs _ _)) (kind_checkGlobs _ _)) (kind_checkGlobs _ _)
  · exact kindIs_nil

theorem kind_checkPermissions (p : Option Permissions) : KindIs "permissions" (checkPermissions p) := by
  unfold checkPermissions
  split
  · exact kindIs_nil
  · split
    · exact kindIs_ite kindIs_nil (kindIs_single rfl)
    · apply kindIs_flatMap
      intro kv _
      simp only []
      exact kindIs_append (kindIs_ite kindIs_nil (kindIs_single rfl)) (kindIs_ite kindIs_nil (kindIs_single rfl))

theorem kind_permissions (w : Workflow) : KindIs "permissions" (rulePermissions w) := by
  unfold rulePermissions
  exact kindIs_append (kind_checkPermissions _) (kindIs_flatMap fun j _ => kind_checkPermissions _)

theorem kind_workflowCall (w : Workflow) : KindIs "workflow-call" (ruleWorkflowCall w) := by
  unfold ruleWorkflowCall
  apply kindIs_flatMap
  intro j _
  unfold workflowCallJob
  split
  · exact kindIs_nil
  · split
    · exact kindIs_nil
    · exact kindIs_ite kindIs_nil (kindIs_ite kindIs_nil (kindIs_ite kindIs_nil (kindIs_single rfl)))

theorem kind_deprecated (w : Workflow) : KindIs "deprecated-commands" (ruleDeprecatedCommands w) := by
  unfold ruleDeprecatedCommands
  apply kindIs_flatMap
  intro j _
  apply kindIs_flatMap
  intro st _
  split
  · split
    · exact kindIs_map fun _ => rfl
    · exact kindIs_nil
  · exact kindIs_nil

theorem kind_checkIfCond (s : Option Str) : KindIs "if-cond" (checkIfCond s) := by
  unfold checkIfCond
  split
  · exact kindIs_nil
  · apply kindIs_ite kindIs_nil
    simp only []
    exact kindIs_ite kindIs_nil (kindIs_single rfl)

theorem kind_ifCond (w : Workflow) : KindIs "if-cond" (ruleIfCond w) := by
  unfold ruleIfCond
  apply kindIs_flatMap
  intro j _
  exact kindIs_append (kind_checkIfCond _) (kindIs_flatMap fun st _ => kind_checkIfCond _)


theorem kind_actionInputs (spec : String) (declared : List (String × String × Bool)) (e : ExecAction) (usesPos : AL.Rules.Pos) :
    KindIs "action" (checkActionInputs spec declared e usesPos) := by
  unfold checkActionInputs
  simp only []
  apply kindIs_append
  · exact kindIs_flatMap fun kv _ => kindIs_ite kindIs_nil (kindIs_single rfl)
  · apply kindIs_flatMap
    intro id _
    split
    · exact kindIs_ite kindIs_nil (kindIs_single rfl)
    · exact kindIs_nil

theorem kind_repoAction (spec : String) (e : ExecAction) (usesPos : AL.Rules.Pos) : KindIs "action" (checkRepoAction spec e usesPos) := by
  unfold checkRepoAction
  simp only []
  split
  · exact kindIs_single rfl
  · split
    · exact kindIs_single rfl
    · apply kindIs_append
      · exact kindIs_ite (kindIs_single rfl) kindIs_nil
      · split
        · exact kindIs_ite (kindIs_single rfl) kindIs_nil
        · exact kindIs_ite kindIs_nil (kind_actionInputs _ _ _ _)

theorem kind_dockerAction (urlOk : String → Bool) (uri : String) (usesPos : AL.Rules.Pos) : KindIs "action" (checkDockerAction urlOk uri usesPos) := by
  unfold checkDockerAction
  simp only []
  split <;> exact kindIs_append (kindIs_ite kindIs_nil (kindIs_single rfl)) (kindIs_ite (kindIs_single rfl) kindIs_nil)

theorem kind_action (urlOk : String → Bool) (w : Workflow) : KindIs "action" (ruleAction urlOk w) := by
  unfold ruleAction
  apply kindIs_flatMap
  intro j _
  apply kindIs_flatMap
  intro st _
  unfold actionStep
  split
  · split
    · exact kindIs_nil
    · exact kindIs_ite kindIs_nil (kindIs_ite kindIs_nil (kindIs_ite (kind_dockerAction _ _ _) (kind_repoAction _ _ _)))
  · exact kindIs_nil


/-! ### inside a project: the two rules that look at the disk report under their own kinds -/

theorem kind_checkLocal (m : AL.CallMeta.Meta) (c : WorkflowCall) (u : Str) : KindIs "workflow-call" (AL.ProjCall.checkLocal m c u) := by
  unfold AL.ProjCall.checkLocal
  simp only []
  refine kindIs_append (kindIs_append ?_ ?_) ?_
  · apply kindIs_flatMap
    intro n _
    split
    · exact kindIs_ite (kindIs_single rfl) kindIs_nil
    · exact kindIs_nil
  · exact kindIs_flatMap fun kv _ => kindIs_ite kindIs_nil (kindIs_single rfl)
  · apply kindIs_ite kindIs_nil
    apply kindIs_append
    · apply kindIs_flatMap
      intro n _
      split
      · exact kindIs_ite (kindIs_single rfl) kindIs_nil
      · exact kindIs_nil
    · exact kindIs_flatMap fun kv _ => kindIs_ite kindIs_nil (kindIs_single rfl)

theorem kind_wcFound (f : AL.ProjCall.Found) (call : WorkflowCall) (u : Str) : KindIs "workflow-call" (AL.ProjCall.wcFound f call u) := by
  unfold AL.ProjCall.wcFound
  split
  · exact kindIs_single rfl
  · exact kindIs_nil
  · exact kind_checkLocal _ _ _

theorem kind_wcJob (env : AL.ProjCall.Env) (c : AL.ProjCall.Cache) (j : Job) : KindIs "workflow-call" (AL.ProjCall.wcJob env c j).2 := by
  unfold AL.ProjCall.wcJob
  split
  · exact kindIs_nil
  · split
    · exact kindIs_nil
    · unfold AL.ProjCall.wcUses
      split
      · exact kindIs_nil
      · split
        · exact kind_wcFound _ _ _
        · split <;> exact kindIs_nil

theorem kind_simulateJobs (env : AL.ProjCall.Env) (lower : String → String) (jobs : List (String × Job)) :
    ∀ (l : List (String × Job)) (c : AL.ProjCall.Cache),
      KindIs "workflow-call" ((AL.ProjCall.simulateJobs env lower jobs l c).flatMap (·.2.wc))
  | [], _ => by simp [AL.ProjCall.simulateJobs]; exact kindIs_nil
  | (_, j) :: rest, c => by
    simp only [AL.ProjCall.simulateJobs, List.flatMap_cons]
    exact kindIs_append (kind_wcJob env c j) (kind_simulateJobs env lower jobs rest _)

theorem kind_wcRule (env : AL.ProjCall.Env) (lower : String → String) (w : Workflow) : KindIs "workflow-call" (AL.ProjCall.wcRule env lower w) := by
  unfold AL.ProjCall.wcRule AL.ProjCall.simulate
  exact kind_simulateJobs _ _ _ _ _

open AL.ProjAction in
theorem kind_runsFile (env : AL.ProjAction.Env) (file dir prop name : String) (pos : AL.Rules.Pos) : KindIs "action" (runsFile env file dir prop name pos) := by
  unfold runsFile
  exact kindIs_ite kindIs_nil (kindIs_ite kindIs_nil (kindIs_single rfl))

open AL.ProjAction in
theorem kind_invalidProps (r : Runs) (ty name dir : String) (props : List String) (pos : AL.Rules.Pos) : KindIs "action" (invalidProps r ty name dir props pos) := by
  unfold invalidProps
  exact kindIs_flatMap fun p _ => kindIs_ite (kindIs_single rfl) kindIs_nil

open AL.ProjAction in
theorem kind_jsRuns (env : AL.ProjAction.Env) (r : Runs) (dir name : String) (pos : AL.Rules.Pos) : KindIs "action" (jsRuns env r dir name pos) := by
  unfold jsRuns
  exact kindIs_append (kindIs_append (kindIs_append (kindIs_append (kindIs_append
    (kindIs_ite (kindIs_single rfl) (kind_runsFile _ _ _ _ _ _)) (kind_runsFile _ _ _ _ _ _)) (kindIs_ite (kindIs_single rfl) kindIs_nil)) (kind_runsFile _ _ _ _ _ _))
    (kindIs_ite (kindIs_single rfl) kindIs_nil)) (kind_invalidProps _ _ _ _ _ _)

open AL.ProjAction in
theorem kind_runsDiags (env : AL.ProjAction.Env) (m : ActionMeta) (pos : AL.Rules.Pos) : KindIs "action" (runsDiags env m pos) := by
  unfold runsDiags
  simp only []
  refine kindIs_ite (kindIs_single rfl) ?_
  apply kindIs_ite
  · unfold dockerRuns
    refine kindIs_append (kindIs_append (kindIs_append (kindIs_append ?_ (kind_runsFile _ _ _ _ _ _)) (kind_runsFile _ _ _ _ _ _)) (kind_runsFile _ _ _ _ _ _)) (kind_invalidProps _ _ _ _ _ _)
    exact kindIs_ite (kindIs_single rfl) (kindIs_ite (kindIs_append (kind_runsFile _ _ _ _ _ _) (kindIs_ite (kindIs_single rfl) kindIs_nil)) kindIs_nil)
  · apply kindIs_ite
    · unfold compositeRuns
      exact kindIs_append (kindIs_ite (kindIs_single rfl) kindIs_nil) (kind_invalidProps _ _ _ _ _ _)
    · exact kindIs_ite (kind_jsRuns _ _ _ _ _) (kindIs_append (kindIs_single rfl) (kindIs_ite (kind_jsRuns _ _ _ _ _) kindIs_nil))

open AL.ProjAction in
theorem kind_localStep (env : AL.ProjAction.Env) (f : AL.ProjAction.Found) (spec : String) (e : ExecAction) (pos : AL.Rules.Pos) :
    KindIs "action" (localStep env f spec e pos) := by
  unfold localStep
  split
  · exact kindIs_nil
  · exact kindIs_single rfl
  · apply kindIs_append
    · apply kindIs_ite kindIs_nil
      unfold metadataDiags
      exact kindIs_append (kindIs_append (kindIs_append (kindIs_append (kindIs_ite (kindIs_single rfl) kindIs_nil)
        (kindIs_ite (kindIs_single rfl) kindIs_nil)) (kindIs_ite (kindIs_single rfl) kindIs_nil)) (kindIs_ite (kindIs_single rfl) kindIs_nil))
        (kind_runsDiags _ _ _)
    · unfold inputDiags
      simp only []
      apply kindIs_append
      · exact kindIs_flatMap fun kv _ => kindIs_ite kindIs_nil (kindIs_single rfl)
      · apply kindIs_flatMap
        intro id _
        split
        · exact kindIs_ite kindIs_nil (kindIs_single rfl)
        · exact kindIs_nil

open AL.ProjAction in
theorem kind_projActionStep (env : AL.ProjAction.Env) (c : AL.ProjAction.Cache) (st : Step) : KindIs "action" (AL.ProjAction.actionStep env c st).2 := by
  unfold AL.ProjAction.actionStep
  split
  · split
    · exact kindIs_nil
    · split
      · exact kindIs_nil
      · split
        · exact kind_localStep _ _ _ _ _
        · exact kindIs_nil
  · exact kindIs_nil

open AL.ProjAction in
theorem kind_stepsLoop (env : AL.ProjAction.Env) : ∀ (steps : List Step) (o : Out), KindIs "action" o.action → KindIs "action" (stepsLoop env steps o).action
  | [], _, h => h
  | st :: rest, o, h => by
    unfold stepsLoop
    exact kind_stepsLoop env rest _ (kindIs_append h (kind_projActionStep env o.cache st))

open AL.ProjAction in
theorem kind_projAction (env : AL.ProjAction.Env) (w : Workflow) : KindIs "action" (AL.ProjAction.simulate env w).action := by
  unfold AL.ProjAction.simulate
  have : ∀ (js : List Job) (o : Out), KindIs "action" o.action →
      KindIs "action" (js.foldl (fun o j => stepsLoop env (AL.Rules.stepsOf j) o) o).action := by
    intro js
    induction js with
    | nil => intro o h; exact h
    | cons j rest ih => intro o h; exact ih _ (kind_stepsLoop env _ o h)
  exact this _ _ kindIs_nil

/-! ### the rule, all rules, the whole model -/

/-- **the CRON diagnostics of rule events are exactly `AL.Cron.checkCron` of each `schedule` entry, in order, at the entry** -/
theorem cron_diags_exact (lower : String → String) (isNum : String → Bool) (w : Workflow) (lc : LabelCfg) :
    (ruleEvents lower isNum w lc).filter isCron = cronDiags lc.zoneKnown w := by
  unfold ruleEvents cronDiags scheduleEntries
  rw [List.filter_flatMap, List.flatMap_assoc]
  congr 1
  funext e
  cases e with
  | webhook h => simpa using noCron_filter (noCron_webhook h)
  | schedule cron p =>
    simp only [filter_checkSchedule]
    exact congrArg (fun f => cron.flatMap f) (funext fun s => cronEntry_eq _ s)
  | dispatch i p => simpa using noCron_filter (noCron_dispatch lower isNum _ p)
  | repoDispatch t p => simp
  | call i s o p => simpa using noCron_filter (noCron_call lower isNum _)

theorem filter_kind {k : String} {l : List Diag} (hk : k ≠ "events") (h : KindIs k l) : l.filter isCron = [] :=
  noCron_filter (noCron_kind hk h)

/-- … and no other rule reports anything under these codes: the same holds for all rules together -/
theorem rules_cron_exact (lower : String → String) (isNum urlOk : String → Bool) (w : Workflow) (lc : LabelCfg) :
    (rules lower isNum urlOk w lc).filter isCron = cronDiags lc.zoneKnown w := by
  unfold rules
  simp only [List.filter_append, cron_diags_exact,
    filter_kind (by decide) (kind_matrix w), filter_kind (by decide) (kind_credentials w), filter_kind (by decide) (kind_shellName lower w),
    filter_kind (by decide) (kind_runnerLabel lower w lc), filter_kind (by decide) (kind_jobNeeds lower w),
    filter_kind (by decide) (kind_action urlOk w), filter_kind (by decide) (kind_envVar w), filter_kind (by decide) (kind_id lower w),
    filter_kind (by decide) (kind_glob w), filter_kind (by decide) (kind_permissions w), filter_kind (by decide) (kind_workflowCall w),
    filter_kind (by decide) (kind_deprecated w), filter_kind (by decide) (kind_ifCond w), List.append_nil, List.nil_append]

/-! ### the sort at the end of `Linter.check` keeps them apart from the rest -/

theorem less_of_less_of_le {x y z : Diag} (h1 : less x y = true) (h2 : less z y = false) : less x z = true := by
  simp only [less] at *
  split at h1 <;> split at h2 <;> split <;> simp_all <;> omega

theorem insertStable_head {x : Diag} {l : List Diag} (h : ∀ z ∈ l, less x z = true) : insertStable x l = x :: l := by
  cases l with
  | nil => rfl
  | cons y ys => simp [insertStable, h y (List.mem_cons_self ..)]

theorem filter_insertStable (p : Diag → Bool) (x : Diag) : ∀ (l : List Diag), l.Pairwise AL.C02R.le →
    (insertStable x l).filter p = if p x then insertStable x (l.filter p) else l.filter p
  | [], _ => by simp [insertStable]; split <;> simp_all
  | y :: ys, hs => by
    have hy := List.pairwise_cons.1 hs
    by_cases hxy : less x y = true
    · simp only [insertStable, hxy, if_true]
      by_cases hpx : p x = true
      · rw [List.filter_cons_of_pos hpx, if_pos hpx]
        refine (insertStable_head ?_).symm
        intro z hz
        have hz' := (List.mem_filter.1 hz).1
        rcases List.mem_cons.1 hz' with rfl | hz'
        · exact hxy
        · exact less_of_less_of_le hxy (hy.1 z hz')
      · rw [List.filter_cons_of_neg hpx, if_neg hpx]
    · have hxy' : less x y = false := by simpa using hxy
      simp only [insertStable, hxy', Bool.false_eq_true, if_false]
      have ih := filter_insertStable p x ys hy.2
      by_cases hpy : p y = true
      · rw [List.filter_cons_of_pos hpy, List.filter_cons_of_pos hpy, ih]
        split
        · simp [insertStable, hxy']
        · rfl
      · rw [List.filter_cons_of_neg hpy, List.filter_cons_of_neg hpy, ih]

theorem filter_foldl_insert (p : Diag → Bool) : ∀ (l acc : List Diag), acc.Pairwise AL.C02R.le →
    (l.foldl (fun acc x => insertStable x acc) acc).filter p = (l.filter p).foldl (fun acc x => insertStable x acc) (acc.filter p)
  | [], _, _ => rfl
  | x :: rest, acc, hs => by
    simp only [List.foldl_cons]
    rw [filter_foldl_insert p rest _ (AL.C02R.insertStable_sorted x acc hs), filter_insertStable p x acc hs]
    by_cases hpx : p x = true
    · rw [List.filter_cons_of_pos hpx, if_pos hpx]; rfl
    · rw [List.filter_cons_of_neg hpx, if_neg hpx]

/-- the stable sort of `Linter.check` commutes with picking out a class of diagnostics -/
theorem filter_stableSort (p : Diag → Bool) (l : List Diag) : (stableSort l).filter p = stableSort (l.filter p) := by
  unfold stableSort
  exact filter_foldl_insert p l [] List.Pairwise.nil

/-- **the CRON diagnostics in the output of the whole-file model** (parser, all rules, the sort): what `AL.Cron.checkCron` says
about the `schedule` entries of the AST the parser builds, stably sorted by position -/
theorem lint_cron_exact (cfg : AL.PW.Cfg) (isNum urlOk : String → Bool) (doc : Node) (lc : LabelCfg) :
    (lint cfg isNum urlOk doc lc).filter isCron = stableSort (cronDiags lc.zoneKnown (AL.PW.parse cfg doc).1) := by
  unfold lint
  simp only [filter_stableSort, List.filter_append, rules_cron_exact]
  have : ((AL.PW.parse cfg doc).2.map ofPErr).filter isCron = [] := by
    apply filter_kind (k := "syntax-check") (by decide)
    exact kindIs_map fun _ => rfl
  rw [this, List.nil_append]

/-- the same inside a project -/
theorem projLint_cron_exact (cfg : AL.PW.Cfg) (isNum urlOk : String → Bool) (env : AL.ProjLint.Env) (doc : Node) :
    (AL.ProjLint.lint cfg isNum urlOk env doc).filter isCron = stableSort (cronDiags env.labels.zoneKnown (AL.PW.parse cfg doc).1) := by
  unfold AL.ProjLint.lint
  simp only [filter_stableSort, List.filter_append, rules_cron_exact, filter_kind (by decide) (kind_wcRule env.calls cfg.lower _),
    filter_kind (by decide) (kind_projAction env.actions _), List.append_nil]
  have : ((AL.PW.parse cfg doc).2.map ofPErr).filter isCron = [] := by
    apply filter_kind (k := "syntax-check") (by decide)
    exact kindIs_map fun _ => rfl
  rw [this, List.nil_append]

/-! ### independence -/

/-- **the CRON diagnostics depend on the `schedule` entries and the known zones only**: two workflows with the same entries get
the same ones, whatever their jobs, their other events, and whatever the other rules are told (`lower`, `isNum`, `urlOk`,
the runner labels of the configuration) -/
theorem cron_independent (lower lower' : String → String) (isNum isNum' urlOk urlOk' : String → Bool) (w w' : Workflow)
    (lc lc' : LabelCfg) (hz : lc.zoneKnown = lc'.zoneKnown) (h : scheduleEntries w = scheduleEntries w') :
    (rules lower isNum urlOk w lc).filter isCron = (rules lower' isNum' urlOk' w' lc').filter isCron := by
  rw [rules_cron_exact, rules_cron_exact]
  unfold cronDiags
  rw [h, hz]

/-- the jobs in particular do not matter -/
theorem cron_independent_of_jobs (lower : String → String) (isNum urlOk : String → Bool) (w : Workflow) (lc : LabelCfg)
    (jobs : Option (List (String × Job))) :
    (rules lower isNum urlOk { w with jobs := jobs } lc).filter isCron = (rules lower isNum urlOk w lc).filter isCron :=
  cron_independent _ _ _ _ _ _ _ _ _ _ rfl rfl

theorem flatMap_congr' {α β} {l : List α} {f g : α → List β} (h : ∀ x ∈ l, f x = g x) : l.flatMap f = l.flatMap g := by
  induction l with
  | nil => rfl
  | cons x rest ih =>
    simp only [List.flatMap_cons]
    rw [h x (List.mem_cons_self ..), ih fun y hy => h y (List.mem_cons_of_mem _ hy)]

/-- entries without a zone prefix: the zone data base does not matter either -/
theorem cron_no_zone_independent (zk zk' : List Char → Bool) (w : Workflow)
    (h : ∀ s ∈ scheduleEntries w, AL.Cron.tzPrefix s.value.toList = false) : cronDiags zk w = cronDiags zk' w := by
  unfold cronDiags
  apply flatMap_congr'
  intro s hs
  unfold AL.Cron.checkCron
  rw [AL.C01C.checkCronL_no_zone (zk := zk) (zk' := zk') (h s hs)]

/-- **a workflow without `schedule` has no CRON diagnostic** -/
theorem no_schedule_no_cron (cfg : AL.PW.Cfg) (isNum urlOk : String → Bool) (doc : Node) (lc : LabelCfg)
    (h : ∀ e ∈ (AL.PW.parse cfg doc).1.on.getD [], ∀ cron p, e ≠ .schedule cron p) :
    ∀ d ∈ lint cfg isNum urlOk doc lc, isCron d = false := by
  have hs : scheduleEntries (AL.PW.parse cfg doc).1 = [] := by
    unfold scheduleEntries
    rw [List.flatMap_eq_nil_iff]
    intro e he
    cases e with
    | schedule cron p => exact absurd rfl (h _ he cron p)
    | _ => rfl
  have := lint_cron_exact cfg isNum urlOk doc lc
  rw [cronDiags, hs] at this
  intro d hd
  have hf : d ∉ (lint cfg isNum urlOk doc lc).filter isCron := by rw [this]; simp [stableSort]
  cases hc : isCron d with
  | false => rfl
  | true => exact absurd (List.mem_filter.2 ⟨hd, hc⟩) hf

/-- conversely every entry is judged: its diagnostics are in the output -/
theorem entry_diags_in_lint (cfg : AL.PW.Cfg) (isNum urlOk : String → Bool) (doc : Node) (lc : LabelCfg) (s : Str)
    (hs : s ∈ scheduleEntries (AL.PW.parse cfg doc).1) :
    ∀ d ∈ ofVerdict s (AL.Cron.checkCron lc.zoneKnown s.value), d ∈ lint cfg isNum urlOk doc lc := by
  intro d hd
  have h1 : d ∈ stableSort (cronDiags lc.zoneKnown (AL.PW.parse cfg doc).1) :=
    (AL.C09R.stableSort_perm _).mem_iff.2 (List.mem_flatMap.2 ⟨s, hs, hd⟩)
  rw [← lint_cron_exact cfg isNum urlOk doc lc] at h1
  exact (List.mem_filter.1 h1).1

/-! ### one entry, spelled out; the entries the model does not judge -/

section
open AL.Cron AL.C01C

/-- **what one entry gets, spelled out**: exactly one of — the guard's diagnostic; the parser's (never for the panic); nothing,
the entry being marked as not judged (a zone other than UTC); `too frequent` with the interval of the first two activations
after the epoch; nothing. Whatever is reported sits at the entry and, for the first two, carries the entry's text -/
theorem cronEntry_cases (zk : List Char → Bool) (s : Str) :
    (AL.Cron.guard s.value.toList = true ∧ cronEntry zk s = [⟨s.pos, "events", "cron-no-schedule", [s.value]⟩] ∧ cronEntryUnmodelled zk s = false) ∨
    (AL.Cron.guard s.value.toList = false ∧ (∃ e, parseL zk s.value.toList = .error e ∧ e ≠ .slicePanic) ∧
      cronEntry zk s = [⟨s.pos, "events", "cron-invalid", [s.value]⟩] ∧ cronEntryUnmodelled zk s = false) ∨
    (AL.Cron.guard s.value.toList = false ∧ (∃ sc z, parseL zk s.value.toList = .ok sc ∧ sc.loc = .zone z) ∧
      cronEntry zk s = [] ∧ cronEntryUnmodelled zk s = true) ∨
    (AL.Cron.guard s.value.toList = false ∧ ∃ sc, parseL zk s.value.toList = .ok sc ∧ (∀ z, sc.loc ≠ .zone z) ∧ tooFrequent sc = true ∧
      cronEntry zk s = [⟨s.pos, "events", "cron-too-frequent", [gapText (gapNanos sc)]⟩] ∧ cronEntryUnmodelled zk s = false) ∨
    (AL.Cron.guard s.value.toList = false ∧ (∃ sc, parseL zk s.value.toList = .ok sc ∧ (∀ z, sc.loc ≠ .zone z) ∧ tooFrequent sc = false) ∧
      cronEntry zk s = [] ∧ cronEntryUnmodelled zk s = false) := by
  have hv : AL.Cron.checkCron zk s.value = checkCronL zk s.value.toList := rfl
  rcases AL.C01C.checkCronL_cases zk s.value.toList with ⟨hg, h⟩ | ⟨hg, e, he, hne, h⟩ | ⟨hg, sc, z, hp, hz, h⟩ | ⟨hg, sc, hp, hz, hf, h⟩ | ⟨hg, sc, hp, hz, hf, h⟩
  · left
    refine ⟨hg, ?_, ?_⟩
    · simp [cronEntry, hv, h, cronDiag, String.ofList_toList]
    · simp [cronEntryUnmodelled, hv, h]
  · right; left
    refine ⟨hg, ⟨e, he, hne⟩, ?_, ?_⟩
    · simp [cronEntry, hv, h, cronDiag, String.ofList_toList]
    · simp [cronEntryUnmodelled, hv, h]
  · right; right; left
    refine ⟨hg, ⟨sc, z, hp, hz⟩, ?_, ?_⟩
    · simp [cronEntry, hv, h]
    · simp [cronEntryUnmodelled, hv, h]
  · right; right; right; left
    refine ⟨hg, sc, hp, hz, hf, ?_, ?_⟩
    · simp [cronEntry, hv, h, cronDiag]
    · simp [cronEntryUnmodelled, hv, h]
  · right; right; right; right
    refine ⟨hg, ⟨sc, hp, hz, hf⟩, ?_, ?_⟩
    · simp [cronEntry, hv, h]
    · simp [cronEntryUnmodelled, hv, h]

/-- the entries the model does not judge (what the driver hands to the other side of the tie): the entries, in source order,
whose spec parses to a schedule in a zone the data base knows (other than UTC / Local) -/
theorem cronUnmodelled_eq (w : Workflow) (lc : LabelCfg) :
    cronUnmodelled w lc = ((scheduleEntries w).filter fun s =>
      match parseL lc.zoneKnown s.value.toList with
      | .ok sc => AL.Cron.guard s.value.toList == false && (match sc.loc with | .zone _ => true | _ => false)
      | .error _ => false).map (·.pos) := by
  unfold cronUnmodelled scheduleEntries
  rw [List.filter_flatMap, List.map_flatMap]
  apply flatMap_congr'
  intro e _
  cases e with
  | schedule cron p =>
    simp only []
    congr 1
    apply List.filter_congr
    intro s _
    rcases cronEntry_cases lc.zoneKnown s with ⟨hg, -, h⟩ | ⟨hg, ⟨e, he, -⟩, -, h⟩ | ⟨hg, ⟨sc, z, hp, hz⟩, -, h⟩ | ⟨hg, sc, hp, hz, -, -, h⟩ | ⟨hg, ⟨sc, hp, hz, -⟩, -, h⟩
    · rw [h]
      cases hp : parseL lc.zoneKnown s.value.toList with
      | error e => rfl
      | ok sc => simp [hg]
    · rw [h, he]
    · rw [h, hp]; simp [hg, hz]
    · rw [h, hp]
      cases hl : sc.loc with
      | zone z => exact absurd hl (hz z)
      | _ => simp
    · rw [h, hp]
      cases hl : sc.loc with
      | zone z => exact absurd hl (hz z)
      | _ => simp
  | _ => simp

/-! ### the number in `cron-too-frequent` -/

theorem toSecs_zeroTime : zeroTime.toSecs = 0 := by decide +kernel
theorem toSecs_epoch : epoch.toSecs = 62135596800 := by decide +kernel

theorem toSecs_mod {c : Civil} (hs : c.s = 0) : c.toSecs % 60 = 0 := by
  unfold Civil.toSecs
  omega

/-- two activations (second 0) one after the other: a positive whole number of minutes apart -/
theorem minutes_apart {t c : Civil} (ht : ValidT t) (hc : ValidT c) (h : After t c) (hts : t.s = 0) (hcs : c.s = 0) :
    ∃ k, 1 ≤ k ∧ c.toSecs = t.toSecs + 60 * k := by
  have h1 := toSecs_lt ht hc h
  have h2 := toSecs_mod hts
  have h3 := toSecs_mod hcs
  exact ⟨(c.toSecs - t.toSecs) / 60, by omega, by omega⟩

theorem gapText_values : gapText 0 = "0" ∧ gapText 60000000000 = "60" ∧ gapText 120000000000 = "120" ∧ gapText 180000000000 = "180" ∧
    gapText 240000000000 = "240" ∧ gapText minDuration = "-9.223372036854776e+09" := by decide +kernel

/-- the interval between two times a whole number `k ≥ 1` of minutes apart, when it is below five minutes -/
theorem subNanos_minutes {t c : Civil} {k : Nat} (hk : 1 ≤ k) (h : c.toSecs = t.toSecs + 60 * k) (hlt : subNanos c t < 300 * 1000000000) :
    subNanos c t = 60000000000 ∨ subNanos c t = 120000000000 ∨ subNanos c t = 180000000000 ∨ subNanos c t = 240000000000 := by
  unfold subNanos maxDuration minDuration at *
  simp only [] at hlt ⊢
  rw [h] at hlt ⊢
  split at hlt
  · omega
  · split at hlt
    · omega
    · rename_i h1 h2
      rw [if_neg h1, if_neg h2]
      omega

/-- **the number in `cron-too-frequent`**: for a schedule the parser builds (its second field is `0`) the interval `checkCron`
looks at, when below five minutes, is 0 (the schedule never fires), 1, 2, 3 or 4 whole minutes — `gapText` prints these as Go's
`%g` does — or the saturated negative duration (`Next(start)` finds nothing after a `start` that exists) -/
theorem too_frequent_text {sc : Sched} (hsec : sc.second = 1) (hf : tooFrequent sc = true) :
    gapText (gapNanos sc) ∈ ["0", "60", "120", "180", "240", "-9.223372036854776e+09"] := by
  obtain ⟨g0, g1, g2, g3, g4, gm⟩ := gapText_values
  have hlt : gapNanos sc < 300 * 1000000000 := by simpa [tooFrequent] using hf
  have fin : ∀ {t c : Civil} {k : Nat}, 1 ≤ k → c.toSecs = t.toSecs + 60 * k → gapNanos sc = subNanos c t →
      gapText (gapNanos sc) ∈ ["0", "60", "120", "180", "240", "-9.223372036854776e+09"] := by
    intro t c k hk h he
    rw [he] at hlt ⊢
    rcases subNanos_minutes hk h hlt with e | e | e | e <;> rw [e] <;> simp [g1, g2, g3, g4]
  cases h1 : next sc epoch with
  | none =>
    cases h2 : next sc zeroTime with
    | none =>
      have he : gapNanos sc = 0 := (never_fires_reported h1 h2).1
      rw [he, g0]; simp
    | some c =>
      obtain ⟨hv, ha, -, -, -, -, -, hs⟩ := next_sound valid_zeroTime h2
      rw [hsec] at hs
      obtain ⟨k, hk, hk'⟩ := minutes_apart valid_zeroTime hv ha rfl (testBit_one hs)
      exact fin hk hk' (by simp [gapNanos, nextTime, h1, h2])
  | some start =>
    obtain ⟨hv, ha, -, -, -, -, -, hs⟩ := next_sound valid_epoch h1
    rw [hsec] at hs
    cases h2 : next sc start with
    | none =>
      have he : gapNanos sc = subNanos zeroTime start := by simp [gapNanos, nextTime, h1, h2]
      have hlt' := toSecs_lt valid_epoch hv ha
      rw [toSecs_epoch] at hlt'
      have : subNanos zeroTime start = minDuration := by
        unfold subNanos maxDuration minDuration
        simp only [toSecs_zeroTime]
        rw [if_neg (by omega), if_pos (by omega)]
      rw [he, this, gm]; simp
    | some c =>
      obtain ⟨hv', ha', -, -, -, -, -, hs'⟩ := next_sound hv h2
      rw [hsec] at hs'
      obtain ⟨k, hk, hk'⟩ := minutes_apart hv hv' ha' (testBit_one hs) (testBit_one hs')
      exact fin hk hk' (by simp [gapNanos, nextTime, h1, h2])

/-- a `too frequent` diagnostic of an entry: at the entry, with one of these numbers -/
theorem too_frequent_arg (zk : List Char → Bool) (s : Str) (d : Diag) (hd : d ∈ cronEntry zk s) (hc : d.code = "cron-too-frequent") :
    d.pos = s.pos ∧ ∃ t ∈ ["0", "60", "120", "180", "240", "-9.223372036854776e+09"], d.args = [t] := by
  rcases cronEntry_cases zk s with ⟨-, h, -⟩ | ⟨-, -, h, -⟩ | ⟨-, -, h, -⟩ | ⟨-, sc, hp, -, hf, h, -⟩ | ⟨-, -, h, -⟩
  · rw [h] at hd; simp at hd; subst hd; simp at hc
  · rw [h] at hd; simp at hd; subst hd; simp at hc
  · rw [h] at hd; simp at hd
  · rw [h] at hd
    simp at hd
    subst hd
    obtain ⟨_, _, _, _, _, _, _, -, -, -, -, -, -, -, -, hsec⟩ := parseL_ok hp
    exact ⟨rfl, _, too_frequent_text hsec hf, rfl⟩
  · rw [h] at hd; simp at hd

end

/-! ### on concrete workflows -/

private def e1 : Str := ⟨"*/4 * * * *", false, ⟨3, 13⟩⟩
private def e2 : Str := ⟨"TZ=UTC", false, ⟨4, 13⟩⟩
private def e3 : Str := ⟨"61 * * * *", false, ⟨5, 13⟩⟩
private def e4 : Str := ⟨"TZ=Asia/Tokyo * * * * *", false, ⟨6, 13⟩⟩
private def e5 : Str := ⟨"0 0 31 2 *", false, ⟨7, 13⟩⟩
private def e6 : Str := ⟨"0 0 * * *", false, ⟨8, 13⟩⟩
private def wf : Workflow := { on := some [.schedule [e1, e2, e3, e4, e5, e6] ⟨2, 3⟩] }
private def tokyo : LabelCfg := { zoneKnown := fun z => z == "Asia/Tokyo".toList }

/-- every outcome once; with the default configuration (no zone known) `TZ=Asia/Tokyo …` is a bad location, with the zone
known it parses and is not judged -/
example : ruleEvents id (fun _ => false) wf =
    [⟨⟨3, 13⟩, "events", "cron-too-frequent", ["240"]⟩, ⟨⟨4, 13⟩, "events", "cron-no-schedule", ["TZ=UTC"]⟩,
     ⟨⟨5, 13⟩, "events", "cron-invalid", ["61 * * * *"]⟩, ⟨⟨6, 13⟩, "events", "cron-invalid", ["TZ=Asia/Tokyo * * * * *"]⟩,
     ⟨⟨7, 13⟩, "events", "cron-too-frequent", ["0"]⟩] := by decide +kernel
example : ruleEvents id (fun _ => false) wf tokyo =
    [⟨⟨3, 13⟩, "events", "cron-too-frequent", ["240"]⟩, ⟨⟨4, 13⟩, "events", "cron-no-schedule", ["TZ=UTC"]⟩,
     ⟨⟨5, 13⟩, "events", "cron-invalid", ["61 * * * *"]⟩, ⟨⟨7, 13⟩, "events", "cron-too-frequent", ["0"]⟩] ∧
    cronUnmodelled wf tokyo = [⟨6, 13⟩] := by decide +kernel

end AL.C09C
