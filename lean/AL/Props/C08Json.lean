import AL.Model.Json
/-
  C08 — "the keywords true, false, null and the contents of string literals stay case-sensitive": the JSON text passed to
  fromJSON is read as written. The model's JSON reader accepts the keywords in lower case only.
-/
namespace AL.Props.C08Json
open AL.Json

/-- `true`, `false`, `null` are values; any other letter case of them is not JSON -/
theorem json_keywords_case_sensitive :
    (parse "true").isSome = true ∧ (parse "false").isSome = true ∧ (parse "null").isSome = true ∧
    (parse "TRUE").isSome = false ∧ (parse "True").isSome = false ∧ (parse "FALSE").isSome = false ∧
    (parse "False").isSome = false ∧ (parse "NULL").isSome = false ∧ (parse "Null").isSome = false ∧
    (parse "[TRUE]").isSome = false ∧ (parse "{\"a\": Null}").isSome = false ∧ (parse "{\"A\": tRue}").isSome = false ∧
    (parse "[true, false, null]").isSome = true := by
  decide +kernel

/-- a JSON string may contain a keyword in any case: it is a string, not a keyword -/
theorem json_string_values_kept :
    (parse "\"TRUE\"").isSome = true ∧ (parse "[\"Null\", \"tRue\"]").isSome = true := by
  decide +kernel

end AL.Props.C08Json
