import AL.Lemmas.C12PJobFin
import AL.Lemmas.C12PEvents
/-
  C12, parser half: **every position of the DOCUMENT is checked under the workflow key GitHub's table gives it.**

  AL.C12R (`every_position_checked_under_its_key`) says, on the AST: a string of `keyedStrs w` — the value strings of the
  AST, each paired with the workflow key of the FIELD it sits in — whose text is bad under that key is reported at that
  string. AL.C03P (`no_value_scalar_dropped`) says, on the document: every value scalar is a value string of the parsed
  AST. The two were joined on "is a value string" only. This file joins them on the KEY:

    `keyedScalars doc` (AL/Spec/KeyedScalars.lean) pairs every value scalar of the yaml.Node tree with the workflow key of
    its POSITION IN THE DOCUMENT — written from the documentation, without the parser (`keyedScalars_fst`: its first
    components are exactly `valueScalars doc`);

    `parser_keeps_key`: for `(v, key) ∈ keyedScalars doc` the parser reports a syntax diagnostic, or there is
    `(s, key) ∈ keyedStrs (parse cfg doc).1` with the text and the position of `v` — THE SAME KEY. A parser that stored, say,
    a step's `working-directory:` into the field of `shell:` would make this false;

    `bad_under_document_key_reported`: a text that is bad under the key of its document position is reported by the
    expression rule at that scalar, or the parser reports; `job_if_secrets_in_document_reported`: `${{ secrets.x }}` in a
    job's `if:` of ANY document.

  How it is proved: bottom-up like C03Parse. Per section the workflow key of the scalars below a key of the section
  (`stepKeyOf`, `jobKeyOf`, `containerKeyOf`, …), and the FIELD ↔ KEY table (`stepK_keyed`, `jobK_keyed`,
  `containerK_keyed`, `environmentK_keyed`, `callInputAttrK_keyed`, `callOutputAttrK_keyed`, `workflowK_keyed`): the field
  the parser's loop stores the scalars of a key in (`AL.C03P.…K`, identified by the `…_store` lemmas of C03Parse, reused
  as they stand through `sect_tag`) is listed by the keyed enumeration of AL.C12R under that workflow key.
  AL/Lemmas/C12PBase.lean (infrastructure), C12PStep, C12PSect (container, services, environment), C12PJob, C12PJobFin,
  C12PEvents; the workflow level is here.

  No position was found where the parser model stores a scalar under a field whose key differs from the documentation's
  key for that position, beyond the one AL.C12R already records: a job's `container.image` (documented row
  `jobs.<job_id>.container.image`, checked under `jobs.<job_id>.container`; the rows are equal) —
  `container_image_document_key` below states the theorem for the documented key.
-/
namespace AL.C12P
open AL.PW AL.Yaml AL.Ast AL.C03P AL.C03R AL.C12R

/-! ## the workflow level -/

/-- the workflow key of the scalars below the top-level key `k` (for the keys whose scalars all lie under one key) -/
def workflowKeyOf (k : String) : String :=
  match k with
  | "run-name" => "run-name"
  | "env" => "env"
  | "concurrency" => "concurrency"
  | _ => ""

theorem workflowKeyKeyed_eq (k : String) (x : Node) (h1 : k ≠ "on") (h2 : k ≠ "jobs") :
    workflowKeyKeyed k x = under (workflowKeyOf k) (workflowKeyScalars k x) := by
  simp only [workflowKeyKeyed]
  split
  all_goals first
    | (exfalso; first | exact h1 rfl | exact h2 rfl)
    | (simp [workflowKeyOf, workflowKeyScalars]; done)

/-- the keyed strings the loop of `parse` holds under the top-level key `k` -/
def workflowKK (k : String) (w : Workflow) : List (Str × String) :=
  match k with
  | "on" => onKStrs (w.on.getD [])
  | "jobs" => (w.jobs.getD []).flatMap fun kv => jobKStrs kv.2
  | _ => tag (workflowKeyOf k) (workflowK k w)

theorem workflowKK_plain (k : String) (w : Workflow) (h1 : k ≠ "on") (h2 : k ≠ "jobs") :
    workflowKK k w = tag (workflowKeyOf k) (workflowK k w) := by
  simp only [workflowKK]

theorem workflowKey_on (cfg : Cfg) (w : Workflow) (kv : KV) (hne : kv.id ≠ "on") : (workflowKey cfg w kv).1.on = w.on := by
  simp only [workflowKey]
  split <;> first | rfl | exact absurd ‹kv.id = _› hne

theorem workflowKey_jobs_pres (cfg : Cfg) (w : Workflow) (kv : KV) (hne : kv.id ≠ "jobs") :
    (workflowKey cfg w kv).1.jobs = w.jobs := by
  simp only [workflowKey]
  split <;> first | rfl | exact absurd ‹kv.id = _› hne

theorem workflowKK_pres (cfg : Cfg) (k : String) (w : Workflow) (kv : KV) (hne : kv.id ≠ k) :
    ∀ p ∈ workflowKK k w, p ∈ workflowKK k (workflowKey cfg w kv).1 := by
  intro p hp
  by_cases h1 : k = "on"
  · subst h1; simp only [workflowKK] at hp ⊢; rw [workflowKey_on cfg w kv hne]; exact hp
  by_cases h2 : k = "jobs"
  · subst h2; simp only [workflowKK] at hp ⊢; rw [workflowKey_jobs_pres cfg w kv hne]; exact hp
  rw [workflowKK_plain k _ h1 h2] at hp ⊢
  exact tag_mono (workflowK_pres cfg k w kv hne) p hp

theorem workflowKeyKK_store (cfg : Cfg) (w : Workflow) (kv : KV) (v : Node) (key : String)
    (hv : (v, key) ∈ workflowKeyKeyed kv.id kv.val) (hc : (workflowKey cfg w kv).2 = []) :
    RepK v key (workflowKK kv.id (workflowKey cfg w kv).1) := by
  by_cases h1 : kv.id = "on"
  · simp only [h1, workflowKeyKeyed] at hv
    simp only [workflowKey, h1] at hc ⊢
    simp only [workflowKK]
    exact parseEvents_leafK cfg _ _ v key hv hc
  by_cases h2 : kv.id = "jobs"
  · simp only [h2, workflowKeyKeyed] at hv
    simp only [workflowKey, h2] at hc ⊢
    simp only [workflowKK, Option.getD_some]
    exact parseJobs_leafK cfg _ v key hv hc
  rw [workflowKeyKeyed_eq _ _ h1 h2] at hv
  rw [workflowKK_plain _ _ h1 h2]
  exact RepK.of_under hv (fun hvk => workflowKey_store cfg w kv v hvk hc)

/-- **the field ↔ key table of the workflow** (the top-level keys whose scalars lie under one workflow key) -/
theorem workflowK_keyed (k : String) (w : Workflow) (h1 : k ≠ "on") (h2 : k ≠ "jobs") :
    ∀ s ∈ workflowK k w, (s, workflowKeyOf k) ∈ keyedStrs w := by
  intro s hs
  simp only [workflowK] at hs
  simp only [keyedStrs, List.mem_append]
  split at hs
  case h_2 => exact absurd rfl h1
  case h_6 => exact absurd rfl h2
  all_goals (simp_all [workflowKeyOf, mem_tag]; done)

theorem workflowKK_final (k : String) (w : Workflow) (hI : ∀ l, w.jobs = some l → l ≠ []) (hj : w.jobs.isNone = false) :
    ∀ p ∈ workflowKK k w, p ∈ keyedStrs w := by
  intro p hp
  by_cases h1 : k = "on"
  · subst h1
    simp only [workflowKK, onKStrs, List.mem_append] at hp
    simp only [keyedStrs, List.mem_append]
    rcases hp with hp | hp
    · exact Or.inl (Or.inl (Or.inl (Or.inr hp)))
    · refine Or.inr ?_
      obtain ⟨s, k'⟩ := p
      obtain ⟨hs, rfl⟩ := mem_tag.1 hp
      refine mem_tag.2 ⟨?_, rfl⟩
      simp only [outValueStrs]
      cases hf : AL.RuleExpr.findCallOutputs (w.on.getD []) with
      | none => simp [hf, outVals] at hs
      | some outs =>
        simp only [hf, outVals] at hs
        simp only
        obtain ⟨l, hl⟩ : ∃ l, w.jobs = some l := by
          cases hw : w.jobs with
          | none => simp [hw] at hj
          | some l => exact ⟨l, rfl⟩
        have hne := hI l hl
        have hout : outs ≠ [] := by
          intro e; simp [e] at hs
        have : (outs.isEmpty || (w.jobs.getD []).isEmpty) = false := by
          cases outs with
          | nil => exact absurd rfl hout
          | cons _ _ =>
            cases l with
            | nil => exact absurd rfl hne
            | cons _ _ => simp [hl]
        simp only [this, Bool.false_eq_true, ↓reduceIte]
        exact hs
  by_cases h2 : k = "jobs"
  · subst h2
    simp only [workflowKK] at hp
    simp only [keyedStrs, List.mem_append]
    exact Or.inl (Or.inr hp)
  rw [workflowKK_plain k _ h1 h2] at hp
  obtain ⟨s, k'⟩ := p
  obtain ⟨hs, rfl⟩ := mem_tag.1 hp
  exact workflowK_keyed k w h1 h2 s hs

/-- **level 4, clean form, with the key** -/
theorem parse_leafK (cfg : Cfg) (doc : Node) (v : Node) (key : String) (hv : (v, key) ∈ keyedScalars doc)
    (hc : (parse cfg doc).2 = []) : RepK v key (keyedStrs (parse cfg doc).1) := by
  simp only [keyedScalars] at hv
  simp only [parse, fixDocPos_content] at hc ⊢
  split at hv
  · rename_i root rest hd
    simp only [hd] at hc ⊢
    simp only [append_nil_iff] at hc
    obtain ⟨⟨⟨hm, hr⟩, hon⟩, hjobs⟩ := hc
    obtain ⟨k, hk⟩ := sect_KK cfg _ root false true (workflowKey cfg) _ "" workflowKeyKeyed v key hv workflowKK hm hr
      (by
        intro kv k st hid hvk hc
        have := hid rfl
        subst this
        exact workflowKeyKK_store cfg st kv v key hvk hc)
      (workflowKK_pres cfg)
    refine hk.mono (workflowKK_final k _ ?_ ?_)
    · exact loop_inv_clean (workflowKey cfg) (fun w => ∀ l, w.jobs = some l → l ≠ [])
        (fun st kv hI hc => workflowKey_jobs cfg st kv hI hc) _ _ (by intro l hl; cases hl) hr
    · cases hj : (loop (workflowKey cfg) {} (parseMapping cfg "workflow" root false true).1).1.jobs.isNone with
      | false => rfl
      | true => simp [hj] at hjobs
  · cases hv

/-! ## the theorems, level by level -/

/-- **the two walks agree on WHICH scalars** (restated from AL/Lemmas/C12PBase.lean): the first components of the keyed walk
are the value scalars of C03Parse, in the same order -/
theorem keyed_walk_lists_value_scalars (doc : Node) : (keyedScalars doc).map Prod.fst = valueScalars doc :=
  keyedScalars_fst doc

/-- **level 2: a step keeps the key.** A value scalar of a step node whose position has the workflow key `key`
(`jobs.<job_id>.steps.name` / `.if` / `.run` / `.working-directory` / `.env` / `.with` / `.continue-on-error` /
`.timeout-minutes`, or `""` for `shell` and `uses`) is a value string of the parsed step LISTED UNDER THAT KEY, or `parseStep`
reports. -/
theorem step_keeps_key (cfg : Cfg) (n : Node) (v : Node) (key : String) (hv : (v, key) ∈ stepKeyed n) :
    (parseStep cfg n).2 ≠ [] ∨ ∃ s, (s, key) ∈ stepKStrs (parseStep cfg n).1 ∧ s.value = v.value ∧ s.pos = v.pos :=
  or_of_clean fun hc => parseStep_leafK cfg n v key hv hc

/-- a container (of a job, or one service) keeps the key: `credentials.*` under `kCred`, `env.*` under `kEnv`, everything
else under the key of the section -/
theorem container_keeps_key (cfg : Cfg) (sec : String) (pos : Yaml.Pos) (n : Node) (kSect kCred kEnv : String) (v : Node)
    (key : String) (hv : (v, key) ∈ containerKeyed kSect kCred kEnv n) :
    (parseContainer cfg sec pos n).2 ≠ [] ∨
      ∃ s, (s, key) ∈ containerKStrs (some (parseContainer cfg sec pos n).1) kSect kCred kEnv kSect ∧
        s.value = v.value ∧ s.pos = v.pos :=
  or_of_clean fun hc => parseContainer_leafK cfg sec pos n kSect kCred kEnv v key hv hc

/-- `environment:` keeps the key: the name under `jobs.<job_id>.environment`, the url under `jobs.<job_id>.environment.url` -/
theorem environment_keeps_key (cfg : Cfg) (pos : Yaml.Pos) (n : Node) (v : Node) (key : String)
    (hv : (v, key) ∈ environmentKeyed n) :
    (parseEnvironment cfg pos n).2 ≠ [] ∨
      ∃ s, (s, key) ∈ environmentKStrs (parseEnvironment cfg pos n).1 ∧ s.value = v.value ∧ s.pos = v.pos :=
  or_of_clean fun hc => parseEnvironment_leafK cfg pos n v key hv hc

/-- **level 3: a job keeps the key.** -/
theorem job_keeps_key (cfg : Cfg) (id : Str) (n : Node) (v : Node) (key : String) (hv : (v, key) ∈ jobKeyed n) :
    (parseJob cfg id n).2 ≠ [] ∨ ∃ s, (s, key) ∈ jobKStrs (parseJob cfg id n).1 ∧ s.value = v.value ∧ s.pos = v.pos :=
  or_of_clean fun hc => parseJob_leafK cfg id n v key hv hc

/-- the `on:` section keeps the key: the `default:` of a `workflow_call` input and the `value:` of a `workflow_call` output
under their rows, everything else without a key -/
theorem on_keeps_key (cfg : Cfg) (pos : Yaml.Pos) (n : Node) (v : Node) (key : String) (hv : (v, key) ∈ onKeyed n) :
    (parseEvents cfg pos n).2 ≠ [] ∨
      ∃ s, (s, key) ∈ onKStrs ((parseEvents cfg pos n).1.getD []) ∧ s.value = v.value ∧ s.pos = v.pos :=
  or_of_clean fun hc => parseEvents_leafK cfg pos n v key hv hc

/-- **C12, parser half: the parser keeps the key.** For every document and every configuration of the parser: a value
scalar `v` of the document whose position has the workflow key `key` is a value string of the AST — same text, same
position — that the keyed enumeration of the AST (`AL.C12R.keyedStrs`, the strings the rule checks, each with the key it is
checked under) lists UNDER THE SAME KEY; or the parser reports a syntax diagnostic. -/
theorem parser_keeps_key (cfg : Cfg) (doc : Node) (v : Node) (key : String) (hv : (v, key) ∈ keyedScalars doc) :
    (parse cfg doc).2 ≠ [] ∨ ∃ s, (s, key) ∈ keyedStrs (parse cfg doc).1 ∧ s.value = v.value ∧ s.pos = v.pos :=
  or_of_clean fun hc => parse_leafK cfg doc v key hv hc

/-- the same for a silent parser -/
theorem parser_keeps_key_clean (cfg : Cfg) (doc : Node) (v : Node) (key : String) (hv : (v, key) ∈ keyedScalars doc)
    (hc : (parse cfg doc).2 = []) : ∃ s, (s, key) ∈ keyedStrs (parse cfg doc).1 ∧ s.value = v.value ∧ s.pos = v.pos :=
  parse_leafK cfg doc v key hv hc

/-- C03Parse's theorem is the projection of `parser_keeps_key` to the first components -/
theorem no_value_scalar_dropped' (cfg : Cfg) (doc : Node) (v : Node) (hv : v ∈ valueScalars doc) :
    (parse cfg doc).2 ≠ [] ∨ ∃ s ∈ valueStrs (parse cfg doc).1, s.value = v.value ∧ s.pos = v.pos := by
  obtain ⟨key, hk⟩ := every_scalar_keyed doc v hv
  rcases parser_keeps_key cfg doc v key hk with h | ⟨s, hs, e⟩
  · exact Or.inl h
  · exact Or.inr ⟨s, keyed_is_value _ s key hs, e⟩

/-- **C12 end to end (sharp form).** A text that is bad under the workflow key of its DOCUMENT position — every check of it
under that key yields a diagnostic, in the scopes that fold names as the rule does — gets a diagnostic of the expression
rule located at that scalar, or the parser reports a syntax diagnostic; whatever the project's view. -/
theorem bad_under_document_key_reported (cfg : Cfg) (isNum : AL.RuleExpr.IsNumber) (proj : AL.RuleExpr.ProjView) (doc : Node)
    (v : Node) (key : String) (hv : (v, key) ∈ keyedScalars doc) (hbad : BadUnderL cfg.lower key v.value) :
    (parse cfg doc).2 ≠ [] ∨ ∃ d ∈ AL.RuleExpr.rule cfg.lower isNum (parse cfg doc).1 proj, d.site = v.pos := by
  rcases parser_keeps_key cfg doc v key hv with h | ⟨s, hs, hval, hpos⟩
  · exact Or.inl h
  · obtain ⟨d, hd, hsite⟩ := every_position_checked_under_its_key_L cfg.lower isNum (parse cfg doc).1 proj s key hs
      (by rw [hval]; exact hbad)
    exact Or.inr ⟨d, hd, by rw [hsite, hpos]⟩

/-- **C12 end to end.** The same with the hypothesis on every scope (`BadUnder`), for the rule run with any folding
function -/
theorem bad_under_document_key_reported' (cfg : Cfg) (lower : String → String) (isNum : AL.RuleExpr.IsNumber)
    (proj : AL.RuleExpr.ProjView) (doc : Node) (v : Node) (key : String) (hv : (v, key) ∈ keyedScalars doc)
    (hbad : BadUnder key v.value) :
    (parse cfg doc).2 ≠ [] ∨ ∃ d ∈ AL.RuleExpr.rule lower isNum (parse cfg doc).1 proj, d.site = v.pos := by
  rcases parser_keeps_key cfg doc v key hv with h | ⟨s, hs, hval, hpos⟩
  · exact Or.inl h
  · obtain ⟨d, hd, hsite⟩ := every_position_checked_under_its_key_L lower isNum (parse cfg doc).1 proj s key hs
      (by rw [hval]; exact hbad.toL lower)
    exact Or.inr ⟨d, hd, by rw [hsite, hpos]⟩

/-- C03Parse's end-to-end theorem is the special case "bad under every key" -/
theorem placeholder_in_document_reported' (cfg : Cfg) (lower : String → String) (isNum : AL.RuleExpr.IsNumber) (doc : Node)
    (v : Node) (hv : v ∈ valueScalars doc) (hbad : Malformed v.value) :
    (parse cfg doc).2 ≠ [] ∨ ∃ d ∈ AL.RuleExpr.rule lower isNum (parse cfg doc).1, d.site = v.pos := by
  obtain ⟨key, hk⟩ := every_scalar_keyed doc v hv
  exact bad_under_document_key_reported' cfg lower isNum {} doc v key hk (malformed_badUnder hbad key)

/-! ### instances on every document -/

/-- `v` is the value of the `if:` of a job of the document: `jobs: {<id>: {if: v}}` below the root mapping -/
structure IsJobIf (doc v : Node) : Prop where
  path : ∃ root rest kJobs jobs kId job kIf, doc.content = root :: rest ∧ root.kind = .mapping ∧
    (kJobs, jobs) ∈ pairs root.content ∧ kJobs.value = "jobs" ∧ jobs.kind = .mapping ∧
    (kId, job) ∈ pairs jobs.content ∧ job.kind = .mapping ∧ (kIf, v) ∈ pairs job.content ∧ kIf.value = "if"
  scalar : v.kind = .scalar

/-- the `if:` of a job has the key `jobs.<job_id>.if` -/
theorem jobIf_keyed (doc v : Node) (h : IsJobIf doc v) : (v, "jobs.<job_id>.if") ∈ keyedScalars doc := by
  obtain ⟨⟨root, rest, kJobs, jobs, kId, job, kIf, hd, hr, hj, hjv, hjk, hi, hik, hf, hfv⟩, hs⟩ := h
  simp only [keyedScalars, hd, mapKeyed, hr, decide_true, Bool.true_or, ↓reduceIte, List.mem_flatMap]
  refine ⟨(kJobs, jobs), hj, ?_⟩
  simp only [hjv, workflowKeyKeyed, jobsKeyed, mapKeyed, hjk, decide_true, Bool.true_or, ↓reduceIte, List.mem_flatMap]
  refine ⟨(kId, job), hi, ?_⟩
  simp only [jobKeyed, mapKeyed, hik, decide_true, Bool.true_or, ↓reduceIte, List.mem_flatMap]
  refine ⟨(kIf, v), hf, ?_⟩
  simp only [hfv, jobKeyKeyed, leaves_scalar v hs]
  exact mem_under.2 ⟨List.mem_singleton.2 rfl, rfl⟩

/-- **in EVERY document**: `${{ secrets.x }}` as the `if:` of a job gets a diagnostic of the expression rule at that scalar
(`secrets` is not in the row of `jobs.<job_id>.if`), or the parser reports a syntax diagnostic — whatever else the document
contains, whatever the project's view; the folding function is one that leaves `secrets` alone, as `strings.ToLower` does -/
theorem job_if_secrets_in_document_reported (cfg : Cfg) (hl : cfg.lower "secrets" = "secrets") (isNum : AL.RuleExpr.IsNumber)
    (proj : AL.RuleExpr.ProjView) (doc v : Node) (h : IsJobIf doc v) (hval : v.value = "${{ secrets.x }}") :
    (parse cfg doc).2 ≠ [] ∨ ∃ d ∈ AL.RuleExpr.rule cfg.lower isNum (parse cfg doc).1 proj, d.site = v.pos :=
  bad_under_document_key_reported cfg isNum proj doc v "jobs.<job_id>.if" (jobIf_keyed doc v h)
    (by rw [hval]; exact secrets_bad_in_job_if cfg.lower hl)

/-- the one position whose key is not the table's (`AL.C12R.container_image_row`): the scalars the walk lists under
`jobs.<job_id>.container` — the `image` among them — are checked as the documented row `jobs.<job_id>.container.image`
demands, the two rows being equal -/
theorem container_image_document_key (cfg : Cfg) (isNum : AL.RuleExpr.IsNumber) (proj : AL.RuleExpr.ProjView) (doc : Node)
    (v : Node) (hv : (v, "jobs.<job_id>.container") ∈ keyedScalars doc)
    (hbad : BadUnderL cfg.lower "jobs.<job_id>.container.image" v.value) :
    (parse cfg doc).2 ≠ [] ∨ ∃ d ∈ AL.RuleExpr.rule cfg.lower isNum (parse cfg doc).1 proj, d.site = v.pos :=
  bad_under_document_key_reported cfg isNum proj doc v _ hv (badUnderL_congr container_image_row cfg.lower _ hbad)

/-! ## instances: the hypotheses are met by ordinary documents, both disjuncts occur, and the key matters -/

section Examples

/-! level 2: a step -/

/--
```
- run: make
  shell: bash
  working-directory: src
```
-/
def exStepK : Node :=
  mp 1 3 [key "run" 1 3, sc "!!str" "make" 1 8, key "shell" 2 3, sc "!!str" "bash" 2 10,
    key "working-directory" 3 3, sc "!!str" "src" 3 22]

/-- `run` and `working-directory` have rows of the table, `shell` has none -/
theorem exStepK_keyed : stepKeyed exStepK = [(sc "!!str" "make" 1 8, "jobs.<job_id>.steps.run"), (sc "!!str" "bash" 2 10, ""),
    (sc "!!str" "src" 3 22, "jobs.<job_id>.steps.working-directory")] := rfl

/-- second disjunct: the step parses silently; the `working-directory` scalar is listed under
`jobs.<job_id>.steps.working-directory` — and NOT under the key of `shell:` (no key), which is where a parser that mixed
the two fields up would put it -/
example (cfg : Cfg) : (parseStep cfg exStepK).2 = [] ∧
    (∃ s, (s, "jobs.<job_id>.steps.working-directory") ∈ stepKStrs (parseStep cfg exStepK).1 ∧ s.value = "src" ∧ s.pos = ⟨3, 22⟩) ∧
    ¬ ∃ s, (s, "") ∈ stepKStrs (parseStep cfg exStepK).1 ∧ s.pos = ⟨3, 22⟩ := by
  refine ⟨rfl, ?_, ?_⟩
  · have hv : (sc "!!str" "src" 3 22, "jobs.<job_id>.steps.working-directory") ∈ stepKeyed exStepK := by
      rw [exStepK_keyed]; simp
    exact (step_keeps_key cfg exStepK _ _ hv).resolve_left (fun h => h rfl)
  · rw [show stepKStrs (parseStep cfg exStepK).1 = [(⟨"make", false, ⟨1, 8⟩⟩, "jobs.<job_id>.steps.run"),
      (⟨"bash", false, ⟨2, 10⟩⟩, ""), (⟨"src", false, ⟨3, 22⟩⟩, "jobs.<job_id>.steps.working-directory")] from rfl]
    simp

/-- `working-directory: [src]`: first disjunct — `parseStep` reports — and `src` is not a string of the step at all -/
example (cfg : Cfg) : (sc "!!str" "src" 2 23, "jobs.<job_id>.steps.working-directory") ∈ stepKeyed exStepBad ∧
    (parseStep cfg exStepBad).2 ≠ [] := by
  refine ⟨?_, by rw [show (parseStep cfg exStepBad).2 = [⟨⟨2, 22⟩, "not-scalar-string", ["sequence", "!!seq"]⟩] from rfl]; simp⟩
  rw [show stepKeyed exStepBad = [(sc "!!str" "make" 1 8, "jobs.<job_id>.steps.run"),
    (sc "!!str" "src" 2 23, "jobs.<job_id>.steps.working-directory")] from rfl]; simp

/-! a container, an environment -/

/-- `{image: img, credentials: {username: us, password: pw}, env: {B: b}}` -/
def exContainer : Node :=
  mp 15 16 [key "image" 15 17, sc "!!str" "img" 15 24,
    key "credentials" 15 29, mp 15 42 [key "username" 15 43, sc "!!str" "us" 15 53, key "password" 15 57, sc "!!str" "pw" 15 67],
    key "env" 15 72, mp 15 77 [key "B" 15 78, sc "!!str" "b" 15 81]]

theorem exContainer_keyed : containerKeyed "K" "K.credentials" "K.env" exContainer =
    [(sc "!!str" "img" 15 24, "K"), (sc "!!str" "us" 15 53, "K.credentials"), (sc "!!str" "pw" 15 67, "K.credentials"),
     (sc "!!str" "b" 15 81, "K.env")] := rfl

/-- the password is stored where it is checked under the row of the credentials -/
example : (parseContainer exCfg "container" ⟨15, 5⟩ exContainer).2 = [] ∧
    ∃ s, (s, "K.credentials") ∈ containerKStrs (some (parseContainer exCfg "container" ⟨15, 5⟩ exContainer).1) "K" "K.credentials" "K.env" "K" ∧
      s.value = "pw" ∧ s.pos = ⟨15, 67⟩ := by
  have hc : (parseContainer exCfg "container" ⟨15, 5⟩ exContainer).2 = [] := by decide +kernel
  refine ⟨hc, ?_⟩
  have hv : (sc "!!str" "pw" 15 67, "K.credentials") ∈ containerKeyed "K" "K.credentials" "K.env" exContainer := by
    rw [exContainer_keyed]; simp
  exact (container_keeps_key exCfg "container" ⟨15, 5⟩ exContainer "K" "K.credentials" "K.env" _ _ hv).resolve_left (fun h => h hc)

/-- `{name: prod, url: u}` -/
def exEnvironment : Node := mp 14 18 [key "name" 14 19, sc "!!str" "prod" 14 25, key "url" 14 31, sc "!!str" "u" 14 36]

theorem exEnvironment_keyed : environmentKeyed exEnvironment =
    [(sc "!!str" "prod" 14 25, "jobs.<job_id>.environment"), (sc "!!str" "u" 14 36, "jobs.<job_id>.environment.url")] := rfl

example : (parseEnvironment exCfg ⟨14, 5⟩ exEnvironment).2 = [] ∧
    ∃ s, (s, "jobs.<job_id>.environment.url") ∈ environmentKStrs (parseEnvironment exCfg ⟨14, 5⟩ exEnvironment).1 ∧
      s.value = "u" ∧ s.pos = ⟨14, 36⟩ := by
  have hc : (parseEnvironment exCfg ⟨14, 5⟩ exEnvironment).2 = [] := by decide +kernel
  refine ⟨hc, ?_⟩
  have hv : (sc "!!str" "u" 14 36, "jobs.<job_id>.environment.url") ∈ environmentKeyed exEnvironment := by
    rw [exEnvironment_keyed]; simp
  exact (environment_keeps_key exCfg ⟨14, 5⟩ exEnvironment _ _ hv).resolve_left (fun h => h hc)

/-- the scalar form `environment: prod` -/
example : environmentKeyed (sc "!!str" "prod" 14 18) = [(sc "!!str" "prod" 14 18, "jobs.<job_id>.environment")] := rfl

/-! level 3: a job -/

/--
```
build:
  if: ${{ secrets.x }}
  runs-on: ubuntu-latest
  environment: {name: prod, url: u}
  container: {image: img, credentials: {username: us, password: pw}, env: {B: b}}
  services:
    db: {image: redis, env: {C: c}}
  steps:
    - run: make
      shell: bash
      working-directory: src
```
-/
def exJobK : Node :=
  mp 12 5 [key "if" 12 5, sc "!!str" "${{ secrets.x }}" 12 9,
    key "runs-on" 13 5, sc "!!str" "ubuntu-latest" 13 14,
    key "environment" 14 5, exEnvironment,
    key "container" 15 5, exContainer,
    key "services" 16 5, mp 17 7 [key "db" 17 7, mp 17 11 [key "image" 17 12, sc "!!str" "redis" 17 19,
      key "env" 17 26, mp 17 31 [key "C" 17 32, sc "!!str" "c" 17 35]]],
    key "steps" 18 5, sq 19 7 [mp 19 9 [key "run" 19 9, sc "!!str" "make" 19 14, key "shell" 20 9, sc "!!str" "bash" 20 16,
      key "working-directory" 21 9, sc "!!str" "src" 21 28]]]

theorem exJobK_keyed : jobKeyed exJobK =
    [(sc "!!str" "${{ secrets.x }}" 12 9, "jobs.<job_id>.if"),
     (sc "!!str" "ubuntu-latest" 13 14, "jobs.<job_id>.runs-on"),
     (sc "!!str" "prod" 14 25, "jobs.<job_id>.environment"),
     (sc "!!str" "u" 14 36, "jobs.<job_id>.environment.url"),
     (sc "!!str" "img" 15 24, "jobs.<job_id>.container"),
     (sc "!!str" "us" 15 53, "jobs.<job_id>.container.credentials"),
     (sc "!!str" "pw" 15 67, "jobs.<job_id>.container.credentials"),
     (sc "!!str" "b" 15 81, "jobs.<job_id>.container.env.<env_id>"),
     (sc "!!str" "redis" 17 19, "jobs.<job_id>.services"),
     (sc "!!str" "c" 17 35, "jobs.<job_id>.services.<service_id>.env.<env_id>"),
     (sc "!!str" "make" 19 14, "jobs.<job_id>.steps.run"),
     (sc "!!str" "bash" 20 16, ""),
     (sc "!!str" "src" 21 28, "jobs.<job_id>.steps.working-directory")] := rfl

theorem exJobK_clean : (parseJob exCfg ⟨"build", false, ⟨11, 3⟩⟩ exJobK).2 = [] := by decide +kernel

/-- second disjunct: the job parses silently; every one of its thirteen value scalars is a string of the job listed under
the key of the scalar's position -/
example : ∀ p ∈ jobKeyed exJobK,
    ∃ s, (s, p.2) ∈ jobKStrs (parseJob exCfg ⟨"build", false, ⟨11, 3⟩⟩ exJobK).1 ∧ s.value = p.1.value ∧ s.pos = p.1.pos :=
  fun p hp => (job_keeps_key exCfg _ exJobK p.1 p.2 hp).resolve_left (fun h => h exJobK_clean)

/-- a job with `if: [x]`: first disjunct — reported -/
def exJobBadIf : Node :=
  mp 2 5 [key "if" 2 5, sq 2 9 [sc "!!str" "x" 2 10], key "runs-on" 3 5, sc "!!str" "ubuntu-latest" 3 14,
    key "steps" 4 5, sq 5 7 [mp 5 9 [key "run" 5 9, sc "!!str" "make" 5 14]]]

example : (sc "!!str" "x" 2 10, "jobs.<job_id>.if") ∈ jobKeyed exJobBadIf ∧
    (parseJob exCfg ⟨"build", false, ⟨1, 3⟩⟩ exJobBadIf).2 ≠ [] := by
  refine ⟨?_, by decide +kernel⟩
  rw [show jobKeyed exJobBadIf = [(sc "!!str" "x" 2 10, "jobs.<job_id>.if"), (sc "!!str" "ubuntu-latest" 3 14, "jobs.<job_id>.runs-on"),
    (sc "!!str" "make" 5 14, "jobs.<job_id>.steps.run")] from rfl]; simp

/-! the `on:` section -/

/--
```
on:
  push:
    branches: [main]
  workflow_call:
    inputs:
      x: {type: string, default: d}
    outputs:
      out: {description: o, value: v}
```
-/
def exOnK : Node :=
  mp 3 3 [key "push" 3 3, mp 4 5 [key "branches" 4 5, sq 4 15 [sc "!!str" "main" 4 16]],
    key "workflow_call" 5 3, mp 6 5 [
      key "inputs" 6 5, mp 7 7 [key "x" 7 7, mp 7 10 [key "type" 7 11, sc "!!str" "string" 7 17, key "default" 7 25, sc "!!str" "d" 7 34]],
      key "outputs" 8 5, mp 9 7 [key "out" 9 7, mp 9 12 [key "description" 9 13, sc "!!str" "o" 9 26, key "value" 9 29, sc "!!str" "v" 9 36]]]]

theorem exOnK_keyed : onKeyed exOnK =
    [(sc "!!str" "main" 4 16, ""), (sc "!!str" "d" 7 34, "on.workflow_call.inputs.<inputs_id>.default"),
     (sc "!!str" "o" 9 26, ""), (sc "!!str" "v" 9 36, "on.workflow_call.outputs.<output_id>.value")] := rfl

theorem exOnK_clean : (parseEvents exCfg ⟨2, 1⟩ exOnK).2 = [] := by decide +kernel

example : ∀ p ∈ onKeyed exOnK,
    ∃ s, (s, p.2) ∈ onKStrs ((parseEvents exCfg ⟨2, 1⟩ exOnK).1.getD []) ∧ s.value = p.1.value ∧ s.pos = p.1.pos :=
  fun p hp => (on_keeps_key exCfg ⟨2, 1⟩ exOnK p.1 p.2 hp).resolve_left (fun h => h exOnK_clean)

/-! level 4 and the end-to-end corollaries -/

/--
```
run-name: ${{ github }}
on:
  workflow_call:
    inputs:
      x: {type: string, default: d}
    outputs:
      out: {value: v}
env:
  A: a
jobs:
  build: … exJobK …
```
-/
def exDocK : Node :=
  .mk .document "" "" false 1 1 [mp 1 1 [key "run-name" 1 1, sc "!!str" "${{ github }}" 1 11,
    key "on" 2 1, mp 3 3 [key "workflow_call" 3 3, mp 4 5 [
      key "inputs" 4 5, mp 5 7 [key "x" 5 7, mp 5 10 [key "type" 5 11, sc "!!str" "string" 5 17, key "default" 5 25, sc "!!str" "d" 5 34]],
      key "outputs" 6 5, mp 7 7 [key "out" 7 7, mp 7 12 [key "value" 7 13, sc "!!str" "v" 7 20]]]],
    key "env" 8 1, mp 9 3 [key "A" 9 3, sc "!!str" "a" 9 6],
    key "jobs" 10 1, mp 11 3 [key "build" 11 3, exJobK]]]

/-- every value scalar of the document with the key of its position -/
theorem exDocK_keyed : keyedScalars exDocK =
    [(sc "!!str" "${{ github }}" 1 11, "run-name"),
     (sc "!!str" "d" 5 34, "on.workflow_call.inputs.<inputs_id>.default"),
     (sc "!!str" "v" 7 20, "on.workflow_call.outputs.<output_id>.value"),
     (sc "!!str" "a" 9 6, "env"),
     (sc "!!str" "${{ secrets.x }}" 12 9, "jobs.<job_id>.if"),
     (sc "!!str" "ubuntu-latest" 13 14, "jobs.<job_id>.runs-on"),
     (sc "!!str" "prod" 14 25, "jobs.<job_id>.environment"),
     (sc "!!str" "u" 14 36, "jobs.<job_id>.environment.url"),
     (sc "!!str" "img" 15 24, "jobs.<job_id>.container"),
     (sc "!!str" "us" 15 53, "jobs.<job_id>.container.credentials"),
     (sc "!!str" "pw" 15 67, "jobs.<job_id>.container.credentials"),
     (sc "!!str" "b" 15 81, "jobs.<job_id>.container.env.<env_id>"),
     (sc "!!str" "redis" 17 19, "jobs.<job_id>.services"),
     (sc "!!str" "c" 17 35, "jobs.<job_id>.services.<service_id>.env.<env_id>"),
     (sc "!!str" "make" 19 14, "jobs.<job_id>.steps.run"),
     (sc "!!str" "bash" 20 16, ""),
     (sc "!!str" "src" 21 28, "jobs.<job_id>.steps.working-directory")] := rfl

/-- the first components are the value scalars of C03Parse -/
example : (keyedScalars exDocK).map Prod.fst = valueScalars exDocK := keyed_walk_lists_value_scalars exDocK

theorem exDocK_clean : (parse exCfg exDocK).2 = [] := by decide +kernel

/-- second disjunct of `parser_keeps_key`, for all seventeen value scalars of the document at once: each is a string of the
AST listed under the key of the scalar's position -/
example : ∀ p ∈ keyedScalars exDocK,
    ∃ s, (s, p.2) ∈ keyedStrs (parse exCfg exDocK).1 ∧ s.value = p.1.value ∧ s.pos = p.1.pos :=
  fun p hp => parser_keeps_key_clean exCfg exDocK p.1 p.2 hp exDocK_clean

/-- the keyed enumeration of the parsed document, computed: the same seventeen pairs (in the order the rule visits them).
A parser that stored `working-directory:` in the field of `shell:` would list `src` under `""` here, and the example above
would fail for it. -/
theorem exDocK_keyedStrs : keyedStrs (parse exCfg exDocK).1 =
    [(⟨"d", false, ⟨5, 34⟩⟩, "on.workflow_call.inputs.<inputs_id>.default"),
     (⟨"${{ github }}", false, ⟨1, 11⟩⟩, "run-name"),
     (⟨"a", false, ⟨9, 6⟩⟩, "env"),
     (⟨"ubuntu-latest", false, ⟨13, 14⟩⟩, "jobs.<job_id>.runs-on"),
     (⟨"${{ secrets.x }}", false, ⟨12, 9⟩⟩, "jobs.<job_id>.if"),
     (⟨"img", false, ⟨15, 24⟩⟩, "jobs.<job_id>.container"),
     (⟨"us", false, ⟨15, 53⟩⟩, "jobs.<job_id>.container.credentials"),
     (⟨"pw", false, ⟨15, 67⟩⟩, "jobs.<job_id>.container.credentials"),
     (⟨"b", false, ⟨15, 81⟩⟩, "jobs.<job_id>.container.env.<env_id>"),
     (⟨"redis", false, ⟨17, 19⟩⟩, "jobs.<job_id>.services"),
     (⟨"c", false, ⟨17, 35⟩⟩, "jobs.<job_id>.services.<service_id>.env.<env_id>"),
     (⟨"make", false, ⟨19, 14⟩⟩, "jobs.<job_id>.steps.run"),
     (⟨"bash", false, ⟨20, 16⟩⟩, ""),
     (⟨"src", false, ⟨21, 28⟩⟩, "jobs.<job_id>.steps.working-directory"),
     (⟨"prod", false, ⟨14, 25⟩⟩, "jobs.<job_id>.environment"),
     (⟨"u", false, ⟨14, 36⟩⟩, "jobs.<job_id>.environment.url"),
     (⟨"v", false, ⟨7, 20⟩⟩, "on.workflow_call.outputs.<output_id>.value")] := by decide +kernel

/-- `no_value_scalar_dropped'` on the document -/
example : ∃ s ∈ valueStrs (parse exCfg exDocK).1, s.value = "src" ∧ s.pos = ⟨21, 28⟩ := by
  refine (no_value_scalar_dropped' exCfg exDocK (sc "!!str" "src" 21 28) ?_).resolve_left (fun h => h exDocK_clean)
  exact keyed_is_scalar exDocK _ "jobs.<job_id>.steps.working-directory" (by rw [exDocK_keyed]; simp)

/-- the job's `if:` is the `if:` of a job -/
theorem exDocK_jobIf : IsJobIf exDocK (sc "!!str" "${{ secrets.x }}" 12 9) :=
  ⟨⟨_, [], key "jobs" 10 1, mp 11 3 [key "build" 11 3, exJobK], key "build" 11 3, exJobK, key "if" 12 5,
    rfl, rfl, by simp [Node.content, mp, pairs], rfl, rfl, by simp [Node.content, mp, pairs], rfl,
    by simp [exJobK, Node.content, mp, pairs], rfl⟩, rfl⟩

example : (sc "!!str" "${{ secrets.x }}" 12 9, "jobs.<job_id>.if") ∈ keyedScalars exDocK := jobIf_keyed _ _ exDocK_jobIf

/-- end to end: `${{ secrets.x }}` in the job's `if:` is reported at 12:9 — the parser being silent, the second disjunct
holds — whatever the project's view -/
example (isNum : AL.RuleExpr.IsNumber) (proj : AL.RuleExpr.ProjView) :
    ∃ d ∈ AL.RuleExpr.rule asciiLower isNum (parse exCfg exDocK).1 proj, d.site = ⟨12, 9⟩ :=
  (job_if_secrets_in_document_reported exCfg (by decide +kernel) isNum proj exDocK _ exDocK_jobIf rfl).resolve_left
    (fun h => h exDocK_clean)

/-- the same through `bad_under_document_key_reported`, the membership read off the computed walk -/
example (isNum : AL.RuleExpr.IsNumber) (proj : AL.RuleExpr.ProjView) :
    ∃ d ∈ AL.RuleExpr.rule asciiLower isNum (parse exCfg exDocK).1 proj, d.site = ⟨12, 9⟩ :=
  (bad_under_document_key_reported exCfg isNum proj exDocK (sc "!!str" "${{ secrets.x }}" 12 9) "jobs.<job_id>.if"
    (by rw [exDocK_keyed]; simp) (secrets_bad_in_job_if _ (by decide +kernel))).resolve_left (fun h => h exDocK_clean)

/--
```
name: ${{
on: push
jobs:
  build:
    runs-on: ubuntu-latest
    container:
      image: ${{ secrets.x }}
    steps:
      - run: make
        shell: ${{ github }}
```
-/
def exDocK2 : Node :=
  .mk .document "" "" false 1 1 [mp 1 1 [key "name" 1 1, sc "!!str" "${{" 1 7, key "on" 2 1, sc "!!str" "push" 2 5,
    key "jobs" 3 1, mp 4 3 [key "build" 4 3, mp 5 5 [key "runs-on" 5 5, sc "!!str" "ubuntu-latest" 5 14,
      key "container" 6 5, mp 7 7 [key "image" 7 7, sc "!!str" "${{ secrets.x }}" 7 14],
      key "steps" 8 5, sq 9 7 [mp 9 9 [key "run" 9 9, sc "!!str" "make" 9 14, key "shell" 10 9, sc "!!str" "${{ github }}" 10 16]]]]]]

theorem exDocK2_keyed : keyedScalars exDocK2 =
    [(sc "!!str" "${{" 1 7, ""), (sc "!!str" "ubuntu-latest" 5 14, "jobs.<job_id>.runs-on"),
     (sc "!!str" "${{ secrets.x }}" 7 14, "jobs.<job_id>.container"), (sc "!!str" "make" 9 14, "jobs.<job_id>.steps.run"),
     (sc "!!str" "${{ github }}" 10 16, "")] := rfl

theorem exDocK2_clean : (parse exCfg exDocK2).2 = [] := by decide +kernel

/-- `bad_under_document_key_reported'`: a step's `shell:` has no key, so no context at all is available there —
`${{ github }}` is reported at 10:16, whatever folding function the rule is run with -/
example (lower : String → String) (isNum : AL.RuleExpr.IsNumber) (proj : AL.RuleExpr.ProjView) :
    ∃ d ∈ AL.RuleExpr.rule lower isNum (parse exCfg exDocK2).1 proj, d.site = ⟨10, 16⟩ :=
  (bad_under_document_key_reported' exCfg lower isNum proj exDocK2 (sc "!!str" "${{ github }}" 10 16) ""
    (by rw [exDocK2_keyed]; simp) github_bad_without_key).resolve_left (fun h => h exDocK2_clean)

/-- `container_image_document_key`: `secrets` is not in the documented row `jobs.<job_id>.container.image` — reported at 7:14 -/
example (isNum : AL.RuleExpr.IsNumber) (proj : AL.RuleExpr.ProjView) :
    ∃ d ∈ AL.RuleExpr.rule asciiLower isNum (parse exCfg exDocK2).1 proj, d.site = ⟨7, 14⟩ :=
  (container_image_document_key exCfg isNum proj exDocK2 (sc "!!str" "${{ secrets.x }}" 7 14)
    (by rw [exDocK2_keyed]; simp)
    (secrets_bad_where_unavailable _ (by decide +kernel) _ (by decide +kernel))).resolve_left (fun h => h exDocK2_clean)

/-- **the one deviation from the table, on the witness** (recorded by AL.C12R, `container_image_row`; not a new finding):
the `image:` of the job's container — documented row `jobs.<job_id>.container.image` — is stored in `Container.Image` and
listed (checked) under the key of the section, `jobs.<job_id>.container`; no string of the parsed document is checked under
`jobs.<job_id>.container.image`. The two rows are equal, so the checks are the same (`container_image_document_key`). -/
theorem observation_container_image_key :
    (⟨"${{ secrets.x }}", false, ⟨7, 14⟩⟩, "jobs.<job_id>.container") ∈ keyedStrs (parse exCfg exDocK2).1 ∧
    (∀ p ∈ keyedStrs (parse exCfg exDocK2).1, p.2 ≠ "jobs.<job_id>.container.image") ∧
    AL.Visit.availability "jobs.<job_id>.container.image" = AL.Visit.availability "jobs.<job_id>.container" := by
  have h : keyedStrs (parse exCfg exDocK2).1 = [(⟨"${{", false, ⟨1, 7⟩⟩, ""),
      (⟨"ubuntu-latest", false, ⟨5, 14⟩⟩, "jobs.<job_id>.runs-on"),
      (⟨"${{ secrets.x }}", false, ⟨7, 14⟩⟩, "jobs.<job_id>.container"), (⟨"make", false, ⟨9, 14⟩⟩, "jobs.<job_id>.steps.run"),
      (⟨"${{ github }}", false, ⟨10, 16⟩⟩, "")] := by decide +kernel
  rw [h]
  refine ⟨by simp, ?_, container_image_row⟩
  intro p hp
  simp only [List.mem_cons, List.not_mem_nil, or_false] at hp
  rcases hp with rfl | rfl | rfl | rfl | rfl <;> decide

/-- `placeholder_in_document_reported'`: the unclosed `${{` of `name:` -/
example (lower : String → String) (isNum : AL.RuleExpr.IsNumber) :
    ∃ d ∈ AL.RuleExpr.rule lower isNum (parse exCfg exDocK2).1, d.site = ⟨1, 7⟩ :=
  (placeholder_in_document_reported' exCfg lower isNum exDocK2 (sc "!!str" "${{" 1 7)
    (keyed_is_scalar exDocK2 _ "" (by rw [exDocK2_keyed]; simp)) malformed_open).resolve_left (fun h => h exDocK2_clean)

/-- a document whose job has `if: [${{ secrets.x }}]`: first disjunct of `parser_keeps_key` and of the end-to-end theorem —
the parser reports (and the scalar is not a string of the AST) -/
def exDocKBad : Node :=
  .mk .document "" "" false 1 1 [mp 1 1 [key "on" 1 1, sc "!!str" "push" 1 5,
    key "jobs" 2 1, mp 3 3 [key "build" 3 3, mp 4 5 [key "if" 4 5, sq 4 9 [sc "!!str" "${{ secrets.x }}" 4 10],
      key "runs-on" 5 5, sc "!!str" "ubuntu-latest" 5 14,
      key "steps" 6 5, sq 7 7 [mp 7 9 [key "run" 7 9, sc "!!str" "make" 7 14]]]]]]

example : (sc "!!str" "${{ secrets.x }}" 4 10, "jobs.<job_id>.if") ∈ keyedScalars exDocKBad ∧
    (parse exCfg exDocKBad).2 = [⟨⟨4, 9⟩, "not-scalar-string", ["sequence", "!!seq"]⟩] ∧
    ¬ ∃ p ∈ keyedStrs (parse exCfg exDocKBad).1, p.1.value = "${{ secrets.x }}" := by
  refine ⟨?_, by decide +kernel, ?_⟩
  · rw [show keyedScalars exDocKBad = [(sc "!!str" "${{ secrets.x }}" 4 10, "jobs.<job_id>.if"),
      (sc "!!str" "ubuntu-latest" 5 14, "jobs.<job_id>.runs-on"), (sc "!!str" "make" 7 14, "jobs.<job_id>.steps.run")] from rfl]
    simp
  · rw [show keyedStrs (parse exCfg exDocKBad).1 = [(⟨"ubuntu-latest", false, ⟨5, 14⟩⟩, "jobs.<job_id>.runs-on"),
      (⟨"", false, ⟨4, 9⟩⟩, "jobs.<job_id>.if"), (⟨"make", false, ⟨7, 14⟩⟩, "jobs.<job_id>.steps.run")] from by decide +kernel]
    simp

end Examples

end AL.C12P
