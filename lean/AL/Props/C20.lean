import AL.Model.Proc
/-
  C20 — shellcheck/pyflakes integration loses nothing and bounds concurrency.
  Statements; proved theorems are added below by name.
-/
namespace AL.C20
open AL.Proc

/-- (a) sanitising keeps the length: reported offsets stay valid. -/
def sanitize_length_statement : Prop := ∀ src : List Nat, (sanitize src).length = src.length

/-- (b) bytes are only ever replaced by `_`: every position either keeps its byte or holds 95. -/
def sanitize_pointwise_statement : Prop :=
  ∀ (src : List Nat) (i : Nat) (h : i < src.length),
    (sanitize src)[i]? = some src[i] ∨ (sanitize src)[i]? = some 95

/-- (c) the first closed placeholder is blanked completely and the text before it is untouched. -/
def sanitize_first_statement : Prop :=
  ∀ (pre body rest : List Nat), indexOf open3 (pre ++ open3 ++ body ++ close2 ++ rest) 0 = some pre.length →
    indexOf close2 (open3 ++ body ++ close2 ++ rest) 0 = some (3 + body.length) →
    sanitize (pre ++ open3 ++ body ++ close2 ++ rest) =
      pre ++ List.replicate (5 + body.length) 95 ++ sanitize rest

/-- (d) text without a closed placeholder is passed through unchanged; sanitising is idempotent. -/
def sanitize_idempotent_statement : Prop := ∀ src : List Nat, sanitize (sanitize src) = sanitize src

/-- (e) shell precedence: step over job default over workflow default over runner default over bash. -/
def shell_precedence_statement : Prop :=
  (∀ s j w r, effectiveShell (some s) j w r = s) ∧
  (∀ j w r, j ≠ "" → effectiveShell none j w r = j) ∧
  (∀ w r, w ≠ "" → effectiveShell none "" w r = w) ∧
  (∀ r, r ≠ "" → effectiveShell none "" "" r = r) ∧
  effectiveShell none "" "" "" = "bash"

/-- (f) no silent drop: every tool outcome other than "ran and produced output" / "exit 0" is a fatal
error, and for shellcheck so is non-JSON output. -/
def no_silent_drop_statement : Prop :=
  (∀ json, shellcheckCallback json .cannotStart = .fatal) ∧
  (∀ json out, shellcheckCallback json (.signaled out) = .fatal) ∧
  (∀ json code, code ≠ 0 → shellcheckCallback json (.exited code []) = .fatal) ∧
  (∀ json code out, json out = none → shellcheckCallback json (.exited code out) = .fatal) ∧
  (∀ json code out n, (code = 0 ∨ out ≠ []) → json out = some n → shellcheckCallback json (.exited code out) = .diags n) ∧
  (pyflakesCallback .cannotStart = .fatal) ∧ (∀ out, pyflakesCallback (.signaled out) = .fatal) ∧
  (∀ code, code ≠ 0 → pyflakesCallback (.exited code []) = .fatal)

/-- the invariant of the concurrency protocol -/
structure Inv (s : State) : Prop where
  permits : s.sema + count s.pcs .running = s.par
  wgCount : s.wg = count s.pcs .added + count s.pcs .running + count s.pcs .released
  afterVisit : s.visiting = false → ∀ p ∈ s.pcs, p = .idle ∨ p = .done
  order1 : s.egWaited = true → s.visiting = false
  order2 : s.procWaited = true → s.egWaited = true ∧ s.wg = 0
  order3 : s.returned = true → s.procWaited = true

/-- (g) the invariant holds initially and is preserved by every enabled action, hence in every
reachable state of every schedule. -/
def inv_reachable_statement : Prop :=
  ∀ (par n : Nat) (sched : List Act) (s : State), exec (init par n) sched = some s → Inv s

/-- (h) THE PROPERTY (concurrency bound): never more tool processes than CPUs. -/
def bounded_statement : Prop :=
  ∀ (par n : Nat) (sched : List Act) (s : State), exec (init par n) sched = some s → count s.pcs .running ≤ par

/-- (i) THE PROPERTY (collection): when `LintFiles` returns, every submitted invocation has finished and
its callback has been collected — nothing is still running, waiting or undelivered. -/
def collected_statement : Prop :=
  ∀ (par n : Nat) (sched : List Act) (s : State), exec (init par n) sched = some s → s.returned = true →
    ∀ p ∈ s.pcs, p = .idle ∨ p = .done

/-- (j) the comment at linter.go:391-396: no `wg.Add` can happen after `proc.wait()` returned. -/
def no_add_after_wait_statement : Prop :=
  ∀ (par n : Nat) (sched : List Act) (s : State) (i : Nat), exec (init par n) sched = some s → s.procWaited = true →
    step s (.submit i) = none

/-- (k) progress: with at least one permit, as long as some invocation is not finished some action is enabled
(no deadlock of the protocol itself). -/
def progress_statement : Prop :=
  ∀ (par n : Nat) (sched : List Act) (s : State), par ≥ 1 → exec (init par n) sched = some s → s.returned = false →
    ∃ a, (step s a).isSome

end AL.C20
