import AL.Model.Proc
import AL.Lemmas.ProcSanitize
import AL.Lemmas.ProcInv
import AL.Lemmas.ProcLive
/-
  C20 — shellcheck/pyflakes integration loses nothing and bounds concurrency.
  Statements; proved theorems are added below by name.
-/
namespace AL.C20
open AL.Proc

/-- (a) sanitising keeps the length: reported offsets stay valid. -/
def sanitize_length_statement : Prop := ∀ src : List Nat, (sanitize src).length = src.length

/-- (b) bytes are only ever replaced by `_`: every position either keeps its byte or holds 95. -/
def sanitize_pointwise_statement : Prop :=
  ∀ (src : List Nat) (i : Nat) (h : i < src.length),
    (sanitize src)[i]? = some src[i] ∨ (sanitize src)[i]? = some 95

/-- (c) the first closed placeholder is blanked completely and the text before it is untouched. -/
def sanitize_first_statement : Prop :=
  ∀ (pre body rest : List Nat), indexOf open3 (pre ++ open3 ++ body ++ close2 ++ rest) 0 = some pre.length →
    indexOf close2 (open3 ++ body ++ close2 ++ rest) 0 = some (3 + body.length) →
    sanitize (pre ++ open3 ++ body ++ close2 ++ rest) =
      pre ++ List.replicate (5 + body.length) 95 ++ sanitize rest

/-- (d) text without a closed placeholder is passed through unchanged; sanitising is idempotent. -/
def sanitize_idempotent_statement : Prop := ∀ src : List Nat, sanitize (sanitize src) = sanitize src

/-- (e) shell precedence: step over job default over workflow default over runner default over bash. -/
def shell_precedence_statement : Prop :=
  (∀ s j w r, effectiveShell (some s) j w r = s) ∧
  (∀ j w r, j ≠ "" → effectiveShell none j w r = j) ∧
  (∀ w r, w ≠ "" → effectiveShell none "" w r = w) ∧
  (∀ r, r ≠ "" → effectiveShell none "" "" r = r) ∧
  effectiveShell none "" "" "" = "bash"

/-- (f) no silent drop: every tool outcome other than "ran and produced output" / "exit 0" is a fatal
error, and for shellcheck so is non-JSON output. -/
def no_silent_drop_statement : Prop :=
  (∀ json, shellcheckCallback json .cannotStart = .fatal) ∧
  (∀ json out, shellcheckCallback json (.signaled out) = .fatal) ∧
  (∀ json code, code ≠ 0 → shellcheckCallback json (.exited code []) = .fatal) ∧
  (∀ json code out, json out = none → shellcheckCallback json (.exited code out) = .fatal) ∧
  (∀ json code out n, (code = 0 ∨ out ≠ []) → json out = some n → shellcheckCallback json (.exited code out) = .diags n) ∧
  (pyflakesCallback .cannotStart = .fatal) ∧ (∀ out, pyflakesCallback (.signaled out) = .fatal) ∧
  (∀ code, code ≠ 0 → pyflakesCallback (.exited code []) = .fatal)

/-- the invariant of the concurrency protocol -/
structure Inv (s : State) : Prop where
  permits : s.sema + count s.pcs .running = s.par
  wgCount : s.wg = count s.pcs .added + count s.pcs .running + count s.pcs .released
  afterVisit : s.visiting = false → ∀ p ∈ s.pcs, p = .idle ∨ p = .done
  order1 : s.egWaited = true → s.visiting = false
  order2 : s.procWaited = true → s.egWaited = true ∧ s.wg = 0
  order3 : s.returned = true → s.procWaited = true

/-- (g) the invariant holds initially and is preserved by every enabled action, hence in every
reachable state of every schedule. -/
def inv_reachable_statement : Prop :=
  ∀ (par n : Nat) (sched : List Act) (s : State), exec (init par n) sched = some s → Inv s

/-- (h) THE PROPERTY (concurrency bound): never more tool processes than CPUs. -/
def bounded_statement : Prop :=
  ∀ (par n : Nat) (sched : List Act) (s : State), exec (init par n) sched = some s → count s.pcs .running ≤ par

/-- (i) THE PROPERTY (collection): when `LintFiles` returns, every submitted invocation has finished and
its callback has been collected — nothing is still running, waiting or undelivered. -/
def collected_statement : Prop :=
  ∀ (par n : Nat) (sched : List Act) (s : State), exec (init par n) sched = some s → s.returned = true →
    ∀ p ∈ s.pcs, p = .idle ∨ p = .done

/-- (j) the comment at linter.go:391-396: no `wg.Add` can happen after `proc.wait()` returned. -/
def no_add_after_wait_statement : Prop :=
  ∀ (par n : Nat) (sched : List Act) (s : State) (i : Nat), exec (init par n) sched = some s → s.procWaited = true →
    step s (.submit i) = none

/-- (k) progress: with at least one permit, as long as some invocation is not finished some action is enabled
(no deadlock of the protocol itself). -/
def progress_statement : Prop :=
  ∀ (par n : Nat) (sched : List Act) (s : State), par ≥ 1 → exec (init par n) sched = some s → s.returned = false →
    ∃ a, (step s a).isSome


/-! ## Proofs -/

/-! ### concrete data used by the `example`s

The scripts are ASCII, so code points = UTF-8 bytes; `"…".toList.map (·.toNat)` is used instead of
`"…".toUTF8.toList.map (·.toNat)` because the kernel cannot unfold `String.toUTF8` (`decide` gets stuck on
`String.toByteArray`); the `#guard`s check (by evaluation) that the two agree. -/

def bytes (s : String) : List Nat := s.toList.map (·.toNat)

/-- `echo ${{ github.sha }} && echo "${{ a }}" }} ${{ unclosed` -/
def exScript : List Nat := bytes "echo ${{ github.sha }} && echo \"${{ a }}\" }} ${{ unclosed"
def exPre : List Nat := bytes "echo "
def exBody : List Nat := bytes " github.sha "
def exRest : List Nat := bytes " && echo \"${{ a }}\" }} ${{ unclosed"
/-- `echo _________________ && echo "________" }} ${{ unclosed` -/
def exSanitized : List Nat := bytes "echo _________________ && echo \"________\" }} ${{ unclosed"

#guard exScript = "echo ${{ github.sha }} && echo \"${{ a }}\" }} ${{ unclosed".toUTF8.toList.map (·.toNat)
#guard exSanitized = "echo _________________ && echo \"________\" }} ${{ unclosed".toUTF8.toList.map (·.toNat)

/-- par = 2, n = 3: a complete run of `LintFiles` -/
def exSched : List Act :=
  [.submit 0, .submit 1, .acquire 0, .submit 2, .acquire 1, .finish 0, .acquire 2, .callback 0,
   .finish 1, .finish 2, .callback 2, .callback 1, .visitDone, .egWait, .procWait, .ret]

/-- the final state of `exSched` -/
def exFinal : State :=
  { par := 2, sema := 2, wg := 0, pcs := [.done, .done, .done], visiting := false, egWaited := true,
    procWaited := true, returned := true }

deriving instance DecidableEq for AL.Proc.State

example : exec (init 2 3) exSched = some exFinal := by decide
/-- after seven actions: two tools running (= par), one callback running, no free permit, wg = 3 -/
example : exec (init 2 3) (exSched.take 7) =
    some { par := 2, sema := 0, wg := 3, pcs := [.released, .running, .running] } := by decide

/-! ### (a) -/

theorem sanitize_length : sanitize_length_statement := AL.Proc.sanitize_length

example : sanitize exScript = exSanitized := by decide
example : (sanitize exScript).length = 57 ∧ exScript.length = 57 := by decide

/-! ### (b) -/

theorem sanitize_pointwise : sanitize_pointwise_statement := fun src i h =>
  AL.Proc.sanitizeAux_pointwise src.length src i h

-- byte 4 (the blank before `${{`) is kept, byte 5 (`$`) becomes `_`, byte 43 (`}` of the stray `}}`) is kept
example : (sanitize exScript)[4]? = some 32 ∧ exScript[4]? = some 32 ∧
    (sanitize exScript)[5]? = some 95 ∧ exScript[5]? = some 36 ∧
    (sanitize exScript)[43]? = some 125 ∧ exScript[43]? = some 125 := by decide

/-! ### (c) -/

theorem sanitize_first : sanitize_first_statement := by
  intro pre body rest h1 h2
  have hd : (pre ++ open3 ++ body ++ close2 ++ rest).drop pre.length
      = open3 ++ body ++ close2 ++ rest := by
    simp [List.append_assoc]
  have h2' : indexOf close2 ((pre ++ open3 ++ body ++ close2 ++ rest).drop pre.length) 0
      = some (3 + body.length) := by rw [hd]; exact h2
  rw [AL.Proc.sanitize_hit _ _ _ h1 h2']
  have ht : (pre ++ open3 ++ body ++ close2 ++ rest).take pre.length = pre := by
    simp [List.append_assoc]
  have hr : (pre ++ open3 ++ body ++ close2 ++ rest).drop (3 + body.length + pre.length + 2) = rest := by
    have : 3 + body.length + pre.length + 2 = (pre ++ open3 ++ body ++ close2).length := by
      simp [open3, close2]; omega
    rw [this, List.drop_left]
  rw [ht, hr]
  have : 3 + body.length + 2 = 5 + body.length := by omega
  rw [this]

-- the hypotheses of (c) are satisfiable, and the instance is non-trivial: `rest` has a second
-- placeholder, a stray `}}` and an unclosed `${{`
example : exScript = exPre ++ open3 ++ exBody ++ close2 ++ exRest := by decide
example : indexOf open3 (exPre ++ open3 ++ exBody ++ close2 ++ exRest) 0 = some exPre.length := by decide
example : indexOf close2 (open3 ++ exBody ++ close2 ++ exRest) 0 = some (3 + exBody.length) := by decide
example : sanitize exRest = bytes " && echo \"________\" }} ${{ unclosed" := by decide
example : sanitize exScript = exPre ++ List.replicate (5 + exBody.length) 95 ++ sanitize exRest :=
  sanitize_first exPre exBody exRest (by decide) (by decide)

/-! ### (d) -/

theorem sanitize_idempotent : sanitize_idempotent_statement := AL.Proc.sanitize_idem

/-- (d), first half of the doc comment: without `${{`, or with a `${{` that is never closed, nothing
changes. -/
theorem sanitize_unchanged (src : List Nat) :
    (indexOf open3 src 0 = none → sanitize src = src) ∧
    (∀ s, indexOf open3 src 0 = some s → indexOf close2 (src.drop s) 0 = none → sanitize src = src) :=
  ⟨AL.Proc.sanitize_noOpen src, fun s h1 h2 => AL.Proc.sanitize_noClose src s h1 h2⟩

example : sanitize (sanitize exScript) = sanitize exScript := by decide
-- the output still contains an (unclosed) `${{` and a `}}` *before* it: they do not pair up
example : indexOf open3 (sanitize exScript) 0 = some 45 ∧ indexOf close2 (sanitize exScript) 0 = some 42 ∧
    indexOf close2 ((sanitize exScript).drop 45) 0 = none := by decide
-- nested `${{ ${{ a }} }}`: the first `}}` closes → `____________ }}`
example : sanitize (bytes "${{ ${{ a }} }}") = bytes "____________ }}" := by decide
-- `$${{ x }}{{ y }}` → `$________{{ y }}`: the kept `$` followed by `_` forms no new `${{`
example : sanitize (bytes "$${{ x }}{{ y }}") = bytes "$________{{ y }}" := by decide
example : sanitize (bytes "echo ${{ unclosed") = bytes "echo ${{ unclosed" := by decide

/-! ### (e) -/

theorem shell_precedence : shell_precedence_statement := by
  refine ⟨fun _ _ _ _ => rfl, ?_, ?_, ?_, by decide⟩
  · intro j w r hj; simp [effectiveShell, hj]
  · intro w r hw; simp [effectiveShell, hw]
  · intro r hr; simp [effectiveShell, hr]

example : effectiveShell (some "pwsh") "sh" "bash" "cmd" = "pwsh" ∧
    effectiveShell none "sh" "bash" "cmd" = "sh" ∧ effectiveShell none "" "python" "cmd" = "python" ∧
    effectiveShell none "" "" "cmd" = "cmd" ∧ effectiveShell none "" "" "" = "bash" := by decide

/-! ### (f) -/

theorem no_silent_drop : no_silent_drop_statement := by
  refine ⟨fun _ => rfl, fun _ _ => rfl, ?_, ?_, ?_, rfl, fun _ => rfl, ?_⟩
  · intro json code hc
    simp [shellcheckCallback, runResult, hc]
  · intro json code out hj
    by_cases hc : ¬code = 0 ∧ out = [] <;> simp [shellcheckCallback, runResult, hc, hj]
  · intro json code out n hc hj
    cases hc with
    | inl h => simp [shellcheckCallback, runResult, h, hj]
    | inr h => simp [shellcheckCallback, runResult, h, hj]
  · intro code hc
    simp [pyflakesCallback, runResult, hc]

-- `json` here: "output starts with `[`" ↦ 1 diagnostic
example :
    let json : List Nat → Option Nat := fun out => if out.head? = some 91 then some 1 else none
    shellcheckCallback json (.exited 1 (bytes "[{\"code\":2086}]")) = .diags 1 ∧
    shellcheckCallback json (.exited 1 (bytes "shellcheck: bad option")) = .fatal ∧
    shellcheckCallback json (.exited 2 []) = .fatal ∧
    shellcheckCallback json (.signaled (bytes "[]")) = .fatal ∧
    pyflakesCallback (.exited 1 (bytes "<stdin>:1:1: undefined name 'x'\n")) = .diags 1 ∧
    pyflakesCallback (.exited 1 (bytes "<stdin>:1:1: unterminated")) = .fatal ∧
    pyflakesCallback (.exited 1 []) = .fatal := by decide

/-! ### (g) -/

theorem inv_of_inv' {s : State} (h : AL.Proc.Inv' s) : Inv s :=
  ⟨h.permits, h.wgCount, h.afterVisit, h.order1, h.order2, h.order3⟩

theorem inv'_of_inv {s : State} (h : Inv s) : AL.Proc.Inv' s :=
  ⟨h.permits, h.wgCount, h.afterVisit, h.order1, h.order2, h.order3⟩

/-- `Inv` is inductive as stated (no strengthening needed) -/
theorem inv_init (par n : Nat) : Inv (init par n) := inv_of_inv' (AL.Proc.init_inv par n)

theorem inv_step (s s' : State) (a : Act) (hi : Inv s) (h : step s a = some s') : Inv s' :=
  inv_of_inv' (AL.Proc.step_inv s s' a (inv'_of_inv hi) h)

theorem inv_reachable : inv_reachable_statement := fun par n sched s h =>
  inv_of_inv' (AL.Proc.reachable_inv par n sched s h)

example : Inv exFinal := inv_reachable 2 3 exSched exFinal (by decide)

/-! ### (h) -/

theorem bounded : bounded_statement := by
  intro par n sched s h
  have hi := AL.Proc.reachable_inv par n sched s h
  have hp := (AL.Proc.exec_par _ _ _ h).1
  have := AL.Proc.inv_bounded s hi
  simp [init] at hp
  omega

-- the bound is attained (two running with par = 2) and the third invocation cannot acquire
example : (exec (init 2 3) (exSched.take 5)).map (fun s => (count s.pcs .running, s.sema)) = some (2, 0) ∧
    exec (init 2 3) (exSched.take 5 ++ [.acquire 2]) = none := by decide

/-! ### (i) -/

theorem collected : collected_statement := fun par n sched s h hr =>
  AL.Proc.inv_collected s (AL.Proc.reachable_inv par n sched s h) hr

-- returning early is impossible: `procWait` is not enabled while a callback is outstanding
example : exec (init 2 3) (exSched.take 11 ++ [.visitDone]) = none ∧
    exec (init 2 1) [.submit 0, .acquire 0, .finish 0, .egWait] = none ∧
    exec (init 2 1) [.visitDone, .egWait, .procWait, .ret] =
      some { par := 2, sema := 2, wg := 0, pcs := [.idle], visiting := false, egWaited := true,
             procWaited := true, returned := true } := by decide

/-! ### (j) -/

theorem no_add_after_wait : no_add_after_wait_statement := fun par n sched s i h hp =>
  AL.Proc.inv_no_add s (AL.Proc.reachable_inv par n sched s h) hp i

-- invocation 0 was never submitted, yet after `procWait` it cannot be any more
example : exec (init 2 1) [.visitDone, .egWait, .procWait, .submit 0] = none := by decide

/-! ### (k) -/

theorem progress : progress_statement := by
  intro par n sched s hpar h hr
  have hi := AL.Proc.reachable_inv par n sched s h
  have hp := (AL.Proc.exec_par _ _ _ h).1
  simp [init] at hp
  exact AL.Proc.inv_progress s hi (by omega) hr

-- in the state after `exSched.take 5` (no free permit, invocation 2 waiting) `finish 0` is enabled
example : (exec (init 2 3) (exSched.take 5)).bind (fun s => step s (.finish 0)) ≠ none := by decide

/-- the hypothesis `par ≥ 1` of (k) is necessary: with a zero-capacity semaphore (`NumCPU = 0`), one
submitted invocation deadlocks the protocol. -/
theorem progress_needs_permit :
    ¬ (∀ (par n : Nat) (sched : List Act) (s : State), exec (init par n) sched = some s → s.returned = false →
      ∃ a, (step s a).isSome) := by
  intro hall
  obtain ⟨a, ha⟩ := hall 0 1 [.submit 0]
    { par := 0, sema := 0, wg := 1, pcs := [.added] } (by decide) rfl
  cases a with
  | submit i => cases i <;> simp [step] at ha
  | acquire i => simp [step] at ha
  | finish i => cases i <;> simp [step] at ha
  | callback i => cases i <;> simp [step] at ha
  | visitDone => simp [step] at ha
  | egWait => simp [step] at ha
  | procWait => simp [step] at ha
  | ret => simp [step] at ha

/-! ### extras -/

/-- (k⁺), stronger than (k): every reachable state (with ≥ 1 permit) can be extended to a state in which
`LintFiles` has returned — the protocol has no deadlock and no unavoidable livelock. -/
def can_return_statement : Prop :=
  ∀ (par n : Nat) (sched : List Act) (s : State), par ≥ 1 → exec (init par n) sched = some s →
    ∃ sched' s', exec (init par n) (sched ++ sched') = some s' ∧ s'.returned = true

theorem can_return : can_return_statement := by
  intro par n sched s hpar h
  have hi := AL.Proc.reachable_inv par n sched s h
  have hp := (AL.Proc.exec_par _ _ _ h).1
  simp [init] at hp
  obtain ⟨sched', s', hex, hret⟩ := AL.Proc.inv_can_return _ s (Nat.le_refl _) hi (by omega)
  exact ⟨sched', s', by rw [AL.Proc.exec_append, h]; exact hex, hret⟩

-- the prefix of length 5 of `exSched` is completed by its remaining 11 actions
example : exec (init 2 3) (exSched.take 5 ++ exSched.drop 5) = some exFinal := by decide

/-- the semaphore capacity and the number of invocations are constants of a run -/
theorem shape_reachable (par n : Nat) (sched : List Act) (s : State)
    (h : exec (init par n) sched = some s) : s.par = par ∧ s.pcs.length = n ∧ s.sema ≤ par := by
  have hp := AL.Proc.exec_par _ _ _ h
  have := AL.Proc.inv_sema_le s (AL.Proc.reachable_inv par n sched s h)
  simp [init] at hp
  omega

end AL.C20
