import AL.Model.Lint
import AL.Lemmas.LintSort
import AL.Lemmas.LintPath
/-
  C15 — ignore patterns are an exact filter; results do not depend on the cwd.
  Statements; proved theorems are added below by name.
-/
namespace AL.C15
open AL.Lint

/-- `l` is sorted and ties keep their original order: the defining property of a stable sort -/
def Sorted (l : List D) : Prop := List.Pairwise (fun a b => less b a = false) l

/-- (a) `stableSort` sorts, permutes, and is stable (elements that compare equal keep their order). -/
def stable_sort_spec_statement : Prop :=
  ∀ l : List D, Sorted (stableSort l) ∧ (stableSort l).Perm l ∧
    ∀ a b : D, less a b = false → less b a = false →
      (stableSort l).filter (fun d => d = a ∨ d = b) = l.filter (fun d => d = a ∨ d = b)

/-- (b) THE PROPERTY (filter part): the output is exactly the unfiltered, sorted list minus the ignored
diagnostics, in unchanged order — although the code filters first and sorts afterwards. -/
def filter_exact_statement : Prop :=
  ∀ (ignored : D → Bool) (path : String) (raw : List D),
    (∀ d d', ignored { d with file := d' } = ignored d) →
    checkTail ignored path raw = (checkTail (fun _ => false) path raw).filter (fun d => !ignored d)

/-- (c) exit status: 1 iff at least one diagnostic remains, 0 iff none, 3 for fatal errors, 2 for
invalid flags. -/
def exit_status_statement : Prop :=
  (∀ n, exitStatus (.done n) = 1 ↔ n ≥ 1) ∧ (∀ n, exitStatus (.done n) = 0 ↔ n = 0) ∧
  exitStatus .fatal = 3 ∧ exitStatus .badFlags = 2

/-- clean absolute path: no "", ".", ".." components -/
def CleanAbs (p : FPath) : Prop := p.abs = true ∧ ∀ c ∈ p.comps, c ≠ "" ∧ c ≠ "." ∧ c ≠ ".."

/-- clean path (absolute or relative; `..` only as a leading run of a relative path) -/
def Clean (p : FPath) : Prop :=
  (∀ c ∈ p.comps, c ≠ "" ∧ c ≠ ".") ∧ (p.abs = true → ∀ c ∈ p.comps, c ≠ "..") ∧
  (∀ i j : Nat, i < j → p.comps[j]? = some ".." → p.comps[i]? = some "..")

/-- (d) `Rel` followed by `Join` gives back the target: the display path denotes the same file. -/
def rel_join_statement : Prop :=
  ∀ base targ : FPath, CleanAbs base → CleanAbs targ →
    ∃ r, rel base targ = some r ∧ join base r = targ

/-- (e) THE PROPERTY (cwd part): the path matched against the `paths` globs is the file's path relative
to the repository root, whatever the working directory and the spelling: it only depends on the
absolute path of the file. -/
def cwd_independent_statement : Prop :=
  ∀ (cwd cwd' root p p' : FPath), CleanAbs cwd → CleanAbs cwd' → CleanAbs root → Clean p → Clean p' →
    absOf cwd p = absOf cwd' p' →
    pathFromProjectRoot cwd root (displayPath cwd p) = pathFromProjectRoot cwd' root (displayPath cwd' p')

/-- (f) and it is the root-relative path: for a file inside the repository, `root / result = file`. -/
def root_relative_statement : Prop :=
  ∀ (cwd root p : FPath), CleanAbs cwd → CleanAbs root → Clean p → knows root (absOf cwd p) = true →
    join root (pathFromProjectRoot cwd root (displayPath cwd p)) = absOf cwd p ∧
    ∀ c ∈ (pathFromProjectRoot cwd root (displayPath cwd p)).comps, c ≠ ".."

/-- (g) attribution: a project knows a path iff its root is a whole-component prefix; in particular a
sibling directory that merely shares a name prefix is not known. -/
def knows_components_statement : Prop :=
  ∀ (root p : FPath), knows root p = true ↔ ∃ rest, p.comps = root.comps ++ rest

/-! ## Proofs -/

/-! ### concrete data used in the examples -/

/-- five raw diagnostics (file not yet set); `tieA` and `tieB` sit at the same position 1:5 -/
def exRaw : List D :=
  [⟨"", 3, 1, "m31", "k"⟩, ⟨"", 1, 5, "tieA", "k"⟩, ⟨"", 2, 7, "m27", "k"⟩, ⟨"", 1, 5, "tieB", "k"⟩,
   ⟨"", 1, 2, "m12", "k"⟩]
/-- an ignore pattern matching only the message `tieA` (does not look at the file) -/
def exIgnored (d : D) : Bool := d.msg == "tieA"

-- `ofString` goes through `String.splitOn`/`startsWith`, which the kernel cannot unfold, so the examples
-- use the parsed component lists; the `#guard`s tie them to the spelled strings (evaluated, not proved).
def exCwd : FPath := ⟨true, ["home", "u", "repo", "sub"]⟩
def exRoot : FPath := ⟨true, ["home", "u", "repo"]⟩
def exP1 : FPath := ⟨false, ["..", ".github", "workflows", "a.yml"]⟩
def exP2 : FPath := ⟨true, ["home", "u", "repo", ".github", "workflows", "a.yml"]⟩
def exP3 : FPath := ⟨false, ["..", ".github", "workflows", "a.yml"]⟩
def exRel : FPath := ⟨false, [".github", "workflows", "a.yml"]⟩
#guard ofString "/home/u/repo/sub" = exCwd
#guard ofString "/home/u/repo" = exRoot
#guard ofString "../.github/workflows/a.yml" = exP1
#guard ofString "/home/u/repo/.github/workflows/a.yml" = exP2
#guard ofString "./x/../../.github/workflows/a.yml" = exP3
#guard exRel.toString = ".github/workflows/a.yml"

theorem cleanAbs_iff (p : FPath) : CleanAbs p ↔ CleanAbsL p := Iff.rfl

theorem cleanAbs_of_clean {p : FPath} (h : Clean p) (ha : p.abs = true) : CleanAbsL p :=
  ⟨ha, fun c hc => ⟨(h.1 c hc).1, (h.1 c hc).2, h.2.1 ha c hc⟩⟩

/-! ### (a) -/

/-- (a) as stated.  The stability clause quantifies over two *values* `a`, `b` that compare equal; it
follows from the cleaner per-key form `stable_sort_key` below, because `less a b = false ∧ less b a =
false ↔ key a = key b` (`AL.Lint.less_incomp_iff`: `less` is a strict weak order). -/
theorem stable_sort_spec : stable_sort_spec_statement := by
  intro l
  refine ⟨stableSort_sorted l, stableSort_perm l, ?_⟩
  intro a b hab hba
  have hk : key a = key b := (less_incomp_iff a b).1 ⟨hab, hba⟩
  have hq : ∀ l' : List D, l'.filter (fun d => d = a ∨ d = b) =
      (l'.filter (fun d => key d = key a)).filter (fun d => d = a ∨ d = b) := by
    intro l'
    rw [List.filter_filter]
    apply List.filter_congr
    intro d _
    by_cases h : d = a ∨ d = b
    · have : key d = key a := by rcases h with rfl | rfl <;> simp [hk]
      simp [h, this]
    · simp [h]
  rw [hq (stableSort l), hq l, stableSort_filter_key]

/-- (a′) the stability clause restated per sort key: every class of diagnostics with the same
(file, line, column) appears in the output exactly as in the input. -/
def stable_sort_key_statement : Prop :=
  ∀ (l : List D) (k : String × Nat × Nat),
    (stableSort l).filter (fun d => key d = k) = l.filter (fun d => key d = k)

theorem stable_sort_key : stable_sort_key_statement := fun l k => stableSort_filter_key k l

/-- incomparable under `less` = same (file, line, column) -/
theorem less_tie_iff_key (a b : D) : (less a b = false ∧ less b a = false) ↔ key a = key b :=
  less_incomp_iff a b

example : stableSort exRaw =
    [⟨"", 1, 2, "m12", "k"⟩, ⟨"", 1, 5, "tieA", "k"⟩, ⟨"", 1, 5, "tieB", "k"⟩, ⟨"", 2, 7, "m27", "k"⟩,
     ⟨"", 3, 1, "m31", "k"⟩] := by decide
example : (stableSort exRaw).filter (fun d => key d = ("", 1, 5)) =
    [⟨"", 1, 5, "tieA", "k"⟩, ⟨"", 1, 5, "tieB", "k"⟩] := by decide
example : less ⟨"", 1, 5, "tieA", "k"⟩ ⟨"", 1, 5, "tieB", "k"⟩ = false ∧
    less ⟨"", 1, 5, "tieB", "k"⟩ ⟨"", 1, 5, "tieA", "k"⟩ = false := by decide

/-! ### (b) -/

theorem filter_exact : filter_exact_statement := by
  intro ignored path raw hign
  unfold checkTail filterErrors
  rw [← stableSort_filter]
  congr 1
  rw [List.filter_map]
  have hall : raw.filter (fun d => !(fun _ => false) d) = raw := List.filter_eq_self.2 (by simp)
  rw [hall]
  congr 1
  apply List.filter_congr
  intro d _
  simp [Function.comp, hign d path]

example : (∀ d d', exIgnored { d with file := d' } = exIgnored d) := fun _ _ => rfl
example : checkTail exIgnored "w.yml" exRaw =
    [⟨"w.yml", 1, 2, "m12", "k"⟩, ⟨"w.yml", 1, 5, "tieB", "k"⟩, ⟨"w.yml", 2, 7, "m27", "k"⟩,
     ⟨"w.yml", 3, 1, "m31", "k"⟩] := by decide
example : checkTail (fun _ => false) "w.yml" exRaw =
    [⟨"w.yml", 1, 2, "m12", "k"⟩, ⟨"w.yml", 1, 5, "tieA", "k"⟩, ⟨"w.yml", 1, 5, "tieB", "k"⟩,
     ⟨"w.yml", 2, 7, "m27", "k"⟩, ⟨"w.yml", 3, 1, "m31", "k"⟩] := by decide

/-- the hypothesis of (b) is needed: `checkTail` filters *before* it overwrites the file, so an `ignored`
that looks at the file (here: "file is empty", true of every raw diagnostic, false once the path is set)
drops everything on the left and nothing on the right. -/
theorem filter_exact_needs_file_irrelevance :
    ¬ ∀ (ignored : D → Bool) (path : String) (raw : List D),
      checkTail ignored path raw = (checkTail (fun _ => false) path raw).filter (fun d => !ignored d) := by
  intro h
  have := h (fun d => d.file == "") "w.yml" [⟨"", 1, 1, "m", "k"⟩]
  revert this
  decide

/-! ### (c) -/

theorem exit_status : exit_status_statement := by
  refine ⟨?_, ?_, rfl, rfl⟩
  · intro n; simp only [exitStatus]; split <;> simp <;> omega
  · intro n; simp only [exitStatus]; split <;> simp <;> omega

example : exitStatus (.done (checkTail exIgnored "w.yml" exRaw).length) = 1 := by decide
example : exitStatus (.done (checkTail (fun _ => true) "w.yml" exRaw).length) = 0 := by decide

/-! ### (d) -/

theorem rel_join : rel_join_statement := by
  intro base targ hb ht
  obtain ⟨r, h1, _, h2⟩ := AL.Lint.rel_join base targ hb ht
  exact ⟨r, h1, h2⟩

example : CleanAbs exCwd ∧ CleanAbs exP2 := by unfold CleanAbs; decide
example : rel exCwd exP2 = some exP1 := by decide
example : join exCwd exP1 = exP2 := by decide

-- the `CleanAbs base` hypothesis matters: with a `..` left in `base` below the common prefix, `Rel` fails
example : rel ⟨true, ["a", ".."]⟩ ⟨true, ["b"]⟩ = none := by decide

/-! ### (e) -/

/-- the matched path is `Rel(root, absolute path of the file)`: the `return path` fallback at the end of
`pathFromProjectRoot` is unreachable for clean absolute `cwd`/`root`. -/
theorem matched_path_eq (cwd root p : FPath) (hc : CleanAbs cwd) (hr : CleanAbs root) (hp : Clean p) :
    rel root (absOf cwd p) = some (pathFromProjectRoot cwd root (displayPath cwd p)) :=
  pathFromProjectRoot_display cwd root p hc hr (cleanAbs_of_clean hp)

theorem cwd_independent : cwd_independent_statement := by
  intro cwd cwd' root p p' hc hc' hr hp hp' heq
  have h1 := matched_path_eq cwd root p hc hr hp
  have h2 := matched_path_eq cwd' root p' hc' hr hp'
  rw [heq, h2] at h1
  exact (Option.some.inj h1).symm

example : CleanAbs exCwd ∧ CleanAbs exRoot ∧ Clean exP2 := by
  refine ⟨by unfold CleanAbs; decide, by unfold CleanAbs; decide, by decide, by decide, ?_⟩
  intro i j _ h
  have : j < exP2.comps.length := by
    rcases Nat.lt_or_ge j exP2.comps.length with h' | h'
    · exact h'
    · rw [List.getElem?_eq_none h'] at h; cases h
  simp only [exP2, List.length_cons, List.length_nil] at this
  have : j = 0 ∨ j = 1 ∨ j = 2 ∨ j = 3 ∨ j = 4 ∨ j = 5 := by omega
  rcases this with rfl | rfl | rfl | rfl | rfl | rfl <;> simp [exP2] at h
example : absOf exCwd exP1 = exP2 ∧ absOf exRoot exRel = exP2 ∧ absOf exCwd exP2 = exP2 := by decide
example : displayPath exCwd exP1 = exP1 ∧ displayPath exCwd exP2 = exP1 ∧ displayPath exRoot exP2 = exRel := by
  decide
example : pathFromProjectRoot exCwd exRoot (displayPath exCwd exP1) = exRel := by decide
example : pathFromProjectRoot exCwd exRoot (displayPath exCwd exP2) = exRel := by decide
example : pathFromProjectRoot exCwd exRoot (displayPath exCwd exP3) = exRel := by decide
example : pathFromProjectRoot exRoot exRoot (displayPath exRoot exRel) = exRel := by decide

/-! ### (f) -/

theorem root_relative : root_relative_statement := by
  intro cwd root p hc hr hp hk
  have hA : CleanAbsL (absOf cwd p) := absOf_cleanAbs cwd p hc.1 (cleanAbs_of_clean hp)
  obtain ⟨r, h1, h2, h3⟩ := rel_of_knows root (absOf cwd p) hr hA hk
  have := matched_path_eq cwd root p hc hr hp
  rw [h1] at this
  cases this
  exact ⟨h2, h3⟩

example : knows exRoot (absOf exCwd exP1) = true := by decide
example : join exRoot (pathFromProjectRoot exCwd exRoot (displayPath exCwd exP1)) = exP2 := by decide

/-! ### (g) -/

theorem knows_components : knows_components_statement := knows_iff

example : knows ⟨true, ["foo", "bar"]⟩ ⟨true, ["foo", "bar", "x.yaml"]⟩ = true := by decide
example : knows ⟨true, ["foo", "bar"]⟩ ⟨true, ["foo", "bar2", "x.yaml"]⟩ = false := by decide
example : knows ⟨true, ["foo", "bar"]⟩ ⟨true, ["foo", "bar"]⟩ = true := by decide

end AL.C15
