import AL.Props.C04
import AL.Props.C04Lex
import AL.Props.C03Parse
import AL.Props.C11Rule
import AL.Lemmas.C04RChain
/-
  C04 on the model of rule_expression.go: **a placeholder whose text is outside the documented expression grammar is
  reported — from the grammar to the diagnostics.**

  AL.C04 ties lexer and parser to the declarative grammar (AL/Spec/ExprLexical.lean: how a token is spelled;
  AL/Spec/ExprGrammar.lean: which token sequences are sentences). Here the grammar is lifted to the TEXT behind a `${{`
  (`Reading`, `InGrammar`, `InGrammarStrict`) and followed through `checkOne` / `checkExprsIn` / the rule / the parser of
  the workflow down to the diagnostics of a document.

    §0  the one syntax code (`syntaxCodes`); the semantic checker never uses it (`check_noSyn`, `checkParsed_noSyn`);
        the verdict of lexer + parser (`accepted`) IS the syntax code of a placeholder, whatever the scope
        (`checkOne_syntax_iff`, `checkOne_syntax_scope_free`)
    §1  the grammar of a placeholder's text; `der_same` (sentences do not depend on positions);
        `accepted_inGrammar` (lexer + parser accept ⇒ in the grammar — from `lex_tiles`, `lexExpression_spelling`,
        `lex_well_ended`, `parse_iff`), `inGrammarStrict_accepted` (in the grammar with longest-match tokens and clean
        characters ⇒ accepted, with the grammar's tree — from `lex_complete` token by token, `parse_iff`)
    §2  from the grammar to `checkOne` / `checkExprsIn`: `violation_syntax_error`, `violation_syntax_error_split`,
        `unterminated_syntax_error`, `not_inGrammar_of_head`, `malformed_of_violation`
    §3  conversely, a syntax code comes from the grammar only: `checkOne_of_inGrammar`, `inGrammar_no_syntax`,
        `syntax_code_outside_grammar`, `syntax_from_first_bad`, `checkExprsIn_syntax_iff`, `no_syntax_of_all_inGrammar`,
        `single_placeholder_noSyn`
    §4  end to end: `grammar_violation_in_workflow_reported`, `grammar_violation_in_document_reported` (with the syntax
        code, with or without a project; over the coverage chain of AL/Lemmas/C04RChain.lean)
    §5  concrete texts: `${{ a b }}`, `${{ 1 + 2 }}`, `${{ a.'b' }}`, `${{ x[ }}`, `${{ "a" }}`, `echo ${{ a` (reported,
        in every scope), `${{ !x }}` (in the grammar: never a syntax code), documents

  The two directions use two readings of "in the grammar", as AL.C04 does at the level of one token (`lex_spelling'` /
  `lex_tiles` vs `lex_complete`): acceptance implies a READING (`InGrammar`); a reading implies acceptance when its tokens
  are longest-match and its characters valid UTF-8 / not NUL (`InGrammarStrict`). Witnesses that neither can be dropped
  and of the other limits, all in §5: `loose_reading_rejected` (`1.a` reads as `1` `.` `a` but `1.` starts a fraction),
  `bom_accepted_outside_grammar` (the byte-order mark: accepted, no diagnostic, not in the grammar — the finding of
  `AL.C04.lex_spelling_counterexample` at the level of the rule), `close_inside_string` (a `}}` inside a string literal does
  not close the placeholder: the theorems speak of the text behind `${{`, not of the text up to the first `}}`),
  `later_violation_not_reported` (a grammar violation behind a placeholder that has a diagnostic of its own is not
  reported: the known limit `placeholders-after-first-diagnostic`).
-/
namespace AL.C04R
open AL AL.Lex AL.Parse AL.Spec AL.Ast AL.Sema AL.RuleExpr

/-! ## 0. the syntax code -/

/-- the codes `checkOne` uses for what lexer and parser reject: ONE code — the model does not keep the lexer's / parser's
message apart (the message texts are the subject of AL.Msg); every `LexMsg` / `ParseMsg` ends up as this code -/
def syntaxCodes : List String := ["syntax-error"]

def isSyntax (e : SemaErr) : Prop := e.code ∈ syntaxCodes

theorem isSyntax_iff (e : SemaErr) : isSyntax e ↔ e.code = "syntax-error" := by
  simp [isSyntax, syntaxCodes]

instance (e : SemaErr) : Decidable (isSyntax e) := by unfold isSyntax; exact inferInstance

/-- a list of diagnostics without a syntax code -/
def NoSyn (es : List SemaErr) : Prop := ∀ e ∈ es, ¬ isSyntax e

theorem NoSyn.nil : NoSyn [] := fun _ h => nomatch h

theorem noSyn_append {a b : List SemaErr} : NoSyn (a ++ b) ↔ NoSyn a ∧ NoSyn b := by
  simp only [NoSyn, List.mem_append]
  exact ⟨fun h => ⟨fun e he => h e (.inl he), fun e he => h e (.inr he)⟩, fun h e he => he.elim (h.1 e) (h.2 e)⟩

theorem syntax_not_local : "syntax-error" ∉ localCodes := by decide
theorem syntax_not_call : "syntax-error" ∉ callCodes := by decide

theorem keep_var_syntax (Γ : Sema.Env) (n : String) : keep "syntax-error" (check Γ (.var n)).errs = [] := by
  apply List.filter_eq_nil_iff.2
  intro x hx
  rw [check_var] at hx
  simp only [wrap_errs] at hx
  split at hx
  · rw [List.mem_singleton.1 hx]; simp [err]
  · split at hx
    · cases hx
    · rw [List.mem_singleton.1 hx]; simp [err]

theorem keep_resolveCall_syntax (Γ : Sema.Env) (c : String) (sigs : List Sig) (fl : Option String) (tys : List Ty) :
    keep "syntax-error" (resolveCall Γ c sigs fl tys).2 = [] := by
  apply List.filter_eq_nil_iff.2
  intro x hx hc
  rw [beq_iff_eq] at hc
  rcases resolveCall_src Γ c sigs fl tys x hx with h | h
  · rw [(specialFuncErrs_mem Γ c x h).1] at hc
    simp [err] at hc
  · rw [hc] at h
    exact syntax_not_call h

mutual
theorem srcErrs_syntax (Γ : Sema.Env) : ∀ (e : E), srcErrs Γ "syntax-error" e = []
  | .null => by simp [srcErrs]
  | .bool => by simp [srcErrs]
  | .num => by simp [srcErrs]
  | .str _ => by simp [srcErrs]
  | .var n => by rw [srcErrs]; exact keep_var_syntax Γ n
  | .objDeref r _ => by rw [srcErrs]; exact srcErrs_syntax Γ r
  | .arrDeref r => by rw [srcErrs]; exact srcErrs_syntax Γ r
  | .index r i => by rw [srcErrs, srcErrs_syntax Γ r, srcErrs_syntax Γ i]; rfl
  | .not e => by rw [srcErrs]; exact srcErrs_syntax Γ e
  | .cmp _ l r => by rw [srcErrs, srcErrs_syntax Γ l, srcErrs_syntax Γ r]; rfl
  | .logical _ l r => by rw [srcErrs, srcErrs_syntax Γ l, srcErrs_syntax Γ r]; rfl
  | .call c args => by
    rw [srcErrs]
    split
    · rfl
    · rw [srcErrsList_syntax Γ args, keep_resolveCall_syntax]; rfl
theorem srcErrsList_syntax (Γ : Sema.Env) : ∀ (es : List E), srcErrsList Γ "syntax-error" es = []
  | [] => by rw [srcErrsList]
  | e :: es => by rw [srcErrsList, srcErrs_syntax Γ e, srcErrsList_syntax Γ es]; rfl
end

/-- **the semantic checker never emits the syntax code**, whatever the environment and the expression -/
theorem check_noSyn (Γ : Sema.Env) (e : E) : NoSyn (check Γ e).errs := by
  intro x hx hc
  rw [isSyntax_iff] at hc
  have : x ∈ keep "syntax-error" (check Γ e).errs := mem_keep.2 ⟨hx, hc⟩
  rw [keep_errs Γ "syntax-error" syntax_not_local e, srcErrs_syntax] at this
  cases this

/-- … nor does the check of a parsed placeholder, with the untrusted-input check on top or not -/
theorem checkParsed_noSyn (cx : Cx) (key : String) (u : Bool) (pe : AL.Parse.Expr) (off : Nat) :
    NoSyn (checkParsed cx key u pe off).2 := by
  unfold checkParsed
  simp only
  generalize hΓ : check _ (toE cx.lower pe) = r
  generalize hU : (if u = true then _ else ([] : List SemaErr)) = us
  have hus : NoSyn us := by
    subst hU
    split
    · intro x hx hc
      rw [isSyntax_iff] at hc
      obtain ⟨p, _, rfl⟩ := List.mem_map.1 hx
      simp [err] at hc
    · exact NoSyn.nil
  split
  · exact NoSyn.nil
  · exact noSyn_append.2 ⟨hΓ ▸ check_noSyn _ _, hus⟩

/-! ### lexer + parser as ONE verdict -/

/-- lexer and parser both accept the text after a `${{` -/
def accepted (src : List Sym) : Bool :=
  match lexExpression src, parseToks (tokens src) with
  | .ok _, .ok _ => true
  | _, _ => false

theorem accepted_iff (src : List Sym) :
    accepted src = true ↔ (∃ ts off, lexExpression src = .ok (ts, off)) ∧ ∃ pe, parseToks (tokens src) = .ok pe := by
  unfold accepted
  constructor
  · intro h
    split at h
    · rename_i r pe h1 h2
      exact ⟨⟨r.1, r.2, h1⟩, pe, h2⟩
    · cases h
  · rintro ⟨⟨ts, off, h1⟩, pe, h2⟩
    rw [h1, h2]

/-- rejected by lexer or parser ⇒ exactly the one syntax diagnostic, and the loop of `checkExprsIn` stops -/
theorem checkOne_of_rejected (cx : Cx) (key : String) (u : Bool) (rest : List Nat)
    (h : accepted (decodeUtf8 rest) = false) : checkOne cx key u rest = (none, [err "syntax-error" []]) := by
  unfold checkOne
  unfold accepted at h
  split
  · rename_i h1 h2
    rw [h1, h2] at h
    cases h
  · rfl

/-- accepted ⇒ the diagnostics are those of the semantic check of the tree -/
theorem checkOne_of_accepted (cx : Cx) (key : String) (u : Bool) (rest : List Nat)
    (h : accepted (decodeUtf8 rest) = true) :
    ∃ ts off pe, lexExpression (decodeUtf8 rest) = .ok (ts, off) ∧ parseToks (tokens (decodeUtf8 rest)) = .ok pe ∧
      checkOne cx key u rest = checkParsed cx key u pe off := by
  obtain ⟨⟨ts, off, h1⟩, pe, h2⟩ := (accepted_iff _).1 h
  refine ⟨ts, off, pe, h1, h2, ?_⟩
  unfold checkOne
  simp only [h1, h2]

/-- **the syntax code of one placeholder is the verdict of lexer + parser** — and of nothing else: not of the scope `cx`,
not of the workflow key, not of the untrusted-input flag -/
theorem checkOne_syntax_iff (cx : Cx) (key : String) (u : Bool) (rest : List Nat) :
    (∃ e ∈ (checkOne cx key u rest).2, isSyntax e) ↔ accepted (decodeUtf8 rest) = false := by
  constructor
  · rintro ⟨e, he, hs⟩
    cases ha : accepted (decodeUtf8 rest) with
    | false => rfl
    | true =>
      obtain ⟨ts, off, pe, -, -, h3⟩ := checkOne_of_accepted cx key u rest ha
      rw [h3] at he
      exact absurd hs (checkParsed_noSyn cx key u pe off e he)
  · intro h
    rw [checkOne_of_rejected cx key u rest h]
    exact ⟨_, List.mem_singleton.2 rfl, by simp [isSyntax, syntaxCodes, err]⟩

/-- a placeholder with a syntax code has exactly that one diagnostic -/
theorem checkOne_syntax_exact (cx : Cx) (key : String) (u : Bool) (rest : List Nat)
    (h : ∃ e ∈ (checkOne cx key u rest).2, isSyntax e) : checkOne cx key u rest = (none, [err "syntax-error" []]) :=
  checkOne_of_rejected cx key u rest ((checkOne_syntax_iff cx key u rest).1 h)

/-- the verdict does not depend on the scope: a syntax code under one scope / key / flag is one under every other -/
theorem checkOne_syntax_scope_free (cx cx' : Cx) (key key' : String) (u u' : Bool) (rest : List Nat)
    (h : ∃ e ∈ (checkOne cx key u rest).2, isSyntax e) : ∃ e ∈ (checkOne cx' key' u' rest).2, isSyntax e :=
  (checkOne_syntax_iff cx' key' u' rest).2 ((checkOne_syntax_iff cx key u rest).1 h)

/-! ## 1. the grammar of a placeholder's text

The documented grammar has two layers: how a token is spelled (`Spelling`, AL/Spec/ExprLexical.lean) and which token
sequences are sentences (`Der`, AL/Spec/ExprGrammar.lean). A text is in the grammar when it can be READ: blanks, a token,
blanks, a token, …, blanks, `}}` — and the tokens are a sentence. -/

/-- what the grammar looks at in a token: kind and text (not where it stands) -/
def kv (t : Tok) : TokKind × List Sym := (t.kind, t.val)

/-- `gaps`, `ts`, `endT` read the text `src` after a `${{` as the expression `e`:
`src = g₀ t₀ g₁ t₁ … gₙ }} …` with blanks `gᵢ`, correctly spelled tokens `tᵢ` that form a sentence denoting `e` -/
structure Reading (src : List Sym) (gaps : List (List Sym)) (ts : List Tok) (endT : Tok) (e : Expr) : Prop where
  len : gaps.length = ts.length + 1
  white : ∀ g ∈ gaps, ∀ s ∈ g, isWhitespace s.r = true
  tiles : AL.C04.interleave gaps (ts ++ [endT]) <+: src
  spelled : ∀ t ∈ ts, t.kind ≠ .end ∧ Spelling t.kind t.val
  close : endT.kind = .end ∧ runes endT.val = [125, 125]
  sentence : Der .or ts e

/-- **the text after `${{` is in the documented grammar** (and denotes `e`) -/
def InGrammar (src : List Sym) (e : Expr) : Prop := ∃ gaps ts endT, Reading src gaps ts endT e

/-- longest match: no token of the reading is continued by the character behind it (`extendsTok`, the side condition of
`AL.C04.lex_complete`); `tail` is the text behind the reading -/
def Greedy : List (List Sym) → List Tok → List Sym → Prop
  | _ :: gs, t :: ts, tail => extendsTok t.kind (nxt (AL.C04.interleave gs ts ++ tail)) = false ∧ Greedy gs ts tail
  | _, _, _ => True

/-- a reading the lexer follows: longest-match tokens; every character of the reading and the one behind `}}` is valid
UTF-8 and not NUL (the scanner reports those); no byte-order mark in front (the scanner drops it) -/
structure StrictReading (src : List Sym) (gaps : List (List Sym)) (ts : List Tok) (endT : Tok) (e : Expr) : Prop
    extends Reading src gaps ts endT e where
  greedy : ∀ tail, src = AL.C04.interleave gaps (ts ++ [endT]) ++ tail → Greedy gaps (ts ++ [endT]) tail
  clean : ∀ tail, src = AL.C04.interleave gaps (ts ++ [endT]) ++ tail →
    ∀ d ∈ AL.C04.interleave gaps (ts ++ [endT]) ++ tail.head?.toList, Clean d
  noBOM : ¬ StartsWithBOM src

def InGrammarStrict (src : List Sym) (e : Expr) : Prop := ∃ gaps ts endT, StrictReading src gaps ts endT e

theorem InGrammarStrict.inGrammar {src : List Sym} {e : Expr} (h : InGrammarStrict src e) : InGrammar src e := by
  obtain ⟨gaps, ts, endT, hr⟩ := h
  exact ⟨gaps, ts, endT, hr.toReading⟩

/-! ### the sentence relation does not look at positions -/

theorem same_append {ts' a b : List Tok} (h : ts'.map kv = (a ++ b).map kv) :
    ∃ a' b', ts' = a' ++ b' ∧ a'.map kv = a.map kv ∧ b'.map kv = b.map kv := by
  rw [List.map_append] at h
  exact List.map_eq_append_iff.mp h

theorem same_cons {ts' : List Tok} {t : Tok} {b : List Tok} (h : ts'.map kv = (t :: b).map kv) :
    ∃ t' b', ts' = t' :: b' ∧ t'.kind = t.kind ∧ t'.val = t.val ∧ b'.map kv = b.map kv := by
  rw [List.map_cons] at h
  obtain ⟨t', b', rfl, h1, h2⟩ := List.map_eq_cons_iff.mp h
  simp only [kv, Prod.mk.injEq] at h1
  exact ⟨t', b', rfl, h1.1, h1.2, h2⟩

theorem same_nil {ts' : List Tok} (h : ts'.map kv = ([] : List Tok).map kv) : ts' = [] := List.map_eq_nil_iff.mp h

theorem same_one {ts' : List Tok} {t : Tok} (h : ts'.map kv = [t].map kv) :
    ∃ t', ts' = [t'] ∧ t'.kind = t.kind ∧ t'.val = t.val := by
  obtain ⟨t', b', rfl, h1, h2, h3⟩ := same_cons h
  rw [same_nil h3]
  exact ⟨t', rfl, h1, h2⟩

/-- **`Der` depends on kinds and texts only** -/
theorem der_same {L : Level} {ts : List Tok} {e : Expr} (h : Der L ts e) :
    ∀ ts' : List Tok, ts'.map kv = ts.map kv → Der L ts' e := by
  refine Der.rec (motive_1 := fun L ts e _ => ∀ ts' : List Tok, ts'.map kv = ts.map kv → Der L ts' e)
    (motive_2 := fun ts es _ => ∀ ts' : List Tok, ts'.map kv = ts.map kv → DerArgs ts' es)
    ?_ ?_ ?_ ?_ ?_ ?_ ?_ ?_ ?_ ?_ ?_ ?_ ?_ ?_ ?_ ?_ ?_ ?_ ?_ ?_ ?_ h
  · intro ts e _ ih ts' h; exact .orUp (ih ts' h)
  · intro l r o el er _ ho _ ih1 ih2 ts' h
    obtain ⟨l', x, rfl, hl, hx⟩ := same_append h
    obtain ⟨o', r', rfl, hk, -, hr⟩ := same_cons hx
    exact .orBin (ih1 l' hl) (hk ▸ ho) (ih2 r' hr)
  · intro ts e _ ih ts' h; exact .andUp (ih ts' h)
  · intro l r o el er _ ho _ ih1 ih2 ts' h
    obtain ⟨l', x, rfl, hl, hx⟩ := same_append h
    obtain ⟨o', r', rfl, hk, -, hr⟩ := same_cons hx
    exact .andBin (ih1 l' hl) (hk ▸ ho) (ih2 r' hr)
  · intro ts e _ ih ts' h; exact .cmpUp (ih ts' h)
  · intro l r o k el er _ ho _ ih1 ih2 ts' h
    obtain ⟨l', x, rfl, hl, hx⟩ := same_append h
    obtain ⟨o', r', rfl, hk, -, hr⟩ := same_cons hx
    exact .cmpBin (ih1 l' hl) (hk ▸ ho) (ih2 r' hr)
  · intro ts e _ ih ts' h; exact .unaryUp (ih ts' h)
  · intro ts o e ho _ ih ts' h
    obtain ⟨o', r', rfl, hk, -, hr⟩ := same_cons h
    exact .unaryNot (hk ▸ ho) (ih r' hr)
  · intro ts e _ ih ts' h; exact .postUp (ih ts' h)
  · intro ts d i e _ hd hi ih ts' h
    obtain ⟨l', x, rfl, hl, hx⟩ := same_append h
    obtain ⟨d', y, rfl, hdk, -, hy⟩ := same_cons hx
    obtain ⟨i', rfl, hik, hiv⟩ := same_one hy
    rw [← hiv]
    exact .postProp (ih l' hl) (hdk ▸ hd) (hik ▸ hi)
  · intro ts d s e _ hd hs ih ts' h
    obtain ⟨l', x, rfl, hl, hx⟩ := same_append h
    obtain ⟨d', y, rfl, hdk, -, hy⟩ := same_cons hx
    obtain ⟨s', rfl, hsk, -⟩ := same_one hy
    exact .postStar (ih l' hl) (hdk ▸ hd) (hsk ▸ hs)
  · intro ts lb idx rb e ei _ hl _ hr ih ih2 ts' h
    obtain ⟨p', z, rfl, hp, hz⟩ := same_append h
    obtain ⟨rb', rfl, hrk, -⟩ := same_one hz
    obtain ⟨l', x, rfl, hl', hx⟩ := same_append hp
    obtain ⟨lb', idx', rfl, hlk, -, hidx⟩ := same_cons hx
    exact Der.postIndex (ih l' hl') (hlk ▸ hl) (ih2 idx' hidx) (hrk ▸ hr)
  · intro t v ht hv ts' h
    obtain ⟨t', rfl, hk, hval⟩ := same_one h
    exact .primInt (hk ▸ ht) (hval ▸ hv)
  · intro t ht hv ts' h
    obtain ⟨t', rfl, hk, hval⟩ := same_one h
    rw [← hval]
    exact .primFloat (hk ▸ ht) (hval ▸ hv)
  · intro t ht ts' h
    obtain ⟨t', rfl, hk, hval⟩ := same_one h
    rw [← hval]
    exact .primStr (hk ▸ ht)
  · intro t ht ts' h
    obtain ⟨t', rfl, hk, hval⟩ := same_one h
    rw [← hval]
    exact .primIdent (hk ▸ ht)
  · intro t lp rp ht hl hr ts' h
    obtain ⟨t', x, rfl, hk, hval, hx⟩ := same_cons h
    obtain ⟨lp', y, rfl, hlk, -, hy⟩ := same_cons hx
    obtain ⟨rp', rfl, hrk, -⟩ := same_one hy
    rw [← hval]
    exact .primCall0 (hk ▸ ht) (hlk ▸ hl) (hrk ▸ hr)
  · intro t lp rp args es ht hl _ hr ih ts' h
    obtain ⟨t', x, rfl, hk, hval, hx⟩ := same_cons h
    obtain ⟨lp', y, rfl, hlk, -, hy⟩ := same_cons hx
    obtain ⟨args', z, rfl, ha, hz⟩ := same_append hy
    obtain ⟨rp', rfl, hrk, -⟩ := same_one hz
    rw [← hval]
    exact .primCall (hk ▸ ht) (hlk ▸ hl) (ih args' ha) (hrk ▸ hr)
  · intro lp ts rp e hl _ hr ih ts' h
    obtain ⟨lp', y, rfl, hlk, -, hy⟩ := same_cons h
    obtain ⟨m', z, rfl, hm, hz⟩ := same_append hy
    obtain ⟨rp', rfl, hrk, -⟩ := same_one hz
    exact .primParen (hlk ▸ hl) (ih m' hm) (hrk ▸ hr)
  · intro ts e _ ih ts' h; exact .one (ih ts' h)
  · intro ts c rest e es _ hc _ ih ih2 ts' h
    obtain ⟨l', x, rfl, hl, hx⟩ := same_append h
    obtain ⟨c', r', rfl, hk, -, hr⟩ := same_cons hx
    exact .more (ih l' hl) (hk ▸ hc) (ih2 r' hr)

/-! ### lexer + parser accept ⇒ the text is in the grammar -/

theorem go_all : ∀ (init : List ATok) (last : ATok) (acc ts : List Tok) (off : Nat),
    last.tok.kind = .end → (∀ a ∈ init, a.tok.kind ≠ .end) →
    lexExpression.go (init ++ [last]) acc = .ok (ts, off) →
    ts = acc ++ (init ++ [last]).map (·.tok) ∧ (∀ a ∈ init, a.err = none) ∧ last.err = none := by
  intro init
  induction init with
  | nil =>
    intro last acc ts off hl _ h
    rw [List.nil_append, go_cons] at h
    cases he : last.err with
    | some e => simp [he] at h
    | none =>
      simp only [he, hl, if_true, Except.ok.injEq, Prod.mk.injEq] at h
      exact ⟨by simp [h.1], by simp, rfl⟩
  | cons a rest ih =>
    intro last acc ts off hl hi h
    rw [List.cons_append, go_cons] at h
    cases he : a.err with
    | some e => simp [he] at h
    | none =>
      have hk : a.tok.kind ≠ .end := hi a (by simp)
      simp only [he, hk, if_false] at h
      obtain ⟨h1, h2, h3⟩ := ih last _ ts off hl (fun b hb => hi b (by simp [hb])) h
      refine ⟨by simp [h1], ?_, h3⟩
      intro b hb
      rcases List.mem_cons.1 hb with rfl | hb
      · exact he
      · exact h2 b hb

theorem go_of_clean : ∀ (init : List ATok) (last : ATok) (acc : List Tok),
    last.tok.kind = .end → (∀ a ∈ init, a.tok.kind ≠ .end) → (∀ a ∈ init, a.err = none) → last.err = none →
    lexExpression.go (init ++ [last]) acc = .ok (acc ++ (init ++ [last]).map (·.tok), last.offset) := by
  intro init
  induction init with
  | nil =>
    intro last acc hl _ _ he
    rw [List.nil_append, go_cons]
    simp [he, hl]
  | cons a rest ih =>
    intro last acc hl hi herr he
    rw [List.cons_append, go_cons]
    have hk : a.tok.kind ≠ .end := hi a (by simp)
    simp only [herr a (by simp), hk, if_false]
    rw [ih last _ hl (fun b hb => hi b (by simp [hb])) (fun b hb => herr b (by simp [hb])) he]
    simp

/-- **lexer + parser accept ⇒ the text is in the documented grammar**, and the tree is the one the grammar assigns
(`AL.C04.lex_tiles`, `lexExpression_spelling`, `lex_well_ended`, `parse_iff`). The byte-order mark: see
`bom_accepted_outside_grammar`. -/
theorem accepted_inGrammar (src : List Sym) (hb : ¬ StartsWithBOM src) (h : accepted src = true) :
    ∃ e, parseToks (tokens src) = .ok e ∧ InGrammar src e := by
  obtain ⟨⟨ts, off, h1⟩, pe, h2⟩ := (accepted_iff src).1 h
  obtain ⟨init, last, htok, hlast, hinit⟩ := AL.C04.lex_well_ended src
  have h1' : lexExpression.go (tokens src) [] = .ok (ts, off) := h1
  obtain ⟨hts, -, hle⟩ := go_all init last [] ts off hlast hinit (by rw [← htok]; exact h1')
  have hp := h2
  rw [htok] at hp
  obtain ⟨hder, -⟩ := (AL.C04.parse_iff init last pe hlast hinit).1 hp
  obtain ⟨gaps, toks, e1, e2, e3, e4, -⟩ := go_tiles (src.length + 2) (lexInit src) [] [] ts off (LInv.init src)
    (lexInit_buf hb) (by have := lexInit_remaining src; omega) h1'
  simp only [List.nil_append] at e1 e4 hts
  subst e1
  have hsp := AL.C04.lexExpression_spelling src ts off hb h1
  refine ⟨pe, h2, gaps, init.map (·.tok), last.tok, ?_⟩
  have hts' : ts = init.map (·.tok) ++ [last.tok] := by rw [hts]; simp
  refine ⟨by rw [e2, hts']; simp, e3, ?_, ?_, ⟨hlast, ?_⟩, hder⟩
  · rw [AL.C04.interleave_eq_weave, ← hts']; exact e4
  · intro t ht
    obtain ⟨a, ha, rfl⟩ := List.mem_map.1 ht
    exact ⟨hinit a ha, (hsp a.tok (by rw [hts']; simp; exact .inl ⟨a, ha, rfl⟩)).1⟩
  · exact (hsp last.tok (by rw [hts']; simp)).2 hlast

/-- **outside the grammar ⇒ rejected** (contrapositive) -/
theorem not_inGrammar_rejected (src : List Sym) (hb : ¬ StartsWithBOM src) (h : ∀ e, ¬ InGrammar src e) :
    accepted src = false := by
  cases ha : accepted src with
  | false => rfl
  | true =>
    obtain ⟨e, -, hg⟩ := accepted_inGrammar src hb ha
    exact absurd hg (h e)

/-! ### in the grammar, longest-match tokens, clean characters ⇒ lexer + parser accept -/

theorem mem_head_append {α : Type} (a b : List α) (d : α) (h : d ∈ (a ++ b).head?.toList) : d ∈ a ++ b.head?.toList := by
  cases a with
  | nil => simpa using h
  | cons x xs =>
    simp at h
    simp [h]

theorem extends_end (o : Option Nat) : extendsTok .end o = false := by cases o <;> rfl

theorem spelling_ne_nil {k : TokKind} {val : List Sym} (hs : Spelling k val) (hk : k ≠ .end) : val ≠ [] := by
  intro h
  subst h
  cases k with
  | float =>
    obtain ⟨ip, frac, exp, hip, -, -, -, hl⟩ := hs
    have hip0 : ip = [] := by
      have := congrArg List.length hl
      simp [runes] at this
      exact List.eq_nil_of_length_eq_zero (by omega)
    subst hip0
    rcases hip with h | ⟨t, h, -⟩
    · rcases h with h | ⟨d, ds, h, -⟩ <;> simp at h
    · simp at h
  | _ => simp [Spelling, runes, DecInt, HexInt, optMinus] at hs hk

theorem interleave_cons (g : List Sym) (gs : List (List Sym)) (t : Tok) (ts : List Tok) :
    AL.C04.interleave (g :: gs) (t :: ts) = g ++ t.val ++ AL.C04.interleave gs ts := rfl

/-- the lexer follows a strict reading token by token -/
theorem lexAll_complete : ∀ (ts : List Tok) (gaps : List (List Sym)) (endT : Tok) (tail : List Sym) (fuel : Nat)
    (st : LexState), gaps.length = ts.length + 1 → (∀ g ∈ gaps, ∀ s ∈ g, isWhitespace s.r = true) →
    (∀ t ∈ ts, t.kind ≠ .end ∧ Spelling t.kind t.val) → endT.kind = .end → runes endT.val = [125, 125] →
    st.buf = [] → st.err = none → st.scan.unread = AL.C04.interleave gaps (ts ++ [endT]) ++ tail →
    Greedy gaps (ts ++ [endT]) tail → (∀ d ∈ AL.C04.interleave gaps (ts ++ [endT]) ++ tail.head?.toList, Clean d) →
    st.scan.remaining < fuel →
    ∃ init last, lexAll fuel st = init ++ [last] ∧ (init.map (·.tok)).map kv = ts.map kv ∧ last.tok.kind = .end ∧
      (∀ a ∈ init, a.err = none) ∧ last.err = none := by
  intro ts
  induction ts with
  | nil =>
    intro gaps endT tail fuel st hlen hw _ hek hev hbuf herr hu _ hcl hrem
    match gaps, hlen with
    | [g], _ =>
      have hne : endT.val ≠ [] := by intro h0; rw [h0] at hev; simp [runes] at hev
      have hu' : st.scan.unread = g ++ endT.val ++ tail := by
        rw [hu]; simp [AL.C04.interleave]
      obtain ⟨a1, -, -, -, a5⟩ := lexNext_complete' (st := st) (k := .end) (gap := g) (val := endT.val) (rest := tail)
        (.inl hev) hne hbuf hu' (hw g (by simp)) (extends_end _)
      have e1 := a5 herr (by
        intro d hd
        apply hcl d
        have := List.mem_of_mem_tail hd
        simp [AL.C04.interleave] at this ⊢
        rcases this with h | h | h
        · exact .inl h
        · exact .inr (.inl h)
        · exact .inr (.inr h))
      match fuel, hrem with
      | n + 1, _ =>
        rw [lexAll_succ, if_pos a1]
        exact ⟨[], _, rfl, rfl, a1, by simp, e1⟩
  | cons t ts ih =>
    intro gaps endT tail fuel st hlen hw hsp hek hev hbuf herr hu hgr hcl hrem
    match gaps, hlen with
    | g :: gs, hlen =>
      have hlen' : gs.length = ts.length + 1 := by simpa using hlen
      obtain ⟨hk, hs⟩ := hsp t (by simp)
      have hne := spelling_ne_nil hs hk
      have hu' : st.scan.unread = g ++ t.val ++ (AL.C04.interleave gs (ts ++ [endT]) ++ tail) := by
        rw [hu, List.cons_append, interleave_cons]; simp [List.append_assoc]
      have hgr' : extendsTok t.kind (nxt (AL.C04.interleave gs (ts ++ [endT]) ++ tail)) = false ∧
          Greedy gs (ts ++ [endT]) tail := hgr
      obtain ⟨a1, a2, a3, a4, a5⟩ := lexNext_complete' (st := st) (k := t.kind) (gap := g) (val := t.val)
        (rest := AL.C04.interleave gs (ts ++ [endT]) ++ tail) hs hne hbuf hu' (hw g (by simp)) hgr'.1
      have hcl' : ∀ d ∈ AL.C04.interleave gs (ts ++ [endT]) ++ tail.head?.toList, Clean d := by
        intro d hd
        apply hcl d
        rw [List.cons_append, interleave_cons]
        simp only [List.append_assoc, List.mem_append] at hd ⊢
        exact .inr (.inr hd)
      have e1 := a5 herr (by
        intro d hd
        apply hcl d
        have h1 := List.mem_of_mem_tail hd
        rw [List.cons_append, interleave_cons]
        simp only [List.append_assoc, List.mem_append] at h1 ⊢
        rcases h1 with h | h | h
        · exact .inl h
        · exact .inr (.inl h)
        · exact .inr (.inr (List.mem_append.1 (mem_head_append _ _ d h))))
      have hk1 : (lexNext st).1.kind ≠ .end := by rw [a1]; exact hk
      match fuel, hrem with
      | n + 1, hrem =>
        have hr := lexNext_remaining st hk1
        obtain ⟨init, last, i1, i2, i3, i4, i5⟩ := ih gs endT tail n (lexNext st).2 hlen'
          (fun g' hg' => hw g' (by simp [hg'])) (fun t' ht' => hsp t' (by simp [ht'])) hek hev a4 e1 a3 hgr'.2 hcl'
          (by omega)
        rw [lexAll_succ, if_neg hk1, i1]
        refine ⟨_ :: init, last, rfl, ?_, i3, ?_, i5⟩
        · simp only [List.map_cons, i2, kv, a1, a2]
        · intro a ha
          rcases List.mem_cons.1 ha with rfl | ha
          · exact e1
          · exact i4 a ha

/-- **a strict reading is what lexer + parser do**: accepted, with the tree the grammar assigns
(`AL.C04.lex_complete` token by token, `parse_iff`) -/
theorem strictReading_accepted {src : List Sym} {gaps : List (List Sym)} {ts : List Tok} {endT : Tok} {e : Expr}
    (h : StrictReading src gaps ts endT e) : accepted src = true ∧ parseToks (tokens src) = .ok e := by
  obtain ⟨tail, htail⟩ := h.tiles
  have hb := h.noBOM
  have hcl := h.clean tail htail.symm
  have herr : (lexInit src).err = none := by
    apply lexInit_err hb
    intro c hc
    apply hcl c
    apply mem_head_append
    rw [htail, hc]; simp
  obtain ⟨init, last, i1, i2, i3, i4, i5⟩ := lexAll_complete ts gaps endT tail (src.length + 2) (lexInit src) h.len h.white
    h.spelled h.close.1 h.close.2 (lexInit_buf hb) herr (by rw [lexInit_unread hb, htail]) (h.greedy tail htail.symm) hcl
    (by have := lexInit_remaining src; omega)
  have htok : tokens src = init ++ [last] := i1
  have hinit : ∀ a ∈ init, a.tok.kind ≠ .end := by
    intro a ha
    have : kv a.tok ∈ ts.map kv := by rw [← i2]; simp; exact ⟨a, ha, rfl⟩
    obtain ⟨t, ht, hkv⟩ := List.mem_map.1 this
    simp only [kv, Prod.mk.injEq] at hkv
    rw [← hkv.1]
    exact (h.spelled t ht).1
  have hparse : parseToks (tokens src) = .ok e := by
    rw [htok]
    exact (AL.C04.parse_iff init last e i3 hinit).2 ⟨der_same h.sentence _ i2, i5⟩
  have hlex : lexExpression src = .ok ([] ++ (init ++ [last]).map (·.tok), last.offset) := by
    show lexExpression.go (tokens src) [] = _
    rw [htok]
    exact go_of_clean init last [] i3 hinit i4 i5
  exact ⟨(accepted_iff src).2 ⟨⟨_, _, hlex⟩, e, hparse⟩, hparse⟩

theorem inGrammarStrict_accepted {src : List Sym} {e : Expr} (h : InGrammarStrict src e) :
    accepted src = true ∧ parseToks (tokens src) = .ok e := by
  obtain ⟨gaps, ts, endT, hr⟩ := h
  exact strictReading_accepted hr

/-- the tree of a text in the (strict) grammar is unique -/
theorem inGrammarStrict_unique {src : List Sym} {e e' : Expr} (h : InGrammarStrict src e) (h' : InGrammarStrict src e') :
    e = e' := by
  have h1 := (inGrammarStrict_accepted h).2
  rw [(inGrammarStrict_accepted h').2] at h1
  cases h1; rfl

/-! ## 2. from the grammar to the diagnostics of a string

`v` is the text of a scalar, `idx` the offset of its first `${{`, `(bytesOf v).drop (idx + 3)` everything behind it: where
the placeholder ends is decided by the grammar (a `}}` inside a string literal does not close it). -/

/-- the text behind the `${{` at offset `idx`, as the lexer sees it -/
def behind (v : String) (idx : Nat) : List Sym := decodeUtf8 ((bytesOf v).drop (idx + 3))

/-- **one placeholder**: outside the grammar ⇒ exactly the syntax diagnostic -/
theorem checkOne_violation (cx : Cx) (key : String) (u : Bool) (rest : List Nat) (hb : ¬ StartsWithBOM (decodeUtf8 rest))
    (hg : ∀ e, ¬ InGrammar (decodeUtf8 rest) e) : checkOne cx key u rest = (none, [err "syntax-error" []]) :=
  checkOne_of_rejected cx key u rest (not_inGrammar_rejected _ hb hg)

/-- **the text behind the first `${{` is not in the documented grammar ⇒ every check of the string yields the syntax
diagnostic, and only it** — in every scope, under every key, with the untrusted-input check on or off -/
theorem violation_syntax_error (cx : Cx) (key : String) (u : Bool) (v : String) (idx : Nat)
    (hi : AL.Proc.indexOf AL.Proc.open3 (bytesOf v) 0 = some idx) (hb : ¬ StartsWithBOM (behind v idx))
    (hg : ∀ e, ¬ InGrammar (behind v idx) e) : checkExprsIn cx key u v = (none, [err "syntax-error" []]) :=
  AL.C11R.checkExprsIn_first cx key u v _ rfl idx hi _ (checkOne_violation cx key u _ hb hg)

/-- in particular the string has a diagnostic with a syntax code -/
theorem violation_has_syntax_code (cx : Cx) (key : String) (u : Bool) (v : String) (idx : Nat)
    (hi : AL.Proc.indexOf AL.Proc.open3 (bytesOf v) 0 = some idx) (hb : ¬ StartsWithBOM (behind v idx))
    (hg : ∀ e, ¬ InGrammar (behind v idx) e) : ∃ e ∈ (checkExprsIn cx key u v).2, isSyntax e := by
  rw [violation_syntax_error cx key u v idx hi hb hg]
  exact ⟨_, List.mem_singleton.2 rfl, by simp [isSyntax, syntaxCodes, err]⟩

/-- `${{` does not overlap itself: behind a text without `${{` the first `${{` is the one appended -/
theorem indexOf_open3_append : ∀ (pre rest : List Nat) (i : Nat), AL.Proc.indexOf AL.Proc.open3 pre i = none →
    AL.Proc.indexOf AL.Proc.open3 (pre ++ AL.Proc.open3 ++ rest) i = some (i + pre.length)
  | [], rest, i, _ => by simp [AL.Proc.indexOf, AL.Proc.open3, List.isPrefixOf]
  | c :: cs, rest, i, h => by
    simp only [AL.Proc.indexOf] at h
    split at h
    · cases h
    · rename_i hp
      have ih := indexOf_open3_append cs rest (i + 1) h
      have hnp : ¬ (AL.Proc.open3.isPrefixOf (c :: cs ++ AL.Proc.open3 ++ rest) = true) := by
        match cs, hp with
        | [], _ => simp [AL.Proc.open3, List.isPrefixOf]
        | [d], _ => simp [AL.Proc.open3, List.isPrefixOf]
        | d :: e :: f, hp => simpa [AL.Proc.open3, List.isPrefixOf] using hp
      simp only [List.cons_append, AL.Proc.indexOf] at hnp ⊢
      rw [if_neg hnp]
      simp only [List.append_assoc] at ih ⊢
      rw [ih]
      simp only [List.length_cons]
      congr 1
      omega

/-- the same with the text split as `pre ${{ rest` where `pre` contains no `${{` -/
theorem violation_syntax_error_split (cx : Cx) (key : String) (u : Bool) (v : String) (pre rest : List Nat)
    (hv : bytesOf v = pre ++ AL.Proc.open3 ++ rest) (hpre : AL.Proc.indexOf AL.Proc.open3 pre 0 = none)
    (hb : ¬ StartsWithBOM (decodeUtf8 rest)) (hg : ∀ e, ¬ InGrammar (decodeUtf8 rest) e) :
    checkExprsIn cx key u v = (none, [err "syntax-error" []]) := by
  have hi : AL.Proc.indexOf AL.Proc.open3 (bytesOf v) 0 = some pre.length := by
    rw [hv, indexOf_open3_append pre rest 0 hpre]; simp
  have hd : (bytesOf v).drop (pre.length + 3) = rest := by
    rw [hv, List.append_assoc, List.drop_append]
    simp [AL.Proc.open3]
  apply violation_syntax_error cx key u v pre.length hi
  · unfold behind; rw [hd]; exact hb
  · unfold behind; rw [hd]; exact hg

/-! ### the unterminated placeholder: no `}}` behind the `${{` -/

/-- two consecutive `}` somewhere in the text -/
def hasClose : List Sym → Bool
  | c :: d :: rest => (c.r == 125 && d.r == 125) || hasClose (d :: rest)
  | _ => false

theorem hasClose_append : ∀ (p : List Sym) (c d : Sym) (q : List Sym), c.r = 125 → d.r = 125 →
    hasClose (p ++ c :: d :: q) = true
  | [], c, d, q, hc, hd => by simp [hasClose, hc, hd]
  | [x], c, d, q, hc, hd => by simp [hasClose, hc, hd]
  | x :: y :: p, c, d, q, hc, hd => by
    simp only [List.cons_append, hasClose, Bool.or_eq_true]
    exact .inr (hasClose_append (y :: p) c d q hc hd)

theorem interleave_snoc : ∀ (ts : List Tok) (gaps : List (List Sym)) (endT : Tok), gaps.length = ts.length + 1 →
    ∃ P, AL.C04.interleave gaps (ts ++ [endT]) = P ++ endT.val := by
  intro ts
  induction ts with
  | nil =>
    intro gaps endT h
    match gaps, h with
    | [g], _ => exact ⟨g, by simp [AL.C04.interleave]⟩
  | cons t ts ih =>
    intro gaps endT h
    match gaps, h with
    | g :: gs, h =>
      obtain ⟨P, hP⟩ := ih gs endT (by simpa using h)
      exact ⟨g ++ t.val ++ P, by rw [List.cons_append, interleave_cons, hP]; simp⟩

/-- a reading ends with `}}` -/
theorem reading_hasClose {src : List Sym} {gaps : List (List Sym)} {ts : List Tok} {endT : Tok} {e : Expr}
    (h : Reading src gaps ts endT e) : hasClose src = true := by
  obtain ⟨tail, htail⟩ := h.tiles
  obtain ⟨P, hP⟩ := interleave_snoc ts gaps endT h.len
  obtain ⟨c, cs, hv, hc, hcs⟩ := runes_eq_cons h.close.2
  obtain ⟨d, ds, hv2, hd, -⟩ := runes_eq_cons hcs
  rw [← htail, hP, hv, hv2, List.append_assoc]
  exact hasClose_append P c d _ hc hd

/-- **no `}}` ⇒ not in the grammar** -/
theorem not_inGrammar_of_no_close (src : List Sym) (h : hasClose src = false) : ∀ e, ¬ InGrammar src e := by
  rintro e ⟨gaps, ts, endT, hr⟩
  rw [reading_hasClose hr] at h
  cases h

/-- **the unterminated placeholder** (`${{` with no `}}` behind it) is reported in every position -/
theorem unterminated_syntax_error (cx : Cx) (key : String) (u : Bool) (v : String) (idx : Nat)
    (hi : AL.Proc.indexOf AL.Proc.open3 (bytesOf v) 0 = some idx) (hb : ¬ StartsWithBOM (behind v idx))
    (hc : hasClose (behind v idx) = false) : checkExprsIn cx key u v = (none, [err "syntax-error" []]) :=
  violation_syntax_error cx key u v idx hi hb (not_inGrammar_of_no_close _ hc)

/-! ### `Malformed` (AL.C03R) from the grammar -/

/-- **C03's hypothesis from the grammar**: the text behind the first `${{` is outside the grammar, and so is the text as a
whole read as a bare condition (`if: v` is the expression `v`; this matters for an `if:` only, and only when `v` has no
`}}` behind its `${{`) -/
theorem malformed_of_violation (v : String) (idx : Nat)
    (hi : AL.Proc.indexOf AL.Proc.open3 (bytesOf v) 0 = some idx) (hb : ¬ StartsWithBOM (behind v idx))
    (hg : ∀ e, ¬ InGrammar (behind v idx) e)
    (hb' : ¬ StartsWithBOM (decodeUtf8 (bytesOf v ++ [125, 125])))
    (hg' : ∀ e, ¬ InGrammar (decodeUtf8 (bytesOf v ++ [125, 125])) e) : AL.C03R.Malformed v := by
  constructor
  · intro cx key u
    rw [violation_syntax_error cx key u v idx hi hb hg]
    simp
  · intro cx key
    rw [checkOne_violation cx key false _ hb' hg']
    simp

/-! ### a text whose first significant character cannot start a sentence -/

/-- the characters a sentence can start with: a letter or `_` (identifier), a digit or `-` (number), `'`, `(`, `!` -/
def sentenceStart (r : Nat) : Bool := isAlpha r || r == 95 || isNum r || r == 45 || r == 39 || r == 40 || r == 33

theorem sentence_head_char {k : TokKind} {val : List Sym} (hs : Spelling k val) (hk : headKinds .or k = true) :
    ∃ c cs, val = c :: cs ∧ sentenceStart c.r = true := by
  have key : ∀ r rs, runes val = r :: rs → sentenceStart r = true → ∃ c cs, val = c :: cs ∧ sentenceStart c.r = true := by
    intro r rs h hr
    obtain ⟨c, cs, rfl, hc, -⟩ := runes_eq_cons h
    exact ⟨c, cs, rfl, by rw [hc]; exact hr⟩
  have numHead : ∀ r, (isNum r = true ∨ r = 45) → sentenceStart r = true := by
    intro r hr; rcases hr with hr | rfl
    · simp [sentenceStart, hr]
    · rfl
  have decHead : ∀ l, DecInt l → ∃ r rs, l = r :: rs ∧ isNum r = true := by
    intro l hl
    rcases hl with rfl | ⟨d, ds, rfl, h1, h2, -⟩
    · exact ⟨48, [], rfl, rfl⟩
    · exact ⟨d, ds, rfl, by simp [isNum]; omega⟩
  have optHead : ∀ (P : List Nat → Prop) l, optMinus P l → (∀ l, P l → ∃ r rs, l = r :: rs ∧ isNum r = true) →
      ∃ r rs, l = r :: rs ∧ (isNum r = true ∨ r = 45) := by
    intro P l hl hP
    rcases hl with h | ⟨t, rfl, -⟩
    · obtain ⟨r, rs, rfl, hr⟩ := hP l h; exact ⟨r, rs, rfl, .inl hr⟩
    · exact ⟨45, t, rfl, .inr rfl⟩
  cases k with
  | ident =>
    obtain ⟨r, rs, hl, hr, -⟩ := hs
    refine key _ _ hl ?_
    rcases hr with hr | rfl
    · simp [sentenceStart, hr]
    · rfl
  | string =>
    obtain ⟨body, hl, -⟩ := hs
    exact key _ _ hl rfl
  | int =>
    rcases hs with hs | hs
    · obtain ⟨r, rs, hl, hr⟩ := optHead _ _ hs decHead
      exact key _ _ hl (numHead r hr)
    · obtain ⟨r, rs, hl, hr⟩ := optHead _ _ hs (by
        rintro l ⟨body, rfl, -⟩; exact ⟨48, _, rfl, rfl⟩)
      exact key _ _ hl (numHead r hr)
  | float =>
    obtain ⟨ip, frac, exp, hip, -, -, -, hl⟩ := hs
    obtain ⟨r, rs, rfl, hr⟩ := optHead _ _ hip decHead
    exact key r (rs ++ frac ++ exp) (by simpa using hl) (numHead r hr)
  | lparen => exact key _ _ hs rfl
  | not => exact key _ _ hs rfl
  | _ => simp [headKinds] at hk

theorem white_split_unique : ∀ (ws g : List Sym) (c c' : Sym) (r r' : List Sym),
    (∀ s ∈ ws, isWhitespace s.r = true) → (∀ s ∈ g, isWhitespace s.r = true) → isWhitespace c.r = false →
    isWhitespace c'.r = false → ws ++ c :: r = g ++ c' :: r' → c = c'
  | [], [], c, c', r, r', _, _, _, _, h => by simp at h; exact h.1
  | [], x :: g, c, c', r, r', _, hg, hc, _, h => by
    simp at h
    have := hg x (by simp)
    rw [← h.1, hc] at this; cases this
  | w :: ws, [], c, c', r, r', hw, _, _, hc', h => by
    simp at h
    have := hw w (by simp)
    rw [h.1, hc'] at this; cases this
  | w :: ws, x :: g, c, c', r, r', hw, hg, hc, hc', h => by
    simp at h
    exact white_split_unique ws g c c' r r' (fun s hs => hw s (by simp [hs])) (fun s hs => hg s (by simp [hs])) hc hc' h.2

/-- **a text whose first non-blank character cannot start a sentence is not in the grammar** (`${{ "a" }}`, `${{ + 1 }}`,
`${{ ) }}`, `${{ }}`, a text starting with `$`, with a byte-order mark …) -/
theorem not_inGrammar_of_head (src ws : List Sym) (c : Sym) (rest : List Sym) (hsrc : src = ws ++ c :: rest)
    (hws : ∀ s ∈ ws, isWhitespace s.r = true) (hc : isWhitespace c.r = false) (hstart : sentenceStart c.r = false) :
    ∀ e, ¬ InGrammar src e := by
  rintro e ⟨gaps, ts, endT, hr⟩
  obtain ⟨t, ts', rfl, hk⟩ := der_head hr.sentence
  match gaps, hr.len, hr.white, hr.tiles with
  | g :: gs, _, hwh, htiles =>
    obtain ⟨tail, htail⟩ := htiles
    obtain ⟨hke, hs⟩ := hr.spelled t (by simp)
    obtain ⟨c', cs, hv, hc'⟩ := sentence_head_char hs hk
    obtain ⟨c'', cs', hv', hnw⟩ := spelling_head hs (spelling_ne_nil hs hke)
    rw [hv] at hv'
    cases hv'
    have heq : ws ++ c :: rest = g ++ c' :: (cs ++ AL.C04.interleave gs (ts' ++ [endT]) ++ tail) := by
      rw [← hsrc, ← htail, List.cons_append, interleave_cons, hv]; simp
    have := white_split_unique ws g c c' _ _ hws (hwh g (by simp)) hc hnw heq
    rw [this, hc'] at hstart
    cases hstart

/-! ## 3. conversely: a syntax code comes from the grammar only -/

/-- **a placeholder in the grammar never gets a syntax code** — whatever the scope, the key, the flag: its diagnostics are
those of the semantic check of the tree the grammar assigns -/
theorem checkOne_of_inGrammar (cx : Cx) (key : String) (u : Bool) (rest : List Nat) (e : Expr)
    (h : InGrammarStrict (decodeUtf8 rest) e) : ∃ off, checkOne cx key u rest = checkParsed cx key u e off := by
  obtain ⟨ha, hp⟩ := inGrammarStrict_accepted h
  obtain ⟨ts, off, pe, -, h2, h3⟩ := checkOne_of_accepted cx key u rest ha
  rw [hp] at h2
  cases h2
  exact ⟨off, h3⟩

theorem inGrammar_no_syntax (cx : Cx) (key : String) (u : Bool) (rest : List Nat) (e : Expr)
    (h : InGrammarStrict (decodeUtf8 rest) e) : NoSyn (checkOne cx key u rest).2 := by
  obtain ⟨off, ho⟩ := checkOne_of_inGrammar cx key u rest e h
  rw [ho]
  exact checkParsed_noSyn cx key u e off

/-- **a syntax code ⇒ the placeholder is outside the grammar** -/
theorem syntax_code_outside_grammar (cx : Cx) (key : String) (u : Bool) (rest : List Nat)
    (h : ∃ x ∈ (checkOne cx key u rest).2, isSyntax x) : ∀ e, ¬ InGrammarStrict (decodeUtf8 rest) e := by
  intro e hg
  obtain ⟨x, hx, hs⟩ := h
  exact inGrammar_no_syntax cx key u rest e hg x hx hs

/-- **the string**: a diagnostic with a syntax code means that the first placeholder (in loop order) that has any
diagnostic is outside the grammar — unterminated included —, that the placeholders the loop passed before it are in order,
and that the syntax diagnostic is all the string gets -/
theorem syntax_from_first_bad (cx : Cx) (key : String) (u : Bool) (v : String)
    (h : ∃ x ∈ (checkExprsIn cx key u v).2, isSyntax x) :
    ∃ k t idx, AL.C11R.Passed cx key u (bytesOf v) k t ∧ AL.Proc.indexOf AL.Proc.open3 t 0 = some idx ∧
      accepted (decodeUtf8 (t.drop (idx + 3))) = false ∧ (∀ e, ¬ InGrammarStrict (decodeUtf8 (t.drop (idx + 3))) e) ∧
      checkExprsIn cx key u v = (none, [err "syntax-error" []]) := by
  obtain ⟨x, hx, hs⟩ := h
  have hne : (checkExprsIn cx key u v).2 ≠ [] := fun h0 => by rw [h0] at hx; cases hx
  obtain ⟨k, t, idx, hp, hi, h1⟩ := AL.C11R.checkExprsIn_diags_from_first_bad cx key u v hne
  have hsyn : ∃ x ∈ (checkOne cx key u (t.drop (idx + 3))).2, isSyntax x := ⟨x, by rw [h1]; exact hx, hs⟩
  have hex := checkOne_syntax_exact cx key u _ hsyn
  refine ⟨k, t, idx, hp, hi, (checkOne_syntax_iff cx key u _).1 hsyn, syntax_code_outside_grammar cx key u _ hsyn, ?_⟩
  exact AL.C11R.kth_placeholder_reported cx key u v k t hp idx hi _ hex

/-- the exact form: a string gets a syntax code iff the first placeholder that has any diagnostic is rejected by
lexer + parser -/
theorem checkExprsIn_syntax_iff (cx : Cx) (key : String) (u : Bool) (v : String) :
    (∃ x ∈ (checkExprsIn cx key u v).2, isSyntax x) ↔
      ∃ k t idx, AL.C11R.Passed cx key u (bytesOf v) k t ∧ AL.Proc.indexOf AL.Proc.open3 t 0 = some idx ∧
        accepted (decodeUtf8 (t.drop (idx + 3))) = false := by
  constructor
  · intro h
    obtain ⟨k, t, idx, hp, hi, ha, -, -⟩ := syntax_from_first_bad cx key u v h
    exact ⟨k, t, idx, hp, hi, ha⟩
  · rintro ⟨k, t, idx, hp, hi, ha⟩
    rw [AL.C11R.kth_placeholder_reported cx key u v k t hp idx hi _ (checkOne_of_rejected cx key u _ ha)]
    exact ⟨_, List.mem_singleton.2 rfl, by simp [isSyntax, syntaxCodes, err]⟩

/-- **every placeholder the loop reaches is in the grammar ⇒ no syntax code on the string** -/
theorem no_syntax_of_all_inGrammar (cx : Cx) (key : String) (u : Bool) (v : String)
    (h : ∀ k t idx, AL.C11R.Passed cx key u (bytesOf v) k t → AL.Proc.indexOf AL.Proc.open3 t 0 = some idx →
      ∃ e, InGrammarStrict (decodeUtf8 (t.drop (idx + 3))) e) : NoSyn (checkExprsIn cx key u v).2 := by
  intro x hx hs
  obtain ⟨k, t, idx, hp, hi, -, hout, -⟩ := syntax_from_first_bad cx key u v ⟨x, hx, hs⟩
  obtain ⟨e, he⟩ := h k t idx hp hi
  exact hout e he

theorem ite_some_fst {α β : Type} (c : Prop) [Decidable c] (a : α) (b : List β) (p : α)
    (h : (if c then (some a, ([] : List β)) else (none, b)).1 = some p) : p = a := by
  split at h <;> simp_all

theorem checkParsed_off (cx : Cx) (key : String) (u : Bool) (pe : AL.Parse.Expr) (off : Nat) (ty : Ty) (off' : Nat)
    (h : (checkParsed cx key u pe off).1 = some (ty, off')) : off' = off := by
  unfold checkParsed at h
  have := ite_some_fst _ _ _ _ h
  simp only [Prod.mk.injEq] at this
  exact this.2

/-- nothing behind the placeholder the lexer delimits opens another one -/
def nothingBehind (rest : List Nat) : Bool :=
  match lexExpression (decodeUtf8 rest) with
  | .ok (_, off) => (AL.Proc.indexOf AL.Proc.open3 (rest.drop off) 0).isNone
  | .error _ => true

/-- **a string with ONE placeholder that lexer + parser accept never gets a syntax code** -/
theorem single_placeholder_noSyn (cx : Cx) (key : String) (u : Bool) (v : String) (b : List Nat) (hb : bytesOf v = b)
    (idx : Nat) (hi : AL.Proc.indexOf AL.Proc.open3 b 0 = some idx) (ha : accepted (decodeUtf8 (b.drop (idx + 3))) = true)
    (hn : nothingBehind (b.drop (idx + 3)) = true) : NoSyn (checkExprsIn cx key u v).2 := by
  obtain ⟨ts, off, pe, hlex, -, hco⟩ := checkOne_of_accepted cx key u _ ha
  unfold nothingBehind at hn
  rw [hlex] at hn
  simp only [Option.isNone_iff_eq_none] at hn
  simp only [checkExprsIn, hb]
  cases b with
  | nil => simp [AL.Proc.indexOf, AL.Proc.open3] at hi
  | cons x xs =>
    simp only [List.length_cons]
    rw [scan]
    simp only [hi]
    have hns := checkParsed_noSyn cx key u pe off
    cases hr : checkOne cx key u ((x :: xs).drop (idx + 3)) with
    | mk r errs =>
      rw [hco] at hr
      rw [hr] at hns
      cases r with
      | none => exact hns
      | some p =>
        obtain ⟨ty, off'⟩ := p
        have hoff := checkParsed_off cx key u pe off ty off' (by rw [hr])
        subst hoff
        simp only
        split
        · exact NoSyn.nil
        · cases xs.length with
          | zero => exact NoSyn.nil
          | succ n =>
            rw [scan]
            simp only [hn]
            exact NoSyn.nil

/-! ## 4. end to end: the document -/

/-- the code of a diagnostic is a syntax code -/
def SyntaxCode (c : String) : Prop := c ∈ syntaxCodes

theorem syntaxCode_iff (c : String) : SyntaxCode c ↔ c = "syntax-error" := by simp [SyntaxCode, syntaxCodes]

theorem syntax_error_has (es : List SemaErr) (h : es = [err "syntax-error" []]) : ∃ e ∈ es, SyntaxCode e.code := by
  subst h
  exact ⟨_, List.mem_singleton.2 rfl, by simp [SyntaxCode, syntaxCodes, err]⟩

/-- **the hypothesis of the coverage chain, from the grammar**: the text behind the first `${{` is outside the grammar
(unterminated included); and — for the bare `if:` reading, which the rule uses only for a text WITHOUT a complete
placeholder — the text has a `}}` behind its `${{`, or is as a whole outside the grammar too -/
theorem badSyntax_of_violation (v : String) (idx : Nat)
    (hi : AL.Proc.indexOf AL.Proc.open3 (bytesOf v) 0 = some idx) (hb : ¬ StartsWithBOM (behind v idx))
    (hg : ∀ e, ¬ InGrammar (behind v idx) e)
    (hc : AL.Matrix.containsExpr v = true ∨ (¬ StartsWithBOM (decodeUtf8 (bytesOf v ++ [125, 125])) ∧
      ∀ e, ¬ InGrammar (decodeUtf8 (bytesOf v ++ [125, 125])) e)) : Chain.BadQ SyntaxCode v := by
  constructor
  · intro cx key u
    exact syntax_error_has _ (by rw [violation_syntax_error cx key u v idx hi hb hg])
  · rcases hc with hc | ⟨hb', hg'⟩
    · exact .inl hc
    · exact .inr fun cx key => syntax_error_has _ (by rw [checkOne_violation cx key false _ hb' hg'])

/-- the same from the verdict of lexer + parser (for concrete texts) -/
theorem badSyntax_of_rejected (v : String) (b : List Nat) (hb : bytesOf v = b) (idx : Nat)
    (hi : AL.Proc.indexOf AL.Proc.open3 b 0 = some idx) (hr : accepted (decodeUtf8 (b.drop (idx + 3))) = false)
    (hc : AL.Matrix.containsExpr v = true ∨ accepted (decodeUtf8 (b ++ [125, 125])) = false) : Chain.BadQ SyntaxCode v := by
  constructor
  · intro cx key u
    refine syntax_error_has _ ?_
    rw [AL.C11R.checkExprsIn_first cx key u v b hb idx hi _ (checkOne_of_rejected cx key u _ hr)]
  · rcases hc with hc | hc
    · exact .inl hc
    · exact .inr fun cx key => syntax_error_has _ (by rw [hb, checkOne_of_rejected cx key false _ hc])

/-- **the rule**: in every workflow AST, linted with or without a project, a value string whose first placeholder is outside
the grammar gets a diagnostic WITH A SYNTAX CODE located at that string — in every section, at every depth, under every
scope -/
theorem grammar_violation_in_workflow_reported (lower : String → String) (isNum : IsNumber) (w : Workflow) (proj : ProjView)
    (s : Str) (hm : s ∈ AL.C03R.valueStrs w) (idx : Nat)
    (hi : AL.Proc.indexOf AL.Proc.open3 (bytesOf s.value) 0 = some idx) (hb : ¬ StartsWithBOM (behind s.value idx))
    (hg : ∀ e, ¬ InGrammar (behind s.value idx) e)
    (hc : AL.Matrix.containsExpr s.value = true ∨ (¬ StartsWithBOM (decodeUtf8 (bytesOf s.value ++ [125, 125])) ∧
      ∀ e, ¬ InGrammar (decodeUtf8 (bytesOf s.value ++ [125, 125])) e)) :
    ∃ d ∈ rule lower isNum w proj, d.site = s.pos ∧ d.code ∈ syntaxCodes :=
  Chain.every_placeholder_checked lower isNum w proj s hm (badSyntax_of_violation s.value idx hi hb hg hc)

/-- **C04 end to end.** A value scalar of the DOCUMENT whose first placeholder is outside the documented grammar
(unterminated included) yields a syntax diagnostic of the workflow parser, or a diagnostic of the expression rule with a
syntax code located at that scalar. (`hc`: the scalar has a `}}` behind its `${{` — or is, as a whole, not an expression
either: that is what an `if:` without a complete placeholder is read as; `not_inGrammar_of_head` discharges it for a
scalar starting with `$`.) -/
theorem grammar_violation_in_document_reported (cfg : AL.PW.Cfg) (lower : String → String) (isNum : IsNumber)
    (proj : ProjView) (doc v : AL.Yaml.Node) (hv : v ∈ AL.C03P.valueScalars doc) (idx : Nat)
    (hi : AL.Proc.indexOf AL.Proc.open3 (bytesOf v.value) 0 = some idx) (hb : ¬ StartsWithBOM (behind v.value idx))
    (hg : ∀ e, ¬ InGrammar (behind v.value idx) e)
    (hc : AL.Matrix.containsExpr v.value = true ∨ (¬ StartsWithBOM (decodeUtf8 (bytesOf v.value ++ [125, 125])) ∧
      ∀ e, ¬ InGrammar (decodeUtf8 (bytesOf v.value ++ [125, 125])) e)) :
    (AL.PW.parse cfg doc).2 ≠ [] ∨
      ∃ d ∈ rule lower isNum (AL.PW.parse cfg doc).1 proj, d.site = v.pos ∧ d.code ∈ syntaxCodes := by
  rcases AL.C03P.no_value_scalar_dropped cfg doc v hv with h | ⟨s, hs, hval, hpos⟩
  · exact .inl h
  · obtain ⟨d, hd, hsite, hcode⟩ := grammar_violation_in_workflow_reported lower isNum _ proj s hs idx
      (by rw [hval]; exact hi) (by rw [hval]; exact hb) (by rw [hval]; exact hg) (by rw [hval]; exact hc)
    exact .inr ⟨d, hd, by rw [hsite, hpos], hcode⟩

/-- the unterminated case on its own -/
theorem unterminated_in_document_reported (cfg : AL.PW.Cfg) (lower : String → String) (isNum : IsNumber)
    (proj : ProjView) (doc v : AL.Yaml.Node) (hv : v ∈ AL.C03P.valueScalars doc) (idx : Nat)
    (hi : AL.Proc.indexOf AL.Proc.open3 (bytesOf v.value) 0 = some idx) (hb : ¬ StartsWithBOM (behind v.value idx))
    (hcl : hasClose (behind v.value idx) = false)
    (hc : ¬ StartsWithBOM (decodeUtf8 (bytesOf v.value ++ [125, 125])) ∧
      ∀ e, ¬ InGrammar (decodeUtf8 (bytesOf v.value ++ [125, 125])) e) :
    (AL.PW.parse cfg doc).2 ≠ [] ∨
      ∃ d ∈ rule lower isNum (AL.PW.parse cfg doc).1 proj, d.site = v.pos ∧ d.code ∈ syntaxCodes :=
  grammar_violation_in_document_reported cfg lower isNum proj doc v hv idx hi hb (not_inGrammar_of_no_close _ hcl) (.inr hc)

/-- from the verdict of lexer + parser (for concrete texts): a value scalar whose first placeholder is rejected -/
theorem rejected_in_document_reported (cfg : AL.PW.Cfg) (lower : String → String) (isNum : IsNumber)
    (proj : ProjView) (doc v : AL.Yaml.Node) (hv : v ∈ AL.C03P.valueScalars doc) (h : Chain.BadQ SyntaxCode v.value) :
    (AL.PW.parse cfg doc).2 ≠ [] ∨
      ∃ d ∈ rule lower isNum (AL.PW.parse cfg doc).1 proj, d.site = v.pos ∧ d.code ∈ syntaxCodes := by
  rcases AL.C03P.no_value_scalar_dropped cfg doc v hv with h' | ⟨s, hs, hval, hpos⟩
  · exact .inl h'
  · obtain ⟨d, hd, hsite, hcode⟩ := Chain.every_placeholder_checked lower isNum _ proj s hs (by rw [hval]; exact h)
    exact .inr ⟨d, hd, by rw [hsite, hpos], hcode⟩

/-! ## 5. concrete texts -/

section Examples
open AL.C04 (ascii)

/-- a text, its bytes, its first `${{`: rejected by lexer + parser ⇒ the syntax diagnostic in every scope -/
theorem rejected_text (cx : Cx) (key : String) (u : Bool) (v : String) (b : List Nat) (hb : bytesOf v = b) (idx : Nat)
    (hi : AL.Proc.indexOf AL.Proc.open3 b 0 = some idx) (hr : accepted (decodeUtf8 (b.drop (idx + 3))) = false) :
    checkExprsIn cx key u v = (none, [err "syntax-error" []]) :=
  AL.C11R.checkExprsIn_first cx key u v b hb idx hi _ (checkOne_of_rejected cx key u _ hr)

/-- rejected ⇒ not in the (strict) grammar: the contrapositive of `inGrammarStrict_accepted` -/
theorem rejected_not_inGrammarStrict (src : List Sym) (h : accepted src = false) : ∀ e, ¬ InGrammarStrict src e := by
  intro e hg
  rw [(inGrammarStrict_accepted hg).1] at h
  cases h

def lexOk (src : List Sym) : Bool := match lexExpression src with | .ok _ => true | .error _ => false
def parseOk (src : List Sym) : Bool := match parseToks (tokens src) with | .ok _ => true | .error _ => false

/-- the lexer accepts, the parser does not ⇒ the token sequence is not a sentence of the grammar (`parse_iff`) -/
theorem tokens_not_sentence (src : List Sym) (hl : lexOk src = true) (hp : parseOk src = false) :
    ∀ e, ¬ Der .or (((tokens src).dropLast).map (·.tok)) e := by
  intro e hd
  obtain ⟨init, last, htok, hlast, hinit⟩ := AL.C04.lex_well_ended src
  unfold lexOk at hl
  split at hl
  · rename_i r h1
    have h1' : lexExpression.go (tokens src) [] = .ok (r.1, r.2) := h1
    obtain ⟨-, -, hle⟩ := go_all init last [] r.1 r.2 hlast hinit (by rw [← htok]; exact h1')
    rw [htok, List.dropLast_concat] at hd
    have := (AL.C04.parse_iff init last e hlast hinit).2 ⟨hd, hle⟩
    unfold parseOk at hp
    rw [htok, this] at hp
    cases hp
  · cases hl

/-- conversely: lexer and parser accept ⇒ the token sequence is a sentence -/
theorem tokens_sentence (src : List Sym) (hp : parseOk src = true) :
    ∃ e, Der .or (((tokens src).dropLast).map (·.tok)) e := by
  obtain ⟨init, last, htok, hlast, hinit⟩ := AL.C04.lex_well_ended src
  unfold parseOk at hp
  split at hp
  · rename_i e h
    rw [htok] at h
    rw [htok, List.dropLast_concat]
    exact ⟨e, ((AL.C04.parse_iff init last e hlast hinit).1 h).1⟩
  · cases hp

theorem accepted_eq (src : List Sym) : accepted src = (lexOk src && parseOk src) := by
  unfold accepted lexOk parseOk
  cases lexExpression src <;> cases parseToks (tokens src) <;> rfl

/-- **on a text the lexer accepts, the syntax code is exactly "the tokens are not a sentence of the grammar"** (the
parser half of the correspondence is exact: `AL.C04.parse_iff`) -/
theorem lexed_syntax_iff (cx : Cx) (key : String) (u : Bool) (rest : List Nat) (hl : lexOk (decodeUtf8 rest) = true) :
    (∃ x ∈ (checkOne cx key u rest).2, isSyntax x) ↔
      ∀ e, ¬ Der .or (((tokens (decodeUtf8 rest)).dropLast).map (·.tok)) e := by
  rw [checkOne_syntax_iff, accepted_eq, hl, Bool.true_and]
  constructor
  · intro hp; exact tokens_not_sentence _ hl hp
  · intro h
    cases hp : parseOk (decodeUtf8 rest) with
    | false => rfl
    | true =>
      obtain ⟨e, he⟩ := tokens_sentence _ hp
      exact absurd he (h e)

/-! #### `${{ a b }}`: two operands without an operator -/

def bAB : List Nat := [36, 123, 123, 32, 97, 32, 98, 32, 125, 125]
theorem bytes_ab : bytesOf "${{ a b }}" = bAB := by decide +kernel
theorem rejected_ab : accepted (decodeUtf8 (bAB.drop (0 + 3))) = false := by decide +kernel

theorem ab_syntax_error (cx : Cx) (key : String) (u : Bool) :
    checkExprsIn cx key u "${{ a b }}" = (none, [err "syntax-error" []]) :=
  rejected_text cx key u _ bAB bytes_ab 0 (by decide) rejected_ab

/-- the lexer is content: IDENT IDENT — which is not a sentence -/
theorem ab_not_sentence : ((tokens (ascii " a b }}")).dropLast).map (·.tok.kind) = [.ident, .ident] ∧
    ∀ e, ¬ Der .or (((tokens (ascii " a b }}")).dropLast).map (·.tok)) e :=
  ⟨by decide +kernel, tokens_not_sentence _ (by decide +kernel) (by decide +kernel)⟩

theorem ab_not_inGrammarStrict : ∀ e, ¬ InGrammarStrict (decodeUtf8 (bAB.drop (0 + 3))) e :=
  rejected_not_inGrammarStrict _ rejected_ab

/-! #### `${{ 1 + 2 }}`: there is no arithmetic in the grammar (`+` starts no token) -/

def b1p2 : List Nat := [36, 123, 123, 32, 49, 32, 43, 32, 50, 32, 125, 125]
theorem bytes_1p2 : bytesOf "${{ 1 + 2 }}" = b1p2 := by decide +kernel
theorem rejected_1p2 : accepted (decodeUtf8 (b1p2.drop (0 + 3))) = false := by decide +kernel

theorem onePlusTwo_syntax_error (cx : Cx) (key : String) (u : Bool) :
    checkExprsIn cx key u "${{ 1 + 2 }}" = (none, [err "syntax-error" []]) :=
  rejected_text cx key u _ b1p2 bytes_1p2 0 (by decide) rejected_1p2

/-- here it is the LEXER that rejects -/
theorem onePlusTwo_lexer : lexOk (ascii " 1 + 2 }}") = false := by decide +kernel

theorem onePlusTwo_not_inGrammarStrict : ∀ e, ¬ InGrammarStrict (decodeUtf8 (b1p2.drop (0 + 3))) e :=
  rejected_not_inGrammarStrict _ rejected_1p2

/-! #### `${{ a.'b' }}`: a property is an identifier or `*`, not a string -/

def bADotStr : List Nat := [36, 123, 123, 32, 97, 46, 39, 98, 39, 32, 125, 125]
theorem bytes_aDotStr : bytesOf "${{ a.'b' }}" = bADotStr := by decide +kernel
theorem rejected_aDotStr : accepted (decodeUtf8 (bADotStr.drop (0 + 3))) = false := by decide +kernel

theorem aDotStr_syntax_error (cx : Cx) (key : String) (u : Bool) :
    checkExprsIn cx key u "${{ a.'b' }}" = (none, [err "syntax-error" []]) :=
  rejected_text cx key u _ bADotStr bytes_aDotStr 0 (by decide) rejected_aDotStr

theorem aDotStr_not_sentence : ((tokens (ascii " a.'b' }}")).dropLast).map (·.tok.kind) = [.ident, .dot, .string] ∧
    ∀ e, ¬ Der .or (((tokens (ascii " a.'b' }}")).dropLast).map (·.tok)) e :=
  ⟨by decide +kernel, tokens_not_sentence _ (by decide +kernel) (by decide +kernel)⟩

/-! #### `${{ x[ }}`: an index that is never closed -/

def bXBr : List Nat := [36, 123, 123, 32, 120, 91, 32, 125, 125]
theorem bytes_xBr : bytesOf "${{ x[ }}" = bXBr := by decide +kernel
theorem rejected_xBr : accepted (decodeUtf8 (bXBr.drop (0 + 3))) = false := by decide +kernel

theorem xBr_syntax_error (cx : Cx) (key : String) (u : Bool) :
    checkExprsIn cx key u "${{ x[ }}" = (none, [err "syntax-error" []]) :=
  rejected_text cx key u _ bXBr bytes_xBr 0 (by decide) rejected_xBr

theorem xBr_not_sentence : ((tokens (ascii " x[ }}")).dropLast).map (·.tok.kind) = [.ident, .lbracket] ∧
    ∀ e, ¬ Der .or (((tokens (ascii " x[ }}")).dropLast).map (·.tok)) e :=
  ⟨by decide +kernel, tokens_not_sentence _ (by decide +kernel) (by decide +kernel)⟩

/-! #### `${{ !x }}` is fine: in the grammar, hence never a syntax code — whatever `x` is in the scope -/

def bNotX : List Nat := [36, 123, 123, 32, 33, 120, 32, 125, 125]
theorem bytes_notX : bytesOf "${{ !x }}" = bNotX := by decide +kernel

def tNot : Tok := ⟨.not, ascii "!", 1, 1, 2⟩
def tX : Tok := ⟨.ident, ascii "x", 2, 1, 3⟩
def tEnd : Tok := ⟨.end, ascii "}}", 4, 1, 5⟩

theorem notX_decoded : decodeUtf8 (bNotX.drop (0 + 3)) = ascii " !x }}" := by decide +kernel

theorem notX_tiles : AL.C04.interleave [ascii " ", [], ascii " "] ([tNot, tX] ++ [tEnd]) = ascii " !x }}" := by decide

theorem ascii_clean (s : String) (h : ∀ c ∈ s.toList, c.toNat ≠ 0) : ∀ d ∈ ascii s, Clean d := by
  intro d hd
  simp only [ascii, List.mem_map] at hd
  obtain ⟨c, hc, rfl⟩ := hd
  exact ⟨rfl, h c hc⟩

/-- the reading of ` !x }}`: blank `!` `x` blank `}}`, the sentence `! IDENT` -/
theorem notX_reading : StrictReading (ascii " !x }}") [ascii " ", [], ascii " "] [tNot, tX] tEnd (.not (.var (ascii "x"))) where
  len := rfl
  white := by decide
  tiles := ⟨[], by decide⟩
  spelled := by
    intro t ht
    simp only [List.mem_cons, List.not_mem_nil, or_false] at ht
    rcases ht with rfl | rfl
    · exact ⟨by decide, show runes (ascii "!") = [33] by decide⟩
    · exact ⟨by decide, 120, [], by decide, .inl (by decide), by simp⟩
  close := ⟨rfl, by decide⟩
  sentence := .orUp (.andUp (.cmpUp (.unaryNot (o := tNot) rfl (.unaryUp (.postUp (.primIdent (t := tX) rfl))))))
  greedy := by
    intro tail h
    have : tail = [] := by rw [notX_tiles] at h; simpa using h
    subst this
    exact ⟨by decide, by decide, by decide, trivial⟩
  clean := by
    intro tail h
    have : tail = [] := by rw [notX_tiles] at h; simpa using h
    subst this
    rw [notX_tiles]
    simp only [List.head?_nil, Option.toList_none, List.append_nil]
    exact ascii_clean _ (by decide)
  noBOM := by
    rintro ⟨c, rest, h, hc, -⟩
    have : (ascii " !x }}").head?.map (·.r) = some 32 := by decide
    rw [h] at this
    simp [hc] at this

theorem notX_inGrammar : InGrammarStrict (decodeUtf8 (bNotX.drop (0 + 3))) (.not (.var (ascii "x"))) := by
  rw [notX_decoded]
  exact ⟨_, _, _, notX_reading⟩

/-- in every scope, under every key: the diagnostics of `${{ !x }}` are those of the semantic check of `!x` — never a syntax
code -/
theorem notX_no_syntax_code (cx : Cx) (key : String) (u : Bool) : NoSyn (checkExprsIn cx key u "${{ !x }}").2 :=
  single_placeholder_noSyn cx key u _ bNotX bytes_notX 0 (by decide) (inGrammarStrict_accepted notX_inGrammar).1
    (by decide +kernel)

/-! #### `${{ "a" }}`: double quotes — the grammar has `'…'` only; `${{ a`: unterminated. Here the hypotheses of
`violation_syntax_error` / `unterminated_syntax_error` are discharged on the grammar side, without running lexer or parser -/

def bDq : List Nat := [36, 123, 123, 32, 34, 97, 34, 32, 125, 125]
theorem bytes_dq : bytesOf "${{ \"a\" }}" = bDq := by decide +kernel
theorem dq_decoded : behind "${{ \"a\" }}" 0 = ascii " \"a\" }}" := by unfold behind; rw [bytes_dq]; decide +kernel

theorem dq_not_inGrammar : ∀ e, ¬ InGrammar (behind "${{ \"a\" }}" 0) e := by
  rw [dq_decoded]
  exact not_inGrammar_of_head _ (ascii " ") ⟨34, 1, false⟩ (ascii "a\" }}") (by decide) (by decide) (by decide) (by decide)

theorem dq_syntax_error (cx : Cx) (key : String) (u : Bool) :
    checkExprsIn cx key u "${{ \"a\" }}" = (none, [err "syntax-error" []]) := by
  apply violation_syntax_error cx key u _ 0 (by rw [bytes_dq]; decide) ?_ dq_not_inGrammar
  rw [dq_decoded]
  rintro ⟨d, rest, he, hd, -⟩
  have : (ascii " \"a\" }}").head?.map (·.r) = some 32 := by decide
  rw [he] at this
  simp [hd] at this

def bOpenA : List Nat := [101, 99, 104, 111, 32, 36, 123, 123, 32, 97]
theorem bytes_openA : bytesOf "echo ${{ a" = bOpenA := by decide +kernel
theorem openA_decoded : behind "echo ${{ a" 5 = ascii " a" := by unfold behind; rw [bytes_openA]; decide +kernel

/-- `run: echo ${{ a` — the placeholder is never closed -/
theorem openA_syntax_error (cx : Cx) (key : String) (u : Bool) :
    checkExprsIn cx key u "echo ${{ a" = (none, [err "syntax-error" []]) := by
  apply unterminated_syntax_error cx key u _ 5 (by rw [bytes_openA]; decide)
  · rw [openA_decoded]
    rintro ⟨d, rest, he, hd, -⟩
    have : (ascii " a").head?.map (·.r) = some 32 := by decide
    rw [he] at this
    simp [hd] at this
  · rw [openA_decoded]; decide

/-- … and it is `Malformed` in the sense of C03: reported in EVERY position, a bare `if:` included (read as a whole,
`echo ${{ a` is not an expression either: `$` starts no token — the reading would have to go through it, there being no
`}}` before) -/
theorem openA_malformed : AL.C03R.Malformed "echo ${{ a" := by
  constructor
  · intro cx key u; rw [openA_syntax_error]; simp
  · intro cx key
    rw [checkOne_of_rejected cx key false _ (by rw [bytes_openA]; decide +kernel)]
    simp

/-! #### the second placeholder: `${{ true }} ${{ b c }}` — the loop passes the first, the second is outside the grammar -/

def bTrueBC : List Nat :=
  [36, 123, 123, 32, 116, 114, 117, 101, 32, 125, 125, 32, 36, 123, 123, 32, 98, 32, 99, 32, 125, 125]
theorem bytes_trueBC : bytesOf "${{ true }} ${{ b c }}" = bTrueBC := by decide +kernel

theorem trueBC_syntax_error (cx : Cx) (key : String) (u : Bool) :
    checkExprsIn cx key u "${{ true }} ${{ b c }}" = (none, [err "syntax-error" []]) := by
  have hp : AL.C11R.Passed cx key u (bytesOf "${{ true }} ${{ b c }}") 1 ((bTrueBC.drop (0 + 3)).drop 8) := by
    rw [bytes_trueBC]
    exact AL.C11R.Passed.step (idx := 0) (by decide) (AL.C11R.checkOne_of_parsesBoolLit cx key u _ 8 (by decide +kernel))
      (by decide) (AL.C11R.Passed.zero _)
  exact AL.C11R.kth_placeholder_reported cx key u _ 1 _ hp 1 (by decide) _
    (checkOne_of_rejected cx key u _ (by decide +kernel))

/-! #### the two limits of the correspondence, on witnesses -/

/-- **byte-order mark** (the finding of `AL.C04.lex_spelling_counterexample`, at the level of the rule): in
`${{<U+FEFF>a }}` the scanner drops the mark, the identifier keeps it in its text; lexer and parser accept, no syntax
diagnostic in any scope — and the text is NOT in the grammar (U+FEFF starts no token). Why `¬ StartsWithBOM` is a
hypothesis of `accepted_inGrammar` / `violation_syntax_error`. -/
theorem bom_accepted_outside_grammar :
    (∀ (cx : Cx) (key : String) (u : Bool), NoSyn (checkOne cx key u [239, 187, 191, 97, 32, 125, 125]).2) ∧
    (∀ e, ¬ InGrammar (decodeUtf8 [239, 187, 191, 97, 32, 125, 125]) e) := by
  have hd : decodeUtf8 [239, 187, 191, 97, 32, 125, 125] = ⟨0xFEFF, 3, false⟩ :: ascii "a }}" := by decide +kernel
  constructor
  · intro cx key u x hx hs
    have := (checkOne_syntax_iff cx key u _).1 ⟨x, hx, hs⟩
    rw [show accepted (decodeUtf8 [239, 187, 191, 97, 32, 125, 125]) = true from by decide +kernel] at this
    cases this
  · rw [hd]
    exact not_inGrammar_of_head _ [] ⟨0xFEFF, 3, false⟩ (ascii "a }}") rfl (by simp) (by decide) (by decide)

def t1 : Tok := ⟨.int, ascii "1", 1, 1, 2⟩
def tDot : Tok := ⟨.dot, ascii ".", 2, 1, 3⟩
def tA : Tok := ⟨.ident, ascii "a", 3, 1, 4⟩

/-- **longest match is part of the grammar**: ` 1.a }}` can be READ as `1` `.` `a` — a sentence — but `1.` starts a
fraction (`AL.C04.lex_complete`'s side condition) and the lexer rejects: `InGrammar` alone does not imply acceptance,
`InGrammarStrict` does. -/
theorem loose_reading_rejected : InGrammar (ascii " 1.a }}") (.objDeref (.int 1) (ascii "a")) ∧
    accepted (ascii " 1.a }}") = false ∧ ∀ e, ¬ InGrammarStrict (ascii " 1.a }}") e := by
  refine ⟨⟨[ascii " ", [], [], ascii " "], [t1, tDot, tA], tEnd, rfl, by decide, ⟨[], by decide⟩, ?_, ⟨rfl, by decide⟩, ?_⟩,
    by decide +kernel, rejected_not_inGrammarStrict _ (by decide +kernel)⟩
  · intro t ht
    simp only [List.mem_cons, List.not_mem_nil, or_false] at ht
    rcases ht with rfl | rfl | rfl
    · exact ⟨by decide, .inl (.inl (.inr ⟨49, [], by decide, by decide, by decide, by simp⟩))⟩
    · exact ⟨by decide, show runes (ascii ".") = [46] by decide⟩
    · exact ⟨by decide, 97, [], by decide, .inl (by decide), by simp⟩
  · exact .orUp (.andUp (.cmpUp (.unaryUp (.postProp (ts := [t1]) (d := tDot) (i := tA)
      (.postUp (.primInt (t := t1) rfl (by decide))) rfl rfl))))

/-! #### where a placeholder ends is the lexer's business; what is behind a first diagnostic is not looked at -/

/-- **Observation.** A `}}` inside a string literal does not close the placeholder: `${{ 'a}}' }}` is ONE placeholder, the
string `'a}}'` — in the grammar, accepted, the lexer's offset (9) is behind the second `}}`. (Hence the theorems above speak
of the text behind `${{`, not of "the text up to the first `}}`": cut at the first `}}`, the body ` 'a` would be outside
the grammar. `ContainsExpression` / `isExprAssigned` do search for the first `}}` textually.) -/
theorem close_inside_string :
    (lexExpression (decodeUtf8 [32, 39, 97, 125, 125, 39, 32, 125, 125])).toOption.map
      (fun r => (r.1.map (·.kind), r.2)) = some ([.string, .end], 9) ∧
    accepted (decodeUtf8 [32, 39, 97, 125, 125, 39, 32, 125, 125]) = true ∧
    accepted (decodeUtf8 [32, 39, 97, 125, 125]) = false := by
  refine ⟨by decide +kernel, by decide +kernel, by decide +kernel⟩

def bTitleAB : List Nat :=
  [36, 123, 123, 32, 103, 105, 116, 104, 117, 98, 46, 101, 118, 101, 110, 116, 46, 105, 115, 115, 117, 101, 46, 116, 105,
   116, 108, 101, 32, 125, 125, 32, 36, 123, 123, 32, 97, 32, 98, 32, 125, 125]
theorem bytes_titleAB : bytesOf "${{ github.event.issue.title }} ${{ a b }}" = bTitleAB := by decide +kernel

/-- **the limit `placeholders-after-first-diagnostic`, for syntax**: in a script, `${{ github.event.issue.title }} ${{ a b }}`
gets the diagnostics of the first placeholder only — the string IS reported, but the grammar violation behind is not: no
syntax code. (`violation_syntax_error` is about the FIRST placeholder; `syntax_from_first_bad` says exactly which
placeholder a syntax code belongs to.) -/
theorem later_violation_not_reported (cx : Cx) (hl : AL.C11R.KeepsTitle cx.lower) (key : String) :
    checkExprsIn cx key true "${{ github.event.issue.title }} ${{ a b }}" =
      checkExprsIn cx key true "${{ github.event.issue.title }}" ∧
    (checkExprsIn cx key true "${{ github.event.issue.title }} ${{ a b }}").2 ≠ [] ∧
    NoSyn (checkExprsIn cx key true "${{ github.event.issue.title }} ${{ a b }}").2 := by
  have h1 : checkExprsIn cx key true "${{ github.event.issue.title }} ${{ a b }}" =
      checkExprsIn cx key true "${{ github.event.issue.title }}" := by
    rw [AL.C11R.title_scan cx hl key]
    have := AL.C11R.chain_text_untrusted cx key _ bTitleAB bytes_titleAB 0 (by decide) "github" ["title", "issue", "event"] 28
      (by decide +kernel) ["github.event.issue.title"]
      (by simp only [List.map, hl.github, hl.event, hl.issue, hl.title]; decide +kernel)
    simpa only [List.map, hl.github, hl.event, hl.issue, hl.title] using this
  refine ⟨h1, ?_, ?_⟩
  · rw [h1, AL.C11R.title_scan cx hl key]; simp
  · rw [h1, AL.C11R.title_scan cx hl key]
    apply noSyn_append.2
    refine ⟨check_noSyn _ _, ?_⟩
    intro x hx hs
    rw [List.mem_singleton.1 hx, isSyntax_iff] at hs
    simp [err] at hs

/-! #### on documents -/

theorem bytes_open : bytesOf "${{" = [36, 123, 123] := by decide +kernel

/-- `${{` alone, as a whole closed by `}}`, is no expression: `$` starts no token -/
theorem open_whole_not_inGrammar : ¬ StartsWithBOM (decodeUtf8 (bytesOf "${{" ++ [125, 125])) ∧
    ∀ e, ¬ InGrammar (decodeUtf8 (bytesOf "${{" ++ [125, 125])) e := by
  have hd : decodeUtf8 (bytesOf "${{" ++ [125, 125]) = ascii "${{}}" := by rw [bytes_open]; decide +kernel
  rw [hd]
  constructor
  · rintro ⟨d, rest, he, hd, -⟩
    have : (ascii "${{}}").head?.map (·.r) = some 36 := by decide
    rw [he] at this
    simp [hd] at this
  · exact not_inGrammar_of_head _ [] ⟨36, 1, false⟩ (ascii "{{}}") (by decide) (by simp) (by decide) (by decide)

/-- the document of AL.C03P (`run-name: ${{`, and `${{` three levels down in a matrix): both unterminated placeholders get a
diagnostic WITH THE SYNTAX CODE at their own position, with or without a project -/
example (lower : String → String) (isNum : IsNumber) (proj : ProjView) :
    (∃ d ∈ rule lower isNum (AL.PW.parse AL.C03P.exCfg AL.C03P.exDoc).1 proj, d.site = ⟨1, 11⟩ ∧ d.code ∈ syntaxCodes) ∧
    (∃ d ∈ rule lower isNum (AL.PW.parse AL.C03P.exCfg AL.C03P.exDoc).1 proj, d.site = ⟨5, 34⟩ ∧ d.code ∈ syntaxCodes) := by
  have hs : AL.C03P.valueScalars AL.C03P.exDoc = [AL.C03P.sc "!!str" "${{" 1 11, AL.C03P.sc "!!str" "v" 5 20,
    AL.C03P.sc "!!str" "ubuntu-latest" 2 14, AL.C03P.sc "!!str" "linux" 5 14, AL.C03P.sc "!!str" "x64" 5 29,
    AL.C03P.sc "!!str" "${{" 5 34, AL.C03P.sc "!!str" "make" 7 14] := rfl
  have hbehind : behind "${{" 0 = [] := by unfold behind; rw [bytes_open]; decide +kernel
  have key : ∀ l c, AL.C03P.sc "!!str" "${{" l c ∈ AL.C03P.valueScalars AL.C03P.exDoc →
      ∃ d ∈ rule lower isNum (AL.PW.parse AL.C03P.exCfg AL.C03P.exDoc).1 proj, d.site = ⟨l, c⟩ ∧ d.code ∈ syntaxCodes := by
    intro l c hm
    refine (unterminated_in_document_reported AL.C03P.exCfg lower isNum proj AL.C03P.exDoc _ hm 0
      (by show AL.Proc.indexOf AL.Proc.open3 (bytesOf "${{") 0 = some 0; rw [bytes_open]; decide) ?_ ?_
      open_whole_not_inGrammar).resolve_left (fun h => h AL.C03P.exDoc_clean)
    · show ¬ StartsWithBOM (behind "${{" 0)
      rw [hbehind]; rintro ⟨d, rest, he, -⟩; cases he
    · show hasClose (behind "${{" 0) = false
      rw [hbehind]; rfl
  exact ⟨key 1 11 (by rw [hs]; simp), key 5 34 (by rw [hs]; simp)⟩

theorem contains_ab : AL.Matrix.containsExpr "${{ a b }}" = true := by decide +kernel

/-- `${{ a b }}` in ANY value position of ANY workflow document: a syntax diagnostic of the workflow parser, or a diagnostic
with the syntax code at that scalar — an `if:` included -/
theorem ab_reported_everywhere (cfg : AL.PW.Cfg) (lower : String → String) (isNum : IsNumber) (proj : ProjView)
    (doc v : AL.Yaml.Node) (hv : v ∈ AL.C03P.valueScalars doc) (hval : v.value = "${{ a b }}") :
    (AL.PW.parse cfg doc).2 ≠ [] ∨
      ∃ d ∈ rule lower isNum (AL.PW.parse cfg doc).1 proj, d.site = v.pos ∧ d.code ∈ syntaxCodes :=
  rejected_in_document_reported cfg lower isNum proj doc v hv
    (by rw [hval]; exact badSyntax_of_rejected _ bAB bytes_ab 0 (by decide) rejected_ab (.inl contains_ab))

/-! #### instances of the remaining theorems with hypotheses -/

theorem notX_noBOM : ¬ StartsWithBOM (ascii " !x }}") := notX_reading.noBOM

/-- `accepted_inGrammar` on ` !x }}` -/
example : ∃ e, parseToks (tokens (ascii " !x }}")) = .ok e ∧ InGrammar (ascii " !x }}") e :=
  accepted_inGrammar _ notX_noBOM (by decide +kernel)

/-- `not_inGrammar_rejected` on ` "a" }}` -/
example : accepted (behind "${{ \"a\" }}" 0) = false :=
  not_inGrammar_rejected _ (by
    rw [dq_decoded]
    rintro ⟨d, rest, he, hd, -⟩
    have : (ascii " \"a\" }}").head?.map (·.r) = some 32 := by decide
    rw [he] at this
    simp [hd] at this) dq_not_inGrammar

/-- `checkOne_of_rejected`, `checkOne_syntax_iff`, `checkOne_syntax_exact`, `checkOne_syntax_scope_free` on ` a b }}` -/
example (cx cx' : Cx) (key key' : String) (u u' : Bool) :
    checkOne cx key u (bAB.drop (0 + 3)) = (none, [err "syntax-error" []]) ∧
    (∃ e ∈ (checkOne cx' key' u' (bAB.drop (0 + 3))).2, isSyntax e) := by
  have h1 := checkOne_of_rejected cx key u _ rejected_ab
  have h2 : ∃ e ∈ (checkOne cx key u (bAB.drop (0 + 3))).2, isSyntax e := (checkOne_syntax_iff cx key u _).2 rejected_ab
  exact ⟨checkOne_syntax_exact cx key u _ h2, checkOne_syntax_scope_free cx cx' key key' u u' _ h2⟩

/-- `checkOne_of_accepted`, `checkOne_of_inGrammar`, `inGrammar_no_syntax` on ` !x }}` -/
example (cx : Cx) (key : String) (u : Bool) :
    (∃ off, checkOne cx key u (bNotX.drop (0 + 3)) = checkParsed cx key u (.not (.var (ascii "x"))) off) ∧
    NoSyn (checkOne cx key u (bNotX.drop (0 + 3))).2 :=
  ⟨checkOne_of_inGrammar cx key u _ _ notX_inGrammar, inGrammar_no_syntax cx key u _ _ notX_inGrammar⟩

/-- `syntax_code_outside_grammar` on ` a b }}` -/
example (cx : Cx) (key : String) (u : Bool) : ∀ e, ¬ InGrammarStrict (decodeUtf8 (bAB.drop (0 + 3))) e :=
  syntax_code_outside_grammar cx key u _ ((checkOne_syntax_iff cx key u _).2 rejected_ab)

/-- `der_same`: the sentence `! x` wherever the two tokens stand -/
example (o l c o' l' c' : Nat) :
    Der .or [⟨.not, ascii "!", o, l, c⟩, ⟨.ident, ascii "x", o', l', c'⟩] (.not (.var (ascii "x"))) :=
  der_same notX_reading.sentence _ rfl

/-- `indexOf_open3_append`, `violation_syntax_error_split`: `echo ` + `${{` + ` a` -/
example (cx : Cx) (key : String) (u : Bool) : checkExprsIn cx key u "echo ${{ a" = (none, [err "syntax-error" []]) := by
  apply violation_syntax_error_split cx key u _ [101, 99, 104, 111, 32] [32, 97] (by rw [bytes_openA]; rfl) (by decide)
  · have : decodeUtf8 [32, 97] = ascii " a" := by decide +kernel
    rw [this]
    rintro ⟨d, rest, he, hd, -⟩
    have : (ascii " a").head?.map (·.r) = some 32 := by decide
    rw [he] at this
    simp [hd] at this
  · have : decodeUtf8 [32, 97] = ascii " a" := by decide +kernel
    rw [this]
    exact not_inGrammar_of_no_close _ (by decide)

/-- `syntax_from_first_bad`, `checkExprsIn_syntax_iff` on `${{ true }} ${{ b c }}`: the loop passed placeholders, stands at
one that is rejected -/
example (cx : Cx) (key : String) (u : Bool) :
    ∃ k t idx, AL.C11R.Passed cx key u (bytesOf "${{ true }} ${{ b c }}") k t ∧
      AL.Proc.indexOf AL.Proc.open3 t 0 = some idx ∧ accepted (decodeUtf8 (t.drop (idx + 3))) = false :=
  (checkExprsIn_syntax_iff cx key u _).1 (syntax_error_has _ (by rw [trueBC_syntax_error]) |>.imp fun e he =>
    ⟨he.1, he.2⟩)

/-- `no_syntax_of_all_inGrammar` on `${{ !x }}`: the loop reaches one placeholder, which is in the grammar -/
example (cx : Cx) (key : String) (u : Bool) : NoSyn (checkExprsIn cx key u "${{ !x }}").2 := by
  apply no_syntax_of_all_inGrammar
  intro k t idx hp hi
  rw [bytes_notX] at hp
  have h00 : AL.Proc.indexOf AL.Proc.open3 bNotX 0 = some 0 := by decide
  cases hp with
  | zero =>
    rw [h00] at hi; cases hi
    exact ⟨_, notX_inGrammar⟩
  | @step _ idx' ty off es k' _ hi' h1 h0 hp' =>
    rw [h00] at hi'; cases hi'
    obtain ⟨ts, off', pe, hlex, -, hco⟩ := checkOne_of_accepted cx key u (bNotX.drop (0 + 3))
      (inGrammarStrict_accepted notX_inGrammar).1
    have hoff : off' = 6 := by
      have : (lexExpression (decodeUtf8 (bNotX.drop (0 + 3)))).toOption.map (·.2) = some 6 := by decide +kernel
      rw [hlex] at this
      simpa [Except.toOption] using this
    have : off = off' := checkParsed_off cx key u pe off' ty off (by rw [← hco, h1])
    subst this
    subst hoff
    have hnil : (bNotX.drop (0 + 3)).drop 6 = [] := by decide
    rw [hnil] at hp'
    cases hp' with
    | zero => rw [AL.C11R.indexOf_open3_nil] at hi; cases hi
    | step hi'' _ _ _ => rw [AL.C11R.indexOf_open3_nil] at hi''; cases hi''

/-- `malformed_of_violation` on `${{ "a" }}` (as a whole, closed by `}}`, it starts with `$`) -/
example : AL.C03R.Malformed "${{ \"a\" }}" := by
  have hd : decodeUtf8 (bytesOf "${{ \"a\" }}" ++ [125, 125]) = ascii "${{ \"a\" }}}}" := by rw [bytes_dq]; decide +kernel
  have hnb : ∀ (s : List Sym) (r : Nat), s.head?.map (·.r) = some r → r ≠ 0xFEFF → ¬ StartsWithBOM s := by
    rintro s r h hr ⟨d, rest, he, hd, -⟩
    rw [he] at h
    simp at h
    exact hr (h ▸ hd)
  refine malformed_of_violation _ 0 (by rw [bytes_dq]; decide) ?_ dq_not_inGrammar ?_ ?_
  · rw [dq_decoded]; exact hnb _ 32 (by decide) (by decide)
  · rw [hd]; exact hnb _ 36 (by decide) (by decide)
  · rw [hd]
    exact not_inGrammar_of_head _ [] ⟨36, 1, false⟩ (ascii "{{ \"a\" }}}}") (by decide) (by simp) (by decide) (by decide)

/-- `lexed_syntax_iff`, `tokens_sentence`, `inGrammarStrict_unique` -/
example (cx : Cx) (key : String) (u : Bool) : ∃ x ∈ (checkOne cx key u (bAB.drop (0 + 3))).2, isSyntax x :=
  (lexed_syntax_iff cx key u _ (by decide +kernel)).2
    (by rw [show decodeUtf8 (bAB.drop (0 + 3)) = ascii " a b }}" from by decide +kernel]; exact ab_not_sentence.2)
example : ∃ e, Der .or (((tokens (ascii " !x }}")).dropLast).map (·.tok)) e := tokens_sentence _ (by decide +kernel)
example (e : Expr) (h : InGrammarStrict (decodeUtf8 (bNotX.drop (0 + 3))) e) : e = .not (.var (ascii "x")) :=
  inGrammarStrict_unique h notX_inGrammar

end Examples

end AL.C04R
