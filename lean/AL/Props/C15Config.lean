import AL.Model.ConfigDecode
/-
  C15, the configuration file (config.go, AL.ConfigDecode): what `ParseConfig` accepts has valid glob keys only, and
  `config-variables` is nil (the variables are not checked) exactly when the key's value is null — an empty list is not nil.
-/
namespace AL.C15C
open AL.Yaml AL.PW AL.ConfigDecode
open AL.CallMeta (D E)

/-- a configuration `ParseConfig` returns has no invalid glob among the keys of `paths:` -/
theorem accepted_config_has_valid_globs (regexOk globOk : String → Bool) (doc : Node) (c : Config)
    (h : parseConfig regexOk globOk doc = .ok c) : ∀ p ∈ c.paths, globOk p.1 = true := by
  simp only [parseConfig] at h
  split at h
  · simp only [Except.ok.injEq] at h; subst h; intro p hp; cases hp
  · split at h
    · cases h
    · split at h
      · rename_i hall
        simp only [Except.ok.injEq] at h; subst h
        intro p hp
        rw [List.all_eq_true] at hall
        exact hall p.1 (List.mem_map.mpr ⟨p, hp, rfl⟩)
      · cases h

/-- a `[]string` field decodes to nil iff the node is null (`config-variables: null`, `config-variables:`): an empty
sequence gives the empty, non-nil list -/
theorem strSlice_nil_iff (n : Node) (h : n.kind ≠ .alias) :
    decStrSlice n = .ok none ↔ (n.kind = .scalar ∧ n.tag = "!!null") := by
  simp only [decStrSlice]
  cases hk : n.kind with
  | alias => exact absurd hk h
  | sequence =>
    simp only [hk]
    constructor
    · intro h'
      cases hd : decStrs n.content with
      | error e => simp [hd, Except.map] at h'
      | ok l => simp [hd, Except.map] at h'
    · intro h'; cases h'.1
  | scalar =>
    simp only [hk]
    by_cases ht : n.tag = "!!null"
    · simp [ht]
    · simp [ht]
  | mapping => simp [hk]
  | document => simp [hk]

example : decStrSlice (.mk .sequence "!!seq" "" false 1 1 []) = .ok (some []) := rfl

end AL.C15C
