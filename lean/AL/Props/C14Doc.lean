import AL.Lemmas.C14DCalleeDoc
import AL.Lemmas.C14DAction
import AL.Lemmas.C14DStep
import AL.Lemmas.C14DSim
import AL.Lemmas.C14DKinds
import AL.Props.C08Rules
import AL.Props.C09Cron
import AL.Props.C06Rule
import AL.Props.C05Proj
/-
  C14 — "calls are checked exactly against the callee's declared interface" — FROM THE TWO DOCUMENTS TO THE DIAGNOSTICS.

  The callee's interface and the caller's `with:` / `secrets:` are read off the yaml.Node trees by readers written with
  `attr` (the value under a key of a mapping) only — no parser, no decoder (AL/Lemmas/C14DBase, C14DCallee, C14DCaller,
  C14DAction):

    entries "inputs" cd        the key/value pairs of `on.workflow_call.inputs` of a called workflow's document
    inputRequired v            `required: true` and no (non-null) `default:`             (requiredTrue v for a secret)
    readMeta cfg cd            the interface: ids = `lower` of the keys, names = the keys, required as above
    actSection "inputs" ad     the pairs of `inputs:` of an `action.yml` document; actInputRequired (yaml.v3's bool decoding)
    jobEntries d               the pairs of `jobs:` of the caller;  withEntries / secretEntries jn, inheritsSecrets jn
    stepNodes jn               the elements of `steps:`;            stepWithEntries sn

  §1  callee, reusable workflow   callee_sane, callee_interface_read (AST = file = reader), readMeta_inputs … , declared_*_iff,
                                  inputRequired_iff, callee_on_disk
  §2  callee, local action        action_interface_read, action_declared_input_iff, actInputRequired_iff
  §3  caller                      caller_job_call, caller_job_plain, caller_step_action, with_ids_folded, step_with_ids_folded
  §4  end to end, reusable wf     CalleeOk, CallResolves, CallSite; call_view (the job's diagnostics = checkLocal of the two
                                  documents), call_input_undefined_doc, call_input_required_doc, call_secret_undefined_doc,
                                  call_secret_required_doc, call_inherit_no_secret, call_codes; call_sig_exact (the complete list),
                                  call_input_undefined_once, call_secret_undefined_once, call_input_required_count (nothing twice);
                                  lint_wc_sound / lint_wc_complete (the whole file's output), call_input_undefined_in_lint,
                                  call_input_required_in_lint,
                                  sole_call_lint_iff, sole_call_input_undefined_lint_iff, sole_call_input_required_lint_iff,
                                  sole_call_secret_undefined_lint_iff, sole_call_secret_required_lint_iff, sole_call_inherit_lint
                                  (one calling job: iff on the output of `AL.ProjLint.lint`)
  §5  end to end, local action    ActionResolves, StepSite; step_view, step_input_undefined_doc, step_input_missing_doc,
                                  step_input_undefined_in_lint, step_input_missing_in_lint, lint_action_only,
                                  sole_step_lint_iff, sole_step_input_undefined_lint_iff, sole_step_input_missing_lint_iff
                                  (one step using a local action: iff on the output of `AL.ProjLint.lint`)
  §6  outputs                     callee_outputs_doc, action_outputs_doc, local_action_step_outputs, steps_output_reported_iff_doc,
                                  needs_output_reported_iff_doc; needs_view_of_documents, needs_output_reported_iff_documents
                                  (`needs.<job>.outputs.<x>` end to end: from the two documents to the expression rule)
  §7  instances                   one callee, three callers, one action.yml: every hypothesis is discharged, both sides of every iff occur
-/
namespace AL.C14D
open AL AL.Yaml AL.PW AL.Ast AL.CallMeta AL.C10M

/-! ## 1. the callee's side: a reusable workflow -/

/-- the test the harness evaluates on every generated tree (AL.CallMeta.docHypB: yaml.v3's guarantees for the
`workflow_call:` section, no `${{ }}` in a `required:`) covers what the reader needs -/
theorem callee_sane (cfg : Cfg) (cd : Node) (hh : docHypB cfg cd = true) : CalleeSane cd := by
  intro c hc
  cases hd : cd.content with
  | nil => simp [docHypB, hd] at hh
  | cons root rest =>
    simp only [docHypB, hd, List.all_eq_true, Bool.and_eq_true, Bool.or_eq_true, bne_iff_ne, ne_eq] at hh
    simp only [callNode, onNode, rootOf, hd, List.head?_cons, Option.bind_some] at hc
    cases hon : attr "on" root with
    | none => simp [hon] at hc
    | some on =>
      simp only [hon, Option.bind_some] at hc
      have hon' : valueOf "on" (pairs root.content) = some on := by
        simp only [attr] at hon
        split at hon
        · exact hon
        · cases hon
      obtain ⟨k, hmem, hk⟩ := valueOf_mem hon'
      have hok := onOkB_sound cfg on ((hh (k, on) hmem).2.resolve_left (fun c => c hk))
      have hc' : valueOf "workflow_call" (pairs on.content) = some c := by
        simp only [attr] at hc
        split at hc
        · exact hc
        · cases hc
      obtain ⟨k2, hmem2, hk2⟩ := valueOf_mem hc'
      obtain ⟨h1, h2⟩ := hok.2 (k2, c) hmem2 hk2
      exact ⟨saneB_sound 3 c h1, noPlaceholderB_sound c h2⟩

/-- **C14, the callee's interface, from the document**: for a called workflow's document the parser accepts without a
diagnostic, the interface the linter works with — whether taken from the AST (`WriteWorkflowCallEvent`) or decoded from the
file (`parseReusableWorkflowMetadata`) — is the interface READ FROM THE DOCUMENT: ids = folded keys of
`on.workflow_call.inputs` / `secrets` / `outputs`, in order, an input required iff `required: true` and no `default:` -/
theorem callee_interface_read (cfg : Cfg) (cd : Node) (hlow : cfg.lower "workflow_call" = "workflow_call")
    (hh : docHypB cfg cd = true) (hc : (parse cfg cd).2 = []) (m : Meta) (hm : fromDocAst cfg cd = some m) :
    m = readMeta cfg cd ∧ fromDoc cfg cd = .ok (readMeta cfg cd) := by
  have h1 := fromDocAst_read cfg cd hc (callee_sane cfg cd hh) m hm
  exact ⟨h1, h1 ▸ document_interface_agrees_checked cfg cd hlow hh hc m hm⟩

theorem readMeta_inputs (cfg : Cfg) (cd : Node) :
    (readMeta cfg cd).inputs = (entries "inputs" cd).map fun q => (cfg.lower q.1.value, ⟨q.1.value, inputRequired q.2, typeOf q.2⟩) := by
  simp only [readMeta, entries]
  cases callNode cd <;> simp [readCall, inputsOf]

theorem readMeta_secrets (cfg : Cfg) (cd : Node) :
    (readMeta cfg cd).secrets = (entries "secrets" cd).map fun q => (cfg.lower q.1.value, ⟨q.1.value, requiredTrue q.2⟩) := by
  simp only [readMeta, entries]
  cases callNode cd <;> simp [readCall, secretsOf]

theorem readMeta_outputs (cfg : Cfg) (cd : Node) :
    (readMeta cfg cd).outputs = (entries "outputs" cd).map fun q => (cfg.lower q.1.value, q.1.value) := by
  simp only [readMeta, entries]
  cases callNode cd <;> simp [readCall, outputsOf]

/-- the declared input ids are exactly `lower` of the keys of `on.workflow_call.inputs` -/
theorem declared_input_iff (cfg : Cfg) (cd : Node) (id : String) :
    id ∈ AL.ProjCall.keysOf (readMeta cfg cd).inputs ↔ ∃ q ∈ entries "inputs" cd, cfg.lower q.1.value = id := by
  simp [AL.ProjCall.keysOf, readMeta_inputs]

theorem declared_secret_iff (cfg : Cfg) (cd : Node) (id : String) :
    id ∈ AL.ProjCall.keysOf (readMeta cfg cd).secrets ↔ ∃ q ∈ entries "secrets" cd, cfg.lower q.1.value = id := by
  simp [AL.ProjCall.keysOf, readMeta_secrets]

theorem declared_output_iff (cfg : Cfg) (cd : Node) (id : String) :
    id ∈ (readMeta cfg cd).outputs.map (·.1) ↔ ∃ q ∈ entries "outputs" cd, cfg.lower q.1.value = id := by
  simp [readMeta_outputs]

/-- an input is "required" iff its mapping has `required: true` and no (non-null) `default:` — on the node tree -/
theorem inputRequired_iff (v : Node) :
    inputRequired v = true ↔
      (∃ r, attr "required" v = some r ∧ r.kind = .scalar ∧ r.tag = "!!bool" ∧ r.value ∈ trueWords) ∧
      ¬ ∃ d, attr "default" v = some d ∧ d.isNull = false := by
  simp only [inputRequired, requiredTrue, hasDefault, Bool.and_eq_true, Bool.not_eq_true']
  constructor
  · rintro ⟨h1, h2⟩
    refine ⟨?_, ?_⟩
    · cases hr : attr "required" v with
      | none => simp [hr] at h1
      | some r =>
        simp only [hr, saysTrue, Bool.and_eq_true, decide_eq_true_eq, List.contains_iff_mem] at h1
        exact ⟨r, rfl, h1.1.1, h1.1.2, h1.2⟩
    · rintro ⟨d, hd, hn⟩
      simp [hd, hn] at h2
  · rintro ⟨⟨r, hr, h1, h2, h3⟩, hnd⟩
    refine ⟨by simp [hr, saysTrue, h1, h2, h3], ?_⟩
    cases hd : attr "default" v with
    | none => rfl
    | some d =>
      simp only [Bool.not_eq_false']
      cases hn : d.isNull with
      | true => rfl
      | false => exact absurd ⟨d, hd, hn⟩ hnd

/-- a secret is "required" iff its mapping has `required: true` -/
theorem requiredTrue_iff (v : Node) :
    requiredTrue v = true ↔ ∃ r, attr "required" v = some r ∧ r.kind = .scalar ∧ r.tag = "!!bool" ∧ r.value ∈ trueWords := by
  simp only [requiredTrue]
  cases hr : attr "required" v with
  | none => simp
  | some r =>
    simp only [saysTrue, Bool.and_eq_true, decide_eq_true_eq, List.contains_iff_mem, Option.some.injEq, exists_eq_left']
    exact ⟨fun h => ⟨h.1.1, h.1.2, h.2⟩, fun h => ⟨⟨h.1, h.2.1⟩, h.2.2⟩⟩

/-- a declared input of the interface, in terms of the document: which entry it is, whether it is required -/
theorem declared_input_entry_iff (cfg : Cfg) (cd : Node) (id : String) (i : CallMeta.Input) :
    (id, i) ∈ (readMeta cfg cd).inputs ↔
      ∃ q ∈ entries "inputs" cd, id = cfg.lower q.1.value ∧ i.name = q.1.value ∧ i.required = inputRequired q.2 ∧ i.ty = typeOf q.2 := by
  rw [readMeta_inputs]
  simp only [List.mem_map, Prod.mk.injEq]
  constructor
  · rintro ⟨q, hq, h1, h2⟩
    exact ⟨q, hq, h1.symm, by rw [← h2], by rw [← h2], by rw [← h2]⟩
  · rintro ⟨q, hq, h1, h2, h3, h4⟩
    refine ⟨q, hq, h1.symm, ?_⟩
    cases i
    simp_all

theorem declared_secret_entry_iff (cfg : Cfg) (cd : Node) (id : String) (s : CallMeta.Secret) :
    (id, s) ∈ (readMeta cfg cd).secrets ↔
      ∃ q ∈ entries "secrets" cd, id = cfg.lower q.1.value ∧ s.name = q.1.value ∧ s.required = requiredTrue q.2 := by
  rw [readMeta_secrets]
  simp only [List.mem_map, Prod.mk.injEq]
  constructor
  · rintro ⟨q, hq, h1, h2⟩
    exact ⟨q, hq, h1.symm, by rw [← h2], by rw [← h2]⟩
  · rintro ⟨q, hq, h1, h2, h3⟩
    refine ⟨q, hq, h1.symm, ?_⟩
    cases s
    simp_all

/-- what reading + decoding the called file gives (`AL.ProjCall.OnDisk`) when the file is the document `cd` -/
def diskOfDoc (cfg : Cfg) (cd : Node) : AL.ProjCall.OnDisk :=
  match fromDoc cfg cd with
  | .ok m => .ok m
  | .error _ => .broken

/-- a called workflow the parser accepts is on disk with the interface read from its document -/
theorem callee_on_disk (cfg : Cfg) (cd : Node) (hlow : cfg.lower "workflow_call" = "workflow_call")
    (hh : docHypB cfg cd = true) (hc : (parse cfg cd).2 = []) (hev : (fromDocAst cfg cd).isSome = true) :
    diskOfDoc cfg cd = .ok (readMeta cfg cd) := by
  cases hm : fromDocAst cfg cd with
  | none => rw [hm] at hev; cases hev
  | some m => simp [diskOfDoc, (callee_interface_read cfg cd hlow hh hc m hm).2]

/-- the ids of the interface read from an accepted document are pairwise distinct -/
theorem readMeta_distinct (cfg : Cfg) (cd : Node) (hlow : cfg.lower "workflow_call" = "workflow_call")
    (hh : docHypB cfg cd = true) (hc : (parse cfg cd).2 = []) (hev : (fromDocAst cfg cd).isSome = true) :
    AL.C14W.MetaDistinct (readMeta cfg cd) := by
  cases hm : fromDocAst cfg cd with
  | none => rw [hm] at hev; cases hev
  | some m =>
    have := (callee_interface_read cfg cd hlow hh hc m hm).1
    exact this ▸ AL.C14W.fromDocAst_distinct cfg cd m hm

/-! ## 2. the callee's side: a local action -/

/-- **C14, the interface of a local action, from `action.yml`**: when `yaml.Unmarshal` accepts the document, the inputs and
outputs of the metadata are the ones read from it: ids = folded keys of `inputs:` / `outputs:`, in order, an input required
iff `required:` decodes to true and there is no (non-null) `default:` -/
theorem action_interface_read (cfg : Cfg) (ad : Node) (hs : actionSaneB ad = true) (d : AL.ActionDecode.Decoded)
    (h : AL.ActionDecode.fromDoc cfg ad = .ok d) :
    d.inputs = actionInputs cfg ad ∧ d.outputs = actionOutputs cfg ad :=
  action_fromDoc_read cfg ad (actionSaneB_sound ad hs) d h

theorem action_declared_input_iff (cfg : Cfg) (ad : Node) (id name : String) (req : Bool) :
    (id, name, req) ∈ actionInputs cfg ad ↔
      ∃ q ∈ actSection "inputs" ad, id = cfg.lower q.1.value ∧ name = q.1.value ∧ req = actInputRequired q.2 := by
  simp only [actionInputs, List.mem_map, Prod.mk.injEq]
  constructor
  · rintro ⟨q, hq, h1, h2, h3⟩; exact ⟨q, hq, h1.symm, h2.symm, h3.symm⟩
  · rintro ⟨q, hq, h1, h2, h3⟩; exact ⟨q, hq, h1.symm, h2.symm, h3.symm⟩

theorem action_declared_output_iff (cfg : Cfg) (ad : Node) (id : String) :
    id ∈ (actionOutputs cfg ad).map (·.1) ↔ ∃ q ∈ actSection "outputs" ad, cfg.lower q.1.value = id := by
  simp [actionOutputs]

/-- an input of a local action is "required" iff `required:` decodes to the Go bool `true` and there is no (non-null)
`default:` — on the node tree -/
theorem actInputRequired_iff (v : Node) :
    actInputRequired v = true ↔
      (∃ r, attr "required" v = some r ∧ yamlTrue r = true) ∧ ¬ ∃ d, attr "default" v = some d ∧ d.isNull = false := by
  simp only [actInputRequired, actRequiredTrue, hasDefault, Bool.and_eq_true, Bool.not_eq_true']
  constructor
  · rintro ⟨h1, h2⟩
    refine ⟨?_, ?_⟩
    · cases hr : attr "required" v with
      | none => simp [hr] at h1
      | some r => simp only [hr] at h1; exact ⟨r, rfl, h1⟩
    · rintro ⟨d, hd, hn⟩
      simp [hd, hn] at h2
  · rintro ⟨⟨r, hr, h1⟩, hnd⟩
    refine ⟨by simp [hr, h1], ?_⟩
    cases hd : attr "default" v with
    | none => rfl
    | some d =>
      simp only [Bool.not_eq_false']
      cases hn : d.isNull with
      | true => rfl
      | false => exact absurd ⟨d, hd, hn⟩ hnd

/-- `required: true` (the literal) is one way to say it -/
theorem yamlTrue_of_saysTrue (r : Node) (h : saysTrue r = true) : yamlTrue r = true := by
  simp only [saysTrue, Bool.and_eq_true, decide_eq_true_eq, List.contains_iff_mem] at h
  simp [yamlTrue, h.1.1, h.1.2, h.2]

/-! ## 3. the caller's side -/

/-- the `WorkflowCall` of a job node with `uses: vU`, read from the node: `with:` / `secrets:` entries under their folded
keys, `secrets: inherit` -/
def callOfJob (cfg : Cfg) (jn vU : Node) : WorkflowCall :=
  { uses := some (newString vU), inputs := withArgs cfg jn, secrets := secretArgs cfg jn, inheritSecrets := inheritsSecrets jn }

/-- the key/value pairs of `with:` of a job or step node -/
def withEntries (jn : Node) : List (Node × Node) :=
  match attr "with" jn with
  | some w => pairs w.content
  | none => []

/-- the key/value pairs of `secrets:` of a job node (nothing for `secrets: inherit`) -/
def secretEntries (jn : Node) : List (Node × Node) :=
  match attr "secrets" jn with
  | some s => if s.kind = .scalar then [] else pairs s.content
  | none => []

/-- the pairs of `with:` of a step that are inputs of the action -/
def stepWithEntries (cfg : Cfg) (sn : Node) : List (Node × Node) :=
  (withEntries sn).filter fun q => cfg.lower q.1.value ≠ "entrypoint" && cfg.lower q.1.value ≠ "args"

/-- **a job that calls a workflow, in a document the parser accepts**: the AST has the job under its folded key, and its
call is the one read from the job's node -/
theorem caller_job_call (cfg : Cfg) (d : Node) (hc : (parse cfg d).2 = []) (q : Node × Node) (hq : q ∈ jobEntries d) (vU : Node)
    (hu : attr "uses" q.2 = some vU) :
    ∃ j, (cfg.lower q.1.value, j) ∈ (parse cfg d).1.jobs.getD [] ∧ j.id = newString q.1 ∧
      j.workflowCall = some (callOfJob cfg q.2 vU) := by
  obtain ⟨hj, hcl, _⟩ := parse_jobs_read cfg d hc
  obtain ⟨hid, c, hw, h1, h2, h3, h4⟩ := parseJob_call_read cfg (newString q.1) q.2 (hcl q hq) vU hu
  refine ⟨(parseJob cfg (newString q.1) q.2).1, ?_, hid, ?_⟩
  · rw [hj]; exact List.mem_map.2 ⟨q, hq, rfl⟩
  · rw [hw]
    cases c
    simp only at h1 h2 h3 h4
    subst h1 h2 h3 h4
    rfl

/-- **a job with steps**: the AST has the job under its folded key; it calls nothing; its steps are the elements of
`steps:` -/
theorem caller_job_plain (cfg : Cfg) (d : Node) (hc : (parse cfg d).2 = []) (q : Node × Node) (hq : q ∈ jobEntries d)
    (hu : attr "uses" q.2 = none) :
    ∃ j, (cfg.lower q.1.value, j) ∈ (parse cfg d).1.jobs.getD [] ∧ j.workflowCall = none ∧
      j.steps.getD [] = (stepNodes q.2).map (fun c => (parseStep cfg c).1) := by
  obtain ⟨hj, hcl, _⟩ := parse_jobs_read cfg d hc
  refine ⟨(parseJob cfg (newString q.1) q.2).1, ?_, parseJob_nocall cfg _ q.2 (hcl q hq) hu,
    (parseJob_steps_read cfg _ q.2 (hcl q hq) hu).1⟩
  rw [hj]; exact List.mem_map.2 ⟨q, hq, rfl⟩

/-- **a step that uses an action, in a document the parser accepts**: the AST has an action step with that `uses` whose
inputs are the entries of `with:` (other than `entrypoint` / `args`) under their folded keys -/
theorem caller_step_action (cfg : Cfg) (d : Node) (hc : (parse cfg d).2 = []) (q : Node × Node) (hq : q ∈ jobEntries d)
    (hu : attr "uses" q.2 = none) (sn : Node) (hs : sn ∈ stepNodes q.2) (vU : Node) (hsu : attr "uses" sn = some vU) :
    ∃ j ∈ AL.Rules.jobsOf (parse cfg d).1, ∃ st ∈ AL.Rules.stepsOf j, ∃ e, st.exec = .action e ∧ e.uses = some (newString vU) ∧
      e.inputs = stepWith cfg sn := by
  obtain ⟨hj, hcl, _⟩ := parse_jobs_read cfg d hc
  obtain ⟨hst, hscl⟩ := parseJob_steps_read cfg (newString q.1) q.2 (hcl q hq) hu
  obtain ⟨e, he, h1, h2⟩ := parseStep_action_read cfg sn (hscl sn hs) vU hsu
  refine ⟨(parseJob cfg (newString q.1) q.2).1, ?_, (parseStep cfg sn).1, ?_, e, he, h1, h2⟩
  · simp only [AL.Rules.jobsOf, hj, List.map_map]
    exact List.mem_map.2 ⟨q, hq, rfl⟩
  · simp only [AL.Rules.stepsOf]
    rw [hst]
    exact List.mem_map.2 ⟨sn, hs, rfl⟩

/-- the ids under which the parser stores `with:` of a call are the folded keys … -/
theorem with_ids_folded (cfg : Cfg) (jn : Node) : AL.C08R.ArgsFolded cfg.lower (withArgs cfg jn) := by
  intro kv hkv
  simp only [withArgs] at hkv
  cases ha : attr "with" jn with
  | none => simp [ha] at hkv
  | some w =>
    simp only [ha, Option.map_some, Option.getD_some, argsOf, List.mem_map] at hkv
    obtain ⟨q, _, rfl⟩ := hkv
    rfl

theorem secret_ids_folded (cfg : Cfg) (jn : Node) : AL.C08R.ArgsFolded cfg.lower (secretArgs cfg jn) := by
  intro kv hkv
  simp only [secretArgs] at hkv
  cases ha : attr "secrets" jn with
  | none => simp [ha] at hkv
  | some w =>
    simp only [ha] at hkv
    split at hkv
    · simp at hkv
    · simp only [Option.getD_some, argsOf, List.mem_map] at hkv
      obtain ⟨q, _, rfl⟩ := hkv
      rfl

/-- … and those of a step's `with:` too -/
theorem step_with_ids_folded (cfg : Cfg) (sn : Node) (e : ExecAction) (he : e.inputs = stepWith cfg sn) : AL.C08R.Folded cfg.lower e := by
  intro kv hkv
  rw [he] at hkv
  simp only [stepWith] at hkv
  cases ha : attr "with" sn with
  | none => simp [ha] at hkv
  | some w =>
    simp only [ha, Option.map_some, Option.getD_some, stepArgs, List.mem_map] at hkv
    obtain ⟨q, _, rfl⟩ := hkv
    rfl

/-- what rule workflow-call reads of `with:`: id and key position of every entry -/
theorem callKeys_withArgs (cfg : Cfg) (jn : Node) :
    AL.C08R.callKeys (withArgs cfg jn) = (withEntries jn).map fun q => (cfg.lower q.1.value, q.1.pos) := by
  simp only [AL.C08R.callKeys, withArgs, withEntries]
  cases attr "with" jn with
  | none => rfl
  | some w => simp [argsOf, List.map_map, Function.comp_def, newString]

theorem callKeys_secretArgs (cfg : Cfg) (jn : Node) :
    AL.C08R.callKeys (secretArgs cfg jn) = (secretEntries jn).map fun q => (cfg.lower q.1.value, q.1.pos) := by
  simp only [AL.C08R.callKeys, secretArgs, secretEntries]
  cases attr "secrets" jn with
  | none => rfl
  | some w =>
    simp only
    split
    · rfl
    · simp [argsOf, List.map_map, Function.comp_def, newString]

theorem keysOf_withArgs (cfg : Cfg) (jn : Node) :
    AL.ProjCall.keysOf ((withArgs cfg jn).getD []) = (withEntries jn).map fun q => cfg.lower q.1.value := by
  rw [← AL.C08R.callKeys_fst, callKeys_withArgs, List.map_map]
  rfl

theorem keysOf_secretArgs (cfg : Cfg) (jn : Node) :
    AL.ProjCall.keysOf ((secretArgs cfg jn).getD []) = (secretEntries jn).map fun q => cfg.lower q.1.value := by
  rw [← AL.C08R.callKeys_fst, callKeys_secretArgs, List.map_map]
  rfl

/-! ## 4. end to end: a job that calls a local reusable workflow -/

/-- the called file: a document the parser accepts without a diagnostic (so linting the called file itself is silent about
its syntax), with a `workflow_call` event; `docHypB` — yaml.v3's guarantees about the `workflow_call:` section, the key spelled
exactly so, no `${{ }}` in a `required:` (the recorded finding callee-required-placeholder) -/
structure CalleeOk (cfg : Cfg) (cd : Node) : Prop where
  lower : cfg.lower "workflow_call" = "workflow_call"
  sane : docHypB cfg cd = true
  clean : (parse cfg cd).2 = []
  event : (fromDocAst cfg cd).isSome = true

/-- the environment: the linted file is inside a project, reading and decoding the file behind `spec` gives what
`parseReusableWorkflowMetadata` makes of the document `cd`, and the linted file is not that file -/
structure CallResolves (cfg : Cfg) (env : AL.ProjLint.Env) (spec : String) (cd : Node) : Prop where
  project : env.calls.hasProject = true
  disk : env.calls.disk spec = diskOfDoc cfg cd
  notSelf : env.calls.self ≠ some spec

/-- the call site in the caller's document `d`: the entry `q` of `jobs:` has `uses: vU`, a scalar in the local format
(`./…` without a ref) without a placeholder; the parser accepts `d` -/
structure CallSite (cfg : Cfg) (d : Node) (q : Node × Node) (vU : Node) : Prop where
  clean : (parse cfg d).2 = []
  job : q ∈ jobEntries d
  uses : attr "uses" q.2 = some vU
  noExpr : AL.Matrix.containsExpr vU.value = false
  localFormat : AL.Rules.isLocalCallFormat vU.value = true

theorem localFormat_startsWith (s : String) (h : AL.Rules.isLocalCallFormat s = true) : s.startsWith "./" = true := by
  unfold AL.Rules.isLocalCallFormat at h
  by_cases hs : s.startsWith "./" = true
  · exact hs
  · simp [hs] at h

theorem CallResolves.on_disk {cfg : Cfg} {env : AL.ProjLint.Env} {spec : String} {cd : Node} (hr : CallResolves cfg env spec cd)
    (hcd : CalleeOk cfg cd) : env.calls.disk spec = .ok (readMeta cfg cd) := by
  rw [hr.disk, callee_on_disk cfg cd hcd.lower hcd.sane hcd.clean hcd.event]

/-- **C14 end to end, the diagnostics of one calling job**: in the simulation of the whole file (every job in source order,
the cache threaded through), the job `q` of the caller's document gets from rule workflow-call exactly
`checkWorkflowCallUsesLocal` of the interface READ FROM THE CALLEE'S DOCUMENT and the call READ FROM THE CALLER'S DOCUMENT —
whatever the other jobs looked up before -/
theorem call_view (cfg : Cfg) (env : AL.ProjLint.Env) (d cd : Node) (q : Node × Node) (vU : Node) (hcd : CalleeOk cfg cd)
    (hs : CallSite cfg d q vU) (hr : CallResolves cfg env vU.value cd) :
    ∃ v ∈ AL.ProjCall.simulate env.calls cfg.lower (parse cfg d).1, v.1 = q.1.value ∧
      v.2.wc = AL.ProjCall.checkLocal (readMeta cfg cd) (callOfJob cfg q.2 vU) (newString vU) := by
  obtain ⟨j, hj, hid, hw⟩ := caller_job_call cfg d hs.clean q hs.job vU hs.uses
  have hd := hr.on_disk hcd
  have hinv := initialCache_inv (m := readMeta cfg cd) hr.notSelf (parse cfg d).1
  obtain ⟨v, hv, h1, c', hc', h2⟩ := (simulateJobs_wc hd hs.localFormat cfg.lower ((parse cfg d).1.jobs.getD [])
    ((parse cfg d).1.jobs.getD []) _ hinv).1 _ hj
  refine ⟨v, hv, by rw [h1, hid]; rfl, ?_⟩
  rw [h2]
  have hskip : AL.ProjCall.skipped env.calls vU.value = false := by
    simp [AL.ProjCall.skipped, hr.project, localFormat_startsWith _ hs.localFormat, hs.noExpr]
  have hne : ((newString vU).value = "" || AL.Rules.containsExpr (newString vU)) = false := by
    have h1 : vU.value ≠ "" := by
      intro e
      have := hs.localFormat
      rw [e] at this
      revert this
      decide
    simp only [newString, AL.Rules.containsExpr, hs.noExpr, Bool.or_false]
    exact decide_eq_false h1
  exact wcJob_checks hd hskip hs.localFormat c' hc' j (callOfJob cfg q.2 vU) (newString vU) hw rfl rfl hne

/-- **an entry of `with:` is reported as undefined iff the callee does not declare it** — on the two documents: a
diagnostic `input-undefined` at the position `p` iff `with:` has a key at `p` to whose folded text no key of the callee's
`on.workflow_call.inputs` folds -/
theorem call_input_undefined_doc (cfg : Cfg) (cd jn vU : Node) (u : Str) (p : AL.Rules.Pos) :
    (p, "input-undefined") ∈ (AL.ProjCall.checkLocal (readMeta cfg cd) (callOfJob cfg jn vU) u).map AL.C08R.sig ↔
      ∃ kv ∈ withEntries jn, kv.1.pos = p ∧ ∀ e ∈ entries "inputs" cd, cfg.lower e.1.value ≠ cfg.lower kv.1.value := by
  rw [AL.C08R.call_input_undefined_iff]
  simp only [callOfJob, callKeys_withArgs, List.mem_map, readMeta_inputs]
  constructor
  · rintro ⟨g, ⟨kv, hkv, rfl⟩, hp, hn⟩
    exact ⟨kv, hkv, hp, fun e he => hn _ ⟨e, he, rfl⟩⟩
  · rintro ⟨kv, hkv, hp, hn⟩
    refine ⟨_, ⟨kv, hkv, rfl⟩, hp, ?_⟩
    rintro x ⟨e, he, rfl⟩
    exact hn e he

/-- **a required input is reported as missing iff `with:` does not supply it** — on the two documents: `input-required` (at
`uses:`) iff some entry of the callee's `inputs:` has `required: true`, no `default:`, and no key of `with:` folds to its name -/
theorem call_input_required_doc (cfg : Cfg) (cd jn vU : Node) (u : Str) (hcd : CalleeOk cfg cd) :
    (u.pos, "input-required") ∈ (AL.ProjCall.checkLocal (readMeta cfg cd) (callOfJob cfg jn vU) u).map AL.C08R.sig ↔
      ∃ e ∈ entries "inputs" cd, inputRequired e.2 = true ∧ ∀ kv ∈ withEntries jn, cfg.lower kv.1.value ≠ cfg.lower e.1.value := by
  have hnd := (readMeta_distinct cfg cd hcd.lower hcd.sane hcd.clean hcd.event).1
  rw [AL.C08R.call_input_required_iff]
  simp only [callOfJob, callKeys_withArgs, List.mem_map]
  constructor
  · rintro ⟨n, i, hf, hr, hn⟩
    obtain ⟨e, he, h1, _, h3, _⟩ := (declared_input_entry_iff cfg cd n i).1 (List.mem_of_find?_eq_some hf)
    refine ⟨e, he, by rw [← h3]; exact hr, ?_⟩
    intro kv hkv hc
    exact hn _ ⟨kv, hkv, rfl⟩ (by rw [h1]; exact hc)
  · rintro ⟨e, he, hr, hn⟩
    refine ⟨cfg.lower e.1.value, ⟨e.1.value, inputRequired e.2, typeOf e.2⟩, ?_, hr, ?_⟩
    · rw [AL.C14W.find_iff_mem _ hnd]
      exact (declared_input_entry_iff cfg cd _ _).2 ⟨e, he, rfl, rfl, rfl, rfl⟩
    · rintro g ⟨kv, hkv, rfl⟩
      exact hn kv hkv

/-- the same for `secrets:` (without `secrets: inherit`) -/
theorem call_secret_undefined_doc (cfg : Cfg) (cd jn vU : Node) (u : Str) (p : AL.Rules.Pos) (hinh : inheritsSecrets jn = false) :
    (p, "secret-undefined") ∈ (AL.ProjCall.checkLocal (readMeta cfg cd) (callOfJob cfg jn vU) u).map AL.C08R.sig ↔
      ∃ kv ∈ secretEntries jn, kv.1.pos = p ∧ ∀ e ∈ entries "secrets" cd, cfg.lower e.1.value ≠ cfg.lower kv.1.value := by
  rw [AL.C08R.call_secret_undefined_iff _ _ _ _ hinh]
  simp only [callOfJob, callKeys_secretArgs, List.mem_map, readMeta_secrets]
  constructor
  · rintro ⟨g, ⟨kv, hkv, rfl⟩, hp, hn⟩
    exact ⟨kv, hkv, hp, fun e he => hn _ ⟨e, he, rfl⟩⟩
  · rintro ⟨kv, hkv, hp, hn⟩
    refine ⟨_, ⟨kv, hkv, rfl⟩, hp, ?_⟩
    rintro x ⟨e, he, rfl⟩
    exact hn e he

theorem call_secret_required_doc (cfg : Cfg) (cd jn vU : Node) (u : Str) (hcd : CalleeOk cfg cd) (hinh : inheritsSecrets jn = false) :
    (u.pos, "secret-required") ∈ (AL.ProjCall.checkLocal (readMeta cfg cd) (callOfJob cfg jn vU) u).map AL.C08R.sig ↔
      ∃ e ∈ entries "secrets" cd, requiredTrue e.2 = true ∧ ∀ kv ∈ secretEntries jn, cfg.lower kv.1.value ≠ cfg.lower e.1.value := by
  have hnd := (readMeta_distinct cfg cd hcd.lower hcd.sane hcd.clean hcd.event).2.2
  rw [AL.C08R.call_secret_required_iff _ _ _ hinh]
  simp only [callOfJob, callKeys_secretArgs, List.mem_map]
  constructor
  · rintro ⟨n, i, hf, hr, hn⟩
    obtain ⟨e, he, h1, _, h3⟩ := (declared_secret_entry_iff cfg cd n i).1 (List.mem_of_find?_eq_some hf)
    refine ⟨e, he, by rw [← h3]; exact hr, ?_⟩
    intro kv hkv hc
    exact hn _ ⟨kv, hkv, rfl⟩ (by rw [h1]; exact hc)
  · rintro ⟨e, he, hr, hn⟩
    refine ⟨cfg.lower e.1.value, ⟨e.1.value, requiredTrue e.2⟩, ?_, hr, ?_⟩
    · rw [AL.C14W.find_iff_mem _ hnd]
      exact (declared_secret_entry_iff cfg cd _ _).2 ⟨e, he, rfl, rfl, rfl⟩
    · rintro g ⟨kv, hkv, rfl⟩
      exact hn kv hkv

/-- `secrets: inherit` in the caller's document suppresses every report about secrets -/
theorem call_inherit_no_secret (cfg : Cfg) (cd jn vU : Node) (u : Str) (hinh : inheritsSecrets jn = true) :
    ∀ dg ∈ AL.ProjCall.checkLocal (readMeta cfg cd) (callOfJob cfg jn vU) u, dg.code ≠ "secret-required" ∧ dg.code ≠ "secret-undefined" :=
  AL.C14P.inherit_checks_no_secret _ _ u hinh

/-- "nothing else": every diagnostic of the check is one of the four -/
theorem call_codes (m : Meta) (c : WorkflowCall) (u : Str) : ∀ dg ∈ AL.ProjCall.checkLocal m c u,
    dg.code = "input-required" ∨ dg.code = "input-undefined" ∨ dg.code = "secret-required" ∨ dg.code = "secret-undefined" := by
  intro dg hdg
  have hm : AL.C08R.sig dg ∈ (AL.ProjCall.checkLocal m c u).map AL.C08R.sig := List.mem_map.2 ⟨dg, hdg, rfl⟩
  rw [AL.C08R.checkLocal_sig] at hm
  simp only [AL.C08R.localCallK, List.mem_append] at hm
  rcases hm with hm | hm
  · rcases AL.C08R.sectionK_codes _ _ _ _ _ _ hm with e | e
    · exact Or.inl e
    · exact Or.inr (Or.inl e)
  · split at hm
    · cases hm
    · rcases AL.C08R.sectionK_codes _ _ _ _ _ _ hm with e | e
      · exact Or.inr (Or.inr (Or.inl e))
      · exact Or.inr (Or.inr (Or.inr e))

/-! ### the whole list of one job: nothing else, nothing twice -/

/-- sites and codes of the check of one section (`inputs` against `with:`, `secrets` against `secrets:`), on the two
documents: `AL.C08R.sectionK` of (folded key, required?) of the callee's entries and (folded key, position of the key) of
the caller's entries — for every declared id in sorted order one "required" at `uses:` if it is required and not supplied,
then for every supplied entry in source order one "undefined" at its key if no declared id equals its id -/
def docSection (cfg : Cfg) (decl : List (Node × Node)) (req : Node → Bool) (given : List (Node × Node)) (usesPos : AL.Rules.Pos)
    (rc uc : String) : List (AL.Rules.Pos × String) :=
  AL.C08R.sectionK (decl.map fun e => (cfg.lower e.1.value, req e.2)) usesPos rc uc (given.map fun g => (cfg.lower g.1.value, g.1.pos))

/-- **C14, the complete list**: sites and codes of everything rule workflow-call reports for the call, as a function of
the two documents — nothing else is reported -/
theorem call_sig_exact (cfg : Cfg) (cd jn vU : Node) (u : Str) :
    (AL.ProjCall.checkLocal (readMeta cfg cd) (callOfJob cfg jn vU) u).map AL.C08R.sig =
      docSection cfg (entries "inputs" cd) inputRequired (withEntries jn) u.pos "input-required" "input-undefined" ++
      (if inheritsSecrets jn then []
       else docSection cfg (entries "secrets" cd) requiredTrue (secretEntries jn) u.pos "secret-required" "secret-undefined") := by
  rw [AL.C08R.checkLocal_sig]
  simp only [AL.C08R.localCallK, docSection, callOfJob, readMeta_inputs, readMeta_secrets, callKeys_withArgs, callKeys_secretArgs,
    List.map_map, Function.comp_def]

theorem sectionK_filter_undefined (declared : List (String × Bool)) (usesPos : AL.Rules.Pos) (rc uc : String)
    (given : List (String × AL.Rules.Pos)) (hne : rc ≠ uc) :
    (AL.C08R.sectionK declared usesPos rc uc given).filter (fun s => s.2 = uc) =
      (given.filter fun g => !(declared.map (·.1)).contains g.1).map fun g => (g.2, uc) := by
  simp only [AL.C08R.sectionK, List.filter_append]
  have key : ∀ (A B C : List (AL.Rules.Pos × String)), A = [] → B = C → A ++ B = C := by
    intro A B C h1 h2; rw [h1, h2]; rfl
  apply key
  · rw [List.filter_eq_nil_iff]
    intro s hs
    obtain ⟨n, _, hs⟩ := List.mem_flatMap.1 hs
    split at hs
    · split at hs
      · simp only [List.mem_singleton] at hs
        subst hs
        simpa using hne
      · cases hs
    · cases hs
  · induction given with
    | nil => rfl
    | cons g rest ih =>
      simp only [List.flatMap_cons, List.filter_append, List.filter_cons]
      by_cases hc : (declared.map (·.1)).contains g.1 = true
      · simp only [hc, if_true, List.filter_nil, List.nil_append, Bool.not_true, Bool.false_eq_true, if_false]
        exact ih
      · have hc' : (declared.map (·.1)).contains g.1 = false := by simpa using hc
        simp only [hc', Bool.false_eq_true, if_false, List.filter_cons, decide_true, if_true, List.filter_nil, Bool.not_false,
          List.map_cons, List.singleton_append, List.cons.injEq, true_and]
        exact ih

theorem sectionK_filter_other (declared : List (String × Bool)) (usesPos : AL.Rules.Pos) (rc uc c : String)
    (given : List (String × AL.Rules.Pos)) (h1 : c ≠ rc) (h2 : c ≠ uc) :
    (AL.C08R.sectionK declared usesPos rc uc given).filter (fun s => s.2 = c) = [] := by
  rw [List.filter_eq_nil_iff]
  intro s hs
  rcases AL.C08R.sectionK_codes _ _ _ _ _ s hs with e | e
  · simpa [e] using fun h => h1 h.symm
  · simpa [e] using fun h => h2 h.symm

/-- **"nothing twice", undefined inputs**: the `input-undefined` diagnostics of the call are, in source order, one for each
entry of `with:` to which no key of the callee's `inputs:` folds — each exactly once, at its key -/
theorem call_input_undefined_once (cfg : Cfg) (cd jn vU : Node) (u : Str) :
    ((AL.ProjCall.checkLocal (readMeta cfg cd) (callOfJob cfg jn vU) u).map AL.C08R.sig).filter (fun s => s.2 = "input-undefined") =
      ((withEntries jn).filter fun g => (entries "inputs" cd).all fun e => cfg.lower e.1.value != cfg.lower g.1.value).map
        fun g => (g.1.pos, "input-undefined") := by
  rw [call_sig_exact, List.filter_append]
  have hsec : (if inheritsSecrets jn then []
      else docSection cfg (entries "secrets" cd) requiredTrue (secretEntries jn) u.pos "secret-required" "secret-undefined").filter
        (fun s => s.2 = "input-undefined") = [] := by
    split
    · rfl
    · exact sectionK_filter_other _ _ _ _ _ _ (by decide) (by decide)
  rw [hsec, List.append_nil, docSection, sectionK_filter_undefined _ _ _ _ _ (by decide), List.filter_map, List.map_map]
  congr 1
  apply List.filter_congr
  intro g _
  simp only [Function.comp, List.map_map]
  rw [Bool.eq_iff_iff]
  simp only [Bool.not_eq_true', List.all_eq_true, bne_iff_ne, ne_eq]
  constructor
  · intro h e he hc
    have : (List.map ((fun x => x.1) ∘ fun e => (cfg.lower e.1.value, inputRequired e.2)) (entries "inputs" cd)).contains (cfg.lower g.1.value) = true := by
      simp only [List.contains_iff_mem, List.mem_map, Function.comp]
      exact ⟨e, he, hc⟩
    rw [this] at h
    cases h
  · intro h
    cases hc : (List.map ((fun x => x.1) ∘ fun e => (cfg.lower e.1.value, inputRequired e.2)) (entries "inputs" cd)).contains (cfg.lower g.1.value) with
    | false => rfl
    | true =>
      simp only [List.contains_iff_mem, List.mem_map, Function.comp] at hc
      obtain ⟨e, he, hce⟩ := hc
      exact absurd hce (h e he)

theorem call_secret_undefined_once (cfg : Cfg) (cd jn vU : Node) (u : Str) (hinh : inheritsSecrets jn = false) :
    ((AL.ProjCall.checkLocal (readMeta cfg cd) (callOfJob cfg jn vU) u).map AL.C08R.sig).filter (fun s => s.2 = "secret-undefined") =
      ((secretEntries jn).filter fun g => (entries "secrets" cd).all fun e => cfg.lower e.1.value != cfg.lower g.1.value).map
        fun g => (g.1.pos, "secret-undefined") := by
  rw [call_sig_exact, List.filter_append, docSection, sectionK_filter_other _ _ _ _ _ _ (by decide) (by decide), List.nil_append]
  simp only [hinh, Bool.false_eq_true, if_false]
  rw [docSection, sectionK_filter_undefined _ _ _ _ _ (by decide), List.filter_map, List.map_map]
  congr 1
  apply List.filter_congr
  intro g _
  simp only [Function.comp, List.map_map]
  rw [Bool.eq_iff_iff]
  simp only [Bool.not_eq_true', List.all_eq_true, bne_iff_ne, ne_eq]
  constructor
  · intro h e he hc
    have : (List.map ((fun x => x.1) ∘ fun e => (cfg.lower e.1.value, requiredTrue e.2)) (entries "secrets" cd)).contains (cfg.lower g.1.value) = true := by
      simp only [List.contains_iff_mem, List.mem_map, Function.comp]
      exact ⟨e, he, hc⟩
    rw [this] at h
    cases h
  · intro h
    cases hc : (List.map ((fun x => x.1) ∘ fun e => (cfg.lower e.1.value, requiredTrue e.2)) (entries "secrets" cd)).contains (cfg.lower g.1.value) with
    | false => rfl
    | true =>
      simp only [List.contains_iff_mem, List.mem_map, Function.comp] at hc
      obtain ⟨e, he, hce⟩ := hc
      exact absurd hce (h e he)

theorem insertSorted_perm (x : String) : ∀ (l : List String), (AL.PW.insertSorted x l).Perm (x :: l)
  | [] => List.Perm.refl _
  | y :: rest => by
    simp only [AL.PW.insertSorted]
    split
    · exact List.Perm.refl _
    · exact ((insertSorted_perm x rest).cons y).trans (List.Perm.swap x y rest)

/-- `sort.Strings` rearranges -/
theorem sortStrings_perm : ∀ (l : List String), (AL.PW.sortStrings l).Perm l
  | [] => List.Perm.refl _
  | x :: rest => by
    simp only [AL.PW.sortStrings, List.foldr_cons]
    exact (insertSorted_perm x _).trans ((sortStrings_perm rest).cons x)

/-- the "required" part of a section: as many as there are declared entries that are required and not supplied (declared
ids pairwise distinct) -/
theorem sectionK_required_count (declared : List (String × Bool)) (usesPos : AL.Rules.Pos) (rc uc : String)
    (given : List (String × AL.Rules.Pos)) (hne : rc ≠ uc) (hnd : (declared.map (·.1)).Nodup) :
    ((AL.C08R.sectionK declared usesPos rc uc given).filter (fun s => s.2 = rc)).length =
      (declared.filter fun d => d.2 && !(given.map (·.1)).contains d.1).length := by
  simp only [AL.C08R.sectionK, List.filter_append, List.length_append]
  have hB : ((given.flatMap fun g => if (declared.map (·.1)).contains g.1 then [] else [(g.2, uc)]).filter (fun s => s.2 = rc)).length = 0 := by
    rw [List.length_eq_zero_iff, List.filter_eq_nil_iff]
    intro s hs
    obtain ⟨g, _, hs⟩ := List.mem_flatMap.1 hs
    split at hs
    · cases hs
    · simp only [List.mem_singleton] at hs
      subst hs
      simpa using fun h => hne h.symm
  rw [hB, Nat.add_zero]
  -- the first part: every element has the code `rc`
  generalize hf : (fun n : String =>
      match declared.find? (fun x : String × Bool => x.1 = n) with
      | some (_, req) => if req && !(given.map (fun g : String × AL.Rules.Pos => g.1)).contains n then [(usesPos, rc)] else []
      | none => ([] : List (AL.Rules.Pos × String))) = f
  have hall : ∀ (l : List String), (l.flatMap f).filter (fun s => s.2 = rc) = l.flatMap f := by
    intro l
    rw [List.filter_eq_self]
    intro s hs
    obtain ⟨n, _, hs⟩ := List.mem_flatMap.1 hs
    rw [← hf] at hs
    simp only at hs
    split at hs
    · split at hs
      · simp only [List.mem_singleton] at hs
        subst hs
        simp
      · cases hs
    · cases hs
  rw [hall]
  have hperm := List.Perm.flatMap_right f (sortStrings_perm (declared.map (·.1)))
  rw [hperm.length_eq, List.flatMap_map]
  -- on the declared list itself
  have hone : ∀ (l : List (String × Bool)), (∀ d ∈ l, declared.find? (·.1 = d.1) = some d) →
      (l.flatMap fun d => f d.1).length = (l.filter fun d => d.2 && !(given.map (·.1)).contains d.1).length := by
    intro l
    induction l with
    | nil => intro _; rfl
    | cons d rest ih =>
      intro h
      have hd := h d (List.mem_cons_self ..)
      simp only [List.flatMap_cons, List.length_append, List.filter_cons]
      rw [ih (fun x hx => h x (List.mem_cons_of_mem _ hx))]
      have : (f d.1).length = if (d.2 && !(given.map (·.1)).contains d.1) = true then 1 else 0 := by
        rw [← hf]
        simp only [hd]
        split <;> rfl
      rw [this]
      split <;> simp [Nat.add_comm]
  apply hone
  intro d hd
  obtain ⟨k, v⟩ := d
  exact (AL.C14W.find_iff_mem declared hnd k v).2 hd

/-- **"nothing twice", required inputs**: `input-required` is reported (at `uses:`) exactly once for each entry of the callee's
`inputs:` that is required and to whose name no key of `with:` folds -/
theorem call_input_required_count (cfg : Cfg) (cd jn vU : Node) (u : Str) (hcd : CalleeOk cfg cd) :
    (((AL.ProjCall.checkLocal (readMeta cfg cd) (callOfJob cfg jn vU) u).map AL.C08R.sig).filter (fun s => s.2 = "input-required")).length =
      ((entries "inputs" cd).filter fun e => inputRequired e.2 &&
        (withEntries jn).all fun g => cfg.lower g.1.value != cfg.lower e.1.value).length := by
  have hnd := (readMeta_distinct cfg cd hcd.lower hcd.sane hcd.clean hcd.event).1
  rw [readMeta_inputs, List.map_map] at hnd
  rw [call_sig_exact, List.filter_append]
  have hsec : (if inheritsSecrets jn then []
      else docSection cfg (entries "secrets" cd) requiredTrue (secretEntries jn) u.pos "secret-required" "secret-undefined").filter
        (fun s => s.2 = "input-required") = [] := by
    split
    · rfl
    · exact sectionK_filter_other _ _ _ _ _ _ (by decide) (by decide)
  rw [hsec, List.append_nil, docSection, sectionK_required_count _ _ _ _ _ (by decide) (by rw [List.map_map]; exact hnd),
    List.filter_map, List.length_map]
  congr 1
  apply List.filter_congr
  intro e _
  simp only [Function.comp, List.map_map]
  congr 1
  rw [Bool.eq_iff_iff]
  simp only [Bool.not_eq_true', List.all_eq_true, bne_iff_ne, ne_eq]
  constructor
  · intro h g hg hc
    have : (List.map ((fun x => x.1) ∘ fun g => (cfg.lower g.1.value, g.1.pos)) (withEntries jn)).contains (cfg.lower e.1.value) = true := by
      simp only [List.contains_iff_mem, List.mem_map, Function.comp]
      exact ⟨g, hg, hc⟩
    rw [this] at h
    cases h
  · intro h
    cases hc : (List.map ((fun x => x.1) ∘ fun g => (cfg.lower g.1.value, g.1.pos)) (withEntries jn)).contains (cfg.lower e.1.value) with
    | false => rfl
    | true =>
      simp only [List.contains_iff_mem, List.mem_map, Function.comp] at hc
      obtain ⟨g, hg, hce⟩ := hc
      exact absurd hce (h g hg)

/-! ### the whole file's output -/

/-- every diagnostic the simulation attributes to a job is in the output of the project linter -/
theorem lint_wc_complete (cfg : Cfg) (isNum urlOk : String → Bool) (env : AL.ProjLint.Env) (d : Node) (v : String × AL.ProjCall.JobView)
    (hv : v ∈ AL.ProjCall.simulate env.calls cfg.lower (parse cfg d).1) (dg : AL.Rules.Diag) (hdg : dg ∈ v.2.wc) :
    dg ∈ AL.ProjLint.lint cfg isNum urlOk env d :=
  (mem_projLint cfg isNum urlOk env d dg).2 (Or.inr (Or.inr (Or.inl (List.mem_flatMap.2 ⟨v, hv, hdg⟩))))

/-- … and nothing else is reported under the kind "workflow-call" (but the format of `uses:`) -/
theorem lint_wc_sound (cfg : Cfg) (isNum urlOk : String → Bool) (env : AL.ProjLint.Env) (d : Node) (dg : AL.Rules.Diag)
    (hdg : dg ∈ AL.ProjLint.lint cfg isNum urlOk env d) (hk : dg.kind = "workflow-call") (hc : dg.code ≠ "call-format") :
    ∃ v ∈ AL.ProjCall.simulate env.calls cfg.lower (parse cfg d).1, dg ∈ v.2.wc := by
  have := projLint_workflowCall cfg isNum urlOk env d dg hdg hk hc
  simp only [AL.ProjCall.wcRule, List.mem_flatMap] at this
  exact this

/-- **reported, in the output of the whole file**: an entry of `with:` to which no declared input folds gets
"input … is not defined in … reusable workflow" at its key, naming the key as written -/
theorem call_input_undefined_in_lint (cfg : Cfg) (isNum urlOk : String → Bool) (env : AL.ProjLint.Env) (d cd : Node) (q : Node × Node)
    (vU : Node) (hcd : CalleeOk cfg cd) (hs : CallSite cfg d q vU) (hr : CallResolves cfg env vU.value cd)
    (kv : Node × Node) (hkv : kv ∈ withEntries q.2) (hn : ∀ e ∈ entries "inputs" cd, cfg.lower e.1.value ≠ cfg.lower kv.1.value) :
    ∃ dg ∈ AL.ProjLint.lint cfg isNum urlOk env d, dg.kind = "workflow-call" ∧ dg.code = "input-undefined" ∧ dg.pos = kv.1.pos ∧
      dg.args.head? = some kv.1.value := by
  obtain ⟨v, hv, _, hwc⟩ := call_view cfg env d cd q vU hcd hs hr
  have hmem : (cfg.lower kv.1.value, (⟨newString kv.1, newString kv.2⟩ : CallArg)) ∈ (callOfJob cfg q.2 vU).inputs.getD [] := by
    simp only [callOfJob, withArgs]
    simp only [withEntries] at hkv
    cases ha : attr "with" q.2 with
    | none => simp [ha] at hkv
    | some w =>
      simp only [ha] at hkv
      simp only [Option.map_some, Option.getD_some, argsOf]
      exact List.mem_map.2 ⟨kv, hkv, rfl⟩
  have hnot : cfg.lower kv.1.value ∉ AL.ProjCall.keysOf (readMeta cfg cd).inputs := by
    rw [declared_input_iff]
    rintro ⟨e, he, hh⟩
    exact hn e he hh
  obtain ⟨dg, hdg, h1, h2, h3⟩ := (AL.C14P.undefined_input_iff (readMeta cfg cd) (callOfJob cfg q.2 vU) (newString vU) _ hmem).2 (Or.inl hnot)
  refine ⟨dg, lint_wc_complete cfg isNum urlOk env d v hv dg (hwc ▸ hdg), ?_, h1, h2, h3⟩
  exact AL.C09C.kind_checkLocal _ _ _ dg hdg

/-- **reported, in the output of the whole file**: a required input of the callee that `with:` does not supply gets
"input … is required by … reusable workflow" at `uses:` — the exact diagnostic -/
theorem call_input_required_in_lint (cfg : Cfg) (isNum urlOk : String → Bool) (env : AL.ProjLint.Env) (d cd : Node) (q : Node × Node)
    (vU : Node) (hcd : CalleeOk cfg cd) (hs : CallSite cfg d q vU) (hr : CallResolves cfg env vU.value cd)
    (e : Node × Node) (he : e ∈ entries "inputs" cd) (hreq : inputRequired e.2 = true)
    (hn : ∀ kv ∈ withEntries q.2, cfg.lower kv.1.value ≠ cfg.lower e.1.value) :
    (⟨vU.pos, "workflow-call", "input-required", [e.1.value, vU.value]⟩ : AL.Rules.Diag) ∈ AL.ProjLint.lint cfg isNum urlOk env d := by
  obtain ⟨v, hv, _, hwc⟩ := call_view cfg env d cd q vU hcd hs hr
  apply lint_wc_complete cfg isNum urlOk env d v hv
  rw [hwc]
  have hob : AL.C14W.CallObtained cfg (readMeta cfg cd) := by
    cases hm : fromDocAst cfg cd with
    | none => have := hcd.event; rw [hm] at this; cases this
    | some m => exact .doc cd _ (callee_interface_read cfg cd hcd.lower hcd.sane hcd.clean m hm).2
  have := (AL.C14W.required_input_mem_iff cfg (readMeta cfg cd) hob (callOfJob cfg q.2 vU) (newString vU) e.1.value).2
    ⟨cfg.lower e.1.value, ⟨e.1.value, inputRequired e.2, typeOf e.2⟩,
      (declared_input_entry_iff cfg cd _ _).2 ⟨e, he, rfl, rfl, rfl, rfl⟩, rfl, hreq, by
        simp only [callOfJob, keysOf_withArgs, List.mem_map, not_exists, not_and]
        exact fun kv hkv => hn kv hkv⟩
  exact this

/-- **the output of the whole file for a caller with one calling job**: the "workflow-call" diagnostics of `AL.ProjLint.lint`
(other than the format of `uses:`) are, by site and code, exactly those of `checkWorkflowCallUsesLocal` on the two documents -/
theorem sole_call_lint_iff (cfg : Cfg) (isNum urlOk : String → Bool) (env : AL.ProjLint.Env) (d cd : Node)
    (q : Node × Node) (vU : Node) (hcd : CalleeOk cfg cd) (hs : CallSite cfg d q vU) (hr : CallResolves cfg env vU.value cd)
    (hsole : ∀ q' ∈ jobEntries d, q' ≠ q → attr "uses" q'.2 = none) (p : AL.Rules.Pos) (code : String) (hcode : code ≠ "call-format") :
    (∃ dg ∈ AL.ProjLint.lint cfg isNum urlOk env d, dg.kind = "workflow-call" ∧ dg.code = code ∧ dg.pos = p) ↔
      (p, code) ∈ (AL.ProjCall.checkLocal (readMeta cfg cd) (callOfJob cfg q.2 vU) (newString vU)).map AL.C08R.sig := by
  obtain ⟨v, hv, _, hwc⟩ := call_view cfg env d cd q vU hcd hs hr
  constructor
  · rintro ⟨dg, hdg, hk, hc, hp⟩
    obtain ⟨v', hv', hdg'⟩ := lint_wc_sound cfg isNum urlOk env d dg hdg hk (by rw [hc]; exact hcode)
    -- which job is `v'`?
    have hd := hr.on_disk hcd
    have hinv := initialCache_inv (m := readMeta cfg cd) hr.notSelf (parse cfg d).1
    obtain ⟨pj, hpj, _, c', hc', hw'⟩ := (simulateJobs_wc hd hs.localFormat cfg.lower ((parse cfg d).1.jobs.getD [])
      ((parse cfg d).1.jobs.getD []) _ hinv).2 v' hv'
    obtain ⟨hj, hcl, _⟩ := parse_jobs_read cfg d hs.clean
    rw [hj] at hpj
    obtain ⟨q', hq', rfl⟩ := List.mem_map.1 hpj
    by_cases hqq : q' = q
    · subst hqq
      obtain ⟨_, c, hw, h1, h2, h3, h4⟩ := parseJob_call_read cfg (newString q'.1) q'.2 (hcl q' hq') vU hs.uses
      have hc2 : c = callOfJob cfg q'.2 vU := by
        cases c
        simp only at h1 h2 h3 h4
        subst h1 h2 h3 h4
        rfl
      have hskip : AL.ProjCall.skipped env.calls vU.value = false := by
        simp [AL.ProjCall.skipped, hr.project, localFormat_startsWith _ hs.localFormat, hs.noExpr]
      have hne : ((newString vU).value = "" || AL.Rules.containsExpr (newString vU)) = false := by
        have h1 : vU.value ≠ "" := by
          intro e
          have := hs.localFormat
          rw [e] at this
          revert this
          decide
        simp only [newString, AL.Rules.containsExpr, hs.noExpr, Bool.or_false]
        exact decide_eq_false h1
      rw [hw', wcJob_checks hd hskip hs.localFormat c' hc' _ c (newString vU) hw (by rw [h1]) rfl hne, hc2] at hdg'
      exact List.mem_map.2 ⟨dg, hdg', by simp [AL.C08R.sig, hp, hc]⟩
    · exfalso
      have hnc := parseJob_nocall cfg (newString q'.1) q'.2 (hcl q' hq') (hsole q' hq' hqq)
      rw [hw'] at hdg'
      simp [AL.ProjCall.wcJob, hnc] at hdg'
  · intro h
    obtain ⟨dg, hdg, hsig⟩ := List.mem_map.1 h
    simp only [AL.C08R.sig, Prod.mk.injEq] at hsig
    exact ⟨dg, lint_wc_complete cfg isNum urlOk env d v hv dg (hwc ▸ hdg), AL.C09C.kind_checkLocal _ _ _ dg hdg, hsig.2, hsig.1⟩

/-- **C14 on the output of `AL.ProjLint.lint`, iff, undefined input** — for a caller in which `q` is the only job that calls a
workflow: the output has an `input-undefined` diagnostic of rule workflow-call at the position `p` iff `with:` of `q` has a key
at `p` to which no key of the callee's `inputs:` folds -/
theorem sole_call_input_undefined_lint_iff (cfg : Cfg) (isNum urlOk : String → Bool) (env : AL.ProjLint.Env) (d cd : Node)
    (q : Node × Node) (vU : Node) (hcd : CalleeOk cfg cd) (hs : CallSite cfg d q vU) (hr : CallResolves cfg env vU.value cd)
    (hsole : ∀ q' ∈ jobEntries d, q' ≠ q → attr "uses" q'.2 = none) (p : AL.Rules.Pos) :
    (∃ dg ∈ AL.ProjLint.lint cfg isNum urlOk env d, dg.kind = "workflow-call" ∧ dg.code = "input-undefined" ∧ dg.pos = p) ↔
      ∃ kv ∈ withEntries q.2, kv.1.pos = p ∧ ∀ e ∈ entries "inputs" cd, cfg.lower e.1.value ≠ cfg.lower kv.1.value :=
  (sole_call_lint_iff cfg isNum urlOk env d cd q vU hcd hs hr hsole p _ (by decide)).trans
    (call_input_undefined_doc cfg cd q.2 vU (newString vU) p)

/-- **… required input**: the output has an `input-required` diagnostic at `uses:` iff some entry of the callee's `inputs:` is
required (`required: true`, no `default:`) and no key of `with:` folds to its name -/
theorem sole_call_input_required_lint_iff (cfg : Cfg) (isNum urlOk : String → Bool) (env : AL.ProjLint.Env) (d cd : Node)
    (q : Node × Node) (vU : Node) (hcd : CalleeOk cfg cd) (hs : CallSite cfg d q vU) (hr : CallResolves cfg env vU.value cd)
    (hsole : ∀ q' ∈ jobEntries d, q' ≠ q → attr "uses" q'.2 = none) :
    (∃ dg ∈ AL.ProjLint.lint cfg isNum urlOk env d, dg.kind = "workflow-call" ∧ dg.code = "input-required" ∧ dg.pos = vU.pos) ↔
      ∃ e ∈ entries "inputs" cd, inputRequired e.2 = true ∧ ∀ kv ∈ withEntries q.2, cfg.lower kv.1.value ≠ cfg.lower e.1.value :=
  (sole_call_lint_iff cfg isNum urlOk env d cd q vU hcd hs hr hsole vU.pos _ (by decide)).trans
    (call_input_required_doc cfg cd q.2 vU (newString vU) hcd)

/-- **… secrets** (without `secrets: inherit`) -/
theorem sole_call_secret_undefined_lint_iff (cfg : Cfg) (isNum urlOk : String → Bool) (env : AL.ProjLint.Env) (d cd : Node)
    (q : Node × Node) (vU : Node) (hcd : CalleeOk cfg cd) (hs : CallSite cfg d q vU) (hr : CallResolves cfg env vU.value cd)
    (hsole : ∀ q' ∈ jobEntries d, q' ≠ q → attr "uses" q'.2 = none) (hinh : inheritsSecrets q.2 = false) (p : AL.Rules.Pos) :
    (∃ dg ∈ AL.ProjLint.lint cfg isNum urlOk env d, dg.kind = "workflow-call" ∧ dg.code = "secret-undefined" ∧ dg.pos = p) ↔
      ∃ kv ∈ secretEntries q.2, kv.1.pos = p ∧ ∀ e ∈ entries "secrets" cd, cfg.lower e.1.value ≠ cfg.lower kv.1.value :=
  (sole_call_lint_iff cfg isNum urlOk env d cd q vU hcd hs hr hsole p _ (by decide)).trans
    (call_secret_undefined_doc cfg cd q.2 vU (newString vU) p hinh)

theorem sole_call_secret_required_lint_iff (cfg : Cfg) (isNum urlOk : String → Bool) (env : AL.ProjLint.Env) (d cd : Node)
    (q : Node × Node) (vU : Node) (hcd : CalleeOk cfg cd) (hs : CallSite cfg d q vU) (hr : CallResolves cfg env vU.value cd)
    (hsole : ∀ q' ∈ jobEntries d, q' ≠ q → attr "uses" q'.2 = none) (hinh : inheritsSecrets q.2 = false) :
    (∃ dg ∈ AL.ProjLint.lint cfg isNum urlOk env d, dg.kind = "workflow-call" ∧ dg.code = "secret-required" ∧ dg.pos = vU.pos) ↔
      ∃ e ∈ entries "secrets" cd, requiredTrue e.2 = true ∧ ∀ kv ∈ secretEntries q.2, cfg.lower kv.1.value ≠ cfg.lower e.1.value :=
  (sole_call_lint_iff cfg isNum urlOk env d cd q vU hcd hs hr hsole vU.pos _ (by decide)).trans
    (call_secret_required_doc cfg cd q.2 vU (newString vU) hcd hinh)

/-- **… `secrets: inherit`**: nothing about secrets in the whole output -/
theorem sole_call_inherit_lint (cfg : Cfg) (isNum urlOk : String → Bool) (env : AL.ProjLint.Env) (d cd : Node)
    (q : Node × Node) (vU : Node) (hcd : CalleeOk cfg cd) (hs : CallSite cfg d q vU) (hr : CallResolves cfg env vU.value cd)
    (hsole : ∀ q' ∈ jobEntries d, q' ≠ q → attr "uses" q'.2 = none) (hinh : inheritsSecrets q.2 = true) :
    ∀ dg ∈ AL.ProjLint.lint cfg isNum urlOk env d, dg.kind = "workflow-call" → dg.code ≠ "secret-required" ∧ dg.code ≠ "secret-undefined" := by
  intro dg hdg hk
  have key : ∀ code, code ≠ "call-format" → dg.code = code →
      ∃ x ∈ AL.ProjCall.checkLocal (readMeta cfg cd) (callOfJob cfg q.2 vU) (newString vU), x.code = code := by
    intro code hne hc
    have := (sole_call_lint_iff cfg isNum urlOk env d cd q vU hcd hs hr hsole dg.pos code hne).1 ⟨dg, hdg, hk, hc, rfl⟩
    obtain ⟨x, hx, hsig⟩ := List.mem_map.1 this
    simp only [AL.C08R.sig, Prod.mk.injEq] at hsig
    exact ⟨x, hx, hsig.2⟩
  refine ⟨fun hc => ?_, fun hc => ?_⟩
  · obtain ⟨x, hx, hxc⟩ := key _ (by decide) hc
    exact (call_inherit_no_secret cfg cd q.2 vU _ hinh x hx).1 hxc
  · obtain ⟨x, hx, hxc⟩ := key _ (by decide) hc
    exact (call_inherit_no_secret cfg cd q.2 vU _ hinh x hx).2 hxc

/-! ## 5. end to end: a step that uses a local action -/

/-- the environment: the linted file is inside a project and the metadata the project has for `spec` carries the inputs
and outputs `yaml.Unmarshal` decodes from the document `ad` of its `action.yml` (the rest of the metadata — name, `runs`,
branding, paths — is not C14's concern) -/
structure ActionResolves (cfg : Cfg) (env : AL.ProjLint.Env) (spec : String) (ad : Node) (am : AL.ProjAction.ActionMeta) : Prop where
  project : env.actions.hasProject = true
  disk : env.actions.disk spec = .ok am
  sane : actionSaneB ad = true
  decoded : ∃ dd, AL.ActionDecode.fromDoc cfg ad = .ok dd ∧ am.inputs = dd.inputs ∧ am.outputs = dd.outputs

theorem ActionResolves.read {cfg : Cfg} {env : AL.ProjLint.Env} {spec : String} {ad : Node} {am : AL.ProjAction.ActionMeta}
    (h : ActionResolves cfg env spec ad am) : am.inputs = actionInputs cfg ad ∧ am.outputs = actionOutputs cfg ad := by
  obtain ⟨dd, hd, h1, h2⟩ := h.decoded
  obtain ⟨r1, r2⟩ := action_interface_read cfg ad h.sane dd hd
  exact ⟨h1.trans r1, h2.trans r2⟩

theorem ActionResolves.obtained {cfg : Cfg} {env : AL.ProjLint.Env} {spec : String} {ad : Node} {am : AL.ProjAction.ActionMeta}
    (h : ActionResolves cfg env spec ad am) : AL.C14W.ActionObtained am.inputs := by
  obtain ⟨dd, hd, h1, _⟩ := h.decoded
  rw [h1]
  exact .local_ cfg ad dd hd

/-- the step in the caller's document `d`: the element `sn` of `steps:` of the entry `q` of `jobs:` has `uses: vU`, a scalar
starting with `./` without a placeholder; the parser accepts `d` -/
structure StepSite (cfg : Cfg) (d : Node) (q : Node × Node) (sn vU : Node) : Prop where
  clean : (parse cfg d).2 = []
  job : q ∈ jobEntries d
  plain : attr "uses" q.2 = none
  step : sn ∈ stepNodes q.2
  uses : attr "uses" sn = some vU
  noExpr : AL.Matrix.containsExpr vU.value = false
  localSpec : vU.value.startsWith "./" = true

/-- **C14 end to end, the diagnostics of one step that uses a local action**: whatever was looked up before, the output of
the whole file contains `checkAction`'s diagnostics for the metadata of `action.yml` and the `with:` of the step as the
parser stores it -/
theorem step_view (cfg : Cfg) (isNum urlOk : String → Bool) (env : AL.ProjLint.Env) (d ad : Node) (am : AL.ProjAction.ActionMeta)
    (q : Node × Node) (sn vU : Node) (hs : StepSite cfg d q sn vU) (hr : ActionResolves cfg env vU.value ad am) :
    ∃ e : ExecAction, e.uses = some (newString vU) ∧ e.inputs = stepWith cfg sn ∧
      ∀ dg ∈ AL.ProjAction.inputDiags am vU.value e vU.pos, dg ∈ AL.ProjLint.lint cfg isNum urlOk env d := by
  obtain ⟨j, hj, st, hst, e, he, h1, h2⟩ := caller_step_action cfg d hs.clean q hs.job hs.plain sn hs.step vU hs.uses
  refine ⟨e, h1, h2, ?_⟩
  obtain ⟨c', hc', hall⟩ := (simulate_action hr.disk (parse cfg d).1).1 j hj st hst
  obtain ⟨pre, hpre, _⟩ := actionStep_checks hr.disk hr.project hs.localSpec c' hc' st e (newString vU) he h1 rfl
    (by simp [AL.Rules.containsExpr, newString, hs.noExpr])
  intro dg hdg
  apply (mem_projLint cfg isNum urlOk env d dg).2
  refine Or.inr (Or.inr (Or.inr (hall dg ?_)))
  rw [hpre]
  exact List.mem_append_right _ hdg

/-- the inputs of `with:` of a step, as ids -/
theorem stepWith_ids (cfg : Cfg) (sn : Node) (e : ExecAction) (he : e.inputs = stepWith cfg sn) :
    e.inputs.getD [] = (stepWithEntries cfg sn).map fun q => (cfg.lower q.1.value, (⟨newString q.1, newString q.2⟩ : Ast.Input)) := by
  rw [he]
  simp only [stepWith, stepWithEntries, withEntries]
  cases attr "with" sn with
  | none => rfl
  | some w => rfl

/-- **an entry of a step's `with:` is reported as undefined iff `action.yml` does not declare it** — on the two
documents -/
theorem step_input_undefined_doc (cfg : Cfg) (ad : Node) (am : AL.ProjAction.ActionMeta) (hin : am.inputs = actionInputs cfg ad)
    (sn : Node) (e : ExecAction) (he : e.inputs = stepWith cfg sn) (spec : String) (pos p : AL.Rules.Pos) :
    (∃ dg ∈ AL.ProjAction.inputDiags am spec e pos, dg.code = "local-input-undefined" ∧ dg.pos = p) ↔
      ∃ kv ∈ stepWithEntries cfg sn, kv.1.pos = p ∧ ∀ x ∈ actSection "inputs" ad, cfg.lower x.1.value ≠ cfg.lower kv.1.value := by
  have hany : ∀ id : String, am.inputs.any (·.1 = id) = false ↔ ∀ x ∈ actSection "inputs" ad, cfg.lower x.1.value ≠ id := by
    intro id
    rw [hin, List.any_eq_false]
    simp only [actionInputs, List.mem_map, decide_eq_true_eq, forall_exists_index, and_imp]
    constructor
    · intro h x hx; exact h _ x hx rfl
    · intro h y x hx hy; rw [← hy]; exact h x hx
  simp only [AL.ProjAction.inputDiags, List.mem_append, List.mem_flatMap, stepWith_ids cfg sn e he]
  constructor
  · rintro ⟨dg, (⟨kv, hkv, hdg⟩ | ⟨id, _, hdg⟩), hc, hp⟩
    · split at hdg
      · cases hdg
      · rename_i hna
        simp only [List.mem_singleton] at hdg
        subst hdg
        obtain ⟨x, hx, rfl⟩ := List.mem_map.1 hkv
        exact ⟨x, hx, hp, (hany _).1 ((Bool.not_eq_true _).mp hna)⟩
    · exfalso
      split at hdg
      · split at hdg
        · cases hdg
        · simp only [List.mem_singleton] at hdg; rw [hdg] at hc; simp at hc
      · cases hdg
  · rintro ⟨kv, hkv, hp, hn⟩
    refine ⟨⟨kv.1.pos, "action", "local-input-undefined", [kv.1.value, am.name, spec] ++ AL.PW.sortStrings (am.inputs.map (·.2.1))⟩,
      Or.inl ⟨_, List.mem_map.2 ⟨kv, hkv, rfl⟩, ?_⟩, rfl, hp⟩
    have := (hany (cfg.lower kv.1.value)).2 hn
    simp [this, newString, Node.pos]

/-- **a required input of the action is reported as missing iff the step's `with:` does not supply it** — on the two
documents -/
theorem step_input_missing_doc (cfg : Cfg) (ad : Node) (am : AL.ProjAction.ActionMeta) (hin : am.inputs = actionInputs cfg ad)
    (hob : AL.C14W.ActionObtained am.inputs) (sn : Node) (e : ExecAction) (he : e.inputs = stepWith cfg sn) (spec : String)
    (pos : AL.Rules.Pos) (name : String) :
    (∃ dg ∈ AL.ProjAction.inputDiags am spec e pos, dg.code = "local-input-missing" ∧ dg.args.head? = some name) ↔
      ∃ x ∈ actSection "inputs" ad, x.1.value = name ∧ actInputRequired x.2 = true ∧
        ∀ kv ∈ stepWithEntries cfg sn, cfg.lower kv.1.value ≠ cfg.lower x.1.value := by
  rw [AL.C14W.local_action_missing_mem_iff am hob spec e pos name]
  have hgiven : ∀ id : String, (e.inputs.getD []).any (·.1 = id) = false ↔ ∀ kv ∈ stepWithEntries cfg sn, cfg.lower kv.1.value ≠ id := by
    intro id
    rw [stepWith_ids cfg sn e he, List.any_eq_false]
    simp only [List.mem_map, decide_eq_true_eq, forall_exists_index, and_imp]
    constructor
    · intro h x hx; exact h _ x hx rfl
    · intro h y x hx hy; rw [← hy]; exact h x hx
  constructor
  · rintro ⟨id, hmem, hg⟩
    rw [hin] at hmem
    obtain ⟨x, hx, h1, h2, h3⟩ := (action_declared_input_iff cfg ad id name true).1 hmem
    exact ⟨x, hx, h2.symm, h3.symm, by rw [← h1]; exact (hgiven id).1 hg⟩
  · rintro ⟨x, hx, h1, h2, h3⟩
    refine ⟨cfg.lower x.1.value, ?_, (hgiven _).2 h3⟩
    rw [hin]
    exact (action_declared_input_iff cfg ad _ _ _).2 ⟨x, hx, rfl, h1.symm, h2.symm⟩

/-- **reported, in the output of the whole file** -/
theorem step_input_undefined_in_lint (cfg : Cfg) (isNum urlOk : String → Bool) (env : AL.ProjLint.Env) (d ad : Node)
    (am : AL.ProjAction.ActionMeta) (q : Node × Node) (sn vU : Node) (hs : StepSite cfg d q sn vU)
    (hr : ActionResolves cfg env vU.value ad am) (kv : Node × Node) (hkv : kv ∈ stepWithEntries cfg sn)
    (hn : ∀ x ∈ actSection "inputs" ad, cfg.lower x.1.value ≠ cfg.lower kv.1.value) :
    ∃ dg ∈ AL.ProjLint.lint cfg isNum urlOk env d, dg.kind = "action" ∧ dg.code = "local-input-undefined" ∧ dg.pos = kv.1.pos := by
  obtain ⟨e, _, he, hall⟩ := step_view cfg isNum urlOk env d ad am q sn vU hs hr
  obtain ⟨dg, hdg, hc, hp⟩ := (step_input_undefined_doc cfg ad am hr.read.1 sn e he vU.value vU.pos kv.1.pos).2 ⟨kv, hkv, rfl, hn⟩
  refine ⟨dg, hall dg hdg, ?_, hc, hp⟩
  have := AL.C09C.kind_localStep env.actions (.found am true) vU.value e vU.pos dg (by simp [AL.ProjAction.localStep, hdg])
  exact this

theorem step_input_missing_in_lint (cfg : Cfg) (isNum urlOk : String → Bool) (env : AL.ProjLint.Env) (d ad : Node)
    (am : AL.ProjAction.ActionMeta) (q : Node × Node) (sn vU : Node) (hs : StepSite cfg d q sn vU)
    (hr : ActionResolves cfg env vU.value ad am) (x : Node × Node) (hx : x ∈ actSection "inputs" ad)
    (hreq : actInputRequired x.2 = true) (hn : ∀ kv ∈ stepWithEntries cfg sn, cfg.lower kv.1.value ≠ cfg.lower x.1.value) :
    ∃ dg ∈ AL.ProjLint.lint cfg isNum urlOk env d, dg.kind = "action" ∧ dg.code = "local-input-missing" ∧
      dg.args.head? = some x.1.value := by
  obtain ⟨e, _, he, hall⟩ := step_view cfg isNum urlOk env d ad am q sn vU hs hr
  obtain ⟨dg, hdg, hc, hp⟩ := (step_input_missing_doc cfg ad am hr.read.1 hr.obtained sn e he vU.value vU.pos x.1.value).2
    ⟨x, hx, rfl, hreq, hn⟩
  refine ⟨dg, hall dg hdg, ?_, hc, hp⟩
  exact AL.C09C.kind_localStep env.actions (.found am true) vU.value e vU.pos dg (by simp [AL.ProjAction.localStep, hdg])

/-- "nothing else": a diagnostic of the local-action input check in the output belongs to some step's `checkLocalAction` -/
theorem lint_action_only (cfg : Cfg) (isNum urlOk : String → Bool) (env : AL.ProjLint.Env) (d : Node) (spec : String)
    (am : AL.ProjAction.ActionMeta) (hdisk : env.actions.disk spec = .ok am) (dg : AL.Rules.Diag)
    (hdg : dg ∈ AL.ProjLint.lint cfg isNum urlOk env d) (hk : dg.kind = "action")
    (hc : dg.code = "local-input-undefined" ∨ dg.code = "local-input-missing") :
    ∃ j ∈ AL.Rules.jobsOf (parse cfg d).1, ∃ st ∈ AL.Rules.stepsOf j, ∃ c', ActInv spec am c' ∧
      dg ∈ (AL.ProjAction.actionStep env.actions c' st).2 :=
  (simulate_action hdisk (parse cfg d).1).2 dg (projLint_localInput cfg isNum urlOk env d dg hdg hk hc)

/-- `checkAction`'s input check reads the `with:` of the step only -/
theorem inputDiags_congr (m : AL.ProjAction.ActionMeta) (spec : String) (e e' : ExecAction) (pos : AL.Rules.Pos) (h : e.inputs = e'.inputs) :
    AL.ProjAction.inputDiags m spec e pos = AL.ProjAction.inputDiags m spec e' pos := by
  simp only [AL.ProjAction.inputDiags, h]

theorem inputDiags_codes (m : AL.ProjAction.ActionMeta) (spec : String) (e : ExecAction) (pos : AL.Rules.Pos) :
    ∀ dg ∈ AL.ProjAction.inputDiags m spec e pos, dg.code = "local-input-undefined" ∨ dg.code = "local-input-missing" := by
  intro dg hdg
  simp only [AL.ProjAction.inputDiags, List.mem_append, List.mem_flatMap] at hdg
  rcases hdg with ⟨kv, _, h⟩ | ⟨id, _, h⟩
  · split at h
    · cases h
    · simp only [List.mem_singleton] at h; subst h; exact Or.inl rfl
  · split at h
    · split at h
      · cases h
      · simp only [List.mem_singleton] at h; subst h; exact Or.inr rfl
    · cases h

/-- **the output of the whole file for a caller with one step that uses a local action**: the diagnostics of the local-action
input check in `AL.ProjLint.lint` are exactly `checkAction`'s for the metadata of `action.yml` and the `with:` of that step -/
theorem sole_step_lint_iff (cfg : Cfg) (isNum urlOk : String → Bool) (env : AL.ProjLint.Env) (d ad : Node)
    (am : AL.ProjAction.ActionMeta) (q : Node × Node) (sn vU : Node) (hs : StepSite cfg d q sn vU)
    (hr : ActionResolves cfg env vU.value ad am)
    (hsole : ∀ q' ∈ jobEntries d, ∀ sn' ∈ stepNodes q'.2,
      (q' = q ∧ sn' = sn) ∨ ∀ v, attr "uses" sn' = some v → v.value.startsWith "./" = false)
    (dg : AL.Rules.Diag) :
    (dg ∈ AL.ProjLint.lint cfg isNum urlOk env d ∧ dg.kind = "action" ∧ (dg.code = "local-input-undefined" ∨ dg.code = "local-input-missing")) ↔
      dg ∈ AL.ProjAction.inputDiags am vU.value { inputs := stepWith cfg sn } vU.pos := by
  constructor
  · rintro ⟨hdg, hk, hc⟩
    obtain ⟨j, hj, st, hst, c', hc', hmem⟩ := lint_action_only cfg isNum urlOk env d vU.value am hr.disk dg hdg hk hc
    obtain ⟨hjobs, hcl, _⟩ := parse_jobs_read cfg d hs.clean
    simp only [AL.Rules.jobsOf, hjobs, List.map_map, List.mem_map, Function.comp] at hj
    obtain ⟨q', hq', rfl⟩ := hj
    cases hu : attr "uses" q'.2 with
    | some v =>
      exfalso
      have := parseJob_call_nosteps cfg (newString q'.1) q'.2 (hcl q' hq') v hu
      simp [AL.Rules.stepsOf, this] at hst
    | none =>
      obtain ⟨hsteps, hscl⟩ := parseJob_steps_read cfg (newString q'.1) q'.2 (hcl q' hq') hu
      simp only [AL.Rules.stepsOf, hsteps, List.mem_map] at hst
      obtain ⟨sn', hsn', rfl⟩ := hst
      rcases hsole q' hq' sn' hsn' with ⟨rfl, rfl⟩ | hother
      · obtain ⟨e, he, h1, h2⟩ := parseStep_action_read cfg sn' (hscl sn' hsn') vU hs.uses
        obtain ⟨pre, hpre, hpre2⟩ := actionStep_checks hr.disk hr.project hs.localSpec c' hc' _ e (newString vU) he h1 rfl
          (by simp [AL.Rules.containsExpr, newString, hs.noExpr])
        rw [hpre] at hmem
        rcases List.mem_append.1 hmem with hm | hm
        · exfalso
          rcases hpre2 with rfl | rfl
          · cases hm
          · have := notLocal_metadataDiags _ _ _ dg hm
            rcases hc with hc | hc
            · exact this.1 hc
            · exact this.2 hc
        · rw [inputDiags_congr am vU.value _ e vU.pos (by rw [h2])]
          exact hm
      · exfalso
        cases hu' : attr "uses" sn' with
        | none =>
          have hnone := parseStep_nouses cfg sn' (hscl sn' hsn') hu'
          simp only [AL.ProjAction.actionStep] at hmem
          split at hmem
          · rename_i e he
            rw [he] at hnone
            simp only [execUses] at hnone
            simp [hnone] at hmem
          · cases hmem
        | some v =>
          obtain ⟨e, he, h1, _⟩ := parseStep_action_read cfg sn' (hscl sn' hsn') v hu'
          have hns := hother v hu'
          simp only [AL.ProjAction.actionStep, he, h1] at hmem
          split at hmem
          · cases hmem
          · simp [newString, hns] at hmem
  · intro hdg
    obtain ⟨e, _, he, hall⟩ := step_view cfg isNum urlOk env d ad am q sn vU hs hr
    rw [inputDiags_congr am vU.value _ e vU.pos (by rw [he])] at hdg
    refine ⟨hall dg hdg, ?_, inputDiags_codes _ _ _ _ dg hdg⟩
    exact AL.C09C.kind_localStep env.actions (.found am true) vU.value e vU.pos dg (by simp [AL.ProjAction.localStep, hdg])

/-- **C14 on the output of `AL.ProjLint.lint`, iff, local action, undefined input** — for a caller in which `sn` is the only step
that uses a local action: the output has a `local-input-undefined` diagnostic of rule action at the position `p` iff `with:` of
the step has a key (other than `entrypoint` / `args`) at `p` to which no key of `inputs:` of `action.yml` folds -/
theorem sole_step_input_undefined_lint_iff (cfg : Cfg) (isNum urlOk : String → Bool) (env : AL.ProjLint.Env) (d ad : Node)
    (am : AL.ProjAction.ActionMeta) (q : Node × Node) (sn vU : Node) (hs : StepSite cfg d q sn vU)
    (hr : ActionResolves cfg env vU.value ad am)
    (hsole : ∀ q' ∈ jobEntries d, ∀ sn' ∈ stepNodes q'.2,
      (q' = q ∧ sn' = sn) ∨ ∀ v, attr "uses" sn' = some v → v.value.startsWith "./" = false)
    (p : AL.Rules.Pos) :
    (∃ dg ∈ AL.ProjLint.lint cfg isNum urlOk env d, dg.kind = "action" ∧ dg.code = "local-input-undefined" ∧ dg.pos = p) ↔
      ∃ kv ∈ stepWithEntries cfg sn, kv.1.pos = p ∧ ∀ x ∈ actSection "inputs" ad, cfg.lower x.1.value ≠ cfg.lower kv.1.value := by
  rw [← step_input_undefined_doc cfg ad am hr.read.1 sn { inputs := stepWith cfg sn } rfl vU.value vU.pos p]
  constructor
  · rintro ⟨dg, hdg, hk, hc, hp⟩
    exact ⟨dg, (sole_step_lint_iff cfg isNum urlOk env d ad am q sn vU hs hr hsole dg).1 ⟨hdg, hk, Or.inl hc⟩, hc, hp⟩
  · rintro ⟨dg, hdg, hc, hp⟩
    obtain ⟨h1, h2, _⟩ := (sole_step_lint_iff cfg isNum urlOk env d ad am q sn vU hs hr hsole dg).2 hdg
    exact ⟨dg, h1, h2, hc, hp⟩

/-- **… missing input**: the output has a `local-input-missing` diagnostic naming `name` iff some entry `name` of `inputs:` of
`action.yml` is required (`required:` true, no `default:`) and no key of the step's `with:` folds to it -/
theorem sole_step_input_missing_lint_iff (cfg : Cfg) (isNum urlOk : String → Bool) (env : AL.ProjLint.Env) (d ad : Node)
    (am : AL.ProjAction.ActionMeta) (q : Node × Node) (sn vU : Node) (hs : StepSite cfg d q sn vU)
    (hr : ActionResolves cfg env vU.value ad am)
    (hsole : ∀ q' ∈ jobEntries d, ∀ sn' ∈ stepNodes q'.2,
      (q' = q ∧ sn' = sn) ∨ ∀ v, attr "uses" sn' = some v → v.value.startsWith "./" = false)
    (name : String) :
    (∃ dg ∈ AL.ProjLint.lint cfg isNum urlOk env d, dg.kind = "action" ∧ dg.code = "local-input-missing" ∧ dg.args.head? = some name) ↔
      ∃ x ∈ actSection "inputs" ad, x.1.value = name ∧ actInputRequired x.2 = true ∧
        ∀ kv ∈ stepWithEntries cfg sn, cfg.lower kv.1.value ≠ cfg.lower x.1.value := by
  rw [← step_input_missing_doc cfg ad am hr.read.1 hr.obtained sn { inputs := stepWith cfg sn } rfl vU.value vU.pos name]
  constructor
  · rintro ⟨dg, hdg, hk, hc, hp⟩
    exact ⟨dg, (sole_step_lint_iff cfg isNum urlOk env d ad am q sn vU hs hr hsole dg).1 ⟨hdg, hk, Or.inr hc⟩, hc, hp⟩
  · rintro ⟨dg, hdg, hc, hp⟩
    obtain ⟨h1, h2, _⟩ := (sole_step_lint_iff cfg isNum urlOk env d ad am q sn vU hs hr hsole dg).2 hdg
    exact ⟨dg, h1, h2, hc, hp⟩

/-! ## 6. outputs -/

/-- **`needs.<job>.outputs` of a job that calls the workflow**: a strict object whose properties are exactly the folded keys of
`on.workflow_call.outputs` of the callee's document -/
theorem callee_outputs_doc (cfg : Cfg) (cd : Node) :
    ∃ os, AL.ProjCall.outputsTy (readMeta cfg cd) = .obj os none ∧
      ∀ name, (Ty.lookup name os = none ↔ ∀ e ∈ entries "outputs" cd, cfg.lower e.1.value ≠ name) ∧
        (Ty.lookup name os ≠ none → Ty.lookup name os = some .string) := by
  obtain ⟨os, h1, h2⟩ := AL.C06R.callee_outputs_exact (readMeta cfg cd)
  refine ⟨os, h1, fun name => ?_⟩
  rw [h2 name]
  by_cases hm : name ∈ (readMeta cfg cd).outputs.map (·.1)
  · simp only [hm, if_true, reduceCtorEq, false_iff, ne_eq, not_false_eq_true, forall_const, and_true]
    obtain ⟨e, he, hh⟩ := (declared_output_iff cfg cd name).1 hm
    exact fun h => h e he hh
  · simp only [hm, if_false, true_iff, ne_eq, not_true_eq_false, false_implies, and_true]
    intro e he hh
    exact hm ((declared_output_iff cfg cd name).2 ⟨e, he, hh⟩)

/-- **`steps.<id>.outputs` of a step that uses the local action**: a strict object whose properties are exactly the folded keys
of `outputs:` of `action.yml` -/
theorem action_outputs_doc (cfg : Cfg) (ad : Node) (am : AL.ProjAction.ActionMeta) (hout : am.outputs = actionOutputs cfg ad) :
    ∃ os, AL.ProjAction.outputsTy am = .obj os none ∧
      ∀ name, (Ty.lookup name os = none ↔ ∀ x ∈ actSection "outputs" ad, cfg.lower x.1.value ≠ name) ∧
        (Ty.lookup name os ≠ none → Ty.lookup name os = some .string) := by
  refine ⟨_, rfl, fun name => ?_⟩
  have h2 := AL.C05P.lookup_fold_string name (am.outputs.map (·.1)) []
  simp only [Ty.lookup] at h2
  rw [List.foldl_map] at h2
  rw [h2, hout]
  by_cases hm : name ∈ (actionOutputs cfg ad).map (·.1)
  · simp only [hm, if_true, reduceCtorEq, false_iff, ne_eq, not_false_eq_true, forall_const, and_true]
    obtain ⟨e, he, hh⟩ := (action_declared_output_iff cfg ad name).1 hm
    exact fun h => h e he hh
  · simp only [hm, if_false, true_iff, ne_eq, not_true_eq_false, false_implies, and_true]
    intro e he hh
    exact hm ((action_declared_output_iff cfg ad name).2 ⟨e, he, hh⟩)

/-- what the expression rule is told about a step that uses the local action: the outputs type of the metadata on disk -/
theorem local_action_step_outputs (env : AL.ProjLint.Env) (lower : String → String) (isNum : String → Bool) (w : Workflow)
    (spec : String) (am : AL.ProjAction.ActionMeta) (hp : env.actions.hasProject = true) (hd : env.actions.disk spec = .ok am)
    (hs : spec.startsWith "./" = true) (st : Step) (e : ExecAction) (u : Str) (he : st.exec = .action e) (hu : e.uses = some u)
    (hv : u.value = spec) :
    AL.C06R.stepOutputs (AL.ProjLint.viewOf env lower isNum w) st = AL.ProjAction.outputsTy am := by
  subst hv
  simp [AL.C06R.stepOutputs, he, hu, AL.RuleExpr.actionOutputsTy, hs, AL.ProjLint.viewOf, AL.ProjAction.actionOutputs, hp, hd]

section Outputs
open AL.Sema AL.RuleExpr AL.C05S AL.C06R

/-- **`steps.<id>.outputs.<name>` is reported iff `action.yml` does not declare the output** — the callee's side on the
document: in a job whose steps with the (folded) id `x` all use a local action whose metadata has the outputs decoded from
`ad`, the expression is reported iff no key of `outputs:` of `ad` folds to `name` -/
theorem steps_output_reported_iff_doc (cfg : Cfg) (ad : Node) (am : AL.ProjAction.ActionMeta) (hout : am.outputs = actionOutputs cfg ad)
    (cx0 : Cx) (isNum : IsNumber) (jobs : List (String × Job)) (n : Job) (pre : List Step) (cx : Cx)
    (hcx : AfterSteps cx0 isNum jobs n pre cx) (key x name : String)
    (ha : (AL.Visit.availability key).1.contains (cx0.lower "steps") = true)
    (hex : ∃ s ∈ pre, ∃ id, s.id = some id ∧ cx0.lower id.value = x)
    (hall : ∀ s ∈ pre, ∀ id, s.id = some id → cx0.lower id.value = x → stepOutputs cx0.proj s = AL.ProjAction.outputsTy am) :
    (check (envOf cx key) (.objDeref (.objDeref (.objDeref (.var "steps") x) "outputs") name)).errs ≠ [] ↔
      ∀ o ∈ actSection "outputs" ad, cfg.lower o.1.value ≠ name := by
  obtain ⟨os, h1, h2⟩ := action_outputs_doc cfg ad am hout
  rw [h1] at hall
  exact (steps_outputs_strict_iff cx0 isNum jobs n pre cx hcx key x name os ha hex hall).1.trans (h2 name).1

/-- **`needs.<job>.outputs.<name>` is reported iff the called workflow does not declare the output** — the callee's side on
the document: when the project's view has, for the needed job `i`, the outputs type of the interface read from `cd`, the
expression is reported iff no key of `on.workflow_call.outputs` of `cd` folds to `name` -/
theorem needs_output_reported_iff_doc (cfg : Cfg) (cd : Node) (cx0 : Cx) (isNum : IsNumber) (jobs : List (String × Job)) (n : Job)
    (cx : Cx) (hcx : InJob cx0 isNum jobs n cx) (key i name : String) (j : Job)
    (ha : (AL.Visit.availability key).1.contains (cx0.lower "needs") = true)
    (hin : i ∈ (n.needs.getD []).map (fun id => cx0.lower id.value)) (hself : i ≠ cx0.lower n.id.value)
    (hj : lookupJob i jobs = some j) (hcall : j.workflowCall.isSome = true)
    (hknown : Ty.lookup i (cx0.proj.jobView n.id.value).outs = some (AL.ProjCall.outputsTy (readMeta cfg cd))) :
    (check (envOf cx key) (.objDeref (.objDeref (.objDeref (.var "needs") i) "outputs") name)).errs ≠ [] ↔
      ∀ o ∈ entries "outputs" cd, cfg.lower o.1.value ≠ name := by
  obtain ⟨os, h1, h2⟩ := callee_outputs_doc cfg cd
  rw [h1] at hknown
  exact (needs_outputs_known_iff cx0 isNum jobs n cx hcx key i name j os ha hin hself hj hcall hknown).1.trans (h2 name).1

end Outputs

/-! ### `needs.<job>.outputs`, from the two documents to the expression rule -/

theorem nodup_of_map {α β : Type} (f : α → β) : ∀ (l : List α), (l.map f).Nodup → l.Nodup
  | [], _ => List.nodup_nil
  | x :: rest, h => by
    simp only [List.map_cons, List.nodup_cons, List.mem_map, not_exists, not_and] at h ⊢
    exact ⟨fun hx => h.1 x hx rfl, nodup_of_map f rest h.2⟩

theorem lookupJob_entries {α : Type} (key : α → String) (J : α → Job) : ∀ (l : List α) (x : α), (l.map key).Nodup → x ∈ l →
    AL.RuleExpr.lookupJob (key x) (l.map fun q => (key q, J q)) = some (J x)
  | [], _, _, h => by cases h
  | y :: rest, x, hnd, h => by
    simp only [List.map_cons, List.nodup_cons, List.mem_map, not_exists, not_and] at hnd
    simp only [List.map_cons, AL.RuleExpr.lookupJob]
    rcases List.mem_cons.1 h with rfl | h
    · simp
    · have : key y ≠ key x := fun e => hnd.1 x h e.symm
      simp only [this, if_false]
      exact lookupJob_entries key J rest x hnd.2 h

/-- **what the project's view tells the expression rule about `needs.<i>.outputs`**, from the two documents: in the caller `d`,
for the job `qn` that needs the job `qc` which calls the workflow whose document is `cd`, the view has the outputs type of the
interface read from `cd` -/
theorem needs_view_of_documents (cfg : Cfg) (isNum : String → Bool) (env : AL.ProjLint.Env) (d cd : Node) (qc : Node × Node) (vU : Node)
    (hcd : CalleeOk cfg cd) (hs : CallSite cfg d qc vU) (hr : CallResolves cfg env vU.value cd)
    (qn : Node × Node) (hqn : qn ∈ jobEntries d)
    (hin : cfg.lower qc.1.value ∈ ((parseJob cfg (newString qn.1) qn.2).1.needs.getD []).map (fun id => cfg.lower id.value))
    (hself : cfg.lower qc.1.value ≠ cfg.lower qn.1.value) :
    Ty.lookup (cfg.lower qc.1.value) ((AL.ProjLint.viewOf env cfg.lower isNum (parse cfg d).1).jobView qn.1.value).outs =
      some (AL.ProjCall.outputsTy (readMeta cfg cd)) := by
  obtain ⟨hj, hcl, hnd⟩ := parse_jobs_read cfg d hs.clean
  have hd := hr.on_disk hcd
  have hinv := initialCache_inv (m := readMeta cfg cd) hr.notSelf (parse cfg d).1
  have hskip : AL.ProjCall.skipped env.calls vU.value = false := by
    simp [AL.ProjCall.skipped, hr.project, localFormat_startsWith _ hs.localFormat, hs.noExpr]
  -- the needing job and its view
  have hnid : (parseJob cfg (newString qn.1) qn.2).1.id.value = qn.1.value := by rw [AL.C08P.parseJob_id]; rfl
  have hmem : (cfg.lower qn.1.value, (parseJob cfg (newString qn.1) qn.2).1) ∈ (parse cfg d).1.jobs.getD [] := by
    rw [hj]; exact List.mem_map.2 ⟨qn, hqn, rfl⟩
  obtain ⟨hkeys, hall⟩ := simulateJobs_outs hd hs.localFormat cfg.lower ((parse cfg d).1.jobs.getD [])
    ((parse cfg d).1.jobs.getD []) _ hinv
  obtain ⟨v, hv, hv1, c', hc', hv2⟩ := hall _ hmem
  rw [hnid] at hv1
  -- the called job
  obtain ⟨_, cc, hw, hu1, _, _, _⟩ := parseJob_call_read cfg (newString qc.1) qc.2 (hcl qc hs.job) vU hs.uses
  have hlk : AL.RuleExpr.lookupJob (cfg.lower qc.1.value) ((parse cfg d).1.jobs.getD []) = some (parseJob cfg (newString qc.1) qc.2).1 := by
    rw [hj]
    exact lookupJob_entries (fun q : Node × Node => cfg.lower q.1.value) (fun q => (parseJob cfg (newString q.1) q.2).1) _ qc hnd hs.job
  have hout := needsLookups_outs hd hskip cfg.lower ((parse cfg d).1.jobs.getD []) (parseJob cfg (newString qn.1) qn.2).1 c' hc'
    (cfg.lower qc.1.value) _ cc (newString vU) hin (by rw [hnid]; exact hself) hlk hw hu1 rfl
  rw [← hv2] at hout
  -- the view is found under the job's id
  have hids : ((AL.ProjCall.simulate env.calls cfg.lower (parse cfg d).1).map (·.1)).Nodup := by
    simp only [AL.ProjCall.simulate]
    rw [hkeys, hj, List.map_map]
    have : ((fun p : String × Job => p.2.id.value) ∘ fun q : Node × Node => (cfg.lower q.1.value, (parseJob cfg (newString q.1) q.2).1)) =
        fun q => q.1.value := by
      funext q
      simp only [Function.comp]
      rw [AL.C08P.parseJob_id]; rfl
    rw [this]
    have h2 : ((jobEntries d).map fun q => cfg.lower q.1.value) = ((jobEntries d).map fun q => q.1.value).map cfg.lower := by
      rw [List.map_map]; rfl
    rw [h2] at hnd
    exact nodup_of_map _ _ hnd
  simp only [AL.ProjLint.viewOf, AL.ProjCall.viewOf, AL.RuleExpr.ProjView.jobView]
  have hfind : ((AL.ProjCall.simulate env.calls cfg.lower (parse cfg d).1).map fun e =>
      (e.1, ({ outs := e.2.outs, inputs := e.2.inputs } : AL.RuleExpr.ProjJob))).find? (fun e => e.1 = qn.1.value) =
      some (qn.1.value, { outs := v.2.outs, inputs := v.2.inputs }) := by
    rw [AL.C14W.find_iff_mem _ (by rw [List.map_map]; exact hids)]
    exact List.mem_map.2 ⟨v, hv, by rw [hv1]⟩
  rw [hfind]
  exact hout

section Outputs2
open AL.Sema AL.RuleExpr AL.C05S AL.C06R

/-- **C14, outputs, end to end for a reusable workflow**: in the caller's document `d` (accepted by the parser), the job `qn` needs
the job `qc`, which calls the local workflow whose document is `cd`; under the project's view of the file, in any context where
`needs` is available, `needs.<qc>.outputs.<name>` is reported iff no key of `on.workflow_call.outputs` of `cd` folds to `name` -/
theorem needs_output_reported_iff_documents (cfg : Cfg) (isNum : String → Bool) (env : AL.ProjLint.Env) (d cd : Node)
    (qc : Node × Node) (vU : Node) (hcd : CalleeOk cfg cd) (hs : CallSite cfg d qc vU) (hr : CallResolves cfg env vU.value cd)
    (qn : Node × Node) (hqn : qn ∈ jobEntries d)
    (cx0 : Cx) (hl : cx0.lower = cfg.lower) (hp : cx0.proj = AL.ProjLint.viewOf env cfg.lower isNum (parse cfg d).1)
    (isNumber : IsNumber) (cx : Cx)
    (hcx : InJob cx0 isNumber ((parse cfg d).1.jobs.getD []) (parseJob cfg (newString qn.1) qn.2).1 cx)
    (key name : String) (ha : (AL.Visit.availability key).1.contains (cx0.lower "needs") = true)
    (hin : cfg.lower qc.1.value ∈ ((parseJob cfg (newString qn.1) qn.2).1.needs.getD []).map (fun id => cfg.lower id.value))
    (hself : cfg.lower qc.1.value ≠ cfg.lower qn.1.value) :
    (check (envOf cx key) (.objDeref (.objDeref (.objDeref (.var "needs") (cfg.lower qc.1.value)) "outputs") name)).errs ≠ [] ↔
      ∀ o ∈ entries "outputs" cd, cfg.lower o.1.value ≠ name := by
  obtain ⟨hj, hcl, hnd⟩ := parse_jobs_read cfg d hs.clean
  have hnid : (parseJob cfg (newString qn.1) qn.2).1.id.value = qn.1.value := by rw [AL.C08P.parseJob_id]; rfl
  obtain ⟨_, cc, hw, _, _, _, _⟩ := parseJob_call_read cfg (newString qc.1) qc.2 (hcl qc hs.job) vU hs.uses
  have hlk : lookupJob (cfg.lower qc.1.value) ((parse cfg d).1.jobs.getD []) = some (parseJob cfg (newString qc.1) qc.2).1 := by
    rw [hj]
    exact lookupJob_entries (fun q : Node × Node => cfg.lower q.1.value) (fun q => (parseJob cfg (newString q.1) q.2).1) _ qc hnd hs.job
  refine needs_output_reported_iff_doc cfg cd cx0 isNumber _ _ cx hcx key (cfg.lower qc.1.value) name _ ha ?_ ?_ hlk (by rw [hw]; rfl) ?_
  · rw [hl]; exact hin
  · rw [hl, hnid]; exact hself
  · rw [hp, hnid]
    exact needs_view_of_documents cfg isNum env d cd qc vU hcd hs hr qn hqn hin hself

end Outputs2

/-! ## 7. instances: the hypotheses are met by ordinary documents, and both sides of every iff occur -/

section Examples

/-!
The called workflow `.github/workflows/w.yml`:
```
on:
  workflow_call:
    inputs:
      Env: {required: true, type: string}
      tag: {type: string, default: x, required: true}
      Dry: {type: boolean}
    secrets:
      TOKEN: {required: true}
      opt: {}
    outputs:
      URL: {value: x}
jobs: {j: {runs-on: u, steps: [{run: x}]}}
```
the caller:
```
on: push
jobs:
  Call:
    uses: ./.github/workflows/w.yml
    with: {ENV: prod, verbose: 1}
    secrets: {Token: x, Other: y}
  other:
    runs-on: u
    steps:
      - uses: ./act
        with: {Depth: 2, extra: 1, args: a}
```
and `act/action.yml`:
```
name: act
description: d
inputs:
  Token: {required: true}
  depth: {default: "1", required: true}
  Flag: {required: yes}
outputs: {Out: {description: o}}
runs: {using: node20, main: index.js}
```
-/

def xCfg : Cfg := ⟨asciiLower, fun _ => none, fun _ => .err⟩
def xs (v : String) (l c : Nat) : Node := .mk .scalar "!!str" v false l c []
def xb (v : String) (l c : Nat) : Node := .mk .scalar "!!bool" v false l c []
def xm (l c : Nat) (cs : List Node) : Node := .mk .mapping "!!map" "" false l c cs
def xq (l c : Nat) (cs : List Node) : Node := .mk .sequence "!!seq" "" false l c cs
def xdoc (root : Node) : Node := .mk .document "" "" false 1 1 [root]

def xiEnv : Node × Node := (xs "Env" 4 7, xm 5 9 [xs "required" 5 9, xb "true" 5 19, xs "type" 6 9, xs "string" 6 15])
def xiTag : Node × Node :=
  (xs "tag" 7 7, xm 8 9 [xs "type" 8 9, xs "string" 8 15, xs "default" 9 9, xs "x" 9 18, xs "required" 10 9, xb "true" 10 19])
def xiDry : Node × Node := (xs "Dry" 11 7, xm 12 9 [xs "type" 12 9, xs "boolean" 12 15])
def xsToken : Node × Node := (xs "TOKEN" 14 7, xm 15 9 [xs "required" 15 9, xb "true" 15 19])
def xsOpt : Node × Node := (xs "opt" 16 7, xm 16 12 [])
def xoUrl : Node × Node := (xs "URL" 18 7, xm 19 9 [xs "value" 19 9, xs "x" 19 16])

def xCallNode : Node :=
  xm 3 5 [xs "inputs" 3 5, xm 4 7 [xiEnv.1, xiEnv.2, xiTag.1, xiTag.2, xiDry.1, xiDry.2],
    xs "secrets" 13 5, xm 14 7 [xsToken.1, xsToken.2, xsOpt.1, xsOpt.2],
    xs "outputs" 17 5, xm 18 7 [xoUrl.1, xoUrl.2]]

def xCallee : Node :=
  xdoc (xm 1 1 [xs "on" 1 1, xm 2 3 [xs "workflow_call" 2 3, xCallNode],
    xs "jobs" 20 1, xm 21 3 [xs "j" 21 3, xm 22 5 [xs "runs-on" 22 5, xs "u" 22 14, xs "steps" 23 5,
      xq 24 7 [xm 24 9 [xs "run" 24 9, xs "x" 24 14]]]]])

theorem xCalleeOk : CalleeOk xCfg xCallee := ⟨by decide +kernel, by decide +kernel, by decide +kernel, by decide +kernel⟩
theorem xInputs : entries "inputs" xCallee = [xiEnv, xiTag, xiDry] := rfl
theorem xSecretsDecl : entries "secrets" xCallee = [xsToken, xsOpt] := rfl
theorem xOutputs : entries "outputs" xCallee = [xoUrl] := rfl

def xSpec : String := "./.github/workflows/w.yml"
def xUses : Node := xs xSpec 4 11
def xwEnv : Node × Node := (xs "ENV" 6 7, xs "prod" 6 12)
def xwVerbose : Node × Node := (xs "verbose" 7 7, xs "1" 7 16)
def xcToken : Node × Node := (xs "Token" 9 7, xs "x" 9 14)
def xcOther : Node × Node := (xs "Other" 10 7, xs "y" 10 14)
def xCallJobNode : Node :=
  xm 4 5 [xs "uses" 4 5, xUses, xs "with" 5 5, xm 6 7 [xwEnv.1, xwEnv.2, xwVerbose.1, xwVerbose.2],
    xs "secrets" 8 5, xm 9 7 [xcToken.1, xcToken.2, xcOther.1, xcOther.2]]
def xActUses : Node := xs "./act" 14 15
def xtDepth : Node × Node := (xs "Depth" 16 11, xs "2" 16 18)
def xtExtra : Node × Node := (xs "extra" 17 11, xs "1" 17 18)
def xStepNode : Node :=
  xm 14 9 [xs "uses" 14 9, xActUses, xs "with" 15 9, xm 16 11 [xtDepth.1, xtDepth.2, xtExtra.1, xtExtra.2, xs "args" 18 11, xs "a" 18 17]]
def xOtherJobNode : Node := xm 12 5 [xs "runs-on" 12 5, xs "u" 12 14, xs "steps" 13 5, xq 14 7 [xStepNode]]
def xCallJob : Node × Node := (xs "Call" 3 3, xCallJobNode)
def xOtherJob : Node × Node := (xs "other" 11 3, xOtherJobNode)
def xCaller : Node :=
  xdoc (xm 1 1 [xs "on" 1 1, xs "push" 1 5, xs "jobs" 2 1, xm 3 3 [xCallJob.1, xCallJob.2, xOtherJob.1, xOtherJob.2]])

/-- a second caller: `with: {verbose: 1}` only, and `secrets: inherit` -/
def xCallJobNode2 : Node :=
  xm 4 5 [xs "uses" 4 5, xUses, xs "with" 5 5, xm 6 7 [xwVerbose.1, xwVerbose.2], xs "secrets" 8 5, xs "inherit" 8 14]
def xCallJob2 : Node × Node := (xs "Call" 3 3, xCallJobNode2)
def xCaller2 : Node := xdoc (xm 1 1 [xs "on" 1 1, xs "push" 1 5, xs "jobs" 2 1, xm 3 3 [xCallJob2.1, xCallJob2.2]])

def xaToken : Node × Node := (xs "Token" 4 3, xm 5 5 [xs "required" 5 5, xb "true" 5 15])
def xaDepth : Node × Node := (xs "depth" 6 3, xm 7 5 [xs "default" 7 5, xs "1" 7 14, xs "required" 8 5, xb "true" 8 15])
def xaFlag : Node × Node := (xs "Flag" 9 3, xm 10 5 [xs "required" 10 5, xs "yes" 10 15])
def xaOut : Node × Node := (xs "Out" 12 3, xm 13 5 [xs "description" 13 5, xs "o" 13 18])
def xAction : Node :=
  xdoc (xm 1 1 [xs "name" 1 1, xs "act" 1 7, xs "description" 2 1, xs "d" 2 14,
    xs "inputs" 3 1, xm 4 3 [xaToken.1, xaToken.2, xaDepth.1, xaDepth.2, xaFlag.1, xaFlag.2],
    xs "outputs" 11 1, xm 12 3 [xaOut.1, xaOut.2],
    xs "runs" 14 1, xm 15 3 [xs "using" 15 3, xs "node20" 15 10, xs "main" 16 3, xs "index.js" 16 9]])

def xActMeta : AL.ProjAction.ActionMeta :=
  { name := "act", description := "d", runs := { using_ := "node20", main := "index.js" },
    inputs := actionInputs xCfg xAction, outputs := actionOutputs xCfg xAction, dir := "act", path := "act/action.yml" }

def xEnv : AL.ProjLint.Env :=
  { calls := { disk := fun s => if s = xSpec then diskOfDoc xCfg xCallee else .missing },
    actions := { disk := fun s => if s = "./act" then .ok xActMeta else .absent } }

theorem xJobs : jobEntries xCaller = [xCallJob, xOtherJob] := rfl
theorem xWithEntries : withEntries xCallJobNode = [xwEnv, xwVerbose] := rfl
theorem xWithEntries' : withEntries xCallJob.2 = [xwEnv, xwVerbose] := rfl
theorem xWithEntries2 : withEntries xCallJob2.2 = [xwVerbose] := rfl
theorem xSecretEntries : secretEntries xCallJobNode = [xcToken, xcOther] := rfl
theorem xActInputs : actSection "inputs" xAction = [xaToken, xaDepth, xaFlag] := rfl
theorem xActOutputs : actSection "outputs" xAction = [xaOut] := rfl
theorem xStepWithEntries : stepWithEntries xCfg xStepNode = [xtDepth, xtExtra] := by rfl
theorem xCallSite : CallSite xCfg xCaller xCallJob xUses :=
  ⟨by decide +kernel, by rw [xJobs]; simp, rfl, by decide +kernel, by decide +kernel⟩
theorem xCallSite2 : CallSite xCfg xCaller2 xCallJob2 xUses :=
  ⟨by decide +kernel, by rw [show jobEntries xCaller2 = [xCallJob2] from rfl]; simp, rfl, by decide +kernel, by decide +kernel⟩
theorem xResolves : CallResolves xCfg xEnv xUses.value xCallee := ⟨rfl, rfl, by simp [xEnv]⟩
theorem xActResolves : ActionResolves xCfg xEnv xActUses.value xAction xActMeta :=
  ⟨rfl, rfl, by decide +kernel, ⟨_, rfl, by decide +kernel, by decide +kernel⟩⟩
theorem xStepSite : StepSite xCfg xCaller xOtherJob xStepNode xActUses :=
  ⟨by decide +kernel, by rw [xJobs]; simp, rfl, by rw [show stepNodes xOtherJob.2 = [xStepNode] from rfl]; simp, rfl,
    by decide +kernel, by decide +kernel⟩

def xIsNum : String → Bool := fun _ => false
def xUrlOk : String → Bool := fun _ => true

/-! ### §1 -/

example : CalleeSane xCallee := callee_sane xCfg xCallee (by decide +kernel)

/-- the interface read from the document … -/
example : readMeta xCfg xCallee =
    { inputs := [("env", ⟨"Env", true, .string⟩), ("tag", ⟨"tag", false, .string⟩), ("dry", ⟨"Dry", false, .bool⟩)],
      outputs := [("url", "URL")], secrets := [("token", ⟨"TOKEN", true⟩), ("opt", ⟨"opt", false⟩)] } := by decide +kernel

/-- … is what the AST gives and what decoding the file gives -/
example : fromDocAst xCfg xCallee = some (readMeta xCfg xCallee) ∧ fromDoc xCfg xCallee = .ok (readMeta xCfg xCallee) := by
  cases hm : fromDocAst xCfg xCallee with
  | none => exact absurd hm (by decide +kernel)
  | some m =>
    obtain ⟨h1, h2⟩ := callee_interface_read xCfg xCallee xCalleeOk.lower xCalleeOk.sane xCalleeOk.clean m hm
    exact ⟨by rw [h1], h2⟩

example : "env" ∈ AL.ProjCall.keysOf (readMeta xCfg xCallee).inputs :=
  (declared_input_iff xCfg xCallee "env").2 ⟨xiEnv, by rw [xInputs]; simp, by decide +kernel⟩
example : "token" ∈ AL.ProjCall.keysOf (readMeta xCfg xCallee).secrets :=
  (declared_secret_iff xCfg xCallee "token").2 ⟨xsToken, by rw [xSecretsDecl]; simp, by decide +kernel⟩
example : "url" ∈ (readMeta xCfg xCallee).outputs.map (·.1) :=
  (declared_output_iff xCfg xCallee "url").2 ⟨xoUrl, by rw [xOutputs]; simp, by decide +kernel⟩
/-- `Env` has `required: true` and no default; `tag` has `required: true` AND a default: not required -/
example : inputRequired xiEnv.2 = true ∧ inputRequired xiTag.2 = false ∧ inputRequired xiDry.2 = false := by decide +kernel
example : inputRequired xiEnv.2 = true :=
  (inputRequired_iff _).2 ⟨⟨xb "true" 5 19, rfl, rfl, rfl, by decide⟩, by rintro ⟨d, hd, _⟩; cases hd⟩
example : requiredTrue xsToken.2 = true := (requiredTrue_iff _).2 ⟨xb "true" 15 19, rfl, rfl, rfl, by decide⟩
example : ("env", (⟨"Env", true, .string⟩ : CallMeta.Input)) ∈ (readMeta xCfg xCallee).inputs :=
  (declared_input_entry_iff xCfg xCallee _ _).2 ⟨xiEnv, by rw [xInputs]; simp, by decide +kernel, rfl, by decide +kernel, by decide +kernel⟩
example : ("token", (⟨"TOKEN", true⟩ : CallMeta.Secret)) ∈ (readMeta xCfg xCallee).secrets :=
  (declared_secret_entry_iff xCfg xCallee _ _).2 ⟨xsToken, by rw [xSecretsDecl]; simp, by decide +kernel, rfl, by decide +kernel⟩
example : diskOfDoc xCfg xCallee = .ok (readMeta xCfg xCallee) :=
  callee_on_disk xCfg xCallee xCalleeOk.lower xCalleeOk.sane xCalleeOk.clean xCalleeOk.event
example : AL.C14W.MetaDistinct (readMeta xCfg xCallee) :=
  readMeta_distinct xCfg xCallee xCalleeOk.lower xCalleeOk.sane xCalleeOk.clean xCalleeOk.event

/-! ### §2 -/

/-- `Flag: {required: yes}` IS required: yaml.v3 decodes the word `yes` into the Go bool `true` -/
example : actionInputs xCfg xAction = [("token", "Token", true), ("depth", "depth", false), ("flag", "Flag", true)] := by decide +kernel
example : actionOutputs xCfg xAction = [("out", "Out")] := by decide +kernel
example : ∃ dd, AL.ActionDecode.fromDoc xCfg xAction = .ok dd ∧ dd.inputs = actionInputs xCfg xAction ∧ dd.outputs = actionOutputs xCfg xAction :=
  ⟨_, rfl, action_interface_read xCfg xAction (by decide +kernel) _ rfl⟩
example : ("flag", "Flag", true) ∈ actionInputs xCfg xAction :=
  (action_declared_input_iff xCfg xAction _ _ _).2 ⟨xaFlag, by rw [xActInputs]; simp, by decide +kernel, rfl, by decide +kernel⟩
example : "out" ∈ (actionOutputs xCfg xAction).map (·.1) :=
  (action_declared_output_iff xCfg xAction _).2 ⟨xaOut, by rw [xActOutputs]; simp, by decide +kernel⟩
example : actInputRequired xaFlag.2 = true :=
  (actInputRequired_iff _).2 ⟨⟨xs "yes" 10 15, rfl, by decide +kernel⟩, by rintro ⟨d, hd, _⟩; cases hd⟩
example : yamlTrue (xb "true" 5 15) = true := yamlTrue_of_saysTrue _ (by decide +kernel)

/-! ### §3 -/

example : ∃ j, ("call", j) ∈ (parse xCfg xCaller).1.jobs.getD [] ∧ j.id = newString xCallJob.1 ∧
    j.workflowCall = some (callOfJob xCfg xCallJobNode xUses) :=
  caller_job_call xCfg xCaller xCallSite.clean xCallJob xCallSite.job xUses rfl
/-- the call as the parser stores it: ids are the folded keys -/
example : (AL.C08R.callKeys (callOfJob xCfg xCallJobNode xUses).inputs, AL.C08R.callKeys (callOfJob xCfg xCallJobNode xUses).secrets) =
    ([("env", ⟨6, 7⟩), ("verbose", ⟨7, 7⟩)], [("token", ⟨9, 7⟩), ("other", ⟨10, 7⟩)]) := by decide +kernel
example : AL.C08R.callKeys (withArgs xCfg xCallJobNode) = [("env", ⟨6, 7⟩), ("verbose", ⟨7, 7⟩)] := by
  rw [callKeys_withArgs, xWithEntries]; decide +kernel
example : ∃ j, ("other", j) ∈ (parse xCfg xCaller).1.jobs.getD [] ∧ j.workflowCall = none ∧
    j.steps.getD [] = (stepNodes xOtherJobNode).map (fun c => (parseStep xCfg c).1) :=
  caller_job_plain xCfg xCaller xStepSite.clean xOtherJob xStepSite.job rfl
example : ∃ j ∈ AL.Rules.jobsOf (parse xCfg xCaller).1, ∃ st ∈ AL.Rules.stepsOf j, ∃ e, st.exec = .action e ∧
    e.uses = some (newString xActUses) ∧ e.inputs = stepWith xCfg xStepNode :=
  caller_step_action xCfg xCaller xStepSite.clean xOtherJob xStepSite.job rfl xStepNode xStepSite.step xActUses rfl
example : AL.C08R.Folded xCfg.lower { inputs := stepWith xCfg xStepNode } := step_with_ids_folded xCfg xStepNode _ rfl
example : AL.C08R.ArgsFolded xCfg.lower (withArgs xCfg xCallJobNode) := with_ids_folded xCfg xCallJobNode
example : AL.C08R.ArgsFolded xCfg.lower (secretArgs xCfg xCallJobNode) := secret_ids_folded xCfg xCallJobNode

/-! ### §4 -/

example : xEnv.calls.disk xSpec = .ok (readMeta xCfg xCallee) := xResolves.on_disk xCalleeOk

/-- the diagnostics of the job `Call`: `verbose` is not an input, `Other` not a secret; `ENV` supplies `Env`, `Token`
supplies `TOKEN` -/
example : ∃ v ∈ AL.ProjCall.simulate xEnv.calls xCfg.lower (parse xCfg xCaller).1, v.1 = "Call" ∧
    v.2.wc.map AL.C08R.sig = [(⟨7, 7⟩, "input-undefined"), (⟨10, 7⟩, "secret-undefined")] := by
  obtain ⟨v, hv, h1, h2⟩ := call_view xCfg xEnv xCaller xCallee xCallJob xUses xCalleeOk xCallSite xResolves
  exact ⟨v, hv, h1, by rw [h2]; decide +kernel⟩

/-- the second caller: `Env` is required and not supplied; `secrets: inherit`: nothing about secrets -/
example : ∃ v ∈ AL.ProjCall.simulate xEnv.calls xCfg.lower (parse xCfg xCaller2).1, v.1 = "Call" ∧
    v.2.wc.map AL.C08R.sig = [(⟨4, 11⟩, "input-required"), (⟨7, 7⟩, "input-undefined")] := by
  obtain ⟨v, hv, h1, h2⟩ := call_view xCfg xEnv xCaller2 xCallee xCallJob2 xUses xCalleeOk xCallSite2 xResolves
  exact ⟨v, hv, h1, by rw [h2]; decide +kernel⟩

theorem xNoVerbose : ∀ e ∈ entries "inputs" xCallee, xCfg.lower e.1.value ≠ xCfg.lower xwVerbose.1.value := by
  intro e he
  rw [xInputs] at he
  simp only [List.mem_cons, List.not_mem_nil, or_false] at he
  rcases he with rfl | rfl | rfl <;> decide +kernel

/-- `verbose` (7:7) is reported, `ENV` (6:7) is not: `Env` folds to the same id -/
example : (⟨7, 7⟩, "input-undefined") ∈
      (AL.ProjCall.checkLocal (readMeta xCfg xCallee) (callOfJob xCfg xCallJobNode xUses) (newString xUses)).map AL.C08R.sig ∧
    (⟨6, 7⟩, "input-undefined") ∉
      (AL.ProjCall.checkLocal (readMeta xCfg xCallee) (callOfJob xCfg xCallJobNode xUses) (newString xUses)).map AL.C08R.sig := by
  refine ⟨(call_input_undefined_doc xCfg xCallee xCallJobNode xUses _ _).2 ⟨xwVerbose, by rw [xWithEntries]; simp, rfl, xNoVerbose⟩, ?_⟩
  intro h
  obtain ⟨kv, hkv, hp, hn⟩ := (call_input_undefined_doc xCfg xCallee xCallJobNode xUses _ _).1 h
  rw [xWithEntries] at hkv
  simp only [List.mem_cons, List.not_mem_nil, or_false] at hkv
  rcases hkv with rfl | rfl
  · exact hn xiEnv (by rw [xInputs]; simp) (by decide +kernel)
  · exact absurd hp (by decide +kernel)

/-- `Env` is required: reported for the second caller, not for the first -/
example : (⟨4, 11⟩, "input-required") ∈
      (AL.ProjCall.checkLocal (readMeta xCfg xCallee) (callOfJob xCfg xCallJobNode2 xUses) (newString xUses)).map AL.C08R.sig :=
  (call_input_required_doc xCfg xCallee xCallJobNode2 xUses (newString xUses) xCalleeOk).2 ⟨xiEnv, by rw [xInputs]; simp, by decide +kernel, by
    intro kv hkv
    rw [show withEntries xCallJobNode2 = [xwVerbose] from rfl] at hkv
    simp only [List.mem_cons, List.not_mem_nil, or_false] at hkv
    subst hkv; decide +kernel⟩

example : (⟨10, 7⟩, "secret-undefined") ∈
      (AL.ProjCall.checkLocal (readMeta xCfg xCallee) (callOfJob xCfg xCallJobNode xUses) (newString xUses)).map AL.C08R.sig :=
  (call_secret_undefined_doc xCfg xCallee xCallJobNode xUses _ _ rfl).2 ⟨xcOther, by rw [xSecretEntries]; simp, rfl, by
    intro e he
    rw [xSecretsDecl] at he
    simp only [List.mem_cons, List.not_mem_nil, or_false] at he
    rcases he with rfl | rfl <;> decide +kernel⟩

/-- `TOKEN` is required and `Token` supplies it: not reported -/
example : (⟨4, 11⟩, "secret-required") ∉
      (AL.ProjCall.checkLocal (readMeta xCfg xCallee) (callOfJob xCfg xCallJobNode xUses) (newString xUses)).map AL.C08R.sig := by
  intro h
  obtain ⟨e, he, hr, hn⟩ := (call_secret_required_doc xCfg xCallee xCallJobNode xUses (newString xUses) xCalleeOk rfl).1 h
  rw [xSecretsDecl] at he
  simp only [List.mem_cons, List.not_mem_nil, or_false] at he
  rcases he with rfl | rfl
  · exact hn xcToken (by rw [xSecretEntries]; simp) (by decide +kernel)
  · exact absurd hr (by decide +kernel)

example : ∀ dg ∈ AL.ProjCall.checkLocal (readMeta xCfg xCallee) (callOfJob xCfg xCallJobNode2 xUses) (newString xUses),
    dg.code ≠ "secret-required" ∧ dg.code ≠ "secret-undefined" :=
  call_inherit_no_secret xCfg xCallee xCallJobNode2 xUses _ rfl

example : ∀ dg ∈ AL.ProjCall.checkLocal (readMeta xCfg xCallee) (callOfJob xCfg xCallJobNode xUses) (newString xUses),
    dg.code = "input-required" ∨ dg.code = "input-undefined" ∨ dg.code = "secret-required" ∨ dg.code = "secret-undefined" :=
  call_codes _ _ _

/-- the complete list of the job `Call`, from the two documents -/
example : (AL.ProjCall.checkLocal (readMeta xCfg xCallee) (callOfJob xCfg xCallJobNode xUses) (newString xUses)).map AL.C08R.sig =
    docSection xCfg [xiEnv, xiTag, xiDry] inputRequired [xwEnv, xwVerbose] ⟨4, 11⟩ "input-required" "input-undefined" ++
    docSection xCfg [xsToken, xsOpt] requiredTrue [xcToken, xcOther] ⟨4, 11⟩ "secret-required" "secret-undefined" := by
  rw [call_sig_exact, xInputs, xSecretsDecl, xWithEntries, xSecretEntries]
  rfl
/-- each undefined entry once -/
example : ((AL.ProjCall.checkLocal (readMeta xCfg xCallee) (callOfJob xCfg xCallJobNode xUses) (newString xUses)).map AL.C08R.sig).filter
    (fun s => s.2 = "input-undefined") = [(⟨7, 7⟩, "input-undefined")] := by
  rw [call_input_undefined_once]; decide +kernel
example : ((AL.ProjCall.checkLocal (readMeta xCfg xCallee) (callOfJob xCfg xCallJobNode xUses) (newString xUses)).map AL.C08R.sig).filter
    (fun s => s.2 = "secret-undefined") = [(⟨10, 7⟩, "secret-undefined")] := by
  rw [call_secret_undefined_once _ _ _ _ _ rfl]; decide +kernel
/-- the second caller: exactly one required input (`Env`) is missing -/
example : (((AL.ProjCall.checkLocal (readMeta xCfg xCallee) (callOfJob xCfg xCallJobNode2 xUses) (newString xUses)).map AL.C08R.sig).filter
    (fun s => s.2 = "input-required")).length = 1 := by
  rw [call_input_required_count _ _ _ _ _ xCalleeOk]; decide +kernel
example : (AL.C08R.sectionK [("a", true), ("b", true), ("c", false)] ⟨1, 1⟩ "r" "u" [("b", ⟨2, 2⟩), ("x", ⟨3, 3⟩)]).filter (fun s => s.2 = "u") =
    [(⟨3, 3⟩, "u")] := by
  rw [sectionK_filter_undefined _ _ _ _ _ (by decide)]; decide +kernel
example : ((AL.C08R.sectionK [("a", true), ("b", true), ("c", false)] ⟨1, 1⟩ "r" "u" [("b", ⟨2, 2⟩), ("x", ⟨3, 3⟩)]).filter (fun s => s.2 = "r")).length = 1 := by
  rw [sectionK_required_count _ _ _ _ _ (by decide) (by decide)]; decide +kernel
example : (AL.C08R.sectionK [("a", true)] ⟨1, 1⟩ "r" "u" []).filter (fun s => s.2 = "z") = [] :=
  sectionK_filter_other _ _ _ _ _ _ (by decide) (by decide)
example : (AL.PW.sortStrings ["b", "a", "c"]).Perm ["b", "a", "c"] := sortStrings_perm _

/-- in the output of the whole file -/
example : ∃ dg ∈ AL.ProjLint.lint xCfg xIsNum xUrlOk xEnv xCaller, dg.kind = "workflow-call" ∧ dg.code = "input-undefined" ∧
    dg.pos = ⟨7, 7⟩ ∧ dg.args.head? = some "verbose" :=
  call_input_undefined_in_lint xCfg xIsNum xUrlOk xEnv xCaller xCallee xCallJob xUses xCalleeOk xCallSite xResolves xwVerbose
    (by rw [xWithEntries']; simp) xNoVerbose

example : (⟨⟨4, 11⟩, "workflow-call", "input-required", ["Env", xSpec]⟩ : AL.Rules.Diag) ∈ AL.ProjLint.lint xCfg xIsNum xUrlOk xEnv xCaller2 :=
  call_input_required_in_lint xCfg xIsNum xUrlOk xEnv xCaller2 xCallee xCallJob2 xUses xCalleeOk xCallSite2 xResolves xiEnv
    (by rw [xInputs]; simp) (by decide +kernel) (by
      intro kv hkv
      rw [xWithEntries2] at hkv
      simp only [List.mem_cons, List.not_mem_nil, or_false] at hkv
      subst hkv; decide +kernel)

theorem xSole : ∀ q' ∈ jobEntries xCaller, q' ≠ xCallJob → attr "uses" q'.2 = none := by
  intro q' hq' hne
  rw [xJobs] at hq'
  simp only [List.mem_cons, List.not_mem_nil, or_false] at hq'
  rcases hq' with rfl | rfl
  · exact absurd rfl hne
  · rfl

/-- `Call` is the only calling job of the first caller: the whole output has an `input-undefined` at 7:7 and none at 6:7 -/
example : (∃ dg ∈ AL.ProjLint.lint xCfg xIsNum xUrlOk xEnv xCaller, dg.kind = "workflow-call" ∧ dg.code = "input-undefined" ∧ dg.pos = ⟨7, 7⟩) ∧
    ¬ ∃ dg ∈ AL.ProjLint.lint xCfg xIsNum xUrlOk xEnv xCaller, dg.kind = "workflow-call" ∧ dg.code = "input-undefined" ∧ dg.pos = ⟨6, 7⟩ := by
  refine ⟨(sole_call_input_undefined_lint_iff xCfg xIsNum xUrlOk xEnv xCaller xCallee xCallJob xUses xCalleeOk xCallSite xResolves xSole _).2
    ⟨xwVerbose, by rw [xWithEntries']; simp, rfl, xNoVerbose⟩, ?_⟩
  intro h
  obtain ⟨kv, hkv, hp, hn⟩ := (sole_call_input_undefined_lint_iff xCfg xIsNum xUrlOk xEnv xCaller xCallee xCallJob xUses xCalleeOk
    xCallSite xResolves xSole _).1 h
  rw [xWithEntries'] at hkv
  simp only [List.mem_cons, List.not_mem_nil, or_false] at hkv
  rcases hkv with rfl | rfl
  · exact hn xiEnv (by rw [xInputs]; simp) (by decide +kernel)
  · exact absurd hp (by decide +kernel)

theorem xSole2 : ∀ q' ∈ jobEntries xCaller2, q' ≠ xCallJob2 → attr "uses" q'.2 = none := by
  intro q' hq' hne
  rw [show jobEntries xCaller2 = [xCallJob2] from rfl] at hq'
  simp only [List.mem_cons, List.not_mem_nil, or_false] at hq'
  exact absurd hq' hne

/-- site and code of everything rule workflow-call says about the first caller -/
example : ∃ dg ∈ AL.ProjLint.lint xCfg xIsNum xUrlOk xEnv xCaller, dg.kind = "workflow-call" ∧ dg.code = "secret-undefined" ∧ dg.pos = ⟨10, 7⟩ :=
  (sole_call_lint_iff xCfg xIsNum xUrlOk xEnv xCaller xCallee xCallJob xUses xCalleeOk xCallSite xResolves xSole ⟨10, 7⟩ _ (by decide)).2
    (by decide +kernel)
example : ∃ dg ∈ AL.ProjLint.lint xCfg xIsNum xUrlOk xEnv xCaller, dg.kind = "workflow-call" ∧ dg.code = "secret-undefined" ∧ dg.pos = ⟨10, 7⟩ :=
  (sole_call_secret_undefined_lint_iff xCfg xIsNum xUrlOk xEnv xCaller xCallee xCallJob xUses xCalleeOk xCallSite xResolves xSole rfl _).2
    ⟨xcOther, by rw [show secretEntries xCallJob.2 = [xcToken, xcOther] from rfl]; simp, rfl, by
      intro e he
      rw [xSecretsDecl] at he
      simp only [List.mem_cons, List.not_mem_nil, or_false] at he
      rcases he with rfl | rfl <;> decide +kernel⟩
/-- `Token` supplies `TOKEN`: no `secret-required` anywhere in the output -/
example : ¬ ∃ dg ∈ AL.ProjLint.lint xCfg xIsNum xUrlOk xEnv xCaller, dg.kind = "workflow-call" ∧ dg.code = "secret-required" ∧ dg.pos = ⟨4, 11⟩ := by
  intro h
  obtain ⟨e, he, hr, hn⟩ := (sole_call_secret_required_lint_iff xCfg xIsNum xUrlOk xEnv xCaller xCallee xCallJob xUses xCalleeOk xCallSite
    xResolves xSole rfl).1 h
  rw [xSecretsDecl] at he
  simp only [List.mem_cons, List.not_mem_nil, or_false] at he
  rcases he with rfl | rfl
  · exact hn xcToken (by rw [show secretEntries xCallJob.2 = [xcToken, xcOther] from rfl]; simp) (by decide +kernel)
  · exact absurd hr (by decide +kernel)
/-- the second caller: `Env` is required and missing; `secrets: inherit`: nothing about secrets in the whole output -/
example : ∃ dg ∈ AL.ProjLint.lint xCfg xIsNum xUrlOk xEnv xCaller2, dg.kind = "workflow-call" ∧ dg.code = "input-required" ∧ dg.pos = ⟨4, 11⟩ :=
  (sole_call_input_required_lint_iff xCfg xIsNum xUrlOk xEnv xCaller2 xCallee xCallJob2 xUses xCalleeOk xCallSite2 xResolves xSole2).2
    ⟨xiEnv, by rw [xInputs]; simp, by decide +kernel, by
      intro kv hkv
      rw [xWithEntries2] at hkv
      simp only [List.mem_cons, List.not_mem_nil, or_false] at hkv
      subst hkv; decide +kernel⟩
example : ∀ dg ∈ AL.ProjLint.lint xCfg xIsNum xUrlOk xEnv xCaller2, dg.kind = "workflow-call" →
    dg.code ≠ "secret-required" ∧ dg.code ≠ "secret-undefined" :=
  sole_call_inherit_lint xCfg xIsNum xUrlOk xEnv xCaller2 xCallee xCallJob2 xUses xCalleeOk xCallSite2 xResolves xSole2 rfl

/-- every "workflow-call" diagnostic of the output belongs to a job's view, and vice versa -/
example (dg : AL.Rules.Diag) (hdg : dg ∈ AL.ProjLint.lint xCfg xIsNum xUrlOk xEnv xCaller) (hk : dg.kind = "workflow-call")
    (hc : dg.code = "secret-undefined") : ∃ v ∈ AL.ProjCall.simulate xEnv.calls xCfg.lower (parse xCfg xCaller).1, dg ∈ v.2.wc :=
  lint_wc_sound xCfg xIsNum xUrlOk xEnv xCaller dg hdg hk (by rw [hc]; decide)
example (v : String × AL.ProjCall.JobView) (hv : v ∈ AL.ProjCall.simulate xEnv.calls xCfg.lower (parse xCfg xCaller).1) :
    ∀ dg ∈ v.2.wc, dg ∈ AL.ProjLint.lint xCfg xIsNum xUrlOk xEnv xCaller :=
  fun dg hdg => lint_wc_complete xCfg xIsNum xUrlOk xEnv xCaller v hv dg hdg

/-! ### §5 -/

example : xActMeta.inputs = actionInputs xCfg xAction ∧ xActMeta.outputs = actionOutputs xCfg xAction := xActResolves.read
example : AL.C14W.ActionObtained xActMeta.inputs := xActResolves.obtained

/-- the diagnostics of the step: `extra` is not an input (`Depth` is, `args` is no input at all); `Token` and `Flag` are
required and not supplied -/
example : (AL.ProjAction.inputDiags xActMeta "./act" { inputs := stepWith xCfg xStepNode } ⟨14, 15⟩).map AL.C08R.sig =
    [(⟨17, 11⟩, "local-input-undefined"), (⟨14, 15⟩, "local-input-missing"), (⟨14, 15⟩, "local-input-missing")] := by decide +kernel

example : ∃ e : ExecAction, e.uses = some (newString xActUses) ∧ e.inputs = stepWith xCfg xStepNode ∧
    ∀ dg ∈ AL.ProjAction.inputDiags xActMeta "./act" e ⟨14, 15⟩, dg ∈ AL.ProjLint.lint xCfg xIsNum xUrlOk xEnv xCaller :=
  step_view xCfg xIsNum xUrlOk xEnv xCaller xAction xActMeta xOtherJob xStepNode xActUses xStepSite xActResolves

theorem xNoExtra : ∀ x ∈ actSection "inputs" xAction, xCfg.lower x.1.value ≠ xCfg.lower xtExtra.1.value := by
  intro x hx
  rw [xActInputs] at hx
  simp only [List.mem_cons, List.not_mem_nil, or_false] at hx
  rcases hx with rfl | rfl | rfl <;> decide +kernel

example : ∃ dg ∈ AL.ProjAction.inputDiags xActMeta "./act" { inputs := stepWith xCfg xStepNode } ⟨14, 15⟩,
    dg.code = "local-input-undefined" ∧ dg.pos = ⟨17, 11⟩ :=
  (step_input_undefined_doc xCfg xAction xActMeta rfl xStepNode _ rfl "./act" ⟨14, 15⟩ ⟨17, 11⟩).2
    ⟨xtExtra, by rw [xStepWithEntries]; simp, rfl, xNoExtra⟩

/-- `Depth` (16:11) is declared (as `depth`): not reported -/
example : ¬ ∃ dg ∈ AL.ProjAction.inputDiags xActMeta "./act" { inputs := stepWith xCfg xStepNode } ⟨14, 15⟩,
    dg.code = "local-input-undefined" ∧ dg.pos = ⟨16, 11⟩ := by
  intro h
  obtain ⟨kv, hkv, hp, hn⟩ := (step_input_undefined_doc xCfg xAction xActMeta rfl xStepNode _ rfl "./act" ⟨14, 15⟩ ⟨16, 11⟩).1 h
  rw [xStepWithEntries] at hkv
  simp only [List.mem_cons, List.not_mem_nil, or_false] at hkv
  rcases hkv with rfl | rfl
  · exact hn xaDepth (by rw [xActInputs]; simp) (by decide +kernel)
  · exact absurd hp (by decide +kernel)

theorem xFlagMissing : ∀ kv ∈ stepWithEntries xCfg xStepNode, xCfg.lower kv.1.value ≠ xCfg.lower xaFlag.1.value := by
  intro kv hkv
  rw [xStepWithEntries] at hkv
  simp only [List.mem_cons, List.not_mem_nil, or_false] at hkv
  rcases hkv with rfl | rfl <;> decide +kernel

example : ∃ dg ∈ AL.ProjAction.inputDiags xActMeta "./act" { inputs := stepWith xCfg xStepNode } ⟨14, 15⟩,
    dg.code = "local-input-missing" ∧ dg.args.head? = some "Flag" :=
  (step_input_missing_doc xCfg xAction xActMeta rfl xActResolves.obtained xStepNode _ rfl "./act" ⟨14, 15⟩ "Flag").2
    ⟨xaFlag, by rw [xActInputs]; simp, rfl, by decide +kernel, xFlagMissing⟩

example : ∃ dg ∈ AL.ProjLint.lint xCfg xIsNum xUrlOk xEnv xCaller, dg.kind = "action" ∧ dg.code = "local-input-undefined" ∧ dg.pos = ⟨17, 11⟩ :=
  step_input_undefined_in_lint xCfg xIsNum xUrlOk xEnv xCaller xAction xActMeta xOtherJob xStepNode xActUses xStepSite xActResolves
    xtExtra (by rw [xStepWithEntries]; simp) xNoExtra

example : ∃ dg ∈ AL.ProjLint.lint xCfg xIsNum xUrlOk xEnv xCaller, dg.kind = "action" ∧ dg.code = "local-input-missing" ∧
    dg.args.head? = some "Flag" :=
  step_input_missing_in_lint xCfg xIsNum xUrlOk xEnv xCaller xAction xActMeta xOtherJob xStepNode xActUses xStepSite xActResolves
    xaFlag (by rw [xActInputs]; simp) (by decide +kernel) xFlagMissing

example (dg : AL.Rules.Diag) (hdg : dg ∈ AL.ProjLint.lint xCfg xIsNum xUrlOk xEnv xCaller) (hk : dg.kind = "action")
    (hc : dg.code = "local-input-missing") :
    ∃ j ∈ AL.Rules.jobsOf (parse xCfg xCaller).1, ∃ st ∈ AL.Rules.stepsOf j, ∃ c', ActInv "./act" xActMeta c' ∧
      dg ∈ (AL.ProjAction.actionStep xEnv.actions c' st).2 :=
  lint_action_only xCfg xIsNum xUrlOk xEnv xCaller "./act" xActMeta rfl dg hdg hk (Or.inr hc)

theorem xSoleStep : ∀ q' ∈ jobEntries xCaller, ∀ sn' ∈ stepNodes q'.2,
    (q' = xOtherJob ∧ sn' = xStepNode) ∨ ∀ v, attr "uses" sn' = some v → v.value.startsWith "./" = false := by
  intro q' hq' sn' hsn'
  rw [xJobs] at hq'
  simp only [List.mem_cons, List.not_mem_nil, or_false] at hq'
  rcases hq' with rfl | rfl
  · rw [show stepNodes xCallJob.2 = [] from rfl] at hsn'
    cases hsn'
  · rw [show stepNodes xOtherJob.2 = [xStepNode] from rfl] at hsn'
    simp only [List.mem_cons, List.not_mem_nil, or_false] at hsn'
    exact Or.inl ⟨rfl, hsn'⟩

/-- `./act` is used by one step only: the whole output has a `local-input-undefined` at 17:11 (`extra`) and none at 16:11 (`Depth`) -/
example : (∃ dg ∈ AL.ProjLint.lint xCfg xIsNum xUrlOk xEnv xCaller, dg.kind = "action" ∧ dg.code = "local-input-undefined" ∧ dg.pos = ⟨17, 11⟩) ∧
    ¬ ∃ dg ∈ AL.ProjLint.lint xCfg xIsNum xUrlOk xEnv xCaller, dg.kind = "action" ∧ dg.code = "local-input-undefined" ∧ dg.pos = ⟨16, 11⟩ := by
  refine ⟨(sole_step_input_undefined_lint_iff xCfg xIsNum xUrlOk xEnv xCaller xAction xActMeta xOtherJob xStepNode xActUses xStepSite
    xActResolves xSoleStep _).2 ⟨xtExtra, by rw [xStepWithEntries]; simp, rfl, xNoExtra⟩, ?_⟩
  intro h
  obtain ⟨kv, hkv, hp, hn⟩ := (sole_step_input_undefined_lint_iff xCfg xIsNum xUrlOk xEnv xCaller xAction xActMeta xOtherJob xStepNode
    xActUses xStepSite xActResolves xSoleStep _).1 h
  rw [xStepWithEntries] at hkv
  simp only [List.mem_cons, List.not_mem_nil, or_false] at hkv
  rcases hkv with rfl | rfl
  · exact hn xaDepth (by rw [xActInputs]; simp) (by decide +kernel)
  · exact absurd hp (by decide +kernel)

/-- `Flag` is required (`required: yes`) and the step does not supply it; `depth` has a default: not reported -/
example : (∃ dg ∈ AL.ProjLint.lint xCfg xIsNum xUrlOk xEnv xCaller, dg.kind = "action" ∧ dg.code = "local-input-missing" ∧ dg.args.head? = some "Flag") ∧
    ¬ ∃ dg ∈ AL.ProjLint.lint xCfg xIsNum xUrlOk xEnv xCaller, dg.kind = "action" ∧ dg.code = "local-input-missing" ∧ dg.args.head? = some "depth" := by
  refine ⟨(sole_step_input_missing_lint_iff xCfg xIsNum xUrlOk xEnv xCaller xAction xActMeta xOtherJob xStepNode xActUses xStepSite
    xActResolves xSoleStep _).2 ⟨xaFlag, by rw [xActInputs]; simp, rfl, by decide +kernel, xFlagMissing⟩, ?_⟩
  intro h
  obtain ⟨x, hx, hname, hreq, _⟩ := (sole_step_input_missing_lint_iff xCfg xIsNum xUrlOk xEnv xCaller xAction xActMeta xOtherJob xStepNode
    xActUses xStepSite xActResolves xSoleStep _).1 h
  rw [xActInputs] at hx
  simp only [List.mem_cons, List.not_mem_nil, or_false] at hx
  rcases hx with rfl | rfl | rfl
  · exact absurd hname (by decide +kernel)
  · exact absurd hreq (by decide +kernel)
  · exact absurd hname (by decide +kernel)

/-- exactly: the three diagnostics of the input check are in the output, and nothing else under these codes -/
example (dg : AL.Rules.Diag) :
    (dg ∈ AL.ProjLint.lint xCfg xIsNum xUrlOk xEnv xCaller ∧ dg.kind = "action" ∧ (dg.code = "local-input-undefined" ∨ dg.code = "local-input-missing")) ↔
      dg ∈ AL.ProjAction.inputDiags xActMeta "./act" { inputs := stepWith xCfg xStepNode } ⟨14, 15⟩ :=
  sole_step_lint_iff xCfg xIsNum xUrlOk xEnv xCaller xAction xActMeta xOtherJob xStepNode xActUses xStepSite xActResolves xSoleStep dg
example : AL.ProjAction.inputDiags xActMeta "./act" { inputs := stepWith xCfg xStepNode, args := some ⟨"a", false, ⟨18, 17⟩⟩ } ⟨14, 15⟩ =
    AL.ProjAction.inputDiags xActMeta "./act" { inputs := stepWith xCfg xStepNode } ⟨14, 15⟩ := inputDiags_congr _ _ _ _ _ rfl
example : ∀ dg ∈ AL.ProjAction.inputDiags xActMeta "./act" { inputs := stepWith xCfg xStepNode } ⟨14, 15⟩,
    dg.code = "local-input-undefined" ∨ dg.code = "local-input-missing" := inputDiags_codes _ _ _ _

/-! ### §6 -/

/-- `needs.<job>.outputs` of a job calling `w.yml`: `url` and nothing else -/
example : ∃ os, AL.ProjCall.outputsTy (readMeta xCfg xCallee) = .obj os none ∧ Ty.lookup "url" os = some .string ∧
    Ty.lookup "other" os = none := by
  obtain ⟨os, h1, h2⟩ := callee_outputs_doc xCfg xCallee
  refine ⟨os, h1, (h2 "url").2 ?_, (h2 "other").1.2 ?_⟩
  · intro hn
    exact (h2 "url").1.1 hn xoUrl (by rw [xOutputs]; simp) (by decide +kernel)
  · intro e he
    rw [xOutputs] at he
    simp only [List.mem_cons, List.not_mem_nil, or_false] at he
    subst he; decide +kernel

/-- `steps.<id>.outputs` of a step using `./act`: `out` and nothing else -/
example : ∃ os, AL.ProjAction.outputsTy xActMeta = .obj os none ∧ Ty.lookup "out" os = some .string ∧ Ty.lookup "other" os = none := by
  obtain ⟨os, h1, h2⟩ := action_outputs_doc xCfg xAction xActMeta rfl
  refine ⟨os, h1, (h2 "out").2 ?_, (h2 "other").1.2 ?_⟩
  · intro hn
    exact (h2 "out").1.1 hn xaOut (by rw [xActOutputs]; simp) (by decide +kernel)
  · intro e he
    rw [xActOutputs] at he
    simp only [List.mem_cons, List.not_mem_nil, or_false] at he
    subst he; decide +kernel

section OutputsEx
open AL.Sema AL.RuleExpr AL.C05S AL.C06R

def xP : AL.Yaml.Pos := ⟨1, 1⟩
def xStr (v : String) : Str := ⟨v, false, xP⟩
def xNoNum : IsNumber := fun _ => false
def xKeyRun : String := "jobs.<job_id>.steps.run"

/-- a job whose step `a` uses `./act`, seen from the step after it -/
def xStA : Step := { id := some (xStr "A"), exec := .action { uses := some (xStr "./act") }, pos := xP }
def xJobA : Job := { id := xStr "j", steps := some [xStA, { exec := .run { run := some (xStr "echo") }, pos := xP }], pos := xP }
def xCxA : Cx := { lower := asciiLower, proj := AL.ProjLint.viewOf xEnv asciiLower xIsNum {} }

example : stepOutputs xCxA.proj xStA = AL.ProjAction.outputsTy xActMeta :=
  local_action_step_outputs xEnv asciiLower xIsNum {} "./act" xActMeta rfl rfl (by decide +kernel) xStA _ _ rfl rfl rfl

/-- `steps.a.outputs.out` is fine, `steps.a.outputs.other` is reported -/
example : ¬ (check (envOf (stepCx xCxA xNoNum [] xJobA [xStA]) xKeyRun)
      (.objDeref (.objDeref (.objDeref (.var "steps") "a") "outputs") "out")).errs ≠ [] ∧
    (check (envOf (stepCx xCxA xNoNum [] xJobA [xStA]) xKeyRun)
      (.objDeref (.objDeref (.objDeref (.var "steps") "a") "outputs") "other")).errs ≠ [] := by
  have h := fun name => steps_output_reported_iff_doc xCfg xAction xActMeta rfl xCxA xNoNum [] xJobA [xStA] _ (stepCx_after ..) xKeyRun "a" name
    (by decide +kernel) ⟨xStA, by simp, xStr "A", rfl, by decide +kernel⟩
    (by
      intro s hs id _ _
      simp only [List.mem_cons, List.not_mem_nil, or_false] at hs
      subst hs
      exact local_action_step_outputs xEnv asciiLower xIsNum {} "./act" xActMeta rfl rfl (by decide +kernel) xStA _ _ rfl rfl rfl)
  refine ⟨fun hne => (h "out").1 hne xaOut (by rw [xActOutputs]; simp) (by decide +kernel), (h "other").2 ?_⟩
  intro e he
  rw [xActOutputs] at he
  simp only [List.mem_cons, List.not_mem_nil, or_false] at he
  subst he; decide +kernel

/-- `dep` needs `call`, which calls `w.yml`; the project's view has the outputs type of the interface read from the callee -/
def xJCall : Job := { id := xStr "call", workflowCall := some { uses := some (xStr xSpec) }, pos := xP }
def xJDep : Job := { id := xStr "dep", needs := some [xStr "Call"], pos := xP }
def xJobsN : List (String × Job) := [("call", xJCall), ("dep", xJDep)]
def xCxN : Cx :=
  { lower := asciiLower, proj := { jobs := [("dep", { outs := [("call", AL.ProjCall.outputsTy (readMeta xCfg xCallee))] })] } }

/-- `needs.call.outputs.url` is fine, `needs.call.outputs.other` is reported -/
example : ¬ (check (envOf (jobCx xCxN xNoNum xJobsN xJDep) xKeyRun)
      (.objDeref (.objDeref (.objDeref (.var "needs") "call") "outputs") "url")).errs ≠ [] ∧
    (check (envOf (jobCx xCxN xNoNum xJobsN xJDep) xKeyRun)
      (.objDeref (.objDeref (.objDeref (.var "needs") "call") "outputs") "other")).errs ≠ [] := by
  have h := fun name => needs_output_reported_iff_doc xCfg xCallee xCxN xNoNum xJobsN xJDep _ (jobCx_inJob ..) xKeyRun "call" name xJCall
    (by decide +kernel) (by decide +kernel) (by decide +kernel) rfl rfl rfl
  refine ⟨fun hne => (h "url").1 hne xoUrl (by rw [xOutputs]; simp) (by decide +kernel), (h "other").2 ?_⟩
  intro e he
  rw [xOutputs] at he
  simp only [List.mem_cons, List.not_mem_nil, or_false] at he
  subst he; decide +kernel

/-- a third caller: `dep` needs `Call`
```
on: push
jobs:
  Call: {uses: ./.github/workflows/w.yml, with: {ENV: prod}, secrets: inherit}
  dep: {needs: Call, runs-on: u, steps: [{run: x}]}
```
-/
def xCallJob3 : Node × Node :=
  (xs "Call" 3 3, xm 4 5 [xs "uses" 4 5, xUses, xs "with" 5 5, xm 6 7 [xwEnv.1, xwEnv.2], xs "secrets" 7 5, xs "inherit" 7 14])
def xDepJob : Node × Node :=
  (xs "dep" 8 3, xm 9 5 [xs "needs" 9 5, xs "Call" 9 12, xs "runs-on" 10 5, xs "u" 10 14, xs "steps" 11 5,
    xq 12 7 [xm 12 9 [xs "run" 12 9, xs "x" 12 14]]])
def xCaller3 : Node :=
  xdoc (xm 1 1 [xs "on" 1 1, xs "push" 1 5, xs "jobs" 2 1, xm 3 3 [xCallJob3.1, xCallJob3.2, xDepJob.1, xDepJob.2]])
theorem xJobs3 : jobEntries xCaller3 = [xCallJob3, xDepJob] := rfl
theorem xCallSite3 : CallSite xCfg xCaller3 xCallJob3 xUses :=
  ⟨by decide +kernel, by rw [xJobs3]; simp, rfl, by decide +kernel, by decide +kernel⟩

example : AL.RuleExpr.lookupJob "b" ([("a", 1), ("b", 2)].map fun q : String × Nat => (q.1, ({ id := xStr "j", pos := xP, timeoutMinutes := none } : Job))) =
    some { id := xStr "j", pos := xP } :=
  lookupJob_entries (fun q : String × Nat => q.1) (fun _ => { id := xStr "j", pos := xP }) [("a", 1), ("b", 2)] ("b", 2) (by decide) (by simp)
example : [1, 2, 3].Nodup := nodup_of_map (fun n => n + 1) _ (by decide)

/-- the project's view of `dep`: `needs.call.outputs` has the outputs type of the interface read from `w.yml` -/
example : Ty.lookup "call" ((AL.ProjLint.viewOf xEnv xCfg.lower xIsNum (parse xCfg xCaller3).1).jobView "dep").outs =
    some (AL.ProjCall.outputsTy (readMeta xCfg xCallee)) :=
  needs_view_of_documents xCfg xIsNum xEnv xCaller3 xCallee xCallJob3 xUses xCalleeOk xCallSite3 xResolves xDepJob
    (by rw [xJobs3]; simp) (by decide +kernel) (by decide +kernel)

def xCx3 : Cx := { lower := asciiLower, proj := AL.ProjLint.viewOf xEnv xCfg.lower xIsNum (parse xCfg xCaller3).1 }

/-- from the two documents to the expression rule: in `dep`, `needs.call.outputs.url` is fine, `needs.call.outputs.other` is
reported -/
example : ¬ (check (envOf (jobCx xCx3 xNoNum ((parse xCfg xCaller3).1.jobs.getD []) (parseJob xCfg (newString xDepJob.1) xDepJob.2).1) xKeyRun)
      (.objDeref (.objDeref (.objDeref (.var "needs") "call") "outputs") "url")).errs ≠ [] ∧
    (check (envOf (jobCx xCx3 xNoNum ((parse xCfg xCaller3).1.jobs.getD []) (parseJob xCfg (newString xDepJob.1) xDepJob.2).1) xKeyRun)
      (.objDeref (.objDeref (.objDeref (.var "needs") "call") "outputs") "other")).errs ≠ [] := by
  have h := fun name => needs_output_reported_iff_documents xCfg xIsNum xEnv xCaller3 xCallee xCallJob3 xUses xCalleeOk xCallSite3 xResolves
    xDepJob (by rw [xJobs3]; simp) xCx3 rfl rfl xNoNum _ (jobCx_inJob ..) xKeyRun name (by decide +kernel) (by decide +kernel)
    (by decide +kernel)
  refine ⟨fun hne => (h "url").1 hne xoUrl (by rw [xOutputs]; simp) (by decide +kernel), (h "other").2 ?_⟩
  intro e he
  rw [xOutputs] at he
  simp only [List.mem_cons, List.not_mem_nil, or_false] at he
  subst he; decide +kernel

end OutputsEx

end Examples

end AL.C14D
