import AL.Model.ShellVisit
import AL.Lemmas.ShellVisit
/-
  C20 / C09 — the default shells are threaded through a workflow without leaks: at every step the shellcheck rule
  sees exactly (step shell, this job's default, the workflow's default, this job's runner default) and the pyflakes
  rule exactly (step shell, this job's default kind, the workflow's default kind), whatever jobs were visited before.
  Statements; proved theorems are added below by name.
-/
namespace AL.Props.C20Shell
open AL.Proc AL.ShellVisit

/-- what the property prescribes for a step of job `j` in workflow `w` -/
def scExpected (lower : String → String) (w : WfS) (j : JobS) (s : StepS) : Option String :=
  if s.isRun then some (effectiveShell s.shell (j.shell.getD "") (w.shell.getD "") (runnerDefault lower j.labels)) else none

def pyExpected (w : WfS) (j : JobS) (s : StepS) : Bool :=
  s.isRun && isPython s.shell (if j.hasDefaultsRun then pyKind j.defShell else .unspecified)
    (if w.hasDefaultsRun then pyKind w.defShell else .unspecified)

/-- (a) shellcheck: from the initial state, every step of every job gets the prescribed shell -/
def sc_exact_statement : Prop :=
  ∀ (lower : String → String) (w : WfS),
    (scWorkflow lower ScSt.init w).2 = w.jobs.map (fun j => j.steps.map (scExpected lower w j))

/-- (b) … and the rule is back in its initial state afterwards (the next workflow starts clean) -/
def sc_resets_statement : Prop :=
  ∀ (lower : String → String) (w : WfS), (scWorkflow lower ScSt.init w).1 = ScSt.init

/-- (c) pyflakes: every step of every job gets the prescribed decision -/
def py_exact_statement : Prop :=
  ∀ (w : WfS), (pyWorkflow PySt.init w).2 = w.jobs.map (fun j => j.steps.map (pyExpected w j))

def py_resets_statement : Prop :=
  ∀ (w : WfS), (pyWorkflow PySt.init w).1 = PySt.init

/-- (d) consequently the decisions for a job do not depend on the other jobs or on the visiting order: permuting the
jobs permutes the per-job results -/
def sc_order_independent_statement : Prop :=
  ∀ (lower : String → String) (w : WfS) (js' : List JobS), w.jobs.Perm js' →
    ((scWorkflow lower ScSt.init { w with jobs := js' }).2).Perm ((scWorkflow lower ScSt.init w).2)

/-! ### proofs (helper lemmas: AL/Lemmas/ShellVisit.lean) -/

theorem scExpected_eq (lower : String → String) (w : WfS) (j : JobS) :
    scExpected lower w j = scStepSpec lower (w.shell.getD "") j := rfl

theorem pyExpected_eq (w : WfS) (j : JobS) :
    pyExpected w j = pyStepSpec (if w.hasDefaultsRun then pyKind w.defShell else .unspecified) j := rfl

/-- the prescription reads only the workflow's default shell, not its jobs -/
theorem scExpected_jobs (lower : String → String) (w : WfS) (js' : List JobS) :
    scExpected lower { w with jobs := js' } = scExpected lower w := rfl

theorem sc_exact : sc_exact_statement := by
  intro lower w
  rw [scWorkflow_init]
  rfl

theorem sc_resets : sc_resets_statement := by
  intro lower w
  rw [scWorkflow_init]

theorem py_exact : py_exact_statement := by
  intro w
  rw [pyWorkflow_init]
  rfl

theorem py_resets : py_resets_statement := by
  intro w
  rw [pyWorkflow_init]

theorem sc_order_independent : sc_order_independent_statement := by
  intro lower w js' hp
  rw [sc_exact lower w, sc_exact lower { w with jobs := js' }]
  simp only [scExpected_jobs]
  exact (hp.map _).symm

/-! ### non-vacuity: concrete workflows -/

/-- (`lower := id` is enough for labels that are already lower-case.)
default shell "python"; job 1 on Windows with `defaults.run` without a shell; job 2 without defaults -/
private def wf1 : WfS :=
  { hasDefaultsRun := true, defShell := some "python",
    jobs := [
      -- job 1: Windows runner, `defaults.run` without a shell
      { hasDefaultsRun := true, defShell := none, labels := ["windows"],
        steps := [⟨none, true⟩, ⟨some "bash", true⟩, ⟨none, false⟩] },
      -- job 2: no defaults, Linux runner: must not inherit "pwsh" from job 1
      { hasDefaultsRun := false, defShell := some "ignored", labels := ["ubuntu"],
        steps := [⟨none, true⟩] },
      -- job 3: its own default shell
      { hasDefaultsRun := true, defShell := some "sh", labels := [],
        steps := [⟨none, true⟩, ⟨some "pwsh", true⟩] }] }

/-- a workflow without defaults: the runner default shows through, and only in the Windows job -/
private def wf2 : WfS :=
  { hasDefaultsRun := false, defShell := none,
    jobs := [
      { hasDefaultsRun := false, defShell := none, labels := ["self-hosted", "windows"], steps := [⟨none, true⟩] },
      { hasDefaultsRun := false, defShell := none, labels := ["ubuntu"], steps := [⟨none, true⟩] }] }

example : scWorkflow id ScSt.init wf1
    = (ScSt.init, [[some "python", some "bash", none], [some "python"], [some "sh", some "pwsh"]]) := by
  decide

example : scWorkflow id ScSt.init wf2 = (ScSt.init, [[some "pwsh"], [some "bash"]]) := by
  decide +kernel

example : pyWorkflow PySt.init wf1 = (PySt.init, [[true, false, false], [true], [false, false]]) := by
  decide

example : pyWorkflow PySt.init wf2 = (PySt.init, [[false], [false]]) := by
  decide

/-- the `windows-` prefix form of the label (`String.startsWith` needs kernel evaluation) -/
example : scWorkflow id ScSt.init
    { hasDefaultsRun := false, defShell := none,
      jobs := [
        { hasDefaultsRun := true, defShell := none, labels := ["windows-latest"], steps := [⟨none, true⟩] },
        { hasDefaultsRun := false, defShell := none, labels := ["windowsx"], steps := [⟨none, true⟩] }] }
    = (ScSt.init, [[some "pwsh"], [some "bash"]]) := by
  decide +kernel

/-- order independence on the concrete workflow: reversing the jobs reverses the results -/
example : (scWorkflow id ScSt.init { wf2 with jobs := wf2.jobs.reverse }).2 = [[some "bash"], [some "pwsh"]] := by
  decide +kernel

end AL.Props.C20Shell
