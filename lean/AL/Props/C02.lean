import AL.Model.Lint
import AL.Lemmas.LintSort
import AL.Lemmas.Determinism
import AL.Spec.MapRangeLedger
import AL.Gen.MapRanges
/-
  C02 — output is a deterministic function of the inputs.
-/
namespace AL.C02
open AL.Lint

/-- (a) every `range` over a map in the source is in the ledger with the same order-sensitive effects, and
vice versa (regenerated on every run). -/
def ledger_check : Bool :=
  (AL.Gen.mapRanges.map fun r => (r.1, r.2.1, r.2.2.1, r.2.2.2.1, r.2.2.2.2)) =
  (AL.Spec.mapRangeLedger.map fun r => (r.1, r.2.1, r.2.2.1, r.2.2.2.1, r.2.2.2.2.1))

theorem ledger_complete : ledger_check = true := by decide +kernel

/-- (b) every site has one of the four classes that make the order unobservable. -/
def classes_check : Bool :=
  AL.Spec.mapRangeLedger.all fun r =>
    let c := r.2.2.2.2.2
    c = "commutative" || c = "sorted" || c = "positions" || c = "selection"

theorem classes_known : classes_check = true := by decide +kernel

def key (d : D) : String × Nat × Nat := (d.file, d.line, d.col)

/-- (c) THE CORE of "positions": two runs that produce the same diagnostics in different orders — but
in the same order at every single position — print the same list after the stable sort. -/
def order_independent_statement : Prop :=
  ∀ l₁ l₂ : List D, l₁.Perm l₂ → (∀ k, l₁.filter (fun d => key d = k) = l₂.filter (fun d => key d = k)) →
    stableSort l₁ = stableSort l₂

/-- (d) files: the per-file results are concatenated in argument order whatever order the per-file
goroutines finished in (`ws[i]` is written by goroutine i only). -/
def files_in_argument_order_statement : Prop :=
  ∀ (results : List (List D)) (finish : List Nat), finish.Perm (List.range results.length) →
    (finish.foldl (fun (acc : List (Option (List D))) i => acc.set i (results[i]?)) (List.replicate results.length none)).filterMap id
      = results

/-! ## Proofs of (c) and (d) -/

/-- C02's `key` is the sort key of the C15 lemmas -/
theorem key_eq : key = AL.Lint.key := rfl

/-- (c) as stated.  The hypothesis `l₁.Perm l₂` is not even needed: agreeing on every per-position
sublist already implies it.  Proof: both outputs are sorted (`stableSort_sorted`) and have the same
per-key sublists as their inputs (`stableSort_filter_key`), and a sorted list is determined by its
per-key sublists (`sorted_eq_of_filter_key_eq`). -/
theorem order_independent : order_independent_statement := by
  intro l₁ l₂ _ h
  rw [key_eq] at h
  exact stableSort_eq_of_filter_key_eq h

/-- two "runs": the rules at positions 1:5 and 2:7 finished in different orders, but at position 1:5
`tieA` comes before `tieB` in both -/
def exRun₁ : List D :=
  [⟨"w.yml", 2, 7, "m27", "k"⟩, ⟨"w.yml", 1, 5, "tieA", "k"⟩, ⟨"a.yml", 9, 9, "m99", "k"⟩, ⟨"w.yml", 1, 5, "tieB", "k"⟩]
def exRun₂ : List D :=
  [⟨"w.yml", 1, 5, "tieA", "k"⟩, ⟨"a.yml", 9, 9, "m99", "k"⟩, ⟨"w.yml", 1, 5, "tieB", "k"⟩, ⟨"w.yml", 2, 7, "m27", "k"⟩]

example : exRun₁.Perm exRun₂ := by decide
example : stableSort exRun₁ = stableSort exRun₂ := by decide
example : stableSort exRun₁ =
    [⟨"a.yml", 9, 9, "m99", "k"⟩, ⟨"w.yml", 1, 5, "tieA", "k"⟩, ⟨"w.yml", 1, 5, "tieB", "k"⟩, ⟨"w.yml", 2, 7, "m27", "k"⟩] := by
  decide

/-- the per-position hypothesis of (c) is needed: a mere permutation that swaps two diagnostics at the
same position is visible in the output (this is why every map `range` must be in one of the four
classes of (b)). -/
theorem order_independent_needs_positions :
    ¬ ∀ l₁ l₂ : List D, l₁.Perm l₂ → stableSort l₁ = stableSort l₂ := by
  intro h
  have := h [⟨"w.yml", 1, 5, "tieA", "k"⟩, ⟨"w.yml", 1, 5, "tieB", "k"⟩]
    [⟨"w.yml", 1, 5, "tieB", "k"⟩, ⟨"w.yml", 1, 5, "tieA", "k"⟩] (by decide)
  revert this
  decide

/-- (d) as stated (`results[i]?` is never out of range for a permutation of `range results.length`, and
the general lemma `collect_slots` does not care: it only needs every index below the length to be
written at least once). -/
theorem files_in_argument_order : files_in_argument_order_statement := by
  intro results finish hp
  apply collect_slots results finish
  intro j hj
  exact hp.mem_iff.2 (List.mem_range.2 hj)

/-- three files; the goroutines finish in the order 2, 0, 1 -/
def exResults : List (List D) :=
  [[⟨"a.yml", 1, 1, "a", "k"⟩], [], [⟨"c.yml", 3, 3, "c1", "k"⟩, ⟨"c.yml", 4, 4, "c2", "k"⟩]]

example : [2, 0, 1].Perm (List.range exResults.length) := by decide
example : ([2, 0, 1].foldl (fun (acc : List (Option (List D))) i => acc.set i (exResults[i]?))
    (List.replicate exResults.length none)).filterMap id = exResults := by decide
-- an intermediate state: after goroutines 2 and 0 only
example : ([2, 0].foldl (fun (acc : List (Option (List D))) i => acc.set i (exResults[i]?))
    (List.replicate exResults.length none)) = [some exResults[0], none, some exResults[2]] := by decide

end AL.C02
