import AL.Model.JsonEnc
/-
  C16, `-format '{{json .}}'`: the reader inverts the encoder — for EVERY list of diagnostics' template fields, whatever
  the strings contain (quotes, backslashes, control characters, `<` `>` `&`, U+2028 / U+2029, any other scalar value) and
  whatever the numbers, reading the encoder's output gives back exactly the list: no field is lost, merged or altered, and
  the optional fields come back empty exactly when they were empty.
-/
namespace AL.C16J
open AL.JsonEnc

/-! ### strings -/

theorem hex_table : ∀ n, n < 128 →
    isHex (hexDigit (n / 16)) = true ∧ isHex (hexDigit (n % 16)) = true ∧
    hexVal (hexDigit (n / 16)) * 16 + hexVal (hexDigit (n % 16)) = n := by decide +kernel

theorem readStr_raw (c : Char) (rest acc : List Char) (h1 : c ≠ '"') (h2 : c ≠ '\\') (h3 : ¬ c.toNat < 0x20) :
    readStr (c :: rest) acc = readStr rest (acc ++ [c]) := by
  conv => lhs; unfold readStr
  split
  · rename_i h; cases h
  · rename_i h; cases h; exact absurd rfl h1
  · rename_i h; cases h; exact absurd rfl h2
  · rename_i h; cases h; exact absurd rfl h2
  · rename_i h; cases h; simp [h3]

theorem readStr_u00 (n : Nat) (hn : n < 128) (rest acc : List Char) :
    readStr ('\\' :: 'u' :: '0' :: '0' :: hexDigit (n / 16) :: hexDigit (n % 16) :: rest) acc =
      readStr rest (acc ++ [Char.ofNat n]) := by
  obtain ⟨a, b, c⟩ := hex_table n hn
  rw [readStr]
  simp only [↓reduceIte, a, b, Bool.and_true]
  have : isHex '0' = true := by decide
  simp only [this, Bool.and_self, ↓reduceIte]
  have hv : hexVal '0' = 0 := by decide
  rw [hv]
  simp only [Nat.zero_mul, Nat.zero_add, c]

/-- one encoded scalar value is read back as that value -/
theorem readStr_encChar (c : Char) (rest acc : List Char) :
    readStr (encChar c ++ rest) acc = readStr rest (acc ++ [c]) := by
  unfold encChar
  split
  · rename_i h; subst h; simp only [List.cons_append, List.nil_append]; rw [readStr.eq_def]; simp
  split
  · rename_i h; subst h; simp only [List.cons_append, List.nil_append]; rw [readStr.eq_def]; simp
  split
  · rename_i h
    have : c = Char.ofNat 8 := by rw [← h, Char.ofNat_toNat]
    subst this; simp only [List.cons_append, List.nil_append]; rw [readStr.eq_def]; simp
  split
  · rename_i h
    have : c = Char.ofNat 12 := by rw [← h, Char.ofNat_toNat]
    subst this; simp only [List.cons_append, List.nil_append]; rw [readStr.eq_def]; simp
  split
  · rename_i h; subst h; simp only [List.cons_append, List.nil_append]; rw [readStr.eq_def]; simp
  split
  · rename_i h; subst h; simp only [List.cons_append, List.nil_append]; rw [readStr.eq_def]; simp
  split
  · rename_i h; subst h; simp only [List.cons_append, List.nil_append]; rw [readStr.eq_def]; simp
  split
  · rename_i h
    have hn : c.toNat < 128 := by
      rcases h with h | h | h | h
      · omega
      · subst h; decide
      · subst h; decide
      · subst h; decide
    have := readStr_u00 c.toNat hn rest acc
    rw [Char.ofNat_toNat] at this
    exact this
  split
  · rename_i h
    have : c = Char.ofNat 0x2028 := by rw [← h, Char.ofNat_toNat]
    subst this; simp only [List.cons_append, List.nil_append]; rw [readStr.eq_def]; simp
    have e1 : isHex '2' = true := by decide
    have e2 : isHex '0' = true := by decide
    have e3 : isHex '8' = true := by decide
    have e4 : hexVal '2' * 4096 + hexVal '0' * 256 + hexVal '2' * 16 + hexVal '8' = 8232 := by decide
    simp [e1, e2, e3, e4]
  split
  · rename_i h
    have : c = Char.ofNat 0x2029 := by rw [← h, Char.ofNat_toNat]
    subst this; simp only [List.cons_append, List.nil_append]; rw [readStr.eq_def]; simp
    have e1 : isHex '2' = true := by decide
    have e2 : isHex '0' = true := by decide
    have e3 : isHex '9' = true := by decide
    have e4 : hexVal '2' * 4096 + hexVal '0' * 256 + hexVal '2' * 16 + hexVal '9' = 8233 := by decide
    simp [e1, e2, e3, e4]
  · rename_i h1 h2 _ _ _ _ _ h8 _ _
    exact readStr_raw c rest acc h1 h2 (fun h => h8 (Or.inl h))

theorem readStr_encBody (s rest acc : List Char) :
    readStr (encBody s ++ '"' :: rest) acc = some (acc ++ s, rest) := by
  induction s generalizing acc with
  | nil => simp [encBody, readStr]
  | cons c cs ih =>
    simp only [encBody, List.append_assoc]
    rw [readStr_encChar, ih]
    simp

/-- **a string survives**: whatever it contains -/
theorem readVal_encStr (s rest : List Char) : readVal (encStr s ++ rest) = some (.str s, rest) := by
  simp [encStr, readVal, readStr_encBody]

/-! ### numbers -/

theorem digit_table : ∀ m, m < 10 → isDigit (Char.ofNat (48 + m)) = true ∧ (Char.ofNat (48 + m)).toNat - 48 = m := by
  decide +kernel

/-- the value the reader accumulates over the digits of `n`, starting from `k` -/
def dec (k n : Nat) : Nat := if h : n < 10 then k * 10 + n else dec k (n / 10) * 10 + n % 10
termination_by n
decreasing_by omega

theorem dec_zero (n : Nat) : dec 0 n = n := by
  induction n using Nat.strongRecOn with
  | _ n ih =>
    rw [dec]
    split
    · omega
    · rename_i h
      rw [ih (n / 10) (by omega)]
      omega

theorem readDigits_encNat (n : Nat) (rest : List Char) (k : Nat) :
    readDigits (encNat n ++ rest) k = readDigits rest (dec k n) := by
  induction n using Nat.strongRecOn generalizing rest k with
  | _ n ih =>
    rw [encNat, dec]
    split
    · rename_i h
      obtain ⟨a, b⟩ := digit_table n h
      simp only [List.cons_append, List.nil_append, readDigits, a, ↓reduceIte, b]
    · rename_i h
      obtain ⟨a, b⟩ := digit_table (n % 10) (Nat.mod_lt _ (by omega))
      rw [List.append_assoc, ih (n / 10) (by omega)]
      simp only [List.cons_append, List.nil_append, readDigits, a, ↓reduceIte, b]

theorem encNat_head (n : Nat) : ∃ c cs, encNat n = c :: cs ∧ isDigit c = true := by
  induction n using Nat.strongRecOn with
  | _ n ih =>
    rw [encNat]
    split
    · rename_i h
      exact ⟨_, [], rfl, (digit_table n h).1⟩
    · rename_i h
      obtain ⟨c, cs, e, hd⟩ := ih (n / 10) (by omega)
      exact ⟨c, cs ++ [Char.ofNat (48 + n % 10)], by rw [e]; rfl, hd⟩

/-- what may follow a number in the encoder's output -/
def NoDigit (rest : List Char) : Prop := ∀ c cs, rest = c :: cs → isDigit c = false

theorem readDigits_stop (rest : List Char) (k : Nat) (h : NoDigit rest) : readDigits rest k = (rest, k) := by
  cases rest with
  | nil => rfl
  | cons c cs => simp [readDigits, h c cs rfl]

/-- **a number survives** -/
theorem readVal_encNat (n : Nat) (rest : List Char) (h : NoDigit rest) :
    readVal (encNat n ++ rest) = some (.num n, rest) := by
  obtain ⟨c, cs, e, hd⟩ := encNat_head n
  have hq : c ≠ '"' := by intro h; subst h; simp [isDigit] at hd
  have : readNat (encNat n ++ rest) = some (n, rest) := by
    have h2 := readDigits_encNat n rest 0
    rw [dec_zero, readDigits_stop rest n h] at h2
    rw [e] at h2 ⊢
    simp only [List.cons_append, readNat, hd, ↓reduceIte] at h2 ⊢
    rw [h2]
  rw [e] at this ⊢
  simp only [List.cons_append] at this ⊢
  unfold readVal
  split
  · rename_i h'; cases h'; exact absurd rfl hq
  · rw [this]; rfl

/-! ### records -/

theorem readMembers_comma (fuel : Nat) (kk encV : List Char) (v : Val) (rest : List Char) (acc : List (List Char × Val))
    (hv : readVal (encV ++ ',' :: rest) = some (v, ',' :: rest)) :
    readMembers (fuel + 1) (encStr kk ++ ':' :: (encV ++ ',' :: rest)) acc = readMembers fuel rest (acc ++ [(kk, v)]) := by
  simp only [encStr, List.cons_append, List.append_assoc, List.nil_append, readMembers, readStr_encBody, hv]

theorem readMembers_close (fuel : Nat) (kk encV : List Char) (v : Val) (rest : List Char) (acc : List (List Char × Val))
    (hv : readVal (encV ++ '}' :: rest) = some (v, '}' :: rest)) :
    readMembers (fuel + 1) (encStr kk ++ ':' :: (encV ++ '}' :: rest)) acc = some (acc ++ [(kk, v)], rest) := by
  simp only [encStr, List.cons_append, List.append_assoc, List.nil_append, readMembers, readStr_encBody, hv]

theorem noDigit_comma (rest : List Char) : NoDigit (',' :: rest) := by
  intro c cs h; cases h; decide
theorem noDigit_brace (rest : List Char) : NoDigit ('}' :: rest) := by
  intro c cs h; cases h; decide

/-- a record without its opening brace -/
def body (f : Fields) : List Char :=
  key "message" ++ encStr f.message ++
  (if f.filepath = [] then [] else ',' :: key "filepath" ++ encStr f.filepath) ++
  ',' :: key "line" ++ encNat f.line ++
  ',' :: key "column" ++ encNat f.column ++
  ',' :: key "kind" ++ encStr f.kind ++
  (if f.snippet = [] then [] else ',' :: key "snippet" ++ encStr f.snippet) ++
  ',' :: key "end_column" ++ encNat f.endColumn ++ ['}']

theorem encFields_eq (f : Fields) : encFields f = '{' :: body f := rfl

/-- the members the reader must find -/
def members (f : Fields) : List (List Char × Val) :=
  [("message".toList, .str f.message)] ++
  (if f.filepath = [] then [] else [("filepath".toList, .str f.filepath)]) ++
  [("line".toList, .num f.line), ("column".toList, .num f.column), ("kind".toList, .str f.kind)] ++
  (if f.snippet = [] then [] else [("snippet".toList, .str f.snippet)]) ++
  [("end_column".toList, .num f.endColumn)]

theorem readMembers_body (f : Fields) (rest : List Char) (k : Nat) :
    readMembers (k + 7) (body f ++ rest) [] = some (members f, rest) := by
  have hs := fun (s r : List Char) => readVal_encStr s r
  have hc := fun (n : Nat) (r : List Char) => readVal_encNat n (',' :: r) (noDigit_comma r)
  have hb := fun (n : Nat) (r : List Char) => readVal_encNat n ('}' :: r) (noDigit_brace r)
  obtain ⟨msg, fp, line, col, kind, snip, ec⟩ := f
  by_cases h1 : fp = [] <;> by_cases h2 : snip = []
  · simp only [body, members, key, h1, h2, ↓reduceIte, List.append_assoc, List.cons_append, List.nil_append, List.append_nil]
    rw [readMembers_comma _ _ _ _ _ _ (hs _ _), readMembers_comma _ _ _ _ _ _ (hc _ _), readMembers_comma _ _ _ _ _ _ (hc _ _),
      readMembers_comma _ _ _ _ _ _ (hs _ _), readMembers_close _ _ _ _ _ _ (hb _ _)]
    rfl
  · simp only [body, members, key, h1, h2, ↓reduceIte, List.append_assoc, List.cons_append, List.nil_append, List.append_nil]
    rw [readMembers_comma _ _ _ _ _ _ (hs _ _), readMembers_comma _ _ _ _ _ _ (hc _ _), readMembers_comma _ _ _ _ _ _ (hc _ _),
      readMembers_comma _ _ _ _ _ _ (hs _ _), readMembers_comma _ _ _ _ _ _ (hs _ _), readMembers_close _ _ _ _ _ _ (hb _ _)]
    rfl
  · simp only [body, members, key, h1, h2, ↓reduceIte, List.append_assoc, List.cons_append, List.nil_append, List.append_nil]
    rw [readMembers_comma _ _ _ _ _ _ (hs _ _), readMembers_comma _ _ _ _ _ _ (hs _ _), readMembers_comma _ _ _ _ _ _ (hc _ _),
      readMembers_comma _ _ _ _ _ _ (hc _ _), readMembers_comma _ _ _ _ _ _ (hs _ _), readMembers_close _ _ _ _ _ _ (hb _ _)]
    rfl
  · simp only [body, members, key, h1, h2, ↓reduceIte, List.append_assoc, List.cons_append, List.nil_append, List.append_nil]
    rw [readMembers_comma _ _ _ _ _ _ (hs _ _), readMembers_comma _ _ _ _ _ _ (hs _ _), readMembers_comma _ _ _ _ _ _ (hc _ _),
      readMembers_comma _ _ _ _ _ _ (hc _ _), readMembers_comma _ _ _ _ _ _ (hs _ _), readMembers_comma _ _ _ _ _ _ (hs _ _),
      readMembers_close _ _ _ _ _ _ (hb _ _)]
    rfl

theorem fieldsOf_members (f : Fields) : fieldsOf (members f) = some f := by
  obtain ⟨msg, fp, line, col, kind, snip, ec⟩ := f
  by_cases h1 : fp = [] <;> by_cases h2 : snip = [] <;>
    simp [members, h1, h2, fieldsOf, lookup, strOf, numOf, List.find?]

theorem body_long (f : Fields) (rest : List Char) : ∃ k, (body f ++ rest).length + 1 = k + 7 := by
  have : (encStr "message".toList).length = 9 := by decide
  refine ⟨(body f ++ rest).length + 1 - 7, ?_⟩
  simp only [body, key, List.length_append, List.length_cons, this]
  omega

/-- **a record survives**: all seven fields, the optional ones empty exactly when they were empty -/
theorem readObj_encFields (f : Fields) (rest : List Char) : readObj (encFields f ++ rest) = some (f, rest) := by
  obtain ⟨k, hk⟩ := body_long f rest
  simp only [encFields_eq, List.cons_append, readObj, hk, readMembers_body, fieldsOf_members, Option.map_some]

/-! ### the whole output -/

theorem readElems_encElems (f : Fields) (fs : List Fields) : ∀ (k : Nat) (acc : List Fields),
    readElems (k + (f :: fs).length) (encElems (f :: fs) ++ [']', '\n']) acc = some (acc ++ f :: fs) := by
  induction fs generalizing f with
  | nil =>
    intro k acc
    simp only [encElems, List.length_cons, List.length_nil, Nat.zero_add, readElems, readObj_encFields]
  | cons g gs ih =>
    intro k acc
    have := ih g k (acc ++ [f])
    simp only [List.length_cons] at this ⊢
    rw [show k + (gs.length + 1 + 1) = (k + (gs.length + 1)) + 1 by omega]
    simp only [encElems, List.append_assoc, List.cons_append]
    rw [readElems, readObj_encFields]
    simp only [this, List.append_assoc, List.cons_append, List.nil_append]

theorem encElems_length (fs : List Fields) : fs.length ≤ (encElems fs).length := by
  induction fs with
  | nil => simp [encElems]
  | cons f fs ih =>
    cases fs with
    | nil => simp [encElems, encFields_eq]
    | cons g gs =>
      simp only [encElems, List.length_append, List.length_cons] at ih ⊢
      omega

/-- **C16, `{{json .}}` round trip.** Reading what the encoder wrote for a list of diagnostics gives back exactly that
list — every field of every diagnostic, in order, for all strings and numbers. -/
theorem json_roundtrip (fs : List Fields) : readAll (encAll fs) = some fs := by
  cases fs with
  | nil => rfl
  | cons f fs =>
    have hl := encElems_length (f :: fs)
    obtain ⟨k, hk⟩ : ∃ k, (encElems (f :: fs) ++ [']', '\n']).length + 1 = k + (f :: fs).length :=
      ⟨(encElems (f :: fs) ++ [']', '\n']).length + 1 - (f :: fs).length, by
        simp only [List.length_append, List.length_cons, List.length_nil] at hl ⊢; omega⟩
    have hb : ∃ r, encElems (f :: fs) ++ [']', '\n'] = '{' :: r := by
      cases fs with
      | nil => exact ⟨_, by simp only [encElems, encFields_eq, List.cons_append]; rfl⟩
      | cons g gs => exact ⟨_, by simp only [encElems, encFields_eq, List.cons_append]; rfl⟩
    have h := readElems_encElems f fs k []
    rw [← hk] at h
    simp only [encAll, List.cons_append]
    obtain ⟨r, hr⟩ := hb
    rw [hr] at h ⊢
    simp only [readAll]
    exact h

/-- two different lists of diagnostics never render alike -/
theorem json_injective (a b : List Fields) (h : encAll a = encAll b) : a = b := by
  have := json_roundtrip a
  rw [h, json_roundtrip b] at this
  exact (Option.some.inj this).symm

/-! ### one line -/

theorem hex_no_lf : ∀ n, n < 128 → hexDigit (n / 16) ≠ '\n' ∧ hexDigit (n % 16) ≠ '\n' := by decide +kernel

theorem encChar_no_lf (c : Char) : '\n' ∉ encChar c := by
  unfold encChar
  split
  · decide
  split
  · decide
  split
  · decide
  split
  · decide
  split
  · decide
  split
  · decide
  split
  · decide
  split
  · rename_i h
    have hn : c.toNat < 128 := by
      rcases h with h | h | h | h
      · omega
      · subst h; decide
      · subst h; decide
      · subst h; decide
    obtain ⟨a, b⟩ := hex_no_lf c.toNat hn
    simp only [List.mem_cons, List.not_mem_nil, or_false, not_or]
    exact ⟨by decide, by decide, by decide, by decide, fun e => a e.symm, fun e => b e.symm⟩
  split
  · decide
  split
  · decide
  · rename_i h _ _ _ _ _
    simp only [List.mem_cons, List.not_mem_nil, or_false]
    exact fun e => h e.symm

theorem encStr_no_lf (s : List Char) : '\n' ∉ encStr s := by
  have : '\n' ∉ encBody s := by
    induction s with
    | nil => simp [encBody]
    | cons c cs ih => simp only [encBody, List.mem_append, not_or]; exact ⟨encChar_no_lf c, ih⟩
  simp [encStr, this]

theorem digit_no_lf : ∀ m, m < 10 → Char.ofNat (48 + m) ≠ '\n' := by decide +kernel

theorem encNat_no_lf (n : Nat) : '\n' ∉ encNat n := by
  induction n using Nat.strongRecOn with
  | _ n ih =>
    rw [encNat]
    split
    · rename_i h
      simp only [List.mem_cons, List.not_mem_nil, or_false]
      exact fun e => digit_no_lf n h e.symm
    · rename_i h
      simp only [List.mem_append, List.mem_cons, List.not_mem_nil, or_false, not_or]
      exact ⟨ih (n / 10) (by omega), fun e => digit_no_lf (n % 10) (Nat.mod_lt _ (by omega)) e.symm⟩

theorem key_no_lf (k : String) : '\n' ∉ key k := by
  simp only [key, List.mem_append, List.mem_cons, List.not_mem_nil, or_false, not_or]
  exact ⟨encStr_no_lf _, by decide⟩

theorem encFields_no_lf (f : Fields) : '\n' ∉ encFields f := by
  have hs := encStr_no_lf
  have hn := encNat_no_lf
  have hk := key_no_lf
  have c1 : '\n' ≠ ',' := by decide
  have c2 : '\n' ≠ '{' := by decide
  have c3 : '\n' ≠ '}' := by decide
  by_cases h1 : f.filepath = [] <;> by_cases h2 : f.snippet = [] <;>
    simp [encFields, h1, h2, hs, hn, hk, c1, c2, c3]

theorem encElems_no_lf (fs : List Fields) : '\n' ∉ encElems fs := by
  induction fs with
  | nil => simp [encElems]
  | cons f fs ih =>
    cases fs with
    | nil => simpa [encElems] using encFields_no_lf f
    | cons g gs =>
      simp only [encElems, List.mem_append, List.mem_cons, not_or] at ih ⊢
      exact ⟨encFields_no_lf f, by decide, ih⟩

/-- **one line**: whatever the messages contain, the output is a single line — its only line feed is its last character -/
theorem json_one_line (fs : List Fields) : ∃ line, encAll fs = line ++ ['\n'] ∧ '\n' ∉ line := by
  refine ⟨'[' :: encElems fs ++ [']'], by simp [encAll], ?_⟩
  simp only [List.cons_append, List.mem_cons, List.mem_append, List.not_mem_nil, or_false, not_or]
  exact ⟨by decide, encElems_no_lf fs, by decide⟩

def exFields : Fields :=
  { message := "a\"<b>\n\\ é".toList, filepath := [], line := 12, column := 3, kind := "k".toList, snippet := "x\n^~".toList, endColumn := 4 }

example : readAll (encAll [exFields, exFields]) = some [exFields, exFields] := json_roundtrip _

end AL.C16J
