import AL.Model.Parser
import AL.Spec.ExprLexical
/-
  C04 (lexical half) — statements about the lexer model; proved theorems are added below by name.
-/
namespace AL.C04
open AL AL.Lex AL.Parse AL.Spec

/-- a token stream as the lexer produces it: exactly one END, at the end -/
def WellEndedL (ts : List ATok) : Prop :=
  ∃ init last, ts = init ++ [last] ∧ last.tok.kind = .end ∧ ∀ t ∈ init, t.tok.kind ≠ .end

/-- (g) lexer soundness: every token is spelled as the lexical grammar says -/
def lex_spelling_statement : Prop :=
  ∀ (src : List Sym) (a : ATok), a ∈ tokens src → a.err = none → Spelling a.tok.kind a.tok.val

/-- (h) the token stream always ends with END (the fuel `src.length + 2` of `tokens` suffices) and has no
END before that -/
def lex_well_ended_statement : Prop :=
  ∀ (src : List Sym), WellEndedL (tokens src)

/-- (i) exactly one syntax error, positioned within the text: the byte offset of a reported error
never exceeds the length of the source -/
def error_inside_statement : Prop :=
  ∀ (src : List Sym), (∀ s ∈ src, s.bad = false) →
    match parseToks (tokens src) with
    | .ok _ => True
    | .error (.lex e) => e.pos.off ≤ (src.map (·.w)).sum
    | .error (.parse e) => e.off ≤ (src.map (·.w)).sum

/-- interleave whitespace gaps and token texts: g₀ t₀ g₁ t₁ … -/
def interleave : List (List Sym) → List Tok → List Sym
  | g :: gs, t :: ts => g ++ t.val ++ interleave gs ts
  | _, _ => []

/-- (j) tokens tile the source: the consumed prefix of the source is exactly whitespace gaps interleaved
with the token texts (no character is dropped or invented), for sources the lexer accepts and that do
not start with a BOM; `off` is the number of bytes consumed. -/
def lex_tiles_statement : Prop :=
  ∀ (src : List Sym) (ts : List Tok) (off : Nat), lexExpression src = .ok (ts, off) →
    (src.head?.map (·.r) ≠ some 0xFEFF) →
    ∃ gaps : List (List Sym), gaps.length = ts.length ∧ (∀ g ∈ gaps, ∀ s ∈ g, isWhitespace s.r = true) ∧
      interleave gaps ts <+: src ∧ ((interleave gaps ts).map (·.w)).sum = off

/-- (k) token positions: `off` of every token is the byte offset of its first character, and for a
one-line ASCII source `col = off + 1`, `line = 1` -/
def lex_positions_statement : Prop :=
  ∀ (src : List Sym) (ts : List Tok) (off : Nat), lexExpression src = .ok (ts, off) →
    (∀ s ∈ src, s.w = 1 ∧ s.r ≠ 10 ∧ s.bad = false) →
    ∀ t ∈ ts, t.line = 1 ∧ t.col = t.off + 1 ∧ (src.drop t.off).take t.val.length = t.val

end AL.C04
