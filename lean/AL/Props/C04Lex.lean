import AL.Model.Parser
import AL.Spec.ExprLexical
import AL.Lemmas.LexerStream
import AL.Lemmas.LexerJson
/-
  C04 (lexical half) — statements about the lexer model; proved theorems are added below by name.
-/
namespace AL.C04
open AL AL.Lex AL.Parse AL.Spec

/-- a token stream as the lexer produces it: exactly one END, at the end -/
def WellEndedL (ts : List ATok) : Prop :=
  ∃ init last, ts = init ++ [last] ∧ last.tok.kind = .end ∧ ∀ t ∈ init, t.tok.kind ≠ .end

/-- (g) lexer soundness: every token is spelled as the lexical grammar says -/
def lex_spelling_statement : Prop :=
  ∀ (src : List Sym) (a : ATok), a ∈ tokens src → a.err = none → Spelling a.tok.kind a.tok.val

/-- (h) the token stream always ends with END (the fuel `src.length + 2` of `tokens` suffices) and has no
END before that -/
def lex_well_ended_statement : Prop :=
  ∀ (src : List Sym), WellEndedL (tokens src)

/-- (i) exactly one syntax error, positioned within the text: the byte offset of a reported error
never exceeds the length of the source -/
def error_inside_statement : Prop :=
  ∀ (src : List Sym), (∀ s ∈ src, s.bad = false) →
    match parseToks (tokens src) with
    | .ok _ => True
    | .error (.lex e) => e.pos.off ≤ (src.map (·.w)).sum
    | .error (.parse e) => e.off ≤ (src.map (·.w)).sum

/-- interleave whitespace gaps and token texts: g₀ t₀ g₁ t₁ … -/
def interleave : List (List Sym) → List Tok → List Sym
  | g :: gs, t :: ts => g ++ t.val ++ interleave gs ts
  | _, _ => []

/-- (j) tokens tile the source: the consumed prefix of the source is exactly whitespace gaps interleaved
with the token texts (no character is dropped or invented), for sources the lexer accepts and that do
not start with a BOM; `off` is the number of bytes consumed. -/
def lex_tiles_statement : Prop :=
  ∀ (src : List Sym) (ts : List Tok) (off : Nat), lexExpression src = .ok (ts, off) →
    (src.head?.map (·.r) ≠ some 0xFEFF) →
    ∃ gaps : List (List Sym), gaps.length = ts.length ∧ (∀ g ∈ gaps, ∀ s ∈ g, isWhitespace s.r = true) ∧
      interleave gaps ts <+: src ∧ ((interleave gaps ts).map (·.w)).sum = off

/-- (k) token positions: `off` of every token is the byte offset of its first character, and for a
one-line ASCII source `col = off + 1`, `line = 1` -/
def lex_positions_statement : Prop :=
  ∀ (src : List Sym) (ts : List Tok) (off : Nat), lexExpression src = .ok (ts, off) →
    (∀ s ∈ src, s.w = 1 ∧ s.r ≠ 10 ∧ s.bad = false) →
    ∀ t ∈ ts, t.line = 1 ∧ t.col = t.off + 1 ∧ (src.drop t.off).take t.val.length = t.val

/-! ## Proofs -/

/-- concrete sources for the examples -/
def ascii (s : String) : List Sym := s.toList.map fun c => ⟨c.toNat, 1, false⟩
def demo : List Sym := ascii "a.b-c == 'it''s' && 0x1F >= -1.5e-3 }}"
/-- U+FEFF (3 bytes) followed by `a` -/
def bomA : List Sym := [⟨0xFEFF, 3, false⟩, ⟨97, 1, false⟩]

deriving instance DecidableEq for Except

/-- what the lexer returns on `demo`: kinds, byte offsets of the tokens, bytes consumed -/
example : (lexExpression demo).toOption.map (fun r => (r.1.map (·.kind), r.1.map (·.off), r.2)) =
    some ([.ident, .dot, .ident, .eq, .string, .and, .int, .greaterEq, .float, .end],
          [0, 1, 2, 6, 9, 17, 20, 25, 28, 36], 38) := by decide +kernel

/-! ### (g) -/

/-- (g) as stated is FALSE: a leading byte-order mark U+FEFF is skipped by `text/scanner`, but the first
token's text is `src[start.Offset:…]` with `start.Offset = 0`, so the BOM becomes part of the first token
(unless whitespace follows it). Witness: the source `U+FEFF a`: the first token is IDENT with text
`"\uFEFFa"`, no error recorded yet, and `U+FEFF` is not an identifier start. -/
theorem lex_spelling_counterexample : ¬ lex_spelling_statement := by
  intro h
  have hs := h bomA ⟨⟨.ident, bomA, 0, 1, 1⟩, none, 4⟩ (by decide +kernel) rfl
  obtain ⟨c, cs, h1, h2, -⟩ := hs
  simp [runes, bomA] at h1
  obtain ⟨rfl, -⟩ := h1
  simp [isAlpha] at h2

example : tokens bomA =
    [⟨⟨.ident, bomA, 0, 1, 1⟩, none, 4⟩,
     ⟨⟨.end, [], 4, 1, 3⟩, some ⟨.unexpectedEOF, ⟨1, 3, 4⟩⟩, 4⟩] := by decide +kernel

/-- (g), corrected and strengthened: for a source that does not start with a BOM, *every* token of the
stream (also those produced after an error was recorded: errors never influence which characters go into a
token, and the pseudo-token returned on errors is the empty END) is spelled as the lexical grammar says;
moreover an END token without recorded error is spelled `}}` (the empty END always carries an error). -/
def lex_spelling_statement' : Prop :=
  ∀ (src : List Sym) (a : ATok), ¬ StartsWithBOM src → a ∈ tokens src →
    Spelling a.tok.kind a.tok.val ∧ (a.tok.kind = .end → a.err = none → runes a.tok.val = [125, 125])

theorem lex_spelling' : lex_spelling_statement' := by
  intro src a hb ha
  exact lexAll_spelling _ _ (lexInit_buf hb) a ha

example : ¬ StartsWithBOM demo ∧ (tokens demo).length = 10 ∧ ∀ a ∈ tokens demo, a.err = none := by
  refine ⟨?_, by decide +kernel, by decide +kernel⟩
  rintro ⟨c, rest, h, hc, -⟩
  have : (demo.head?.map (·.r)) = some 97 := by decide +kernel
  rw [h] at this; simp [hc] at this

/-- the tokens `LexExpression` returns on success are spelled according to the grammar, the last one is `}}` -/
theorem lexExpression_spelling (src : List Sym) (ts : List Tok) (off : Nat) (hb : ¬ StartsWithBOM src)
    (h : lexExpression src = .ok (ts, off)) :
    ∀ t ∈ ts, Spelling t.kind t.val ∧ (t.kind = .end → runes t.val = [125, 125]) := by
  intro t ht
  rcases go_mem _ _ _ _ h t ht with h1 | ⟨a, ha, rfl, hae⟩
  · simp at h1
  · have := lex_spelling' src a hb ha
    exact ⟨this.1, fun hk => this.2 hk hae⟩

/-! ### (h) -/

theorem lex_well_ended : lex_well_ended_statement := by
  intro src
  exact lexAll_wellEnded _ _ (by have := lexInit_remaining src; omega)

example : WellEndedL (tokens demo) ∧ ((tokens demo).map (·.tok.kind)).getLast? = some .end :=
  ⟨lex_well_ended demo, by decide +kernel⟩

/-! ### (j) -/

theorem interleave_eq_weave : ∀ (gs : List (List Sym)) (ts : List Tok), interleave gs ts = weave gs ts
  | [], _ => by simp [interleave, weave]
  | _ :: _, [] => by simp [interleave, weave]
  | g :: gs, t :: ts => by simp [interleave, weave, interleave_eq_weave gs ts]

theorem lex_tiles : lex_tiles_statement := by
  intro src ts off h hbom
  have hb : ¬ StartsWithBOM src := by
    rintro ⟨c, rest, rfl, hc, -⟩
    simp [hc] at hbom
  obtain ⟨gaps, toks, h1, h2, h3, h4, h5⟩ :=
    go_tiles (src.length + 2) (lexInit src) [] [] ts off (LInv.init src) (lexInit_buf hb)
      (by have := lexInit_remaining src; omega) h
  simp only [List.nil_append] at h1 h4 h5
  subst h1
  refine ⟨gaps, h2, h3, ?_, ?_⟩
  · rw [interleave_eq_weave]; exact h4
  · rw [interleave_eq_weave]; exact h5

/-- the gaps for `demo`: one space before `==`, `'it''s'`, `&&`, `0x1F`, `>=`, `-1.5e-3`, `}}` -/
example : ∃ ts, lexExpression demo = .ok (ts, 38) ∧ demo.head?.map (·.r) ≠ some 0xFEFF ∧
    interleave [[], [], [], ascii " ", ascii " ", ascii " ", ascii " ", ascii " ", ascii " ", ascii " "] ts = demo := by
  refine ⟨(tokens demo).map (·.tok), by decide +kernel, by decide +kernel, by decide +kernel⟩

/-- without the hypothesis the statement fails: in `U+FEFF ␠ a }}` the BOM is dropped together with the blank -/
example : ∃ ts, lexExpression (⟨0xFEFF, 3, false⟩ :: ascii " a }}") = .ok (ts, 8) ∧ ts.map (·.val) = [ascii "a", ascii "}}"] :=
  ⟨(tokens (⟨0xFEFF, 3, false⟩ :: ascii " a }}")).map (·.tok), by decide +kernel, by decide +kernel⟩

/-! ### (k) -/

theorem lex_positions : lex_positions_statement := by
  intro src ts off h hflat t ht
  have hf : Flat src := hflat
  obtain ⟨d, ⟨r, hpre⟩, hoff, hpos⟩ :=
    go_placed (src.length + 2) (lexInit src) [] [] ts off (LInv.init src)
      (by have := lexInit_remaining src; omega) (by simp) h t ht
  have hd : Flat d := by
    apply Flat.of_append_left (b := t.val ++ r); rw [← List.append_assoc, hpre]; exact hf
  have hoff' : t.off = d.length := by rw [hoff, hd.bytes_eq]
  obtain ⟨hl, hc⟩ := hpos hf
  refine ⟨hl, by omega, ?_⟩
  rw [hoff', ← hpre, List.append_assoc, List.drop_left, List.take_left]

example : ∃ ts, lexExpression demo = .ok (ts, 38) ∧ (∀ s ∈ demo, s.w = 1 ∧ s.r ≠ 10 ∧ s.bad = false) ∧
    ts.map (fun t => (t.line, t.col, t.off)) =
      [(1,1,0), (1,2,1), (1,3,2), (1,7,6), (1,10,9), (1,18,17), (1,21,20), (1,26,25), (1,29,28), (1,37,36)] :=
  ⟨(tokens demo).map (·.tok), by decide +kernel, by decide +kernel, by decide +kernel⟩

/-- general form of (k) without the one-line-ASCII hypothesis: `off` is the byte length of the text in front
of the token and the token text is the source text at that place -/
theorem lex_offsets (src : List Sym) (ts : List Tok) (off : Nat) (h : lexExpression src = .ok (ts, off)) :
    ∀ t ∈ ts, ∃ d, d ++ t.val <+: src ∧ t.off = bytes d := by
  intro t ht
  obtain ⟨d, hpre, hoff, -⟩ :=
    go_placed (src.length + 2) (lexInit src) [] [] ts off (LInv.init src)
      (by have := lexInit_remaining src; omega) (by simp) h t ht
  exact ⟨d, hpre, hoff⟩

/-! ### (m) completeness of `Next` for one token -/

/-- (m) If, after blanks `gap`, the unread input starts with a correctly spelled token `val` of kind `k`
and the character after it cannot extend the token (`extendsTok`: an identifier character after an
identifier, an alphanumeric character after a number -- which would make the lexer reject the number --,
`.` after an integer, `'` after a string, `=` after `!`, `<`, `>`), then `Next` returns exactly that token,
leaves exactly `rest` unread, and records no error if none was recorded before and the characters it reads
(up to and including the look-ahead after the token) are neither NUL nor invalid UTF-8. -/
def lex_complete_statement : Prop :=
  ∀ (st : LexState) (k : TokKind) (gap val rest : List Sym),
    Spelling k val → val ≠ [] → st.buf = [] → st.scan.unread = gap ++ val ++ rest →
    (∀ s ∈ gap, isWhitespace s.r = true) → extendsTok k (nxt rest) = false →
    (lexNext st).1.kind = k ∧ (lexNext st).1.val = val ∧
    (lexNext st).2.scan.unread = rest ∧ (lexNext st).2.buf = [] ∧
    (st.err = none → (∀ d ∈ (gap ++ val ++ rest.head?.toList).tail, Clean d) → (lexNext st).2.err = none)

theorem lex_complete : lex_complete_statement :=
  fun _ _ _ _ _ hs hne hb hu hg hext => lexNext_complete' hs hne hb hu hg hext

/-- `  abc-1)`: two blanks, the identifier `abc-1`, then `)` -/
example : let st := lexInit (ascii "  abc-1)")
    Spelling .ident (ascii "abc-1") ∧ st.buf = [] ∧ st.scan.unread = ascii "  " ++ ascii "abc-1" ++ ascii ")" ∧
    extendsTok .ident (nxt (ascii ")")) = false ∧ st.err = none ∧
    (lexNext st).1 = ⟨.ident, ascii "abc-1", 2, 1, 3⟩ ∧ (lexNext st).2.err = none := by
  refine ⟨⟨97, [98, 99, 45, 49], by decide +kernel, .inl (by decide +kernel), by decide +kernel⟩,
    by decide +kernel, by decide +kernel, by decide +kernel, by decide +kernel, by decide +kernel, by decide +kernel⟩

/-- the side condition is needed: `1.` is not INT `1` followed by `.` but an error, `a-` is one identifier -/
example : lexExpression (ascii "1.a }}") = .error (⟨.unexpected (some 97) .fracPart, ⟨1, 3, 2⟩⟩, 2) ∧
    (lexExpression (ascii "a-1 }}")).toOption.map (fun r => r.1.map (·.val)) = some [ascii "a-1", ascii "}}"] :=
  ⟨by decide +kernel, by decide +kernel⟩

/-! ### (l) the JSON-number gap -/

example : lexExpression (ascii "1e+5 }}") = .error (⟨.unexpected (some 43) .expPart, ⟨1, 3, 2⟩⟩, 2) := by
  decide +kernel
example : lexExpression (ascii "1e05 }}") = .error (⟨.unexpected (some 53) .afterNumber, ⟨1, 4, 3⟩⟩, 3) := by
  decide +kernel
example : (lexExpression (ascii "-1.50E-0 }}")).toOption.map (fun r => r.1.map (fun t => (t.kind, t.val))) =
    some [(.float, ascii "-1.50E-0"), (.end, ascii "}}")] := by decide +kernel

/-- (l) Exactly two kinds of RFC 8259 numbers (`JsonParts`: `-? (0|[1-9][0-9]*) (\.[0-9]+)? ([eE][+-]?[0-9]+)?`)
are not numbers of the expression syntax: those with a `+` sign in the exponent (`1e+5`) and those whose
exponent has a leading zero followed by more digits (`1e05`). -/
def json_gap_statement : Prop :=
  ∀ (p : JsonParts) (l : List Sym), p.WF → runes l = p.spell → (∀ d ∈ l, Clean d) →
    ((∃ ts off, lexExpression (l ++ ascii " }}") = .ok (ts, off)) ↔ ¬ p.expPlus ∧ ¬ p.expLeadingZero)

theorem json_gap : json_gap_statement := by
  intro p l hp hl hcl
  constructor
  · rintro ⟨ts, off, hok⟩
    refine ⟨fun h => ?_, fun h => ?_⟩
    · obtain ⟨e, he⟩ := json_gap_error hp hl (.inl h) (ascii " }}"); rw [he] at hok; cases hok
    · obtain ⟨e, he⟩ := json_gap_error hp hl (.inr h) (ascii " }}"); rw [he] at hok; cases hok
  · rintro ⟨h1, h2⟩
    obtain ⟨ts, off, h, -⟩ := json_ok hp hl h1 h2 hcl
    exact ⟨ts, off, h⟩

/-- the rejected forms are rejected whatever follows the number … -/
theorem json_gap_rejected (p : JsonParts) (l rest : List Sym) (hp : p.WF) (hl : runes l = p.spell)
    (h : p.expPlus ∨ p.expLeadingZero) : ∃ e, lexExpression (l ++ rest) = .error e :=
  json_gap_error hp hl h rest

/-- … and all other JSON numbers are lexed as a single INT (no fraction, no exponent) or FLOAT token -/
theorem json_gap_accepted (p : JsonParts) (l : List Sym) (hp : p.WF) (hl : runes l = p.spell)
    (h1 : ¬ p.expPlus) (h2 : ¬ p.expLeadingZero) (hcl : ∀ d ∈ l, Clean d) :
    ∃ ts off, lexExpression (l ++ ascii " }}") = .ok (ts, off) ∧
      ts.map (fun t => (t.kind, t.val)) = [(p.kind, l), (.end, ascii "}}")] :=
  json_ok hp hl h1 h2 hcl

/-- `1e+5` and `1e05` are JSON numbers of the two rejected forms -/
example : (⟨[], [49], [], [101], [43], [53]⟩ : JsonParts).WF ∧
    runes (ascii "1e+5") = (⟨[], [49], [], [101], [43], [53]⟩ : JsonParts).spell ∧
    (⟨[], [49], [], [101], [43], [53]⟩ : JsonParts).expPlus :=
  ⟨⟨.inl rfl, .inr ⟨49, [], rfl, by decide, by decide, by simp⟩, .inl rfl,
    .inr ⟨.inl rfl, .inr (.inl rfl), by simp, by simp [isNum]⟩⟩, by decide +kernel, rfl⟩

example : (⟨[], [49], [], [101], [], [48, 53]⟩ : JsonParts).WF ∧
    runes (ascii "1e05") = (⟨[], [49], [], [101], [], [48, 53]⟩ : JsonParts).spell ∧
    (⟨[], [49], [], [101], [], [48, 53]⟩ : JsonParts).expLeadingZero :=
  ⟨⟨.inl rfl, .inr ⟨49, [], rfl, by decide, by decide, by simp⟩, .inl rfl,
    .inr ⟨.inl rfl, .inl rfl, by simp, by simp [isNum]⟩⟩, by decide +kernel, ⟨53, [], rfl⟩⟩

end AL.C04
