import AL.Props.C12Rule
import AL.Props.C11
import AL.Lemmas.SemaAvail
import AL.Props.C05Scope
import AL.Model.Facts
/-
  C11 on the model of rule_expression.go (AL.RuleExpr): script-injection detection AT WORKFLOW LEVEL.

  AL.Props.C11 is the expression level: WHICH expressions are untrusted (`machine_eq_spec`). Here: WHERE the untrusted
  input check is switched on. The rule has one flag (`checkString` = off, `checkScriptString` = on); a diagnostic of the
  untrusted-input check has the code `"untrusted"` (`checkParsed`) and no other producer of the rule uses that code.

    §0  the code: `sema.check` never emits it (`check_noUE`); flag off ⇒ `checkExprsIn` is free of it (`checkExprsIn_false_noUE`)
    §1  `scriptStrs lower w` — a step's `run:`, the `script` input of a step whose `uses:`, folded with the rule's
        `lower`, starts with `actions/github-script@` — from the documentation; `scriptStrs_sub_valueStrs`,
        `scriptKStrs_sub_keyedStrs`
    §2  precision: `untrusted_only_in_scripts` (every checkX of the rule bottom-up: `…_noU`, `…_loc`)
    §3  completeness: `script_scanned_with_flag_on` (inclusion form), `every_script_checked_L` (sharp form);
    §3a both in one equation, in order and with multiplicity: `rule_untrusted_exact`;
    §3b `${{ github.event.issue.title }}` is untrusted in every scope under every key (`title_untrusted`; side condition
        `KeepsTitle lower`, needed: `untrusted_needs_the_folding`);
    §3c `run_title_reported`, `github_script_title_reported` for EVERY workflow; in a concrete scope the same text is
        silent in `env:` and flagged in `run:` (`env_title_clean`, `run_title_flagged`, `run_key_flag_off_clean`)
    §4  the known limit `placeholders-after-first-diagnostic`, exactly: `untrusted_reported_iff`,
        `kth_placeholder_reported`, `scan_diags_from_first_bad`; `second_untrusted_input_lost` for every scope
    §5  the code's criterion is the documented any-letter-case one for an ASCII-lower-casing `lower`
        (`scriptStrs_eq_doc`, `untrusted_only_in_documented_scripts`, `every_documented_script_checked`); concrete
        workflows; the former defect (action name compared as written: found here, repaired in the Go code) as a
        regression theorem: `github_script_any_case_reported`, `github_script_other_case_flagged`
    §6  instances of the theorems with hypotheses
-/
namespace AL.C11R
open AL AL.Ast AL.Sema AL.RuleExpr AL.C03R

/-! ## 0. the code of the untrusted-input diagnostic; who can produce it -/

/-- the code `checkParsed` gives the diagnostics of the untrusted-input machine -/
def untrustedCode : String := "untrusted"

/-- a diagnostic of the untrusted-input check -/
def isUntrusted (d : Diag) : Prop := d.code = "untrusted"

instance : DecidablePred isUntrusted := fun d => inferInstanceAs (Decidable (d.code = "untrusted"))

/-- no diagnostic of the list is an untrusted-input diagnostic -/
def NoUE (es : List SemaErr) : Prop := ∀ e ∈ es, e.code ≠ "untrusted"
def NoU (ds : List Diag) : Prop := ∀ d ∈ ds, ¬ isUntrusted d

theorem NoUE.nil : NoUE [] := fun _ h => nomatch h
theorem NoU.nil : NoU [] := fun _ h => nomatch h

theorem noUE_append {a b : List SemaErr} : NoUE (a ++ b) ↔ NoUE a ∧ NoUE b := by
  simp only [NoUE, List.mem_append]
  exact ⟨fun h => ⟨fun e he => h e (Or.inl he), fun e he => h e (Or.inr he)⟩, fun h e he => he.elim (h.1 e) (h.2 e)⟩

theorem noU_append {a b : List Diag} : NoU (a ++ b) ↔ NoU a ∧ NoU b := by
  simp only [NoU, List.mem_append]
  exact ⟨fun h => ⟨fun e he => h e (Or.inl he), fun e he => h e (Or.inr he)⟩, fun h e he => he.elim (h.1 e) (h.2 e)⟩

theorem NoU.append {a b : List Diag} (ha : NoU a) (hb : NoU b) : NoU (a ++ b) := noU_append.2 ⟨ha, hb⟩

theorem NoU.flatMap {α : Type} (l : List α) (f : α → List Diag) (h : ∀ a ∈ l, NoU (f a)) : NoU (l.flatMap f) := by
  intro d hd
  obtain ⟨a, ha, hda⟩ := List.mem_flatMap.1 hd
  exact h a ha d hda

theorem NoU.at_ (s : Str) {es : List SemaErr} (h : NoUE es) : NoU (at_ s es) := by
  intro d hd
  simp only [RuleExpr.at_, List.mem_map] at hd
  obtain ⟨e, he, rfl⟩ := hd
  exact h e he

theorem noUE_single (code : String) (args : List String) (h : code ≠ "untrusted") : NoUE [err code args] := by
  intro e he
  rw [List.mem_singleton.1 he]
  exact h

/-! ### the semantic checker never uses the code -/

theorem untrusted_not_local : "untrusted" ∉ localCodes := by decide
theorem untrusted_not_call : "untrusted" ∉ callCodes := by decide

theorem keep_var_untrusted (Γ : Sema.Env) (n : String) : keep "untrusted" (check Γ (.var n)).errs = [] := by
  apply List.filter_eq_nil_iff.2
  intro x hx
  rw [check_var] at hx
  simp only [wrap_errs] at hx
  split at hx
  · rw [List.mem_singleton.1 hx]; simp [err]
  · split at hx
    · cases hx
    · rw [List.mem_singleton.1 hx]; simp [err]

theorem keep_resolveCall_untrusted (Γ : Sema.Env) (c : String) (sigs : List Sig) (fl : Option String) (tys : List Ty) :
    keep "untrusted" (resolveCall Γ c sigs fl tys).2 = [] := by
  apply List.filter_eq_nil_iff.2
  intro x hx hc
  rw [beq_iff_eq] at hc
  rcases resolveCall_src Γ c sigs fl tys x hx with h | h
  · rw [(specialFuncErrs_mem Γ c x h).1] at hc
    simp [err] at hc
  · rw [hc] at h
    exact untrusted_not_call h

mutual
theorem srcErrs_untrusted (Γ : Sema.Env) : ∀ (e : E), srcErrs Γ "untrusted" e = []
  | .null => by simp [srcErrs]
  | .bool => by simp [srcErrs]
  | .num => by simp [srcErrs]
  | .str _ => by simp [srcErrs]
  | .var n => by rw [srcErrs]; exact keep_var_untrusted Γ n
  | .objDeref r _ => by rw [srcErrs]; exact srcErrs_untrusted Γ r
  | .arrDeref r => by rw [srcErrs]; exact srcErrs_untrusted Γ r
  | .index r i => by rw [srcErrs, srcErrs_untrusted Γ r, srcErrs_untrusted Γ i]; rfl
  | .not e => by rw [srcErrs]; exact srcErrs_untrusted Γ e
  | .cmp _ l r => by rw [srcErrs, srcErrs_untrusted Γ l, srcErrs_untrusted Γ r]; rfl
  | .logical _ l r => by rw [srcErrs, srcErrs_untrusted Γ l, srcErrs_untrusted Γ r]; rfl
  | .call c args => by
    rw [srcErrs]
    split
    · rfl
    · rw [srcErrsList_untrusted Γ args, keep_resolveCall_untrusted]; rfl
theorem srcErrsList_untrusted (Γ : Sema.Env) : ∀ (es : List E), srcErrsList Γ "untrusted" es = []
  | [] => by rw [srcErrsList]
  | e :: es => by rw [srcErrsList, srcErrs_untrusted Γ e, srcErrsList_untrusted Γ es]; rfl
end

/-- **the semantic checker (`sema.check`) never emits the code `untrusted`**, whatever the environment and the expression -/
theorem check_noUE (Γ : Sema.Env) (e : E) : NoUE (check Γ e).errs := by
  intro x hx hc
  have : x ∈ keep "untrusted" (check Γ e).errs := mem_keep.2 ⟨hx, hc⟩
  rw [keep_errs Γ "untrusted" untrusted_not_local e, srcErrs_untrusted] at this
  cases this

/-! ### with the flag OFF nothing below `checkExprsIn` emits the code -/

theorem checkParsed_false_noUE (cx : Cx) (key : String) (pe : AL.Parse.Expr) (off : Nat) :
    NoUE (checkParsed cx key false pe off).2 := by
  unfold checkParsed
  simp only [Bool.false_eq_true, if_false, List.append_nil]
  split
  · exact NoUE.nil
  · exact check_noUE _ _

theorem checkOne_false_noUE (cx : Cx) (key : String) (rest : List Nat) : NoUE (checkOne cx key false rest).2 := by
  unfold checkOne
  split
  · exact checkParsed_false_noUE cx key _ _
  · exact noUE_single _ _ (by decide)

theorem scan_false_noUE (cx : Cx) (key : String) : ∀ (fuel : Nat) (s : List Nat) (ts : List Ty),
    NoUE (scan cx key false fuel s ts).2
  | 0, _, _ => NoUE.nil
  | fuel + 1, s, ts => by
    rw [scan]
    split
    · exact NoUE.nil
    · rename_i idx _
      have h1 := checkOne_false_noUE cx key (s.drop (idx + 3))
      simp only
      split
      · rename_i errs heq; rw [heq] at h1; exact h1
      · split
        · exact NoUE.nil
        · exact scan_false_noUE cx key fuel _ _

/-- **core lemma of the precision half**: with `untrusted = false`, `checkExprsIn` yields no diagnostic with the code
`untrusted` — whatever the scope, the key and the text -/
theorem checkExprsIn_false_noUE (cx : Cx) (key : String) (v : String) : NoUE (checkExprsIn cx key false v).2 :=
  scan_false_noUE cx key _ _ _

theorem templateDiags_noUE (ts : List Ty) : NoUE (templateDiags ts) := by
  intro e he
  simp only [templateDiags, List.mem_flatMap] at he
  obtain ⟨t, _, ht⟩ := he
  split at ht <;> first | (rw [List.mem_singleton.1 ht]; simp [err]) | cases ht

/-! ## 2a. precision, bottom-up: every `checkX` that is called with the flag off is free of the code -/

@[simp] theorem checkStrU_false_noU (cx : Cx) (s : Option Str) (key : String) : NoU (checkStrU cx false s key).2 := by
  unfold checkStrU
  split
  · exact NoU.nil
  · rename_i str
    have h := checkExprsIn_false_noUE cx key str.value
    split
    · rename_i es heq; rw [heq] at h; exact NoU.at_ str h
    · rename_i ts es heq; rw [heq] at h; exact NoU.at_ str (noUE_append.2 ⟨h, templateDiags_noUE ts⟩)

@[simp] theorem checkString_noU (cx : Cx) (s : Option Str) (key : String) : NoU (checkString cx s key) :=
  checkStrU_false_noU cx s key

@[simp] theorem checkStrings_noU (cx : Cx) (ss : Option (List Str)) (key : String) : NoU (checkStrings cx ss key) :=
  NoU.flatMap _ _ fun s _ => checkString_noU cx (some s) key

@[simp] theorem checkOneExpression_noU (cx : Cx) (s : Option Str) (what key : String) :
    NoU (checkOneExpression cx s what key).2 := by
  unfold checkOneExpression
  split
  · exact NoU.nil
  · rename_i str
    have h := checkExprsIn_false_noUE cx key str.value
    split
    · rename_i es heq; rw [heq] at h; exact NoU.at_ str h
    · rename_i t es heq; rw [heq] at h; exact NoU.at_ str h
    · rename_i ts es _ heq; rw [heq] at h
      exact NoU.at_ str (noUE_append.2 ⟨h, noUE_single _ _ (by decide)⟩)

theorem mustBe_noU (p : Ty → Bool) (code what : String) (s : Option Str) (r : Option Ty × List Diag) (hc : code ≠ "untrusted")
    (h : NoU r.2) : NoU (mustBe p code what s r).2 := by
  unfold mustBe
  split
  · rename_i t str _
    split
    · exact h
    · exact h.append (NoU.at_ str (noUE_single _ _ hc))
  · exact h

@[simp] theorem checkObjectExpression_noU (cx : Cx) (s : Option Str) (what key : String) :
    NoU (checkObjectExpression cx s what key).2 := mustBe_noU _ _ _ _ _ (by decide) (checkOneExpression_noU cx s what key)
@[simp] theorem checkArrayExpression_noU (cx : Cx) (s : Option Str) (what key : String) :
    NoU (checkArrayExpression cx s what key).2 := mustBe_noU _ _ _ _ _ (by decide) (checkOneExpression_noU cx s what key)
@[simp] theorem checkNumberExpression_noU (cx : Cx) (s : Option Str) (what key : String) :
    NoU (checkNumberExpression cx s what key).2 := mustBe_noU _ _ _ _ _ (by decide) (checkOneExpression_noU cx s what key)

@[simp] theorem checkBool_noU (cx : Cx) (b : Option BoolV) (key : String) : NoU (checkBool cx b key) := by
  unfold checkBool
  split
  · exact NoU.nil
  · rename_i b
    split
    · exact NoU.nil
    · rename_i e _
      have h := checkOneExpression_noU cx (some e) "bool value" key
      simp only
      split <;> first | exact h | exact h.append (NoU.at_ e (noUE_single _ _ (by decide)))

@[simp] theorem checkInt_noU (cx : Cx) (i : Option IntV) (key : String) : NoU (checkInt cx i key) := by
  unfold checkInt
  split
  · exact NoU.nil
  · exact checkNumberExpression_noU _ _ _ _

@[simp] theorem checkFloat_noU (cx : Cx) (f : Option FloatV) (key : String) : NoU (checkFloat cx f key) := by
  unfold checkFloat
  split
  · exact NoU.nil
  · exact checkNumberExpression_noU _ _ _ _

@[simp] theorem checkEnv_noU (cx : Cx) (e : Option Ast.Env) (key : String) : NoU (RuleExpr.checkEnv cx e key) := by
  unfold RuleExpr.checkEnv
  split
  · exact NoU.nil
  · split
    · exact NoU.flatMap _ _ fun kv _ => (checkString_noU _ _ _).append (checkString_noU _ _ _)
    · exact checkObjectExpression_noU _ _ _ _

@[simp] theorem checkContainer_noU (cx : Cx) (c : Option Container) (key pre : String) : NoU (checkContainer cx c key pre) := by
  unfold checkContainer
  split
  · exact NoU.nil
  · simp only [noU_append, checkString_noU, checkStrings_noU, checkEnv_noU, and_true, true_and]
    split
    · simp only [noU_append, checkString_noU, and_self]
    · exact NoU.nil

@[simp] theorem checkConcurrency_noU (cx : Cx) (c : Option Concurrency) (key : String) : NoU (checkConcurrency cx c key) := by
  unfold checkConcurrency
  split
  · exact NoU.nil
  · simp only [noU_append, checkString_noU, checkBool_noU, and_self]

@[simp] theorem checkDefaults_noU (cx : Cx) (d : Option Defaults) (key : String) : NoU (checkDefaults cx d key) := by
  unfold checkDefaults
  split
  · exact NoU.nil
  · split
    · exact NoU.nil
    · simp only [noU_append, checkString_noU, and_self]

@[simp] theorem checkIfCondition_noU (cx : Cx) (s : Option Str) (key : String) : NoU (checkIfCondition cx s key) := by
  unfold checkIfCondition
  split
  · exact NoU.nil
  · rename_i str
    have hnb : ∀ t : Ty, NoU (match t with
        | .bool => [] | .any => []
        | t => if Ty.assignable .bool t then [] else at_ str [err "if-cond-type" [tyStr t]]) := by
      intro t
      split
      · exact NoU.nil
      · exact NoU.nil
      · split
        · exact NoU.nil
        · exact NoU.at_ str (noUE_single _ _ (by decide))
    simp only
    split
    · have h := checkStrU_false_noU cx (some str) key
      split
      · split
        · exact h.append (hnb _)
        · exact h
      · exact h
    · have h := checkOne_false_noUE cx key (bytesOf str.value ++ [125, 125])
      split
      · rename_i es heq; rw [heq] at h; exact NoU.at_ str h
      · exact hnb _

/-! ### the matrix, at any depth -/

@[simp] theorem rawStringTy_noU (cx : Cx) (isNum : IsNumber) (v : String) (p : RuleExpr.Pos) : NoU (rawStringTy cx isNum v p).2 := by
  have h : NoU (at_ ⟨v, false, p⟩ (checkExprsIn cx "jobs.<job_id>.strategy" false v).2) :=
    NoU.at_ _ (checkExprsIn_false_noUE cx _ v)
  simp only [rawStringTy]
  split
  · split <;> exact h
  · split
    · exact h
    · split
      · exact h
      · split <;> exact h

mutual
theorem rawTy_noU (cx : Cx) (isNum : IsNumber) : ∀ (v : AL.Matrix.Raw), NoU (rawTy cx isNum v).2
  | .str v p => by simp only [rawTy]; exact rawStringTy_noU cx isNum v p
  | .arr es _ => by
    cases es with
    | nil => simp only [rawTy]; exact NoU.nil
    | cons e rest => simp only [rawTy]; exact (rawTy_noU cx isNum e).append (rawFold_noU cx isNum _ rest)
  | .obj ps _ => by simp only [rawTy]; exact rawProps_noU cx isNum ps
theorem rawFold_noU (cx : Cx) (isNum : IsNumber) : ∀ (acc : Ty) (vs : List AL.Matrix.Raw), NoU (rawFold cx isNum acc vs).2
  | _, [] => by rw [rawFold]; exact NoU.nil
  | acc, v :: vs => by rw [rawFold]; exact (rawTy_noU cx isNum v).append (rawFold_noU cx isNum _ vs)
theorem rawProps_noU (cx : Cx) (isNum : IsNumber) : ∀ (ps : List (String × AL.Matrix.Raw)), NoU (RuleExpr.rawProps cx isNum ps).2
  | [] => by rw [RuleExpr.rawProps]; exact NoU.nil
  | (k, v) :: ps => by rw [RuleExpr.rawProps]; exact (rawTy_noU cx isNum v).append (rawProps_noU cx isNum ps)
end

@[simp] theorem rowTy_noU (cx : Cx) (isNum : IsNumber) (r : MatrixRow) : NoU (rowTy cx isNum r).2 := by
  unfold rowTy
  split
  · exact checkArrayExpression_noU _ _ _ _
  · split
    · exact NoU.nil
    · exact (rawTy_noU cx isNum _).append (rawFold_noU cx isNum _ _)

@[simp] theorem excludeDiags_noU (cx : Cx) (isNum : IsNumber) (ex : Option MatrixCombinations) : NoU (excludeDiags cx isNum ex) := by
  unfold excludeDiags
  split
  · exact NoU.nil
  · split
    · rename_i e _
      have h := checkArrayExpression_noU cx (some e) "exclude" "jobs.<job_id>.strategy"
      simp only
      split
      · split
        · exact h
        · exact h.append (NoU.at_ e (noUE_single _ _ (by decide)))
      · exact h
    · refine NoU.flatMap _ _ fun c _ => ?_
      split
      · exact checkObjectExpression_noU _ _ _ _
      · exact NoU.flatMap _ _ fun kv _ => rawTy_noU cx isNum _

theorem foldl_noU {α σ : Type} (step : σ × List Diag → α → σ × List Diag)
    (hstep : ∀ acc x, NoU acc.2 → NoU (step acc x).2) (l : List α) : ∀ acc, NoU acc.2 → NoU (l.foldl step acc).2 := by
  induction l with
  | nil => intro acc h; exact h
  | cons x rest ih => intro acc h; exact ih _ (hstep acc x h)

theorem includeCombo_noU (cx : Cx) (isNum : IsNumber) (acc : Ty × List Diag) (c : MatrixCombination) (h : NoU acc.2) :
    NoU (includeCombo cx isNum acc c).2 := by
  unfold includeCombo
  split
  · rename_i e _
    have h1 := checkOneExpression_noU cx (some e) "matrix combination at element of include section" "jobs.<job_id>.strategy"
    simp only
    split <;> exact h.append h1
  · refine foldl_noU _ ?_ _ acc h
    intro a kv ha
    have := rawTy_noU cx isNum kv.2.value
    split <;> exact ha.append this

@[simp] theorem matrixExprTy_noU (cx : Cx) (e : Str) : NoU (matrixExprTy cx e).2 := by
  have h := checkObjectExpression_noU cx (some e) "matrix" "jobs.<job_id>.strategy"
  simp only [matrixExprTy]
  split <;> exact h

@[simp] theorem checkMatrix_noU (cx : Cx) (isNum : IsNumber) (m : Matrix) : NoU (checkMatrix cx isNum m).2 := by
  unfold checkMatrix
  split
  · exact matrixExprTy_noU cx _
  · have hrows : NoU ((m.rows.getD []).foldl (fun (acc : List (String × Ty) × List Diag) kv =>
          (Ty.setProp kv.1 (rowTy cx isNum kv.2).1 acc.1, acc.2 ++ (rowTy cx isNum kv.2).2)) ([], [])).2 :=
      foldl_noU _ (fun acc kv ha => ha.append (rowTy_noU cx isNum kv.2)) _ _ NoU.nil
    have hex := excludeDiags_noU cx isNum m.excl
    simp only
    split
    · exact hex.append hrows
    · split
      · exact (hex.append hrows).append (checkOneExpression_noU _ _ _ _)
      · exact (hex.append hrows).append (foldl_noU _ (fun acc c ha => includeCombo_noU cx isNum acc c ha) _ _ NoU.nil)

@[simp] theorem jobMatrix_noU (cx : Cx) (isNum : IsNumber) (n : Job) : NoU (jobMatrix cx isNum n).2 := by
  unfold jobMatrix
  split
  · split
    · exact checkMatrix_noU cx isNum _
    · exact NoU.nil
  · exact NoU.nil

/-! ### the rest of a job -/

theorem typedInput_noU (cx : Cx) (u : Str) (kv : String × CallArg) (ts : List Ty) : NoU (typedInput cx u kv ts) := by
  unfold typedInput
  split
  · exact NoU.nil
  · split
    · exact NoU.nil
    · split
      · exact NoU.nil
      · simp only
        split
        · exact NoU.nil
        · intro d hd
          rw [List.mem_singleton.1 hd]
          simp [isUntrusted]

@[simp] theorem checkWorkflowCall_noU (cx : Cx) (c : Option WorkflowCall) : NoU (RuleExpr.checkWorkflowCall cx c) := by
  unfold RuleExpr.checkWorkflowCall
  split
  · exact NoU.nil
  · split
    · exact NoU.nil
    · refine ((checkString_noU _ _ _).append (NoU.flatMap _ _ fun kv _ => ?_)).append
        (NoU.flatMap _ _ fun kv _ => checkString_noU _ _ _)
      exact (checkStrU_false_noU _ _ _).append (typedInput_noU _ _ _ _)

@[simp] theorem runsOnDiags_noU (cx : Cx) (r : Option Runner) : NoU (runsOnDiags cx r) := by
  unfold runsOnDiags
  split
  · exact NoU.nil
  · refine NoU.append ?_ (checkString_noU _ _ _)
    split
    · rename_i e _
      have h := checkOneExpression_noU cx (some e) "runner label at \"runs-on\" section" "jobs.<job_id>.runs-on"
      simp only
      split <;> first | exact h | exact h.append (NoU.at_ e (noUE_single _ _ (by decide)))
    · exact NoU.flatMap _ _ fun l _ => checkString_noU _ _ _

@[simp] theorem strategyDiags_noU (cx : Cx) (s : Option Strategy) : NoU (strategyDiags cx s) := by
  unfold strategyDiags
  split
  · exact (checkBool_noU _ _ _).append (checkInt_noU _ _ _)
  · exact NoU.nil

@[simp] theorem servicesDiags_noU (cx : Cx) (s : Option Services) : NoU (servicesDiags cx s) := by
  unfold servicesDiags
  split
  · exact (checkObjectExpression_noU _ _ _ _).append (NoU.flatMap _ _ fun kv _ => checkContainer_noU _ _ _ _)
  · exact NoU.nil

@[simp] theorem jobPre_noU (cx : Cx) (n : Job) : NoU (jobPre cx n) := by
  simp only [jobPre, noU_append, checkString_noU, checkStrings_noU, runsOnDiags_noU, checkConcurrency_noU, checkEnv_noU,
    checkDefaults_noU, checkIfCondition_noU, strategyDiags_noU, checkBool_noU, checkFloat_noU, checkContainer_noU,
    servicesDiags_noU, checkWorkflowCall_noU, and_self]

@[simp] theorem jobPost_noU (cx : Cx) (n : Job) : NoU (jobPost cx n) := by
  unfold jobPost
  refine NoU.append ?_ (NoU.flatMap _ _ fun kv _ => checkString_noU _ _ _)
  split
  · exact (checkString_noU _ _ _).append (checkString_noU _ _ _)
  · exact NoU.nil

/-! ### `on:` -/

theorem noU_ite (c : Prop) [Decidable c] (l : List Diag) (h : NoU l) : NoU (if c then l else []) := by
  split
  · exact h
  · exact NoU.nil

theorem callInputs_noU (cx : Cx) : ∀ (ins : List Ast.CallInput) (acc : List (String × Ty)), NoU (callInputs cx acc ins).2
  | [], _ => NoU.nil
  | i :: rest, acc => by
    simp only [callInputs]
    refine NoU.append (NoU.append (NoU.append ((checkString_noU _ _ _).append (checkBool_noU _ _ _))
      (checkStrU_false_noU _ _ _)) ?_) (callInputs_noU cx rest _)
    split
    · rename_i t d _ _ _
      refine noU_ite _ _ ?_
      cases t <;> first | exact NoU.nil | exact NoU.at_ d (noUE_single "input-default-bool" _ (by decide))
    · rename_i t d _ _ _
      refine noU_ite _ _ ?_
      cases t <;> first | exact NoU.nil | exact NoU.at_ d (noUE_single "input-default-number" _ (by decide))
    · exact NoU.nil

@[simp] theorem filterDiags_noU (cx : Cx) (f : Option Filter) : NoU (filterDiags cx f) := by
  unfold filterDiags
  split
  · exact checkStrings_noU _ _ _
  · exact NoU.nil

@[simp] theorem webhookDiags_noU (cx : Cx) (e : WebhookEvent) : NoU (webhookDiags cx e) := by
  simp only [webhookDiags, noU_append, checkStrings_noU, filterDiags_noU, and_self]

@[simp] theorem dispatchInputDiags_noU (cx : Cx) (i : DispatchInput) : NoU (dispatchInputDiags cx i) := by
  simp only [dispatchInputDiags, noU_append, checkString_noU, checkStrings_noU, checkBool_noU, and_self]

@[simp] theorem callSecretDiags_noU (cx : Cx) (s : CallSecret) : NoU (callSecretDiags cx s) := by
  simp only [callSecretDiags, noU_append, checkString_noU, checkBool_noU, and_self]

@[simp] theorem visitEvent_noU (cx : Cx) (e : Ast.Event) : NoU (visitEvent cx e).2 := by
  cases e with
  | webhook e => exact webhookDiags_noU cx e
  | schedule cron pos => exact checkStrings_noU _ _ _
  | dispatch inputs pos => exact NoU.flatMap _ _ fun kv _ => dispatchInputDiags_noU _ _
  | repoDispatch types pos => exact checkStrings_noU _ _ _
  | call inputs secrets outputs pos =>
    simp only [visitEvent]
    exact ((callInputs_noU _ _ _).append (NoU.flatMap _ _ fun kv _ => callSecretDiags_noU _ _)).append
      (NoU.flatMap _ _ fun kv _ => checkString_noU _ _ _)

theorem visitEvents_noU : ∀ (es : List Ast.Event) (cx : Cx), NoU (visitEvents cx es).2
  | [], _ => NoU.nil
  | e :: rest, cx => by
    simp only [visitEvents]
    exact (visitEvent_noU cx e).append (visitEvents_noU rest _)

/-! ## 1. where the flag is on: the SCRIPT positions, from the documentation

  * the `run:` of a step;
  * the `script` input of a step that runs `actions/github-script` (key and action name in any letter case).

What the Go code (rule_expression.go:289, `VisitStep`, after the repair of the defect found here) and the model accept as
"runs actions/github-script": `strings.HasPrefix(strings.ToLower(e.Uses.Value), "actions/github-script@")` — the text of
`uses:`, FOLDED with the rule's folding function (`lower`, no trimming), starts with `actions/github-script@`: any ref
after the `@`, nothing between the repository name and the `@` (so not `actions/github-script/sub@v7`), owner and
repository in any letter case (`isGithubScript lower`). The input is found by its id `script`: the parser stores the
inputs of `with:` under the key folded to lower case (parse.go:1052, `exec.Inputs[input.id]`, model: AL.ParseWf), so
`Script:` / `SCRIPT:` arrive here as `script`. The enumeration depends on `lower` only through that test; for a `lower`
that is ASCII lower-casing it IS the documented any-case criterion (§5: `scriptStrs_eq_doc`).
(History: the original code tested `e.Uses.Value` as written, so `uses: Actions/GitHub-Script@v7` was scanned with the
flag OFF — found by this file, confirmed on the binary, repaired; now `github_script_any_case_reported`.) -/

/-- `uses:`, folded with `lower`, is `actions/github-script@…` -/
def isGithubScript (lower : String → String) (uses : Option Str) : Bool :=
  match uses with
  | some u => (lower u.value).startsWith "actions/github-script@"
  | none => false

/-- the script strings of a step's `run:` / `uses:` part -/
def execScriptStrs (lower : String → String) : Exec → List Str
  | .run r => r.run.toList
  | .action a =>
    if isGithubScript lower a.uses then ((a.inputs.getD []).filter fun kv => kv.1 = "script").map (·.2.value) else []
  | .none => []

def stepScriptStrs (lower : String → String) (st : Step) : List Str := execScriptStrs lower st.exec

def jobScriptStrs (lower : String → String) (n : Job) : List Str := (n.steps.getD []).flatMap (stepScriptStrs lower)

/-- **the script strings of a workflow**: every step's `run:`, every `script` input of an `actions/github-script@…` step -/
def scriptStrs (lower : String → String) (w : Workflow) : List Str :=
  (w.jobs.getD []).flatMap fun kv => jobScriptStrs lower kv.2

/-- the same with the workflow key of the position (`jobs.<job_id>.steps.run` / `jobs.<job_id>.steps.with`) -/
def execScriptKStrs (lower : String → String) : Exec → List (Str × String)
  | .run r => AL.C12R.tag "jobs.<job_id>.steps.run" r.run.toList
  | .action a =>
    if isGithubScript lower a.uses then
      AL.C12R.tag "jobs.<job_id>.steps.with" (((a.inputs.getD []).filter fun kv => kv.1 = "script").map (·.2.value))
    else []
  | .none => []

def scriptKStrs (lower : String → String) (w : Workflow) : List (Str × String) :=
  (w.jobs.getD []).flatMap fun kv => (kv.2.steps.getD []).flatMap fun st => execScriptKStrs lower st.exec

theorem execScriptKStrs_fst (lower : String → String) (e : Exec) :
    (execScriptKStrs lower e).map Prod.fst = execScriptStrs lower e := by
  cases e with
  | none => rfl
  | run r => simp only [execScriptKStrs, execScriptStrs, AL.C12R.tag_fst]
  | action a =>
    simp only [execScriptKStrs, execScriptStrs]
    split <;> simp only [AL.C12R.tag_fst, List.map_nil]

/-- the keyed enumeration lists exactly `scriptStrs`, in the same order -/
theorem scriptKStrs_fst (lower : String → String) (w : Workflow) : (scriptKStrs lower w).map Prod.fst = scriptStrs lower w := by
  simp only [scriptKStrs, scriptStrs, jobScriptStrs]
  refine AL.C12R.flatMap_fst _ _ _ fun kv => ?_
  exact AL.C12R.flatMap_fst _ _ _ fun st => execScriptKStrs_fst lower st.exec

theorem script_keyed (lower : String → String) (w : Workflow) (s : Str) (h : s ∈ scriptStrs lower w) :
    ∃ key, (s, key) ∈ scriptKStrs lower w := by
  rw [← scriptKStrs_fst] at h
  obtain ⟨⟨s', k⟩, hp, rfl⟩ := List.mem_map.1 h
  exact ⟨k, hp⟩

theorem keyed_is_script (lower : String → String) (w : Workflow) (s : Str) (key : String) (h : (s, key) ∈ scriptKStrs lower w) :
    s ∈ scriptStrs lower w := by
  rw [← scriptKStrs_fst]
  exact List.mem_map.2 ⟨(s, key), h, rfl⟩

/-- the key of a script position is one of the two -/
theorem scriptKStrs_keys (lower : String → String) (w : Workflow) (s : Str) (key : String) (h : (s, key) ∈ scriptKStrs lower w) :
    key = "jobs.<job_id>.steps.run" ∨ key = "jobs.<job_id>.steps.with" := by
  simp only [scriptKStrs, List.mem_flatMap] at h
  obtain ⟨kv, _, st, _, he⟩ := h
  cases hx : st.exec with
  | none => simp [hx, execScriptKStrs] at he
  | run r =>
    rw [hx] at he
    exact Or.inl (AL.C12R.mem_tag.1 he).2
  | action a =>
    rw [hx] at he
    simp only [execScriptKStrs] at he
    split at he
    · exact Or.inr (AL.C12R.mem_tag.1 he).2
    · cases he

theorem execScriptStrs_sub (lower : String → String) (e : Exec) : ∀ s ∈ execScriptStrs lower e, s ∈ execStrs e := by
  intro s hs
  cases e with
  | none => cases hs
  | run r =>
    simp only [execScriptStrs] at hs
    simp only [execStrs, List.mem_append]
    exact Or.inl (Or.inl hs)
  | action a =>
    simp only [execScriptStrs] at hs
    split at hs
    · simp only [List.mem_map, List.mem_filter] at hs
      obtain ⟨kv, ⟨hk, _⟩, rfl⟩ := hs
      simp only [execStrs, List.mem_append, List.mem_map]
      exact Or.inl (Or.inl (Or.inr ⟨kv, hk, rfl⟩))
    · cases hs

theorem execScriptKStrs_sub (lower : String → String) (e : Exec) :
    ∀ p ∈ execScriptKStrs lower e, p ∈ AL.C12R.execKStrs e := by
  intro p hp
  cases e with
  | none => cases hp
  | run r =>
    simp only [execScriptKStrs] at hp
    simp only [AL.C12R.execKStrs, List.mem_append]
    exact Or.inl (Or.inl hp)
  | action a =>
    simp only [execScriptKStrs] at hp
    split at hp
    · obtain ⟨s, k⟩ := p
      obtain ⟨hm, rfl⟩ := AL.C12R.mem_tag.1 hp
      simp only [List.mem_map, List.mem_filter] at hm
      obtain ⟨kv, ⟨hk, _⟩, rfl⟩ := hm
      simp only [AL.C12R.execKStrs, List.mem_append]
      exact Or.inl (Or.inl (Or.inr (AL.C12R.mem_tag.2 ⟨List.mem_map.2 ⟨kv, hk, rfl⟩, rfl⟩)))
    · cases hp

theorem stepScriptStrs_sub (lower : String → String) (st : Step) : ∀ s ∈ stepScriptStrs lower st, s ∈ stepStrs st := by
  intro s hs
  simp only [stepStrs, List.mem_append]
  exact Or.inl (Or.inl (Or.inl (Or.inr (execScriptStrs_sub lower _ s hs))))

theorem jobScriptStrs_sub (lower : String → String) (n : Job) : ∀ s ∈ jobScriptStrs lower n, s ∈ jobStrs n := by
  intro s hs
  obtain ⟨st, hst, h⟩ := List.mem_flatMap.1 hs
  simp only [jobStrs, List.mem_append]
  exact Or.inl (Or.inr (List.mem_flatMap.2 ⟨st, hst, stepScriptStrs_sub lower st s h⟩))

/-- **the script strings are value strings** of C03's enumeration -/
theorem scriptStrs_sub_valueStrs (lower : String → String) (w : Workflow) : ∀ s ∈ scriptStrs lower w, s ∈ valueStrs w := by
  intro s hs
  obtain ⟨kv, hkv, h⟩ := List.mem_flatMap.1 hs
  simp only [valueStrs, List.mem_append]
  exact Or.inl (Or.inr (List.mem_flatMap.2 ⟨kv, hkv, jobScriptStrs_sub lower kv.2 s h⟩))

/-- … and their keys are the keys C12's enumeration (the documentation's table) gives these positions -/
theorem scriptKStrs_sub_keyedStrs (lower : String → String) (w : Workflow) :
    ∀ p ∈ scriptKStrs lower w, p ∈ AL.C12R.keyedStrs w := by
  intro p hp
  simp only [scriptKStrs, List.mem_flatMap] at hp
  obtain ⟨kv, hkv, st, hst, he⟩ := hp
  refine AL.C12R.job_keyed (id := kv.1) (j := kv.2) hkv ?_
  simp only [AL.C12R.jobKStrs, List.mem_append]
  refine Or.inl (Or.inr (List.mem_flatMap.2 ⟨st, hst, ?_⟩))
  simp only [AL.C12R.stepKStrs, List.mem_append]
  exact Or.inl (Or.inl (Or.inl (Or.inr (execScriptKStrs_sub lower _ p he))))

/-! ## 2b. precision: an untrusted-input diagnostic is located at a script string -/

/-- every untrusted-input diagnostic of `ds` is located at one of the strings `S` -/
def Loc (S : List Str) (ds : List Diag) : Prop := ∀ d ∈ ds, isUntrusted d → ∃ s ∈ S, d.site = s.pos

theorem NoU.loc {ds : List Diag} (h : NoU ds) (S : List Str) : Loc S ds := fun d hd hu => absurd hu (h d hd)

theorem Loc.append {S : List Str} {a b : List Diag} (ha : Loc S a) (hb : Loc S b) : Loc S (a ++ b) := by
  intro d hd
  rcases List.mem_append.1 hd with h | h
  · exact ha d h
  · exact hb d h

theorem Loc.mono {S S' : List Str} {ds : List Diag} (h : Loc S ds) (hs : ∀ s ∈ S, s ∈ S') : Loc S' ds := by
  intro d hd hu
  obtain ⟨s, hm, e⟩ := h d hd hu
  exact ⟨s, hs s hm, e⟩

theorem Loc.flatMap {α : Type} (l : List α) (f : α → List Diag) (g : α → List Str) (h : ∀ a ∈ l, Loc (g a) (f a)) :
    Loc (l.flatMap g) (l.flatMap f) := by
  intro d hd hu
  obtain ⟨a, ha, hda⟩ := List.mem_flatMap.1 hd
  obtain ⟨s, hs, e⟩ := h a ha d hda hu
  exact ⟨s, List.mem_flatMap.2 ⟨a, ha, hs⟩, e⟩

/-- every diagnostic of a checked string is located at that string -/
theorem checkStrU_site (cx : Cx) (u : Bool) (s : Str) (key : String) : ∀ d ∈ (checkStrU cx u (some s) key).2, d.site = s.pos := by
  intro d hd
  simp only [checkStrU] at hd
  split at hd <;>
  · simp only [RuleExpr.at_, List.mem_map] at hd
    obtain ⟨e, _, rfl⟩ := hd
    rfl

theorem checkScriptString_loc (cx : Cx) (s : Str) (key : String) : Loc [s] (checkScriptString cx (some s) key) :=
  fun d hd _ => ⟨s, List.mem_singleton.2 rfl, checkStrU_site cx true s key d hd⟩

theorem stepExec_loc (cx : Cx) (e : Exec) : Loc (execScriptStrs cx.lower e) (stepExec cx e).1 := by
  cases e with
  | none => exact NoU.nil.loc _
  | run r =>
    simp only [stepExec, execScriptStrs]
    refine (Loc.append ?_ ((checkString_noU _ _ _).loc _)).append ((checkString_noU _ _ _).loc _)
    cases hr : r.run with
    | none => exact NoU.nil.loc _
    | some s => exact checkScriptString_loc cx s _
  | action a =>
    simp only [stepExec, execScriptStrs]
    refine ((Loc.append ((checkString_noU _ _ _).loc _) ?_).append ((checkString_noU _ _ _).loc _)).append
      ((checkString_noU _ _ _).loc _)
    intro d hd hu
    obtain ⟨kv, hkv, hdk⟩ := List.mem_flatMap.1 hd
    have hdk' : d ∈ (if (isGithubScript cx.lower a.uses && decide (kv.1 = "script")) = true then
        checkScriptString cx (some kv.2.value) "jobs.<job_id>.steps.with"
        else checkString cx (some kv.2.value) "jobs.<job_id>.steps.with") := hdk
    by_cases hc : (isGithubScript cx.lower a.uses && decide (kv.1 = "script")) = true
    · rw [if_pos hc] at hdk'
      simp only [Bool.and_eq_true, decide_eq_true_eq] at hc
      rw [hc.1, if_pos rfl]
      refine ⟨kv.2.value, ?_, checkStrU_site cx true _ _ d hdk'⟩
      exact List.mem_map.2 ⟨kv, List.mem_filter.2 ⟨hkv, by simpa using hc.2⟩, rfl⟩
    · rw [if_neg hc] at hdk'
      exact absurd hu (checkString_noU _ _ _ d hdk')

theorem stepDiags_loc (cx : Cx) (n : Step) : Loc (stepScriptStrs cx.lower n) (stepDiags cx n) := by
  simp only [stepDiags, stepScriptStrs]
  exact (((((checkString_noU _ _ _).loc _).append ((checkIfCondition_noU _ _ _).loc _)).append (stepExec_loc cx n.exec)).append
    ((checkEnv_noU _ _ _).loc _) |>.append ((checkBool_noU _ _ _).loc _)).append ((checkFloat_noU _ _ _).loc _)

theorem visitStep_loc (cx : Cx) (n : Step) : Loc (stepScriptStrs cx.lower n) (visitStep cx n).2 := by
  simp only [visitStep]
  split
  · exact stepDiags_loc cx n
  · refine (stepDiags_loc cx n).append ?_
    split
    · exact (checkString_noU _ _ _).loc _
    · exact NoU.nil.loc _

theorem visitSteps_loc (lower : String → String) : ∀ (steps : List Step) (cx : Cx), cx.lower = lower →
    Loc (steps.flatMap (stepScriptStrs lower)) (visitSteps cx steps).2
  | [], _, _ => NoU.nil.loc _
  | st :: rest, cx, hcx => by
    simp only [visitSteps, List.flatMap_cons]
    exact ((hcx ▸ visitStep_loc cx st).mono fun s h => List.mem_append_left _ h).append
      ((visitSteps_loc lower rest _ ((AL.C12R.visitStep_lower cx st).trans hcx)).mono fun s h => List.mem_append_right _ h)

theorem visitJob_loc (cx : Cx) (isNum : IsNumber) (jobs : List (String × Job)) (n : Job) :
    Loc (jobScriptStrs cx.lower n) (visitJob cx isNum jobs n) := by
  simp only [visitJob, jobScriptStrs]
  refine ((((jobMatrix_noU _ _ _).loc _).append ((jobPre_noU _ _).loc _)).append (visitSteps_loc cx.lower _ _ ?_)).append
    ((jobPost_noU _ _).loc _)
  split <;> rfl

/-- **C11, precision at workflow level.** For every workflow AST, folding function and project view: a diagnostic of
the expression rule with the code of the untrusted-input check is located at a script string — a step's `run:` or the
`script` input of a step whose folded `uses:` is `actions/github-script@…`. Nothing is reported for `env:`, `with:` of other actions, `if:`,
names, the matrix, containers, `on:` …, whatever the text there. -/
theorem untrusted_only_in_scripts (lower : String → String) (isNum : IsNumber) (w : Workflow) (proj : ProjView) :
    ∀ d ∈ rule lower isNum w proj, isUntrusted d → ∃ s ∈ scriptStrs lower w, d.site = s.pos := by
  have : Loc (scriptStrs lower w) (rule lower isNum w proj) := by
    simp only [rule, scriptStrs]
    refine (((((checkString_noU _ _ _).loc _).append ((visitEvents_noU _ _).loc _)).append ?_).append ?_).append ?_
    · exact ((((checkString_noU _ _ _).loc _).append ((checkEnv_noU _ _ _).loc _)).append
        ((checkDefaults_noU _ _ _).loc _)).append ((checkConcurrency_noU _ _ _).loc _)
    · refine Loc.flatMap _ _ _ fun kv _ => ?_
      have := visitJob_loc (visitEvents { lower := lower, proj := proj } (w.on.getD [])).1 isNum (w.jobs.getD []) kv.2
      rw [AL.C12R.visitEvents_lower] at this
      exact this
    · refine NoU.loc ?_ _
      split
      · split
        · exact NoU.nil
        · exact NoU.flatMap _ _ fun kv _ => checkString_noU _ _ _
      · exact NoU.nil
  exact this

/-- a workflow without script strings has no untrusted-input diagnostic at all -/
theorem no_script_no_untrusted (lower : String → String) (isNum : IsNumber) (w : Workflow) (proj : ProjView)
    (h : scriptStrs lower w = []) : NoU (rule lower isNum w proj) := by
  intro d hd hu
  obtain ⟨s, hs, _⟩ := untrusted_only_in_scripts lower isNum w proj d hd hu
  rw [h] at hs
  cases hs

/-! ## 3. completeness: every script string is scanned with the flag ON, under the key of its position -/

/-- `ds` contains, located at `s`, everything the scan of the text of `s` WITH THE FLAG ON under `key` yields — in a
scope that folds names with `lower` and sees the project through `proj` (the scope in effect at that position) -/
def ScannedOn (lower : String → String) (proj : ProjView) (ds : List Diag) (s : Str) (key : String) : Prop :=
  ∃ cx : Cx, cx.lower = lower ∧ cx.proj = proj ∧
    ∀ e ∈ (checkExprsIn cx key true s.value).2, (⟨s.pos, e.code, e.args⟩ : Diag) ∈ ds

section scanned
variable {lower : String → String} {proj : ProjView}

theorem ScannedOn.mono {ds ds' : List Diag} {s : Str} {key : String} (h : ScannedOn lower proj ds s key)
    (hs : ∀ d ∈ ds, d ∈ ds') : ScannedOn lower proj ds' s key := by
  obtain ⟨cx, h1, h2, h3⟩ := h
  exact ⟨cx, h1, h2, fun e he => hs _ (h3 e he)⟩

theorem ScannedOn.left {a b : List Diag} {s : Str} {key : String} (h : ScannedOn lower proj a s key) :
    ScannedOn lower proj (a ++ b) s key := h.mono fun _ hd => List.mem_append_left _ hd
theorem ScannedOn.right {a b : List Diag} {s : Str} {key : String} (h : ScannedOn lower proj b s key) :
    ScannedOn lower proj (a ++ b) s key := h.mono fun _ hd => List.mem_append_right _ hd

theorem checkScriptString_scanned (cx : Cx) (s : Str) (key : String) :
    ScannedOn cx.lower cx.proj (checkScriptString cx (some s) key) s key := by
  refine ⟨cx, rfl, rfl, ?_⟩
  intro e he
  simp only [checkScriptString, checkStrU]
  split
  · rename_i es heq
    rw [heq] at he
    exact List.mem_map.2 ⟨e, he, rfl⟩
  · rename_i ts es heq
    rw [heq] at he
    exact List.mem_map.2 ⟨e, List.mem_append_left _ he, rfl⟩

theorem stepExec_scanned (cx : Cx) (e : Exec) (s : Str) (k : String) (hm : (s, k) ∈ execScriptKStrs cx.lower e) :
    ScannedOn cx.lower cx.proj (stepExec cx e).1 s k := by
  cases e with
  | none => cases hm
  | run r =>
    simp only [execScriptKStrs] at hm
    replace hm := AL.C12R.mem_tag.1 hm
    obtain ⟨hm, rfl⟩ := hm
    simp only [stepExec]
    rw [mem_toList hm]
    exact (checkScriptString_scanned cx s _).left.left
  | action a =>
    simp only [execScriptKStrs] at hm
    cases hg : isGithubScript cx.lower a.uses with
    | false => simp [hg] at hm
    | true =>
      rw [hg, if_pos rfl] at hm
      replace hm := AL.C12R.mem_tag.1 hm
      obtain ⟨hm, rfl⟩ := hm
      obtain ⟨kv, hkv, rfl⟩ := List.mem_map.1 hm
      obtain ⟨hkv, hk⟩ := List.mem_filter.1 hkv
      simp only [stepExec]
      refine ScannedOn.left (ScannedOn.left (ScannedOn.right ?_))
      refine (checkScriptString_scanned cx kv.2.value "jobs.<job_id>.steps.with").mono ?_
      intro d hd
      refine List.mem_flatMap.2 ⟨kv, hkv, ?_⟩
      have hc : (isGithubScript cx.lower a.uses && decide (kv.1 = "script")) = true := by rw [hg]; simpa using hk
      show d ∈ (if (isGithubScript cx.lower a.uses && decide (kv.1 = "script")) = true then
          checkScriptString cx (some kv.2.value) "jobs.<job_id>.steps.with"
          else checkString cx (some kv.2.value) "jobs.<job_id>.steps.with")
      rw [if_pos hc]
      exact hd

theorem visitStep_scanned (cx : Cx) (n : Step) (s : Str) (k : String) (hm : (s, k) ∈ execScriptKStrs cx.lower n.exec) :
    ScannedOn cx.lower cx.proj (visitStep cx n).2 s k := by
  have h : ScannedOn cx.lower cx.proj (stepDiags cx n) s k := by
    simp only [stepDiags]
    exact (stepExec_scanned cx n.exec s k hm).right.left.left.left
  simp only [visitStep]
  split
  · exact h
  · exact h.left

theorem visitStep_proj (cx : Cx) (n : Step) : (visitStep cx n).1.proj = cx.proj := by
  simp only [visitStep]
  split <;> rfl

theorem visitSteps_proj : ∀ (steps : List Step) (cx : Cx), (visitSteps cx steps).1.proj = cx.proj
  | [], _ => rfl
  | st :: rest, cx => by
    simp only [visitSteps]
    rw [visitSteps_proj rest, visitStep_proj]

theorem visitSteps_scanned (s : Str) (k : String) : ∀ (steps : List Step) (cx : Cx), cx.lower = lower → cx.proj = proj →
    (s, k) ∈ steps.flatMap (fun st => execScriptKStrs lower st.exec) → ScannedOn lower proj (visitSteps cx steps).2 s k
  | [], _, _, _, hm => by simp at hm
  | st :: rest, cx, h1, h2, hm => by
    simp only [List.flatMap_cons, List.mem_append] at hm
    simp only [visitSteps]
    rcases hm with hm | hm
    · have := (visitStep_scanned cx st s k (h1 ▸ hm)).left (b := (visitSteps (visitStep cx st).1 rest).2)
      rw [h1, h2] at this
      exact this
    · exact (visitSteps_scanned s k rest (visitStep cx st).1 ((AL.C12R.visitStep_lower cx st).trans h1)
        ((visitStep_proj cx st).trans h2) hm).right

theorem visitJob_scanned (cx : Cx) (isNum : IsNumber) (jobs : List (String × Job)) (n : Job) (s : Str) (k : String)
    (hm : (s, k) ∈ (n.steps.getD []).flatMap (fun st => execScriptKStrs cx.lower st.exec)) :
    ScannedOn cx.lower cx.proj (visitJob cx isNum jobs n) s k := by
  simp only [visitJob]
  refine ScannedOn.left (ScannedOn.right ?_)
  refine visitSteps_scanned s k _ _ ?_ ?_ hm
  · split <;> rfl
  · split <;> rfl

theorem visitEvent_proj (cx : Cx) (e : Ast.Event) : (visitEvent cx e).1.proj = cx.proj := by
  cases e with
  | call inputs secrets outputs pos =>
    simp only [visitEvent]
    split <;> rfl
  | _ => rfl

theorem visitEvents_proj : ∀ (es : List Ast.Event) (cx : Cx), (visitEvents cx es).1.proj = cx.proj
  | [], _ => rfl
  | e :: rest, cx => by
    simp only [visitEvents]
    rw [visitEvents_proj rest, visitEvent_proj]

end scanned

/-- **C11, completeness at workflow level (inclusion form).** For every workflow AST, folding function and project
view, for every script string `s` with the key of its position: what the rule reports, located at `s`, INCLUDES
everything the scan of its text with the untrusted-input check switched ON yields, under that key, in the scope in
effect there (a scope with the rule's folding function and project view). -/
theorem script_scanned_with_flag_on (lower : String → String) (isNum : IsNumber) (w : Workflow) (proj : ProjView)
    (s : Str) (key : String) (hm : (s, key) ∈ scriptKStrs lower w) : ScannedOn lower proj (rule lower isNum w proj) s key := by
  simp only [scriptKStrs] at hm
  obtain ⟨kv, hkv, hs⟩ := List.mem_flatMap.1 hm
  simp only [rule]
  refine ScannedOn.left (ScannedOn.right ?_)
  have h := visitJob_scanned (visitEvents { lower := lower, proj := proj } (w.on.getD [])).1 isNum (w.jobs.getD []) kv.2 s key
    (by rw [AL.C12R.visitEvents_lower]; exact hs)
  rw [AL.C12R.visitEvents_lower, visitEvents_proj] at h
  exact h.mono fun d hd => List.mem_flatMap.2 ⟨kv, hkv, hd⟩

/-- a text whose scan WITH THE FLAG ON under `key` yields an untrusted-input diagnostic, in every scope that folds names
with `lower` (the rule is run with ONE folding function). The form "in every scope, whatever its folding function" is
not satisfiable by any text — a function that sends every name to `x` hides every input; see
`untrusted_needs_the_folding` — so the hypothesis is stated for the rule's `lower` only. -/
def UntrustedUnderL (lower : String → String) (key : String) (v : String) : Prop :=
  ∀ cx : Cx, cx.lower = lower → ∃ e ∈ (checkExprsIn cx key true v).2, e.code = "untrusted"

/-- **C11, completeness at workflow level (sharp form).** A script string whose text has an untrusted input under the
key of its position — in the scopes that fold names as the rule does — gets an untrusted-input diagnostic of the
expression rule located at that string: in every workflow, in every job, at every step, whatever else is there. -/
theorem every_script_checked_L (lower : String → String) (isNum : IsNumber) (w : Workflow) (proj : ProjView)
    (s : Str) (key : String) (hm : (s, key) ∈ scriptKStrs lower w) (h : UntrustedUnderL lower key s.value) :
    ∃ d ∈ rule lower isNum w proj, isUntrusted d ∧ d.site = s.pos := by
  obtain ⟨cx, h1, _, h3⟩ := script_scanned_with_flag_on lower isNum w proj s key hm
  obtain ⟨e, he, hc⟩ := h cx h1
  exact ⟨_, h3 e he, hc, rfl⟩

/-! ## 3a. precision and completeness in ONE equation

The untrusted-input diagnostics of the rule, in order, ARE the flag-on scans of the script strings — each under the key of
its position, in the scope in effect at its step: `AL.C05S.jobCxS (AL.C05S.ruleCx …) …` advanced by `visitStep` over the
steps before it (the scopes AL.Props.C05Scope describes: `ruleCx_scope`, `jobCxS_scope`, `job_step_scope`). -/

/-- the untrusted-input diagnostics of a list, in order -/
def uf (ds : List Diag) : List Diag := ds.filter fun d => decide (isUntrusted d)

theorem uf_append (a b : List Diag) : uf (a ++ b) = uf a ++ uf b := List.filter_append ..

theorem uf_flatMap {α : Type} (l : List α) (f : α → List Diag) : uf (l.flatMap f) = l.flatMap fun a => uf (f a) := by
  induction l with
  | nil => rfl
  | cons a rest ih => simp only [List.flatMap_cons, uf_append, ih]

theorem NoU.uf {ds : List Diag} (h : NoU ds) : uf ds = [] := by
  apply List.filter_eq_nil_iff.2
  intro d hd hc
  exact h d hd (of_decide_eq_true hc)

theorem mem_uf {ds : List Diag} {d : Diag} : d ∈ uf ds ↔ d ∈ ds ∧ isUntrusted d := by
  simp [uf]

/-- the untrusted-input diagnostics of the flag-on scan of one script string (with its key) in the scope `cx` -/
def scanU (cx : Cx) (p : Str × String) : List Diag := uf (at_ p.1 (checkExprsIn cx p.2 true p.1.value).2)

theorem at_append (s : Str) (a b : List SemaErr) : at_ s (a ++ b) = at_ s a ++ at_ s b := by
  simp [RuleExpr.at_]

theorem checkScriptString_uf (cx : Cx) (s : Str) (key : String) : uf (checkScriptString cx (some s) key) = scanU cx (s, key) := by
  simp only [checkScriptString, checkStrU, scanU]
  split
  · rename_i es heq; rw [heq]
  · rename_i ts es heq
    rw [heq, at_append, uf_append, (NoU.at_ s (templateDiags_noUE ts)).uf, List.append_nil]

theorem flatMap_filter_map {α β γ : Type} (l : List α) (p : α → Bool) (v : α → β) (h : β → List γ) :
    ((l.filter p).map v).flatMap h = l.flatMap fun a => if p a then h (v a) else [] := by
  induction l with
  | nil => rfl
  | cons a rest ih =>
    simp only [List.filter_cons, List.flatMap_cons]
    cases p a
    · simp [ih]
    · simp [ih]

theorem flatMap_ext {α β : Type} (l : List α) (f g : α → List β) (h : ∀ a, f a = g a) : l.flatMap f = l.flatMap g := by
  rw [funext h]

theorem stepExec_uf (cx : Cx) (e : Exec) : uf (stepExec cx e).1 = (execScriptKStrs cx.lower e).flatMap (scanU cx) := by
  cases e with
  | none => rfl
  | run r =>
    simp only [stepExec, execScriptKStrs, uf_append, (checkString_noU _ _ _).uf, List.append_nil]
    cases hr : r.run with
    | none => rfl
    | some s => simp [checkScriptString_uf, AL.C12R.tag]
  | action a =>
    simp only [stepExec, execScriptKStrs, uf_append, (checkString_noU _ _ _).uf, List.append_nil, List.nil_append, uf_flatMap]
    have hrw : ∀ kv : String × Input,
        uf (if ((match a.uses with | some u => (cx.lower u.value).startsWith "actions/github-script@" | none => false) &&
              decide (kv.1 = "script")) = true then
            checkScriptString cx (some kv.2.value) "jobs.<job_id>.steps.with"
            else checkString cx (some kv.2.value) "jobs.<job_id>.steps.with") =
          if (isGithubScript cx.lower a.uses && decide (kv.1 = "script")) = true then scanU cx (kv.2.value, "jobs.<job_id>.steps.with")
          else [] := by
      intro kv
      show uf (if (isGithubScript cx.lower a.uses && decide (kv.1 = "script")) = true then _ else _) = _
      split
      · exact checkScriptString_uf cx _ _
      · exact (checkString_noU _ _ _).uf
    refine (flatMap_ext _ _ _ hrw).trans ?_
    cases hg : isGithubScript cx.lower a.uses with
    | false => simp
    | true =>
      simp only [if_true, Bool.true_and, AL.C12R.tag, List.map_map]
      rw [flatMap_filter_map]
      rfl

theorem stepDiags_uf (cx : Cx) (n : Step) : uf (stepDiags cx n) = (execScriptKStrs cx.lower n.exec).flatMap (scanU cx) := by
  simp only [stepDiags, uf_append, (checkString_noU _ _ _).uf, (checkIfCondition_noU _ _ _).uf, (checkEnv_noU _ _ _).uf,
    (checkBool_noU _ _ _).uf, (checkFloat_noU _ _ _).uf, List.append_nil, List.nil_append, stepExec_uf]

theorem visitStep_uf (cx : Cx) (n : Step) : uf (visitStep cx n).2 = (execScriptKStrs cx.lower n.exec).flatMap (scanU cx) := by
  simp only [visitStep]
  split
  · exact stepDiags_uf cx n
  · simp only [uf_append, stepDiags_uf]
    have : NoU (if AL.Rules.containsExpr ‹Str› = true then checkString cx (some ‹Str›) "" else []) := by
      split
      · exact checkString_noU _ _ _
      · exact NoU.nil
    rw [this.uf, List.append_nil]

/-- the scans of the script strings of a list of steps, each in the scope the steps before it leave -/
def stepsScans : Cx → List Step → List Diag
  | _, [] => []
  | cx, st :: rest => (execScriptKStrs cx.lower st.exec).flatMap (scanU cx) ++ stepsScans (visitStep cx st).1 rest

theorem visitSteps_uf : ∀ (steps : List Step) (cx : Cx), uf (visitSteps cx steps).2 = stepsScans cx steps
  | [], _ => rfl
  | st :: rest, cx => by
    simp only [visitSteps, stepsScans, uf_append, visitStep_uf, visitSteps_uf rest]

theorem visitJob_uf (cx : Cx) (isNum : IsNumber) (jobs : List (String × Job)) (n : Job) :
    uf (visitJob cx isNum jobs n) = stepsScans (AL.C05S.jobCxS cx isNum jobs n) (n.steps.getD []) := by
  rw [AL.C05S.visitJob_eq]
  simp only [uf_append, (jobMatrix_noU _ _ _).uf, (jobPre_noU _ _).uf, (jobPost_noU _ _).uf, List.append_nil, List.nil_append,
    visitSteps_uf]

/-- **C11 at workflow level, exact form.** For every workflow AST, folding function, number test and project view: the
diagnostics of the expression rule with the code of the untrusted-input check are — in order, with multiplicity —
exactly the flag-on scans of the script strings (a step's `run:`, the `script` input of a step whose folded `uses:` is
`actions/github-script@…`), each under the key of its position and in the scope in effect at its step. Nothing else, nothing less. -/
theorem rule_untrusted_exact (lower : String → String) (isNum : IsNumber) (w : Workflow) (proj : ProjView) :
    uf (rule lower isNum w proj) =
      (w.jobs.getD []).flatMap fun kv =>
        stepsScans (AL.C05S.jobCxS (AL.C05S.ruleCx lower proj w) isNum (w.jobs.getD []) kv.2) (kv.2.steps.getD []) := by
  simp only [rule, uf_append, (checkString_noU _ _ _).uf, (visitEvents_noU _ _).uf, (checkEnv_noU _ _ _).uf,
    (checkDefaults_noU _ _ _).uf, (checkConcurrency_noU _ _ _).uf, List.append_nil, List.nil_append,
    uf_flatMap, visitJob_uf]
  refine (congrArg (_ ++ ·) (NoU.uf ?_)).trans ?_
  · split
    · split
      · exact NoU.nil
      · exact NoU.flatMap _ _ fun kv _ => checkString_noU _ _ _
    · exact NoU.nil
  · rw [List.append_nil]
    rfl

/-! ## 3b. the hypothesis is satisfiable: a documented untrusted input, for every scope

A placeholder whose expression is a plain property chain `root.p₁.….pₙ` that walks the trie of untrusted inputs to a
leaf: with the flag on, `checkParsed` appends the report of the untrusted-input machine (`AL.Insecure.run`, equal to
the chain specification by `AL.C11.machine_eq_spec`) to the diagnostics of the semantic check — whatever the scope, the
key, the types in scope, and whatever ELSE the semantic check has to say about the expression. -/

/-- a parsed expression that is a plain chain `root.p₁.….pₙ`: the root and the properties, INNERMOST LAST (`pₙ` first) -/
def chainOf : AL.Parse.Expr → Option (String × List String)
  | .var n => some (symsToString n, [])
  | .objDeref r p =>
    match chainOf r with
    | some (a, ps) => some (a, symsToString p :: ps)
    | none => none
  | _ => none

/-- the checker's expression for the chain (properties innermost last) -/
def chainE (a : String) : List String → E
  | [] => .var a
  | p :: ps => .objDeref (chainE a ps) p

theorem toE_chain (lower : String → String) : ∀ (pe : AL.Parse.Expr) (a : String) (ps : List String),
    chainOf pe = some (a, ps) → toE lower pe = chainE (lower a) (ps.map lower)
  | .var n, a, ps, h => by
    simp only [chainOf, Option.some.injEq, Prod.mk.injEq] at h
    obtain ⟨rfl, rfl⟩ := h
    simp only [toE, chainE, List.map_nil]
  | .objDeref r p, a, ps, h => by
    simp only [chainOf] at h
    split at h
    · rename_i a' ps' heq
      simp only [Option.some.injEq, Prod.mk.injEq] at h
      obtain ⟨rfl, rfl⟩ := h
      simp only [toE, chainE, List.map_cons, toE_chain lower r a' ps' heq]
    · cases h
  | .null, _, _, h => by simp [chainOf] at h
  | .bool _, _, _, h => by simp [chainOf] at h
  | .int _, _, _, h => by simp [chainOf] at h
  | .float _, _, _, h => by simp [chainOf] at h
  | .str _, _, _, h => by simp [chainOf] at h
  | .call _ _, _, _, h => by simp [chainOf] at h
  | .arrDeref _, _, _, h => by simp [chainOf] at h
  | .index _ _, _, _, h => by simp [chainOf] at h
  | .not _, _, _, h => by simp [chainOf] at h
  | .cmp _ _ _, _, _, h => by simp [chainOf] at h
  | .logical _ _ _, _, _, h => by simp [chainOf] at h

/-- the chain specification on a plain chain: ONE chain, rooted at the variable -/
theorem chain_chainE (roots : List AL.Insecure.Trie) (lower : String → String) (defined : String → Bool) (a : String) :
    ∀ (ps : List String) (suffix : List AL.Spec.Seg),
      AL.Spec.chain roots lower defined (chainE a ps) suffix =
        AL.Spec.chainReport roots a (ps.reverse.map AL.Spec.Seg.prop ++ suffix)
  | [], suffix => by simp only [chainE, AL.Spec.chain, List.reverse_nil, List.map_nil, List.nil_append]
  | p :: ps, suffix => by
    simp only [chainE, AL.Spec.chain, chain_chainE roots lower defined a ps, List.reverse_cons, List.map_append,
      List.map_cons, List.map_nil, List.append_assoc, List.cons_append, List.nil_append]

theorem reports_chainE (roots : List AL.Insecure.Trie) (lower : String → String) (defined : String → Bool) (a : String)
    (ps : List String) :
    AL.Spec.reports roots lower defined (chainE a ps) = AL.Spec.chainReport roots a (ps.reverse.map AL.Spec.Seg.prop) := by
  cases ps with
  | nil => simp only [chainE, AL.Spec.reports, List.reverse_nil, List.map_nil]
  | cons p ps =>
    simp only [chainE, AL.Spec.reports, chain_chainE, List.reverse_cons, List.map_append, List.map_cons, List.map_nil]

/-- the text after a `${{` lexes (offset `off`) and parses to the plain chain `root.….p` -/
def parsesChain (rest : List Nat) (a : String) (ps : List String) (off : Nat) : Bool :=
  match AL.Lex.lexExpression (decodeUtf8 rest), AL.Parse.parseToks (AL.Lex.tokens (decodeUtf8 rest)) with
  | .ok (_, o), .ok pe => decide (chainOf pe = some (a, ps)) && decide (o = off)
  | _, _ => false

theorem checkOne_of_parsesChain (cx : Cx) (key : String) (u : Bool) (rest : List Nat) (a : String) (ps : List String)
    (off : Nat) (h : parsesChain rest a ps off = true) :
    ∃ pe, chainOf pe = some (a, ps) ∧ checkOne cx key u rest = checkParsed cx key u pe off := by
  unfold parsesChain at h
  split at h
  · rename_i ts o pe h1 h2
    simp only [Bool.and_eq_true, decide_eq_true_eq] at h
    refine ⟨pe, h.1, ?_⟩
    unfold checkOne
    simp only [h1, h2, h.2]
  · cases h

/-- with the flag on, a placeholder that is a chain reaching a leaf of the trie gets the diagnostic of the machine,
after whatever the semantic check says -/
theorem checkParsed_chain (cx : Cx) (key : String) (pe : AL.Parse.Expr) (off : Nat) (a : String) (ps : List String)
    (hc : chainOf pe = some (a, ps)) (paths : List String)
    (hr : AL.Spec.chainReport AL.Gen.untrustedRoots (cx.lower a) ((ps.map cx.lower).reverse.map AL.Spec.Seg.prop) = [paths]) :
    checkParsed cx key true pe off =
      (none, (check (AL.C12R.envOf cx key) (chainE (cx.lower a) (ps.map cx.lower))).errs ++ [err "untrusted" paths]) := by
  unfold checkParsed
  simp only [if_true, toE_chain cx.lower pe a ps hc, AL.Insecure.run_eq_reports, reports_chainE, hr, List.map_cons, List.map_nil]
  rw [if_neg]
  simp

/-- the loop stops at a first placeholder that has a diagnostic: its diagnostics are those of the string -/
theorem checkExprsIn_first (cx : Cx) (key : String) (u : Bool) (v : String) (b : List Nat) (hb : bytesOf v = b) (idx : Nat)
    (hi : AL.Proc.indexOf AL.Proc.open3 b 0 = some idx) (errs : List SemaErr)
    (h1 : checkOne cx key u (b.drop (idx + 3)) = (none, errs)) : checkExprsIn cx key u v = (none, errs) := by
  simp only [checkExprsIn, hb]
  cases b with
  | nil => simp [AL.Proc.indexOf, AL.Proc.open3] at hi
  | cons x xs =>
    simp only [List.length_cons]
    rw [scan]
    simp only [hi, h1]

/-- **a text whose first placeholder is a documented untrusted input**: the scan with the flag on ends there with the
diagnostic of the untrusted-input check (after those of the semantic check, if any) — in every scope, under every key -/
theorem chain_text_untrusted (cx : Cx) (key v : String) (b : List Nat) (hb : bytesOf v = b) (idx : Nat)
    (hi : AL.Proc.indexOf AL.Proc.open3 b 0 = some idx) (a : String) (ps : List String) (off : Nat)
    (hp : parsesChain (b.drop (idx + 3)) a ps off = true) (paths : List String)
    (hr : AL.Spec.chainReport AL.Gen.untrustedRoots (cx.lower a) ((ps.map cx.lower).reverse.map AL.Spec.Seg.prop) = [paths]) :
    checkExprsIn cx key true v =
      (none, (check (AL.C12R.envOf cx key) (chainE (cx.lower a) (ps.map cx.lower))).errs ++ [err "untrusted" paths]) := by
  obtain ⟨pe, hc, he⟩ := checkOne_of_parsesChain cx key true _ a ps off hp
  exact checkExprsIn_first cx key true v b hb idx hi _ (he.trans (checkParsed_chain cx key pe off a ps hc paths hr))

/-- `${{ github.event.issue.title }}` and `${{ github.head_ref }}` as bytes -/
def bTitle : List Nat :=
  [36, 123, 123, 32, 103, 105, 116, 104, 117, 98, 46, 101, 118, 101, 110, 116, 46, 105, 115, 115, 117, 101, 46, 116, 105,
   116, 108, 101, 32, 125, 125]
def bHeadRef : List Nat := [36, 123, 123, 32, 103, 105, 116, 104, 117, 98, 46, 104, 101, 97, 100, 95, 114, 101, 102, 32, 125, 125]

theorem bytes_title : bytesOf "${{ github.event.issue.title }}" = bTitle := by decide +kernel
theorem bytes_headRef : bytesOf "${{ github.head_ref }}" = bHeadRef := by decide +kernel
theorem parses_title : parsesChain (bTitle.drop (0 + 3)) "github" ["title", "issue", "event"] 28 = true := by decide +kernel
theorem parses_headRef : parsesChain (bHeadRef.drop (0 + 3)) "github" ["head_ref"] 19 = true := by decide +kernel

/-- a folding function that leaves the four names alone (as `strings.ToLower` does) -/
structure KeepsTitle (lower : String → String) : Prop where
  github : lower "github" = "github"
  event : lower "event" = "event"
  issue : lower "issue" = "issue"
  title : lower "title" = "title"

theorem keepsTitle_asciiLower : KeepsTitle AL.PW.asciiLower := ⟨by decide +kernel, by decide +kernel, by decide +kernel, by decide +kernel⟩
theorem keepsTitle_id : KeepsTitle id := ⟨rfl, rfl, rfl, rfl⟩

/-- the exact result of the scan of `${{ github.event.issue.title }}` with the flag on -/
theorem title_scan (cx : Cx) (hl : KeepsTitle cx.lower) (key : String) :
    checkExprsIn cx key true "${{ github.event.issue.title }}" =
      (none, (check (AL.C12R.envOf cx key) (chainE "github" ["title", "issue", "event"])).errs ++
        [err "untrusted" ["github.event.issue.title"]]) := by
  have := chain_text_untrusted cx key _ bTitle bytes_title 0 (by decide) "github" ["title", "issue", "event"] 28 parses_title
    ["github.event.issue.title"] (by simp only [List.map, hl.github, hl.event, hl.issue, hl.title]; decide +kernel)
  simpa only [List.map, hl.github, hl.event, hl.issue, hl.title] using this

/-- **`${{ github.event.issue.title }}` has an untrusted input under EVERY key, in every scope** whose folding function
leaves `github`, `event`, `issue`, `title` alone -/
theorem title_untrusted (lower : String → String) (hl : KeepsTitle lower) (key : String) :
    UntrustedUnderL lower key "${{ github.event.issue.title }}" := by
  intro cx hcx
  rw [title_scan cx (hcx ▸ hl) key]
  exact ⟨_, List.mem_append_right _ (List.mem_singleton.2 rfl), rfl⟩

theorem headRef_scan (cx : Cx) (h1 : cx.lower "github" = "github") (h2 : cx.lower "head_ref" = "head_ref") (key : String) :
    checkExprsIn cx key true "${{ github.head_ref }}" =
      (none, (check (AL.C12R.envOf cx key) (chainE "github" ["head_ref"])).errs ++ [err "untrusted" ["github.head_ref"]]) := by
  have := chain_text_untrusted cx key _ bHeadRef bytes_headRef 0 (by decide) "github" ["head_ref"] 19 parses_headRef
    ["github.head_ref"] (by simp only [List.map, h1, h2]; decide +kernel)
  simpa only [List.map, h1, h2] using this

theorem headRef_untrusted (lower : String → String) (h1 : lower "github" = "github") (h2 : lower "head_ref" = "head_ref")
    (key : String) : UntrustedUnderL lower key "${{ github.head_ref }}" := by
  intro cx hcx
  rw [headRef_scan cx (hcx ▸ h1) (hcx ▸ h2) key]
  exact ⟨_, List.mem_append_right _ (List.mem_singleton.2 rfl), rfl⟩

/-- the folding function is a parameter of the model, and one that renames `github` hides the input (why the theorems
are stated with `UntrustedUnderL` and `KeepsTitle`) -/
def renameGithub (s : String) : String := if s = "github" then "x" else s

theorem title_hidden_by_renaming (key : String) :
    NoUE (checkExprsIn { lower := renameGithub } key true "${{ github.event.issue.title }}").2 := by
  generalize hcx : ({ lower := renameGithub } : Cx) = cx
  have hlow : cx.lower = renameGithub := by rw [← hcx]
  obtain ⟨pe, hc, he⟩ := checkOne_of_parsesChain cx key true _ "github" ["title", "issue", "event"] 28 parses_title
  have hrun : ∀ Γ : Sema.Env, AL.Insecure.run AL.Gen.untrustedRoots (check Γ (toE cx.lower pe)).evs = [] := by
    intro Γ
    rw [toE_chain cx.lower pe _ _ hc, AL.Insecure.run_eq_reports, reports_chainE, hlow]
    decide +kernel
  have hi : AL.Proc.indexOf AL.Proc.open3 bTitle 0 = some 0 := by decide
  simp only [checkExprsIn, bytes_title]
  rw [show bTitle.length = 30 + 1 from rfl, scan]
  simp only [hi, he]
  unfold checkParsed
  simp only [if_true, hrun, List.map_nil, List.append_nil]
  split
  · rename_i errs heq
    split at heq
    · cases heq
    · simp only [Prod.mk.injEq, true_and] at heq
      rw [← heq]
      exact check_noUE _ _
  · rename_i ty off es heq
    split at heq
    · simp only [Prod.mk.injEq, Option.some.injEq] at heq
      obtain ⟨⟨_, rfl⟩, _⟩ := heq
      rw [if_neg (by decide)]
      have : AL.Proc.indexOf AL.Proc.open3 ((bTitle.drop (0 + 3)).drop 28) 0 = none := by decide
      rw [AL.C12R.scan_none _ _ _ _ _ _ this]
      exact NoUE.nil
    · cases heq

/-- the hypothesis without the side condition on the folding function is FALSE of this text (`KeepsTitle` is needed) -/
theorem untrusted_needs_the_folding (key : String) :
    ¬ ∀ cx : Cx, ∃ e ∈ (checkExprsIn cx key true "${{ github.event.issue.title }}").2, e.code = "untrusted" := by
  intro h
  obtain ⟨e, he, hc⟩ := h { lower := renameGithub }
  exact title_hidden_by_renaming key e he hc

/-! ## 3c. on whole workflows: `run:` and `script:` are reported, `env:` is not -/

theorem job_script_keyed {lower : String → String} {w : Workflow} {id : String} {j : Job} (hj : (id, j) ∈ w.jobs.getD [])
    {st : Step} (hst : st ∈ j.steps.getD []) {p : Str × String} (h : p ∈ execScriptKStrs lower st.exec) :
    p ∈ scriptKStrs lower w := by
  simp only [scriptKStrs]
  exact List.mem_flatMap.2 ⟨(id, j), hj, List.mem_flatMap.2 ⟨st, hst, h⟩⟩

/-- **in EVERY workflow**, under every project view and every folding function that leaves the four names alone: a step
whose `run:` is `${{ github.event.issue.title }}` gets exactly the diagnostic of the untrusted-input check, naming the
path, at that scalar — in whichever job and step, whatever else the workflow contains -/
theorem run_title_reported (lower : String → String) (hl : KeepsTitle lower) (isNum : IsNumber) (w : Workflow) (proj : ProjView)
    (id : String) (j : Job) (hj : (id, j) ∈ w.jobs.getD []) (st : Step) (hst : st ∈ j.steps.getD []) (r : ExecRun)
    (hx : st.exec = .run r) (q : Bool) (p : RuleExpr.Pos) (hr : r.run = some ⟨"${{ github.event.issue.title }}", q, p⟩) :
    (⟨p, "untrusted", ["github.event.issue.title"]⟩ : Diag) ∈ rule lower isNum w proj := by
  have hm : ((⟨"${{ github.event.issue.title }}", q, p⟩ : Str), "jobs.<job_id>.steps.run") ∈ scriptKStrs lower w :=
    job_script_keyed hj hst (by rw [hx]; simp [execScriptKStrs, AL.C12R.mem_tag, hr])
  obtain ⟨cx, h1, _, h3⟩ := script_scanned_with_flag_on lower isNum w proj _ _ hm
  refine h3 (err "untrusted" ["github.event.issue.title"]) ?_
  rw [title_scan cx (h1 ▸ hl)]
  exact List.mem_append_right _ (List.mem_singleton.2 rfl)

/-- the same for the `script` input (the id the parser gives `script:` / `Script:` / `SCRIPT:`) of a step whose `uses:`,
folded, starts with `actions/github-script@` -/
theorem github_script_title_reported (lower : String → String) (hl : KeepsTitle lower) (isNum : IsNumber) (w : Workflow)
    (proj : ProjView) (id : String) (j : Job) (hj : (id, j) ∈ w.jobs.getD []) (st : Step) (hst : st ∈ j.steps.getD [])
    (a : ExecAction) (hx : st.exec = .action a) (u : Str) (hu : a.uses = some u)
    (hgs : (lower u.value).startsWith "actions/github-script@" = true) (inp : Input) (hi : ("script", inp) ∈ a.inputs.getD [])
    (q : Bool) (p : RuleExpr.Pos) (hv : inp.value = ⟨"${{ github.event.issue.title }}", q, p⟩) :
    (⟨p, "untrusted", ["github.event.issue.title"]⟩ : Diag) ∈ rule lower isNum w proj := by
  have hm : ((⟨"${{ github.event.issue.title }}", q, p⟩ : Str), "jobs.<job_id>.steps.with") ∈ scriptKStrs lower w := by
    refine job_script_keyed hj hst ?_
    rw [hx]
    have hg : isGithubScript lower a.uses = true := by rw [hu]; exact hgs
    simp only [execScriptKStrs, hg, if_true]
    refine AL.C12R.mem_tag.2 ⟨List.mem_map.2 ⟨("script", inp), List.mem_filter.2 ⟨hi, by simp⟩, hv⟩, rfl⟩
  obtain ⟨cx, h1, _, h3⟩ := script_scanned_with_flag_on lower isNum w proj _ _ hm
  refine h3 (err "untrusted" ["github.event.issue.title"]) ?_
  rw [title_scan cx (h1 ▸ hl)]
  exact List.mem_append_right _ (List.mem_singleton.2 rfl)

/-- **`env:` (of a step, a job, a container, the workflow) is never reported**, whatever its text and the scope -/
theorem env_never_untrusted (cx : Cx) (e : Option Ast.Env) (key : String) : NoU (RuleExpr.checkEnv cx e key) := checkEnv_noU cx e key

/-! #### a concrete scope: the same text is accepted silently in `env:` and flagged in `run:` -/

/-- the scope of a step of a plain workflow (no events seen, no matrix, no earlier step), real case folding -/
def cxStep : Cx := { lower := AL.PW.asciiLower, st := { AL.Visit.St.init with stepsTy := some AL.Visit.emptyStrict } }

theorem getD_of_isSome {α : Type} (o : Option α) (d : α) (h : o.isSome = true) : o = some (o.getD d) := by
  cases o <;> simp_all

/-- the types of `github`, `github.event`, `github.event.issue`, `github.event.issue.title` in the scope `cxStep` under `key` -/
def tyG (key : String) : Ty := (Ty.lookup "github" (AL.C05S.envOf cxStep key).vars).getD .null
def tyE (key : String) : Ty × List SemaErr := objDerefTy (AL.C05S.envOf cxStep key) (decide ("github" = "vars")) "event" (tyG key)
def tyI (key : String) : Ty × List SemaErr := objDerefTy (AL.C05S.envOf cxStep key) false "issue" (tyE key).1
def tyT (key : String) : Ty × List SemaErr := objDerefTy (AL.C05S.envOf cxStep key) false "title" (tyI key).1

/-- under a key whose row lists `github` the expression checks without a diagnostic (`github.event` is an open object) -/
theorem title_sema_ok (key : String)
    (hv : (Ty.lookup "github" (AL.C05S.envOf cxStep key).vars).isSome = true)
    (ha : (AL.C05S.envOf cxStep key).availCtx.contains ((AL.C05S.envOf cxStep key).lower "github") = true)
    (h1 : (tyE key).2 = []) (h2 : (tyI key).2 = []) (h3 : (tyT key).2 = []) :
    (check (AL.C05S.envOf cxStep key) (chainE "github" ["title", "issue", "event"])).errs = [] ∧
    (check (AL.C05S.envOf cxStep key) (chainE "github" ["title", "issue", "event"])).ty = (tyT key).1 := by
  have a1 := check_ctx_prop (AL.C05S.envOf cxStep key) "github" "event" (tyG key) (getD_of_isSome _ .null hv) ha
  have a2 := check_prop_of (AL.C05S.envOf cxStep key) (.objDeref (.var "github") "event") "issue" (tyE key).1 (by rfl) a1.1
    (a1.2.trans h1)
  have a3 := check_prop_of (AL.C05S.envOf cxStep key) (.objDeref (.objDeref (.var "github") "event") "issue") "title" (tyI key).1
    (by rfl) a2.1 (a2.2.trans h2)
  exact ⟨a3.2.trans h3, a3.1⟩

theorem title_sema_ok_env :
    (check (AL.C05S.envOf cxStep "jobs.<job_id>.steps.env") (chainE "github" ["title", "issue", "event"])).errs = [] ∧
    (check (AL.C05S.envOf cxStep "jobs.<job_id>.steps.env") (chainE "github" ["title", "issue", "event"])).ty =
      (tyT "jobs.<job_id>.steps.env").1 :=
  title_sema_ok _ (by decide +kernel) (by decide +kernel) (by decide +kernel) (by decide +kernel) (by decide +kernel)

theorem title_sema_ok_run :
    (check (AL.C05S.envOf cxStep "jobs.<job_id>.steps.run") (chainE "github" ["title", "issue", "event"])).errs = [] ∧
    (check (AL.C05S.envOf cxStep "jobs.<job_id>.steps.run") (chainE "github" ["title", "issue", "event"])).ty =
      (tyT "jobs.<job_id>.steps.run").1 :=
  title_sema_ok _ (by decide +kernel) (by decide +kernel) (by decide +kernel) (by decide +kernel) (by decide +kernel)

/-- **in `env:` of a step the text is accepted without any diagnostic** (flag off: `checkString`) … -/
theorem env_title_clean (q : Bool) (p : RuleExpr.Pos) :
    checkString cxStep (some ⟨"${{ github.event.issue.title }}", q, p⟩) "jobs.<job_id>.steps.env" = [] := by
  have h := AL.C05S.checkExprsIn_one cxStep "jobs.<job_id>.steps.env" "${{ github.event.issue.title }}" 0 28
    (chainE "github" ["title", "issue", "event"]) (by decide +kernel) (by decide +kernel) (by decide) (by decide +kernel)
    title_sema_ok_env.1
  simp only [checkString, checkStrU, h, title_sema_ok_env.2, List.nil_append]
  have : templateDiags [(tyT "jobs.<job_id>.steps.env").1] = [] := by decide +kernel
  rw [this]
  rfl

/-- … **and in `run:` of the same step, in the same scope, it gets exactly the untrusted-input diagnostic** (flag on) -/
theorem run_title_flagged (q : Bool) (p : RuleExpr.Pos) :
    checkScriptString cxStep (some ⟨"${{ github.event.issue.title }}", q, p⟩) "jobs.<job_id>.steps.run" =
      [⟨p, "untrusted", ["github.event.issue.title"]⟩] := by
  have h := title_scan cxStep keepsTitle_asciiLower "jobs.<job_id>.steps.run"
  have he : AL.C12R.envOf cxStep "jobs.<job_id>.steps.run" = AL.C05S.envOf cxStep "jobs.<job_id>.steps.run" := rfl
  rw [he, title_sema_ok_run.1] at h
  simp only [checkScriptString, checkStrU, h]
  rfl

/-- with the flag OFF the same text under the same key `jobs.<job_id>.steps.run` is silent: the flag, not the key, decides -/
theorem run_key_flag_off_clean (q : Bool) (p : RuleExpr.Pos) :
    checkString cxStep (some ⟨"${{ github.event.issue.title }}", q, p⟩) "jobs.<job_id>.steps.run" = [] := by
  have h := AL.C05S.checkExprsIn_one cxStep "jobs.<job_id>.steps.run" "${{ github.event.issue.title }}" 0 28
    (chainE "github" ["title", "issue", "event"]) (by decide +kernel) (by decide +kernel) (by decide) (by decide +kernel)
    title_sema_ok_run.1
  simp only [checkString, checkStrU, h, title_sema_ok_run.2, List.nil_append]
  have : templateDiags [(tyT "jobs.<job_id>.steps.run").1] = [] := by decide +kernel
  rw [this]
  rfl

/-! ## 4. the known limit, stated exactly (`placeholders-after-first-diagnostic`)

`checkExprsIn` (rule_expression.go: `for { … if !ok { return nil, false } … }`) stops at the first placeholder that has
ANY diagnostic — of the semantic check or of the untrusted-input check. So: the diagnostics of a string are exactly the
diagnostics of the first placeholder (in loop order) that has one; an untrusted input in the k-th placeholder is
reported if (and, with the code `untrusted`, only if) the placeholders the loop passes before it are all clean. -/

/-- the loop, started on the text `s`, passes `k` placeholders that check WITHOUT a diagnostic and then stands at `t` -/
inductive Passed (cx : Cx) (key : String) (u : Bool) : List Nat → Nat → List Nat → Prop
  | zero (s : List Nat) : Passed cx key u s 0 s
  | step {s : List Nat} {idx : Nat} {ty : Ty} {off : Nat} {es : List SemaErr} {k : Nat} {t : List Nat}
      (hi : AL.Proc.indexOf AL.Proc.open3 s 0 = some idx)
      (h1 : checkOne cx key u (s.drop (idx + 3)) = (some (ty, off), es)) (h0 : off ≠ 0)
      (hp : Passed cx key u ((s.drop (idx + 3)).drop off) k t) : Passed cx key u s (k + 1) t

theorem indexOf_open3_nil : AL.Proc.indexOf AL.Proc.open3 [] 0 = none := by decide

theorem scan_passed (cx : Cx) (key : String) (u : Bool) {s t : List Nat} {k : Nat} (hp : Passed cx key u s k t) :
    ∀ (fuel : Nat) (ts : List Ty), s.length ≤ fuel → ∃ fuel' ts', t.length ≤ fuel' ∧
      scan cx key u fuel s ts = scan cx key u fuel' t ts' := by
  induction hp with
  | zero s => intro fuel ts h; exact ⟨fuel, ts, h, rfl⟩
  | @step s idx ty off es k t hi h1 h0 _ ih =>
    intro fuel ts hl
    cases fuel with
    | zero =>
      have : s = [] := List.eq_nil_of_length_eq_zero (Nat.le_zero.1 hl)
      rw [this, indexOf_open3_nil] at hi
      cases hi
    | succ f =>
      have hlen : ((s.drop (idx + 3)).drop off).length ≤ f := by
        simp only [List.length_drop]
        omega
      obtain ⟨fuel', ts', h2, h3⟩ := ih f (ts ++ [ty]) hlen
      refine ⟨fuel', ts', h2, ?_⟩
      rw [scan]
      simp only [hi, h1, h0, if_false]
      exact h3

/-- **the (k+1)-th placeholder has a diagnostic and the k before it are clean ⇒ the string gets exactly its diagnostics** -/
theorem kth_placeholder_reported (cx : Cx) (key : String) (u : Bool) (v : String) (k : Nat) (t : List Nat)
    (hp : Passed cx key u (bytesOf v) k t) (idx : Nat) (hi : AL.Proc.indexOf AL.Proc.open3 t 0 = some idx)
    (errs : List SemaErr) (h1 : checkOne cx key u (t.drop (idx + 3)) = (none, errs)) :
    checkExprsIn cx key u v = (none, errs) := by
  obtain ⟨fuel', ts', h2, h3⟩ := scan_passed cx key u hp (bytesOf v).length [] (Nat.le_refl _)
  simp only [checkExprsIn, h3]
  cases fuel' with
  | zero =>
    have : t = [] := List.eq_nil_of_length_eq_zero (Nat.le_zero.1 h2)
    rw [this, indexOf_open3_nil] at hi
    cases hi
  | succ f =>
    rw [scan]
    simp only [hi, h1]

/-- conversely: **whatever a string gets are the diagnostics of the first placeholder that has any** — nothing of a
later placeholder is ever reported -/
theorem scan_diags_from_first_bad (cx : Cx) (key : String) (u : Bool) : ∀ (fuel : Nat) (s : List Nat) (ts : List Ty),
    (scan cx key u fuel s ts).2 ≠ [] → ∃ k t idx, Passed cx key u s k t ∧ AL.Proc.indexOf AL.Proc.open3 t 0 = some idx ∧
      checkOne cx key u (t.drop (idx + 3)) = (none, (scan cx key u fuel s ts).2)
  | 0, _, _, h => absurd rfl h
  | fuel + 1, s, ts, h => by
    rw [scan] at h ⊢
    cases hi : AL.Proc.indexOf AL.Proc.open3 s 0 with
    | none => simp [hi] at h
    | some idx =>
      simp only [hi] at h ⊢
      cases hc : checkOne cx key u (s.drop (idx + 3)) with
      | mk r errs =>
        cases r with
        | none =>
          simp only
          exact ⟨0, s, idx, Passed.zero s, hi, hc⟩
        | some p =>
          obtain ⟨ty, off⟩ := p
          simp only [hc] at h ⊢
          by_cases h0 : off = 0
          · simp [h0] at h
          · simp only [h0, if_false] at h ⊢
            obtain ⟨k, t, idx', hp, hi', hc'⟩ := scan_diags_from_first_bad cx key u fuel _ _ h
            exact ⟨k + 1, t, idx', Passed.step hi hc h0 hp, hi', hc'⟩

theorem checkExprsIn_diags_from_first_bad (cx : Cx) (key : String) (u : Bool) (v : String)
    (h : (checkExprsIn cx key u v).2 ≠ []) : ∃ k t idx, Passed cx key u (bytesOf v) k t ∧
      AL.Proc.indexOf AL.Proc.open3 t 0 = some idx ∧ checkOne cx key u (t.drop (idx + 3)) = (none, (checkExprsIn cx key u v).2) :=
  scan_diags_from_first_bad cx key u _ _ _ h

/-- **the exact form of the limit**: a string gets an untrusted-input diagnostic iff the first placeholder that has any
diagnostic has one with that code -/
theorem untrusted_reported_iff (cx : Cx) (key : String) (v : String) :
    (∃ e ∈ (checkExprsIn cx key true v).2, e.code = "untrusted") ↔
      ∃ k t idx, Passed cx key true (bytesOf v) k t ∧ AL.Proc.indexOf AL.Proc.open3 t 0 = some idx ∧
        (checkOne cx key true (t.drop (idx + 3))).1 = none ∧
        ∃ e ∈ (checkOne cx key true (t.drop (idx + 3))).2, e.code = "untrusted" := by
  constructor
  · rintro ⟨e, he, hc⟩
    have hne : (checkExprsIn cx key true v).2 ≠ [] := fun h0 => by rw [h0] at he; cases he
    obtain ⟨k, t, idx, hp, hi, h1⟩ := checkExprsIn_diags_from_first_bad cx key true v hne
    exact ⟨k, t, idx, hp, hi, by rw [h1], e, by rw [h1]; exact he, hc⟩
  · rintro ⟨k, t, idx, hp, hi, hn, e, he, hc⟩
    have h1 : checkOne cx key true (t.drop (idx + 3)) = (none, (checkOne cx key true (t.drop (idx + 3))).2) := by
      rw [← hn]
    rw [kth_placeholder_reported cx key true v k t hp idx hi _ h1]
    exact ⟨e, he, hc⟩

/-- a placeholder with an untrusted-input diagnostic ends the loop -/
theorem checkOne_untrusted_none (cx : Cx) (key : String) (u : Bool) (rest : List Nat)
    (h : ∃ e ∈ (checkOne cx key u rest).2, e.code = "untrusted") : (checkOne cx key u rest).1 = none := by
  cases hr : (checkOne cx key u rest).1 with
  | none => rfl
  | some p =>
    obtain ⟨e, he, _⟩ := h
    rw [checkOne_some_nil cx key u rest p hr] at he
    cases he

/-- **an untrusted input in the (k+1)-th placeholder is reported if the `k` placeholders before it are clean** -/
theorem untrusted_kth_reported (cx : Cx) (key : String) (v : String) (k : Nat) (t : List Nat)
    (hp : Passed cx key true (bytesOf v) k t) (idx : Nat) (hi : AL.Proc.indexOf AL.Proc.open3 t 0 = some idx)
    (h : ∃ e ∈ (checkOne cx key true (t.drop (idx + 3))).2, e.code = "untrusted") :
    ∃ e ∈ (checkExprsIn cx key true v).2, e.code = "untrusted" :=
  (untrusted_reported_iff cx key v).2 ⟨k, t, idx, hp, hi, checkOne_untrusted_none cx key true _ h, h⟩

/-! #### the limit on concrete texts, for every scope -/

def bTitleHeadRef : List Nat :=
  [36, 123, 123, 32, 103, 105, 116, 104, 117, 98, 46, 101, 118, 101, 110, 116, 46, 105, 115, 115, 117, 101, 46, 116, 105,
   116, 108, 101, 32, 125, 125, 32, 36, 123, 123, 32, 103, 105, 116, 104, 117, 98, 46, 104, 101, 97, 100, 95, 114, 101,
   102, 32, 125, 125]
def bHeadRefTitle : List Nat :=
  [36, 123, 123, 32, 103, 105, 116, 104, 117, 98, 46, 104, 101, 97, 100, 95, 114, 101, 102, 32, 125, 125, 32, 36, 123,
   123, 32, 103, 105, 116, 104, 117, 98, 46, 101, 118, 101, 110, 116, 46, 105, 115, 115, 117, 101, 46, 116, 105, 116, 108,
   101, 32, 125, 125]
def bTrueHeadRef : List Nat :=
  [36, 123, 123, 32, 116, 114, 117, 101, 32, 125, 125, 32, 36, 123, 123, 32, 103, 105, 116, 104, 117, 98, 46, 104, 101,
   97, 100, 95, 114, 101, 102, 32, 125, 125]

theorem bytes_titleHeadRef : bytesOf "${{ github.event.issue.title }} ${{ github.head_ref }}" = bTitleHeadRef := by decide +kernel
theorem bytes_headRefTitle : bytesOf "${{ github.head_ref }} ${{ github.event.issue.title }}" = bHeadRefTitle := by decide +kernel
theorem bytes_trueHeadRef : bytesOf "${{ true }} ${{ github.head_ref }}" = bTrueHeadRef := by decide +kernel

/-- **`placeholders-after-first-diagnostic`, on untrusted inputs**: in `${{ github.event.issue.title }} ${{ github.head_ref }}`
the second untrusted input is NOT reported — the result of the scan is that of the first placeholder alone … -/
theorem second_untrusted_input_lost (cx : Cx) (hl : KeepsTitle cx.lower) (key : String) :
    checkExprsIn cx key true "${{ github.event.issue.title }} ${{ github.head_ref }}" =
      checkExprsIn cx key true "${{ github.event.issue.title }}" := by
  rw [title_scan cx hl key]
  have := chain_text_untrusted cx key _ bTitleHeadRef bytes_titleHeadRef 0 (by decide) "github" ["title", "issue", "event"] 28
    (by decide +kernel) ["github.event.issue.title"]
    (by simp only [List.map, hl.github, hl.event, hl.issue, hl.title]; decide +kernel)
  simpa only [List.map, hl.github, hl.event, hl.issue, hl.title] using this

/-- … so no diagnostic names `github.head_ref` -/
theorem second_untrusted_input_lost' (cx : Cx) (hl : KeepsTitle cx.lower) (key : String) :
    ∀ e ∈ (checkExprsIn cx key true "${{ github.event.issue.title }} ${{ github.head_ref }}").2,
      e.code = "untrusted" → e.args = ["github.event.issue.title"] := by
  intro e he hc
  rw [second_untrusted_input_lost cx hl key, title_scan cx hl key] at he
  rcases List.mem_append.1 he with h | h
  · exact absurd hc (check_noUE _ _ e h)
  · rw [List.mem_singleton.1 h]; rfl

/-- in the other order it is `github.event.issue.title` that is lost -/
theorem second_untrusted_input_lost_swapped (cx : Cx) (h1 : cx.lower "github" = "github") (h2 : cx.lower "head_ref" = "head_ref")
    (key : String) :
    checkExprsIn cx key true "${{ github.head_ref }} ${{ github.event.issue.title }}" =
      checkExprsIn cx key true "${{ github.head_ref }}" := by
  rw [headRef_scan cx h1 h2 key]
  have := chain_text_untrusted cx key _ bHeadRefTitle bytes_headRefTitle 0 (by decide) "github" ["head_ref"] 19
    (by decide +kernel) ["github.head_ref"] (by simp only [List.map, h1, h2]; decide +kernel)
  simpa only [List.map, h1, h2] using this

/-- the text after a `${{` lexes (offset `off`) and parses to `true` / `false` -/
def parsesBoolLit (rest : List Nat) (off : Nat) : Bool :=
  match AL.Lex.lexExpression (decodeUtf8 rest), AL.Parse.parseToks (AL.Lex.tokens (decodeUtf8 rest)) with
  | .ok (_, o), .ok (.bool _) => decide (o = off)
  | _, _ => false

/-- a placeholder `${{ true }}` is clean in every scope, with the flag on as well -/
theorem checkOne_of_parsesBoolLit (cx : Cx) (key : String) (u : Bool) (rest : List Nat) (off : Nat)
    (h : parsesBoolLit rest off = true) : checkOne cx key u rest = (some (.bool, off), []) := by
  unfold parsesBoolLit at h
  split at h
  · rename_i ts o b h1 h2
    simp only [decide_eq_true_eq] at h
    unfold checkOne
    simp only [h1, h2, h]
    unfold checkParsed
    have : AL.Insecure.run AL.Gen.untrustedRoots [Ev.leave LeaveKind.other] = [] := by decide +kernel
    simp only [toE, AL.Insecure.evs_bool, this]
    simp only [check_bool, wrap_errs, wrap_ty, List.nil_append]
    cases u <;> rfl
  · cases h

/-- **the positive half on a concrete text**: after a clean placeholder the untrusted input IS reported -/
theorem clean_then_untrusted_reported (cx : Cx) (h1 : cx.lower "github" = "github") (h2 : cx.lower "head_ref" = "head_ref")
    (key : String) :
    checkExprsIn cx key true "${{ true }} ${{ github.head_ref }}" =
      (none, (check (AL.C12R.envOf cx key) (chainE "github" ["head_ref"])).errs ++ [err "untrusted" ["github.head_ref"]]) := by
  have hp : Passed cx key true (bytesOf "${{ true }} ${{ github.head_ref }}") 1 ((bTrueHeadRef.drop (0 + 3)).drop 8) := by
    rw [bytes_trueHeadRef]
    exact Passed.step (idx := 0) (by decide) (checkOne_of_parsesBoolLit cx key true _ 8 (by decide +kernel)) (by decide)
      (Passed.zero _)
  obtain ⟨pe, hc, he⟩ := checkOne_of_parsesChain cx key true ((((bTrueHeadRef.drop (0 + 3)).drop 8)).drop (1 + 3)) "github"
    ["head_ref"] 19 (by decide +kernel)
  have hr := checkParsed_chain cx key pe 19 "github" ["head_ref"] hc ["github.head_ref"]
    (by simp only [List.map, h1, h2]; decide +kernel)
  simp only [List.map, h1, h2] at hr
  exact kth_placeholder_reported cx key true _ 1 _ hp 1 (by decide) _ (he.trans hr)

/-! ## 5. the documented criterion and the code's coincide; concrete workflows

The property (and GitHub: `owner/repo` of `uses:` is resolved case-insensitively) says "the `script` input of
actions/github-script, key and action name in any letter case". The KEY is folded by the parser; the ACTION NAME is
folded by the rule (`strings.ToLower(e.Uses.Value)`, model: `cx.lower u.value`). For a folding function that is ASCII
lower-casing the rule's enumeration IS the documented one (`scriptStrs_eq_doc`).

History. Against the original Go code this was FALSE: `strings.HasPrefix(e.Uses.Value, "actions/github-script@")` tested
the text as written, `uses: Actions/GitHub-Script@v7` had its `script` input checked with the flag OFF and an untrusted
input in it was not reported (former theorems `github_script_other_case_not_scanned`, `github_script_other_case_clean`).
Found here, confirmed on the binary, repaired in the Go code; the model follows, and the former witness is now the
regression theorem `github_script_any_case_reported` (and `github_script_other_case_flagged` in a concrete scope).
(`actionOutputsTy` still tests the text as written: it decides a TYPE, not the flag.) -/

/-- the documented criterion: `actions/github-script@…` in any letter case -/
def isGithubScriptDoc (uses : Option Str) : Bool :=
  match uses with
  | some u => (AL.PW.asciiLower u.value).startsWith "actions/github-script@"
  | none => false

def execScriptStrsDoc : Exec → List Str
  | .run r => r.run.toList
  | .action a =>
    if isGithubScriptDoc a.uses then ((a.inputs.getD []).filter fun kv => kv.1 = "script").map (·.2.value) else []
  | .none => []

/-- the script strings by the documented criterion (no reference to the rule's folding function) -/
def scriptStrsDoc (w : Workflow) : List Str :=
  (w.jobs.getD []).flatMap fun kv => (kv.2.steps.getD []).flatMap fun st => execScriptStrsDoc st.exec

-- what the documented criterion accepts
example : isGithubScriptDoc (some ⟨"Actions/GitHub-Script@v7", false, ⟨1, 1⟩⟩) = true := by decide +kernel
example : isGithubScriptDoc (some ⟨"ACTIONS/GITHUB-SCRIPT@main", false, ⟨1, 1⟩⟩) = true := by decide +kernel
example : isGithubScriptDoc (some ⟨"actions/github-script@60a0d83039c74a4aee543508d2ffcb1c3799cdea", true, ⟨1, 1⟩⟩) = true := by
  decide +kernel
example : isGithubScriptDoc (some ⟨"actions/github-script/sub@v7", false, ⟨1, 1⟩⟩) = false := by decide +kernel
example : isGithubScriptDoc (some ⟨"actions/checkout@v4", false, ⟨1, 1⟩⟩) = false := by decide +kernel
example : isGithubScriptDoc none = false := rfl

/-- the folding function is ASCII lower-casing (what `strings.ToLower` is on ASCII text) -/
def IsAsciiLower (lower : String → String) : Prop := ∀ s, lower s = AL.PW.asciiLower s

theorem isAsciiLower_asciiLower : IsAsciiLower AL.PW.asciiLower := fun _ => rfl
/-- the folding function of the drivers (AL.Facts) -/
theorem isAsciiLower_lowerAscii : IsAsciiLower AL.Facts.lowerAscii := fun _ => rfl

theorem IsAsciiLower.keepsTitle {lower : String → String} (h : IsAsciiLower lower) : KeepsTitle lower :=
  ⟨(h _).trans keepsTitle_asciiLower.github, (h _).trans keepsTitle_asciiLower.event, (h _).trans keepsTitle_asciiLower.issue,
   (h _).trans keepsTitle_asciiLower.title⟩

theorem isGithubScript_eq_doc (lower : String → String) (h : IsAsciiLower lower) (uses : Option Str) :
    isGithubScript lower uses = isGithubScriptDoc uses := by
  cases uses with
  | none => rfl
  | some u => simp only [isGithubScript, isGithubScriptDoc, h u.value]

theorem execScriptStrs_eq_doc (lower : String → String) (h : IsAsciiLower lower) (e : Exec) :
    execScriptStrs lower e = execScriptStrsDoc e := by
  cases e with
  | none => rfl
  | run r => rfl
  | action a => simp only [execScriptStrs, execScriptStrsDoc, isGithubScript_eq_doc lower h]

/-- **the code's criterion IS the documented one**: for a folding function that is ASCII lower-casing, the script strings
the rule switches the flag on for are exactly a step's `run:` and the `script` input of `actions/github-script@…` in
ANY letter case -/
theorem scriptStrs_eq_doc (lower : String → String) (h : IsAsciiLower lower) (w : Workflow) :
    scriptStrs lower w = scriptStrsDoc w := by
  simp only [scriptStrs, scriptStrsDoc, jobScriptStrs]
  exact flatMap_ext _ _ _ fun kv => flatMap_ext _ _ _ fun st => execScriptStrs_eq_doc lower h st.exec

/-- precision and completeness against the DOCUMENTED enumeration -/
theorem untrusted_only_in_documented_scripts (lower : String → String) (h : IsAsciiLower lower) (isNum : IsNumber) (w : Workflow)
    (proj : ProjView) : ∀ d ∈ rule lower isNum w proj, isUntrusted d → ∃ s ∈ scriptStrsDoc w, d.site = s.pos := by
  rw [← scriptStrs_eq_doc lower h]
  exact untrusted_only_in_scripts lower isNum w proj

theorem every_documented_script_checked (lower : String → String) (h : IsAsciiLower lower) (isNum : IsNumber) (w : Workflow)
    (proj : ProjView) (s : Str) (hs : s ∈ scriptStrsDoc w)
    (hu : ∀ key, key = "jobs.<job_id>.steps.run" ∨ key = "jobs.<job_id>.steps.with" → UntrustedUnderL lower key s.value) :
    ∃ d ∈ rule lower isNum w proj, isUntrusted d ∧ d.site = s.pos := by
  rw [← scriptStrs_eq_doc lower h] at hs
  obtain ⟨key, hk⟩ := script_keyed lower w s hs
  exact every_script_checked_L lower isNum w proj s key hk (hu key (scriptKStrs_keys lower w s key hk))

def titleAt (p : RuleExpr.Pos) : Str := ⟨"${{ github.event.issue.title }}", false, p⟩

/-- ```
    jobs:
      build:
        steps:
          - run: ${{ github.event.issue.title }}
            env:
              TITLE: ${{ github.event.issue.title }}
``` -/
def stRunEnv : Step :=
  { exec := .run { run := some (titleAt ⟨4, 14⟩) },
    env := some ⟨some [("title", ⟨⟨"TITLE", false, ⟨6, 11⟩⟩, titleAt ⟨6, 18⟩⟩)], none⟩, pos := ⟨4, 9⟩ }
def jobRunEnv : Job := { id := ⟨"build", false, ⟨2, 3⟩⟩, steps := some [stRunEnv], pos := ⟨2, 3⟩ }
def wRunEnv : Workflow := { jobs := some [("build", jobRunEnv)] }

theorem wRunEnv_scripts (lower : String → String) : scriptStrs lower wRunEnv = [titleAt ⟨4, 14⟩] := rfl

/-- the `run:` of the example is reported … -/
theorem wRunEnv_run_reported (lower : String → String) (hl : KeepsTitle lower) (isNum : IsNumber) (proj : ProjView) :
    (⟨⟨4, 14⟩, "untrusted", ["github.event.issue.title"]⟩ : Diag) ∈ rule lower isNum wRunEnv proj :=
  run_title_reported lower hl isNum wRunEnv proj "build" jobRunEnv (by simp [wRunEnv]) stRunEnv (by simp [jobRunEnv])
    { run := some (titleAt ⟨4, 14⟩) } rfl false ⟨4, 14⟩ rfl

/-- … and the same text in `env:` of the same step is not: every untrusted-input diagnostic is at the `run:` scalar
(for every folding function, number test and project view) -/
theorem wRunEnv_env_not_reported (lower : String → String) (isNum : IsNumber) (proj : ProjView) :
    ∀ d ∈ rule lower isNum wRunEnv proj, isUntrusted d → d.site = ⟨4, 14⟩ ∧ d.site ≠ ⟨6, 18⟩ := by
  intro d hd hu
  obtain ⟨s, hs, e⟩ := untrusted_only_in_scripts lower isNum wRunEnv proj d hd hu
  rw [wRunEnv_scripts, List.mem_singleton] at hs
  rw [e, hs]
  exact ⟨rfl, by decide⟩

/-- ```
    jobs:
      build:
        steps:
          - uses: <spec>
            with:
              script: ${{ github.event.issue.title }}
``` (the parser stores `script:`, `Script:`, `SCRIPT:` under the id `script`) -/
def stScript (spec : String) : Step :=
  { exec := .action { uses := some ⟨spec, false, ⟨4, 15⟩⟩,
                      inputs := some [("script", ⟨⟨"Script", false, ⟨6, 11⟩⟩, titleAt ⟨6, 19⟩⟩)] }, pos := ⟨4, 9⟩ }
def jobScript (spec : String) : Job := { id := ⟨"build", false, ⟨2, 3⟩⟩, steps := some [stScript spec], pos := ⟨2, 3⟩ }
def wScript (spec : String) : Workflow := { jobs := some [("build", jobScript spec)] }

/-- whatever the spelling of `uses:`: if its folded text starts with `actions/github-script@`, the script is reported -/
theorem github_script_spec_reported (lower : String → String) (hl : KeepsTitle lower) (isNum : IsNumber) (proj : ProjView)
    (spec : String) (hs : (lower spec).startsWith "actions/github-script@" = true) :
    (⟨⟨6, 19⟩, "untrusted", ["github.event.issue.title"]⟩ : Diag) ∈ rule lower isNum (wScript spec) proj :=
  github_script_title_reported lower hl isNum _ proj "build" (jobScript spec) (by simp [wScript])
    (stScript spec) (by simp [jobScript]) _ rfl ⟨spec, false, ⟨4, 15⟩⟩ rfl hs
    ⟨⟨"Script", false, ⟨6, 11⟩⟩, titleAt ⟨6, 19⟩⟩ (by simp) false ⟨6, 19⟩ rfl

/-- spelled in lower case, the script is reported -/
theorem github_script_exact_case_reported (lower : String → String) (h : IsAsciiLower lower) (isNum : IsNumber) (proj : ProjView) :
    (⟨⟨6, 19⟩, "untrusted", ["github.event.issue.title"]⟩ : Diag) ∈
      rule lower isNum (wScript "actions/github-script@v7") proj :=
  github_script_spec_reported lower h.keepsTitle isNum proj _ (by rw [h]; decide +kernel)

/-- **REGRESSION (the former defect).** `uses: Actions/GitHub-Script@v7` with `script: ${{ github.event.issue.title }}`
IS scanned with the flag on and reported — for every folding function that is ASCII lower-casing (`AL.PW.asciiLower`,
`AL.Facts.lowerAscii`), every number test and project view -/
theorem github_script_any_case_reported (lower : String → String) (h : IsAsciiLower lower) (isNum : IsNumber) (proj : ProjView) :
    (⟨⟨6, 19⟩, "untrusted", ["github.event.issue.title"]⟩ : Diag) ∈
      rule lower isNum (wScript "Actions/GitHub-Script@v7") proj :=
  github_script_spec_reported lower h.keepsTitle isNum proj _ (by rw [h]; decide +kernel)

theorem github_script_any_case_reported_lowerAscii (isNum : IsNumber) (proj : ProjView) :
    (⟨⟨6, 19⟩, "untrusted", ["github.event.issue.title"]⟩ : Diag) ∈
      rule AL.Facts.lowerAscii isNum (wScript "Actions/GitHub-Script@v7") proj :=
  github_script_any_case_reported _ isAsciiLower_lowerAscii isNum proj

/-- by the documented criterion the `script` input of `Actions/GitHub-Script@v7` is a script string, and so it is for
the rule -/
theorem other_case_is_documented_script : scriptStrsDoc (wScript "Actions/GitHub-Script@v7") = [titleAt ⟨6, 19⟩] := by
  decide +kernel
theorem other_case_is_a_script (lower : String → String) (h : IsAsciiLower lower) :
    scriptStrs lower (wScript "Actions/GitHub-Script@v7") = [titleAt ⟨6, 19⟩] := by
  rw [scriptStrs_eq_doc lower h, other_case_is_documented_script]

/-- the criterion goes through the rule's folding function: with the identity for `lower` (a function that is NOT
lower-casing) the other spelling is not a script string and nothing is reported — the model's `lower` must be the
lower-casing the Go code uses for the theorems above to speak about actionlint -/
theorem github_script_case_goes_through_lower (isNum : IsNumber) (proj : ProjView) :
    NoU (rule id isNum (wScript "Actions/GitHub-Script@v7") proj) :=
  no_script_no_untrusted id isNum _ proj (by decide +kernel)

/-- in the concrete scope of the step (real case folding): the `uses:` scalar is silent, the `script` input gets exactly
the untrusted-input diagnostic — the position is scanned with the flag ON -/
theorem github_script_other_case_flagged :
    (stepExec cxStep (stScript "Actions/GitHub-Script@v7").exec).1 =
      [⟨⟨6, 19⟩, "untrusted", ["github.event.issue.title"]⟩] := by
  have h0 : checkString cxStep (some ⟨"Actions/GitHub-Script@v7", false, ⟨4, 15⟩⟩) "" = [] := by
    have : checkExprsIn cxStep "" false "Actions/GitHub-Script@v7" = (some [], []) := by
      simp only [checkExprsIn]
      rw [show (bytesOf "Actions/GitHub-Script@v7").length = 23 + 1 from by decide +kernel, scan]
      have : AL.Proc.indexOf AL.Proc.open3 (bytesOf "Actions/GitHub-Script@v7") 0 = none := by decide +kernel
      simp only [this]
    simp only [checkString, checkStrU, this]
    rfl
  have h1 : checkScriptString cxStep (some (titleAt ⟨6, 19⟩)) "jobs.<job_id>.steps.with" =
      [⟨⟨6, 19⟩, "untrusted", ["github.event.issue.title"]⟩] := by
    have h := title_scan cxStep keepsTitle_asciiLower "jobs.<job_id>.steps.with"
    have he : AL.C12R.envOf cxStep "jobs.<job_id>.steps.with" = AL.C05S.envOf cxStep "jobs.<job_id>.steps.with" := rfl
    rw [he, (title_sema_ok "jobs.<job_id>.steps.with" (by decide +kernel) (by decide +kernel) (by decide +kernel)
      (by decide +kernel) (by decide +kernel)).1] at h
    simp only [checkScriptString, checkStrU, titleAt, h]
    rfl
  have hs : ((cxStep.lower "Actions/GitHub-Script@v7").startsWith "actions/github-script@") = true := by decide +kernel
  simp only [stScript, stepExec, Option.getD_some, List.flatMap_cons, List.flatMap_nil, hs, Bool.true_and, decide_true,
    if_true, h0, h1, List.append_nil]
  rfl

/-- the example workflow `wRunEnv`, exactly: ONE untrusted-input diagnostic, at the `run:` scalar -/
theorem wRunEnv_untrusted_exactly (lower : String → String) (hl : KeepsTitle lower) (isNum : IsNumber) (proj : ProjView) :
    uf (rule lower isNum wRunEnv proj) = [⟨⟨4, 14⟩, "untrusted", ["github.event.issue.title"]⟩] := by
  rw [rule_untrusted_exact]
  generalize hcx : AL.C05S.jobCxS (AL.C05S.ruleCx lower proj wRunEnv) isNum (wRunEnv.jobs.getD []) jobRunEnv = cx
  have hlow : cx.lower = lower := by
    rw [← hcx]
    simp only [AL.C05S.jobCxS, AL.C05S.jobCx]
    split <;> exact AL.C12R.visitEvents_lower (wRunEnv.on.getD []) { lower := lower, proj := proj }
  have hs := title_scan cx (hlow ▸ hl) "jobs.<job_id>.steps.run"
  simp only [wRunEnv, Option.getD_some, List.flatMap_cons, List.flatMap_nil, List.append_nil, jobRunEnv, stepsScans, stRunEnv,
    execScriptKStrs, Option.toList, AL.C12R.tag, List.map_cons, List.map_nil, scanU, titleAt] at hcx ⊢
  rw [hcx, hs, at_append, uf_append, (NoU.at_ _ (check_noUE _ _)).uf]
  rfl

/-! ## 6. instances of the theorems with hypotheses (none is vacuous) -/

private def p0 : RuleExpr.Pos := ⟨1, 1⟩
private def cx0 : Cx := { lower := id }

example : NoU (mustBe isObjOrAny "must-be-object" "env" (some (titleAt p0)) (some .string, [])).2 :=
  mustBe_noU _ _ _ _ _ (by decide) NoU.nil
example : NoU (if (1 : Nat) = 1 then [(⟨p0, "x", []⟩ : Diag)] else []) :=
  noU_ite _ _ (fun d hd hu => by rw [List.mem_singleton.1 hd] at hu; exact absurd hu (by decide))
example : NoU (includeCombo cx0 (fun _ => false) (.any, [⟨p0, "x", []⟩]) ⟨none, some (titleAt p0)⟩).2 :=
  includeCombo_noU _ _ _ _ (fun d hd hu => by rw [List.mem_singleton.1 hd] at hu; exact absurd hu (by decide))
example : NoU ([1, 2].foldl (fun (acc : Nat × List Diag) (x : Nat) => (acc.1 + x, acc.2 ++ [⟨p0, "x", []⟩])) (0, [])).2 :=
  foldl_noU _ (fun acc x h => h.append (fun d hd hu => by rw [List.mem_singleton.1 hd] at hu; exact absurd hu (by decide))) _ _ NoU.nil
example : NoU (rule id (fun _ => false) (wScript "Actions/GitHub-Script@v7") {}) :=
  no_script_no_untrusted _ _ _ _ (by decide +kernel)
example : ∃ key, (titleAt ⟨4, 14⟩, key) ∈ scriptKStrs AL.PW.asciiLower wRunEnv := script_keyed AL.PW.asciiLower wRunEnv _ (by rw [wRunEnv_scripts]; simp)
example : titleAt ⟨4, 14⟩ ∈ scriptStrs AL.PW.asciiLower wRunEnv := keyed_is_script AL.PW.asciiLower wRunEnv _ "jobs.<job_id>.steps.run" (by decide +kernel)
example : "jobs.<job_id>.steps.run" = "jobs.<job_id>.steps.run" ∨ "jobs.<job_id>.steps.run" = "jobs.<job_id>.steps.with" :=
  scriptKStrs_keys AL.PW.asciiLower wRunEnv (titleAt ⟨4, 14⟩) _ (by decide +kernel)
example : titleAt ⟨4, 14⟩ ∈ valueStrs wRunEnv := scriptStrs_sub_valueStrs AL.PW.asciiLower wRunEnv _ (by rw [wRunEnv_scripts]; simp)
example : (titleAt ⟨6, 19⟩, "jobs.<job_id>.steps.with") ∈ AL.C12R.keyedStrs (wScript "Actions/GitHub-Script@v7") :=
  scriptKStrs_sub_keyedStrs AL.PW.asciiLower _ _ (by decide +kernel)
example : titleAt ⟨4, 14⟩ ∈ execStrs stRunEnv.exec := execScriptStrs_sub AL.PW.asciiLower _ _ (by decide +kernel)
example : titleAt ⟨4, 14⟩ ∈ stepStrs stRunEnv := stepScriptStrs_sub AL.PW.asciiLower _ _ (by decide +kernel)
example : titleAt ⟨4, 14⟩ ∈ jobStrs jobRunEnv := jobScriptStrs_sub AL.PW.asciiLower _ _ (by decide +kernel)
example : (titleAt ⟨4, 14⟩, "jobs.<job_id>.steps.run") ∈ AL.C12R.execKStrs stRunEnv.exec :=
  execScriptKStrs_sub AL.PW.asciiLower _ _ (by decide +kernel)

-- precision: the diagnostic of `wRunEnv` is at a script string
example : ∃ s ∈ scriptStrs id wRunEnv, (⟨⟨4, 14⟩, "untrusted", ["github.event.issue.title"]⟩ : Diag).site = s.pos :=
  untrusted_only_in_scripts id (fun _ => false) wRunEnv {} _ (wRunEnv_run_reported id keepsTitle_id _ {}) rfl

-- completeness, inclusion form and sharp form, on the github-script example
example : ScannedOn AL.PW.asciiLower {} (rule AL.PW.asciiLower (fun _ => false) (wScript "Actions/GitHub-Script@v7") {})
    (titleAt ⟨6, 19⟩) "jobs.<job_id>.steps.with" :=
  script_scanned_with_flag_on _ _ _ _ _ _ (by decide +kernel)
example : ∃ d ∈ rule AL.PW.asciiLower (fun _ => false) (wScript "Actions/GitHub-Script@v7") {},
    isUntrusted d ∧ d.site = ⟨6, 19⟩ :=
  every_script_checked_L _ _ _ _ (titleAt ⟨6, 19⟩) "jobs.<job_id>.steps.with" (by decide +kernel)
    (title_untrusted _ keepsTitle_asciiLower _)
example : ScannedOn cxStep.lower cxStep.proj (stepExec cxStep stRunEnv.exec).1 (titleAt ⟨4, 14⟩) "jobs.<job_id>.steps.run" :=
  stepExec_scanned cxStep _ _ _ (by decide +kernel)
example : ScannedOn cxStep.lower cxStep.proj (visitStep cxStep stRunEnv).2 (titleAt ⟨4, 14⟩) "jobs.<job_id>.steps.run" :=
  visitStep_scanned cxStep _ _ _ (by decide +kernel)
example : ScannedOn cxStep.lower cxStep.proj (visitSteps cxStep [stRunEnv]).2 (titleAt ⟨4, 14⟩) "jobs.<job_id>.steps.run" :=
  visitSteps_scanned _ _ _ cxStep rfl rfl (by decide +kernel)
example : ScannedOn cxStep.lower cxStep.proj (visitJob cxStep (fun _ => false) [] jobRunEnv) (titleAt ⟨4, 14⟩)
    "jobs.<job_id>.steps.run" :=
  visitJob_scanned cxStep _ _ _ _ _ (by decide +kernel)

-- the hypothesis of the completeness theorem, and the chain lemmas
example : UntrustedUnderL id "jobs.<job_id>.steps.run" "${{ github.event.issue.title }}" := title_untrusted id keepsTitle_id _
example : UntrustedUnderL AL.PW.asciiLower "" "${{ github.head_ref }}" :=
  headRef_untrusted _ (by decide +kernel) (by decide +kernel) _
example : toE id (.objDeref (.var []) []) = chainE "" [""] := toE_chain id _ "" [""] (by decide +kernel)
example : ∃ pe, chainOf pe = some ("github", ["head_ref"]) ∧
    checkOne cx0 "" true (bHeadRef.drop (0 + 3)) = checkParsed cx0 "" true pe 19 :=
  checkOne_of_parsesChain cx0 "" true _ _ _ _ parses_headRef
example : checkExprsIn cx0 "" true "${{ github.head_ref }} ${{ github.event.issue.title }}" =
    checkExprsIn cx0 "" true "${{ github.head_ref }}" := second_untrusted_input_lost_swapped cx0 rfl rfl ""
example : checkExprsIn cx0 "" true "${{ github.event.issue.title }} ${{ github.head_ref }}" =
    checkExprsIn cx0 "" true "${{ github.event.issue.title }}" := second_untrusted_input_lost cx0 keepsTitle_id ""
example : checkOne cx0 "" true (bTrueHeadRef.drop (0 + 3)) = (some (.bool, 8), []) :=
  checkOne_of_parsesBoolLit cx0 "" true _ 8 (by decide +kernel)

-- the limit: one clean placeholder passed, the second one reported
example : ∃ e ∈ (checkExprsIn cx0 "" true "${{ true }} ${{ github.head_ref }}").2, e.code = "untrusted" := by
  rw [clean_then_untrusted_reported cx0 rfl rfl ""]
  exact ⟨_, List.mem_append_right _ (List.mem_singleton.2 rfl), rfl⟩
example : ∃ k t idx, Passed cx0 "" true (bytesOf "${{ true }} ${{ github.head_ref }}") k t ∧
    AL.Proc.indexOf AL.Proc.open3 t 0 = some idx ∧ (checkOne cx0 "" true (t.drop (idx + 3))).1 = none ∧
    ∃ e ∈ (checkOne cx0 "" true (t.drop (idx + 3))).2, e.code = "untrusted" :=
  (untrusted_reported_iff cx0 "" _).1 (by
    rw [clean_then_untrusted_reported cx0 rfl rfl ""]
    exact ⟨_, List.mem_append_right _ (List.mem_singleton.2 rfl), rfl⟩)

-- §4 on the text `${{ true }} ${{ github.head_ref }}`: one placeholder passed, then the loop stands before the second
theorem ex_passed : Passed cx0 "" true (bytesOf "${{ true }} ${{ github.head_ref }}") 1 ((bTrueHeadRef.drop (0 + 3)).drop 8) := by
  rw [bytes_trueHeadRef]
  exact Passed.step (idx := 0) (by decide) (checkOne_of_parsesBoolLit cx0 "" true _ 8 (by decide +kernel)) (by decide)
    (Passed.zero _)
theorem ex_second : ∃ e ∈ (checkOne cx0 "" true (((bTrueHeadRef.drop (0 + 3)).drop 8).drop (1 + 3))).2, e.code = "untrusted" := by
  obtain ⟨pe, hc, he⟩ := checkOne_of_parsesChain cx0 "" true ((((bTrueHeadRef.drop (0 + 3)).drop 8)).drop (1 + 3)) "github"
    ["head_ref"] 19 (by decide +kernel)
  rw [he, checkParsed_chain cx0 "" pe 19 "github" ["head_ref"] hc ["github.head_ref"] (by decide +kernel)]
  exact ⟨_, List.mem_append_right _ (List.mem_singleton.2 rfl), rfl⟩

example : ∃ fuel' ts', ((bTrueHeadRef.drop (0 + 3)).drop 8).length ≤ fuel' ∧
    scan cx0 "" true 34 (bytesOf "${{ true }} ${{ github.head_ref }}") [] =
      scan cx0 "" true fuel' ((bTrueHeadRef.drop (0 + 3)).drop 8) ts' :=
  scan_passed cx0 "" true ex_passed 34 [] (by rw [bytes_trueHeadRef]; decide)
example : ∃ e ∈ (checkExprsIn cx0 "" true "${{ true }} ${{ github.head_ref }}").2, e.code = "untrusted" :=
  untrusted_kth_reported cx0 "" _ 1 _ ex_passed 1 (by decide) ex_second
example : (checkOne cx0 "" true (((bTrueHeadRef.drop (0 + 3)).drop 8).drop (1 + 3))).1 = none :=
  checkOne_untrusted_none cx0 "" true _ ex_second
example : checkExprsIn cx0 "" true "${{ true }} ${{ github.head_ref }}" =
    (none, (checkOne cx0 "" true (((bTrueHeadRef.drop (0 + 3)).drop 8).drop (1 + 3))).2) :=
  kth_placeholder_reported cx0 "" true _ 1 _ ex_passed 1 (by decide) _
    (by rw [← checkOne_untrusted_none cx0 "" true _ ex_second])
example : ∃ k t idx, Passed cx0 "" true (bytesOf "${{ github.head_ref }}") k t ∧
    AL.Proc.indexOf AL.Proc.open3 t 0 = some idx ∧
    checkOne cx0 "" true (t.drop (idx + 3)) = (none, (checkExprsIn cx0 "" true "${{ github.head_ref }}").2) :=
  checkExprsIn_diags_from_first_bad cx0 "" true _ (by rw [headRef_scan cx0 rfl rfl ""]; simp)
example : ∀ e ∈ (checkExprsIn cx0 "" true "${{ github.event.issue.title }} ${{ github.head_ref }}").2,
    e.code = "untrusted" → e.args = ["github.event.issue.title"] := second_untrusted_input_lost' cx0 keepsTitle_id ""
example : checkExprsIn cx0 "k" true "${{ github.head_ref }}" =
    (none, (check (AL.C12R.envOf cx0 "k") (chainE "github" ["head_ref"])).errs ++ [err "untrusted" ["github.head_ref"]]) :=
  chain_text_untrusted cx0 "k" _ bHeadRef bytes_headRef 0 (by decide) "github" ["head_ref"] 19 parses_headRef _ (by decide +kernel)
example : checkExprsIn cx0 "" false "${{" = (none, [err "syntax-error" []]) :=
  checkExprsIn_first cx0 "" false "${{" [36, 123, 123] (by decide +kernel) 0 (by decide) _
    (checkOne_of_lex_error cx0 "" false _ lex_empty_fails)
example : (some 3).getD 0 = 3 ∧ some 3 = some ((some 3).getD 0) := ⟨rfl, getD_of_isSome (some 3) 0 rfl⟩
example : (titleAt ⟨4, 14⟩, "jobs.<job_id>.steps.run") ∈ scriptKStrs id wRunEnv :=
  job_script_keyed (lower := id) (id := "build") (j := jobRunEnv) (by simp [wRunEnv]) (st := stRunEnv) (by simp [jobRunEnv]) (by decide +kernel)
example : Loc [titleAt ⟨4, 14⟩] (stepExec cxStep stRunEnv.exec).1 := stepExec_loc cxStep _
example : Loc [titleAt ⟨4, 14⟩, titleAt p0] (stepExec cxStep stRunEnv.exec).1 :=
  (stepExec_loc cxStep stRunEnv.exec).mono fun s h => by
    have : s = titleAt ⟨4, 14⟩ := by simpa [execScriptStrs, stRunEnv] using h
    rw [this]; simp
example : ScannedOn cxStep.lower cxStep.proj ((stepExec cxStep stRunEnv.exec).1 ++ []) (titleAt ⟨4, 14⟩) "jobs.<job_id>.steps.run" :=
  (stepExec_scanned cxStep _ _ _ (by decide +kernel)).left

end AL.C11R
