import AL.Lemmas.C20DBase
import AL.Lemmas.C20DParse
import AL.Props.C20
import AL.Props.C05Doc
import AL.Props.C11Doc
/-
  C20 — which scripts reach shellcheck / pyflakes, on the real AST.

  §1 `shellView` (AL/Lemmas/C20DBase.lean): the abstraction the visitor callbacks of rule_shellcheck.go / rule_pyflakes.go
     read off `*Workflow`.  NOT `AL.Rules.platformOf`: shellcheck's `VisitJobPre` sets `pwsh` as soon as ONE literal label,
     lower-cased, is `windows` / starts with `windows-`; rule_shell_name.go's `getPlatformFromRunner` gives up (`any`) when
     labels of two platforms occur (`platform_differs`, `platform_windows_pwsh`).
  §2 `sc_handed_exact` / `py_handed_exact`: the invocations the model (AL.ShellVisit on `shellView w`) decides are exactly
     the `run:` steps whose effective shell, defined directly on the AST (`effShell` / `effPython`), is sh / bash
     (resp. python), in order, each once.
  §3 from the DOCUMENT, for documents the parser accepts without a diagnostic: the field lemmas `step_shell_written`,
     `step_runPos_written`, `job_defShell_written`, `wf_defShell_written`, `labels_written` (parser side:
     AL/Lemmas/C20DParse.lean), then `doc_sc_handed_written` / `doc_py_handed_written`: the invocations are the elements of
     `steps:` with a `run:` key whose effective shell BY THE PRECEDENCE RULE OVER WHAT IS WRITTEN (`docEffShell`) is sh / bash
     (resp. python); `isStepRun_iff`, `sc_handed_is_stepRun`, `py_handed_is_stepRun`: the scripts are the `IsStepRun` scalars.
     (`shell: ""` is refused by the parser, so on documents the two rules use the same precedence; on the AST they differ:
     `empty_default_diverges`.)
  §4 `sc_stdin_positions`, `py_stdin_positions`: what is sent keeps every byte position of the script.
  §5 a concrete document with four jobs: `example_handed`, `example_handed_written`.

  Tie: `shellView` is a Lean definition; the differential check of C20 (op `shellvisit`, Driver/Proc.lean) feeds
  `AL.ShellVisit.WfS` values that the Go harness encodes from ITS generator's records.  To tie `shellView`, an op that parses
  the generated YAML with `AL.PW.parse` and runs `scHanded` / `pyHanded` is needed (see the report).
-/
namespace AL.C20D
open AL.Ast AL.Proc AL.ShellVisit AL.Yaml
open AL.Rules (jobsOf stepsOf defaultsShell platformOf Platform)
open AL.Props.C20Shell (sc_exact py_exact scExpected pyExpected)

/-! ## 2. the invocations, on the AST -/

theorem scPickModel_eq (lower : String → String) (w : Workflow) (j : Job) (s : Step) :
    scPickModel s (scExpected lower (shellView w) (jobView j) (stepView s)) = scPick lower w j s := by
  unfold scPickModel scPick scriptOf scExpected stepView
  rw [jobView_shell, shellView_shell]
  cases hx : s.exec with
  | none => rfl
  | action a => rfl
  | run e =>
    simp only
    cases hr : e.run with
    | none => rfl
    | some r =>
      simp only [Option.map_some, Option.isSome_some, if_true]
      rw [show (jobView j).labels = labelsOf j from rfl, effectiveShell_eq]

/-- **shellcheck, exactly**: the invocations the model decides for `shellView w` are, job by job in the order of
`Workflow.Jobs` and step by step, the `run:` steps whose effective shell (`effShell`: step > job default > workflow default >
runner default, an empty default counting as absent) is `sh` / `bash` / starts with `sh ` / `bash ` — each once, with its
script text, the position of its `run:` key and the shell passed after `--shell`; a step whose effective shell is anything
else (`pwsh`, `python`, `${{ … }}`, an unknown name) is skipped -/
theorem sc_handed_exact (lower : String → String) (w : Workflow) :
    scHanded lower w = (jobsOf w).flatMap fun j => (stepsOf j).filterMap (scPick lower w j) := by
  unfold scHanded
  rw [sc_exact lower (shellView w)]
  show (List.zipWith _ (jobsOf w) (((jobsOf w).map jobView).map _)).flatten = _
  rw [List.map_map, zipWith_map_self, flatten_map]
  apply flatMap_congr'
  intro j _
  show (List.zipWith scPickModel (stepsOf j) (((stepsOf j).map stepView).map _)).filterMap id = _
  rw [List.map_map, zipWith_map_self, filterMap_id_map]
  apply filterMap_congr'
  intro s _
  exact scPickModel_eq lower w j s

theorem pyPickModel_eq (w : Workflow) (j : Job) (s : Step) :
    pyPickModel s (pyExpected (shellView w) (jobView j) (stepView s)) = pyPick w j s := by
  unfold pyPickModel pyPick scriptOf pyExpected stepView
  cases hx : s.exec with
  | none => rfl
  | action a => rfl
  | run e =>
    simp only
    cases hr : e.run with
    | none => rfl
    | some r =>
      simp only [Option.map_some, Option.isSome_some, Bool.true_and]
      rw [show (jobView j).hasDefaultsRun = hasRun j.defaults from rfl, show (jobView j).defShell = defShellText j.defaults from rfl,
        show (shellView w).hasDefaultsRun = hasRun w.defaults from rfl, show (shellView w).defShell = defShellText w.defaults from rfl,
        isPython_eq]

/-- **pyflakes, exactly**: the `run:` steps that are Python by `effPython` (step > job default > workflow default, by
presence; `python` or `python …`), in order, each once, with script text and position -/
theorem py_handed_exact (w : Workflow) :
    pyHanded w = (jobsOf w).flatMap fun j => (stepsOf j).filterMap (pyPick w j) := by
  unfold pyHanded
  rw [py_exact (shellView w)]
  show (List.zipWith _ (jobsOf w) (((jobsOf w).map jobView).map _)).flatten = _
  rw [List.map_map, zipWith_map_self, flatten_map]
  apply flatMap_congr'
  intro j _
  show (List.zipWith pyPickModel (stepsOf j) (((stepsOf j).map stepView).map _)).filterMap id = _
  rw [List.map_map, zipWith_map_self, filterMap_id_map]
  apply filterMap_congr'
  intro s _
  exact pyPickModel_eq w j s

/-- after the workflow both rules are back in their initial state: nothing leaks into the next workflow -/
theorem handed_resets (lower : String → String) (w : Workflow) :
    (scWorkflow lower ScSt.init (shellView w)).1 = ScSt.init ∧ (pyWorkflow PySt.init (shellView w)).1 = PySt.init :=
  ⟨AL.Props.C20Shell.sc_resets lower (shellView w), AL.Props.C20Shell.py_resets (shellView w)⟩

/-- the decision for a step reads the step, ITS job and the workflow's defaults only — not the other jobs: two workflows
with the same `defaults` give the same invocation for a step of a job -/
theorem scPick_local (lower : String → String) (w w' : Workflow) (hd : w.defaults = w'.defaults) (j : Job) (s : Step) :
    scPick lower w j s = scPick lower w' j s := by
  unfold scPick effShell
  rw [hd]

theorem pyPick_local (w w' : Workflow) (hd : w.defaults = w'.defaults) (j : Job) (s : Step) :
    pyPick w j s = pyPick w' j s := by
  unfold pyPick effPython
  rw [hd]

/-- membership form: an invocation is made iff it is the one of some `run:` step of some job -/
theorem sc_handed_mem (lower : String → String) (w : Workflow) (h : Handed) :
    h ∈ scHanded lower w ↔ ∃ j ∈ jobsOf w, ∃ s ∈ stepsOf j, scPick lower w j s = some h := by
  rw [sc_handed_exact]
  simp only [List.mem_flatMap, List.mem_filterMap]

theorem py_handed_mem (w : Workflow) (h : String × Option Yaml.Pos) :
    h ∈ pyHanded w ↔ ∃ j ∈ jobsOf w, ∃ s ∈ stepsOf j, pyPick w j s = some h := by
  rw [py_handed_exact]
  simp only [List.mem_flatMap, List.mem_filterMap]

/-- a step with a `shell:` is decided by that text alone -/
theorem scPick_step_shell (lower : String → String) (w : Workflow) (j : Job) (s : Step) (e : ExecRun) (r sh : Str)
    (hx : s.exec = .run e) (hr : e.run = some r) (hs : e.shell = some sh) :
    scPick lower w j s = (shellcheckShell sh.value).map fun x => ⟨r.value, e.runPos, x⟩ := by
  simp only [scPick, hx, hr, effShell, hs]

/-- … so `shell: ${{ matrix.shell }}` (or any name that is not sh / bash) is never checked, whatever the defaults say -/
theorem scPick_skipped (lower : String → String) (w : Workflow) (j : Job) (s : Step) (e : ExecRun) (r sh : Str)
    (hx : s.exec = .run e) (hr : e.run = some r) (hs : e.shell = some sh) (hn : shellcheckShell sh.value = none) :
    scPick lower w j s = none := by
  rw [scPick_step_shell lower w j s e r sh hx hr hs, hn]; rfl

/-! ### the two rules disagree on an EMPTY default shell (on the AST; the parser refuses `shell: ""`, see §3) -/

private def emptyStr : Str := ⟨"", false, ⟨3, 14⟩⟩
private def wEmpty : Workflow :=
  { defaults := some ⟨some { shell := some ⟨"python", false, ⟨1, 1⟩⟩, pos := ⟨1, 1⟩ }, ⟨1, 1⟩⟩ }
private def jEmpty : Job :=
  { id := ⟨"a", false, ⟨2, 3⟩⟩, pos := ⟨2, 3⟩, defaults := some ⟨some { shell := some emptyStr, pos := ⟨3, 7⟩ }, ⟨3, 5⟩⟩ }
private def eEmpty : ExecRun := { run := some ⟨"x", false, ⟨5, 14⟩⟩, runPos := some ⟨5, 9⟩ }

/-- job `defaults.run.shell: ""` under a workflow default `python`: shellcheck's rule falls through to the workflow
default (python: skipped), pyflakes' rule stops at the job's (not python: skipped) — NEITHER tool sees the script -/
theorem empty_default_diverges :
    effShell id wEmpty jEmpty eEmpty = "python" ∧ effPython wEmpty jEmpty eEmpty = false := by
  constructor <;> decide +kernel


/-! ## 3. from the DOCUMENT -/

section Doc
open AL.PW AL.C05D

/-- the precedence rule itself: step > job default > workflow default > runner default -/
def precedence (step job wf : Option String) (windows : Bool) : String :=
  match step with
  | some s => s
  | none =>
    match job with
    | some s => s
    | none =>
      match wf with
      | some s => s
      | none => if windows then "pwsh" else "bash"

theorem effShell_precedence (lower : String → String) (w : Workflow) (j : Job) (e : ExecRun) :
    effShell lower w j e = precedence (e.shell.map (·.value)) (nonEmpty (defShellText j.defaults))
      (nonEmpty (defShellText w.defaults)) (isWindowsJob lower j) := by
  unfold effShell precedence
  cases e.shell <;> rfl

/-- the text written at `<n>: defaults: run: shell:` (`n`: a job node, or the root mapping) -/
def docDefShell (n : Node) : Option String := ((mget n "defaults").bind docRunShellNode).map (·.value)

/-- the workflow's `defaults.run.shell` as written -/
def docWfDefShell (doc : Node) : Option String := (docRoot doc).bind docDefShell

theorem defaults_shell_written (cfg : Cfg) (n : Node) (d : Option Defaults)
    (hd : d = (mpair n "defaults").map (fun p => (parseDefaults cfg p.1.pos p.2).1))
    (hc : ∀ p, mpair n "defaults" = some p → (parseDefaults cfg p.1.pos p.2).2 = []) :
    defShellText d = docDefShell n ∧ docDefShell n ≠ some "" ∧ hasRun d = (mget n "defaults").isSome := by
  subst hd
  unfold docDefShell mget
  cases hp : mpair n "defaults" with
  | none => exact ⟨rfl, by simp, rfl⟩
  | some p =>
    obtain ⟨h1, h2, h3⟩ := parseDefaults_clean cfg p.1.pos p.2 (hc p hp)
    simp only [Option.map_some, Option.bind_some, defShellText, h2, Option.map_map, Option.isSome_some]
    refine ⟨rfl, ?_, h1⟩
    cases hv : docRunShellNode p.2 with
    | none => simp
    | some v =>
      simp only [Option.map_some, ne_eq, Option.some.injEq]
      exact h3 v hv

/-- **a job's `defaults.run.shell` in the AST is the text written at `defaults: run: shell:` of the job**, never empty; and
`defaults.run` is there iff `defaults:` is written -/
theorem job_defShell_written (cfg : Cfg) (doc : Node) (h : (parse cfg doc).2 = []) (p : Node × Node) (hp : p ∈ docJobs doc) :
    defShellText (docJob cfg p).defaults = docDefShell p.2 ∧ docDefShell p.2 ≠ some "" ∧
    hasRun (docJob cfg p).defaults = (mget p.2 "defaults").isSome := by
  obtain ⟨h1, h2⟩ := parseJob_defaults cfg (newString p.1) p.2 (job_clean cfg doc h p hp)
  exact defaults_shell_written cfg p.2 _ h1 h2

/-- **the workflow's `defaults.run.shell` in the AST is the text written at the root's `defaults: run: shell:`** -/
theorem wf_defShell_written (cfg : Cfg) (doc : Node) (h : (parse cfg doc).2 = []) :
    defShellText (parse cfg doc).1.defaults = docWfDefShell doc ∧ docWfDefShell doc ≠ some "" := by
  obtain ⟨root, hroot, h1, h2⟩ := parse_defaults cfg doc h
  have := defaults_shell_written cfg root _ h1 h2
  simp only [docWfDefShell, hroot, Option.bind_some]
  exact ⟨this.1, this.2.1⟩

theorem nonEmpty_of_ne (o : Option String) (h : o ≠ some "") : nonEmpty o = o := by
  cases o with
  | none => rfl
  | some s =>
    have : s ≠ "" := fun e => h (by rw [e])
    simp [nonEmpty, this]

/-- **the `shell:` of a step of the AST is the `shell:` scalar of the step node** -/
theorem step_shell_written (cfg : Cfg) (doc : Node) (h : (parse cfg doc).2 = []) (p : Node × Node) (hp : p ∈ docJobs doc)
    (c : Node) (hc : c ∈ docSteps p.2) : shellOf (docStep cfg c) = (mget c "shell").map newString :=
  parseStep_shell cfg c (step_clean cfg doc h p hp c hc)

/-- **`RunPos` of a step of the AST is the position of the `run` key of the step node** -/
theorem step_runPos_written (cfg : Cfg) (doc : Node) (h : (parse cfg doc).2 = []) (p : Node × Node) (hp : p ∈ docJobs doc)
    (c : Node) (hc : c ∈ docSteps p.2) : runPosOf (docStep cfg c) = (mpair c "run").map (·.1.pos) :=
  parseStep_runPos cfg c (step_clean cfg doc h p hp c hc)

/-- the effective shell of the step node `c` of the job pair `p`, from what is written (the runner default from the labels
`ls` of the job) -/
def docEffShell (lower : String → String) (doc : Node) (ls : List String) (p : Node × Node) (c : Node) : String :=
  precedence ((mget c "shell").map (·.value)) (docDefShell p.2) (docWfDefShell doc) (ls.any (isWindowsLabel lower))

def docScPick (lower : String → String) (doc : Node) (ls : List String) (p : Node × Node) (c : Node) : Option Handed :=
  match mpair c "run" with
  | some r => (shellcheckShell (docEffShell lower doc ls p c)).map fun sh => ⟨r.2.value, some r.1.pos, sh⟩
  | none => none

def docPyPick (lower : String → String) (doc : Node) (ls : List String) (p : Node × Node) (c : Node) : Option (String × Option Yaml.Pos) :=
  match mpair c "run" with
  | some r => if isPyName (docEffShell lower doc ls p c) then some (r.2.value, some r.1.pos) else none
  | none => none

theorem isPyName_defaults : isPyName "pwsh" = false ∧ isPyName "bash" = false := by
  constructor <;> decide +kernel

/-- for pyflakes the runner default never matters: the precedence by presence is the precedence rule -/
theorem effPython_precedence (w : Workflow) (j : Job) (e : ExecRun) (win : Bool) :
    effPython w j e = isPyName (precedence (e.shell.map (·.value)) (defShellText j.defaults) (defShellText w.defaults) win) := by
  unfold effPython precedence
  cases e.shell with
  | some s => rfl
  | none =>
    cases defShellText j.defaults with
    | some s => rfl
    | none =>
      cases defShellText w.defaults with
      | some s => rfl
      | none => cases win <;> simp [isPyName_defaults]

/-- what the three readers say about a step whose `exec` is known -/
theorem step_exec_written (cfg : Cfg) (doc : Node) (h : (parse cfg doc).2 = []) (p : Node × Node) (hp : p ∈ docJobs doc)
    (c : Node) (hc : c ∈ docSteps p.2) :
    (∀ e, (docStep cfg c).exec = .run e →
      e.run = (mget c "run").map newString ∧ e.shell = (mget c "shell").map newString ∧ e.runPos = (mpair c "run").map (·.1.pos)) ∧
    ((∀ e, (docStep cfg c).exec ≠ .run e) → mpair c "run" = none) := by
  have h1 := step_run_written cfg doc h p hp c hc
  have h2 := step_shell_written cfg doc h p hp c hc
  have h3 := step_runPos_written cfg doc h p hp c hc
  refine ⟨?_, ?_⟩
  · intro e he
    simp only [runOf, shellOf, runPosOf, he] at h1 h2 h3
    exact ⟨h1, h2, h3⟩
  · intro hne
    cases hx : (docStep cfg c).exec with
    | run e => exact absurd hx (hne e)
    | none =>
      simp only [runPosOf, hx] at h3
      cases hm : mpair c "run" with
      | none => rfl
      | some r => rw [hm] at h3; cases h3
    | action a =>
      simp only [runPosOf, hx] at h3
      cases hm : mpair c "run" with
      | none => rfl
      | some r => rw [hm] at h3; cases h3

theorem scPick_written (cfg : Cfg) (doc : Node) (h : (parse cfg doc).2 = []) (p : Node × Node) (hp : p ∈ docJobs doc)
    (c : Node) (hc : c ∈ docSteps p.2) :
    scPick cfg.lower (parse cfg doc).1 (docJob cfg p) (docStep cfg c) =
      docScPick cfg.lower doc (labelsOf (docJob cfg p)) p c := by
  obtain ⟨hrun, hnorun⟩ := step_exec_written cfg doc h p hp c hc
  obtain ⟨hj, hjne, _⟩ := job_defShell_written cfg doc h p hp
  obtain ⟨hw, hwne⟩ := wf_defShell_written cfg doc h
  unfold scPick docScPick
  cases hx : (docStep cfg c).exec with
  | run e =>
    obtain ⟨h1, h2, h3⟩ := hrun e hx
    simp only
    unfold docEffShell
    rw [effShell_precedence, hj, hw, nonEmpty_of_ne _ hjne, nonEmpty_of_ne _ hwne, h1, h2, h3]
    simp only [mget, isWindowsJob]
    cases hm : mpair c "run" with
    | none => rfl
    | some r => simp only [Option.map_some, Option.map_map]; rfl
  | none => rw [hnorun (fun e he => by rw [hx] at he; cases he)]
  | action a => rw [hnorun (fun e he => by rw [hx] at he; cases he)]

theorem pyPick_written (cfg : Cfg) (doc : Node) (h : (parse cfg doc).2 = []) (p : Node × Node) (hp : p ∈ docJobs doc)
    (c : Node) (hc : c ∈ docSteps p.2) :
    pyPick (parse cfg doc).1 (docJob cfg p) (docStep cfg c) =
      docPyPick cfg.lower doc (labelsOf (docJob cfg p)) p c := by
  obtain ⟨hrun, hnorun⟩ := step_exec_written cfg doc h p hp c hc
  obtain ⟨hj, hjne, _⟩ := job_defShell_written cfg doc h p hp
  obtain ⟨hw, hwne⟩ := wf_defShell_written cfg doc h
  unfold pyPick docPyPick
  cases hx : (docStep cfg c).exec with
  | run e =>
    obtain ⟨h1, h2, h3⟩ := hrun e hx
    simp only
    unfold docEffShell
    rw [effPython_precedence _ _ _ ((labelsOf (docJob cfg p)).any (isWindowsLabel cfg.lower)), hj, hw, h1, h2, h3]
    simp only [mget]
    cases hm : mpair c "run" with
    | none => rfl
    | some r => simp only [Option.map_some, Option.map_map]; rfl
  | none => rw [hnorun (fun e he => by rw [hx] at he; cases he)]
  | action a => rw [hnorun (fun e he => by rw [hx] at he; cases he)]

theorem flatMap_map' {α β γ : Type} (f : α → β) (g : β → List γ) : ∀ (l : List α), (l.map f).flatMap g = l.flatMap fun a => g (f a)
  | [] => rfl
  | a :: l => by simp [flatMap_map' f g l]

theorem jobsOf_written (cfg : Cfg) (doc : Node) (h : (parse cfg doc).2 = []) :
    jobsOf (parse cfg doc).1 = (docJobs doc).map (docJob cfg) := by
  have := jobs_written cfg doc h
  unfold docJobsAst at this
  unfold AL.Rules.jobsOf
  rw [this, List.map_map]
  rfl

/-- **shellcheck, from the document**: for a document the parser accepts without a diagnostic, the invocations are — pair
by pair of `jobs:`, element by element of `steps:` — the elements that have a `run:` key and whose effective shell, by the
precedence rule over what is WRITTEN (the step's `shell:`, the job's `defaults: run: shell:`, the root's
`defaults: run: shell:`, `pwsh` if a literal label of the job's `runs-on` is a Windows label, else `bash`), is sh / bash:
with the text of the `run:` scalar and the position of the `run` key -/
theorem doc_sc_handed (cfg : Cfg) (doc : Node) (h : (parse cfg doc).2 = []) :
    scHanded cfg.lower (parse cfg doc).1 =
      (docJobs doc).flatMap fun p => (docSteps p.2).filterMap (docScPick cfg.lower doc (labelsOf (docJob cfg p)) p) := by
  rw [sc_handed_exact, jobsOf_written cfg doc h, flatMap_map']
  apply flatMap_congr'
  intro p hp
  show (AL.Rules.stepsOf (docJob cfg p)).filterMap _ = _
  unfold AL.Rules.stepsOf
  rw [steps_written cfg doc h p hp, List.filterMap_map]
  apply filterMap_congr'
  intro c hc
  exact scPick_written cfg doc h p hp c hc

/-- **pyflakes, from the document**: the same with "is `python` or starts with `python `" -/
theorem doc_py_handed (cfg : Cfg) (doc : Node) (h : (parse cfg doc).2 = []) :
    pyHanded (parse cfg doc).1 =
      (docJobs doc).flatMap fun p => (docSteps p.2).filterMap (docPyPick cfg.lower doc (labelsOf (docJob cfg p)) p) := by
  rw [py_handed_exact, jobsOf_written cfg doc h, flatMap_map']
  apply flatMap_congr'
  intro p hp
  show (AL.Rules.stepsOf (docJob cfg p)).filterMap _ = _
  unfold AL.Rules.stepsOf
  rw [steps_written cfg doc h p hp, List.filterMap_map]
  apply filterMap_congr'
  intro c hc
  exact pyPick_written cfg doc h p hp c hc


/-- **the literal labels of `runs-on` of a job of the AST are the label scalars written under the job's `runs-on:`** (the
scalar, the elements of the sequence, or those of `labels:` of the mapping form; a `${{ }}` value has none) -/
theorem labels_written (cfg : Cfg) (doc : Node) (h : (parse cfg doc).2 = []) (p : Node × Node) (hp : p ∈ docJobs doc) :
    labelsOf (docJob cfg p) = docLabels p.2 :=
  parseJob_labels cfg (newString p.1) p.2 (job_clean cfg doc h p hp)

/-- **shellcheck, entirely from what is written** -/
theorem doc_sc_handed_written (cfg : Cfg) (doc : Node) (h : (parse cfg doc).2 = []) :
    scHanded cfg.lower (parse cfg doc).1 =
      (docJobs doc).flatMap fun p => (docSteps p.2).filterMap (docScPick cfg.lower doc (docLabels p.2) p) := by
  rw [doc_sc_handed cfg doc h]
  apply flatMap_congr'
  intro p hp
  rw [labels_written cfg doc h p hp]

/-- **pyflakes, entirely from what is written** (the labels play no role: `docPyPick_labels`) -/
theorem doc_py_handed_written (cfg : Cfg) (doc : Node) (h : (parse cfg doc).2 = []) :
    pyHanded (parse cfg doc).1 =
      (docJobs doc).flatMap fun p => (docSteps p.2).filterMap (docPyPick cfg.lower doc (docLabels p.2) p) := by
  rw [doc_py_handed cfg doc h]
  apply flatMap_congr'
  intro p hp
  rw [labels_written cfg doc h p hp]

theorem isPyName_precedence (a b c : Option String) (w w' : Bool) :
    isPyName (precedence a b c w) = isPyName (precedence a b c w') := by
  unfold precedence
  cases a with
  | some s => rfl
  | none =>
    cases b with
    | some s => rfl
    | none =>
      cases c with
      | some s => rfl
      | none => cases w <;> cases w' <;> simp [isPyName_defaults]

/-- pyflakes' decision does not depend on the runner -/
theorem docPyPick_labels (lower : String → String) (doc : Node) (ls ls' : List String) (p : Node × Node) (c : Node) :
    docPyPick lower doc ls p c = docPyPick lower doc ls' p c := by
  unfold docPyPick docEffShell
  rw [isPyName_precedence _ _ _ (ls.any (isWindowsLabel lower)) (ls'.any (isWindowsLabel lower))]

/-! ### the scripts are the `run:` scalars of the document (`AL.C11D.IsStepRun`) -/

/-- on an accepted document the step nodes of the walk of AL/Spec/ScriptScalars.lean are the elements of `steps:` of the
pairs of `jobs:` -/
theorem docStepNodes_eq (cfg : Cfg) (doc : Node) (h : (parse cfg doc).2 = []) :
    AL.C11D.docStepNodes doc = (docJobs doc).flatMap fun p => docSteps p.2 := by
  obtain ⟨root, rest, x, hc, hj, hx⟩ := AL.C11D.parse_jobs_clean cfg doc h
  obtain ⟨root', hroot, hm, _, _, _, _⟩ := parse_clean cfg doc h
  have hr : root' = root := by simpa [docRoot, hc] using hroot.symm
  subst hr
  obtain ⟨_, hjc⟩ := AL.C11D.parseJobs_clean_entries cfg x hx
  have he : AL.C11D.entries x = pairs x.content := by
    have hx' := hx
    simp only [parseJobs, AL.C03P.append_nil_iff, parseSectionMapping] at hx'
    exact (AL.C11D.parseMapping_clean_keys cfg _ x false hx'.1).2.1
  have hdj : docJobs doc = pairs x.content := by
    rw [AL.C11D.lookup_eq_mget cfg _ root' true hm] at hj
    simp only [docJobs, hroot, Option.bind_some, hj]
  rw [hdj]
  simp only [AL.C11D.docStepNodes, AL.C11D.docJobNodes, hc, hj, Option.toList_some, List.flatMap_cons, List.flatMap_nil,
    List.append_nil, he, flatMap_map']
  apply flatMap_congr'
  intro p hp
  have hpc := hjc p (by rw [he]; exact hp)
  obtain ⟨hm2, hr2⟩ := parseJob_clean cfg _ p.2 hpc
  simp only [AL.C11D.jobStepNodes, AL.C11D.lookup_eq_mget cfg _ p.2 true hm2, docSteps, mget]
  cases hq : mpair p.2 "steps" with
  | none => rfl
  | some q =>
    obtain ⟨hmem, hk⟩ := mpair_mem hq
    obtain ⟨st, hcl⟩ := sect_clean_at cfg _ p.2 false true (jobKey cfg) _ hm2 hr2 q hmem
    rw [(jobKey_steps_eq cfg st _ (by rw [kvOf_true]; exact hk)).2] at hcl
    simp only [kvOf_true] at hcl
    have hseq : q.2.kind = .sequence := by
      simp only [parseSteps] at hcl
      split at hcl
      · rename_i hcc
        have := AL.C03P.checkSequence_clean "steps" q.2 false hcl
        simp [this.2] at hcc
      · simp only [AL.C03P.append_nil_iff] at hcl
        exact (AL.C03P.checkSequence_clean "steps" q.2 false hcl.1).1
    simp [AL.C11D.elements, hseq]

/-- **every script handed to a tool is a `run:` scalar of the document, and every `run:` scalar of the document is the
`run:` value of exactly such a step**: `v` is an `IsStepRun` scalar iff it is the value of the `run` pair of an element of
`steps:` of a pair of `jobs:` -/
theorem isStepRun_iff (cfg : Cfg) (doc : Node) (h : (parse cfg doc).2 = []) (v : Node) :
    AL.C11D.IsStepRun doc v ↔ ∃ p ∈ docJobs doc, ∃ c ∈ docSteps p.2, ∃ r, mpair c "run" = some r ∧ r.2 = v := by
  have hmem : ∀ c, c ∈ AL.C11D.docStepNodes doc ↔ ∃ p ∈ docJobs doc, c ∈ docSteps p.2 := by
    intro c; rw [docStepNodes_eq cfg doc h]; simp only [List.mem_flatMap]
  constructor
  · rintro ⟨⟨st, hst, hl⟩, _⟩
    obtain ⟨p, hp, hc⟩ := (hmem st).1 hst
    obtain ⟨hm, _⟩ := parseStep_clean cfg st (step_clean cfg doc h p hp st hc)
    rw [AL.C11D.lookup_eq_mget cfg _ st true hm] at hl
    simp only [mget] at hl
    cases hq : mpair st "run" with
    | none => rw [hq] at hl; cases hl
    | some r =>
      rw [hq] at hl
      exact ⟨p, hp, st, hc, r, hq, by simpa using hl⟩
  · rintro ⟨p, hp, c, hc, r, hr, rfl⟩
    have hcl := step_clean cfg doc h p hp c hc
    obtain ⟨hm, _⟩ := parseStep_clean cfg c hcl
    have hl : AL.C11D.lookup c "run" = some r.2 := by
      rw [AL.C11D.lookup_eq_mget cfg _ c true hm]; simp [mget, hr]
    exact ⟨⟨c, (hmem c).2 ⟨p, hp, hc⟩, hl⟩, (AL.C11D.parseStep_run_clean cfg c hcl).2 _ hl⟩

/-- every invocation of shellcheck carries the text of an `IsStepRun` scalar of the document and is reported at the
position of its `run` key -/
theorem sc_handed_is_stepRun (cfg : Cfg) (doc : Node) (h : (parse cfg doc).2 = []) (x : Handed)
    (hx : x ∈ scHanded cfg.lower (parse cfg doc).1) :
    ∃ k v : Node, AL.C11D.IsStepRun doc v ∧ x.script = v.value ∧ x.pos = some k.pos ∧ k.value = "run" := by
  rw [doc_sc_handed_written cfg doc h] at hx
  simp only [List.mem_flatMap, List.mem_filterMap] at hx
  obtain ⟨p, hp, c, hc, hpick⟩ := hx
  unfold docScPick at hpick
  cases hr : mpair c "run" with
  | none => rw [hr] at hpick; cases hpick
  | some r =>
    rw [hr] at hpick
    simp only [Option.map_eq_some_iff] at hpick
    obtain ⟨sh, _, rfl⟩ := hpick
    exact ⟨r.1, r.2, (isStepRun_iff cfg doc h r.2).2 ⟨p, hp, c, hc, r, hr, rfl⟩, rfl, rfl, (mpair_mem hr).2⟩

theorem py_handed_is_stepRun (cfg : Cfg) (doc : Node) (h : (parse cfg doc).2 = []) (x : String × Option Yaml.Pos)
    (hx : x ∈ pyHanded (parse cfg doc).1) :
    ∃ k v : Node, AL.C11D.IsStepRun doc v ∧ x.1 = v.value ∧ x.2 = some k.pos ∧ k.value = "run" := by
  rw [doc_py_handed_written cfg doc h] at hx
  simp only [List.mem_flatMap, List.mem_filterMap] at hx
  obtain ⟨p, hp, c, hc, hpick⟩ := hx
  unfold docPyPick at hpick
  cases hr : mpair c "run" with
  | none => rw [hr] at hpick; cases hpick
  | some r =>
    rw [hr] at hpick
    by_cases hpy : isPyName (docEffShell cfg.lower doc (docLabels p.2) p c) = true
    · simp only [hpy, if_true, Option.some.injEq] at hpick
      subst hpick
      exact ⟨r.1, r.2, (isStepRun_iff cfg doc h r.2).2 ⟨p, hp, c, hc, r, hr, rfl⟩, rfl, rfl, (mpair_mem hr).2⟩
    · simp [hpy] at hpick

end Doc

/-! ## 1′. `runs-on` → runner default is NOT `AL.Rules.platformOf` -/

private def twoPlatforms : Runner :=
  { labels := some [⟨"windows-latest", false, ⟨1, 1⟩⟩, ⟨"ubuntu-latest", false, ⟨1, 1⟩⟩] }

/-- labels of two platforms: rule_shell_name.go gives up (`any`), rule_shellcheck.go still says `pwsh` -/
theorem platform_differs :
    platformOf id twoPlatforms = Platform.any ∧
    runnerDefault id ((twoPlatforms.labels.getD []).map (·.value)) = "pwsh" := by
  constructor <;> decide +kernel

/-! ## 4. the text that is sent keeps the positions -/

/-- what shellcheck reads on stdin for an invocation (`script` as UTF-8 bytes): the setup line, the sanitised script, a
line break -/
def scStdin (h : Handed) (bytes : List Nat) : List Nat := shellcheckStdin h.shell bytes

def setupLine (sh : String) : List Nat := (if sh = "bash" then "set -eo pipefail" else "set -e").toUTF8.toList.map (·.toNat)

/-- **positions are preserved**: stdin is `setup ++ "\n" ++ body ++ "\n"` where `body` has the length of the script and
every byte of it is the script's byte or `_` — so line `l + 1`, column `c` of what shellcheck reports is line `l`,
column `c` of the script (the rule subtracts the one setup line) -/
theorem sc_stdin_positions (sh : String) (script : List Nat) :
    ∃ body, shellcheckStdin sh script = setupLine sh ++ [10] ++ body ++ [10] ∧ body.length = script.length ∧
      ∀ (i : Nat) (h : i < script.length), body[i]? = some script[i] ∨ body[i]? = some 95 :=
  ⟨sanitize script, rfl, AL.C20.sanitize_length script, fun i h => AL.C20.sanitize_pointwise script i h⟩

/-- pyflakes reads the sanitised script itself -/
theorem py_stdin_positions (script : List Nat) :
    (sanitize script).length = script.length ∧
      ∀ (i : Nat) (h : i < script.length), (sanitize script)[i]? = some script[i] ∨ (sanitize script)[i]? = some 95 :=
  ⟨AL.C20.sanitize_length script, fun i h => AL.C20.sanitize_pointwise script i h⟩

/-- no line break appears where the script has none (a line break INSIDE a closed `${{ }}` is blanked: rule_shellcheck.go's
own note "line and column reported by shellcheck will be shifted") -/
theorem sanitize_newlines (script : List Nat) (i : Nat) (h : i < script.length) :
    (sanitize script)[i]? = some 10 → script[i] = 10 := by
  intro h10
  rcases AL.C20.sanitize_pointwise script i h with e | e
  · rw [e] at h10; exact Option.some.inj h10
  · rw [e] at h10; cases h10

/-! ## 5. a concrete document

```yaml
on: push
defaults: {run: {shell: pwsh}}
jobs:
  a: {runs-on: ubuntu-latest, steps: [{run: A}]}
  b: {runs-on: ubuntu-latest, defaults: {run: {shell: bash}}, steps: [{run: B}, {run: P, shell: python}]}
  c: {runs-on: Windows-latest, steps: [{run: C, shell: sh}, {run: D, shell: "${{ matrix.sh }}"}]}
  d: {runs-on: Windows-latest, defaults: {run: {working-directory: w}}, steps: [{run: E}]}
``` -/

section Example
open AL.PW AL.C05D

private def sc (v : String) (l c : Nat) : Node := .mk .scalar "!!str" v false l c []
private def mp (l c : Nat) (cs : List Node) : Node := .mk .mapping "!!map" "" false l c cs
private def sq (l c : Nat) (cs : List Node) : Node := .mk .sequence "!!seq" "" false l c cs

def exCfg : Cfg := ⟨asciiLower, fun _ => none, fun _ => .err⟩

def exDefaults (sh : String) (l : Nat) : Node := mp l 12 [sc "run" l 13, mp l 18 [sc "shell" l 19, sc sh l 26]]
def pJobA : Node × Node :=
  (sc "a" 4 3, mp 4 6 [sc "runs-on" 4 7, sc "ubuntu-latest" 4 16, sc "steps" 4 31, sq 4 38 [mp 4 39 [sc "run" 4 40, sc "A" 4 45]]])
def exStepB : Node := mp 5 70 [sc "run" 5 71, sc "B" 5 76]
def exStepP : Node := mp 5 80 [sc "run" 5 81, sc "P" 5 86, sc "shell" 5 89, sc "python" 5 96]
def pJobB : Node × Node :=
  (sc "b" 5 3, mp 5 6 [sc "runs-on" 5 7, sc "ubuntu-latest" 5 16, sc "defaults" 5 31, exDefaults "bash" 5,
    sc "steps" 5 62, sq 5 69 [exStepB, exStepP]])
def pJobC : Node × Node :=
  (sc "c" 6 3, mp 6 6 [sc "runs-on" 6 7, sc "Windows-latest" 6 16, sc "steps" 6 32,
    sq 6 39 [mp 6 40 [sc "run" 6 41, sc "C" 6 46, sc "shell" 6 49, sc "sh" 6 56],
             mp 6 61 [sc "run" 6 62, sc "D" 6 67, sc "shell" 6 70, sc "${{ matrix.sh }}" 6 77]]])
def pJobD : Node × Node :=
  (sc "d" 7 3, mp 7 6 [sc "runs-on" 7 7, sc "Windows-latest" 7 16, sc "defaults" 7 32,
    mp 7 42 [sc "run" 7 43, mp 7 48 [sc "working-directory" 7 49, sc "w" 7 68]],
    sc "steps" 7 73, sq 7 80 [mp 7 81 [sc "run" 7 82, sc "E" 7 87]]])
def exDoc : Node :=
  .mk .document "" "" false 1 1 [mp 1 1 [sc "on" 1 1, sc "push" 1 5, sc "defaults" 2 1, exDefaults "pwsh" 2,
    sc "jobs" 3 1, mp 4 3 [pJobA.1, pJobA.2, pJobB.1, pJobB.2, pJobC.1, pJobC.2, pJobD.1, pJobD.2]]]

theorem exDoc_clean : (parse exCfg exDoc).2 = [] := by decide +kernel

/-- who gets which script — evaluated through the model on `shellView` of the parsed document: `A` (workflow default pwsh):
nobody; `B` (job default bash): shellcheck as bash; `P` (`shell: python`): pyflakes; `C` (`shell: sh`): shellcheck as sh; `D`
(`shell: ${{ … }}`): nobody; `E` (job `defaults.run` without a shell, Windows runner, workflow default pwsh): nobody -/
theorem example_handed :
    scHanded exCfg.lower (parse exCfg exDoc).1 = [⟨"B", some ⟨5, 71⟩, "bash"⟩, ⟨"C", some ⟨6, 41⟩, "sh"⟩] ∧
    pyHanded (parse exCfg exDoc).1 = [("P", some ⟨5, 81⟩)] := by
  constructor <;> decide +kernel

/-- … and the same read off the document by `doc_sc_handed` / `doc_py_handed` -/
theorem example_handed_doc :
    ((docJobs exDoc).flatMap fun p => (docSteps p.2).filterMap (docScPick exCfg.lower exDoc (labelsOf (docJob exCfg p)) p))
      = [⟨"B", some ⟨5, 71⟩, "bash"⟩, ⟨"C", some ⟨6, 41⟩, "sh"⟩] ∧
    ((docJobs exDoc).flatMap fun p => (docSteps p.2).filterMap (docPyPick exCfg.lower exDoc (labelsOf (docJob exCfg p)) p))
      = [("P", some ⟨5, 81⟩)] := by
  rw [← doc_sc_handed exCfg exDoc exDoc_clean, ← doc_py_handed exCfg exDoc exDoc_clean]
  exact example_handed

theorem pJobB_mem : pJobB ∈ docJobs exDoc := by
  rw [show docJobs exDoc = [pJobA, pJobB, pJobC, pJobD] from rfl]; simp

/-- instances of the field lemmas -/
example : defShellText (docJob exCfg pJobB).defaults = some "bash" := by
  rw [(job_defShell_written exCfg exDoc exDoc_clean pJobB pJobB_mem).1]; decide +kernel
example : defShellText (parse exCfg exDoc).1.defaults = some "pwsh" := by
  rw [(wf_defShell_written exCfg exDoc exDoc_clean).1]; decide +kernel
theorem exStepP_mem : exStepP ∈ docSteps pJobB.2 := by
  show exStepP ∈ [exStepB, exStepP]
  simp
example : shellOf (docStep exCfg exStepP) = some ⟨"python", false, ⟨5, 96⟩⟩ := by
  rw [step_shell_written exCfg exDoc exDoc_clean pJobB pJobB_mem _ exStepP_mem]; decide +kernel
example : runPosOf (docStep exCfg exStepP) = some ⟨5, 81⟩ := by
  rw [step_runPos_written exCfg exDoc exDoc_clean pJobB pJobB_mem _ exStepP_mem]; decide +kernel
example : scPick exCfg.lower (parse exCfg exDoc).1 (docJob exCfg pJobB) (docStep exCfg exStepP) = none ∧
    pyPick (parse exCfg exDoc).1 (docJob exCfg pJobB) (docStep exCfg exStepP) = some ("P", some ⟨5, 81⟩) := by
  rw [scPick_written exCfg exDoc exDoc_clean pJobB pJobB_mem _ exStepP_mem,
    pyPick_written exCfg exDoc exDoc_clean pJobB pJobB_mem _ exStepP_mem]
  constructor <;> decide +kernel
example : jobsOf (parse exCfg exDoc).1 = [pJobA, pJobB, pJobC, pJobD].map (docJob exCfg) :=
  jobsOf_written exCfg exDoc exDoc_clean
/-- the AST-level theorems on the parsed document -/
example : ∃ j ∈ jobsOf (parse exCfg exDoc).1, ∃ s ∈ stepsOf j,
    scPick exCfg.lower (parse exCfg exDoc).1 j s = some ⟨"B", some ⟨5, 71⟩, "bash"⟩ :=
  (sc_handed_mem exCfg.lower (parse exCfg exDoc).1 _).1 (by rw [example_handed.1]; simp)
example : ∃ j ∈ jobsOf (parse exCfg exDoc).1, ∃ s ∈ stepsOf j,
    pyPick (parse exCfg exDoc).1 j s = some ("P", some ⟨5, 81⟩) :=
  (py_handed_mem (parse exCfg exDoc).1 _).1 (by rw [example_handed.2]; simp)

/-- entirely from what is written -/
theorem example_handed_written :
    ((docJobs exDoc).flatMap fun p => (docSteps p.2).filterMap (docScPick exCfg.lower exDoc (docLabels p.2) p))
      = [⟨"B", some ⟨5, 71⟩, "bash"⟩, ⟨"C", some ⟨6, 41⟩, "sh"⟩] ∧
    ((docJobs exDoc).flatMap fun p => (docSteps p.2).filterMap (docPyPick exCfg.lower exDoc (docLabels p.2) p))
      = [("P", some ⟨5, 81⟩)] := by
  rw [← doc_sc_handed_written exCfg exDoc exDoc_clean, ← doc_py_handed_written exCfg exDoc exDoc_clean]
  exact example_handed

theorem pJobC_mem : pJobC ∈ docJobs exDoc := by
  rw [show docJobs exDoc = [pJobA, pJobB, pJobC, pJobD] from rfl]; simp

example : labelsOf (docJob exCfg pJobC) = ["Windows-latest"] := by
  rw [labels_written exCfg exDoc exDoc_clean pJobC pJobC_mem]; decide +kernel
/-- the mapping form `runs-on: {group: g, labels: [self-hosted, windows]}`, and `labels: ${{ … }}` -/
example : docLabelNodes (mp 1 1 [sc "group" 1 2, sc "g" 1 9, sc "labels" 1 12, sq 1 20 [sc "self-hosted" 1 21, sc "windows" 1 34]])
    = [sc "self-hosted" 1 21, sc "windows" 1 34] := by rfl
example : ((parseRunsOn exCfg (mp 1 1 [sc "group" 1 2, sc "g" 1 9, sc "labels" 1 12, sq 1 20 [sc "self-hosted" 1 21, sc "windows" 1 34]])).1.labels.getD []).map (·.value)
    = ["self-hosted", "windows"] := by
  rw [parseRunsOn_labels exCfg _ (by decide +kernel)]; decide +kernel
example : (parseRunsOn exCfg (mp 1 1 [sc "labels" 1 12, sc "${{ matrix.os }}" 1 20])).1.labels.getD [] = [] := by
  rw [parseRunsOn_labels exCfg _ (by decide +kernel)]; decide +kernel
example : AL.C11D.docStepNodes exDoc = (docJobs exDoc).flatMap fun p => docSteps p.2 := docStepNodes_eq exCfg exDoc exDoc_clean
example : AL.C11D.IsStepRun exDoc (sc "P" 5 86) :=
  (isStepRun_iff exCfg exDoc exDoc_clean _).2 ⟨pJobB, pJobB_mem, exStepP, exStepP_mem, (sc "run" 5 81, sc "P" 5 86), rfl, rfl⟩
example : ∃ k v : Node, AL.C11D.IsStepRun exDoc v ∧ "B" = v.value ∧ some (⟨5, 71⟩ : Yaml.Pos) = some k.pos ∧ k.value = "run" :=
  sc_handed_is_stepRun exCfg exDoc exDoc_clean ⟨"B", some ⟨5, 71⟩, "bash"⟩ (by rw [example_handed.1]; simp)
example : ∃ k v : Node, AL.C11D.IsStepRun exDoc v ∧ "P" = v.value ∧ some (⟨5, 81⟩ : Yaml.Pos) = some k.pos ∧ k.value = "run" :=
  py_handed_is_stepRun exCfg exDoc exDoc_clean ("P", some ⟨5, 81⟩) (by rw [example_handed.2]; simp)
/-- the AST-level lemmas with hypotheses, on steps of the parsed document -/
example : scPick exCfg.lower (parse exCfg exDoc).1 (docJob exCfg pJobB) (docStep exCfg exStepP) =
    scPick exCfg.lower { (parse exCfg exDoc).1 with jobs := none } (docJob exCfg pJobB) (docStep exCfg exStepP) :=
  scPick_local _ _ _ rfl _ _
example : pyPick (parse exCfg exDoc).1 (docJob exCfg pJobB) (docStep exCfg exStepP) =
    pyPick { (parse exCfg exDoc).1 with jobs := none } (docJob exCfg pJobB) (docStep exCfg exStepP) :=
  pyPick_local _ _ rfl _ _
private def eP : ExecRun := { run := some ⟨"P", false, ⟨5, 86⟩⟩, shell := some ⟨"python", false, ⟨5, 96⟩⟩, runPos := some ⟨5, 81⟩ }
example : (docStep exCfg exStepP).exec = .run eP := by rfl
example : scPick exCfg.lower (parse exCfg exDoc).1 (docJob exCfg pJobB) { exec := .run eP, pos := ⟨5, 80⟩ } = none :=
  scPick_skipped _ _ _ _ eP ⟨"P", false, ⟨5, 86⟩⟩ ⟨"python", false, ⟨5, 96⟩⟩ rfl rfl rfl (by decide +kernel)
example : scPick exCfg.lower (parse exCfg exDoc).1 (docJob exCfg pJobB) { exec := .run eP, pos := ⟨5, 80⟩ } =
    (shellcheckShell "python").map fun x => ⟨"P", some ⟨5, 81⟩, x⟩ :=
  scPick_step_shell _ _ _ _ eP ⟨"P", false, ⟨5, 86⟩⟩ ⟨"python", false, ⟨5, 96⟩⟩ rfl rfl rfl
example : nonEmpty (some "bash") = some "bash" := nonEmpty_of_ne _ (by decide)

end Example

end AL.C20D
