import AL.Model.Calls
import AL.Model.Facts
import AL.Gen.Popular
/-
  C14 — calls are checked exactly against the callee's declared interface.
-/
namespace AL.C14
open AL.Calls

-- statements (a)–(f) about `checkAction` / `checkCall` and their proofs: AL/Props/C14Calls.lean

/-! ### the bundled data set (regenerated on every run) -/

/-- every input / output id of every bundled action is the lower-case form of its name (so that folded
`with:` keys and `.name` accesses find it), per chunk -/
def chunkIdsFolded (c : List (String × List (String × String × Bool) × List (String × String) × Bool × Bool)) : Bool :=
  c.all fun a => a.2.1.all (fun i => AL.Facts.lowerAscii i.2.1 = i.1) && a.2.2.1.all (fun o => AL.Facts.lowerAscii o.2 = o.1)

def ids_folded_check : Bool := AL.Gen.popularChunks.all chunkIdsFolded

/-- no bundled spec is at the same time live and outdated -/
def live_not_outdated_check : Bool :=
  AL.Gen.popularChunks.all fun c => c.all fun a => !AL.Gen.outdatedSpecs.contains a.1

end AL.C14

namespace AL.C14
theorem ids_folded : ids_folded_check = true := by decide +kernel
theorem live_not_outdated : live_not_outdated_check = true := by decide +kernel
end AL.C14
