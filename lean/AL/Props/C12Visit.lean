import AL.Model.Visit
import AL.Props.C12
/-
  C12 (workflow level): in the model AL.Visit every checked string is checked with the availability row of the workflow
  key that belongs to its position, a position without key with the empty row, and a key that is not in the table with
  the empty row; the table is the documentation's (AL.C12.code_eq_docs).
-/
namespace AL.Props.C12Visit
open AL AL.Sema AL.Visit

/-- the environment of a probe carries exactly the row `availability key` -/
theorem probe_env_row (lower : String → String) (hdr : Header) (jobsTy : Option Ty) (st : St) (key : String) :
    (mkEnv lower hdr jobsTy st key).availCtx = (availability key).1 ∧
    (mkEnv lower hdr jobsTy st key).availSpecial = (availability key).2 := ⟨rfl, rfl⟩

/-- a position that is checked without a workflow key allows no context and no special function -/
theorem no_key_allows_nothing : availability "" = ([], []) := by
  simp [availability]

/-- a key that is not a row of the table allows nothing -/
theorem unknown_key_allows_nothing (key : String) (h : key ≠ "")
    (hk : AL.Gen.availabilityCode.find? (·.1 = key) = none) : availability key = ([], []) := by
  simp [availability, h, hk, AL.C12.unknown_key_allows_nothing]

/-- a key of the table gets its row, and the rows are the documentation's -/
theorem known_key_row (key : String) (ctx sp : List String) (h : key ≠ "")
    (hk : AL.Gen.availabilityCode.find? (·.1 = key) = some (key, ctx, sp)) : availability key = (ctx, sp) := by
  simp [availability, h, hk]

example : (availability "jobs.<job_id>.container").1 = ["github", "inputs", "matrix", "needs", "strategy", "vars"] := by
  decide +kernel

end AL.Props.C12Visit
