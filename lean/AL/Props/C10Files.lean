import AL.Model.ProjRun
import AL.Props.C10Once
/-
  C10, several files in one run (AL.ProjRun): each file gets what it gets alone.
-/
namespace AL.C10F
open AL AL.Ast AL.CallMeta AL.ProjCall AL.ProjRun AL.C10O

/-! ## 0. the specs a file references -/

def specOf (j : Job) : Option String :=
  match j.workflowCall with
  | none => none
  | some call => match call.uses with
    | none => none
    | some u => some u.value

/-- the `uses:` of the jobs of a workflow that call a reusable workflow -/
def refsJobs (jobs : List (String × Job)) : List String := jobs.filterMap fun e => specOf e.2

def refs (w : Workflow) : List String := refsJobs (w.jobs.getD [])

/-- every look-up the walk over `jobs` can make is at a spec in `R` -/
def Covers (R : String → Prop) (jobs : List (String × Job)) : Prop :=
  ∀ e ∈ jobs, ∀ call u, e.2.workflowCall = some call → call.uses = some u → R u.value

theorem covers_refs (jobs : List (String × Job)) : Covers (fun s => s ∈ refsJobs jobs) jobs := by
  intro e he call u hc hu
  simp only [refsJobs, List.mem_filterMap]
  exact ⟨e, he, by simp [specOf, hc, hu]⟩

theorem lookupJob_mem (i : String) : ∀ (jobs : List (String × Job)) (j : Job),
    AL.RuleExpr.lookupJob i jobs = some j → ∃ k, (k, j) ∈ jobs := by
  intro jobs
  induction jobs with
  | nil => intro j h; simp [AL.RuleExpr.lookupJob] at h
  | cons e rest ih =>
    intro j h
    obtain ⟨k, j'⟩ := e
    simp only [AL.RuleExpr.lookupJob] at h
    by_cases hk : k = i
    · simp only [hk, if_true, Option.some.injEq] at h
      subst h; exact ⟨k, by simp⟩
    · simp only [hk, if_false] at h
      obtain ⟨k', hk'⟩ := ih j h
      exact ⟨k', by simp [hk']⟩

/-! ## 1. two caches that answer alike on the specs in `R` -/

def SameOn (R : String → Prop) (env : ProjCall.Env) (c c' : Cache) : Prop :=
  ∀ spec, R spec → answer env c spec = answer env c' spec

/-- pointwise core of `C10O.find_same` -/
theorem find_sameOn (R : String → Prop) (env : ProjCall.Env) (c c' : Cache) (s : String) (h : SameOn R env c c') :
    SameOn R env (find env c s).1 (find env c' s).1 := by
  intro spec hR
  have hspec := h spec hR
  simp only [find, answer, cacheGet_remember] at hspec ⊢
  by_cases hg2 : skipped env spec = true
  · simp [hg2]
  · simp only [hg2, Bool.false_eq_true, if_false] at hspec ⊢
    by_cases hg : skipped env s = true
    · simpa [hg] using hspec
    · simp only [hg, Bool.false_eq_true, if_false] at ⊢
      by_cases e : spec = s
      · subst e
        simp only [if_true]
        cases h1 : cacheGet c spec with
        | some v1 =>
          cases h2 : cacheGet c' spec with
          | some v2 => simp only [h1, h2] at hspec ⊢; exact hspec
          | none =>
            simp only [h1, h2, diskAnswer, diskEntry] at hspec ⊢
            cases v1 <;> cases hd : env.disk spec <;> simp_all [diskAnswer, diskEntry]
        | none =>
          cases h2 : cacheGet c' spec with
          | some v2 =>
            simp only [h1, h2, diskAnswer, diskEntry] at hspec ⊢
            cases v2 <;> cases hd : env.disk spec <;> simp_all [diskAnswer, diskEntry]
          | none => simp only [h1, h2]
      · simpa [e] using hspec

theorem find_ans_sameOn (R : String → Prop) (env : ProjCall.Env) (c c' : Cache) (s : String) (h : SameOn R env c c')
    (hs : R s) : (find env c s).2 = (find env c' s).2 := h s hs

theorem putNone_sameOn (R : String → Prop) (env : ProjCall.Env) (c c' : Cache) (u : String) (h : SameOn R env c c') :
    SameOn R env (cachePut c u none) (cachePut c' u none) := by
  intro spec hR
  have := h spec hR
  simp only [answer, cacheGet_put] at this ⊢
  by_cases hg : skipped env spec = true
  · simp [hg]
  · simp only [hg, Bool.false_eq_true, if_false] at this ⊢
    by_cases e : spec = u
    · simp [e]
    · simpa [e] using this

theorem wcJob_sameOn (R : String → Prop) (env : ProjCall.Env) (c c' : Cache) (j : Job) (h : SameOn R env c c')
    (hj : ∀ call u, j.workflowCall = some call → call.uses = some u → R u.value) :
    (wcJob env c j).2 = (wcJob env c' j).2 ∧ SameOn R env (wcJob env c j).1 (wcJob env c' j).1 := by
  simp only [wcJob]
  split
  · exact ⟨rfl, h⟩
  · split
    · exact ⟨rfl, h⟩
    · rename_i _ call hcall _ u hu
      have hRu : R u.value := hj call u hcall hu
      simp only [wcUses]
      by_cases h1 : (u.value = "" || AL.Rules.containsExpr u) = true
      · simp only [h1, if_true]; exact ⟨trivial, h⟩
      · simp only [h1, Bool.false_eq_true, if_false]
        by_cases h2 : AL.Rules.isLocalCallFormat u.value = true
        · simp only [h2, if_true]
          exact ⟨by rw [find_ans_sameOn R env c c' u.value h hRu], find_sameOn R env c c' u.value h⟩
        · simp only [h2, Bool.false_eq_true, if_false]
          by_cases h3 : AL.Rules.isRepoCallFormat u.value = true
          · simp only [h3, if_true]; exact ⟨trivial, h⟩
          · simp only [h3, Bool.false_eq_true, if_false]
            by_cases h4 : u.value.startsWith "./" = true
            · simp only [h4, if_true]
              exact ⟨trivial, putNone_sameOn R env c c' u.value h⟩
            · simp only [h4, Bool.false_eq_true, if_false]; exact ⟨trivial, h⟩

theorem callLookup_sameOn (R : String → Prop) (env : ProjCall.Env) (c c' : Cache) (j : Job) (h : SameOn R env c c')
    (hj : ∀ call u, j.workflowCall = some call → call.uses = some u → R u.value) :
    (callLookup env j c).errs = (callLookup env j c').errs ∧ (callLookup env j c).inputs = (callLookup env j c').inputs ∧
    SameOn R env (callLookup env j c).cache (callLookup env j c').cache := by
  simp only [callLookup]
  split
  · exact ⟨rfl, rfl, h⟩
  · split
    · exact ⟨rfl, rfl, h⟩
    · rename_i _ call hcall _ u hu
      have e1 := find_ans_sameOn R env c c' u.value h (hj call u hcall hu)
      exact ⟨by simp only [e1], by simp only [e1], find_sameOn R env c c' u.value h⟩

theorem needsStep_sameOn (R : String → Prop) (env : ProjCall.Env) (lower : String → String) (jobs : List (String × Job))
    (hcov : Covers R jobs) (job : Job)
    (acc acc' : NeedsOut × List String) (id : Str)
    (h : SameOn R env acc.1.cache acc'.1.cache) (he : acc.1.errs = acc'.1.errs) (ho : acc.1.outs = acc'.1.outs) (hd : acc.2 = acc'.2) :
    SameOn R env (needsStep env lower jobs job acc id).1.cache (needsStep env lower jobs job acc' id).1.cache ∧
    (needsStep env lower jobs job acc id).1.errs = (needsStep env lower jobs job acc' id).1.errs ∧
    (needsStep env lower jobs job acc id).1.outs = (needsStep env lower jobs job acc' id).1.outs ∧
    (needsStep env lower jobs job acc id).2 = (needsStep env lower jobs job acc' id).2 := by
  simp only [needsStep, hd]
  split
  · exact ⟨h, he, ho, hd⟩
  · split
    · exact ⟨h, he, ho, hd⟩
    · split
      · exact ⟨h, he, ho, hd⟩
      · rename_i j hj
        obtain ⟨k, hk⟩ := lookupJob_mem _ jobs j hj
        split
        · exact ⟨h, he, ho, rfl⟩
        · rename_i call hcall
          split
          · exact ⟨h, he, ho, rfl⟩
          · rename_i u hu
            have hRu : R u.value := hcov (k, j) hk call u hcall hu
            have e1 := find_ans_sameOn R env acc.1.cache acc'.1.cache u.value h hRu
            exact ⟨find_sameOn R env _ _ u.value h, by simp only [e1, he], by simp only [e1, ho], rfl⟩

theorem needsFold_sameOn (R : String → Prop) (env : ProjCall.Env) (lower : String → String) (jobs : List (String × Job))
    (hcov : Covers R jobs) (job : Job) :
    ∀ (ids : List Str) (acc acc' : NeedsOut × List String),
      SameOn R env acc.1.cache acc'.1.cache → acc.1.errs = acc'.1.errs → acc.1.outs = acc'.1.outs → acc.2 = acc'.2 →
      SameOn R env (ids.foldl (needsStep env lower jobs job) acc).1.cache (ids.foldl (needsStep env lower jobs job) acc').1.cache ∧
      (ids.foldl (needsStep env lower jobs job) acc).1.errs = (ids.foldl (needsStep env lower jobs job) acc').1.errs ∧
      (ids.foldl (needsStep env lower jobs job) acc).1.outs = (ids.foldl (needsStep env lower jobs job) acc').1.outs := by
  intro ids
  induction ids with
  | nil => intro acc acc' h he ho _; exact ⟨h, he, ho⟩
  | cons id rest ih =>
    intro acc acc' h he ho hd
    obtain ⟨a, b, c, d⟩ := needsStep_sameOn R env lower jobs hcov job acc acc' id h he ho hd
    simp only [List.foldl_cons]
    exact ih _ _ a b c d

/-- the walk over the jobs of a file gives the same per-job results from two caches that answer alike on the specs the
file references -/
theorem simulateJobs_sameOn (R : String → Prop) (env : ProjCall.Env) (lower : String → String) (jobs : List (String × Job))
    (hcov : Covers R jobs) :
    ∀ (l : List (String × Job)) (c c' : Cache), Covers R l → SameOn R env c c' →
      simulateJobs env lower jobs l c = simulateJobs env lower jobs l c' := by
  intro l
  induction l with
  | nil => intro c c' _ _; rfl
  | cons e rest ih =>
    intro c c' hl h
    obtain ⟨k, j⟩ := e
    have hj : ∀ call u, j.workflowCall = some call → call.uses = some u → R u.value :=
      fun call u => hl (k, j) (by simp) call u
    have hrest : Covers R rest := fun e he => hl e (by simp [he])
    simp only [simulateJobs]
    obtain ⟨w1, w2⟩ := wcJob_sameOn R env c c' j h hj
    obtain ⟨n1, n2, n3⟩ := needsFold_sameOn R env lower jobs hcov j (j.needs.getD [])
      (({ cache := (wcJob env c j).1 } : NeedsOut), []) (({ cache := (wcJob env c' j).1 } : NeedsOut), []) w2 rfl rfl rfl
    have n1' : SameOn R env (needsLookups env lower jobs j (wcJob env c j).1).cache (needsLookups env lower jobs j (wcJob env c' j).1).cache := n1
    have n2' : (needsLookups env lower jobs j (wcJob env c j).1).errs = (needsLookups env lower jobs j (wcJob env c' j).1).errs := n2
    have n3' : (needsLookups env lower jobs j (wcJob env c j).1).outs = (needsLookups env lower jobs j (wcJob env c' j).1).outs := n3
    obtain ⟨k1, k2, k3⟩ := callLookup_sameOn R env _ _ j n1' hj
    rw [ih _ _ hrest k3, w1, n2', n3', k1, k2]

/-! ## 2. what the visit of a file can do to the cache -/

/-- `c'` is reached from `c` by look-ups and by remembering a `./` spec that is not in the local call format, all at
specs in `R` -/
inductive Reach (R : String → Prop) (env : ProjCall.Env) : Cache → Cache → Prop where
  | refl (c : Cache) : Reach R env c c
  | find (c c' : Cache) (s : String) : R s → Reach R env c c' → Reach R env c (find env c' s).1
  | bad (c c' : Cache) (u : String) : R u → AL.Rules.isLocalCallFormat u = false → Reach R env c c' →
      Reach R env c (cachePut c' u none)

theorem Reach.trans {R : String → Prop} {env : ProjCall.Env} {a b c : Cache} (h1 : Reach R env a b) (h2 : Reach R env b c) :
    Reach R env a c := by
  induction h2 with
  | refl => exact h1
  | find c' s hs _ ih => exact Reach.find _ _ s hs ih
  | bad c' u hr hu _ ih => exact Reach.bad _ _ u hr hu ih

theorem wcJob_reach (R : String → Prop) (env : ProjCall.Env) (c : Cache) (j : Job)
    (hj : ∀ call u, j.workflowCall = some call → call.uses = some u → R u.value) : Reach R env c (wcJob env c j).1 := by
  simp only [wcJob]
  split
  · exact Reach.refl c
  · split
    · exact Reach.refl c
    · rename_i _ call hcall _ u hu
      have hRu := hj call u hcall hu
      simp only [wcUses]
      by_cases h1 : (u.value = "" || AL.Rules.containsExpr u) = true
      · simp only [h1, if_true]; exact Reach.refl c
      · simp only [h1, Bool.false_eq_true, if_false]
        by_cases h2 : AL.Rules.isLocalCallFormat u.value = true
        · simp only [h2, if_true]; exact Reach.find c c u.value hRu (Reach.refl c)
        · simp only [h2, Bool.false_eq_true, if_false]
          by_cases h3 : AL.Rules.isRepoCallFormat u.value = true
          · simp only [h3, if_true]; exact Reach.refl c
          · simp only [h3, Bool.false_eq_true, if_false]
            by_cases h4 : u.value.startsWith "./" = true
            · simp only [h4, if_true]
              exact Reach.bad c c u.value hRu (by simpa using h2) (Reach.refl c)
            · simp only [h4, Bool.false_eq_true, if_false]; exact Reach.refl c

theorem callLookup_reach (R : String → Prop) (env : ProjCall.Env) (c : Cache) (j : Job)
    (hj : ∀ call u, j.workflowCall = some call → call.uses = some u → R u.value) :
    Reach R env c (callLookup env j c).cache := by
  simp only [callLookup]
  split
  · exact Reach.refl c
  · split
    · exact Reach.refl c
    · rename_i _ call hcall _ u hu
      exact Reach.find c c u.value (hj call u hcall hu) (Reach.refl c)

theorem needsStep_reach (R : String → Prop) (env : ProjCall.Env) (lower : String → String) (jobs : List (String × Job))
    (hcov : Covers R jobs) (job : Job) (acc : NeedsOut × List String) (id : Str) :
    Reach R env acc.1.cache (needsStep env lower jobs job acc id).1.cache := by
  simp only [needsStep]
  split
  · exact Reach.refl _
  · split
    · exact Reach.refl _
    · split
      · exact Reach.refl _
      · rename_i j hj
        obtain ⟨k, hk⟩ := lookupJob_mem _ jobs j hj
        split
        · exact Reach.refl _
        · rename_i call hcall
          split
          · exact Reach.refl _
          · rename_i u hu
            exact Reach.find _ _ u.value (hcov (k, j) hk call u hcall hu) (Reach.refl _)

theorem needsFold_reach (R : String → Prop) (env : ProjCall.Env) (lower : String → String) (jobs : List (String × Job))
    (hcov : Covers R jobs) (job : Job) :
    ∀ (ids : List Str) (acc : NeedsOut × List String),
      Reach R env acc.1.cache (ids.foldl (needsStep env lower jobs job) acc).1.cache := by
  intro ids
  induction ids with
  | nil => intro acc; exact Reach.refl _
  | cons id rest ih =>
    intro acc
    simp only [List.foldl_cons]
    exact Reach.trans (needsStep_reach R env lower jobs hcov job acc id) (ih _)

theorem needsLookups_reach (R : String → Prop) (env : ProjCall.Env) (lower : String → String) (jobs : List (String × Job))
    (hcov : Covers R jobs) (job : Job) (c : Cache) :
    Reach R env c (needsLookups env lower jobs job c).cache :=
  needsFold_reach R env lower jobs hcov job (job.needs.getD []) (({ cache := c } : NeedsOut), [])

theorem jobsCache_reach (R : String → Prop) (env : ProjCall.Env) (lower : String → String) (jobs : List (String × Job))
    (hcov : Covers R jobs) :
    ∀ (l : List (String × Job)) (c : Cache), Covers R l → Reach R env c (jobsCache env lower jobs l c) := by
  intro l
  induction l with
  | nil => intro c _; exact Reach.refl c
  | cons e rest ih =>
    intro c hl
    obtain ⟨k, j⟩ := e
    have hj : ∀ call u, j.workflowCall = some call → call.uses = some u → R u.value :=
      fun call u => hl (k, j) (by simp) call u
    simp only [jobsCache]
    exact Reach.trans (Reach.trans (Reach.trans (wcJob_reach R env c j hj) (needsLookups_reach R env lower jobs hcov j _))
      (callLookup_reach R env _ j hj)) (ih _ (fun e he => hl e (by simp [he])))

/-- a spec outside `R` keeps its entry -/
theorem reach_untouched (R : String → Prop) (env : ProjCall.Env) (c c' : Cache) (hr : Reach R env c c') (spec : String)
    (hn : ¬ R spec) : cacheGet c' spec = cacheGet c spec := by
  induction hr with
  | refl => rfl
  | find c' s hs _ ih =>
    have e : ¬ spec = s := fun h => hn (h ▸ hs)
    simp only [ProjCall.find, cacheGet_remember, e, if_false]
    by_cases hg : skipped env s = true <;> simp [hg, ih]
  | bad c' u hu _ _ ih =>
    have e : ¬ spec = u := fun h => hn (h ▸ hu)
    simp only [cacheGet_put, e, if_false, ih]

/-! ## 3. the invariant: what the cache holds for the well-formed callees of the file under consideration -/

/-- a well-formed callee: the spec has the local call format and the file behind it is readable and decodable -/
def CalleeOk (p : Proj) (s : String) : Prop := AL.Rules.isLocalCallFormat s = true ∧ ∃ m, p.disk s = .ok m

/-- for every well-formed callee in `F` the cache has no entry or the interface that is on disk -/
def Inv (p : Proj) (F : List String) (c : Cache) : Prop :=
  ∀ s ∈ F, AL.Rules.isLocalCallFormat s = true → ∀ m, p.disk s = .ok m →
    cacheGet c s = none ∨ cacheGet c s = some (some m)

theorem inv_nil (p : Proj) (F : List String) : Inv p F [] := fun _ _ _ _ _ => Or.inl rfl

theorem inv_reach (p : Proj) (F : List String) (env : ProjCall.Env) (hdisk : env.disk = p.disk) (c c' : Cache)
    (hr : Reach (fun _ => True) env c c') (h : Inv p F c) : Inv p F c' := by
  induction hr with
  | refl => exact h
  | find c' s _ _ ih =>
    intro spec hF hl m hm
    have := ih spec hF hl m hm
    simp only [ProjCall.find, cacheGet_remember]
    by_cases hg : skipped env s = true
    · simpa [hg] using this
    · simp only [hg, Bool.false_eq_true, if_false]
      by_cases e : spec = s
      · subst e
        simp only [if_true]
        rcases this with h0 | h1
        · right; simp [h0, diskEntry, hdisk, hm]
        · right; simp [h1]
      · simpa [e] using this
  | bad c' u _ hu _ ih =>
    intro spec hF hl m hm
    have := ih spec hF hl m hm
    simp only [cacheGet_put]
    by_cases e : spec = u
    · subst e; rw [hl] at hu; cases hu
    · simpa [e] using this

/-- the interface a file of the run registers from its AST is the one on disk (AL.C10M.document_interface_agrees
is why this holds for a file the parser accepts) — asked only for the specs in `F` -/
def RegAgrees (p : Proj) (F : List String) (g : File) : Prop :=
  ∀ s ∈ F, ∀ m, g.self = some s → fromEvents (g.wf.on.getD []) = some m → p.disk s = .ok m

theorem inv_register (p : Proj) (F : List String) (g : File) (hg : RegAgrees p F g) (c : Cache) (h : Inv p F c) :
    Inv p F (register (envOf p g) c g.wf) := by
  simp only [register]
  split
  · rename_i spec m _ hself hm
    split
    · exact h
    · intro s hF hl m' hm'
      have := h s hF hl m' hm'
      simp only [cacheGet_put]
      by_cases e : s = spec
      · subst e
        have hd := hg s hF m (by simpa [envOf] using hself) hm
        rw [hd] at hm'
        simp only [OnDisk.ok.injEq] at hm'
        subst hm'
        simp
      · simpa [e] using this
  · exact h

theorem inv_callsFile (p : Proj) (lower : String → String) (F : List String) (g : File) (hg : RegAgrees p F g) (c : Cache)
    (h : Inv p F c) : Inv p F (callsFile p lower c g).1 :=
  inv_reach p F (envOf p g) rfl _ _ (jobsCache_reach (fun _ => True) (envOf p g) lower _ (fun _ _ _ _ _ _ => trivial) _ _
    (fun _ _ _ _ _ _ => trivial)) (inv_register p F g hg c h)

theorem initialCache_eq_register (env : ProjCall.Env) (w : Workflow) : initialCache env w = register env [] w := by
  simp only [initialCache, register]
  split <;> simp_all [cacheGet, cachePut]

/-- under the invariant a well-formed callee is answered with its interface on disk -/
theorem answer_of_inv (p : Proj) (F : List String) (env : ProjCall.Env) (hdisk : env.disk = p.disk) (c : Cache)
    (h : Inv p F c) (s : String) (hF : s ∈ F) (hsk : skipped env s = false) (hl : AL.Rules.isLocalCallFormat s = true)
    (m : Meta) (hm : p.disk s = .ok m) : answer env c s = .found m := by
  simp only [answer, hsk, Bool.false_eq_true, if_false]
  rcases h s hF hl m hm with h0 | h1
  · simp [h0, diskAnswer, hdisk, hm]
  · simp [h1]

/-! ## 4. alone = in a run -/

/-- the callees `f` references are well-formed: each spec is one `FindMetadata` does not look at, or a well-formed callee -/
def RefsOk (p : Proj) (f : File) : Prop :=
  ∀ s ∈ refs f.wf, skipped (envOf p f) s = true ∨ CalleeOk p s

/-- one file on any cache satisfying the invariant gives what it gives alone -/
theorem callsFile_eq_alone (p : Proj) (lower : String → String) (f : File) (hrefs : RefsOk p f)
    (hself : RegAgrees p (refs f.wf) f) (c : Cache) (h : Inv p (refs f.wf) c) :
    (callsFile p lower c f).2 = callsAlone p lower f := by
  simp only [callsFile, callsAlone, simulate, initialCache_eq_register]
  apply simulateJobs_sameOn (fun s => s ∈ refs f.wf) (envOf p f) lower _ (covers_refs _) _ _ _ (covers_refs _)
  intro s hs
  have h1 := inv_register p (refs f.wf) f hself c h
  have h2 := inv_register p (refs f.wf) f hself [] (inv_nil p _)
  rcases hrefs s hs with hsk | ⟨hl, m, hm⟩
  · simp [answer, hsk]
  · cases hsk : skipped (envOf p f) s with
    | true => simp [answer, hsk]
    | false =>
      rw [answer_of_inv p _ (envOf p f) rfl _ h1 s hs hsk hl m hm, answer_of_inv p _ (envOf p f) rfl _ h2 s hs hsk hl m hm]

theorem callsRun_length (p : Proj) (lower : String → String) : ∀ (fs : List File) (c : Cache),
    (callsRun p lower fs c).length = fs.length := by
  intro fs
  induction fs with
  | nil => intro c; rfl
  | cons f rest ih => intro c; simp [callsRun, ih]

/-- the position of `f` in the run, whatever cache the run starts from (under the invariant) -/
theorem callsRun_at (p : Proj) (lower : String → String) (f : File) (post : List File) (hrefs : RefsOk p f)
    (hself : RegAgrees p (refs f.wf) f) :
    ∀ (pre : List File) (c : Cache), (∀ g ∈ pre, RegAgrees p (refs f.wf) g) → Inv p (refs f.wf) c →
      (callsRun p lower (pre ++ f :: post) c)[pre.length]? = some (callsAlone p lower f) := by
  intro pre
  induction pre with
  | nil =>
    intro c _ h
    simp only [List.nil_append, callsRun, List.length_nil, List.getElem?_cons_zero]
    rw [callsFile_eq_alone p lower f hrefs hself c h]
  | cons g rest ih =>
    intro c hpre h
    simp only [List.cons_append, callsRun, List.length_cons, List.getElem?_cons_succ]
    exact ih _ (fun g' hg' => hpre g' (by simp [hg'])) (inv_callsFile p lower _ g (hpre g (by simp)) c h)

/-- **C10, alone = in a run (reusable workflows)**: `f` at any position of a run, whatever files `pre` are linted before
it and `post` after it. If every spec `f` references is one `FindMetadata` skips or a well-formed callee (local call format,
file readable and decodable), and every file of the run up to `f` that is such a callee registers from its AST the
interface that is on disk (`document_interface_agrees`), then the per-job results of `f` in the run — the diagnostics of
rule workflow-call, the callee defects and the `needs` / `inputs` view of the expression rule — are those of `f` linted
alone with an empty cache. -/
theorem calls_in_run_eq_alone (p : Proj) (lower : String → String) (pre : List File) (f : File) (post : List File)
    (hrefs : RefsOk p f) (hreg : ∀ g ∈ pre ++ [f], RegAgrees p (refs f.wf) g) :
    (callsRun p lower (pre ++ f :: post) [])[pre.length]? = some (callsAlone p lower f) :=
  callsRun_at p lower f post hrefs (hreg f (by simp)) pre [] (fun g hg => hreg g (by simp [hg])) (inv_nil p _)

/-! ## 5. local actions: alone = in a run -/

section Actions
open AL.ProjAction

/-- every entry of the actions cache is what the metadata file gives (entries come from look-ups only) -/
def AFaithful (env : ProjAction.Env) (c : ProjAction.Cache) : Prop :=
  ∀ s, ProjAction.cacheGet c s = none ∨
    ProjAction.cacheGet c s = some (match env.disk s with | .ok m => some m | _ => none)

theorem afaithful_nil (env : ProjAction.Env) : AFaithful env [] := fun _ => Or.inl rfl

theorem afaithful_remember (env : ProjAction.Env) (c : ProjAction.Cache) (s : String) (h : AFaithful env c) :
    AFaithful env (ProjAction.remember env c s) := by
  intro spec
  rw [AL.C10A.cacheGet_remember]
  by_cases hg : (!env.hasProject || !s.startsWith "./") = true
  · simp only [hg, if_true]; exact h spec
  · simp only [hg, Bool.false_eq_true, if_false]
    by_cases e : spec = s
    · subst e
      simp only [if_true]
      rcases h spec with h0 | h1
      · right; simp [h0]; cases env.disk spec <;> rfl
      · right; simp [h1]
    · simp only [e, if_false]; exact h spec

/-- a well-formed local action: no metadata file (never reported), or metadata that passes `checkLocalActionMetadata` -/
def ActionOk (env : ProjAction.Env) (s : String) : Prop :=
  env.disk s = .absent ∨ ∃ m, env.disk s = .ok m ∧ ∀ pos, metadataDiags env m pos = []

theorem localStep_faithful (env : ProjAction.Env) (c c' : ProjAction.Cache) (s : String) (e : ExecAction) (pos : ProjAction.Pos)
    (h : AFaithful env c) (h' : AFaithful env c') (hok : ActionOk env s) :
    localStep env (ProjAction.answer env c s) s e pos = localStep env (ProjAction.answer env c' s) s e pos := by
  simp only [ProjAction.answer]
  by_cases hg : (!env.hasProject || !s.startsWith "./") = true
  · simp [hg]
  · simp only [hg, Bool.false_eq_true, if_false]
    rcases hok with ha | ⟨m, hm, hmd⟩
    · rcases h s with h0 | h1 <;> rcases h' s with h0' | h1' <;> simp_all [localStep]
    · rcases h s with h0 | h1 <;> rcases h' s with h0' | h1' <;> simp_all [localStep]

theorem exprAns_faithful (env : ProjAction.Env) (c : ProjAction.Cache) (s : String) (pos : ProjAction.Pos)
    (h : AFaithful env c) (hok : ActionOk env s) :
    (match ProjAction.answer env c s with | .err dir => [(⟨pos, "meta-broken", [dir]⟩ : AL.RuleExpr.Diag)] | _ => []) = [] := by
  simp only [ProjAction.answer]
  by_cases hg : (!env.hasProject || !s.startsWith "./") = true
  · simp [hg]
  · simp only [hg, Bool.false_eq_true, if_false]
    rcases hok with ha | ⟨m, hm, _⟩
    · rcases h s with h0 | h1 <;> simp_all
    · rcases h s with h0 | h1 <;> simp_all

/-- the local action a step uses (if any) is well-formed -/
def StepOk (env : ProjAction.Env) (st : Step) : Prop :=
  ∀ e u, st.exec = .action e → e.uses = some u → u.value.startsWith "./" = true → ActionOk env u.value

theorem actionStep_faithful (env : ProjAction.Env) (c : ProjAction.Cache) (st : Step) (h : AFaithful env c) :
    AFaithful env (actionStep env c st).1 := by
  simp only [actionStep]
  split
  · split
    · exact h
    · split
      · exact h
      · split
        · exact afaithful_remember env c _ h
        · exact h
  · exact h

theorem exprStep_faithful (env : ProjAction.Env) (c : ProjAction.Cache) (st : Step) (h : AFaithful env c) :
    AFaithful env (exprStep env c st).1 := by
  simp only [exprStep]
  split
  · split
    · exact h
    · split
      · exact afaithful_remember env c _ h
      · exact h
  · exact h

theorem actionStep_same (env : ProjAction.Env) (c c' : ProjAction.Cache) (st : Step) (h : AFaithful env c)
    (h' : AFaithful env c') (hok : StepOk env st) : (actionStep env c st).2 = (actionStep env c' st).2 := by
  simp only [actionStep]
  split
  · rename_i e he
    split
    · rfl
    · rename_i u hu
      split
      · rfl
      · split
        · rename_i hs
          exact localStep_faithful env c c' u.value e u.pos h h' (hok e u he hu hs)
        · rfl
  · rfl

theorem exprStep_nil (env : ProjAction.Env) (c : ProjAction.Cache) (st : Step) (h : AFaithful env c)
    (hok : StepOk env st) : (exprStep env c st).2 = [] := by
  simp only [exprStep]
  split
  · rename_i e _ he
    split
    · rfl
    · rename_i u hu
      split
      · rename_i hs
        exact exprAns_faithful env c u.value u.pos h (hok e u he hu hs)
      · rfl
  · rfl

theorem stepsLoop_faithful (env : ProjAction.Env) : ∀ (l : List Step) (o : ProjAction.Out),
    AFaithful env o.cache → AFaithful env (stepsLoop env l o).cache := by
  intro l
  induction l with
  | nil => intro o h; exact h
  | cons st rest ih =>
    intro o h
    simp only [stepsLoop]
    exact ih _ (exprStep_faithful env _ st (actionStep_faithful env _ st h))

/-- two states of the walk that agree on the diagnostics so far, both caches faithful -/
def ARel (env : ProjAction.Env) (o o' : ProjAction.Out) : Prop :=
  o.action = o'.action ∧ o.expr = o'.expr ∧ AFaithful env o.cache ∧ AFaithful env o'.cache

theorem stepsLoop_rel (env : ProjAction.Env) : ∀ (l : List Step), (∀ st ∈ l, StepOk env st) →
    ∀ (o o' : ProjAction.Out), ARel env o o' → ARel env (stepsLoop env l o) (stepsLoop env l o') := by
  intro l
  induction l with
  | nil => intro _ o o' h; exact h
  | cons st rest ih =>
    intro hl o o' ⟨ha, he, hf, hf'⟩
    simp only [stepsLoop]
    have hst := hl st (by simp)
    apply ih (fun s hs => hl s (by simp [hs]))
    refine ⟨?_, ?_, ?_, ?_⟩
    · simp only [ha, actionStep_same env o.cache o'.cache st hf hf' hst]
    · simp only [he, exprStep_nil env _ st (actionStep_faithful env _ st hf) hst,
        exprStep_nil env _ st (actionStep_faithful env _ st hf') hst]
    · exact exprStep_faithful env _ st (actionStep_faithful env _ st hf)
    · exact exprStep_faithful env _ st (actionStep_faithful env _ st hf')

theorem jobsFold_faithful (env : ProjAction.Env) : ∀ (js : List Job) (o : ProjAction.Out),
    AFaithful env o.cache →
    AFaithful env (js.foldl (fun o j => stepsLoop env (AL.Rules.stepsOf j) o) o).cache := by
  intro js
  induction js with
  | nil => intro o h; exact h
  | cons j rest ih => intro o h; simp only [List.foldl_cons]; exact ih _ (stepsLoop_faithful env _ o h)

theorem jobsFold_rel (env : ProjAction.Env) : ∀ (js : List Job), (∀ j ∈ js, ∀ st ∈ AL.Rules.stepsOf j, StepOk env st) →
    ∀ (o o' : ProjAction.Out), ARel env o o' →
      ARel env (js.foldl (fun o j => stepsLoop env (AL.Rules.stepsOf j) o) o)
        (js.foldl (fun o j => stepsLoop env (AL.Rules.stepsOf j) o) o') := by
  intro js
  induction js with
  | nil => intro _ o o' h; exact h
  | cons j rest ih =>
    intro hl o o' h
    simp only [List.foldl_cons]
    exact ih (fun j' hj' => hl j' (by simp [hj'])) _ _ (stepsLoop_rel env _ (hl j (by simp)) o o' h)

/-- every local action `f` uses is well-formed -/
def ActRefsOk (p : Proj) (f : File) : Prop :=
  ∀ j ∈ AL.Rules.jobsOf f.wf, ∀ st ∈ AL.Rules.stepsOf j, StepOk p.actions st

theorem actionsFile_faithful (p : Proj) (c : ProjAction.Cache) (g : File) (h : AFaithful p.actions c) :
    AFaithful p.actions (actionsFile p c g).cache :=
  jobsFold_faithful p.actions _ _ h

theorem actionsFile_eq_alone (p : Proj) (c : ProjAction.Cache) (f : File) (hok : ActRefsOk p f) (h : AFaithful p.actions c) :
    ((actionsFile p c f).action, (actionsFile p c f).expr) = actionsAlone p f := by
  have := jobsFold_rel p.actions (AL.Rules.jobsOf f.wf) hok { cache := c } {} ⟨rfl, rfl, h, afaithful_nil _⟩
  simp only [actionsFile, actionsAlone, ProjAction.simulate]
  rw [this.1, this.2.1]

theorem actionsRun_at (p : Proj) (f : File) (post : List File) (hok : ActRefsOk p f) :
    ∀ (pre : List File) (c : ProjAction.Cache), AFaithful p.actions c →
      (actionsRun p (pre ++ f :: post) c)[pre.length]? = some (actionsAlone p f) := by
  intro pre
  induction pre with
  | nil =>
    intro c h
    simp only [List.nil_append, actionsRun, List.length_nil, List.getElem?_cons_zero]
    rw [actionsFile_eq_alone p c f hok h]
  | cons g rest ih =>
    intro c h
    simp only [List.cons_append, actionsRun, List.length_cons, List.getElem?_cons_succ]
    exact ih _ (actionsFile_faithful p c g h)

/-- **C10, alone = in a run (local actions)**: `f` at any position of a run, whatever files are linted before and after
it — including files that use the same actions, so that `f` finds their metadata in the cache. If every local action `f`
uses is well-formed (no metadata file, or metadata that `checkLocalActionMetadata` accepts), the diagnostics of rule
action and of the expression rule's `getActionOutputsType` look-ups for `f` in the run are those of `f` linted alone.
No hypothesis on the other files: whatever they put into the cache is what the metadata files give. -/
theorem actions_in_run_eq_alone (p : Proj) (pre : List File) (f : File) (post : List File) (hok : ActRefsOk p f) :
    (actionsRun p (pre ++ f :: post) [])[pre.length]? = some (actionsAlone p f) :=
  actionsRun_at p f post hok pre [] (afaithful_nil _)

end Actions

/-! ## 6. both sides together, and the whole run when every file is fine (order independence) -/

/-- **C10, alone = in a run**: both caches. The diagnostics the project adds to `f` (rule workflow-call and rule action;
the expression rule's callee defects) at any position of a run are those of `f` linted alone. -/
theorem diags_in_run_eq_alone (p : Proj) (lower : String → String) (pre : List File) (f : File) (post : List File)
    (hrefs : RefsOk p f) (hreg : ∀ g ∈ pre ++ [f], RegAgrees p (refs f.wf) g) (hok : ActRefsOk p f) :
    ∃ calls acts, (callsRun p lower (pre ++ f :: post) [])[pre.length]? = some calls ∧
      (actionsRun p (pre ++ f :: post) [])[pre.length]? = some acts ∧
      calls = callsAlone p lower f ∧ acts = actionsAlone p f ∧
      diagsOf calls acts = diagsOf (callsAlone p lower f) (actionsAlone p f) :=
  ⟨_, _, calls_in_run_eq_alone p lower pre f post hrefs hreg, actions_in_run_eq_alone p pre f post hok, rfl, rfl, rfl⟩

/-- every file of `U` references well-formed callees only, and the files of `U` that are such callees register the
interface that is on disk -/
def AllOk (p : Proj) (U : List File) : Prop :=
  (∀ f ∈ U, RefsOk p f) ∧ (∀ f ∈ U, ∀ g ∈ U, RegAgrees p (refs f.wf) g)

theorem callsRun_all (p : Proj) (lower : String → String) (U : List File) (hU : AllOk p U) :
    ∀ (fs : List File) (c : Cache), (∀ f ∈ fs, f ∈ U) → (∀ f ∈ U, Inv p (refs f.wf) c) →
      callsRun p lower fs c = fs.map (callsAlone p lower) := by
  intro fs
  induction fs with
  | nil => intro c _ _; rfl
  | cons f rest ih =>
    intro c hfs hinv
    have hf : f ∈ U := hfs f (by simp)
    simp only [callsRun, List.map_cons]
    rw [callsFile_eq_alone p lower f (hU.1 f hf) (hU.2 f hf f hf) c (hinv f hf)]
    rw [ih _ (fun g hg => hfs g (by simp [hg])) (fun g hg => inv_callsFile p lower _ f (hU.2 g hg f hf) c (hinv g hg))]

theorem actionsRun_all (p : Proj) (U : List File) (hU : ∀ f ∈ U, ActRefsOk p f) :
    ∀ (fs : List File) (c : ProjAction.Cache), (∀ f ∈ fs, f ∈ U) → AFaithful p.actions c →
      actionsRun p fs c = fs.map (actionsAlone p) := by
  intro fs
  induction fs with
  | nil => intro c _ _; rfl
  | cons f rest ih =>
    intro c hfs h
    simp only [actionsRun, List.map_cons]
    rw [actionsFile_eq_alone p c f (hU f (hfs f (by simp))) h]
    rw [ih _ (fun g hg => hfs g (by simp [hg])) (actionsFile_faithful p c f h)]

/-- the whole run is the list of the files' results alone -/
theorem run_eq_map_alone (p : Proj) (lower : String → String) (fs : List File) (h : AllOk p fs) (ha : ∀ f ∈ fs, ActRefsOk p f) :
    callsRun p lower fs [] = fs.map (callsAlone p lower) ∧ actionsRun p fs [] = fs.map (actionsAlone p) :=
  ⟨callsRun_all p lower fs h fs [] (fun _ hf => hf) (fun _ _ => inv_nil p _),
   actionsRun_all p fs ha fs [] (fun _ hf => hf) (afaithful_nil _)⟩

theorem allOk_perm (p : Proj) (fs fs' : List File) (hp : fs.Perm fs') (h : AllOk p fs) : AllOk p fs' :=
  ⟨fun f hf => h.1 f (hp.mem_iff.mpr hf), fun f hf g hg => h.2 f (hp.mem_iff.mpr hf) g (hp.mem_iff.mpr hg)⟩

/-- **C10, order independence**: permuting the files of a run permutes the per-file results, each file keeping its own
(the files paired with their results are permuted by the same permutation) — for both caches. -/
theorem run_order_independent (p : Proj) (lower : String → String) (fs fs' : List File) (hp : fs.Perm fs')
    (h : AllOk p fs) (ha : ∀ f ∈ fs, ActRefsOk p f) :
    (fs.zip (callsRun p lower fs [])).Perm (fs'.zip (callsRun p lower fs' [])) ∧
    (fs.zip (actionsRun p fs [])).Perm (fs'.zip (actionsRun p fs' [])) := by
  have h' := allOk_perm p fs fs' hp h
  have ha' : ∀ f ∈ fs', ActRefsOk p f := fun f hf => ha f (hp.mem_iff.mpr hf)
  rw [(run_eq_map_alone p lower fs h ha).1, (run_eq_map_alone p lower fs h ha).2,
    (run_eq_map_alone p lower fs' h' ha').1, (run_eq_map_alone p lower fs' h' ha').2]
  have z : ∀ {β : Type} (g : File → β) (l : List File), l.zip (l.map g) = l.map (fun f => (f, g f)) := by
    intro β g l
    induction l with
    | nil => rfl
    | cons a l ih => simp [ih]
  rw [z, z, z, z]
  exact ⟨hp.map _, hp.map _⟩

/-! ## 7. the hypotheses as computable tests, and a concrete run of three files -/

def calleeOkB (p : Proj) (s : String) : Bool :=
  AL.Rules.isLocalCallFormat s && (match p.disk s with | .ok _ => true | _ => false)

def refsOkB (p : Proj) (f : File) : Bool :=
  (refs f.wf).all fun s => skipped (envOf p f) s || calleeOkB p s

theorem refsOkB_sound (p : Proj) (f : File) (h : refsOkB p f = true) : RefsOk p f := by
  intro s hs
  simp only [refsOkB, List.all_eq_true, Bool.or_eq_true] at h
  rcases h s hs with h1 | h2
  · exact Or.inl h1
  · right
    simp only [calleeOkB, Bool.and_eq_true] at h2
    refine ⟨h2.1, ?_⟩
    cases hd : p.disk s with
    | ok m => exact ⟨m, rfl⟩
    | missing => simp [hd] at h2
    | broken => simp [hd] at h2

def regAgreesB (p : Proj) (F : List String) (g : File) : Bool :=
  match g.self, fromEvents (g.wf.on.getD []) with
  | some s, some m => !F.contains s || (match p.disk s with | .ok m' => decide (m' = m) | _ => false)
  | _, _ => true

theorem regAgreesB_sound (p : Proj) (F : List String) (g : File) (h : regAgreesB p F g = true) : RegAgrees p F g := by
  intro s hs m hself hm
  simp only [regAgreesB, hself, hm, Bool.or_eq_true, Bool.not_eq_true', List.contains_eq_mem, decide_eq_false_iff_not] at h
  rcases h with h | h
  · exact absurd hs h
  · cases hd : p.disk s with
    | ok m' => simp only [hd, decide_eq_true_eq] at h; rw [h]
    | missing => simp [hd] at h
    | broken => simp [hd] at h

def sc (tag value : String) (line col : Nat) : AL.Yaml.Node := .mk .scalar tag value false line col []
def st (value : String) (line col : Nat) : AL.Yaml.Node := sc "!!str" value line col
def mp (line col : Nat) (cs : List AL.Yaml.Node) : AL.Yaml.Node := .mk .mapping "!!map" "" false line col cs
def docOf (root : AL.Yaml.Node) : AL.Yaml.Node := .mk .document "" "" false 1 1 [root]

def exCfg : AL.PW.Cfg := { lower := AL.PW.asciiLower, atoi := fun _ => none, parseFloat := fun _ => .err }

/-- `./c.yml`: `on: {workflow_call: {inputs: {x: {required: true, type: string}}}}` / `jobs: {a: {runs-on: u}}` -/
def calleeDoc : AL.Yaml.Node := docOf (mp 1 1
  [st "on" 1 1, mp 2 3 [st "workflow_call" 2 3, mp 3 5 [st "inputs" 3 5, mp 4 7 [st "x" 4 7,
     mp 5 9 [st "required" 5 9, sc "!!bool" "true" 5 19, st "type" 6 9, st "string" 6 15]]]],
   st "jobs" 7 1, mp 8 3 [st "a" 8 3, mp 9 5 [st "runs-on" 9 5, st "u" 9 14]]])

/-- `./k1.yml`: `on: push` / `jobs: {k: {uses: ./c.yml}}` — the required input is missing -/
def caller1Doc : AL.Yaml.Node := docOf (mp 1 1
  [st "on" 1 1, st "push" 1 5, st "jobs" 2 1, mp 3 3 [st "k" 3 3, mp 4 5 [st "uses" 4 5, st "./c.yml" 4 11]]])

/-- `./k2.yml`: `on: push` / `jobs: {k: {uses: ./c.yml, with: {x: v, y: w}}}` — an undefined input -/
def caller2Doc : AL.Yaml.Node := docOf (mp 1 1
  [st "on" 1 1, st "push" 1 5, st "jobs" 2 1, mp 3 3 [st "k" 3 3, mp 4 5 [st "uses" 4 5, st "./c.yml" 4 11,
     st "with" 5 5, mp 6 7 [st "x" 6 7, st "v" 6 10, st "y" 7 7, st "w" 7 10]]]])

def fCallee : File := { self := some "./c.yml", wf := (AL.PW.parse exCfg calleeDoc).1 }
def fCaller1 : File := { self := some "./k1.yml", wf := (AL.PW.parse exCfg caller1Doc).1 }
def fCaller2 : File := { self := some "./k2.yml", wf := (AL.PW.parse exCfg caller2Doc).1 }

/-- the project on disk: `./c.yml` decodes (by `parseReusableWorkflowMetadata`, AL.CallMeta.fromDoc) to its interface -/
def exProj : Proj :=
  { disk := fun s => if s = "./c.yml" then (match fromDoc exCfg calleeDoc with | .ok m => .ok m | .error _ => .broken) else .missing }

/-- the diagnostics of one file's result: rule workflow-call, the expression rule's callee defects -/
def shown (r : List (String × JobView)) : List AL.Rules.Diag × List AL.RuleExpr.Diag :=
  (r.flatMap (·.2.wc), r.flatMap (·.2.exprErrs))

def d1 : AL.Rules.Diag := ⟨⟨4, 11⟩, "workflow-call", "input-required", ["x", "./c.yml"]⟩
def d2 : AL.Rules.Diag := ⟨⟨7, 7⟩, "workflow-call", "input-undefined", ["y", "./c.yml", "x"]⟩

/-- the callee first (its interface comes from its AST), then the two callers -/
example : (callsRun exProj AL.PW.asciiLower [fCallee, fCaller1, fCaller2] []).map shown =
    [([], []), ([d1], []), ([d2], [])] := by decide +kernel

/-- the callers first, in the other order (the interface is read from disk by the first), the callee last -/
example : (callsRun exProj AL.PW.asciiLower [fCaller2, fCaller1, fCallee] []).map shown =
    [([d2], []), ([d1], []), ([], [])] := by decide +kernel

/-- … and each of them alone -/
example : [fCallee, fCaller1, fCaller2].map (fun f => shown (callsAlone exProj AL.PW.asciiLower f)) =
    [([], []), ([d1], []), ([d2], [])] := by decide +kernel

/-- the hypotheses of the theorems hold of this run -/
theorem exAllOk : AllOk exProj [fCallee, fCaller1, fCaller2] := by
  refine ⟨fun f hf => refsOkB_sound _ _ ?_, fun f hf g hg => regAgreesB_sound _ _ _ ?_⟩
  · simp only [List.mem_cons, List.not_mem_nil, or_false] at hf
    rcases hf with rfl | rfl | rfl <;> decide +kernel
  · simp only [List.mem_cons, List.not_mem_nil, or_false] at hf hg
    rcases hf with rfl | rfl | rfl <;> rcases hg with rfl | rfl | rfl <;> decide +kernel

theorem exActOk : ∀ f ∈ [fCallee, fCaller1, fCaller2], ActRefsOk exProj f := by
  intro f hf j hj s hs e u he hu hstart
  exact Or.inl rfl

/-- `calls_in_run_eq_alone` on the concrete run: the second caller in third position -/
example : (callsRun exProj AL.PW.asciiLower ([fCallee, fCaller1] ++ fCaller2 :: []) [])[2]? =
    some (callsAlone exProj AL.PW.asciiLower fCaller2) :=
  calls_in_run_eq_alone exProj AL.PW.asciiLower [fCallee, fCaller1] fCaller2 []
    (exAllOk.1 _ (by simp))
    (fun g hg => exAllOk.2 fCaller2 (by simp) g (by
      simp only [List.cons_append, List.nil_append, List.mem_cons, List.not_mem_nil, or_false] at hg
      rcases hg with rfl | rfl | rfl <;> simp))

example : (actionsRun exProj ([fCallee, fCaller1] ++ fCaller2 :: []) [])[2]? = some (actionsAlone exProj fCaller2) :=
  actions_in_run_eq_alone exProj [fCallee, fCaller1] fCaller2 [] (exActOk _ (by simp))

example : ([fCallee, fCaller1, fCaller2].zip (callsRun exProj AL.PW.asciiLower [fCallee, fCaller1, fCaller2] [])).Perm
    ([fCaller2, fCaller1, fCallee].zip (callsRun exProj AL.PW.asciiLower [fCaller2, fCaller1, fCallee] [])) :=
  (run_order_independent exProj AL.PW.asciiLower _ _
    ((List.Perm.swap _ _ _).trans ((List.Perm.cons _ (List.Perm.swap _ _ _)).trans (List.Perm.swap _ _ _))) exAllOk exActOk).1

/-! ## 8. FINDING: a `./` spec that is not in the local call format — a file's diagnostics depend on the files before it

`RuleWorkflowCall.VisitJobPre` remembers a `uses:` that starts with `./` but is not in the local call format (here
`./x.yml@v1`) as a failure (`writeCache(u.Value, nil)`). The expression rule's `getWorkflowCallOutputsType`
(`calcNeedsType`) asks `FindMetadata` for the spec of a NEEDED job whatever its format. In a file where the job that needs
comes before the called job in source order, alone the look-up reads the disk and reports "could not read reusable
workflow file"; in a run after another file with the same `uses:` the remembered failure silences it. So `RefsOk`'s
"local call format" cannot be dropped from `calls_in_run_eq_alone`. -/

/-- `./a.yml`: `on: push` / `jobs: {a: {uses: ./x.yml@v1}}` -/
def badADoc : AL.Yaml.Node := docOf (mp 1 1
  [st "on" 1 1, st "push" 1 5, st "jobs" 2 1, mp 3 3 [st "a" 3 3, mp 4 5 [st "uses" 4 5, st "./x.yml@v1" 4 11]]])

/-- `./b.yml`: `on: push` / `jobs: {first: {needs: second, runs-on: u}, second: {uses: ./x.yml@v1}}` -/
def badBDoc : AL.Yaml.Node := docOf (mp 1 1
  [st "on" 1 1, st "push" 1 5, st "jobs" 2 1, mp 3 3
    [st "first" 3 3, mp 4 5 [st "needs" 4 5, st "second" 4 12, st "runs-on" 5 5, st "u" 5 14],
     st "second" 6 3, mp 7 5 [st "uses" 7 5, st "./x.yml@v1" 7 11]]])

def fBadA : File := { self := some "./a.yml", wf := (AL.PW.parse exCfg badADoc).1 }
def fBadB : File := { self := some "./b.yml", wf := (AL.PW.parse exCfg badBDoc).1 }

/-- alone, `./b.yml` gets the callee defect from the expression rule; in a run after `./a.yml` it does not -/
theorem bad_format_spec_counterexample :
    shown (callsAlone {} AL.PW.asciiLower fBadB) = ([], [⟨⟨7, 11⟩, "callee-unreadable", ["./x.yml@v1"]⟩]) ∧
    (callsRun {} AL.PW.asciiLower [fBadA, fBadB] []).map shown = [([], []), ([], [])] ∧
    (callsRun {} AL.PW.asciiLower [fBadB, fBadA] []).map shown =
      [([], [⟨⟨7, 11⟩, "callee-unreadable", ["./x.yml@v1"]⟩]), ([], [])] := by decide +kernel

/-! ## 9. a callee's own defect: once per run -/

/-- how often the defect of the callee `spec` is reported in the whole run (both rules, all files) -/
def runTotal (spec : String) (rs : List (List (String × JobView))) : Nat := (rs.map (total spec)).sum

theorem register_T (env : ProjCall.Env) (c : Cache) (w : Workflow) (spec : String) : T spec c (register env c w) 0 := by
  simp only [register]
  split
  · split
    · exact T.refl spec c
    · exact ⟨fun h => ⟨by simp [decided_put, h], rfl⟩, fun _ => ⟨Nat.zero_le _, fun h => by cases h⟩⟩
  · exact T.refl spec c

/-- `C10O.simulateJobs_T` with the cache after the walk made explicit -/
theorem jobsCache_T (env : ProjCall.Env) (lower : String → String) (jobs : List (String × Job)) (spec : String) :
    ∀ (l : List (String × Job)) (c : Cache),
      T spec c (jobsCache env lower jobs l c) (total spec (simulateJobs env lower jobs l c)) := by
  intro l
  induction l with
  | nil => intro c; simpa [simulateJobs, total, jobsCache] using T.refl spec c
  | cons e rest ih =>
    intro c
    obtain ⟨_, j⟩ := e
    simp only [simulateJobs, jobsCache]
    have h1 := wcJob_T env c j spec
    have h2 := needsLookups_T env lower jobs j (wcJob env c j).1 spec
    have h3 := callLookup_T env (needsLookups env lower jobs j (wcJob env c j).1).cache j spec
    have h4 := ih (callLookup env j (needsLookups env lower jobs j (wcJob env c j).1).cache).cache
    have := T.comp (T.comp (T.comp h1 h2) h3) h4
    simp only [total, List.map_cons, List.sum_cons, exCount_append]
    simp only [total] at this
    rw [← Nat.add_assoc (wcCount spec (wcJob env c j).2)]
    exact this

theorem callsFile_T (p : Proj) (lower : String → String) (c : Cache) (f : File) (spec : String) :
    T spec c (callsFile p lower c f).1 (total spec (callsFile p lower c f).2) := by
  have := T.comp (register_T (envOf p f) c f.wf spec)
    (jobsCache_T (envOf p f) lower (f.wf.jobs.getD []) spec (f.wf.jobs.getD []) (register (envOf p f) c f.wf))
  simpa [callsFile] using this

theorem callsRun_T (p : Proj) (lower : String → String) (spec : String) : ∀ (fs : List File) (c : Cache),
    ∃ c', T spec c c' (runTotal spec (callsRun p lower fs c)) := by
  intro fs
  induction fs with
  | nil => intro c; exact ⟨c, by simpa [callsRun, runTotal] using T.refl spec c⟩
  | cons f rest ih =>
    intro c
    obtain ⟨c', h⟩ := ih (callsFile p lower c f).1
    refine ⟨c', ?_⟩
    have := T.comp (callsFile_T p lower c f spec) h
    simpa [callsRun, runTotal] using this

/-- **C10, a callee's own defect at most once per run**: however many files of the run, and jobs in them, call or need the
workflow behind `spec`, whichever file comes first and whichever rule asks first, and whatever the cache held before: among
all diagnostics of the run at most one reports that the file behind `spec` cannot be read or parsed
(`C10O.callee_defect_at_most_once` lifted from one file to the run). -/
theorem callee_defect_at_most_once_per_run (p : Proj) (lower : String → String) (fs : List File) (c : Cache) (spec : String) :
    runTotal spec (callsRun p lower fs c) ≤ 1 := by
  obtain ⟨_, h⟩ := callsRun_T p lower spec fs c
  exact h.le_one

/-! ### exactly once, at the first file that asks -/

/-- a broken callee: `FindMetadata` looks at the spec, it has the local call format, the file is missing or undecodable -/
def Broken (env : ProjCall.Env) (spec : String) : Prop :=
  skipped env spec = false ∧ AL.Rules.isLocalCallFormat spec = true ∧ ∀ m, env.disk spec ≠ .ok m

/-- 1 when the cache has an entry for `spec` -/
def dec (spec : String) (c : Cache) : Nat := if decided c spec = true then 1 else 0

/-- a piece of the visit reports the defect of `spec` exactly when it is the one that decides `spec` -/
def E (spec : String) (c c' : Cache) (n : Nat) : Prop := dec spec c + n = dec spec c'

theorem E.refl (spec : String) (c : Cache) : E spec c c 0 := rfl

theorem E.comp {spec : String} {c c' c'' : Cache} {n m : Nat} (h1 : E spec c c' n) (h2 : E spec c' c'' m) :
    E spec c c'' (n + m) := by
  unfold E at *; omega

theorem find_E (env : ProjCall.Env) (spec : String) (hb : Broken env spec) (c : Cache) (s : String) :
    E spec c (find env c s).1
      (match (find env c s).2 with
       | .err _ => if s = spec then 1 else 0
       | _ => 0) := by
  obtain ⟨hsk, _, hdisk⟩ := hb
  by_cases hs : s = spec
  · subst hs
    cases hk : cacheGet c s with
    | some v =>
      have h1 : (find env c s).1 = c := by simp [ProjCall.find, remember, hsk, hk]
      have h2 : ∀ code, (find env c s).2 ≠ .err code := by
        intro code; cases v <;> simp [ProjCall.find, answer, hsk, hk]
      cases hf : (find env c s).2 with
      | err code => exact absurd hf (h2 code)
      | nothing => simp only [h1]; exact E.refl _ _
      | found m => simp only [h1]; exact E.refl _ _
    | none =>
      have hd : decided c s = false := by simp [decided, hk]
      have hd' : decided (find env c s).1 s = true := by
        simp [decided, ProjCall.find, cacheGet_remember, hsk, hk]
      have hex : ∃ code, (find env c s).2 = .err code := by
        simp only [ProjCall.find, answer, hsk, hk, diskAnswer, Bool.false_eq_true, if_false]
        cases hdk : env.disk s with
        | ok m => exact absurd hdk (hdisk m)
        | missing => exact ⟨_, rfl⟩
        | broken => exact ⟨_, rfl⟩
      obtain ⟨code, hf⟩ := hex
      rw [hf]
      simp [E, dec, hd, hd']
  · have hs' : ¬ spec = s := fun h => hs h.symm
    have hdec : decided (find env c s).1 spec = decided c spec := by
      simp only [decided, ProjCall.find, cacheGet_remember]
      by_cases hg : skipped env s = true <;> simp [hg, hs']
    cases hf : (find env c s).2 <;> simp [E, dec, hdec, hs]

theorem wcJob_E (env : ProjCall.Env) (spec : String) (hb : Broken env spec) (c : Cache) (j : Job) :
    E spec c (wcJob env c j).1 (wcCount spec (wcJob env c j).2) := by
  simp only [wcJob]
  split
  · exact E.refl spec c
  · split
    · exact E.refl spec c
    · rename_i _ call _ _ u _
      simp only [wcUses]
      by_cases h1 : (u.value = "" || AL.Rules.containsExpr u) = true
      · simp only [h1, if_true]; exact E.refl spec c
      · simp only [h1, Bool.false_eq_true, if_false]
        by_cases h2 : AL.Rules.isLocalCallFormat u.value = true
        · simp only [h2, if_true, wcFound_count]
          exact find_E env spec hb c u.value
        · simp only [h2, Bool.false_eq_true, if_false]
          by_cases h3 : AL.Rules.isRepoCallFormat u.value = true
          · simp only [h3, if_true]; exact E.refl spec c
          · simp only [h3, Bool.false_eq_true, if_false]
            by_cases h4 : u.value.startsWith "./" = true
            · simp only [h4, if_true]
              have e : ¬ spec = u.value := fun h => h2 (h ▸ hb.2.1)
              simp [E, dec, decided_put, e, wcCount]
            · simp only [h4, Bool.false_eq_true, if_false]; exact E.refl spec c

theorem callLookup_E (env : ProjCall.Env) (spec : String) (hb : Broken env spec) (c : Cache) (j : Job) :
    E spec c (callLookup env j c).cache (exCount spec (callLookup env j c).errs) := by
  simp only [callLookup]
  split
  · exact E.refl spec c
  · split
    · exact E.refl spec c
    · rename_i _ call _ _ u _
      simp only [exFound_count]
      exact find_E env spec hb c u.value

theorem needsStep_E (env : ProjCall.Env) (spec : String) (hb : Broken env spec) (lower : String → String)
    (jobs : List (String × Job)) (job : Job) (acc : NeedsOut × List String) (id : Str) :
    ∃ k, E spec acc.1.cache (needsStep env lower jobs job acc id).1.cache k ∧
      exCount spec (needsStep env lower jobs job acc id).1.errs = exCount spec acc.1.errs + k := by
  simp only [needsStep]
  split
  · exact ⟨0, E.refl spec _, rfl⟩
  · split
    · exact ⟨0, E.refl spec _, rfl⟩
    · cases AL.RuleExpr.lookupJob (lower id.value) jobs with
      | none => exact ⟨0, E.refl spec _, rfl⟩
      | some j =>
        simp only
        cases j.workflowCall with
        | none => exact ⟨0, E.refl spec _, rfl⟩
        | some call =>
          simp only
          cases call.uses with
          | none => exact ⟨0, E.refl spec _, rfl⟩
          | some u =>
            simp only
            refine ⟨_, find_E env spec hb acc.1.cache u.value, ?_⟩
            rw [exCount_append, exFound_count]
            all_goals rfl

theorem needsFold_E (env : ProjCall.Env) (spec : String) (hb : Broken env spec) (lower : String → String)
    (jobs : List (String × Job)) (job : Job) :
    ∀ (ids : List Str) (acc : NeedsOut × List String),
      ∃ k, E spec acc.1.cache (ids.foldl (needsStep env lower jobs job) acc).1.cache k ∧
        exCount spec (ids.foldl (needsStep env lower jobs job) acc).1.errs = exCount spec acc.1.errs + k := by
  intro ids
  induction ids with
  | nil => intro acc; exact ⟨0, E.refl spec _, rfl⟩
  | cons id rest ih =>
    intro acc
    obtain ⟨k1, h1, e1⟩ := needsStep_E env spec hb lower jobs job acc id
    obtain ⟨k2, h2, e2⟩ := ih (needsStep env lower jobs job acc id)
    exact ⟨k1 + k2, by simpa using E.comp h1 h2, by simp only [List.foldl_cons]; omega⟩

theorem needsLookups_E (env : ProjCall.Env) (spec : String) (hb : Broken env spec) (lower : String → String)
    (jobs : List (String × Job)) (job : Job) (c : Cache) :
    E spec c (needsLookups env lower jobs job c).cache (exCount spec (needsLookups env lower jobs job c).errs) := by
  obtain ⟨k, hT, he⟩ := needsFold_E env spec hb lower jobs job (job.needs.getD []) (({ cache := c } : NeedsOut), [])
  simp only [needsLookups]
  have : exCount spec ([] : List AL.RuleExpr.Diag) = 0 := rfl
  rw [he]
  simpa [this] using hT

theorem jobsCache_E (env : ProjCall.Env) (spec : String) (hb : Broken env spec) (lower : String → String)
    (jobs : List (String × Job)) :
    ∀ (l : List (String × Job)) (c : Cache),
      E spec c (jobsCache env lower jobs l c) (total spec (simulateJobs env lower jobs l c)) := by
  intro l
  induction l with
  | nil => intro c; simpa [simulateJobs, total, jobsCache] using E.refl spec c
  | cons e rest ih =>
    intro c
    obtain ⟨_, j⟩ := e
    simp only [simulateJobs, jobsCache]
    have h1 := wcJob_E env spec hb c j
    have h2 := needsLookups_E env spec hb lower jobs j (wcJob env c j).1
    have h3 := callLookup_E env spec hb (needsLookups env lower jobs j (wcJob env c j).1).cache j
    have h4 := ih (callLookup env j (needsLookups env lower jobs j (wcJob env c j).1).cache).cache
    simp only [total, List.map_cons, List.sum_cons, exCount_append]
    simp only [total] at h4
    unfold E at *
    omega

/-- `Broken` for the project of a run (it does not depend on the linted file) -/
def BrokenP (p : Proj) (spec : String) : Prop := Broken { hasProject := p.hasProject, disk := p.disk } spec

theorem brokenP_env (p : Proj) (f : File) (spec : String) (h : BrokenP p spec) : Broken (envOf p f) spec := h

theorem register_untouched (p : Proj) (f : File) (c : Cache) (spec : String) (h : f.self ≠ some spec) :
    cacheGet (register (envOf p f) c f.wf) spec = cacheGet c spec := by
  simp only [register]
  split
  · rename_i s m _ hself _
    split
    · rfl
    · have : ¬ spec = s := fun e => h (by rw [e]; simpa [envOf] using hself)
      simp [cacheGet_put, this]
  · rfl

/-- a file that neither references `spec` nor is the file behind it leaves the entry of `spec` alone -/
theorem callsFile_untouched (p : Proj) (lower : String → String) (c : Cache) (g : File) (spec : String)
    (hr : spec ∉ refs g.wf) (hs : g.self ≠ some spec) : cacheGet (callsFile p lower c g).1 spec = cacheGet c spec := by
  simp only [callsFile]
  rw [reach_untouched (fun s => s ∈ refs g.wf) (envOf p g) _ _
    (jobsCache_reach (fun s => s ∈ refs g.wf) (envOf p g) lower _ (covers_refs _) _ _ (covers_refs _)) spec hr]
  exact register_untouched p g c spec hs

theorem callsFile_E (p : Proj) (lower : String → String) (c : Cache) (f : File) (spec : String) (hb : BrokenP p spec)
    (hs : f.self ≠ some spec) : E spec c (callsFile p lower c f).1 (total spec (callsFile p lower c f).2) := by
  have h0 : E spec c (register (envOf p f) c f.wf) 0 := by
    have hd : decided (register (envOf p f) c f.wf) spec = decided c spec := by
      simp only [decided, register_untouched p f c spec hs]
    unfold E dec
    rw [Nat.add_zero, hd]
  have := E.comp h0 (jobsCache_E (envOf p f) spec (brokenP_env p f spec hb) lower (f.wf.jobs.getD []) (f.wf.jobs.getD [])
    (register (envOf p f) c f.wf))
  simpa [callsFile] using this

theorem find_decides (env : ProjCall.Env) (c : Cache) (s : String) (hsk : skipped env s = false) :
    decided (find env c s).1 s = true := by
  simp only [decided, ProjCall.find, cacheGet_remember, hsk, Bool.false_eq_true, if_false, if_true]
  cases cacheGet c s <;> rfl

theorem wcJob_decides (env : ProjCall.Env) (spec : String) (hb : Broken env spec) (c : Cache) (j : Job)
    (hj : specOf j = some spec) : decided (wcJob env c j).1 spec = true := by
  obtain ⟨hsk0, hl, _⟩ := hb
  simp only [specOf] at hj
  simp only [wcJob]
  split
  · rename_i h; simp [h] at hj
  · rename_i call hcall
    split
    · rename_i h; simp [hcall, h] at hj
    · rename_i u hu
      simp only [hcall, hu, Option.some.injEq] at hj
      subst hj
      have hsk := hsk0
      simp only [skipped, Bool.or_eq_false_iff, Bool.not_eq_false'] at hsk
      have hne : u.value ≠ "" := by
        intro h; rw [h] at hsk; simp at hsk
      have hex : AL.Rules.containsExpr u = false := hsk.2
      have h1 : (decide (u.value = "") || AL.Rules.containsExpr u) = false := by simp [hne, hex]
      simp only [wcUses, h1, hl, Bool.false_eq_true, if_false, if_true]
      exact find_decides env c u.value hsk0

theorem jobsCache_mono (env : ProjCall.Env) (lower : String → String) (jobs l : List (String × Job)) (c : Cache)
    (spec : String) (h : decided c spec = true) : decided (jobsCache env lower jobs l c) spec = true :=
  ((jobsCache_T env lower jobs spec l c).1 h).1

/-- a file that references a broken callee has an entry for it afterwards -/
theorem jobsCache_decides (env : ProjCall.Env) (spec : String) (hb : Broken env spec) (lower : String → String)
    (jobs : List (String × Job)) : ∀ (l : List (String × Job)) (c : Cache), spec ∈ refsJobs l →
      decided (jobsCache env lower jobs l c) spec = true := by
  intro l
  induction l with
  | nil => intro c h; simp [refsJobs] at h
  | cons e rest ih =>
    intro c h
    obtain ⟨k, j⟩ := e
    simp only [jobsCache]
    by_cases hj : specOf j = some spec
    · apply jobsCache_mono
      have h1 := wcJob_decides env spec hb c j hj
      have h2 := ((needsLookups_T env lower jobs j (wcJob env c j).1 spec).1 h1).1
      exact ((callLookup_T env (needsLookups env lower jobs j (wcJob env c j).1).cache j spec).1 h2).1
    · apply ih
      simp only [refsJobs, List.filterMap_cons] at h ⊢
      cases hs : specOf j with
      | none => simpa [hs] using h
      | some s' =>
        simp only [hs, List.mem_cons] at h
        rcases h with h | h
        · exact absurd (by rw [hs, h]) hj
        · exact h

theorem getElem?_le_sum : ∀ (l : List Nat) (i x : Nat), l[i]? = some x → x ≤ l.sum := by
  intro l
  induction l with
  | nil => intro i x h; simp at h
  | cons a l ih =>
    intro i x h
    cases i with
    | zero => simp only [List.getElem?_cons_zero, Option.some.injEq] at h; simp only [List.sum_cons]; omega
    | succ i => simp only [List.getElem?_cons_succ] at h; have := ih i x h; simp only [List.sum_cons]; omega

theorem others_zero : ∀ (l : List Nat) (i j x : Nat), l.sum ≤ 1 → l[i]? = some 1 → j ≠ i → l[j]? = some x → x = 0 := by
  intro l
  induction l with
  | nil => intro i j x _ h; simp at h
  | cons a l ih =>
    intro i j x hs hi hne hj
    simp only [List.sum_cons] at hs
    cases i with
    | zero =>
      simp only [List.getElem?_cons_zero, Option.some.injEq] at hi
      cases j with
      | zero => exact absurd rfl hne
      | succ j =>
        simp only [List.getElem?_cons_succ] at hj
        have := getElem?_le_sum l j x hj
        omega
    | succ i =>
      simp only [List.getElem?_cons_succ] at hi
      have h1 := getElem?_le_sum l i 1 hi
      cases j with
      | zero => simp only [List.getElem?_cons_zero, Option.some.injEq] at hj; omega
      | succ j =>
        simp only [List.getElem?_cons_succ] at hj
        exact ih i j x (by omega) hi (by omega) hj

/-- the first file of the run that references a broken callee gets its defect, exactly once (from any cache without
an entry for it) -/
theorem first_asker_at (p : Proj) (lower : String → String) (spec : String) (hb : BrokenP p spec) (f : File)
    (post : List File) (hself : f.self ≠ some spec) (hin : spec ∈ refs f.wf) :
    ∀ (pre : List File) (c : Cache), cacheGet c spec = none → (∀ g ∈ pre, spec ∉ refs g.wf ∧ g.self ≠ some spec) →
      ((callsRun p lower (pre ++ f :: post) c)[pre.length]?).map (total spec) = some 1 := by
  intro pre
  induction pre with
  | nil =>
    intro c hc _
    simp only [List.nil_append, callsRun, List.length_nil, List.getElem?_cons_zero, Option.map_some, Option.some.injEq]
    have hE := callsFile_E p lower c f spec hb hself
    have hd : decided (callsFile p lower c f).1 spec = true :=
      jobsCache_decides (envOf p f) spec (brokenP_env p f spec hb) lower _ _ _ hin
    simp only [E, dec, decided, hc, hd] at hE
    simp only [decided] at hd
    simp only [hd] at hE
    simpa using hE
  | cons g rest ih =>
    intro c hc hpre
    simp only [List.cons_append, callsRun, List.length_cons, List.getElem?_cons_succ]
    apply ih
    · rw [callsFile_untouched p lower c g spec (hpre g (by simp)).1 (hpre g (by simp)).2]; exact hc
    · exact fun g' hg' => hpre g' (by simp [hg'])

/-- **C10, a callee's own defect exactly once per run**: a broken callee `spec` (local call format, file missing or
undecodable) that is not itself a file of the run before its first caller. In the run `pre ++ f :: post` where `f` is the
first file that references it: the defect is reported exactly once in the whole run, in the diagnostics of `f`, and no
other file of the run — however many of them call or need `spec` — reports it. -/
theorem callee_defect_exactly_once (p : Proj) (lower : String → String) (spec : String) (hb : BrokenP p spec)
    (pre : List File) (f : File) (post : List File) (hself : f.self ≠ some spec) (hin : spec ∈ refs f.wf)
    (hpre : ∀ g ∈ pre, spec ∉ refs g.wf ∧ g.self ≠ some spec) :
    runTotal spec (callsRun p lower (pre ++ f :: post) []) = 1 ∧
    ((callsRun p lower (pre ++ f :: post) [])[pre.length]?).map (total spec) = some 1 ∧
    ∀ i r, i ≠ pre.length → (callsRun p lower (pre ++ f :: post) [])[i]? = some r → total spec r = 0 := by
  have h1 := first_asker_at p lower spec hb f post hself hin pre [] rfl hpre
  have hle := callee_defect_at_most_once_per_run p lower (pre ++ f :: post) [] spec
  have h1' : ((callsRun p lower (pre ++ f :: post) []).map (total spec))[pre.length]? = some 1 := by
    rw [List.getElem?_map]; exact h1
  refine ⟨?_, h1, fun i r hi hr => ?_⟩
  · have := getElem?_le_sum _ _ _ h1'
    simp only [runTotal] at hle ⊢
    omega
  · apply others_zero _ pre.length i (total spec r) hle h1' hi
    rw [List.getElem?_map, hr]; rfl

/-! ## 10. with broken callees around: every other diagnostic is as when linted alone -/

/-- an answer without the report of the callee's defect -/
def strip : Found → Found
  | .err _ => .nothing
  | f => f

/-- the diagnostics other than the callees' own defects -/
def nd (ds : List AL.Rules.Diag) : List AL.Rules.Diag := ds.filter fun d => !isDefectCode d.code
def ndx (ds : List AL.RuleExpr.Diag) : List AL.RuleExpr.Diag := ds.filter fun d => !isDefectCode d.code

theorem answer_err_code (env : ProjCall.Env) (c : Cache) (s code : String) (h : answer env c s = .err code) :
    isDefectCode code = true := ((find_spec env c s s).2 code h).1

/-- a look-up never changes what the cache answers, up to the one-time report of a defect -/
theorem strip_answer_remember (env : ProjCall.Env) (c : Cache) (s spec : String) :
    strip (answer env (remember env c s) spec) = strip (answer env c spec) := by
  simp only [answer, cacheGet_remember]
  by_cases hg2 : skipped env spec = true
  · simp [hg2]
  · simp only [hg2, Bool.false_eq_true, if_false]
    by_cases hg : skipped env s = true
    · simp [hg]
    · simp only [hg, Bool.false_eq_true, if_false]
      by_cases e : spec = s
      · subst e
        simp only [if_true]
        cases h1 : cacheGet c spec with
        | some v => rfl
        | none =>
          simp only [diskAnswer, diskEntry]
          cases env.disk spec <;> rfl
      · simp [e]

def SameS (R : String → Prop) (env : ProjCall.Env) (c c' : Cache) : Prop :=
  ∀ spec, R spec → strip (answer env c spec) = strip (answer env c' spec)

theorem find_sameS (R : String → Prop) (env : ProjCall.Env) (c c' : Cache) (s : String) (h : SameS R env c c') :
    SameS R env (find env c s).1 (find env c' s).1 := by
  intro spec hR
  simp only [ProjCall.find, strip_answer_remember]
  exact h spec hR

theorem putNone_sameS (R : String → Prop) (env : ProjCall.Env) (c c' : Cache) (u : String) (h : SameS R env c c') :
    SameS R env (cachePut c u none) (cachePut c' u none) := by
  intro spec hR
  have := h spec hR
  simp only [answer, cacheGet_put] at this ⊢
  by_cases hg : skipped env spec = true
  · simp [hg]
  · simp only [hg, Bool.false_eq_true, if_false] at this ⊢
    by_cases e : spec = u
    · simp [e]
    · simpa [e] using this

theorem wcFound_nd (f f' : Found) (call : WorkflowCall) (u : Str) (h : strip f = strip f')
    (hc : ∀ code, f = .err code → isDefectCode code = true) (hc' : ∀ code, f' = .err code → isDefectCode code = true) :
    nd (wcFound f call u) = nd (wcFound f' call u) := by
  cases f with
  | err code =>
    have := hc code rfl
    cases f' with
    | err code' => have := hc' code' rfl; simp [wcFound, nd, *]
    | nothing => simp [wcFound, nd, *]
    | found m => simp [strip] at h
  | nothing =>
    cases f' with
    | err code' => have := hc' code' rfl; simp [wcFound, nd, *]
    | nothing => rfl
    | found m => simp [strip] at h
  | found m =>
    cases f' with
    | err code' => simp [strip] at h
    | nothing => simp [strip] at h
    | found m' => simp only [strip, Found.found.injEq] at h; rw [h]

theorem exFound_ndx (f f' : Found) (u : Str) (h : strip f = strip f')
    (hc : ∀ code, f = .err code → isDefectCode code = true) (hc' : ∀ code, f' = .err code → isDefectCode code = true) :
    ndx (exFound f u) = ndx (exFound f' u) := by
  cases f with
  | err code =>
    have := hc code rfl
    cases f' with
    | err code' => have := hc' code' rfl; simp [exFound, ndx, *]
    | nothing => simp [exFound, ndx, *]
    | found m => simp [exFound, ndx, *]
  | nothing =>
    cases f' with
    | err code' => have := hc' code' rfl; simp [exFound, ndx, *]
    | nothing => rfl
    | found m => rfl
  | found m =>
    cases f' with
    | err code' => have := hc' code' rfl; simp [exFound, ndx, *]
    | nothing => rfl
    | found m' => rfl

theorem outsFound_strip (f f' : Found) (i : String) (h : strip f = strip f') : outsFound f i = outsFound f' i := by
  cases f <;> cases f' <;> simp_all [strip, outsFound]

theorem inputsFound_strip (f f' : Found) (h : strip f = strip f') : inputsFound f = inputsFound f' := by
  cases f <;> cases f' <;> simp_all [strip, inputsFound]

theorem ndx_append (a b : List AL.RuleExpr.Diag) : ndx (a ++ b) = ndx a ++ ndx b := by simp [ndx, List.filter_append]

theorem wcJob_sameS (R : String → Prop) (env : ProjCall.Env) (c c' : Cache) (j : Job) (h : SameS R env c c')
    (hj : ∀ call u, j.workflowCall = some call → call.uses = some u → R u.value) :
    nd (wcJob env c j).2 = nd (wcJob env c' j).2 ∧ SameS R env (wcJob env c j).1 (wcJob env c' j).1 := by
  simp only [wcJob]
  split
  · exact ⟨rfl, h⟩
  · split
    · exact ⟨rfl, h⟩
    · rename_i _ call hcall _ u hu
      have hRu : R u.value := hj call u hcall hu
      simp only [wcUses]
      by_cases h1 : (u.value = "" || AL.Rules.containsExpr u) = true
      · simp only [h1, if_true]; exact ⟨trivial, h⟩
      · simp only [h1, Bool.false_eq_true, if_false]
        by_cases h2 : AL.Rules.isLocalCallFormat u.value = true
        · simp only [h2, if_true]
          exact ⟨wcFound_nd _ _ call u (h u.value hRu) (answer_err_code env c u.value) (answer_err_code env c' u.value),
            find_sameS R env c c' u.value h⟩
        · simp only [h2, Bool.false_eq_true, if_false]
          by_cases h3 : AL.Rules.isRepoCallFormat u.value = true
          · simp only [h3, if_true]; exact ⟨trivial, h⟩
          · simp only [h3, Bool.false_eq_true, if_false]
            by_cases h4 : u.value.startsWith "./" = true
            · simp only [h4, if_true]
              exact ⟨trivial, putNone_sameS R env c c' u.value h⟩
            · simp only [h4, Bool.false_eq_true, if_false]; exact ⟨trivial, h⟩

theorem callLookup_sameS (R : String → Prop) (env : ProjCall.Env) (c c' : Cache) (j : Job) (h : SameS R env c c')
    (hj : ∀ call u, j.workflowCall = some call → call.uses = some u → R u.value) :
    ndx (callLookup env j c).errs = ndx (callLookup env j c').errs ∧
    (callLookup env j c).inputs = (callLookup env j c').inputs ∧
    SameS R env (callLookup env j c).cache (callLookup env j c').cache := by
  simp only [callLookup]
  split
  · exact ⟨rfl, rfl, h⟩
  · split
    · exact ⟨rfl, rfl, h⟩
    · rename_i _ call hcall _ u hu
      have e1 := h u.value (hj call u hcall hu)
      exact ⟨exFound_ndx _ _ u e1 (answer_err_code env c u.value) (answer_err_code env c' u.value),
        inputsFound_strip _ _ e1, find_sameS R env c c' u.value h⟩

theorem needsStep_sameS (R : String → Prop) (env : ProjCall.Env) (lower : String → String) (jobs : List (String × Job))
    (hcov : Covers R jobs) (job : Job)
    (acc acc' : NeedsOut × List String) (id : Str)
    (h : SameS R env acc.1.cache acc'.1.cache) (he : ndx acc.1.errs = ndx acc'.1.errs) (ho : acc.1.outs = acc'.1.outs)
    (hd : acc.2 = acc'.2) :
    SameS R env (needsStep env lower jobs job acc id).1.cache (needsStep env lower jobs job acc' id).1.cache ∧
    ndx (needsStep env lower jobs job acc id).1.errs = ndx (needsStep env lower jobs job acc' id).1.errs ∧
    (needsStep env lower jobs job acc id).1.outs = (needsStep env lower jobs job acc' id).1.outs ∧
    (needsStep env lower jobs job acc id).2 = (needsStep env lower jobs job acc' id).2 := by
  simp only [needsStep, hd]
  split
  · exact ⟨h, he, ho, hd⟩
  · split
    · exact ⟨h, he, ho, hd⟩
    · split
      · exact ⟨h, he, ho, hd⟩
      · rename_i j hj
        obtain ⟨k, hk⟩ := lookupJob_mem _ jobs j hj
        split
        · exact ⟨h, he, ho, rfl⟩
        · rename_i call hcall
          split
          · exact ⟨h, he, ho, rfl⟩
          · rename_i u hu
            have hRu : R u.value := hcov (k, j) hk call u hcall hu
            have e1 : strip (find env acc.1.cache u.value).2 = strip (find env acc'.1.cache u.value).2 := h u.value hRu
            have x1 := exFound_ndx (find env acc.1.cache u.value).2 (find env acc'.1.cache u.value).2 u e1
              (answer_err_code env _ u.value) (answer_err_code env _ u.value)
            have x2 := outsFound_strip (find env acc.1.cache u.value).2 (find env acc'.1.cache u.value).2 (lower id.value) e1
            refine ⟨find_sameS R env _ _ u.value h, ?_, ?_, rfl⟩
            · simp only [ndx_append, he, x1]
            · simp only [ho, x2]

theorem needsFold_sameS (R : String → Prop) (env : ProjCall.Env) (lower : String → String) (jobs : List (String × Job))
    (hcov : Covers R jobs) (job : Job) :
    ∀ (ids : List Str) (acc acc' : NeedsOut × List String),
      SameS R env acc.1.cache acc'.1.cache → ndx acc.1.errs = ndx acc'.1.errs → acc.1.outs = acc'.1.outs → acc.2 = acc'.2 →
      SameS R env (ids.foldl (needsStep env lower jobs job) acc).1.cache (ids.foldl (needsStep env lower jobs job) acc').1.cache ∧
      ndx (ids.foldl (needsStep env lower jobs job) acc).1.errs = ndx (ids.foldl (needsStep env lower jobs job) acc').1.errs ∧
      (ids.foldl (needsStep env lower jobs job) acc).1.outs = (ids.foldl (needsStep env lower jobs job) acc').1.outs := by
  intro ids
  induction ids with
  | nil => intro acc acc' h he ho _; exact ⟨h, he, ho⟩
  | cons id rest ih =>
    intro acc acc' h he ho hd
    obtain ⟨a, b, c, d⟩ := needsStep_sameS R env lower jobs hcov job acc acc' id h he ho hd
    simp only [List.foldl_cons]
    exact ih _ _ a b c d

/-- what a job gets, the callees' own defects left out -/
def view (e : String × JobView) : String × List AL.Rules.Diag × List AL.RuleExpr.Diag × List (String × AL.Ty) ×
    Option (List (String × (String × AL.Ty))) :=
  (e.1, nd e.2.wc, ndx e.2.exprErrs, e.2.outs, e.2.inputs)

theorem simulateJobs_sameS (R : String → Prop) (env : ProjCall.Env) (lower : String → String) (jobs : List (String × Job))
    (hcov : Covers R jobs) :
    ∀ (l : List (String × Job)) (c c' : Cache), Covers R l → SameS R env c c' →
      (simulateJobs env lower jobs l c).map view = (simulateJobs env lower jobs l c').map view := by
  intro l
  induction l with
  | nil => intro c c' _ _; rfl
  | cons e rest ih =>
    intro c c' hl h
    obtain ⟨k, j⟩ := e
    have hj : ∀ call u, j.workflowCall = some call → call.uses = some u → R u.value :=
      fun call u => hl (k, j) (by simp) call u
    have hrest : Covers R rest := fun e he => hl e (by simp [he])
    simp only [simulateJobs, List.map_cons, view, ndx_append]
    obtain ⟨w1, w2⟩ := wcJob_sameS R env c c' j h hj
    obtain ⟨n1, n2, n3⟩ := needsFold_sameS R env lower jobs hcov j (j.needs.getD [])
      (({ cache := (wcJob env c j).1 } : NeedsOut), []) (({ cache := (wcJob env c' j).1 } : NeedsOut), []) w2 rfl rfl rfl
    have n1' : SameS R env (needsLookups env lower jobs j (wcJob env c j).1).cache (needsLookups env lower jobs j (wcJob env c' j).1).cache := n1
    have n2' : ndx (needsLookups env lower jobs j (wcJob env c j).1).errs = ndx (needsLookups env lower jobs j (wcJob env c' j).1).errs := n2
    have n3' : (needsLookups env lower jobs j (wcJob env c j).1).outs = (needsLookups env lower jobs j (wcJob env c' j).1).outs := n3
    obtain ⟨k1, k2, k3⟩ := callLookup_sameS R env _ _ j n1' hj
    have ih' := ih _ _ hrest k3
    rw [ih', w1, n2', n3', k1, k2]

/-- what a cache answers depends on the project, not on the linted file -/
theorem answer_envOf (p : Proj) (g f : File) (c : Cache) (s : String) :
    answer (envOf p g) c s = answer (envOf p f) c s := rfl

/-- for the local-format specs in `F` the cache answers as an empty one would, up to the one-time report of a defect -/
def InvS (p : Proj) (f : File) (F : List String) (c : Cache) : Prop :=
  ∀ s ∈ F, AL.Rules.isLocalCallFormat s = true →
    strip (answer (envOf p f) c s) = strip (answer (envOf p f) [] s)

theorem invS_reach (p : Proj) (f g : File) (F : List String) (c c' : Cache)
    (hr : Reach (fun _ => True) (envOf p g) c c') (h : InvS p f F c) : InvS p f F c' := by
  induction hr with
  | refl => exact h
  | find c' s _ _ ih =>
    intro spec hF hl
    rw [← ih spec hF hl, ← answer_envOf p g f, ← answer_envOf p g f]
    exact strip_answer_remember (envOf p g) c' s spec
  | bad c' u _ hu _ ih =>
    intro spec hF hl
    rw [← ih spec hF hl]
    have e : ¬ spec = u := fun e => by rw [e, hu] at hl; cases hl
    simp only [answer, cacheGet_put, e, if_false]

theorem invS_register (p : Proj) (f g : File) (F : List String) (hg : RegAgrees p F g) (c : Cache) (h : InvS p f F c) :
    InvS p f F (register (envOf p g) c g.wf) := by
  simp only [register]
  split
  · rename_i spec m _ hself hm
    split
    · exact h
    · rename_i hnone
      intro s hF hl
      rw [← h s hF hl]
      by_cases e : s = spec
      · subst e
        have hd := hg s hF m (by simpa [envOf] using hself) hm
        simp only [answer, cacheGet_put, if_true, hnone]
        by_cases hsk : skipped (envOf p f) s = true
        · simp [hsk]
        · simp only [hsk, Bool.false_eq_true, if_false, diskAnswer]
          have : (envOf p f).disk s = .ok m := hd
          rw [this]
      · simp only [answer, cacheGet_put, e, if_false]
  · exact h

theorem invS_callsFile (p : Proj) (lower : String → String) (f g : File) (F : List String) (hg : RegAgrees p F g)
    (c : Cache) (h : InvS p f F c) : InvS p f F (callsFile p lower c g).1 :=
  invS_reach p f g F _ _ (jobsCache_reach (fun _ => True) (envOf p g) lower _ (fun _ _ _ _ _ _ => trivial) _ _
    (fun _ _ _ _ _ _ => trivial)) (invS_register p f g F hg c h)

/-- every spec `f` references is one `FindMetadata` skips or has the local call format (the file behind it may be
missing or broken) -/
def RefsLocal (p : Proj) (f : File) : Prop :=
  ∀ s ∈ refs f.wf, skipped (envOf p f) s = true ∨ AL.Rules.isLocalCallFormat s = true

theorem callsFile_view_eq_alone (p : Proj) (lower : String → String) (f : File) (hrefs : RefsLocal p f)
    (hself : RegAgrees p (refs f.wf) f) (c : Cache) (h : InvS p f (refs f.wf) c) :
    (callsFile p lower c f).2.map view = (callsAlone p lower f).map view := by
  simp only [callsFile, callsAlone, simulate, initialCache_eq_register]
  apply simulateJobs_sameS (fun s => s ∈ refs f.wf) (envOf p f) lower _ (covers_refs _) _ _ _ (covers_refs _)
  intro s hs
  have h1 := invS_register p f f (refs f.wf) hself c h
  have h2 := invS_register p f f (refs f.wf) hself [] (fun _ _ _ => rfl)
  rcases hrefs s hs with hsk | hl
  · simp [answer, hsk]
  · rw [h1 s hs hl, h2 s hs hl]

theorem callsRun_view_at (p : Proj) (lower : String → String) (f : File) (post : List File) (hrefs : RefsLocal p f)
    (hself : RegAgrees p (refs f.wf) f) :
    ∀ (pre : List File) (c : Cache), (∀ g ∈ pre, RegAgrees p (refs f.wf) g) → InvS p f (refs f.wf) c →
      ((callsRun p lower (pre ++ f :: post) c)[pre.length]?).map (·.map view) = some ((callsAlone p lower f).map view) := by
  intro pre
  induction pre with
  | nil =>
    intro c _ h
    simp only [List.nil_append, callsRun, List.length_nil, List.getElem?_cons_zero, Option.map_some]
    rw [callsFile_view_eq_alone p lower f hrefs hself c h]
  | cons g rest ih =>
    intro c hpre h
    simp only [List.cons_append, callsRun, List.length_cons, List.getElem?_cons_succ]
    exact ih _ (fun g' hg' => hpre g' (by simp [hg'])) (invS_callsFile p lower f g _ (hpre g (by simp)) c h)

/-- **C10, with broken callees in the run: every other diagnostic is as when linted alone.** `f` at any position of a
run; the specs it references have the local call format (or are skipped by `FindMetadata`) but the files behind them may be
missing or broken, and other files of the run may have asked for them before. If the files of the run up to `f` that are
callees of `f` register the interface that is on disk (for a broken callee: register nothing), then job by job the
diagnostics of rule workflow-call and of the expression rule's look-ups other than the callees' own defects
(`callee-unreadable`, `callee-broken`), and the `needs` / `inputs` view the expression rule gets, are those of `f`
linted alone. (Where the defects themselves go: `callee_defect_exactly_once`.) -/
theorem others_in_run_eq_alone (p : Proj) (lower : String → String) (pre : List File) (f : File) (post : List File)
    (hrefs : RefsLocal p f) (hreg : ∀ g ∈ pre ++ [f], RegAgrees p (refs f.wf) g) :
    ((callsRun p lower (pre ++ f :: post) [])[pre.length]?).map (·.map view) = some ((callsAlone p lower f).map view) :=
  callsRun_view_at p lower f post hrefs (hreg f (by simp)) pre [] (fun g hg => hreg g (by simp [hg])) (fun _ _ _ => rfl)

/-! ### a concrete run with a broken callee: two callers of the missing `./x.yml`, and a third file -/

/-- `./m1.yml`: `on: push` / `jobs: {k: {uses: ./x.yml}, l: {needs: k, uses: ./x.yml}}` -/
def miss1Doc : AL.Yaml.Node := docOf (mp 1 1
  [st "on" 1 1, st "push" 1 5, st "jobs" 2 1, mp 3 3
    [st "k" 3 3, mp 4 5 [st "uses" 4 5, st "./x.yml" 4 11],
     st "l" 5 3, mp 6 5 [st "needs" 6 5, st "k" 6 12, st "uses" 7 5, st "./x.yml" 7 11]]])

/-- `./m2.yml`: `on: push` / `jobs: {j: {uses: ./x.yml}}` -/
def miss2Doc : AL.Yaml.Node := docOf (mp 1 1
  [st "on" 1 1, st "push" 1 5, st "jobs" 2 1, mp 3 3 [st "j" 3 3, mp 4 5 [st "uses" 4 5, st "./x.yml" 4 11]]])

def fMiss1 : File := { self := some "./m1.yml", wf := (AL.PW.parse exCfg miss1Doc).1 }
def fMiss2 : File := { self := some "./m2.yml", wf := (AL.PW.parse exCfg miss2Doc).1 }

def dx1 : AL.Rules.Diag := ⟨⟨4, 11⟩, "workflow-call", "callee-unreadable", ["./x.yml"]⟩

/-- in either order the first caller gets the defect, once; alone each gets it -/
example :
    (callsRun exProj AL.PW.asciiLower [fCaller1, fMiss1, fMiss2] []).map shown = [([d1], []), ([dx1], []), ([], [])] ∧
    (callsRun exProj AL.PW.asciiLower [fMiss2, fCaller1, fMiss1] []).map shown = [([dx1], []), ([d1], []), ([], [])] ∧
    shown (callsAlone exProj AL.PW.asciiLower fMiss1) = ([dx1], []) ∧
    shown (callsAlone exProj AL.PW.asciiLower fMiss2) = ([dx1], []) ∧
    runTotal "./x.yml" (callsRun exProj AL.PW.asciiLower [fCaller1, fMiss1, fMiss2] []) = 1 := by decide +kernel

theorem exBroken : BrokenP exProj "./x.yml" := by
  refine ⟨by decide +kernel, by decide +kernel, fun m h => ?_⟩
  have : exProj.disk "./x.yml" = .missing := by simp [exProj]
  have h' : exProj.disk "./x.yml" = .ok m := h
  rw [this] at h'
  cases h'

example : runTotal "./x.yml" (callsRun exProj AL.PW.asciiLower ([fCaller1] ++ fMiss1 :: [fMiss2]) []) ≤ 1 :=
  callee_defect_at_most_once_per_run exProj AL.PW.asciiLower _ [] "./x.yml"

example :
    runTotal "./x.yml" (callsRun exProj AL.PW.asciiLower ([fCaller1] ++ fMiss1 :: [fMiss2]) []) = 1 ∧
    ((callsRun exProj AL.PW.asciiLower ([fCaller1] ++ fMiss1 :: [fMiss2]) [])[[fCaller1].length]?).map (total "./x.yml") = some 1 ∧
    ∀ i r, i ≠ [fCaller1].length → (callsRun exProj AL.PW.asciiLower ([fCaller1] ++ fMiss1 :: [fMiss2]) [])[i]? = some r →
      total "./x.yml" r = 0 :=
  callee_defect_exactly_once exProj AL.PW.asciiLower "./x.yml" exBroken [fCaller1] fMiss1 [fMiss2]
    (by decide +kernel) (by decide +kernel)
    (fun g hg => by
      simp only [List.mem_singleton] at hg
      subst hg
      exact ⟨by decide +kernel, by decide +kernel⟩)

example : ((callsRun exProj AL.PW.asciiLower ([fCaller1, fMiss1] ++ fMiss2 :: []) [])[[fCaller1, fMiss1].length]?).map (·.map view) =
    some ((callsAlone exProj AL.PW.asciiLower fMiss2).map view) :=
  others_in_run_eq_alone exProj AL.PW.asciiLower [fCaller1, fMiss1] fMiss2 []
    (fun s hs => by
      have : refs fMiss2.wf = ["./x.yml"] := by decide +kernel
      rw [this, List.mem_singleton] at hs
      subst hs
      exact Or.inr (by decide +kernel))
    (fun g hg => regAgreesB_sound _ _ _ (by
      simp only [List.cons_append, List.nil_append, List.mem_cons, List.not_mem_nil, or_false] at hg
      rcases hg with rfl | rfl | rfl <;> decide +kernel))

/-! ### a concrete run with a local action used by two files, and the remaining instances -/

def sq (line col : Nat) (cs : List AL.Yaml.Node) : AL.Yaml.Node := .mk .sequence "!!seq" "" false line col cs

def actMeta : AL.ProjAction.ActionMeta :=
  { name := "act", description := "d", runs := { using_ := "node20", main := "index.js" },
    inputs := [("who", "who", true)], dir := "act", path := "act/action.yml" }

def exProjA : Proj :=
  { disk := exProj.disk, actions := { disk := fun s => if s = "./act" then .ok actMeta else .absent } }

/-- `./s1.yml`: `on: push` / `jobs: {a: {runs-on: u, steps: [{uses: ./act}]}}` — the required input is missing -/
def steps1Doc : AL.Yaml.Node := docOf (mp 1 1
  [st "on" 1 1, st "push" 1 5, st "jobs" 2 1, mp 3 3 [st "a" 3 3, mp 4 5 [st "runs-on" 4 5, st "u" 4 14,
     st "steps" 5 5, sq 6 7 [mp 6 9 [st "uses" 6 9, st "./act" 6 15]]]]])

/-- `./s2.yml`: the same with `with: {who: x, whom: y}` — an undefined input -/
def steps2Doc : AL.Yaml.Node := docOf (mp 1 1
  [st "on" 1 1, st "push" 1 5, st "jobs" 2 1, mp 3 3 [st "a" 3 3, mp 4 5 [st "runs-on" 4 5, st "u" 4 14,
     st "steps" 5 5, sq 6 7 [mp 6 9 [st "uses" 6 9, st "./act" 6 15, st "with" 7 9,
       mp 8 11 [st "who" 8 11, st "x" 8 16, st "whom" 9 11, st "y" 9 17]]]]]])

def fSteps1 : File := { self := some "./s1.yml", wf := (AL.PW.parse exCfg steps1Doc).1 }
def fSteps2 : File := { self := some "./s2.yml", wf := (AL.PW.parse exCfg steps2Doc).1 }

def codes (r : List AL.ProjAction.Diag × List AL.RuleExpr.Diag) : List String × List String :=
  (r.1.map (·.code), r.2.map (·.code))

/-- both orders: the second file finds the metadata in the cache and gets what it gets alone -/
example :
    (actionsRun exProjA [fSteps1, fSteps2] []).map codes = [(["local-input-missing"], []), (["local-input-undefined"], [])] ∧
    (actionsRun exProjA [fSteps2, fSteps1] []).map codes = [(["local-input-undefined"], []), (["local-input-missing"], [])] ∧
    actionsRun exProjA [fSteps1, fSteps2] [] = [actionsAlone exProjA fSteps1, actionsAlone exProjA fSteps2] := by
  decide +kernel

theorem actMeta_ok : ActionOk exProjA.actions "./act" := by
  right
  refine ⟨actMeta, by simp [exProjA], fun pos => ?_⟩
  simp [AL.ProjAction.metadataDiags, AL.ProjAction.runsDiags, AL.ProjAction.jsRuns, AL.ProjAction.runsFile,
    AL.ProjAction.invalidProps, actMeta, exProjA]

theorem exStepsOk : ∀ f ∈ [fSteps1, fSteps2], ActRefsOk exProjA f := by
  intro f hf j hj s hs e u he hu hstart
  by_cases hv : u.value = "./act"
  · rw [hv]; exact actMeta_ok
  · left
    simp [exProjA, hv]

example : (actionsRun exProjA ([fSteps1] ++ fSteps2 :: []) [])[1]? = some (actionsAlone exProjA fSteps2) :=
  actions_in_run_eq_alone exProjA [fSteps1] fSteps2 [] (exStepsOk _ (by simp))

example : ∃ calls acts, (callsRun exProj AL.PW.asciiLower ([fCallee, fCaller1] ++ fCaller2 :: []) [])[2]? = some calls ∧
      (actionsRun exProj ([fCallee, fCaller1] ++ fCaller2 :: []) [])[2]? = some acts ∧
      calls = callsAlone exProj AL.PW.asciiLower fCaller2 ∧ acts = actionsAlone exProj fCaller2 ∧
      diagsOf calls acts = diagsOf (callsAlone exProj AL.PW.asciiLower fCaller2) (actionsAlone exProj fCaller2) :=
  diags_in_run_eq_alone exProj AL.PW.asciiLower [fCallee, fCaller1] fCaller2 []
    (exAllOk.1 _ (by simp))
    (fun g hg => exAllOk.2 fCaller2 (by simp) g (by
      simp only [List.cons_append, List.nil_append, List.mem_cons, List.not_mem_nil, or_false] at hg
      rcases hg with rfl | rfl | rfl <;> simp))
    (exActOk _ (by simp))

example : callsRun exProj AL.PW.asciiLower [fCallee, fCaller1, fCaller2] [] =
      [fCallee, fCaller1, fCaller2].map (callsAlone exProj AL.PW.asciiLower) ∧
    actionsRun exProj [fCallee, fCaller1, fCaller2] [] = [fCallee, fCaller1, fCaller2].map (actionsAlone exProj) :=
  run_eq_map_alone exProj AL.PW.asciiLower _ exAllOk exActOk

end AL.C10F
