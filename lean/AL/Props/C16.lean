import AL.Model.Render
import AL.Lemmas.RenderMatch
import AL.Lemmas.RenderInv
import AL.Lemmas.RenderSnippet
/-
  C16 — every output format renders the diagnostics faithfully, one per line.
  Statements; proved theorems are added below by name.
-/
namespace AL.C16
open AL.Render

/-- `s` contains `pat` as a contiguous sub-list -/
def Contains (pat s : List Char) : Prop := ∃ a b, s = a ++ pat ++ b

/-- a file name that cannot be confused with the `:line:col: ` separator: no proper prefix of
`file` is followed (inside `file`) by `:digits:digits: ` -/
def FileOk (file : List Char) : Prop :=
  file ≠ [] ∧ (∀ c ∈ file, dot c = true) ∧
  ∀ pre rest, file = pre ++ rest → pre ≠ [] → rest ≠ [] → matchTail (rest ++ [':', '1', ':', '1', ':', ' ', 'x', ' ', '[', 'k', ']']) = none

/-- the weakest condition under which the header is parsed back faithfully -/
structure Faithful (d : Diag) : Prop where
  file : FileOk d.file
  msgNonEmpty : d.msg ≠ []
  msgOneLine : ∀ c ∈ d.msg, dot c = true
  /-- the lazy `(.+?)` stops at the first ` [` that is followed by a closing `]` at the end of the line: the
  message must not contain ` [` after its first character -/
  msgNoBracket : ∀ a b, d.msg = a ++ [' ', '['] ++ b → a = []
  kindNonEmpty : d.kind ≠ []
  kindOneLine : ∀ c ∈ d.kind, dot c = true

/-- (a) THE PROPERTY (matcher round trip): a faithful diagnostic's header line is parsed back by the
shipped pattern to the same file, line, column, message and kind. -/
def roundtrip_statement : Prop :=
  ∀ d : Diag, Faithful d → matcher (header d) = some d

/-- (b) the message condition is necessary: a message with ` [` inside is split at the wrong place (so
messages must never contain ` [` … `]`-like text, and never a line break). -/
def roundtrip_conv_statement : Prop :=
  ∀ (f k a b : List Char) (l c : Nat), FileOk f → a ≠ [] → (∀ x ∈ a, dot x = true) → (∀ x ∈ b, dot x = true) →
    (∀ a1 a2, a = a1 ++ [' ', '['] ++ a2 → a1 = []) → k ≠ [] → (∀ x ∈ k, dot x = true) →
    matcher (header ⟨f, l, c, a ++ [' ', '['] ++ b, k⟩) = some ⟨f, l, c, a, b ++ [']', ' ', '['] ++ k⟩

/-- (c) a message with a line break is never parsed back (the matcher is applied line by line; here:
the whole header is rejected because `.` does not match the break). -/
def linebreak_breaks_statement : Prop :=
  ∀ d : Diag, FileOk d.file → (∃ c ∈ d.msg, c = '\n') → matcher (header d) ≠ some d

/-- (d) snippet totality and correctness: for ALL (line, col, source) the renderer's guard either shows
nothing or shows the referenced source line; it never indexes outside the line. -/
def snippet_statement : Prop :=
  ∀ (src : List Nat) (line col : Nat),
    match snippetLine src line col with
    | none => True
    | some l => line ≥ 1 ∧ (splitLines src)[line - 1]? = some l ∧ col - 1 ≤ l.length ∧ l.length < maxToken

/-- (e) the lines of `splitLines` contain no line feed, and joining them gives back the source up to
line terminators (nothing is invented). -/
def split_lines_statement : Prop :=
  ∀ (src : List Nat), (∀ l ∈ splitLines src, 10 ∉ l) ∧ ((splitLines src).map (·.length)).sum ≤ src.length

/-! ## Proofs

Helper lemmas live in `AL/Lemmas/Render{Basic,Match,Inv,Snippet}.lean`. -/

/-- the part of the header line after the file name: `:line:col: msg [kind]` -/
def tailOf (d : Diag) : List Char :=
  ':' :: (natChars d.line ++ ':' :: (natChars d.col ++ ':' :: ' ' :: (d.msg ++ ' ' :: '[' :: (d.kind ++ [']']))))

theorem header_eq (d : Diag) : header d = d.file ++ tailOf d := by simp [header, tailOf]

theorem tailOf_goodTail (d : Diag) (h1 : d.msg ≠ []) (h2 : AllDot d.msg) (h3 : d.kind ≠ []) (h4 : AllDot d.kind) :
    GoodTail (tailOf d) :=
  ⟨natChars d.line, natChars d.col, d.msg, d.kind, natChars_ne_nil _, natChars_ne_nil _,
    natChars_isDigit _, natChars_isDigit _, h1, h2, h3, h4, rfl⟩

theorem dummy_goodTail : GoodTail [':', '1', ':', '1', ':', ' ', 'x', ' ', '[', 'k', ']'] :=
  ⟨['1'], ['1'], ['x'], ['k'], by decide, by decide, by decide, by decide, by decide, by decide,
    by decide, by decide, rfl⟩

/-- `FileOk` does not depend on the dummy tail used to state it: it says that no proper non-empty suffix
of the file starts with `:digits:digits: ` (`sepPrefix`). -/
theorem fileOk_iff (f : List Char) :
    FileOk f ↔ f ≠ [] ∧ AllDot f ∧
      ∀ pre rest, f = pre ++ rest → pre ≠ [] → rest ≠ [] → sepPrefix rest = false := by
  unfold FileOk
  constructor
  · rintro ⟨h1, h2, h3⟩
    refine ⟨h1, h2, fun pre rest hsplit hp hr => ?_⟩
    have hrd : AllDot rest := fun c hc => h2 c (by rw [hsplit]; simp [hc])
    have := matchTail_append_goodTail rest _ dummy_goodTail hr hrd
    rw [h3 pre rest hsplit hp hr] at this
    simpa using this.symm
  · rintro ⟨h1, h2, h3⟩
    refine ⟨h1, h2, fun pre rest hsplit hp hr => ?_⟩
    have hrd : AllDot rest := fun c hc => h2 c (by rw [hsplit]; simp [hc])
    have := matchTail_append_goodTail rest _ dummy_goodTail hr hrd
    rw [h3 pre rest hsplit hp hr] at this
    simpa using this

/-- with a `FileOk` file no earlier split of the line lets the pattern's tail match, whatever the real tail is -/
theorem fileOk_tail_none {f T : List Char} (hf : FileOk f) (hT : GoodTail T) :
    ∀ pre rest, f = pre ++ rest → pre ≠ [] → rest ≠ [] → matchTail (rest ++ T) = none := by
  obtain ⟨_, h2, h3⟩ := (fileOk_iff f).mp hf
  intro pre rest hsplit hp hr
  have hrd : AllDot rest := fun c hc => h2 c (by rw [hsplit]; simp [hc])
  have := matchTail_append_goodTail rest T hT hr hrd
  rw [h3 pre rest hsplit hp hr] at this
  simpa using this

theorem matchTail_tailOf (d : Diag) (h1 : d.msg ≠ []) (h2 : AllDot d.msg)
    (h3 : ∀ a b, d.msg = a ++ [' ', '['] ++ b → a = []) (h4 : d.kind ≠ []) (h5 : AllDot d.kind) :
    matchTail (tailOf d) = some (d.line, d.col, d.msg, d.kind) := by
  unfold tailOf
  rw [matchTail_digits _ _ _ (natChars_ne_nil _) (natChars_ne_nil _) (natChars_isDigit _) (natChars_isDigit _),
    matchMsg_lazy d.msg [] d.kind h1 h2 (fun a b hab => h3 a b (by rw [hab]; simp)) h4 h5]
  simp [natChars_toNat]

/-- (a) matcher round trip, as stated. Uses `(String.ofList (natChars n)).toNat! = n` (`natChars_toNat`,
from `Nat.toNat?_repr` in `Std`); no restatement with digit strings was necessary. -/
theorem roundtrip : roundtrip_statement := by
  intro d hF
  have hT := matchTail_tailOf d hF.msgNonEmpty hF.msgOneLine hF.msgNoBracket hF.kindNonEmpty hF.kindOneLine
  have hG := tailOf_goodTail d hF.msgNonEmpty hF.msgOneLine hF.kindNonEmpty hF.kindOneLine
  have := matchFile_prefix d.file [] (tailOf d) _ hF.file.1 hF.file.2.1 (fileOk_tail_none hF.file hG) hT
  rw [header_eq]; unfold matcher; rw [this]
  cases d; rfl

/-- (a), converse: `Faithful` really is the weakest condition — the round trip succeeds ONLY for faithful
diagnostics. -/
theorem faithful_of_roundtrip (d : Diag) (h : matcher (header d) = some d) : Faithful d := by
  rw [header_eq] at h
  unfold matcher at h
  cases hmf : matchFile [] (d.file ++ tailOf d) with
  | none => simp [hmf] at h
  | some y =>
    obtain ⟨f, l, c, m, k⟩ := y
    simp only [hmf, Option.map_some, Option.some.injEq] at h
    obtain ⟨pre, rest, hsplit, hpre, hf, hpd, hrest, hmin⟩ := matchFile_some _ _ _ _ hmf
    simp only [List.nil_append] at hf
    have hfile : pre = d.file := by rw [← hf, ← h]
    subst hfile
    have hrest' : rest = tailOf d := (List.append_cancel_left hsplit).symm
    subst hrest'
    have hx : (l, c, m, k) = (d.line, d.col, d.msg, d.kind) := by rw [← h]
    rw [hx] at hrest
    -- the message search
    unfold tailOf at hrest
    rw [matchTail_digits _ _ _ (natChars_ne_nil _) (natChars_ne_nil _) (natChars_isDigit _) (natChars_isDigit _)] at hrest
    cases hmm : matchMsg [] (d.msg ++ ' ' :: '[' :: (d.kind ++ [']'])) with
    | none => simp [hmm] at hrest
    | some mk =>
      obtain ⟨m1, k1⟩ := mk
      simp only [hmm, Option.map_some, Option.some.injEq, Prod.mk.injEq] at hrest
      obtain ⟨_, _, rfl, rfl⟩ := hrest
      obtain ⟨m', hm', hne, hmd, _, hk, hkd, hminm⟩ := matchMsg_some _ _ _ _ hmm
      simp only [List.nil_append] at hm'
      subst hm'
      have hG := tailOf_goodTail d hne hmd hk hkd
      refine ⟨?_, hne, hmd, ?_, hk, hkd⟩
      · rw [fileOk_iff]
        refine ⟨hpre, hpd, fun p1 p2 hs hp1 hp2 => ?_⟩
        have hrd : AllDot p2 := fun c hc => hpd c (by rw [hs]; simp [hc])
        have := matchTail_append_goodTail p2 (tailOf d) hG hp2 hrd
        rw [hmin p1 p2 hs hp1 hp2] at this
        simpa using this.symm
      · intro a b hab
        cases a with
        | nil => rfl
        | cons x a' =>
          exfalso
          have hnone := hminm (x :: a') (' ' :: '[' :: b) (by rw [hab]; simp) (by simp) (by simp)
          have hbd : AllDot (b ++ ' ' :: '[' :: d.kind) := by
            intro c hc
            simp only [List.mem_append, List.mem_cons] at hc
            rcases hc with hc | rfl | rfl | hc
            · exact hmd c (by rw [hab]; simp [hc])
            · exact dot_space
            · exact dot_lbracket
            · exact hkd c hc
          have hsome := matchKind_bracket (b ++ ' ' :: '[' :: d.kind) (by simp) hbd
          simp only [List.cons_append, List.append_assoc] at hnone hsome
          rw [hsome] at hnone
          cases hnone

/-- (a) as an equivalence -/
theorem roundtrip_iff (d : Diag) : matcher (header d) = some d ↔ Faithful d :=
  ⟨faithful_of_roundtrip d, roundtrip d⟩

/-! ### a cleaner sufficient condition on the file, and decidable checkers -/

/-- non-empty, one line, and no `:` followed by a digit (true of all paths except exotic ones) -/
def FileSimple (file : List Char) : Prop :=
  file ≠ [] ∧ (∀ c ∈ file, dot c = true) ∧ ∀ a c b, file = a ++ ':' :: c :: b → isDigit c = false

theorem fileOk_of_fileSimple {f : List Char} (h : FileSimple f) : FileOk f := by
  rw [fileOk_iff]
  refine ⟨h.1, h.2.1, fun pre rest hsplit _ _ => ?_⟩
  cases hsp : sepPrefix rest with
  | false => rfl
  | true =>
    obtain ⟨c, r, hr, hc⟩ := sepPrefix_colonDigit hsp
    have := h.2.2 pre c r (by rw [hsplit, hr])
    rw [hc] at this; cases this

/-- (a') the round trip under the cleaner file condition `FileSimple` (a corollary of (a): `FileSimple → FileOk`). -/
def roundtrip_statement' : Prop :=
  ∀ d : Diag, FileSimple d.file → d.msg ≠ [] → (∀ c ∈ d.msg, dot c = true) →
    (∀ a b, d.msg = a ++ [' ', '['] ++ b → a = []) → d.kind ≠ [] → (∀ c ∈ d.kind, dot c = true) →
    matcher (header d) = some d

theorem roundtrip' : roundtrip_statement' :=
  fun d hf h1 h2 h3 h4 h5 => roundtrip d ⟨fileOk_of_fileSimple hf, h1, h2, h3, h4, h5⟩

/-- `noInnerBracket_spec` in the shape used by `Faithful.msgNoBracket` -/
theorem noInnerBracket_spec' {m : List Char} (h : noInnerBracket m = true) :
    ∀ a b, m = a ++ [' ', '['] ++ b → a = [] :=
  fun a b hab => noInnerBracket_spec h a b (by rw [hab]; simp)

/-- executable check implying `Faithful` (used for the examples) -/
def faithfulCheck (d : Diag) : Bool :=
  !d.file.isEmpty && d.file.all dot && noColonDigit d.file &&
  !d.msg.isEmpty && d.msg.all dot && noInnerBracket d.msg &&
  !d.kind.isEmpty && d.kind.all dot

theorem faithful_of_check {d : Diag} (h : faithfulCheck d = true) : Faithful d := by
  simp only [faithfulCheck, Bool.and_eq_true, Bool.not_eq_true', List.all_eq_true] at h
  obtain ⟨⟨⟨⟨⟨⟨⟨h1, h2⟩, h3⟩, h4⟩, h5⟩, h6⟩, h7⟩, h8⟩ := h
  refine ⟨fileOk_of_fileSimple ⟨?_, h2, noColonDigit_spec h3⟩, ?_, h5, ?_, ?_, h8⟩
  · intro hn; simp [hn] at h1
  · intro hn; simp [hn] at h4
  · exact noInnerBracket_spec' h6
  · intro hn; simp [hn] at h7

/-- the running example: `.github/workflows/a.yml:12:34: property "x" is not defined in object type {a: string} [expression]` -/
def exDiag : Diag :=
  ⟨".github/workflows/a.yml".toList, 12, 34,
    "property \"x\" is not defined in object type {a: string}".toList, "expression".toList⟩

example : header exDiag =
    ".github/workflows/a.yml:12:34: property \"x\" is not defined in object type {a: string} [expression]".toList := by
  decide
example : Faithful exDiag := faithful_of_check (by decide)
example : matcher (header exDiag) = some exDiag := roundtrip exDiag (faithful_of_check (by decide))
/-- a message may START with ` [` -/
example : matcher (header ⟨"a.yml".toList, 1, 2, " [x".toList, "k".toList⟩) =
    some ⟨"a.yml".toList, 1, 2, " [x".toList, "k".toList⟩ := roundtrip _ (faithful_of_check (by decide))

/-- Some condition on the file is necessary: for the (exotic) file name `a:1:2: b` every other field is
harmless, yet the header `a:1:2: b:3:4: m [k]` is parsed as file `a`, line 1, column 2, message `b:3:4: m`. -/
theorem roundtrip_file_counterexample :
    let d : Diag := ⟨"a:1:2: b".toList, 3, 4, ['m'], ['k']⟩
    (d.file ≠ [] ∧ (∀ c ∈ d.file, dot c = true) ∧ d.msg ≠ [] ∧ (∀ c ∈ d.msg, dot c = true) ∧
      (∀ a b, d.msg = a ++ [' ', '['] ++ b → a = []) ∧ d.kind ≠ [] ∧ (∀ c ∈ d.kind, dot c = true)) ∧
    matcher (header d) = some ⟨['a'], 1, 2, "b:3:4: m".toList, ['k']⟩ ∧
    matcher (header d) ≠ some d ∧ ¬ FileOk d.file := by
  intro d
  have hm : matcher (header d) = some ⟨['a'], 1, 2, "b:3:4: m".toList, ['k']⟩ := by
    have hh : header d = header ⟨['a'], 1, 2, "b:3:4: m".toList, ['k']⟩ := by decide
    rw [hh]
    exact roundtrip _ (faithful_of_check (by decide))
  have hne : matcher (header d) ≠ some d := by rw [hm]; decide
  refine ⟨⟨by decide, by decide, by decide, by decide, ?_, by decide, by decide⟩, hm, hne, ?_⟩
  · exact noInnerBracket_spec' (m := ['m']) (by decide)
  · intro hf
    exact hne (roundtrip d ⟨hf, by decide, by decide,
      noInnerBracket_spec' (m := ['m']) (by decide),
      by decide, by decide⟩)

/-! ### (b) -/

theorem header_bracket (f a b k : List Char) (l c : Nat) :
    header ⟨f, l, c, a ++ [' ', '['] ++ b, k⟩ = header ⟨f, l, c, a, b ++ [' ', '['] ++ k⟩ := by
  simp [header]

/-- (b), corrected. The statement above is FALSE as written: the header of `⟨f,l,c, a ++ " [" ++ b, k⟩` is
`f:l:c: a [b [k]`, so the kind the matcher returns is `b ++ " [" ++ k` — there is no `]` between `b` and
` [k` (a `]` only shows up when it is part of `b`, as in the motivating example
`character '[' is invalid [see docs]`, where `b = "see docs]"` and the kind is `see docs] [k`).
Concrete counterexample to the original: `f = "a"`, `l = c = 1`, `a = "x"`, `b = ""`, `k = "k"`: the line is
`a:1:1: x [ [k]`, the matcher returns message `x` and kind ` [k`, not `] [k`. -/
def roundtrip_conv_statement' : Prop :=
  ∀ (f k a b : List Char) (l c : Nat), FileOk f → a ≠ [] → (∀ x ∈ a, dot x = true) → (∀ x ∈ b, dot x = true) →
    (∀ a1 a2, a = a1 ++ [' ', '['] ++ a2 → a1 = []) → k ≠ [] → (∀ x ∈ k, dot x = true) →
    matcher (header ⟨f, l, c, a ++ [' ', '['] ++ b, k⟩) = some ⟨f, l, c, a, b ++ [' ', '['] ++ k⟩

theorem roundtrip_conv' : roundtrip_conv_statement' := by
  intro f k a b l c hf ha had hbd hnb hk hkd
  rw [header_bracket]
  apply roundtrip
  refine ⟨hf, ha, had, hnb, by simp, ?_⟩
  intro x hx
  simp only [List.mem_append, List.mem_cons, List.not_mem_nil, or_false] at hx
  rcases hx with (hx | rfl | rfl) | hx
  · exact hbd x hx
  · exact dot_space
  · exact dot_lbracket
  · exact hkd x hx

theorem roundtrip_conv_counterexample : ¬ roundtrip_conv_statement := by
  intro h
  have hf : FileOk ['a'] := (faithful_of_check (d := ⟨['a'], 1, 1, ['x'], ['k']⟩) (by decide)).file
  have hnb : ∀ a1 a2, ['x'] = a1 ++ [' ', '['] ++ a2 → a1 = [] :=
    noInnerBracket_spec' (m := ['x']) (by decide)
  have h1 := h ['a'] ['k'] ['x'] [] 1 1 hf (by decide) (by decide) (by decide) hnb (by decide) (by decide)
  have h2 := roundtrip_conv' ['a'] ['k'] ['x'] [] 1 1 hf (by decide) (by decide) (by decide) hnb (by decide) (by decide)
  rw [h2] at h1
  revert h1; decide

/-- the motivating example: the message `character '[' is invalid [see docs]` of kind `k` is split after
`invalid`; the reported kind is `see docs] [k` -/
example : matcher (header ⟨"a.yml".toList, 1, 2, "character '[' is invalid [see docs]".toList, "k".toList⟩) =
    some ⟨"a.yml".toList, 1, 2, "character '[' is invalid".toList, "see docs] [k".toList⟩ := by
  have hh : header ⟨"a.yml".toList, 1, 2, "character '[' is invalid [see docs]".toList, "k".toList⟩ =
      header ⟨"a.yml".toList, 1, 2, "character '[' is invalid".toList, "see docs] [k".toList⟩ := by decide
  rw [hh]
  exact roundtrip _ (faithful_of_check (by decide))

/-! ### (c) -/

/-- any line with a character that `.` does not match (`\n`, `\r`, U+2028, U+2029) is rejected as a whole -/
theorem nondot_rejected (line : List Char) (h : ∃ c ∈ line, dot c = false) : matcher line = none := by
  unfold matcher
  rw [matchFile_none_of_nondot line [] h]; rfl

/-- (c), stronger form: a line break in the message makes the matcher reject the header (no `FileOk` needed) -/
theorem linebreak_rejected (d : Diag) (h : ∃ c ∈ d.msg, dot c = false) : matcher (header d) = none := by
  apply nondot_rejected
  obtain ⟨c, hc, hd⟩ := h
  exact ⟨c, by simp [header, hc], hd⟩

/-- (c) as stated -/
theorem linebreak_breaks : linebreak_breaks_statement := by
  intro d _ h
  obtain ⟨c, hc, rfl⟩ := h
  rw [linebreak_rejected d ⟨'\n', hc, by decide⟩]
  exact fun h => nomatch h

example : matcher (header ⟨"a.yml".toList, 1, 2, "invalid CRON format \"0 0\n* * *\"".toList, "events".toList⟩) = none :=
  linebreak_rejected _ ⟨'\n', by decide, by decide⟩

/-! ### (d), (e) -/

/-- (d) -/
theorem snippet : snippet_statement := by
  intro src line col
  split
  · trivial
  · rename_i l h
    unfold snippetLine at h
    split at h
    · cases h
    · rename_i hguard
      split at h
      · cases h
      · rename_i l' hget
        split at h
        · cases h
        · rename_i hcol
          simp only [Option.some.injEq] at h
          subst h
          obtain ⟨h1, h2, h3⟩ := getLine_some hget
          exact ⟨h1, h2, by omega, h3⟩

example : snippetLine [97, 10, 98, 99, 13, 10, 100] 2 3 = some [98, 99] := by decide
example : snippetLine [97, 10, 98, 99, 13, 10, 100] 2 4 = none := by decide
example : snippetLine [97, 10, 98, 99, 13, 10, 100] 4 1 = none := by decide

/-- (e) -/
theorem split_lines : split_lines_statement :=
  fun src => ⟨splitLines_no_lf src, splitLines_sum_le src⟩

example : splitLines [97, 10, 98, 99, 13, 10, 10, 100] = [[97], [98, 99], [], [100]] := by decide

end AL.C16
