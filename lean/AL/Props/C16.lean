import AL.Model.Render
/-
  C16 — every output format renders the diagnostics faithfully, one per line.
  Statements; proved theorems are added below by name.
-/
namespace AL.C16
open AL.Render

/-- `s` contains `pat` as a contiguous sub-list -/
def Contains (pat s : List Char) : Prop := ∃ a b, s = a ++ pat ++ b

/-- a file name that cannot be confused with the `:line:col: ` separator: no proper prefix of
`file` is followed (inside `file`) by `:digits:digits: ` -/
def FileOk (file : List Char) : Prop :=
  file ≠ [] ∧ (∀ c ∈ file, dot c = true) ∧
  ∀ pre rest, file = pre ++ rest → pre ≠ [] → rest ≠ [] → matchTail (rest ++ [':', '1', ':', '1', ':', ' ', 'x', ' ', '[', 'k', ']']) = none

/-- the weakest condition under which the header is parsed back faithfully -/
structure Faithful (d : Diag) : Prop where
  file : FileOk d.file
  msgNonEmpty : d.msg ≠ []
  msgOneLine : ∀ c ∈ d.msg, dot c = true
  /-- the lazy `(.+?)` stops at the first ` [` that is followed by a closing `]` at the end of the line: the
  message must not contain ` [` after its first character -/
  msgNoBracket : ∀ a b, d.msg = a ++ [' ', '['] ++ b → a = []
  kindNonEmpty : d.kind ≠ []
  kindOneLine : ∀ c ∈ d.kind, dot c = true

/-- (a) THE PROPERTY (matcher round trip): a faithful diagnostic's header line is parsed back by the
shipped pattern to the same file, line, column, message and kind. -/
def roundtrip_statement : Prop :=
  ∀ d : Diag, Faithful d → matcher (header d) = some d

/-- (b) the message condition is necessary: a message with ` [` inside is split at the wrong place (so
messages must never contain ` [` … `]`-like text, and never a line break). -/
def roundtrip_conv_statement : Prop :=
  ∀ (f k a b : List Char) (l c : Nat), FileOk f → a ≠ [] → (∀ x ∈ a, dot x = true) → (∀ x ∈ b, dot x = true) →
    (∀ a1 a2, a = a1 ++ [' ', '['] ++ a2 → a1 = []) → k ≠ [] → (∀ x ∈ k, dot x = true) →
    matcher (header ⟨f, l, c, a ++ [' ', '['] ++ b, k⟩) = some ⟨f, l, c, a, b ++ [']', ' ', '['] ++ k⟩

/-- (c) a message with a line break is never parsed back (the matcher is applied line by line; here:
the whole header is rejected because `.` does not match the break). -/
def linebreak_breaks_statement : Prop :=
  ∀ d : Diag, FileOk d.file → (∃ c ∈ d.msg, c = '\n') → matcher (header d) ≠ some d

/-- (d) snippet totality and correctness: for ALL (line, col, source) the renderer's guard either shows
nothing or shows the referenced source line; it never indexes outside the line. -/
def snippet_statement : Prop :=
  ∀ (src : List Nat) (line col : Nat),
    match snippetLine src line col with
    | none => True
    | some l => line ≥ 1 ∧ (splitLines src)[line - 1]? = some l ∧ col - 1 ≤ l.length ∧ l.length < maxToken

/-- (e) the lines of `splitLines` contain no line feed, and joining them gives back the source up to
line terminators (nothing is invented). -/
def split_lines_statement : Prop :=
  ∀ (src : List Nat), (∀ l ∈ splitLines src, 10 ∉ l) ∧ ((splitLines src).map (·.length)).sum ≤ src.length

end AL.C16
