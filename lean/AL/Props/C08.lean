import AL.Model.ExprConv
import AL.Model.Insecure
import AL.Model.Json
import AL.Gen.Builtins
import AL.Lemmas.SemaCase
import AL.Model.Facts
/-
  C08 — names are matched case-insensitively everywhere (expression level).
  Statements; proved theorems are added below by name.
-/
namespace AL.C08
open AL AL.Sema AL.Parse

mutual
/-- two parser trees that differ only in the letter case of names: variable, property and function names
equal after folding; string literals equal, except a string literal used as an index (`x['Name']`), which
is a property name. Keywords (`true`/`false`/`null`) and numbers are not names. -/
inductive CaseEq (lower : String → String) : Parse.Expr → Parse.Expr → Prop
  | null : CaseEq lower .null .null
  | bool (b : Bool) : CaseEq lower (.bool b) (.bool b)
  | int (v : Int) : CaseEq lower (.int v) (.int v)
  | float (l l' : List Sym) : CaseEq lower (.float l) (.float l')
  | str (v : List Sym) : CaseEq lower (.str v) (.str v)
  | var (n n' : List Sym) : lower (symsToString n) = lower (symsToString n') → CaseEq lower (.var n) (.var n')
  | call (c c' : List Sym) (as as' : List Parse.Expr) : lower (symsToString c) = lower (symsToString c') →
      CaseEqList lower as as' → CaseEq lower (.call c as) (.call c' as')
  | objDeref (r r' : Parse.Expr) (p p' : List Sym) : CaseEq lower r r' → lower (symsToString p) = lower (symsToString p') →
      CaseEq lower (.objDeref r p) (.objDeref r' p')
  | arrDeref (r r' : Parse.Expr) : CaseEq lower r r' → CaseEq lower (.arrDeref r) (.arrDeref r')
  | index (r r' i i' : Parse.Expr) : CaseEq lower r r' → CaseEq lower i i' → CaseEq lower (.index r i) (.index r' i')
  | indexLit (r r' : Parse.Expr) (v v' : List Sym) : CaseEq lower r r' → lower (symsToString v) = lower (symsToString v') →
      CaseEq lower (.index r (.str v)) (.index r' (.str v'))
  | not (e e' : Parse.Expr) : CaseEq lower e e' → CaseEq lower (.not e) (.not e')
  | cmp (k : Parse.CmpKind) (l l' r r' : Parse.Expr) : CaseEq lower l l' → CaseEq lower r r' → CaseEq lower (.cmp k l r) (.cmp k l' r')
  | logical (k : Parse.LogKind) (l l' r r' : Parse.Expr) : CaseEq lower l l' → CaseEq lower r r' → CaseEq lower (.logical k l r) (.logical k l' r')
inductive CaseEqList (lower : String → String) : List Parse.Expr → List Parse.Expr → Prop
  | nil : CaseEqList lower [] []
  | cons (e e' : Parse.Expr) (es es' : List Parse.Expr) : CaseEq lower e e' → CaseEqList lower es es' → CaseEqList lower (e :: es) (e' :: es')
end

/-- what does not depend on spelling: the error codes (arguments echo the spelling), the type, the events -/
def codes (r : R) : List String := r.errs.map (·.code)

/-- (a) THE PROPERTY at expression level: re-casing names never changes which diagnostics are reported,
the resulting type, or the untrusted-input events (hence reports). -/
def check_case_insensitive_statement : Prop :=
  ∀ (Γ : Env) (e e' : Parse.Expr), (∀ s, Γ.lower (Γ.lower s) = Γ.lower s) → CaseEq Γ.lower e e' →
    codes (check Γ (toE Γ.lower e)) = codes (check Γ (toE Γ.lower e')) ∧
    (check Γ (toE Γ.lower e)).ty = (check Γ (toE Γ.lower e')).ty ∧
    (check Γ (toE Γ.lower e)).evs = (check Γ (toE Γ.lower e')).evs

/-- (b) keywords stay case-sensitive: `TRUE` is a variable, `true` the literal. -/
def keywords_case_sensitive_statement : Prop :=
  ∀ lower : String → String,
    toE lower (.var [⟨84, 1, false⟩, ⟨82, 1, false⟩, ⟨85, 1, false⟩, ⟨69, 1, false⟩]) = .var (lower "TRUE") ∧
    toE lower (.bool true) = .bool

/-- (c) keys of a JSON literal passed to fromJSON are folded: the derived type's property names are
folded, so `.name` access (folded by the parser) finds them whatever their spelling. -/
def json_keys_folded_statement : Prop :=
  ∀ (lower : String → String) (ms : List (String × AL.Json.JVal)) (k : String) (t : Ty),
    (∀ s, lower (lower s) = lower s) →
    AL.Json.typeOf lower (.obj ms) = .obj ((AL.Json.memberTys lower ms [])) none ∧
    ((k, t) ∈ AL.Json.memberTys lower ms [] → lower k = k)

/-! ### proofs -/

mutual
/-- after `toE` two `CaseEq` trees are equal up to the spelling of callees and of index literals -/
theorem spellEq_of_caseEq (lower : String → String) : ∀ {e e' : Parse.Expr}, CaseEq lower e e' →
    SpellEq lower (toE lower e) (toE lower e')
  | _, _, .null => by simp only [toE]; exact .null
  | _, _, .bool _ => by simp only [toE]; exact .bool
  | _, _, .int _ => by simp only [toE]; exact .num
  | _, _, .float _ _ => by simp only [toE]; exact .num
  | _, _, .str _ => by simp only [toE]; exact .str _
  | _, _, .var _ _ h => by simp only [toE, h]; exact .var _
  | _, _, .call _ _ _ _ hc has => by
    simp only [toE]; exact .call _ _ _ _ hc (spellEqList_of_caseEqList lower has)
  | _, _, .objDeref _ _ _ _ hr hp => by
    simp only [toE, hp]; exact .objDeref _ _ _ (spellEq_of_caseEq lower hr)
  | _, _, .arrDeref _ _ hr => by simp only [toE]; exact .arrDeref _ _ (spellEq_of_caseEq lower hr)
  | _, _, .index _ _ _ _ hr hi => by
    simp only [toE]; exact .index _ _ _ _ (spellEq_of_caseEq lower hr) (spellEq_of_caseEq lower hi)
  | _, _, .indexLit _ _ _ _ hr hv => by
    simp only [toE]; exact .indexLit _ _ _ _ (spellEq_of_caseEq lower hr) hv
  | _, _, .not _ _ he => by simp only [toE]; exact .not _ _ (spellEq_of_caseEq lower he)
  | _, _, .cmp _ _ _ _ _ hl hr => by
    simp only [toE]; exact .cmp _ _ _ _ _ (spellEq_of_caseEq lower hl) (spellEq_of_caseEq lower hr)
  | _, _, .logical k _ _ _ _ hl hr => by
    cases k <;> simp only [toE] <;>
      exact .logical _ _ _ _ _ (spellEq_of_caseEq lower hl) (spellEq_of_caseEq lower hr)
theorem spellEqList_of_caseEqList (lower : String → String) : ∀ {es es' : List Parse.Expr},
    CaseEqList lower es es' → SpellEqList lower (toEs lower es) (toEs lower es')
  | _, _, .nil => by simp only [toEs]; exact .nil
  | _, _, .cons _ _ _ _ he hes => by
    simp only [toEs]; exact .cons _ _ _ _ (spellEq_of_caseEq lower he) (spellEqList_of_caseEqList lower hes)
end

/-- (a); the idempotence hypothesis is not needed. -/
theorem check_case_insensitive : check_case_insensitive_statement := by
  intro Γ e e' _ h
  exact check_spell (spellEq_of_caseEq Γ.lower h)

theorem keywords_case_sensitive : keywords_case_sensitive_statement := by
  intro lower
  refine ⟨?_, by simp only [toE]⟩
  simp only [toE]
  congr

theorem json_keys_folded : json_keys_folded_statement := by
  intro lower ms k t hl
  refine ⟨by rw [AL.Json.typeOf], ?_⟩
  exact AL.Json.memberTys_keys lower hl ms [] (fun _ h => nomatch h) k t

/-! ### concrete instances -/

/-- a folding function on the handful of names of the example (idempotent by construction) -/
def exLower (s : String) : String :=
  if s = "GitHub" then "github" else if s = "Event" then "event" else if s = "Title" then "title"
  else if s = "ToJSON" then "tojson" else if s = "toJSON" then "tojson" else s

theorem exLower_idem (s : String) : exLower (exLower s) = exLower s := by
  unfold exLower
  repeat' split
  all_goals first | rfl | simp_all

def sy (s : String) : List Sym := s.toList.map fun c => ⟨c.toNat, 1, false⟩

def exΓ : Env :=
  { vars := [("github", .obj [("event", .obj [("number", .number)] none)] none)],
    funcs := AL.Gen.funcSigs, specialFuncs := AL.Gen.specialFuncs,
    availCtx := ["github"], availSpecial := [], configVars := none,
    lower := exLower, fromJson := fun _ => .otherErr }

/-- `ToJSON(GitHub.Event['Title'])` -/
def exE : Parse.Expr :=
  .call (sy "ToJSON") [.index (.objDeref (.var (sy "GitHub")) (sy "Event")) (.str (sy "Title"))]
/-- `toJSON(github.event['title'])` -/
def exE' : Parse.Expr :=
  .call (sy "toJSON") [.index (.objDeref (.var (sy "github")) (sy "event")) (.str (sy "title"))]

theorem exCaseEq : CaseEq exLower exE exE' :=
  .call _ _ _ _ (by decide +kernel)
    (.cons _ _ _ _
      (.indexLit _ _ _ _ (.objDeref _ _ _ _ (.var _ _ (by decide +kernel)) (by decide +kernel)) (by decide +kernel))
      .nil)

/-- both spellings report the same codes (here `prop-undefined`: `github.event` is strict and has no
`title`), the same type and the same events -/
example : codes (check exΓ (toE exLower exE)) = codes (check exΓ (toE exLower exE')) ∧
    (check exΓ (toE exLower exE)).ty = (check exΓ (toE exLower exE')).ty ∧
    (check exΓ (toE exLower exE)).evs = (check exΓ (toE exLower exE')).evs :=
  check_case_insensitive exΓ exE exE' exLower_idem exCaseEq

/-- (b) with a real folding function: `TRUE` becomes the variable `true`, never the literal -/
example : toE AL.Facts.lowerAscii (.var (sy "TRUE")) = .var "true" ∧ toE AL.Facts.lowerAscii (.bool true) = .bool := by
  refine ⟨?_, by simp only [toE]⟩
  simp only [toE]
  congr 1

/-- (c) `{"Name": 1, "NAME": "x"}`: one property `name` (the greater original key `Name` wins) -/
example : (AL.Json.memberTys AL.Facts.lowerAscii [("NAME", .str), ("Name", .num)] []).map
    (fun p => (p.1, tyStr p.2)) = [("name", "number")] := by
  decide +kernel

end AL.C08
