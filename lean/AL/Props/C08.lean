import AL.Model.ExprConv
import AL.Model.Insecure
import AL.Model.Json
import AL.Gen.Builtins
/-
  C08 — names are matched case-insensitively everywhere (expression level).
  Statements; proved theorems are added below by name.
-/
namespace AL.C08
open AL AL.Sema AL.Parse

mutual
/-- two parser trees that differ only in the letter case of names: variable, property and function names
equal after folding; string literals equal, except a string literal used as an index (`x['Name']`), which
is a property name. Keywords (`true`/`false`/`null`) and numbers are not names. -/
inductive CaseEq (lower : String → String) : Parse.Expr → Parse.Expr → Prop
  | null : CaseEq lower .null .null
  | bool (b : Bool) : CaseEq lower (.bool b) (.bool b)
  | int (v : Int) : CaseEq lower (.int v) (.int v)
  | float (l l' : List Sym) : CaseEq lower (.float l) (.float l')
  | str (v : List Sym) : CaseEq lower (.str v) (.str v)
  | var (n n' : List Sym) : lower (symsToString n) = lower (symsToString n') → CaseEq lower (.var n) (.var n')
  | call (c c' : List Sym) (as as' : List Parse.Expr) : lower (symsToString c) = lower (symsToString c') →
      CaseEqList lower as as' → CaseEq lower (.call c as) (.call c' as')
  | objDeref (r r' : Parse.Expr) (p p' : List Sym) : CaseEq lower r r' → lower (symsToString p) = lower (symsToString p') →
      CaseEq lower (.objDeref r p) (.objDeref r' p')
  | arrDeref (r r' : Parse.Expr) : CaseEq lower r r' → CaseEq lower (.arrDeref r) (.arrDeref r')
  | index (r r' i i' : Parse.Expr) : CaseEq lower r r' → CaseEq lower i i' → CaseEq lower (.index r i) (.index r' i')
  | indexLit (r r' : Parse.Expr) (v v' : List Sym) : CaseEq lower r r' → lower (symsToString v) = lower (symsToString v') →
      CaseEq lower (.index r (.str v)) (.index r' (.str v'))
  | not (e e' : Parse.Expr) : CaseEq lower e e' → CaseEq lower (.not e) (.not e')
  | cmp (k : Parse.CmpKind) (l l' r r' : Parse.Expr) : CaseEq lower l l' → CaseEq lower r r' → CaseEq lower (.cmp k l r) (.cmp k l' r')
  | logical (k : Parse.LogKind) (l l' r r' : Parse.Expr) : CaseEq lower l l' → CaseEq lower r r' → CaseEq lower (.logical k l r) (.logical k l' r')
inductive CaseEqList (lower : String → String) : List Parse.Expr → List Parse.Expr → Prop
  | nil : CaseEqList lower [] []
  | cons (e e' : Parse.Expr) (es es' : List Parse.Expr) : CaseEq lower e e' → CaseEqList lower es es' → CaseEqList lower (e :: es) (e' :: es')
end

/-- what does not depend on spelling: the error codes (arguments echo the spelling), the type, the events -/
def codes (r : R) : List String := r.errs.map (·.code)

/-- (a) THE PROPERTY at expression level: re-casing names never changes which diagnostics are reported,
the resulting type, or the untrusted-input events (hence reports). -/
def check_case_insensitive_statement : Prop :=
  ∀ (Γ : Env) (e e' : Parse.Expr), (∀ s, Γ.lower (Γ.lower s) = Γ.lower s) → CaseEq Γ.lower e e' →
    codes (check Γ (toE Γ.lower e)) = codes (check Γ (toE Γ.lower e')) ∧
    (check Γ (toE Γ.lower e)).ty = (check Γ (toE Γ.lower e')).ty ∧
    (check Γ (toE Γ.lower e)).evs = (check Γ (toE Γ.lower e')).evs

/-- (b) keywords stay case-sensitive: `TRUE` is a variable, `true` the literal. -/
def keywords_case_sensitive_statement : Prop :=
  ∀ lower : String → String,
    toE lower (.var [⟨84, 1, false⟩, ⟨82, 1, false⟩, ⟨85, 1, false⟩, ⟨69, 1, false⟩]) = .var (lower "TRUE") ∧
    toE lower (.bool true) = .bool

/-- (c) keys of a JSON literal passed to fromJSON are folded: the derived type's property names are
folded, so `.name` access (folded by the parser) finds them whatever their spelling. -/
def json_keys_folded_statement : Prop :=
  ∀ (lower : String → String) (ms : List (String × AL.Json.JVal)) (k : String) (t : Ty),
    (∀ s, lower (lower s) = lower s) →
    AL.Json.typeOf lower (.obj ms) = .obj ((AL.Json.memberTys lower ms [])) none ∧
    ((k, t) ∈ AL.Json.memberTys lower ms [] → lower k = k)

end AL.C08
