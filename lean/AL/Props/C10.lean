import AL.Model.Lint
import AL.Gen.Mutators
import AL.Lemmas.LintPath
/-
  C10 — multi-file runs: per-file results are isolated and race-free.
  Partial by nature: data races and goroutine interleavings are runtime behaviour; what is logic is
  (a) that shared data is never sorted in place (regenerated fact), (b) project attribution by path
  components (theorem on the path model, also used by C15), (c) the process protocol (C20's theorems).
-/
namespace AL.C10
open AL.Lint

/-- in-place sorts whose operand is not syntactically fresh, with the reason why it is still private -/
def sortExempt : List (String × String × String) := [
  -- `all` is the accumulator declared in `check` itself (`all := …; all = append(all, errs...)`)
  ("linter.go", "check", "all")
]

/-- (a) every `sort.*` call in the source sorts a slice that was created in the same function (make,
composite literal, copy) — never a parameter, a field or a package-level table. The pinned tree's
`sortedQuotes(ss)` sorted its PARAMETER, which was `AllWebhookTypes[hook]` / `Config.ConfigVariables`. -/
def sorts_private_check : Bool :=
  AL.Gen.inPlaceSorts.all fun s => s.2.2.2.2 = "fresh" || sortExempt.contains (s.1, s.2.1, s.2.2.2.1)

theorem sorts_private : sorts_private_check = true := by decide +kernel

/-- (b) attribution: a file is known to a project iff the project root is a whole-component prefix of its
path — so `/x/repo2/...` is never attributed to the project `/x/repo`. -/
theorem attribution_by_components (root p : FPath) : knows root p = true ↔ ∃ rest, p.comps = root.comps ++ rest := by
  unfold knows
  rw [List.isPrefixOf_iff_prefix]
  constructor
  · rintro ⟨t, ht⟩; exact ⟨t, ht.symm⟩
  · rintro ⟨t, ht⟩; exact ⟨t, ht.symm⟩

example : knows ⟨true, ["x", "repo"]⟩ ⟨true, ["x", "repo2", ".github", "workflows", "a.yml"]⟩ = false := by decide
example : knows ⟨true, ["x", "repo"]⟩ ⟨true, ["x", "repo", ".github", "workflows", "a.yml"]⟩ = true := by decide

end AL.C10
