import AL.Model.ProjLint
/-
  C05 inside a project: `needs.<job>.outputs` of a job that calls a local reusable workflow and `steps.<id>.outputs` of a step
  that uses a local action are STRICT objects whose properties are exactly the outputs the callee declares (lower-case ids).
-/
namespace AL.C05P
open AL AL.Ast

theorem lookup_setProp (k k' : String) (v : Ty) : ∀ ps : List (String × Ty),
    Ty.lookup k' (Ty.setProp k v ps) = if k' = k then some v else Ty.lookup k' ps := by
  intro ps
  induction ps with
  | nil =>
    simp only [Ty.setProp, Ty.lookup]
    by_cases h : k' = k
    · subst h; simp
    · have : ¬ (k = k') := fun e => h e.symm
      simp [h, this]
  | cons e rest ih =>
    obtain ⟨k'', v''⟩ := e
    simp only [Ty.setProp]
    by_cases h1 : k'' = k
    · subst h1
      simp only [if_true, Ty.lookup]
      by_cases h : k' = k'' <;> simp [h, Ty.lookup, eq_comm]
    · simp only [h1, if_false]
      by_cases h2 : k < k''
      · simp only [h2, if_true, Ty.lookup]
        by_cases h : k' = k
        · subst h; simp
        · have : ¬ (k = k') := fun e => h e.symm
          simp [h, this]
      · simp only [h2, if_false, Ty.lookup, ih]
        by_cases h : k' = k
        · subst h
          have : ¬ (k'' = k') := h1
          simp [this]
        · simp [h]

theorem lookup_fold_string (name : String) : ∀ (l : List String) (acc : List (String × Ty)),
    Ty.lookup name (l.foldl (fun ps o => Ty.setProp o .string ps) acc) =
      if name ∈ l then some .string else Ty.lookup name acc := by
  intro l
  induction l with
  | nil => intro acc; simp
  | cons o rest ih =>
    intro acc
    simp only [List.foldl_cons, ih, lookup_setProp, List.mem_cons]
    by_cases h1 : name ∈ rest
    · simp [h1]
    · by_cases h2 : name = o <;> simp [h1, h2]

/-- `getWorkflowCallOutputsType` with a known interface: a strict object with exactly the declared outputs -/
theorem call_outputs_exact (m : AL.CallMeta.Meta) (name : String) :
    ∃ ps, AL.ProjCall.outputsTy m = .obj ps none ∧
      (Ty.lookup name ps = if name ∈ m.outputs.map (·.1) then some .string else none) := by
  refine ⟨_, rfl, ?_⟩
  have := lookup_fold_string name (m.outputs.map (·.1)) []
  simp only [Ty.lookup] at this
  rw [← this, List.foldl_map]

/-- `typeOfActionOutputs` of a local action: a strict object with exactly the declared outputs -/
theorem action_outputs_exact (m : AL.ProjAction.ActionMeta) (name : String) :
    ∃ ps, AL.ProjAction.outputsTy m = .obj ps none ∧
      (Ty.lookup name ps = if name ∈ m.outputs.map (·.1) then some .string else none) := by
  refine ⟨_, rfl, ?_⟩
  have := lookup_fold_string name (m.outputs.map (·.1)) []
  simp only [Ty.lookup] at this
  rw [← this, List.foldl_map]

end AL.C05P
