import AL.Model.Visit
import AL.Lemmas.VisitEvents
/-
  C02 / C05 — the `on:` section in the model of rule_expression.go's VisitWorkflowPre (AL/Model/Visit.lean):
  the inputs of `workflow_dispatch` live in a Go map, so the order in which they are visited is arbitrary; their
  strings are checked while `inputs` is not yet updated, so that order cannot be observed. The inputs of
  `workflow_call` are visited in source order and each default sees exactly the inputs declared before it.
  Statements; proved theorems are added below by name.
-/
namespace AL.Props.C02Events
open AL AL.Sema AL.Visit

/-- (a) visiting the workflow_dispatch inputs in another order only permutes the diagnostics (the final stable sort by
position then fixes the order) -/
def dispatch_order_diags_statement : Prop :=
  ∀ (lower : String → String) (hdr : Header) (ins ins' : List DispatchInput), ins.Perm ins' →
    (runEvent lower hdr (.dispatch ins')).2.Perm (runEvent lower hdr (.dispatch ins)).2

/-- (b) … and, for distinct ids, the `inputs` object that later strings see is the same -/
def dispatch_order_type_statement : Prop :=
  ∀ (ins ins' : List DispatchInput), ins.Perm ins' → (ins.map (·.id)).Nodup →
    objOf (ins'.map fun i => (i.id, i.ty)) = objOf (ins.map fun i => (i.id, i.ty))

/-- (c) every string of a workflow_dispatch input is checked under the header as it was BEFORE the event -/
def dispatch_strings_see_old_header_statement : Prop :=
  ∀ (lower : String → String) (hdr : Header) (ins : List DispatchInput),
    (runEvent lower hdr (.dispatch ins)).2 = ins.flatMap fun i => i.probes.map (checkProbe lower hdr none St.init)

/-- (d) the default of a workflow_call input is checked with exactly the inputs declared before it in scope, and the
defaults of later inputs do not change what was reported for it -/
def call_default_scope_statement : Prop :=
  ∀ (lower : String → String) (hdr : Header) (acc : List (String × Ty)) (pre post : List CallInput) (i : CallInput) (p : Probe),
    i.dflt = some p →
    runCallDefaults lower hdr acc (pre ++ i :: post) =
      runCallDefaults lower hdr acc pre ++
      [checkProbe lower { hdr with callInputs := some (acc ++ pre.map fun x => (x.id, x.ty)) } none St.init p] ++
      runCallDefaults lower hdr (acc ++ (pre ++ [i]).map fun x => (x.id, x.ty)) post

/-! ### proofs -/

theorem dispatch_strings_see_old_header : dispatch_strings_see_old_header_statement := by
  intro lower hdr ins
  rfl

theorem dispatch_order_diags : dispatch_order_diags_statement := by
  intro lower hdr ins ins' hp
  show (ins'.flatMap fun i => i.probes.map (checkProbe lower hdr none St.init)).Perm
    (ins.flatMap fun i => i.probes.map (checkProbe lower hdr none St.init))
  exact hp.symm.flatMap_right _

/-- the fold of `Ty.setProp` from `[]` yields THE key-sorted list with the given bindings (`AL.Visit.keySorted_ext`),
so `setProp`s for different keys commute and the order of a list with distinct keys is not observable -/
theorem dispatch_order_type : dispatch_order_type_statement := by
  intro ins ins' hp hnd
  refine objOf_perm (hp.map _) ?_
  simpa [List.map_map, Function.comp_def] using hnd

theorem call_default_scope : call_default_scope_statement := by
  intro lower hdr acc pre post i p hp
  rw [runCallDefaults_append]
  simp [runCallDefaults, hp, List.map_append, List.append_assoc]

/-! ### non-vacuity -/

/-- both orders give the same object, with the keys in sorted order -/
example : objOf [("who", .string), ("flag", .bool)] = .obj [("flag", .bool), ("who", .string)] none := by rfl
example : objOf [("flag", .bool), ("who", .string)] = .obj [("flag", .bool), ("who", .string)] none := by
  simp [objOf, Ty.setProp]

/-- the theorem applies to a real permutation (hypotheses satisfiable) -/
example : objOf ([⟨"flag", .bool, []⟩, ⟨"who", .string, []⟩].map fun i : DispatchInput => (i.id, i.ty)) =
    objOf ([⟨"who", .string, []⟩, ⟨"flag", .bool, []⟩].map fun i : DispatchInput => (i.id, i.ty)) :=
  dispatch_order_type _ _ (List.Perm.swap _ _ _) (by simp)

/-- the distinct-ids hypothesis of (b) is needed: with a repeated id the last visited one wins -/
example : objOf [("a", .string), ("a", .bool)] ≠ objOf [("a", .bool), ("a", .string)] := by
  simp [objOf, Ty.setProp]

/-- (d) on a concrete list: the default of the second input sees exactly the first input -/
example (lower : String → String) (hdr : Header) (p : Probe) :
    runCallDefaults lower hdr [] [⟨"a", .string, none⟩, ⟨"b", .bool, some p⟩] =
      [checkProbe lower { hdr with callInputs := some [("a", .string)] } none St.init p] := by
  have h := call_default_scope lower hdr [] [⟨"a", .string, none⟩] [] ⟨"b", .bool, some p⟩ p rfl
  simp [runCallDefaults] at h ⊢

end AL.Props.C02Events
