import AL.Lemmas.C17DRule
import AL.Lemmas.C17DParse
import AL.Lemmas.C17DHeaders
import AL.Lemmas.C17DLint
import AL.Lemmas.C17DChars
/-
  C17 from the DOCUMENT: "every pattern under `branches`, `branches-ignore`, `tags`, `tags-ignore` (ref syntax) and `paths`,
  `paths-ignore` (path syntax) is accepted iff it is in the documented language, and an invalid one is reported at the
  offending character" — the validator (AL.Glob, theorems AL.C17) composed with the rule (AL.Rules.ruleGlob) and the parser
  (AL.PW), so that the statements speak about what is WRITTEN in the yaml.Node tree.

  Definitions (AL/Lemmas/C17DRule.lean, C17DParse.lean, C17DHeaders.lean):
    `Kind` (ref / path), `validateK`, `patternsOf w` (the pattern strings of the AST with their kinds, in the order of `on:`),
    `diagAt s e` (the diagnostic for the validator's message `e` about the string `s`), `reports k s` (what the rule says
    about one pattern), `InLang` / `InLangLoose` (the documented language / the same with unchecked `[...]` members);
    document side, on the node tree alone: `valueItems`, `itemsOfEvent`, `eventsOfOn`, `docEvents`, `docFilterItems`,
    `docFilterPatterns doc : List (Node × Kind)` (the scalars under `on.<event>.<filter>`), `DocHeaders` (decidable).

  §1 the rule on the AST, exactly      glob_diags_exact, glob_diag_iff, reports_nil_iff, reported_iff, pattern_reported_iff,
                                        documented_not_reported, reported_not_documented, empty_pattern_skipped,
                                        placeholder_not_skipped, reported_iff_documented_false, column_in_pattern, offending_char;
                                        pattern_chars, pattern_length, noBOM_iff, column_in_text, offending_char_text
  §2 from the document                 patterns_written, patterns_written_nonempty, patterns_written_clean, pattern_mem_iff,
                                        doc_glob_diags_exact (+ _clean, _or, _of_doc), doc_glob_diag_iff,
                                        doc_pattern_reported_iff, doc_documented_not_reported, doc_offending_char,
                                        empty_pattern_parser_reports
  §3 independence                      glob_independent_ast, glob_independent_of_rest, glob_independent_doc,
                                        glob_independent_of_on, doc_glob_per_event, glob_no_filters; in the whole-file model:
                                        rules_glob_exact, lint_glob_exact, projLint_glob_exact, doc_lint_glob_exact,
                                        lint_glob_independent, doc_pattern_diag_in_lint, lint_glob_diag_written
  §4 a concrete document               exDoc (+ exDocDirty: the same `on:` over a `jobs:` the parser refuses; exDocDirty2: empty and
                                        non-scalar items), doc_reported_iff_documented_false, null_scalar_validated_as_text,
                                        doc_trailing_blank_column_counterexample

  What is SKIPPED by the rule, exactly: the empty string and nothing else (`reports`, `empty_pattern_skipped`). A pattern with
  a `${{ }}` placeholder is validated like any other text (`placeholder_not_skipped`). The empty string is what the parser
  leaves for an empty scalar and for an item that is not a scalar, and the parser has reported both
  (`empty_pattern_parser_reports`).

  What "the documented language" is: `AL.Spec.ValidGlob` (for path filters also no blank at either end). The rule decides
  `InLangLoose` (`AL.C17.validate_iff_partial`): nothing documented is ever reported, everything reported is undocumented,
  and the converse fails for members of `[...]` only (`reported_iff_documented_false`: `[a b]` under `branches:`).
-/
namespace AL.C17D
open AL AL.PW AL.Rules AL.Yaml AL.Ast AL.Glob AL.Spec AL.C05D

/-! ## 1. the rule on the AST, exactly -/

/-- **rule glob, as one equation**: for every webhook event of `on:` (in order), every filter `branches`,
`branches-ignore`, `tags`, `tags-ignore` (kind ref), `paths`, `paths-ignore` (kind path) (in this order), every pattern
string of it (in order): nothing for the empty string, otherwise one diagnostic per message of the validator of that kind
about the string's text — on the line of the string, at column `col + (quoted ? 1 : 0) + (k - 1)`, `k` the validator's column
(`diagAt`) -/
theorem glob_diags_exact (w : Workflow) : ruleGlob w = (patternsOf w).flatMap fun p => reports p.2 p.1 := ruleGlob_eq w

theorem diagAt_eq (s : Str) (e : GErr) :
    diagAt s e = ⟨⟨s.pos.line, s.pos.col + (if s.quoted then 1 else 0) + (e.col - 1)⟩, "glob", "glob", [globCode e.msg]⟩ := rfl

/-- the same as a membership statement -/
theorem glob_diag_iff (w : Workflow) (d : Diag) :
    d ∈ ruleGlob w ↔ ∃ p ∈ patternsOf w, p.1.value ≠ "" ∧ ∃ e ∈ validateK p.2 (symsOf p.1.value), d = diagAt p.1 e := by
  rw [glob_diags_exact, List.mem_flatMap]
  constructor
  · rintro ⟨p, hp, hd⟩
    simp only [reports] at hd
    split at hd
    · cases hd
    · rename_i hne
      obtain ⟨e, he, rfl⟩ := List.mem_map.1 hd
      exact ⟨p, hp, hne, e, he, rfl⟩
  · rintro ⟨p, hp, hne, e, he, rfl⟩
    refine ⟨p, hp, ?_⟩
    simp only [reports, hne, if_false]
    exact List.mem_map.2 ⟨e, he, rfl⟩

example : (⟨⟨3, 19⟩, "glob", "glob", ["ref,32,chars"]⟩ : Diag) ∈ ruleGlob { on := some [.webhook
    { hook := ⟨"push", false, ⟨2, 3⟩⟩, pos := ⟨2, 3⟩, branches := some ⟨⟨"branches", false, ⟨3, 5⟩⟩, some [⟨"v1 x", true, ⟨3, 16⟩⟩]⟩ }] } := by
  decide +kernel

/-- **a non-empty pattern is left alone iff it is in the language the validator decides** (`NoBOM`: the text does not start
with U+FEFF, which Go's scanner drops) -/
theorem reports_nil_iff (k : Kind) (s : Str) (hne : s.value ≠ "") (hb : NoBOM (symsOf s.value)) :
    reports k s = [] ↔ InLangLoose k (symsOf s.value) := by
  simp only [reports, hne, if_false, List.map_eq_nil_iff]
  exact validateK_nil_iff k _ hb

/-- **a pattern is reported iff it is not empty and NOT in the language** -/
theorem reported_iff (k : Kind) (s : Str) (hb : NoBOM (symsOf s.value)) :
    (∃ d, d ∈ reports k s) ↔ s.value ≠ "" ∧ ¬ InLangLoose k (symsOf s.value) := by
  by_cases hne : s.value = ""
  · simp [reports, hne]
  · rw [← reports_nil_iff k s hne hb]
    simp only [ne_eq, hne, not_false_eq_true, true_and]
    cases reports k s with
    | nil => simp
    | cons d rest => simp

/-- … inside the rule's output for a workflow the pattern occurs in -/
theorem pattern_reported_iff (w : Workflow) (p : Str × Kind) (hp : p ∈ patternsOf w) (hne : p.1.value ≠ "")
    (hb : NoBOM (symsOf p.1.value)) :
    (∃ e ∈ validateK p.2 (symsOf p.1.value), diagAt p.1 e ∈ ruleGlob w) ↔ ¬ InLangLoose p.2 (symsOf p.1.value) := by
  rw [← validateK_nil_iff p.2 _ hb]
  constructor
  · rintro ⟨e, he, _⟩ h
    rw [h] at he
    cases he
  · intro h
    cases hv : validateK p.2 (symsOf p.1.value) with
    | nil => exact absurd hv h
    | cons e rest =>
      refine ⟨e, List.mem_cons_self .., ?_⟩
      exact (glob_diag_iff w _).2 ⟨p, hp, hne, e, by rw [hv]; exact List.mem_cons_self .., rfl⟩

example : (∃ e ∈ validateK .ref (symsOf "v1 x"), diagAt ⟨"v1 x", true, ⟨3, 16⟩⟩ e ∈ ruleGlob { on := some [.webhook
    { hook := ⟨"push", false, ⟨2, 3⟩⟩, pos := ⟨2, 3⟩, branches := some ⟨⟨"branches", false, ⟨3, 5⟩⟩, some [⟨"v1 x", true, ⟨3, 16⟩⟩]⟩ }] }) ↔
    ¬ InLangLoose .ref (symsOf "v1 x") :=
  pattern_reported_iff _ (⟨"v1 x", true, ⟨3, 16⟩⟩, .ref) (by decide +kernel) (by decide) (by decide +kernel)

/-- **nothing in the documented language is reported** -/
theorem documented_not_reported (k : Kind) (s : Str) (hb : NoBOM (symsOf s.value)) (h : InLang k (symsOf s.value)) :
    reports k s = [] := by
  by_cases hne : s.value = ""
  · simp [reports, hne]
  · exact (reports_nil_iff k s hne hb).2 (inLang_loosen h)

/-- **everything reported is outside the documented language** -/
theorem reported_not_documented (k : Kind) (s : Str) (hb : NoBOM (symsOf s.value)) (d : Diag) (hd : d ∈ reports k s) :
    ¬ InLang k (symsOf s.value) := by
  intro h
  rw [documented_not_reported k s hb h] at hd
  cases hd

example : ¬ InLang .ref (symsOf "v1 x") :=
  reported_not_documented .ref ⟨"v1 x", true, ⟨3, 16⟩⟩ (by decide +kernel) ⟨⟨3, 19⟩, "glob", "glob", ["ref,32,chars"]⟩ (by decide +kernel)

/-- **what is skipped**: the empty string — which is in neither language — gets no diagnostic from this rule -/
theorem empty_pattern_skipped (k : Kind) (s : Str) (h : s.value = "") :
    reports k s = [] ∧ ¬ InLangLoose k (symsOf s.value) ∧ ¬ InLang k (symsOf s.value) := by
  have hn : ¬ InLangLoose k (symsOf s.value) := by rw [h, symsOf_empty]; exact empty_not_inLangLoose k
  exact ⟨by simp [reports, h], hn, fun hl => hn (inLang_loosen hl)⟩

/-- **nothing else is skipped**: a pattern with a `${{ }}` placeholder is validated as written — `${{ x }}` under `branches:`
gets two diagnostics for its two blanks -/
theorem placeholder_not_skipped :
    reports .ref ⟨"${{ x }}", false, ⟨3, 15⟩⟩ =
      [⟨⟨3, 18⟩, "glob", "glob", ["ref,32,chars"]⟩, ⟨⟨3, 20⟩, "glob", "glob", ["ref,32,chars"]⟩] := by decide +kernel

/-- the ideal statement "reported iff not in the DOCUMENTED language" -/
def reported_iff_documented_statement : Prop :=
  ∀ (k : Kind) (s : Str), s.value ≠ "" → NoBOM (symsOf s.value) → (reports k s = [] ↔ InLang k (symsOf s.value))

/-- … is false, for members of `[...]` only (`AL.C17.validate_iff_counterexample_ref`): `[a b]` under `branches:` is not
reported although a ref name cannot contain a blank -/
theorem reported_iff_documented_false : ¬ reported_iff_documented_statement := by
  intro h
  have h1 := (h .ref ⟨"[a b]", false, ⟨1, 1⟩⟩ (by decide) (by decide +kernel)).1 (by decide +kernel)
  have e : symsOf "[a b]" = AL.C17.ascii [91, 97, 32, 98, 93] := by decide +kernel
  simp only [InLang] at h1
  rw [e] at h1
  exact (AL.C17.valid_no_linebreak true _ h1 ⟨32, 1, false⟩ (by decide)).2 rfl (Or.inl rfl)

/-- **the column lies inside the pattern**: the validator's column is at most the number of characters — except for the
trailing-blank report of a path filter, whose column is the BYTE length of the text (`AL.C17.column_le_path`) -/
theorem column_in_pattern (k : Kind) (s : Str) (e : GErr) (he : e ∈ validateK k (symsOf s.value)) :
    e.col ≤ (symsOf s.value).length ∨ (k = .path ∧ e = ⟨((symsOf s.value).map (·.w)).sum, .trailingSpace⟩) := by
  cases k with
  | ref => exact Or.inl (AL.C17.column_le_ref _ e he)
  | path =>
    rcases AL.C17.column_le_path _ e he with h | h
    · exact Or.inl h
    · exact Or.inr ⟨rfl, h⟩

example : (⟨3, .invalidRef (some 32) .chars⟩ : GErr).col ≤ (symsOf "v1 x").length ∨
    (Kind.ref = .path ∧ (⟨3, .invalidRef (some 32) .chars⟩ : GErr) = ⟨((symsOf "v1 x").map (·.w)).sum, .trailingSpace⟩) :=
  column_in_pattern .ref ⟨"v1 x", true, ⟨3, 16⟩⟩ ⟨3, .invalidRef (some 32) .chars⟩ (by decide +kernel)

/-- **the offending character**: when the message names a character and the validator's column is not the fallback 0, the
diagnostic sits `e.col - 1` columns after the first character of the text (the string's column, + 1 for an opening quote),
and character number `e.col - 1` of the text IS the named character -/
theorem offending_char (k : Kind) (s : Str) (e : GErr) (he : e ∈ validateK k (symsOf s.value)) (ch : Nat)
    (hn : namedChar e.msg = some ch) (h0 : e.col ≠ 0) :
    (diagAt s e).pos = ⟨s.pos.line, s.pos.col + (if s.quoted then 1 else 0) + (e.col - 1)⟩ ∧
    ((symsOf s.value)[e.col - 1]?).map (·.r) = some ch := by
  refine ⟨rfl, ?_⟩
  cases k with
  | ref => exact AL.C17.named_char true _ (symsOf_posW _) e he ch hn h0
  | path =>
    simp only [validateK, validatePath] at he
    split at he
    · simp only [List.mem_singleton] at he; subst he; cases hn
    · split at he
      · simp only [List.mem_singleton] at he; subst he; cases hn
      · exact AL.C17.named_char false _ (symsOf_posW _) e he ch hn h0

/-- `"v1 x"` (quoted, at 3:16) under `branches:`: the blank is character number 2 of the text, reported at 16 + 1 + 2 -/
example : (diagAt ⟨"v1 x", true, ⟨3, 16⟩⟩ ⟨3, .invalidRef (some 32) .chars⟩).pos = ⟨3, 16 + 1 + 2⟩ ∧
    ((symsOf "v1 x")[2]?).map (·.r) = some 32 :=
  offending_char .ref ⟨"v1 x", true, ⟨3, 16⟩⟩ ⟨3, .invalidRef (some 32) .chars⟩ (by decide +kernel) 32 rfl (by decide)

/-! ### the characters of the text -/

/-- **the characters the validator reads are the characters of the text**, one per `Char`: its code point, the width of its
UTF-8 encoding, never an invalid byte (Lean's encoder followed by the model of Go's `utf8.DecodeRune` is the identity) -/
theorem pattern_chars (s : String) : symsOf s = s.toList.map symOfChar := symsOf_chars s

/-- columns and lengths count characters of the text -/
theorem pattern_length (s : String) : (symsOf s).length = s.length := by
  rw [symsOf_chars, List.length_map, String.length_toList]

/-- `NoBOM`: the text does not start with U+FEFF -/
theorem noBOM_iff (s : String) : NoBOM (symsOf s) ↔ s.toList.head?.map Char.toNat ≠ some 0xFEFF := by
  unfold NoBOM
  rw [symsOf_chars, List.head?_map, Option.map_map]
  rfl

example : NoBOM (symsOf "v1 x") := (noBOM_iff "v1 x").2 (by decide)

/-- `column_in_pattern` on the text: the validator's column is at most the number of characters of the text, except for the
trailing-blank report of a path filter (which counts bytes) -/
theorem column_in_text (k : Kind) (s : Str) (e : GErr) (he : e ∈ validateK k (symsOf s.value)) :
    e.col ≤ s.value.length ∨ (k = .path ∧ e.msg = .trailingSpace) := by
  rcases column_in_pattern k s e he with h | ⟨h1, h2⟩
  · rw [pattern_length] at h; exact Or.inl h
  · exact Or.inr ⟨h1, by rw [h2]⟩

example : (⟨3, .invalidRef (some 32) .chars⟩ : GErr).col ≤ "v1 x".length ∨
    (Kind.ref = .path ∧ (⟨3, .invalidRef (some 32) .chars⟩ : GErr).msg = .trailingSpace) :=
  column_in_text .ref ⟨"v1 x", true, ⟨3, 16⟩⟩ ⟨3, .invalidRef (some 32) .chars⟩ (by decide +kernel)

/-- **`offending_char` on the text**: character number `e.col - 1` of the string IS the character the message names -/
theorem offending_char_text (k : Kind) (s : Str) (e : GErr) (he : e ∈ validateK k (symsOf s.value)) (ch : Nat)
    (hn : namedChar e.msg = some ch) (h0 : e.col ≠ 0) : (s.value.toList[e.col - 1]?).map Char.toNat = some ch := by
  have := (offending_char k s e he ch hn h0).2
  rw [symsOf_chars, List.getElem?_map, Option.map_map] at this
  exact this

example : ("v1 x".toList[2]?).map Char.toNat = some 32 :=
  offending_char_text .ref ⟨"v1 x", true, ⟨3, 16⟩⟩ ⟨3, .invalidRef (some 32) .chars⟩ (by decide +kernel) 32 rfl (by decide)

/-! ## 2. from the document -/

/-- the string the parser makes of a filter pattern written in the document: text, quoting, position of the scalar -/
def docStr (p : Node × Kind) : Str × Kind := (newString p.1, p.2)

theorem reports_strOf (k : Kind) (c : Node) : reports k (strOf c) = if c.kind = .scalar then reports k (newString c) else [] := by
  by_cases hk : c.kind = .scalar
  · by_cases hv : c.value = ""
    · have : (strOf c).value = "" := by simp [strOf, parseString, checkString, hk, hv]
      simp [reports, this, hk, hv, newString]
    · rw [strOf_scalar c hk hv]; simp [hk]
  · have : (strOf c).value = "" := by simp [strOf, parseString, checkString, hk]
    simp [reports, this, hk]

/-- **the pattern strings of the AST are the items written under `on.<event>.<filter>`** (the value when it is a scalar, the
elements when it is a sequence), in order, with the kind of the filter key, each as `parseString` reads it (`strOf`: the
scalar's text, quoting and position; the empty string for an empty scalar or a non-scalar). Needs the HEADERS of the workflow
mapping, of `on:` and of the events only. -/
theorem patterns_written (cfg : Cfg) (doc : Node) (h : HeadersClean cfg doc) :
    patternsOf (parse cfg doc).1 = (docFilterItems doc).map fun p => (strOf p.1, p.2) := parse_patterns cfg doc h

/-- … hence **the non-empty pattern strings of the AST are exactly the non-empty scalars written there** -/
theorem patterns_written_nonempty (cfg : Cfg) (doc : Node) (h : HeadersClean cfg doc) :
    (patternsOf (parse cfg doc).1).filter (fun p => p.1.value ≠ "") =
      ((docFilterPatterns doc).filter fun p => p.1.value ≠ "").map docStr := by
  rw [patterns_written cfg doc h, docFilterPatterns, List.filter_filter]
  generalize docFilterItems doc = l
  induction l with
  | nil => rfl
  | cons x rest ih =>
    simp only [List.map_cons]
    by_cases hx : (strOf x.1).value = ""
    · have : ¬ (x.1.value ≠ "" ∧ x.1.kind = .scalar) := by
        rintro ⟨hv, hk⟩
        rw [strOf_scalar x.1 hk hv] at hx
        exact hv hx
      rw [List.filter_cons_of_neg (by simpa using hx), List.filter_cons_of_neg (by simpa using this), ih]
    · obtain ⟨hk, hv, e⟩ := strOf_value_ne x.1 hx
      rw [List.filter_cons_of_pos (by simpa using hx), List.filter_cons_of_pos (by simp [hk, hv]), ih, List.map_cons, docStr, e]

/-- **for a document the parser accepts without a diagnostic**: every item under a filter key is a non-empty scalar, and the
pattern strings of the AST are these scalars -/
theorem patterns_written_clean (cfg : Cfg) (doc : Node) (h : (parse cfg doc).2 = []) :
    patternsOf (parse cfg doc).1 = (docFilterPatterns doc).map docStr ∧
    docFilterPatterns doc = docFilterItems doc ∧ ∀ p ∈ docFilterPatterns doc, p.1.value ≠ "" := by
  obtain ⟨hh, hc⟩ := clean_headers cfg doc h
  have hall : ∀ p ∈ docFilterItems doc, p.1.kind = .scalar ∧ p.1.value ≠ "" ∧ strOf p.1 = newString p.1 :=
    fun p hp => strOf_clean p.1 (hc p hp)
  have he : docFilterPatterns doc = docFilterItems doc := by
    unfold docFilterPatterns
    rw [List.filter_eq_self]
    intro p hp
    simp [(hall p hp).1]
  refine ⟨?_, he, fun p hp => (hall p (he ▸ hp)).2.1⟩
  rw [patterns_written cfg doc hh, he]
  apply List.map_congr_left
  intro p hp
  simp only [docStr, (hall p hp).2.2]

/-- **every filter pattern written in the document is a pattern string of the AST of the right kind, and conversely** -/
theorem pattern_mem_iff (cfg : Cfg) (doc : Node) (h : (parse cfg doc).2 = []) (s : Str) (k : Kind) :
    (s, k) ∈ patternsOf (parse cfg doc).1 ↔ ∃ n, (n, k) ∈ docFilterPatterns doc ∧ s = newString n := by
  rw [(patterns_written_clean cfg doc h).1, List.mem_map]
  constructor
  · rintro ⟨p, hp, e⟩
    simp only [docStr, Prod.mk.injEq] at e
    obtain ⟨rfl, rfl⟩ := e
    exact ⟨p.1, hp, rfl⟩
  · rintro ⟨n, hn, rfl⟩
    exact ⟨(n, k), hn, rfl⟩

/-- **the glob diagnostics of a document**: for every filter pattern written in it, in order, what `reports` says about the
scalar's text at the scalar's position. Needs the headers only: whatever else the parser reports — about `jobs:`, about the
other keys, about empty or non-scalar items of the filters themselves — changes nothing. -/
theorem doc_glob_diags_exact (cfg : Cfg) (doc : Node) (h : HeadersClean cfg doc) :
    ruleGlob (parse cfg doc).1 = (docFilterPatterns doc).flatMap fun p => reports p.2 (newString p.1) := by
  rw [glob_diags_exact, patterns_written cfg doc h, docFilterPatterns]
  generalize docFilterItems doc = l
  induction l with
  | nil => rfl
  | cons x rest ih =>
    simp only [List.map_cons, List.flatMap_cons, List.filter_cons, ih, reports_strOf]
    by_cases hk : x.1.kind = .scalar
    · simp [hk]
    · simp [hk]

/-- … for a document the parser accepts -/
theorem doc_glob_diags_exact_clean (cfg : Cfg) (doc : Node) (h : (parse cfg doc).2 = []) :
    ruleGlob (parse cfg doc).1 = (docFilterPatterns doc).flatMap fun p => reports p.2 (newString p.1) :=
  doc_glob_diags_exact cfg doc (clean_headers cfg doc h).1

/-- … in the "or the parser reports" form -/
theorem doc_glob_diags_exact_or (cfg : Cfg) (doc : Node) :
    (parse cfg doc).2 ≠ [] ∨ ruleGlob (parse cfg doc).1 = (docFilterPatterns doc).flatMap fun p => reports p.2 (newString p.1) :=
  AL.C03P.or_of_clean (doc_glob_diags_exact_clean cfg doc)

/-- … from the condition on the document alone (`DocHeaders`, decidable) -/
theorem doc_glob_diags_exact_of_doc (cfg : Cfg) (doc : Node) (h : DocHeaders doc) :
    ruleGlob (parse cfg doc).1 = (docFilterPatterns doc).flatMap fun p => reports p.2 (newString p.1) :=
  doc_glob_diags_exact cfg doc (docHeaders_clean cfg doc h)

/-- the column at which character number `i` of a scalar's text stands when the scalar is written on one line, plain or
quoted without escape sequences: the scalar's column, + 1 for the opening quote, + `i` -/
def writtenCol (n : Node) (i : Nat) : Nat := n.col + (if n.quoted then 1 else 0) + i

/-- the diagnostic for the validator's message `e` about the scalar `n` -/
def docDiag (n : Node) (e : GErr) : Diag := ⟨⟨n.line, writtenCol n (e.col - 1)⟩, "glob", "glob", [globCode e.msg]⟩

theorem diagAt_newString (n : Node) (e : GErr) : diagAt (newString n) e = docDiag n e := rfl

/-- **a glob diagnostic of the document is**: for a non-empty filter pattern written in it and a message of the validator of
its kind about its text, the diagnostic on the scalar's own line, at the column of character number `k - 1` of the text -/
theorem doc_glob_diag_iff (cfg : Cfg) (doc : Node) (h : HeadersClean cfg doc) (d : Diag) :
    d ∈ ruleGlob (parse cfg doc).1 ↔
      ∃ p ∈ docFilterPatterns doc, p.1.value ≠ "" ∧ ∃ e ∈ validateK p.2 (symsOf p.1.value), d = docDiag p.1 e := by
  rw [doc_glob_diags_exact cfg doc h, List.mem_flatMap]
  constructor
  · rintro ⟨p, hp, hd⟩
    by_cases hne : (newString p.1).value = ""
    · simp [reports, hne] at hd
    · simp only [reports, hne, if_false] at hd
      obtain ⟨e, he, rfl⟩ := List.mem_map.1 hd
      exact ⟨p, hp, hne, e, he, rfl⟩
  · rintro ⟨p, hp, hne, e, he, rfl⟩
    refine ⟨p, hp, ?_⟩
    have : (newString p.1).value ≠ "" := hne
    simp only [reports, this, if_false]
    exact List.mem_map.2 ⟨e, he, rfl⟩

/-- **a filter pattern written in the document is reported iff it is NOT in the language** (the language the validator
decides; `documented`: see the next two) -/
theorem doc_pattern_reported_iff (cfg : Cfg) (doc : Node) (h : HeadersClean cfg doc) (p : Node × Kind)
    (hp : p ∈ docFilterPatterns doc) (hne : p.1.value ≠ "") (hb : NoBOM (symsOf p.1.value)) :
    (∃ e ∈ validateK p.2 (symsOf p.1.value), docDiag p.1 e ∈ ruleGlob (parse cfg doc).1) ↔
      ¬ InLangLoose p.2 (symsOf p.1.value) := by
  rw [← validateK_nil_iff p.2 _ hb]
  constructor
  · rintro ⟨e, he, _⟩ hv
    rw [hv] at he
    cases he
  · intro hv
    cases hv' : validateK p.2 (symsOf p.1.value) with
    | nil => exact absurd hv' hv
    | cons e rest =>
      refine ⟨e, List.mem_cons_self .., ?_⟩
      exact (doc_glob_diag_iff cfg doc h _).2 ⟨p, hp, hne, e, by rw [hv']; exact List.mem_cons_self .., rfl⟩

/-- **a filter pattern of the documented language is never reported**: no glob diagnostic of the document belongs to it -/
theorem doc_documented_not_reported (p : Node × Kind) (hb : NoBOM (symsOf p.1.value)) (hl : InLang p.2 (symsOf p.1.value)) :
    reports p.2 (newString p.1) = [] :=
  documented_not_reported p.2 (newString p.1) hb hl

/-- **the offending character, in the document**: when the message names a character (and the validator's column is not the
fallback 0), the diagnostic is on the scalar's line at the column where character number `e.col - 1` of its text is written
(scalar on one line, plain or quoted without escape sequences), and that character is the named one -/
theorem doc_offending_char (p : Node × Kind) (e : GErr) (he : e ∈ validateK p.2 (symsOf p.1.value)) (ch : Nat)
    (hn : namedChar e.msg = some ch) (h0 : e.col ≠ 0) :
    (docDiag p.1 e).pos = ⟨p.1.line, writtenCol p.1 (e.col - 1)⟩ ∧ (p.1.value.toList[e.col - 1]?).map Char.toNat = some ch :=
  ⟨rfl, offending_char_text p.2 (newString p.1) e he ch hn h0⟩

/-- **the items the rule skips are reported by the parser**: an empty scalar (`string-empty`) or a non-scalar
(`not-scalar-string`) written under a filter key, at its own position -/
theorem empty_pattern_parser_reports (c : Node) (h : (strOf c).value = "") :
    (c.kind = .scalar ∧ c.value = "" ∧ (parseString c false).2 = [⟨c.pos, "string-empty", []⟩]) ∨
    (c.kind ≠ .scalar ∧ (parseString c false).2 = [⟨c.pos, "not-scalar-string", [c.kind.name, c.tag]⟩]) := by
  by_cases hk : c.kind = .scalar
  · by_cases hv : c.value = ""
    · exact Or.inl ⟨hk, hv, by simp [parseString, checkString, hk, hv, errAt]⟩
    · rw [strOf_scalar c hk hv] at h
      exact absurd h hv
  · exact Or.inr ⟨hk, by simp [parseString, checkString, hk, errAt]⟩

/-! ## 3. independence -/

/-- **the glob diagnostics depend on the filter patterns only**: two workflows with the same patterns get the same ones -/
theorem glob_independent_ast (w w' : Workflow) (h : patternsOf w = patternsOf w') : ruleGlob w = ruleGlob w' := by
  rw [glob_diags_exact, glob_diags_exact, h]

/-- the jobs, the name, `env`, `permissions`, `defaults`, `concurrency` in particular do not matter -/
theorem glob_independent_of_rest (w : Workflow) (name runName : Option Str) (perms : Option Permissions) (env : Option Env)
    (dflt : Option Defaults) (conc : Option Concurrency) (jobs : Option (List (String × Job))) :
    ruleGlob { w with name := name, runName := runName, permissions := perms, env := env, defaults := dflt,
                      concurrency := conc, jobs := jobs } = ruleGlob w := rfl

/-- **two documents in which the same filter patterns are written get the same glob diagnostics** — whatever their jobs,
their other keys, their other events, and whatever the parser is configured with or reports about the rest -/
theorem glob_independent_doc (cfg cfg' : Cfg) (doc doc' : Node) (h : HeadersClean cfg doc) (h' : HeadersClean cfg' doc')
    (he : docFilterPatterns doc = docFilterPatterns doc') : ruleGlob (parse cfg doc).1 = ruleGlob (parse cfg' doc').1 := by
  rw [doc_glob_diags_exact cfg doc h, doc_glob_diags_exact cfg' doc' h', he]

/-- the filter patterns of a document are read from the node under `on:` alone -/
theorem glob_independent_of_on (doc doc' : Node) (h : docOn doc = docOn doc') : docFilterPatterns doc = docFilterPatterns doc' := by
  unfold docFilterPatterns docFilterItems docEvents
  rw [h]

/-- the scalars under the six filter keys of one event node -/
def eventPatternNodes (ev : Node) : List (Node × Kind) := (itemsOfEvent ev).filter fun p => p.1.kind = .scalar

/-- **event by event**: the glob diagnostics are the concatenation, over the webhook events of `on:` in order, of what is
reported about the patterns written under THAT event — the other events contribute nothing to it -/
theorem doc_glob_per_event (cfg : Cfg) (doc : Node) (h : HeadersClean cfg doc) :
    ruleGlob (parse cfg doc).1 =
      (docEvents doc).flatMap fun ev => (eventPatternNodes ev.2).flatMap fun p => reports p.2 (newString p.1) := by
  rw [doc_glob_diags_exact cfg doc h, docFilterPatterns, docFilterItems]
  generalize docEvents doc = l
  induction l with
  | nil => rfl
  | cons x rest ih => simp only [List.flatMap_cons, List.filter_append, List.flatMap_append, ih, eventPatternNodes]

/-- `on:` not written as a mapping (`on: push`, `on: [push, pull_request]`), or without a webhook event: no filter pattern,
no glob diagnostic -/
theorem glob_no_filters (cfg : Cfg) (doc : Node) (h : HeadersClean cfg doc) (hn : docEvents doc = []) :
    ruleGlob (parse cfg doc).1 = [] := by
  rw [doc_glob_per_event cfg doc h, hn]
  rfl

/-! ### … inside the whole-file model -/

open AL.C09C (KindIs kindIs_map filter_stableSort kind_glob kind_matrix kind_credentials kind_shellName kind_runnerLabel kind_jobNeeds
  kind_action kind_envVar kind_id kind_permissions kind_workflowCall kind_deprecated kind_ifCond kind_wcRule kind_projAction)

/-- **of all the rules only rule glob reports under the kind `glob`** -/
theorem rules_glob_exact (lower : String → String) (isNum urlOk : String → Bool) (w : Workflow) (lc : LabelCfg) :
    (rules lower isNum urlOk w lc).filter isGlob = ruleGlob w := by
  unfold rules
  simp only [List.filter_append, filter_glob_self (kind_glob w),
    filter_glob_other (by decide) (kind_matrix w), filter_glob_other (by decide) (kind_credentials w),
    filter_glob_other (by decide) (kind_shellName lower w), filter_glob_other (by decide) (kind_runnerLabel lower w lc),
    filter_glob_other (by decide) (kind_events lower isNum w lc), filter_glob_other (by decide) (kind_jobNeeds lower w),
    filter_glob_other (by decide) (kind_action urlOk w), filter_glob_other (by decide) (kind_envVar w),
    filter_glob_other (by decide) (kind_id lower w), filter_glob_other (by decide) (kind_permissions w),
    filter_glob_other (by decide) (kind_workflowCall w), filter_glob_other (by decide) (kind_deprecated w),
    filter_glob_other (by decide) (kind_ifCond w), List.append_nil, List.nil_append]

/-- **the glob diagnostics in the output of the whole-file model** (parser, all rules, the sort): those of rule glob on the AST
the parser builds, stably sorted by position -/
theorem lint_glob_exact (cfg : AL.PW.Cfg) (isNum urlOk : String → Bool) (doc : Node) (lc : LabelCfg) :
    (lint cfg isNum urlOk doc lc).filter isGlob = stableSort (ruleGlob (AL.PW.parse cfg doc).1) := by
  unfold lint
  simp only [filter_stableSort, List.filter_append, rules_glob_exact]
  have : ((AL.PW.parse cfg doc).2.map ofPErr).filter isGlob = [] :=
    filter_glob_other (k := "syntax-check") (by decide) (kindIs_map fun _ => rfl)
  rw [this, List.nil_append]

/-- the same inside a project -/
theorem projLint_glob_exact (cfg : AL.PW.Cfg) (isNum urlOk : String → Bool) (env : AL.ProjLint.Env) (doc : Node) :
    (AL.ProjLint.lint cfg isNum urlOk env doc).filter isGlob = stableSort (ruleGlob (AL.PW.parse cfg doc).1) := by
  unfold AL.ProjLint.lint
  simp only [filter_stableSort, List.filter_append, rules_glob_exact,
    filter_glob_other (by decide) (kind_wcRule env.calls cfg.lower _),
    filter_glob_other (by decide) (kind_projAction env.actions _), List.append_nil]
  have : ((AL.PW.parse cfg doc).2.map ofPErr).filter isGlob = [] :=
    filter_glob_other (k := "syntax-check") (by decide) (kindIs_map fun _ => rfl)
  rw [this, List.nil_append]


/-- **the glob diagnostics in the output for a document**: what `reports` says about the filter patterns written in it,
stably sorted by position — a function of `docFilterPatterns doc` alone -/
theorem doc_lint_glob_exact (cfg : Cfg) (isNum urlOk : String → Bool) (doc : Node) (lc : LabelCfg) (h : HeadersClean cfg doc) :
    (lint cfg isNum urlOk doc lc).filter isGlob =
      stableSort ((docFilterPatterns doc).flatMap fun p => reports p.2 (newString p.1)) := by
  rw [lint_glob_exact, doc_glob_diags_exact cfg doc h]

/-- **independence, in the output**: two documents in which the same filter patterns are written get the same glob
diagnostics, in the same order — whatever their jobs and other keys, whatever the parser and the other rules report, and
whatever the other rules are told (`lower`, `atoi`, `parseFloat`, `isNum`, `urlOk`, the runner labels of the configuration) -/
theorem lint_glob_independent (cfg cfg' : Cfg) (isNum isNum' urlOk urlOk' : String → Bool) (doc doc' : Node) (lc lc' : LabelCfg)
    (h : HeadersClean cfg doc) (h' : HeadersClean cfg' doc') (he : docFilterPatterns doc = docFilterPatterns doc') :
    (lint cfg isNum urlOk doc lc).filter isGlob = (lint cfg' isNum' urlOk' doc' lc').filter isGlob := by
  rw [doc_lint_glob_exact cfg isNum urlOk doc lc h, doc_lint_glob_exact cfg' isNum' urlOk' doc' lc' h', he]

/-- **every diagnostic about a filter pattern written in the document is in the output** -/
theorem doc_pattern_diag_in_lint (cfg : Cfg) (isNum urlOk : String → Bool) (doc : Node) (lc : LabelCfg) (h : HeadersClean cfg doc)
    (p : Node × Kind) (hp : p ∈ docFilterPatterns doc) (hne : p.1.value ≠ "") (e : GErr) (he : e ∈ validateK p.2 (symsOf p.1.value)) :
    docDiag p.1 e ∈ lint cfg isNum urlOk doc lc := by
  have h1 : docDiag p.1 e ∈ stableSort (ruleGlob (parse cfg doc).1) :=
    (AL.C09R.stableSort_perm _).mem_iff.2 ((doc_glob_diag_iff cfg doc h _).2 ⟨p, hp, hne, e, he, rfl⟩)
  rw [← lint_glob_exact cfg isNum urlOk doc lc] at h1
  exact (List.mem_filter.1 h1).1

/-- … and every glob diagnostic of the output is about a filter pattern written in the document -/
theorem lint_glob_diag_written (cfg : Cfg) (isNum urlOk : String → Bool) (doc : Node) (lc : LabelCfg) (h : HeadersClean cfg doc)
    (d : Diag) (hd : d ∈ lint cfg isNum urlOk doc lc) (hk : d.kind = "glob") :
    ∃ p ∈ docFilterPatterns doc, p.1.value ≠ "" ∧ ∃ e ∈ validateK p.2 (symsOf p.1.value), d = docDiag p.1 e := by
  have h1 : d ∈ (lint cfg isNum urlOk doc lc).filter isGlob := List.mem_filter.2 ⟨hd, by simp [isGlob, hk]⟩
  rw [lint_glob_exact] at h1
  exact (doc_glob_diag_iff cfg doc h d).1 ((AL.C09R.stableSort_perm _).mem_iff.1 h1)

/-! ## 4. a concrete document -/

section Example

def exCfg : Cfg := ⟨asciiLower, fun _ => none, fun _ => .err⟩
private def sc (v : String) (l c : Nat) : Node := .mk .scalar "!!str" v false l c []
private def qs (v : String) (l c : Nat) : Node := .mk .scalar "!!str" v true l c []
private def nul (l c : Nat) : Node := .mk .scalar "!!null" "" false l c []
private def mp (l c : Nat) (cs : List Node) : Node := .mk .mapping "!!map" "" false l c cs
private def sq (l c : Nat) (cs : List Node) : Node := .mk .sequence "!!seq" "" false l c cs

/-- lines 2–11 of the document below -/
def exOn : Node :=
  mp 2 3 [
    sc "push" 2 3, mp 3 5 [
      sc "branches" 3 5, sq 3 15 [sc "main" 3 16, qs "release/**" 3 22, qs "v1 x" 3 36],
      sc "tags-ignore" 4 5, sc "v[0-9]+.*" 4 18,
      sc "paths" 5 5, sq 6 7 [qs "docs/**" 6 9, qs "src/[z-a].c" 7 9]],
    sc "pull_request" 8 3, mp 9 5 [
      sc "paths-ignore" 9 5, qs "**.md " 9 19,
      sc "branches" 10 5, sc "/main" 10 15],
    sc "workflow_dispatch" 11 3, nul 11 21]

def exJobs : Node := mp 13 3 [sc "b" 13 3, mp 14 5 [sc "runs-on" 14 5, sc "ubuntu-latest" 14 14,
  sc "steps" 15 5, sq 16 7 [mp 16 9 [sc "run" 16 9, sc "make" 16 14]]]]

/--
```
 1 on:
 2   push:
 3     branches: [main, 'release/**', "v1 x"]
 4     tags-ignore: v[0-9]+.*
 5     paths:
 6       - 'docs/**'
 7       - "src/[z-a].c"
 8   pull_request:
 9     paths-ignore: '**.md '
10     branches: /main
11   workflow_dispatch:
12 jobs:
13   b:
14     runs-on: ubuntu-latest
15     steps:
16       - run: make
```
-/
def exDoc : Node := .mk .document "" "" false 1 1 [mp 1 1 [sc "on" 1 1, exOn, sc "jobs" 12 1, exJobs]]

theorem exDoc_clean : (parse exCfg exDoc).2 = [] := by decide +kernel
theorem exDoc_headers : DocHeaders exDoc := by decide +kernel

/-- the eight filter patterns written in it, with their kinds (within an event in the order of the filter keys) -/
theorem exDoc_patterns : docFilterPatterns exDoc =
    [(sc "main" 3 16, .ref), (qs "release/**" 3 22, .ref), (qs "v1 x" 3 36, .ref), (sc "v[0-9]+.*" 4 18, .ref),
     (qs "docs/**" 6 9, .path), (qs "src/[z-a].c" 7 9, .path), (sc "/main" 10 15, .ref), (qs "**.md " 9 19, .path)] := by
  rfl

/-- **the four invalid ones are reported, each on its own line at the offending character**: the blank of `"v1 x"` (quoted at
3:36: 36 + 1 + 2), the `a` of the descending range in `"src/[z-a].c"` (quoted at 7:9: 9 + 1 + 7), the leading `/` of the
plain `/main` (10:15), the trailing blank of `'**.md '` (quoted at 9:19: 19 + 1 + 5); the four valid ones — plain `main`,
plain `v[0-9]+.*`, quoted `'release/**'`, quoted `'docs/**'` — are not -/
theorem exDoc_glob : ruleGlob (parse exCfg exDoc).1 =
    [⟨⟨3, 39⟩, "glob", "glob", ["ref,32,chars"]⟩, ⟨⟨7, 17⟩, "glob", "glob", ["unexp,97,cr,range:122:97"]⟩,
     ⟨⟨10, 15⟩, "glob", "glob", ["ref,47,start"]⟩, ⟨⟨9, 25⟩, "glob", "glob", ["trail"]⟩] := by decide +kernel

/-- in the output: sorted by position -/
example : (lint exCfg (fun _ => false) (fun _ => true) exDoc).filter isGlob =
    [⟨⟨3, 39⟩, "glob", "glob", ["ref,32,chars"]⟩, ⟨⟨7, 17⟩, "glob", "glob", ["unexp,97,cr,range:122:97"]⟩,
     ⟨⟨9, 25⟩, "glob", "glob", ["trail"]⟩, ⟨⟨10, 15⟩, "glob", "glob", ["ref,47,start"]⟩] := by
  rw [lint_glob_exact, exDoc_glob]
  decide +kernel

/-- the per-pattern verdicts: the valid ones are in the (loose) language, the invalid ones are not -/
example : reports .ref (newString (sc "main" 3 16)) = [] ∧ reports .ref (newString (qs "release/**" 3 22)) = [] ∧
    reports .ref (newString (sc "v[0-9]+.*" 4 18)) = [] ∧ reports .path (newString (qs "docs/**" 6 9)) = [] ∧
    reports .ref (newString (qs "v1 x" 3 36)) = [⟨⟨3, 39⟩, "glob", "glob", ["ref,32,chars"]⟩] ∧
    reports .path (newString (qs "**.md " 9 19)) = [⟨⟨9, 25⟩, "glob", "glob", ["trail"]⟩] := by
  refine ⟨?_, ?_, ?_, ?_, ?_, ?_⟩ <;> decide +kernel

example : InLangLoose .ref (symsOf "v[0-9]+.*") :=
  (reports_nil_iff .ref (newString (sc "v[0-9]+.*" 4 18)) (by decide) (by decide +kernel)).1 (by decide +kernel)

example : ¬ InLangLoose .path (symsOf "src/[z-a].c") :=
  ((reported_iff .path (newString (qs "src/[z-a].c" 7 9)) (by decide +kernel)).1
    ⟨⟨⟨7, 17⟩, "glob", "glob", ["unexp,97,cr,range:122:97"]⟩, by decide +kernel⟩).2

example : reports .ref (newString (qs "release/**" 3 22)) = [] ↔ InLangLoose .ref (symsOf "release/**") :=
  reports_nil_iff .ref _ (by decide) (by decide +kernel)

/-- `main` is in the documented ref language (four ordinary characters, no `/` first, no `/` or `.` last) … -/
theorem main_documented : InLang .ref (symsOf "main") := by
  have e : symsOf "main" = AL.C17.ascii [109, 97, 105, 110] := by decide +kernel
  rw [e]
  have hb : body (AL.C17.ascii [109, 97, 105, 110]) = AL.C17.ascii [109, 97, 105, 110] := by simp [body, AL.C17.ascii]
  have ho : ∀ r, r = 109 ∨ r = 97 ∨ r = 105 ∨ r = 110 → Ordinary true ⟨r, 1, false⟩ := by
    intro r hr
    unfold Ordinary LineBreak RefInvalid
    rcases hr with rfl | rfl | rfl | rfl <;> simp
  refine ⟨?_, by rw [hb]; simp [AL.C17.ascii], ?_, fun _ => by simp [RefEnds, AL.C17.ascii]⟩
  · intro c hc
    simp only [AL.C17.ascii, List.map_cons, List.map_nil, List.mem_cons, List.not_mem_nil, or_false] at hc
    rcases hc with rfl | rfl | rfl | rfl <;> exact ⟨rfl, by decide⟩
  · rw [hb]
    exact .ord _ _ _ (ho 109 (by simp)) (.ord _ _ _ (ho 97 (by simp)) (.ord _ _ _ (ho 105 (by simp)) (.ord _ _ _ (ho 110 (by simp)) (.nil _))))

/-- … hence not reported, wherever it is written -/
example : reports .ref (newString (sc "main" 3 16)) = [] :=
  doc_documented_not_reported (sc "main" 3 16, .ref) (by decide +kernel) main_documented

example : reports .ref ⟨"main", false, ⟨3, 16⟩⟩ = [] := documented_not_reported .ref _ (by decide +kernel) main_documented

example : reports .ref ⟨"", true, ⟨3, 12⟩⟩ = [] ∧ ¬ InLangLoose .ref (symsOf "") ∧ ¬ InLang .ref (symsOf "") :=
  empty_pattern_skipped .ref ⟨"", true, ⟨3, 12⟩⟩ rfl

/-- the AST of `exDoc` without its jobs gets the same glob diagnostics -/
example : ruleGlob { on := (parse exCfg exDoc).1.on } = ruleGlob (parse exCfg exDoc).1 :=
  glob_independent_ast _ _ rfl

/-- a glob diagnostic of the output is about a pattern written in the document -/
example : ∃ p ∈ docFilterPatterns exDoc, p.1.value ≠ "" ∧ ∃ e ∈ validateK p.2 (symsOf p.1.value),
    docDiag (qs "v1 x" 3 36) ⟨3, .invalidRef (some 32) .chars⟩ = docDiag p.1 e :=
  lint_glob_diag_written exCfg (fun _ => false) (fun _ => true) exDoc {} (docHeaders_clean _ _ exDoc_headers) _
    (doc_pattern_diag_in_lint exCfg _ _ exDoc {} (docHeaders_clean _ _ exDoc_headers) (qs "v1 x" 3 36, .ref)
      (by rw [exDoc_patterns]; simp) (by decide) _ (by decide +kernel)) rfl

/-! instances of the theorems of §2 and §3 on `exDoc` -/

example : patternsOf (parse exCfg exDoc).1 = (docFilterItems exDoc).map fun p => (strOf p.1, p.2) :=
  patterns_written exCfg exDoc (docHeaders_clean _ _ exDoc_headers)

example : (patternsOf (parse exCfg exDoc).1).filter (fun p => p.1.value ≠ "") =
    ((docFilterPatterns exDoc).filter fun p => p.1.value ≠ "").map docStr :=
  patterns_written_nonempty exCfg exDoc (clean_headers _ _ exDoc_clean).1

example : patternsOf (parse exCfg exDoc).1 = (docFilterPatterns exDoc).map docStr := (patterns_written_clean exCfg exDoc exDoc_clean).1

example : (⟨"v1 x", true, ⟨3, 36⟩⟩, Kind.ref) ∈ patternsOf (parse exCfg exDoc).1 :=
  (pattern_mem_iff exCfg exDoc exDoc_clean _ _).2 ⟨qs "v1 x" 3 36, by rw [exDoc_patterns]; simp, rfl⟩

example : ruleGlob (parse exCfg exDoc).1 = (docFilterPatterns exDoc).flatMap fun p => reports p.2 (newString p.1) :=
  doc_glob_diags_exact_of_doc exCfg exDoc exDoc_headers

example : ruleGlob (parse exCfg exDoc).1 = (docFilterPatterns exDoc).flatMap fun p => reports p.2 (newString p.1) :=
  doc_glob_diags_exact_clean exCfg exDoc exDoc_clean

example : (⟨⟨7, 17⟩, "glob", "glob", ["unexp,97,cr,range:122:97"]⟩ : Diag) ∈ ruleGlob (parse exCfg exDoc).1 :=
  (doc_glob_diag_iff exCfg exDoc (docHeaders_clean _ _ exDoc_headers) _).2
    ⟨(qs "src/[z-a].c" 7 9, .path), by rw [exDoc_patterns]; simp, by decide,
      ⟨8, .unexpected (some 97) .range (.badRange 122 97)⟩, by decide +kernel, by decide +kernel⟩

/-- `"v1 x"` is reported, hence not in the language; `'release/**'` is in the documented language, hence not reported -/
example : ¬ InLangLoose .ref (symsOf "v1 x") :=
  (doc_pattern_reported_iff exCfg exDoc (docHeaders_clean _ _ exDoc_headers) (qs "v1 x" 3 36, .ref)
    (by rw [exDoc_patterns]; simp) (by decide) (by decide +kernel)).1
    ⟨⟨3, .invalidRef (some 32) .chars⟩, by decide +kernel, by rw [exDoc_glob]; decide +kernel⟩

/-- the named character of the report about `"src/[z-a].c"` is its character number 7, written at column 9 + 1 + 7 -/
example : (docDiag (qs "src/[z-a].c" 7 9) ⟨8, .unexpected (some 97) .range (.badRange 122 97)⟩).pos = ⟨7, 17⟩ ∧
    ("src/[z-a].c".toList[7]?).map Char.toNat = some 97 :=
  doc_offending_char (qs "src/[z-a].c" 7 9, .path) ⟨8, .unexpected (some 97) .range (.badRange 122 97)⟩ (by decide +kernel) 97 rfl
    (by decide)

example : (lint exCfg (fun _ => false) (fun _ => true) exDoc).filter isGlob =
    stableSort ((docFilterPatterns exDoc).flatMap fun p => reports p.2 (newString p.1)) :=
  doc_lint_glob_exact exCfg _ _ exDoc {} (docHeaders_clean _ _ exDoc_headers)

example : docDiag (qs "v1 x" 3 36) ⟨3, .invalidRef (some 32) .chars⟩ ∈ lint exCfg (fun _ => false) (fun _ => true) exDoc :=
  doc_pattern_diag_in_lint exCfg _ _ exDoc {} (docHeaders_clean _ _ exDoc_headers) (qs "v1 x" 3 36, .ref)
    (by rw [exDoc_patterns]; simp) (by decide) _ (by decide +kernel)

example : ruleGlob (parse exCfg exDoc).1 =
    (docEvents exDoc).flatMap fun ev => (eventPatternNodes ev.2).flatMap fun p => reports p.2 (newString p.1) :=
  doc_glob_per_event exCfg exDoc (docHeaders_clean _ _ exDoc_headers)

/-- the webhook events of `exDoc`: `push` and `pull_request` (not `workflow_dispatch`) -/
example : (docEvents exDoc).map (·.1.value) = ["push", "pull_request"] := by decide +kernel

/-! ### the same `on:` over a document the parser refuses

```
 1 on: (as above)
12 jobs:
13   b:
14     steps: []
15 colour: red
```
(no `runs-on`, empty `steps`, an unknown key) and, under a third event, a filter with an empty and a non-scalar item:
```
   create:
     tags: ["", [x], "rel/"]
```
-/

def exOnDirty : Node :=
  mp 2 3 [sc "create" 2 3, mp 3 5 [sc "tags" 3 5, sq 3 11 [qs "" 3 12, sq 3 16 [sc "x" 3 17], qs "rel/" 3 21]]]

def exDocDirty : Node := .mk .document "" "" false 1 1 [mp 1 1 [sc "on" 1 1, exOn,
  sc "jobs" 12 1, mp 13 3 [sc "b" 13 3, mp 14 5 [sc "steps" 14 5, sq 14 12 []]], sc "colour" 15 1, sc "red" 15 9]]

def exDocDirty2 : Node := .mk .document "" "" false 1 1 [mp 1 1 [sc "on" 1 1, exOnDirty, sc "jobs" 4 1, exJobs]]

theorem exDocDirty_headers : DocHeaders exDocDirty := by decide +kernel

/-- the parser reports four things about it … -/
example : (parse exCfg exDocDirty).2.map (·.code) = ["section-empty", "job-no-steps", "job-no-runs-on", "unexpected-key"] := by decide +kernel

/-- … and the glob diagnostics are those of `exDoc`: the same patterns are written -/
example : ruleGlob (parse exCfg exDocDirty).1 = ruleGlob (parse exCfg exDoc).1 :=
  glob_independent_doc exCfg exCfg exDocDirty exDoc (docHeaders_clean _ _ exDocDirty_headers) (docHeaders_clean _ _ exDoc_headers)
    (glob_independent_of_on _ _ (by rfl))

example : docOn exDocDirty = docOn exDoc := by rfl

example : (lint exCfg (fun _ => false) (fun _ => true) exDocDirty).filter isGlob =
    (lint exCfg (fun _ => true) (fun _ => false) exDoc).filter isGlob :=
  lint_glob_independent exCfg exCfg _ _ _ _ exDocDirty exDoc {} {} (docHeaders_clean _ _ exDocDirty_headers)
    (docHeaders_clean _ _ exDoc_headers) (glob_independent_of_on _ _ (by rfl))

/-- `tags: ["", [x], "rel/"]`: the parser reports the empty and the non-scalar item, rule glob the trailing `/` of the third
(quoted at 3:21: 21 + 1 + 3), and nothing about the first two -/
example : (parse exCfg exDocDirty2).2 = [⟨⟨3, 12⟩, "string-empty", []⟩, ⟨⟨3, 16⟩, "not-scalar-string", ["sequence", "!!seq"]⟩] ∧
    docFilterPatterns exDocDirty2 = [(qs "" 3 12, .ref), (qs "rel/" 3 21, .ref)] ∧
    ruleGlob (parse exCfg exDocDirty2).1 = [⟨⟨3, 25⟩, "glob", "glob", ["ref,47,end"]⟩] := by
  refine ⟨by decide +kernel, by rfl, by decide +kernel⟩

example : ruleGlob (parse exCfg exDocDirty2).1 = (docFilterPatterns exDocDirty2).flatMap fun p => reports p.2 (newString p.1) :=
  doc_glob_diags_exact_of_doc exCfg exDocDirty2 (by decide +kernel)

example : (parseString (qs "" 3 12) false).2 = [⟨⟨3, 12⟩, "string-empty", []⟩] := by
  rcases empty_pattern_parser_reports (qs "" 3 12) (by decide +kernel) with h | h
  · exact h.2.2
  · exact absurd (by decide +kernel) h.1

/-- `on: [push, pull_request]`: no filter can be written, nothing is reported -/
example : ruleGlob (parse exCfg (.mk .document "" "" false 1 1 [mp 1 1 [sc "on" 1 1, sq 1 5 [sc "push" 1 6, sc "pull_request" 1 12],
    sc "jobs" 2 1, exJobs]])).1 = [] :=
  glob_no_filters exCfg _ (docHeaders_clean _ _ (by decide +kernel)) (by decide +kernel)

/-- **the converse of `doc_documented_not_reported` fails in a document** (for members of `[...]` only): `branches: '[a b]'` is
accepted — by the parser and by rule glob — although `[a b]` is not in the documented ref language -/
theorem doc_reported_iff_documented_false :
    ∃ doc : Node, ∃ p ∈ docFilterPatterns doc, (parse exCfg doc).2 = [] ∧ ruleGlob (parse exCfg doc).1 = [] ∧
      NoBOM (symsOf p.1.value) ∧ ¬ InLang p.2 (symsOf p.1.value) := by
  refine ⟨.mk .document "" "" false 1 1 [mp 1 1 [sc "on" 1 1, mp 2 3 [sc "push" 2 3, mp 3 5 [sc "branches" 3 5, qs "[a b]" 3 15]],
    sc "jobs" 4 1, exJobs]], (qs "[a b]" 3 15, .ref), by rw [show docFilterPatterns _ = [(qs "[a b]" 3 15, .ref)] from rfl]; simp,
    by decide +kernel, by decide +kernel, by decide +kernel, ?_⟩
  have e : symsOf "[a b]" = AL.C17.ascii [91, 97, 32, 98, 93] := by decide +kernel
  intro hl
  simp only [InLang, qs, Node.value] at hl
  rw [e] at hl
  exact (AL.C17.valid_no_linebreak true _ hl ⟨32, 1, false⟩ (by decide)).2 rfl (Or.inl rfl)

/-- **observation: a scalar of another type under a filter key is validated as its text** — `branches: ~` (the null of YAML)
is accepted by the parser (a scalar, not empty) and rule glob reports the `~` as a character a ref cannot contain -/
theorem null_scalar_validated_as_text :
    (parse exCfg (.mk .document "" "" false 1 1 [mp 1 1 [sc "on" 1 1, mp 2 3 [sc "push" 2 3, mp 3 5 [sc "branches" 3 5,
      .mk .scalar "!!null" "~" false 3 15 []]], sc "jobs" 4 1, exJobs]])).2 = [] ∧
    ruleGlob (parse exCfg (.mk .document "" "" false 1 1 [mp 1 1 [sc "on" 1 1, mp 2 3 [sc "push" 2 3, mp 3 5 [sc "branches" 3 5,
      .mk .scalar "!!null" "~" false 3 15 []]], sc "jobs" 4 1, exJobs]])).1 = [⟨⟨3, 15⟩, "glob", "glob", ["ref,126,chars"]⟩] := by
  refine ⟨by decide +kernel, by decide +kernel⟩

/-- **the one report that is NOT at the offending character** (`AL.C17.trailing_space_col_counterexample`, in a document):
`paths: 'é '` — quote at 3:12, `é` at 13, the blank at 14, the closing quote at 15 — is reported at column 15: the validator
gives the BYTE length of the text (3) as column of the trailing blank, the rule adds it as if it counted characters -/
theorem doc_trailing_blank_column_counterexample :
    ruleGlob (parse exCfg (.mk .document "" "" false 1 1 [mp 1 1 [sc "on" 1 1, mp 2 3 [sc "push" 2 3, mp 3 5 [sc "paths" 3 5,
      qs "é " 3 12]], sc "jobs" 4 1, exJobs]])).1 = [⟨⟨3, 15⟩, "glob", "glob", ["trail"]⟩] ∧
    writtenCol (qs "é " 3 12) 1 = 14 ∧ "é ".toList[1]? = some ' ' := by
  refine ⟨by decide +kernel, by decide, by decide⟩

end Example

end AL.C17D
