import AL.Lemmas.ParseWfLoop
/-
  C13 on the model of the whole workflow parser (AL.PW = parse.go, tied by the `parsewf` operation on every run):

    In every mapping whose key set is fixed by the workflow syntax, a key outside the set is reported at that key and a
    repeated key is reported at the repetition; a missing mandatory key is reported too. An unknown or duplicate key
    never suppresses the diagnostics of its sibling keys.

  Every section parser of parse.go has the same shape — `parseMapping`, a loop over its result, final checks — which is
  `Sect.run`. The two splice theorems (`Sect.unknown_key`, `Sect.duplicate_key`) are proved once for that shape, for
  every mapping node, every position of the inserted pair and every state of the loop; each section of the property's
  list is then an instance (`*_unknown`, `*_duplicate`): the parser function is shown to BE `Sect.run` of its loop body
  and the loop body is shown to skip keys outside its set with exactly the `unexpectedKey` diagnostic.
-/
namespace AL.C13P
open AL.PW AL.Yaml AL.Ast

/-! ### the shape of a section parser -/

structure Sect (σ ρ : Type) where
  step : σ → KV → σ × List PErr
  init : σ
  finish : σ → ρ × List PErr

def Sect.run {σ ρ : Type} (S : Sect σ ρ) (cfg : Cfg) (what : String) (n : Node) (allowEmpty cs : Bool) : R ρ :=
  let m := parseMapping cfg what n allowEmpty cs
  let r := loop S.step S.init m.1
  let f := S.finish r.1
  (f.1, m.2 ++ r.2 ++ f.2)

/-- the `Content` of a mapping node with the given key/value pairs -/
def flatten : List (Node × Node) → List Node
  | [] => []
  | (k, v) :: rest => k :: v :: flatten rest

@[simp] theorem pairs_flatten (ps : List (Node × Node)) : pairs (flatten ps) = ps := by
  induction ps with
  | nil => rfl
  | cons p rest ih => obtain ⟨k, v⟩ := p; simp [flatten, pairs, ih]

/-- a mapping node (`Kind = MappingNode`) with these pairs -/
def mapNode (tag : String) (line col : Nat) (ps : List (Node × Node)) : Node :=
  .mk .mapping tag "" false line col (flatten ps)

theorem parseMapping_mapNode (cfg : Cfg) (what tag : String) (l c : Nat) (ps : List (Node × Node)) (allowEmpty cs : Bool) :
    parseMapping cfg what (mapNode tag l c ps) allowEmpty cs =
      ((mappingLoop cfg what cs ps []).1,
       (mappingLoop cfg what cs ps []).2 ++
        (if !allowEmpty && (mappingLoop cfg what cs ps []).1.isEmpty then [⟨⟨l, c⟩, "mapping-empty", [what]⟩] else [])) := by
  simp [parseMapping, mapNode, Node.isNull, Node.kind, Node.content, errAt, Node.pos, Node.line, Node.col]

theorem mappingLoop_nonempty (cfg : Cfg) (what : String) (cs : Bool) (p : Node × Node) (rest : List (Node × Node)) :
    (mappingLoop cfg what cs (p :: rest) []).1 ≠ [] := by
  obtain ⟨kn, vn⟩ := p
  rw [mappingLoop_cons]
  simp [lookupSeen]

/-- a key node that `parseMapping` accepts silently: a scalar with a non-empty value -/
def GoodKey (kn : Node) : Prop := (parseString kn false).2 = []

theorem goodKey_of_scalar (kn : Node) (h1 : kn.kind = .scalar) (h2 : kn.value ≠ "") : GoodKey kn := by
  simp [GoodKey, parseString, checkString, h1, h2]

theorem parseString_pos (n : Node) (b : Bool) : (parseString n b).1.pos = n.pos := by
  simp only [parseString]
  split <;> rfl

/-- **Unknown key.** Take any section parser of the shape `Sect.run`, any mapping node with at least one pair, and insert
anywhere a pair whose key is a non-empty scalar, occurs nowhere else in the mapping (under the mapping's own folding),
and is one the loop body skips with the diagnostics `es`. Then the section's result (the AST node and whatever the final
checks look at) is unchanged and the diagnostics are exactly the old ones plus `es`. -/
theorem Sect.unknown_key {σ ρ : Type} (S : Sect σ ρ) (cfg : Cfg) (what tag : String) (l c : Nat) (allowEmpty cs : Bool)
    (pre post : List (Node × Node)) (kn vn : Node) (es : List PErr)
    (hkey : GoodKey kn)
    (hskip : ∀ s, S.step s ⟨keyId cfg cs kn, (parseString kn false).1, vn⟩ = (s, es))
    (hfresh : ∀ q ∈ pre ++ post, keyId cfg cs q.1 ≠ keyId cfg cs kn)
    (hne : pre ++ post ≠ []) :
    (S.run cfg what (mapNode tag l c (pre ++ (kn, vn) :: post)) allowEmpty cs).1 =
      (S.run cfg what (mapNode tag l c (pre ++ post)) allowEmpty cs).1 ∧
    (S.run cfg what (mapNode tag l c (pre ++ (kn, vn) :: post)) allowEmpty cs).2.Perm
      (es ++ (S.run cfg what (mapNode tag l c (pre ++ post)) allowEmpty cs).2) := by
  obtain ⟨kvs₁, kvs₂, es₁, es₂, e₁, e₂⟩ :=
    mappingLoop_insert_fresh cfg what cs kn vn post pre [] rfl hfresh
  have hne1 : (kvs₁ ++ kvs₂) ≠ [] := by
    have := e₁ ▸ (show (mappingLoop cfg what cs (pre ++ post) []).1 ≠ [] from by
      cases h : pre ++ post with
      | nil => exact absurd h hne
      | cons p rest => exact mappingLoop_nonempty cfg what cs p rest)
    simpa using this
  have hne2 : (kvs₁ ++ ⟨keyId cfg cs kn, (parseString kn false).1, vn⟩ :: kvs₂) ≠ [] := by simp
  obtain ⟨hst, hperm⟩ := loop_skip_perm S.step _ es hskip S.init kvs₁ kvs₂
  have hk : (parseString kn false).2 = [] := hkey
  simp only [Sect.run, parseMapping_mapNode, e₁, e₂, hk, List.append_nil]
  have he1 : (kvs₁ ++ kvs₂).isEmpty = false := by cases h : kvs₁ ++ kvs₂ with | nil => exact absurd h hne1 | cons _ _ => rfl
  have he2 : (kvs₁ ++ ⟨keyId cfg cs kn, (parseString kn false).1, vn⟩ :: kvs₂).isEmpty = false := by
    cases h : kvs₁ ++ ⟨keyId cfg cs kn, (parseString kn false).1, vn⟩ :: kvs₂ with | nil => exact absurd h hne2 | cons _ _ => rfl
  simp only [he1, he2, Bool.and_false, Bool.false_eq_true, ↓reduceIte, List.append_nil, hst]
  refine ⟨trivial, ?_⟩
  -- (m ++ r' ++ f) ~ es ++ (m ++ r ++ f)   from   r' ~ es ++ r
  have h1 : ((es₁ ++ es₂) ++ (loop S.step S.init (kvs₁ ++ ⟨keyId cfg cs kn, (parseString kn false).1, vn⟩ :: kvs₂)).2).Perm
      ((es₁ ++ es₂) ++ (es ++ (loop S.step S.init (kvs₁ ++ kvs₂)).2)) := List.Perm.append_left _ hperm
  have h2 : ((es₁ ++ es₂) ++ (es ++ (loop S.step S.init (kvs₁ ++ kvs₂)).2)).Perm
      (es ++ ((es₁ ++ es₂) ++ (loop S.step S.init (kvs₁ ++ kvs₂)).2)) := by
    rw [← List.append_assoc, ← List.append_assoc]
    exact List.Perm.append_right _ List.perm_append_comm
  have h3 := (h1.trans h2).append_right (S.finish (loop S.step S.init (kvs₁ ++ kvs₂)).1).2
  simpa [List.append_assoc] using h3

/-- **Duplicate key.** Insert anywhere after an occurrence of the same key (same id under the mapping's folding) a pair
whose key is a non-empty scalar: the section's result is unchanged and the diagnostics are exactly the old ones plus one
`key-duplicated` diagnostic positioned at the inserted key, which names the position of the first key with that id. -/
theorem Sect.duplicate_key {σ ρ : Type} (S : Sect σ ρ) (cfg : Cfg) (what tag : String) (l c : Nat) (allowEmpty cs : Bool)
    (pre post : List (Node × Node)) (kn vn : Node)
    (hkey : GoodKey kn)
    (hdup : ∃ q ∈ pre, keyId cfg cs q.1 = keyId cfg cs kn) :
    ∃ pos, firstPos cfg cs (keyId cfg cs kn) pre = some pos ∧
    (S.run cfg what (mapNode tag l c (pre ++ (kn, vn) :: post)) allowEmpty cs).1 =
      (S.run cfg what (mapNode tag l c (pre ++ post)) allowEmpty cs).1 ∧
    (S.run cfg what (mapNode tag l c (pre ++ (kn, vn) :: post)) allowEmpty cs).2.Perm
      ((⟨kn.pos, "key-duplicated", [kn.value, what, posString pos,
          if cs then "" else ". note that this key is case insensitive"]⟩ : PErr) ::
        (S.run cfg what (mapNode tag l c (pre ++ post)) allowEmpty cs).2) := by
  obtain ⟨kvs, es₁, es₂, pos, e₁, e₂, hp⟩ :=
    mappingLoop_insert_dup cfg what cs kn vn post pre [] (Or.inr hdup)
  have hpos : firstPos cfg cs (keyId cfg cs kn) pre = some pos := by
    rcases hp with hp | ⟨_, hp⟩
    · simp [lookupSeen] at hp
    · exact hp
  have hval : (parseString kn false).1.value = kn.value := by
    have := hkey
    simp only [GoodKey, parseString, checkString] at this ⊢
    split at this <;> simp_all [newString]
    all_goals (split at this <;> simp_all)
  refine ⟨pos, hpos, ?_⟩
  have hk : (parseString kn false).2 = [] := hkey
  simp only [Sect.run, parseMapping_mapNode, e₁, e₂, hk, List.nil_append, parseString_pos, hval]
  refine ⟨trivial, ?_⟩
  simp only [List.append_assoc, List.cons_append, List.nil_append]
  exact List.perm_middle

end AL.C13P

namespace AL.C13P
open AL.PW AL.Yaml AL.Ast

/-! ### sections with a fixed key set -/

/-- the loop body skips every key outside `keys` with exactly the `unexpectedKey` diagnostic and leaves the state alone -/
def FixedKeys {σ ρ : Type} (S : Sect σ ρ) (keys : List String) (sec : String) (expected : List String) : Prop :=
  ∀ (s : σ) (kv : KV), kv.id ∉ keys → S.step s kv = (s, [unexpectedKey kv.key sec expected])

theorem keyId_cs (cfg : Cfg) (kn : Node) (h : GoodKey kn) : keyId cfg true kn = kn.value := by
  have := h
  simp only [GoodKey, parseString, checkString] at this
  simp only [keyId, parseString, checkString, ↓reduceIte]
  split at this <;> simp_all [newString]
  all_goals (split at this <;> simp_all)

theorem parseString_good (kn : Node) (h : GoodKey kn) : (parseString kn false).1 = ⟨kn.value, kn.quoted, kn.pos⟩ := by
  have := h
  simp only [GoodKey, parseString, checkString] at this ⊢
  split at this <;> simp_all [newString]
  all_goals (split at this <;> simp_all)

/-- `Sect.unknown_key` for the sections of the property's list (they are all case-sensitive): the new diagnostic is
`unexpectedKey` AT THE INSERTED KEY (`kn.pos`), echoing the key as written. -/
theorem Sect.unknown_key_fixed {σ ρ : Type} (S : Sect σ ρ) {keys : List String} {sec : String} {expected : List String}
    (hF : FixedKeys S keys sec expected) (cfg : Cfg) (what tag : String) (l c : Nat) (allowEmpty : Bool)
    (pre post : List (Node × Node)) (kn vn : Node)
    (hkey : GoodKey kn) (hun : kn.value ∉ keys)
    (hfresh : ∀ q ∈ pre ++ post, keyId cfg true q.1 ≠ kn.value)
    (hne : pre ++ post ≠ []) :
    (S.run cfg what (mapNode tag l c (pre ++ (kn, vn) :: post)) allowEmpty true).1 =
      (S.run cfg what (mapNode tag l c (pre ++ post)) allowEmpty true).1 ∧
    (S.run cfg what (mapNode tag l c (pre ++ (kn, vn) :: post)) allowEmpty true).2.Perm
      (unexpectedKey ⟨kn.value, kn.quoted, kn.pos⟩ sec expected ::
        (S.run cfg what (mapNode tag l c (pre ++ post)) allowEmpty true).2) := by
  have hid := keyId_cs cfg kn hkey
  have := Sect.unknown_key S cfg what tag l c allowEmpty true pre post kn vn
    [unexpectedKey ⟨kn.value, kn.quoted, kn.pos⟩ sec expected] hkey
    (by intro s; rw [hF s _ (by simpa [hid] using hun), parseString_good kn hkey])
    (by intro q hq; rw [hid]; exact hfresh q hq) hne
  simpa using this

/-! #### the sections, one by one: the loop body as a `Sect`, the parser function as its `run`, the key set -/

def workflowSect (cfg : Cfg) (doc : Node) : Sect Workflow Workflow where
  step := workflowKey cfg
  init := {}
  finish := fun w => (w,
    (if w.on.isNone then [errAt doc "workflow-no-on" []] else []) ++
    (if w.jobs.isNone then [errAt doc "workflow-no-jobs" []] else []))

theorem workflow_fixed (cfg : Cfg) (doc : Node) : FixedKeys (workflowSect cfg doc) workflowKeys "workflow" workflowKeys := by
  intro s kv h
  simp only [workflowKeys, List.mem_cons, List.not_mem_nil, or_false, not_or] at h
  simp only [workflowSect, workflowKey]
  split <;> simp_all

theorem parse_eq_run (cfg : Cfg) (doc root : Node) (rest : List Node) (h : (fixDocPos doc).content = root :: rest) :
    parse cfg doc = (workflowSect cfg (fixDocPos doc)).run cfg "workflow" root false true := by
  simp only [parse, h, Sect.run, workflowSect, List.append_assoc]

def jobSect (cfg : Cfg) (id : Str) : Sect JobSt Job where
  step := jobKey cfg
  init := { job := { id := id, pos := id.pos } }
  finish := jobFinish id

theorem job_fixed (cfg : Cfg) (id : Str) : FixedKeys (jobSect cfg id) jobKeys "job" jobKeys := by
  intro s kv h
  simp only [jobKeys, List.mem_cons, List.not_mem_nil, or_false, not_or] at h
  simp only [jobSect, jobKey]
  split <;> simp_all

theorem parseJob_eq_run (cfg : Cfg) (id : Str) (n : Node) :
    parseJob cfg id n = (jobSect cfg id).run cfg (jobWhat id.value) n false true := rfl

def stepSect (cfg : Cfg) (n : Node) : Sect StepSt Step where
  step := stepKey cfg
  init := { step := { pos := n.pos } }
  finish := fun st => (st.step, stepFinish n st)

theorem step_fixed (cfg : Cfg) (n : Node) : FixedKeys (stepSect cfg n) stepKeys "step" stepKeys := by
  intro s kv h
  simp only [stepKeys, List.mem_cons, List.not_mem_nil, or_false, not_or] at h
  simp only [stepSect, stepKey]
  split <;> simp_all

theorem parseStep_eq_run (cfg : Cfg) (n : Node) :
    parseStep cfg n = (stepSect cfg n).run cfg "element of \"steps\" section" n false true := rfl

end AL.C13P

namespace AL.C13P
open AL.PW AL.Yaml AL.Ast

@[simp] theorem mapNode_kind (tag : String) (l c : Nat) (ps : List (Node × Node)) : (mapNode tag l c ps).kind = .mapping := rfl

def plain {σ : Type} (step : σ → KV → σ × List PErr) (init : σ) : Sect σ σ := ⟨step, init, fun s => (s, [])⟩

theorem plain_run {σ : Type} (step : σ → KV → σ × List PErr) (init : σ) (cfg : Cfg) (what : String) (n : Node) (ae cs : Bool) :
    (plain step init).run cfg what n ae cs =
      ((loop step init (parseMapping cfg what n ae cs).1).1,
       (parseMapping cfg what n ae cs).2 ++ (loop step init (parseMapping cfg what n ae cs).1).2) := by
  simp [Sect.run, plain]

/-- events: a webhook event (`push:`, `pull_request:` …) -/
def webhookKeys : List String := ["types", "branches", "branches-ignore", "tags", "tags-ignore", "paths", "paths-ignore", "workflows"]

theorem webhook_fixed (name : Str) :
    FixedKeys (plain (webhookKey name) { hook := name, pos := name.pos }) webhookKeys name.value webhookKeys := by
  intro s kv h
  simp only [webhookKeys, List.mem_cons, List.not_mem_nil, or_false, not_or] at h
  simp only [plain, webhookKey]
  split <;> (try rfl) <;> simp_all

theorem parseWebhookEvent_eq_run (cfg : Cfg) (name : Str) (n : Node) :
    parseWebhookEvent cfg name n =
      (.webhook ((plain (webhookKey name) { hook := name, pos := name.pos }).run cfg (sectionWhat name.value) n true true).1,
       ((plain (webhookKey name) { hook := name, pos := name.pos }).run cfg (sectionWhat name.value) n true true).2) := by
  simp [parseWebhookEvent, plain_run, parseSectionMapping]

/-- events: `workflow_dispatch:` -/
def dispatchStep (cfg : Cfg) : Option (List (String × DispatchInput)) → KV → Option (List (String × DispatchInput)) × List PErr :=
  fun st kv =>
    if kv.id ≠ "inputs" then (st, [unexpectedKey kv.key "workflow_dispatch" ["inputs"]])
    else
      let inputs := parseSectionMapping cfg "inputs" kv.val true false
      let is := mapKVs (dispatchInput cfg) inputs.1
      (some is.1, inputs.2 ++ is.2)

theorem dispatch_fixed (cfg : Cfg) : FixedKeys (plain (dispatchStep cfg) none) ["inputs"] "workflow_dispatch" ["inputs"] := by
  intro s kv h
  simp only [List.mem_cons, List.not_mem_nil, or_false] at h
  simp [plain, dispatchStep, h]

theorem parseWorkflowDispatchEvent_eq_run (cfg : Cfg) (pos : Pos) (n : Node) :
    parseWorkflowDispatchEvent cfg pos n =
      (.dispatch ((plain (dispatchStep cfg) none).run cfg (sectionWhat "workflow_dispatch") n true true).1 pos,
       ((plain (dispatchStep cfg) none).run cfg (sectionWhat "workflow_dispatch") n true true).2) := by
  rw [plain_run]; rfl

/-- events: an input of `workflow_dispatch` -/
def dispatchAttrKeys : List String := ["description", "required", "default", "type", "options"]

theorem dispatchAttr_fixed : FixedKeys (plain dispatchAttr {}) dispatchAttrKeys "inputs" ["description", "required", "default"] := by
  intro s kv h
  simp only [dispatchAttrKeys, List.mem_cons, List.not_mem_nil, or_false, not_or] at h
  simp only [plain, dispatchAttr]
  split <;> simp_all

theorem dispatchInput_eq_run (cfg : Cfg) (input : KV) :
    dispatchInput cfg input =
      (let r := (plain dispatchAttr {}).run cfg "input settings of workflow_dispatch event" input.val true true
       (⟨input.key, r.1.desc, r.1.req, r.1.dflt, r.1.ty, r.1.opts⟩, r.2)) := by
  simp [dispatchInput, plain_run]

/-- events: `repository_dispatch:` -/
def repoDispatchStep : Option (List Str) → KV → Option (List Str) × List PErr :=
  fun st kv =>
    if kv.id = "types" then
      let t := parseStringOrStringSequence "types" kv.val false false
      (t.1, t.2)
    else (st, [unexpectedKey kv.key "repository_dispatch" ["types"]])

theorem repoDispatch_fixed : FixedKeys (plain repoDispatchStep none) ["types"] "repository_dispatch" ["types"] := by
  intro s kv h
  simp only [List.mem_cons, List.not_mem_nil, or_false] at h
  simp [plain, repoDispatchStep, h]

theorem parseRepositoryDispatchEvent_eq_run (cfg : Cfg) (pos : Pos) (n : Node) :
    parseRepositoryDispatchEvent cfg pos n =
      (.repoDispatch ((plain repoDispatchStep none).run cfg (sectionWhat "repository_dispatch") n true true).1 pos,
       ((plain repoDispatchStep none).run cfg (sectionWhat "repository_dispatch") n true true).2) := by
  rw [plain_run]; rfl

/-- events: `workflow_call:` and its input / secret / output specifications -/
theorem callEvent_fixed (cfg : Cfg) :
    FixedKeys (plain (callEventKey cfg) {}) ["inputs", "secrets", "outputs"] "workflow_call" ["inputs", "secrets", "outputs"] := by
  intro s kv h
  simp only [List.mem_cons, List.not_mem_nil, or_false, not_or] at h
  simp only [plain, callEventKey]
  split <;> simp_all

theorem parseWorkflowCallEvent_eq_run (cfg : Cfg) (pos : Pos) (n : Node) :
    parseWorkflowCallEvent cfg pos n =
      (let r := (plain (callEventKey cfg) {}).run cfg (sectionWhat "workflow_call") n true true
       (.call r.1.inputs r.1.secrets r.1.outputs pos, r.2)) := by
  simp [parseWorkflowCallEvent, plain_run, parseSectionMapping]

def callInputSect (kv : KV) : Sect (CallInput × Bool) CallInput where
  step := callInputAttr
  init := ({ name := kv.key, id := kv.id }, false)
  finish := fun st => (st.1, if !st.2 then [⟨kv.key.pos, "call-input-type-missing", [kv.key.value]⟩] else [])

theorem callInput_fixed (kv : KV) :
    FixedKeys (callInputSect kv) ["description", "required", "default", "type"] "inputs at workflow_call event"
      ["description", "required", "default", "type"] := by
  intro s kv' h
  simp only [List.mem_cons, List.not_mem_nil, or_false, not_or] at h
  simp only [callInputSect, callInputAttr]
  split <;> simp_all

theorem callInput_eq_run (cfg : Cfg) (kv : KV) :
    callInput cfg kv = (callInputSect kv).run cfg "input of workflow_call event" kv.val true true := rfl

theorem callSecret_fixed (kv : KV) :
    FixedKeys (plain callSecretAttr { name := kv.key }) ["description", "required"] "secrets" ["description", "required"] := by
  intro s kv' h
  simp only [List.mem_cons, List.not_mem_nil, or_false, not_or] at h
  simp only [plain, callSecretAttr]
  split <;> simp_all

theorem callSecret_eq_run (cfg : Cfg) (kv : KV) :
    callSecret cfg kv = (plain callSecretAttr { name := kv.key }).run cfg "secret of workflow_call event" kv.val true true := by
  simp [callSecret, plain_run]

def callOutputSect (kv : KV) : Sect CallOutput CallOutput where
  step := callOutputAttr
  init := { name := kv.key }
  finish := fun st => (st, if st.value.isNone then [⟨kv.key.pos, "call-output-value-missing", [kv.key.value]⟩] else [])

theorem callOutput_fixed (kv : KV) :
    FixedKeys (callOutputSect kv) ["description", "value"] "outputs at workflow_call event" ["description", "value"] := by
  intro s kv' h
  simp only [List.mem_cons, List.not_mem_nil, or_false, not_or] at h
  simp only [callOutputSect, callOutputAttr]
  split <;> simp_all

theorem callOutput_eq_run (cfg : Cfg) (kv : KV) :
    callOutput cfg kv = (callOutputSect kv).run cfg "output of workflow_call event" kv.val true true := rfl

/-- `defaults:` and `defaults.run:` -/
def defaultsStep (cfg : Cfg) : Option DefaultsRun → KV → Option DefaultsRun × List PErr :=
  fun st kv =>
    if kv.id ≠ "run" then (st, [unexpectedKey kv.key "defaults" ["run"]])
    else
      let mm := parseSectionMapping cfg "run" kv.val false true
      let rr := loop defaultsRunKey { pos := kv.key.pos } mm.1
      (some rr.1, mm.2 ++ rr.2)

def defaultsSect (cfg : Cfg) (pos : Pos) (n : Node) : Sect (Option DefaultsRun) Defaults where
  step := defaultsStep cfg
  init := none
  finish := fun r => (⟨r, pos⟩, if r.isNone then [errAt n "defaults-no-run" []] else [])

theorem defaults_fixed (cfg : Cfg) (pos : Pos) (n : Node) : FixedKeys (defaultsSect cfg pos n) ["run"] "defaults" ["run"] := by
  intro s kv h
  simp only [List.mem_cons, List.not_mem_nil, or_false] at h
  simp [defaultsSect, defaultsStep, h]

theorem parseDefaults_eq_run (cfg : Cfg) (pos : Pos) (n : Node) :
    parseDefaults cfg pos n = (defaultsSect cfg pos n).run cfg (sectionWhat "defaults") n false true := rfl

theorem defaultsRun_fixed (pos : Pos) :
    FixedKeys (plain defaultsRunKey { pos := pos }) ["shell", "working-directory"] "run" ["shell", "working-directory"] := by
  intro s kv h
  simp only [List.mem_cons, List.not_mem_nil, or_false, not_or] at h
  simp only [plain, defaultsRunKey]
  split <;> simp_all

/-- `concurrency:` (mapping form) -/
def concurrencySect (pos : Pos) : Sect (Concurrency × Bool) Concurrency where
  step := concurrencyKey
  init := ({ pos := pos }, false)
  finish := fun st => (st.1, if !st.2 then [⟨pos, "concurrency-no-group", []⟩] else [])

theorem concurrency_fixed (pos : Pos) :
    FixedKeys (concurrencySect pos) ["group", "cancel-in-progress"] "concurrency" ["group", "cancel-in-progress"] := by
  intro s kv h
  simp only [List.mem_cons, List.not_mem_nil, or_false, not_or] at h
  simp only [concurrencySect, concurrencyKey]
  split <;> simp_all

theorem parseConcurrency_eq_run (cfg : Cfg) (pos : Pos) (tag : String) (l c : Nat) (ps : List (Node × Node)) :
    parseConcurrency cfg pos (mapNode tag l c ps) =
      (concurrencySect pos).run cfg (sectionWhat "concurrency") (mapNode tag l c ps) false true := by
  simp [parseConcurrency, Sect.run, concurrencySect, parseSectionMapping]

/-- `environment:` (mapping form) -/
def environmentSect (pos : Pos) : Sect (Environment × Bool) Environment where
  step := environmentKey
  init := ({ pos := pos }, false)
  finish := fun st => (st.1, if !st.2 then [⟨pos, "environment-no-name", []⟩] else [])

theorem environment_fixed (pos : Pos) : FixedKeys (environmentSect pos) ["name", "url"] "environment" ["name", "url"] := by
  intro s kv h
  simp only [List.mem_cons, List.not_mem_nil, or_false, not_or] at h
  simp only [environmentSect, environmentKey]
  split <;> simp_all

theorem parseEnvironment_eq_run (cfg : Cfg) (pos : Pos) (tag : String) (l c : Nat) (ps : List (Node × Node)) :
    parseEnvironment cfg pos (mapNode tag l c ps) =
      (environmentSect pos).run cfg (sectionWhat "environment") (mapNode tag l c ps) false true := by
  simp [parseEnvironment, Sect.run, environmentSect, parseSectionMapping]

/-- `strategy:` -/
theorem strategy_fixed (cfg : Cfg) (pos : Pos) :
    FixedKeys (plain (strategyKey cfg) { pos := pos }) ["matrix", "fail-fast", "max-parallel"] "strategy"
      ["matrix", "fail-fast", "max-parallel"] := by
  intro s kv h
  simp only [List.mem_cons, List.not_mem_nil, or_false, not_or] at h
  simp only [plain, strategyKey]
  split <;> simp_all

theorem parseStrategy_eq_run (cfg : Cfg) (pos : Pos) (n : Node) :
    parseStrategy cfg pos n = (plain (strategyKey cfg) { pos := pos }).run cfg (sectionWhat "strategy") n false true := by
  simp [parseStrategy, plain_run, parseSectionMapping]

/-- `container:` / a service (mapping form) and `credentials:` -/
def containerKeys : List String := ["image", "credentials", "env", "ports", "volumes", "options"]

theorem container_fixed (cfg : Cfg) (sec : String) (pos : Pos) :
    FixedKeys (plain (containerKey cfg sec) { pos := pos }) containerKeys sec containerKeys := by
  intro s kv h
  simp only [containerKeys, List.mem_cons, List.not_mem_nil, or_false, not_or] at h
  simp only [plain, containerKey]
  split <;> (try rfl) <;> simp_all

theorem parseContainer_eq_run (cfg : Cfg) (sec : String) (pos : Pos) (tag : String) (l c : Nat) (ps : List (Node × Node)) :
    parseContainer cfg sec pos (mapNode tag l c ps) =
      (plain (containerKey cfg sec) { pos := pos }).run cfg (sectionWhat sec) (mapNode tag l c ps) false true := by
  simp [parseContainer, plain_run, parseSectionMapping]

theorem credentials_fixed (pos : Pos) :
    FixedKeys (plain credentialsKey { pos := pos }) ["username", "password"] "credentials" ["username", "password"] := by
  intro s kv h
  simp only [List.mem_cons, List.not_mem_nil, or_false, not_or] at h
  simp only [plain, credentialsKey]
  split <;> simp_all

/-- `runs-on:` (mapping form) -/
theorem runsOn_fixed : FixedKeys (plain runsOnKey {}) ["labels", "group"] "runs-on" ["labels", "group"] := by
  intro s kv h
  simp only [List.mem_cons, List.not_mem_nil, or_false, not_or] at h
  simp only [plain, runsOnKey]
  split <;> simp_all

theorem parseRunsOn_eq_run (cfg : Cfg) (l c : Nat) (ps : List (Node × Node)) :
    parseRunsOn cfg (mapNode "!!map" l c ps) =
      (plain runsOnKey {}).run cfg (sectionWhat "runs-on") (mapNode "!!map" l c ps) false true := by
  simp [parseRunsOn, mayParseExpression, mapNode, Node.tag, Node.kind, plain_run, parseSectionMapping]

end AL.C13P

namespace AL.C13P
open AL.PW AL.Yaml AL.Ast

/-! ### the property, section by section, stated on the parser functions themselves

`Ins f pre post kn vn e` : parsing the mapping with the pair `(kn, vn)` inserted between `pre` and `post` gives the same
result as parsing it without, and the same diagnostics plus `e`. -/

def Ins {ρ : Type} (f : Node → R ρ) (tag : String) (l c : Nat) (pre post : List (Node × Node)) (kn vn : Node) (e : PErr) : Prop :=
  (f (mapNode tag l c (pre ++ (kn, vn) :: post))).1 = (f (mapNode tag l c (pre ++ post))).1 ∧
  (f (mapNode tag l c (pre ++ (kn, vn) :: post))).2.Perm (e :: (f (mapNode tag l c (pre ++ post))).2)

/-- the hypotheses on the inserted pair: a non-empty scalar key outside the section's key set that occurs nowhere else in
the (non-empty) mapping -/
structure Foreign (cfg : Cfg) (keys : List String) (pre post : List (Node × Node)) (kn : Node) : Prop where
  good : GoodKey kn
  unknown : kn.value ∉ keys
  fresh : ∀ q ∈ pre ++ post, keyId cfg true q.1 ≠ kn.value
  siblings : pre ++ post ≠ []

def unexpectedAt (kn : Node) (sec : String) (expected : List String) : PErr :=
  unexpectedKey ⟨kn.value, kn.quoted, kn.pos⟩ sec expected

theorem unexpectedAt_pos (kn : Node) (sec : String) (expected : List String) : (unexpectedAt kn sec expected).pos = kn.pos := by
  simp only [unexpectedAt, unexpectedKey]
  split <;> rfl

variable (cfg : Cfg) (tag : String) (l c : Nat) (pre post : List (Node × Node)) (kn vn : Node)

/-- top level -/
theorem workflow_unknown (doc : Node) (h : Foreign cfg workflowKeys pre post kn) :
    Ins (fun root => (workflowSect cfg doc).run cfg "workflow" root false true) tag l c pre post kn vn
      (unexpectedAt kn "workflow" workflowKeys) :=
  Sect.unknown_key_fixed _ (workflow_fixed cfg doc) cfg _ tag l c false pre post kn vn h.good h.unknown h.fresh h.siblings

/-- a job -/
theorem job_unknown (id : Str) (h : Foreign cfg jobKeys pre post kn) :
    Ins (parseJob cfg id) tag l c pre post kn vn (unexpectedAt kn "job" jobKeys) :=
  Sect.unknown_key_fixed _ (job_fixed cfg id) cfg _ tag l c false pre post kn vn h.good h.unknown h.fresh h.siblings

/-- a webhook event -/
theorem webhook_unknown (name : Str) (h : Foreign cfg webhookKeys pre post kn) :
    Ins (parseWebhookEvent cfg name) tag l c pre post kn vn (unexpectedAt kn name.value webhookKeys) := by
  have := Sect.unknown_key_fixed _ (webhook_fixed name) cfg (sectionWhat name.value) tag l c true pre post kn vn
    h.good h.unknown h.fresh h.siblings
  simp only [Ins, parseWebhookEvent_eq_run]
  exact ⟨by rw [this.1], this.2⟩

/-- `workflow_dispatch` -/
theorem dispatch_unknown (pos : Pos) (h : Foreign cfg ["inputs"] pre post kn) :
    Ins (parseWorkflowDispatchEvent cfg pos) tag l c pre post kn vn (unexpectedAt kn "workflow_dispatch" ["inputs"]) := by
  have := Sect.unknown_key_fixed _ (dispatch_fixed cfg) cfg (sectionWhat "workflow_dispatch") tag l c true pre post kn vn
    h.good h.unknown h.fresh h.siblings
  simp only [Ins, parseWorkflowDispatchEvent_eq_run]
  exact ⟨by rw [this.1], this.2⟩

/-- an input of `workflow_dispatch` -/
theorem dispatchInput_unknown (key : Str) (id : String) (h : Foreign cfg dispatchAttrKeys pre post kn) :
    Ins (fun n => dispatchInput cfg ⟨id, key, n⟩) tag l c pre post kn vn
      (unexpectedAt kn "inputs" ["description", "required", "default"]) := by
  have := Sect.unknown_key_fixed _ dispatchAttr_fixed cfg "input settings of workflow_dispatch event" tag l c true pre post kn vn
    h.good h.unknown h.fresh h.siblings
  simp only [Ins, dispatchInput_eq_run]
  exact ⟨by rw [this.1], this.2⟩

/-- `repository_dispatch` -/
theorem repoDispatch_unknown (pos : Pos) (h : Foreign cfg ["types"] pre post kn) :
    Ins (parseRepositoryDispatchEvent cfg pos) tag l c pre post kn vn (unexpectedAt kn "repository_dispatch" ["types"]) := by
  have := Sect.unknown_key_fixed _ repoDispatch_fixed cfg (sectionWhat "repository_dispatch") tag l c true pre post kn vn
    h.good h.unknown h.fresh h.siblings
  simp only [Ins, parseRepositoryDispatchEvent_eq_run]
  exact ⟨by rw [this.1], this.2⟩

/-- `workflow_call` -/
theorem callEvent_unknown (pos : Pos) (h : Foreign cfg ["inputs", "secrets", "outputs"] pre post kn) :
    Ins (parseWorkflowCallEvent cfg pos) tag l c pre post kn vn
      (unexpectedAt kn "workflow_call" ["inputs", "secrets", "outputs"]) := by
  have := Sect.unknown_key_fixed _ (callEvent_fixed cfg) cfg (sectionWhat "workflow_call") tag l c true pre post kn vn
    h.good h.unknown h.fresh h.siblings
  simp only [Ins, parseWorkflowCallEvent_eq_run]
  exact ⟨by rw [this.1], this.2⟩

/-- an input / a secret / an output of `workflow_call` -/
theorem callInput_unknown (key : Str) (id : String) (h : Foreign cfg ["description", "required", "default", "type"] pre post kn) :
    Ins (fun n => callInput cfg ⟨id, key, n⟩) tag l c pre post kn vn
      (unexpectedAt kn "inputs at workflow_call event" ["description", "required", "default", "type"]) :=
  Sect.unknown_key_fixed _ (callInput_fixed ⟨id, key, vn⟩) cfg _ tag l c true pre post kn vn h.good h.unknown h.fresh h.siblings

theorem callSecret_unknown (key : Str) (id : String) (h : Foreign cfg ["description", "required"] pre post kn) :
    Ins (fun n => callSecret cfg ⟨id, key, n⟩) tag l c pre post kn vn
      (unexpectedAt kn "secrets" ["description", "required"]) := by
  have := Sect.unknown_key_fixed _ (callSecret_fixed ⟨id, key, vn⟩) cfg "secret of workflow_call event" tag l c true pre post kn vn
    h.good h.unknown h.fresh h.siblings
  simp only [Ins, callSecret_eq_run]
  exact this

theorem callOutput_unknown (key : Str) (id : String) (h : Foreign cfg ["description", "value"] pre post kn) :
    Ins (fun n => callOutput cfg ⟨id, key, n⟩) tag l c pre post kn vn
      (unexpectedAt kn "outputs at workflow_call event" ["description", "value"]) :=
  Sect.unknown_key_fixed _ (callOutput_fixed ⟨id, key, vn⟩) cfg _ tag l c true pre post kn vn h.good h.unknown h.fresh h.siblings

/-- `defaults` -/
theorem defaults_unknown (pos : Pos) (n0 : Node) (h : Foreign cfg ["run"] pre post kn) :
    Ins (fun n => (defaultsSect cfg pos n0).run cfg (sectionWhat "defaults") n false true) tag l c pre post kn vn
      (unexpectedAt kn "defaults" ["run"]) :=
  Sect.unknown_key_fixed _ (defaults_fixed cfg pos n0) cfg _ tag l c false pre post kn vn h.good h.unknown h.fresh h.siblings

/-- `defaults.run` -/
theorem defaultsRun_unknown (pos : Pos) (h : Foreign cfg ["shell", "working-directory"] pre post kn) :
    Ins (fun n => (plain defaultsRunKey { pos := pos }).run cfg (sectionWhat "run") n false true) tag l c pre post kn vn
      (unexpectedAt kn "run" ["shell", "working-directory"]) :=
  Sect.unknown_key_fixed _ (defaultsRun_fixed pos) cfg _ tag l c false pre post kn vn h.good h.unknown h.fresh h.siblings

/-- `concurrency` -/
theorem concurrency_unknown (pos : Pos) (h : Foreign cfg ["group", "cancel-in-progress"] pre post kn) :
    Ins (parseConcurrency cfg pos) tag l c pre post kn vn (unexpectedAt kn "concurrency" ["group", "cancel-in-progress"]) := by
  have := Sect.unknown_key_fixed _ (concurrency_fixed pos) cfg (sectionWhat "concurrency") tag l c false pre post kn vn
    h.good h.unknown h.fresh h.siblings
  simp only [Ins, parseConcurrency_eq_run]
  exact this

/-- `environment` -/
theorem environment_unknown (pos : Pos) (h : Foreign cfg ["name", "url"] pre post kn) :
    Ins (parseEnvironment cfg pos) tag l c pre post kn vn (unexpectedAt kn "environment" ["name", "url"]) := by
  have := Sect.unknown_key_fixed _ (environment_fixed pos) cfg (sectionWhat "environment") tag l c false pre post kn vn
    h.good h.unknown h.fresh h.siblings
  simp only [Ins, parseEnvironment_eq_run]
  exact this

/-- `strategy` -/
theorem strategy_unknown (pos : Pos) (h : Foreign cfg ["matrix", "fail-fast", "max-parallel"] pre post kn) :
    Ins (parseStrategy cfg pos) tag l c pre post kn vn (unexpectedAt kn "strategy" ["matrix", "fail-fast", "max-parallel"]) := by
  have := Sect.unknown_key_fixed _ (strategy_fixed cfg pos) cfg (sectionWhat "strategy") tag l c false pre post kn vn
    h.good h.unknown h.fresh h.siblings
  simp only [Ins, parseStrategy_eq_run]
  exact this

/-- `container` and every service -/
theorem container_unknown (sec : String) (pos : Pos) (h : Foreign cfg containerKeys pre post kn) :
    Ins (parseContainer cfg sec pos) tag l c pre post kn vn (unexpectedAt kn sec containerKeys) := by
  have := Sect.unknown_key_fixed _ (container_fixed cfg sec pos) cfg (sectionWhat sec) tag l c false pre post kn vn
    h.good h.unknown h.fresh h.siblings
  simp only [Ins, parseContainer_eq_run]
  exact this

/-- `credentials` -/
theorem credentials_unknown (pos : Pos) (h : Foreign cfg ["username", "password"] pre post kn) :
    Ins (fun n => (plain credentialsKey { pos := pos }).run cfg (sectionWhat "credentials") n false true) tag l c pre post kn vn
      (unexpectedAt kn "credentials" ["username", "password"]) :=
  Sect.unknown_key_fixed _ (credentials_fixed pos) cfg _ tag l c false pre post kn vn h.good h.unknown h.fresh h.siblings

/-- `runs-on` -/
theorem runsOn_unknown (h : Foreign cfg ["labels", "group"] pre post kn) :
    Ins (parseRunsOn cfg) "!!map" l c pre post kn vn (unexpectedAt kn "runs-on" ["labels", "group"]) := by
  have := Sect.unknown_key_fixed _ runsOn_fixed cfg (sectionWhat "runs-on") "!!map" l c false pre post kn vn
    h.good h.unknown h.fresh h.siblings
  simp only [Ins, parseRunsOn_eq_run]
  exact this

/-- a step -/
theorem step_unknown (h : Foreign cfg stepKeys pre post kn) :
    (parseStep cfg (mapNode tag l c (pre ++ (kn, vn) :: post))).1 = (parseStep cfg (mapNode tag l c (pre ++ post))).1 ∧
    (parseStep cfg (mapNode tag l c (pre ++ (kn, vn) :: post))).2.Perm
      (unexpectedAt kn "step" stepKeys :: (parseStep cfg (mapNode tag l c (pre ++ post))).2) := by
  -- the final checks of a step are positioned at the step's node: the same position for both mappings
  have := Sect.unknown_key_fixed _ (step_fixed cfg (mapNode tag l c [])) cfg "element of \"steps\" section" tag l c false
    pre post kn vn h.good h.unknown h.fresh h.siblings
  have e : ∀ ps, parseStep cfg (mapNode tag l c ps) =
      (stepSect cfg (mapNode tag l c [])).run cfg "element of \"steps\" section" (mapNode tag l c ps) false true := by
    intro ps; rfl
  rw [e, e]
  exact this

end AL.C13P

namespace AL.C13P
open AL.PW AL.Yaml AL.Ast

/-! ### repeated keys: in EVERY mapping, whatever its key set (also the ones with free names, which fold the letter case) -/

/-- `mapKVs f` is a loop as well -/
theorem mapKVs_eq_loop {β : Type} (f : KV → R β) (kvs : List KV) :
    ∀ acc : List (String × β),
      loop (fun st kv => (st ++ [(kv.id, (f kv).1)], (f kv).2)) acc kvs = (acc ++ (mapKVs f kvs).1, (mapKVs f kvs).2) := by
  induction kvs with
  | nil => intro acc; simp [mapKVs]
  | cons kv rest ih => intro acc; rw [loop_cons, ih]; simp [mapKVs]

def mapSect {β : Type} (f : KV → R β) : Sect (List (String × β)) (List (String × β)) :=
  plain (fun st kv => (st ++ [(kv.id, (f kv).1)], (f kv).2)) []

theorem mapSect_run {β : Type} (f : KV → R β) (cfg : Cfg) (what : String) (n : Node) (ae cs : Bool) :
    (mapSect f).run cfg what n ae cs =
      ((mapKVs f (parseMapping cfg what n ae cs).1).1, (parseMapping cfg what n ae cs).2 ++ (mapKVs f (parseMapping cfg what n ae cs).1).2) := by
  simp [mapSect, plain_run, mapKVs_eq_loop]

def dupAt (kn : Node) (what : String) (pos : Pos) (cs : Bool) : PErr :=
  ⟨kn.pos, "key-duplicated", [kn.value, what, posString pos, if cs then "" else ". note that this key is case insensitive"]⟩

/-- the hypotheses on a repeated pair: a non-empty scalar key that has the id of an earlier key of the mapping -/
structure Repeated (cfg : Cfg) (cs : Bool) (pre : List (Node × Node)) (kn : Node) : Prop where
  good : GoodKey kn
  earlier : ∃ q ∈ pre, keyId cfg cs q.1 = keyId cfg cs kn

variable (cfg : Cfg) (tag : String) (l c : Nat) (pre post : List (Node × Node)) (kn vn : Node)

/-- `jobs:` — job ids are compared case-insensitively -/
theorem jobs_duplicate (h : Repeated cfg false pre kn) :
    ∃ pos, firstPos cfg false (keyId cfg false kn) pre = some pos ∧
      Ins (parseJobs cfg) tag l c pre post kn vn (dupAt kn (sectionWhat "jobs") pos false) := by
  obtain ⟨pos, hp, h1, h2⟩ := Sect.duplicate_key (mapSect fun kv => parseJob cfg kv.key kv.val) cfg (sectionWhat "jobs") tag l c false false
    pre post kn vn h.good h.earlier
  refine ⟨pos, hp, ?_⟩
  simp only [Ins, parseJobs, parseSectionMapping, dupAt]
  rw [mapSect_run, mapSect_run] at h1 h2
  exact ⟨h1, h2⟩

/-- a job's own keys (case-sensitive) -/
theorem job_duplicate (id : Str) (h : Repeated cfg true pre kn) :
    ∃ pos, firstPos cfg true (keyId cfg true kn) pre = some pos ∧
      Ins (parseJob cfg id) tag l c pre post kn vn (dupAt kn (jobWhat id.value) pos true) := by
  obtain ⟨pos, hp, h1, h2⟩ := Sect.duplicate_key (jobSect cfg id) cfg (jobWhat id.value) tag l c false true pre post kn vn h.good h.earlier
  exact ⟨pos, hp, h1, h2⟩

/-- a step's keys -/
theorem step_duplicate (h : Repeated cfg true pre kn) :
    ∃ pos, firstPos cfg true (keyId cfg true kn) pre = some pos ∧
      Ins (parseStep cfg) tag l c pre post kn vn (dupAt kn "element of \"steps\" section" pos true) := by
  obtain ⟨pos, hp, h1, h2⟩ := Sect.duplicate_key (stepSect cfg (mapNode tag l c [])) cfg "element of \"steps\" section" tag l c false true
    pre post kn vn h.good h.earlier
  exact ⟨pos, hp, h1, h2⟩

/-- the top level -/
theorem workflow_duplicate (doc : Node) (h : Repeated cfg true pre kn) :
    ∃ pos, firstPos cfg true (keyId cfg true kn) pre = some pos ∧
      Ins (fun root => (workflowSect cfg doc).run cfg "workflow" root false true) tag l c pre post kn vn (dupAt kn "workflow" pos true) := by
  obtain ⟨pos, hp, h1, h2⟩ := Sect.duplicate_key (workflowSect cfg doc) cfg "workflow" tag l c false true pre post kn vn h.good h.earlier
  exact ⟨pos, hp, h1, h2⟩

/-- `env:` (case-insensitive names) -/
theorem env_duplicate (h : Repeated cfg false pre kn) :
    ∃ pos, firstPos cfg false (keyId cfg false kn) pre = some pos ∧
      Ins (parseEnv cfg) tag l c pre post kn vn (dupAt kn "env" pos false) := by
  obtain ⟨pos, hp, h1, h2⟩ := Sect.duplicate_key
    (mapSect fun kv => let v := parseString kv.val true; ((⟨kv.key, v.1⟩ : EnvVar), v.2)) cfg "env" tag l c false false
    pre post kn vn h.good h.earlier
  refine ⟨pos, hp, ?_⟩
  rw [mapSect_run, mapSect_run] at h1 h2
  simp only [Ins, parseEnv, mapNode_kind, dupAt]
  simp only [show (Kind.mapping = Kind.scalar) = False from by simp, ↓reduceIte]
  exact ⟨by rw [h1], h2⟩

/-! ### missing mandatory keys -/

theorem loop_inv {σ : Type} (step : σ → KV → σ × List PErr) (P : σ → Prop) (kvs : List KV)
    (h : ∀ s kv, kv ∈ kvs → P s → P (step s kv).1) : ∀ init, P init → P (loop step init kvs).1 := by
  induction kvs with
  | nil => intro init h0; exact h0
  | cons kv rest ih =>
    intro init h0
    rw [loop_cons]
    exact ih (fun s kv' hm => h s kv' (List.mem_cons_of_mem _ hm)) _ (h init kv (by simp) h0)

/-- no `on:` key (the keys that `parseMapping` hands out are what counts): reported, at the document -/
theorem workflow_missing_on (doc root : Node) (rest : List Node) (hc : (fixDocPos doc).content = root :: rest)
    (h : ∀ kv ∈ (parseMapping cfg "workflow" root false true).1, kv.id ≠ "on") :
    errAt (fixDocPos doc) "workflow-no-on" [] ∈ (parse cfg doc).2 := by
  have hon : (loop (workflowKey cfg) {} (parseMapping cfg "workflow" root false true).1).1.on = none := by
    apply loop_inv (workflowKey cfg) (fun w => w.on = none)
    · intro s kv hm hs
      have := h kv hm
      simp only [workflowKey]
      split <;> simp_all
    · rfl
  simp only [parse, hc, hon, Option.isNone_none, ↓reduceIte]
  simp

/-- no `jobs:` key -/
theorem workflow_missing_jobs (doc root : Node) (rest : List Node) (hc : (fixDocPos doc).content = root :: rest)
    (h : ∀ kv ∈ (parseMapping cfg "workflow" root false true).1, kv.id ≠ "jobs") :
    errAt (fixDocPos doc) "workflow-no-jobs" [] ∈ (parse cfg doc).2 := by
  have hj : (loop (workflowKey cfg) {} (parseMapping cfg "workflow" root false true).1).1.jobs = none := by
    apply loop_inv (workflowKey cfg) (fun w => w.jobs = none)
    · intro s kv hm hs
      have := h kv hm
      simp only [workflowKey]
      split <;> simp_all
    · rfl
  simp only [parse, hc, hj, Option.isNone_none, ↓reduceIte]
  simp

/-- a job that does not call a reusable workflow and has no `steps:` / no `runs-on:` key: reported at the job id -/
theorem job_missing_steps (id : Str) (n : Node)
    (h : ∀ kv ∈ (parseMapping cfg (jobWhat id.value) n false true).1, kv.id ≠ "steps" ∧ kv.id ≠ "uses") :
    (⟨id.pos, "job-no-steps", [id.value]⟩ : PErr) ∈ (parseJob cfg id n).2 := by
  have hs : let st := (loop (jobKey cfg) { job := { id := id, pos := id.pos } } (parseMapping cfg (jobWhat id.value) n false true).1).1
      st.job.steps = none ∧ st.call.uses = none := by
    apply loop_inv (jobKey cfg) (fun st => st.job.steps = none ∧ st.call.uses = none)
    · intro s kv hm hs
      have := h kv hm
      simp only [jobKey]
      split <;> (try split) <;> (try split) <;> simp_all
    · exact ⟨rfl, rfl⟩
  simp only [parseJob, jobFinish, hs.1, hs.2]
  simp

theorem job_missing_runs_on (id : Str) (n : Node)
    (h : ∀ kv ∈ (parseMapping cfg (jobWhat id.value) n false true).1, kv.id ≠ "runs-on" ∧ kv.id ≠ "uses") :
    (⟨id.pos, "job-no-runs-on", [id.value]⟩ : PErr) ∈ (parseJob cfg id n).2 := by
  have hs : let st := (loop (jobKey cfg) { job := { id := id, pos := id.pos } } (parseMapping cfg (jobWhat id.value) n false true).1).1
      st.job.runsOn = none ∧ st.call.uses = none := by
    apply loop_inv (jobKey cfg) (fun st => st.job.runsOn = none ∧ st.call.uses = none)
    · intro s kv hm hs
      have := h kv hm
      simp only [jobKey]
      split <;> (try split) <;> (try split) <;> simp_all
    · exact ⟨rfl, rfl⟩
  simp only [parseJob, jobFinish, hs.1, hs.2]
  simp

/-- a step with none of `run`, `shell`, `uses`, `with`: reported at the step -/
theorem step_missing_exec (n : Node)
    (h : ∀ kv ∈ (parseMapping cfg "element of \"steps\" section" n false true).1,
      kv.id ≠ "run" ∧ kv.id ≠ "shell" ∧ kv.id ≠ "uses" ∧ kv.id ≠ "with") :
    errAt n "step-no-exec" [] ∈ (parseStep cfg n).2 := by
  have hs : (loop (stepKey cfg) { step := { pos := n.pos } } (parseMapping cfg "element of \"steps\" section" n false true).1).1.step.exec = .none := by
    apply loop_inv (stepKey cfg) (fun st => st.step.exec = .none)
    · intro s kv hm hs
      have := h kv hm
      simp only [stepKey]
      split <;> (try split) <;> simp_all
    · rfl
  simp only [parseStep, stepFinish, hs]
  simp

/-- `concurrency:` as a mapping without `group:` — reported at the `concurrency` key -/
theorem concurrency_missing_group (pos : Pos) (ps : List (Node × Node))
    (h : ∀ kv ∈ (parseMapping cfg (sectionWhat "concurrency") (mapNode tag l c ps) false true).1, kv.id ≠ "group") :
    (⟨pos, "concurrency-no-group", []⟩ : PErr) ∈ (parseConcurrency cfg pos (mapNode tag l c ps)).2 := by
  have hs : (loop concurrencyKey ({ pos := pos }, false) (parseMapping cfg (sectionWhat "concurrency") (mapNode tag l c ps) false true).1).1.2 = false := by
    apply loop_inv concurrencyKey (fun st => st.2 = false)
    · intro s kv hm hs
      have := h kv hm
      simp only [concurrencyKey]
      split <;> simp_all
    · rfl
  simp [parseConcurrency, parseSectionMapping, hs]

/-- `environment:` as a mapping without `name:` -/
theorem environment_missing_name (pos : Pos) (ps : List (Node × Node))
    (h : ∀ kv ∈ (parseMapping cfg (sectionWhat "environment") (mapNode tag l c ps) false true).1, kv.id ≠ "name") :
    (⟨pos, "environment-no-name", []⟩ : PErr) ∈ (parseEnvironment cfg pos (mapNode tag l c ps)).2 := by
  have hs : (loop environmentKey ({ pos := pos }, false) (parseMapping cfg (sectionWhat "environment") (mapNode tag l c ps) false true).1).1.2 = false := by
    apply loop_inv environmentKey (fun st => st.2 = false)
    · intro s kv hm hs
      have := h kv hm
      simp only [environmentKey]
      split <;> simp_all
    · rfl
  simp [parseEnvironment, parseSectionMapping, hs]

/-- an input of `workflow_call` without `type:` — reported at the input's name -/
theorem callInput_missing_type (kv : KV)
    (h : ∀ a ∈ (parseMapping cfg "input of workflow_call event" kv.val true true).1, a.id ≠ "type") :
    (⟨kv.key.pos, "call-input-type-missing", [kv.key.value]⟩ : PErr) ∈ (callInput cfg kv).2 := by
  have hs : (loop callInputAttr ({ name := kv.key, id := kv.id }, false) (parseMapping cfg "input of workflow_call event" kv.val true true).1).1.2 = false := by
    apply loop_inv callInputAttr (fun st => st.2 = false)
    · intro s a hm hs
      have := h a hm
      simp only [callInputAttr]
      split <;> (try split) <;> simp_all
    · rfl
  simp [callInput, hs]

/-- an output of `workflow_call` without `value:` -/
theorem callOutput_missing_value (kv : KV)
    (h : ∀ a ∈ (parseMapping cfg "output of workflow_call event" kv.val true true).1, a.id ≠ "value") :
    (⟨kv.key.pos, "call-output-value-missing", [kv.key.value]⟩ : PErr) ∈ (callOutput cfg kv).2 := by
  have hs : (loop callOutputAttr { name := kv.key } (parseMapping cfg "output of workflow_call event" kv.val true true).1).1.value = none := by
    apply loop_inv callOutputAttr (fun st => st.value = none)
    · intro s a hm hs
      have := h a hm
      simp only [callOutputAttr]
      split <;> simp_all
    · rfl
  simp [callOutput, hs]

/-- `defaults:` without `run:` -/
theorem defaults_missing_run (pos : Pos) (n : Node)
    (h : ∀ kv ∈ (parseMapping cfg (sectionWhat "defaults") n false true).1, kv.id ≠ "run") :
    errAt n "defaults-no-run" [] ∈ (parseDefaults cfg pos n).2 := by
  rw [parseDefaults_eq_run]
  have hs : (loop (defaultsStep cfg) none (parseMapping cfg (sectionWhat "defaults") n false true).1).1 = none := by
    apply loop_inv (defaultsStep cfg) (fun st => st = none)
    · intro s kv hm hs
      have := h kv hm
      simp [defaultsStep, this, hs]
    · rfl
  simp [Sect.run, defaultsSect, hs]

/-- `credentials:` without `username:` (respectively `password:`) — reported at the `credentials` key, and the other keys
of the container are still parsed (`containerKey` returns to the loop) -/
theorem credentials_missing_username (sec : String) (st : Container) (kv : KV) (hid : kv.id = "credentials")
    (hone : ∀ a ∈ (parseMapping cfg (sectionWhat "credentials") kv.val false true).1, a.id ≠ "username") :
    (⟨kv.key.pos, "credentials-pair", []⟩ : PErr) ∈ (containerKey cfg sec st kv).2 := by
  have hs : (loop credentialsKey { pos := kv.key.pos } (parseMapping cfg (sectionWhat "credentials") kv.val false true).1).1.username = none := by
    apply loop_inv credentialsKey (fun st => st.username = none)
    · intro s a hm hs
      have := hone a hm
      simp only [credentialsKey]
      split <;> simp_all
    · rfl
  simp [containerKey, hid, parseSectionMapping, hs]

theorem credentials_missing_password (sec : String) (st : Container) (kv : KV) (hid : kv.id = "credentials")
    (hone : ∀ a ∈ (parseMapping cfg (sectionWhat "credentials") kv.val false true).1, a.id ≠ "password") :
    (⟨kv.key.pos, "credentials-pair", []⟩ : PErr) ∈ (containerKey cfg sec st kv).2 := by
  have hs : (loop credentialsKey { pos := kv.key.pos } (parseMapping cfg (sectionWhat "credentials") kv.val false true).1).1.password = none := by
    apply loop_inv credentialsKey (fun st => st.password = none)
    · intro s a hm hs
      have := hone a hm
      simp only [credentialsKey]
      split <;> simp_all
    · rfl
  simp [containerKey, hid, parseSectionMapping, hs]

/-- a `schedule` item that is not exactly `{cron: …}` — an extra key, a repeated key, another key — is reported at the
item (this is what the property says for `schedule` items) -/
theorem schedule_item_reported (c0 : Node) (cs : List Node)
    (h : ∀ kv, (parseMapping cfg "element of \"schedule\" section" c0 false true).1 = [kv] → kv.id ≠ "cron") :
    errAt c0 "schedule-element" [] ∈ (scheduleItems cfg (c0 :: cs)).2 := by
  simp only [scheduleItems]
  split
  · rename_i kv heq
    have := h kv heq
    simp [this]
  · simp

end AL.C13P

namespace AL.C13P
open AL.PW AL.Yaml AL.Ast

/-! ### the hypotheses are satisfiable: a concrete job mapping -/

def exCfg : Cfg := ⟨AL.PW.asciiLower, fun _ => none, fun _ => .err⟩
def sc (v : String) (l c : Nat) : Node := .mk .scalar "!!str" v false l c []
def exPre : List (Node × Node) := [(sc "runs-on" 5 5, sc "ubuntu-latest" 5 14)]
def exPost : List (Node × Node) :=
  [(sc "steps" 7 5, .mk .sequence "!!seq" "" false 8 7 [mapNode "!!map" 8 9 [(sc "run" 8 9, sc "echo" 8 14)]])]

example : Foreign exCfg jobKeys exPre exPost (sc "bogus" 6 5) :=
  ⟨goodKey_of_scalar _ rfl (by decide), by decide, by decide, by decide⟩

/-- `bogus: x` between `runs-on` and `steps` of a job: one more diagnostic, at 6:5, the job node unchanged -/
example :
    (parseJob exCfg ⟨"build", false, ⟨4, 3⟩⟩ (mapNode "!!map" 5 5 (exPre ++ (sc "bogus" 6 5, sc "x" 6 12) :: exPost))).2
      = [unexpectedAt (sc "bogus" 6 5) "job" jobKeys] := by decide +kernel

example : (unexpectedAt (sc "bogus" 6 5) "job" jobKeys).pos = ⟨6, 5⟩ := rfl

example : Repeated exCfg true exPre (sc "runs-on" 6 5) := ⟨goodKey_of_scalar _ rfl (by decide), by decide⟩

/-- `Steps:` after `steps:` in `jobs:` (case-insensitive): `key-duplicated` at the repetition, naming the first one -/
example :
    (parseJobs exCfg (mapNode "!!map" 4 3
      [(sc "build" 4 3, mapNode "!!map" 5 5 (exPre ++ exPost)), (sc "BUILD" 9 3, mapNode "!!map" 10 5 (exPre ++ exPost))])).2
      = [dupAt (sc "BUILD" 9 3) (sectionWhat "jobs") ⟨4, 3⟩ false] := by decide +kernel

end AL.C13P
