import AL.Model.RuleExpr
/-
  C05 on AL.RuleExpr (all of rule_expression.go, tied by `exprwf`): how the `steps` scope evolves. The rule's own
  bookkeeping is `AL.Visit.addStep` — the function the scope theorems of AL.Props.C05Visit / C09Visit are about — applied
  after the step's own strings were checked, and nothing else of the scope changes while the steps are visited.
-/
namespace AL.C05E
open AL AL.Ast AL.Sema AL.RuleExpr

/-- the abstract step (AL.Visit) of an AST step -/
def stepM (cx : Cx) (n : Step) : AL.Visit.StepM :=
  { id := n.id.map (·.value),
    idExpr := match n.id with | some i => AL.Rules.containsExpr i | none => false,
    outputs := actionOutputsTy cx.proj.actionOutputs (stepExec cx n.exec).2,
    probes := [] }

/-- a step's own strings are checked under the scope BEFORE the step; afterwards `steps` is `Visit.addStep` of it, and
`matrix` / `needs` / the header are untouched -/
theorem visitStep_scope (cx : Cx) (n : Step) :
    (visitStep cx n).1.st.stepsTy = cx.st.stepsTy.map (fun t => AL.Visit.addStep cx.lower t (stepM cx n)) ∧
    (visitStep cx n).1.st.matrixTy = cx.st.matrixTy ∧ (visitStep cx n).1.st.needsTy = cx.st.needsTy ∧
    (visitStep cx n).1.hdr = cx.hdr ∧ (visitStep cx n).1.lower = cx.lower ∧ (visitStep cx n).1.jobsTy = cx.jobsTy := by
  simp only [visitStep, stepM]
  cases hid : n.id with
  | none =>
    refine ⟨?_, rfl, rfl, rfl, rfl, rfl⟩
    cases cx.st.stepsTy <;> simp [AL.Visit.addStep]
  | some id =>
    refine ⟨?_, rfl, rfl, rfl, rfl, rfl⟩
    cases cx.st.stepsTy with
    | none => rfl
    | some t =>
      simp only [Option.map_some, AL.Visit.addStep, Option.some.injEq]
      generalize (if AL.Rules.containsExpr id = true then AL.Visit.loosen t else t) = t'
      cases t' <;> rfl

/-- the diagnostics of a step do not depend on the steps after it -/
theorem visitSteps_prefix (cx : Cx) (pre post : List Step) :
    (visitSteps cx (pre ++ post)).2 = (visitSteps cx pre).2 ++ (visitSteps (visitSteps cx pre).1 post).2 ∧
    (visitSteps cx (pre ++ post)).1 = (visitSteps (visitSteps cx pre).1 post).1 := by
  induction pre generalizing cx with
  | nil => simp [visitSteps]
  | cons s rest ih =>
    simp only [List.cons_append, visitSteps]
    obtain ⟨h1, h2⟩ := ih (visitStep cx s).1
    rw [h1, h2]
    simp [List.append_assoc]

/-- the scope after a list of steps is the scope before it with `Visit.addStep` folded over them -/
theorem visitSteps_scope (steps : List Step) : ∀ (cx : Cx),
    (visitSteps cx steps).1.st.matrixTy = cx.st.matrixTy ∧ (visitSteps cx steps).1.st.needsTy = cx.st.needsTy ∧
    (visitSteps cx steps).1.hdr = cx.hdr ∧ (visitSteps cx steps).1.lower = cx.lower := by
  induction steps with
  | nil => intro cx; exact ⟨rfl, rfl, rfl, rfl⟩
  | cons s rest ih =>
    intro cx
    simp only [visitSteps]
    obtain ⟨a, b, c, d⟩ := ih (visitStep cx s).1
    obtain ⟨_, a', b', c', d', _⟩ := visitStep_scope cx s
    exact ⟨a.trans a', b.trans b', c.trans c', d.trans d'⟩

end AL.C05E
