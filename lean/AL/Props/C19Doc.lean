import AL.Props.C19Parse
import AL.Props.C05Doc
/-
  C19 from the DOCUMENT: the `matrix-duplicate` report of rule matrix in terms of what is WRITTEN under a literal `matrix:`.

  Document side (node tree + the parser's raw value of one element):
    `docMatrixRows cfg mx`  the pairs written under `matrix:` whose folded key is neither `include` nor `exclude`
    `docRaw cfg c`          the raw value `parseRawYAMLValue` builds from the element `c`
    `DocSame cfg a b`       `AL.Spec.Same` (structural equality modulo the order of mapping members, positions ignored) of
                            the raw values of two elements

  For a document the parser accepts without a diagnostic and a job whose `matrix:` is written as a mapping:
    matrix_rows_written   the rows of the matrix of the AST are the rows written, in order; a row written as a sequence holds
                          the raw values of its elements, in order
    doc_dup_at_pos        **a duplicate is reported at position `pos` iff some row sequence has at `pos` an element that is
                          the same value as an EARLIER element written in that sequence**
    docSame_scalars       for two scalar elements: the same text
-/
namespace AL.C19D
open AL AL.PW AL.Ast AL.Spec AL.C03P AL.C05D AL.C19P

/-! ## the parser's raw values of the elements of a sequence -/

/-- the raw value `parseRawYAMLValue` builds from an element -/
def docRaw (cfg : Cfg) (c : Yaml.Node) : Matrix.Raw := ((rawValue cfg c).1).getD (.str "" ⟨0, 0⟩)

/-- two elements are the same value -/
def DocSame (cfg : Cfg) (a b : Yaml.Node) : Prop := Same (docRaw cfg a) (docRaw cfg b)

theorem rawValue_pos (cfg : Cfg) (n : Yaml.Node) (x : Matrix.Raw) (h : (rawValue cfg n).1 = some x) : x.pos = n.pos := by
  obtain ⟨k, t, v, q, l, c, cs⟩ := n
  cases k <;> simp [rawValue] at h <;> (subst h; rfl)

/-- a sequence accepted without a diagnostic: one raw value per element, in order, at the element's position -/
theorem rawSeq_clean (cfg : Cfg) : ∀ (cs : List Yaml.Node), (rawSeq cfg cs).2 = [] →
    (rawSeq cfg cs).1 = cs.map (docRaw cfg) ∧ ∀ c ∈ cs, (docRaw cfg c).pos = c.pos
  | [], _ => by simp [rawSeq]
  | c :: cs, h => by
    simp only [rawSeq, append_nil_iff] at h
    obtain ⟨x, hx⟩ := rawValue_clean_some cfg c h.1
    obtain ⟨ih1, ih2⟩ := rawSeq_clean cfg cs h.2
    refine ⟨?_, ?_⟩
    · simp only [rawSeq, hx, List.map_cons, ih1, docRaw, Option.getD_some]
    · intro c' hc'
      rcases List.mem_cons.1 hc' with rfl | hc'
      · simp only [docRaw, hx, Option.getD_some]; exact rawValue_pos cfg _ x hx
      · exact ih2 c' hc'

/-- two scalar elements are the same value iff they have the same text -/
theorem docSame_scalars (cfg : Cfg) (a b : Yaml.Node) (ha : a.kind = .scalar) (hb : b.kind = .scalar) :
    DocSame cfg a b ↔ a.value = b.value := by
  obtain ⟨k, t, v, q, l, c, cs⟩ := a
  obtain ⟨k', t', v', q', l', c', cs'⟩ := b
  simp only [Yaml.Node.kind] at ha hb
  subst ha hb
  simp only [DocSame, docRaw, rawValue, Option.getD_some, Yaml.Node.value]
  constructor
  · intro h; cases h; rfl
  · intro h; subst h; exact .str _ _ _

/-! ## the rows of a literal `matrix:` -/

/-- the rows written under a `matrix:` mapping: the pairs whose folded key is neither `include` nor `exclude` -/
def docMatrixRows (cfg : Cfg) (mx : Yaml.Node) : List (Yaml.Node × Yaml.Node) :=
  (Yaml.pairs mx.content).filter fun p => isRowId (cfg.lower p.1.value)

/-- the row the parser builds from one entry of `matrix:` -/
def rowOf (cfg : Cfg) (kv : KV) : String × MatrixRow :=
  (kv.id, if kv.val.kind = .scalar then ⟨none, none, (parseExpression kv.val "array value for matrix variations").1⟩
          else ⟨some kv.key, some (rawSeq cfg kv.val.content).1, none⟩)

theorem setAssoc_fresh {β : Type} (k : String) (v : β) : ∀ (l : List (String × β)), k ∉ l.map (·.1) →
    setAssoc k v l = l ++ [(k, v)]
  | [], _ => rfl
  | (k', v') :: rest, h => by
    simp only [List.map_cons, List.mem_cons, not_or] at h
    simp only [setAssoc]
    rw [if_neg (fun e => h.1 e.symm), setAssoc_fresh k v rest h.2]
    rfl

/-- one clean iteration of the loop of `parseMatrix` on a fresh id: the row is appended; `include` / `exclude` are no rows -/
theorem matrixKey_rows (cfg : Cfg) (st : Ast.Matrix) (kv : KV) (hc : (matrixKey cfg st kv).2 = []) (hn : kv.id ∉ rowKeys st) :
    (matrixKey cfg st kv).1.rows.getD [] = st.rows.getD [] ++ (if isRowId kv.id then [rowOf cfg kv] else []) := by
  have hset : ∀ row : MatrixRow, setAssoc kv.id row (st.rows.getD []) = st.rows.getD [] ++ [(kv.id, row)] :=
    fun row => setAssoc_fresh _ _ _ hn
  revert hc
  simp only [matrixKey]
  split
  · rename_i h; intro _; simp [isRowId, h]
  · rename_i h; intro _; simp [isRowId, h]
  · rename_i h1 h2
    have hrow : isRowId kv.id = true := by
      simp only [isRowId, Bool.and_eq_true, decide_eq_true_eq]
      exact ⟨fun e => h1 e, fun e => h2 e⟩
    simp only [hrow, if_true, rowOf]
    split
    · intro _; simp only [Option.getD_some, hset]
    · rename_i hs
      split
      · rename_i hcs
        intro hc
        have := checkSequence_clean "matrix values" kv.val false hc
        simp [this.2] at hcs
      · intro _; simp only [Option.getD_some, hset]

/-- a clean iteration on a row written as a sequence: the sequence was clean -/
theorem matrixKey_row_clean (cfg : Cfg) (st : Ast.Matrix) (kv : KV) (hc : (matrixKey cfg st kv).2 = [])
    (hrow : isRowId kv.id = true) (hs : kv.val.kind ≠ .scalar) : (rawSeq cfg kv.val.content).2 = [] := by
  simp only [isRowId, Bool.and_eq_true, decide_eq_true_eq] at hrow
  revert hc
  simp only [matrixKey]
  split
  · rename_i h; exact absurd h hrow.1
  · rename_i h; exact absurd h hrow.2
  · simp only [hs, if_false]
    split
    · rename_i hcs
      intro hc
      have := checkSequence_clean "matrix values" kv.val false hc
      simp [this.2] at hcs
    · intro hc; exact (append_nil_iff.1 hc).2

theorem loop_rows (cfg : Cfg) : ∀ (kvs : List KV) (st : Ast.Matrix), (loop (matrixKey cfg) st kvs).2 = [] →
    (kvs.map (·.id)).Nodup → (∀ kv ∈ kvs, kv.id ∉ rowKeys st) →
    (loop (matrixKey cfg) st kvs).1.rows.getD [] = st.rows.getD [] ++ (kvs.filter fun kv => isRowId kv.id).map (rowOf cfg)
  | [], st, _, _, _ => by simp
  | x :: rest, st, hc, hnd, hfresh => by
    rw [loop_clean_cons] at hc
    simp only [List.map_cons, List.nodup_cons, List.mem_map, not_exists, not_and] at hnd
    have h1 := matrixKey_rowKeys cfg st x hc.1 (hfresh x (List.mem_cons_self ..))
    have h2 := matrixKey_rows cfg st x hc.1 (hfresh x (List.mem_cons_self ..))
    rw [loop_cons_fst, loop_rows cfg rest _ hc.2 hnd.2 ?_, h2]
    · simp only [List.filter_cons]
      split <;> simp
    · intro kv hk
      rw [h1]
      simp only [List.mem_append, not_or]
      refine ⟨hfresh kv (List.mem_cons_of_mem _ hk), ?_⟩
      split
      · simp only [List.mem_singleton]
        exact fun e => hnd.1 kv hk e
      · simp

/-- **a `matrix:` written as a mapping, accepted without a diagnostic**: its rows are the rows written, in order -/
theorem parseMatrix_rows (cfg : Cfg) (pos : Yaml.Pos) (mx : Yaml.Node) (hk : mx.kind ≠ .scalar) (h : (parseMatrix cfg pos mx).2 = []) :
    (parseMatrix cfg pos mx).1.rows.getD [] = (docMatrixRows cfg mx).map fun p => rowOf cfg (kvOf cfg false p) := by
  simp only [parseMatrix, hk, if_false, append_nil_iff, parseSectionMapping] at h ⊢
  have he := parseMapping_clean_eq cfg (sectionWhat "matrix") mx false false h.1
  have hnd := parseMapping_nodup cfg (sectionWhat "matrix") mx false false
  rw [loop_rows cfg _ _ h.2 hnd (by intro kv _; simp [rowKeys]), he]
  simp only [Option.getD_some, List.nil_append, List.filter_map, List.map_map, docMatrixRows]
  congr 2

/-- a row written as a sequence was read without a diagnostic -/
theorem parseMatrix_row_clean (cfg : Cfg) (pos : Yaml.Pos) (mx : Yaml.Node) (hk : mx.kind ≠ .scalar) (h : (parseMatrix cfg pos mx).2 = [])
    (p : Yaml.Node × Yaml.Node) (hp : p ∈ docMatrixRows cfg mx) (hs : p.2.kind ≠ .scalar) : (rawSeq cfg p.2.content).2 = [] := by
  simp only [parseMatrix, hk, if_false, append_nil_iff, parseSectionMapping] at h
  obtain ⟨hmem, hrow⟩ := List.mem_filter.1 hp
  obtain ⟨st, hc⟩ := sect_clean_at cfg _ mx false false (matrixKey cfg) _ h.1 h.2 p hmem
  have := matrixKey_row_clean cfg st (kvOf cfg false p) hc (by simpa [kvOf_false] using hrow) (by simpa [kvOf_false] using hs)
  simpa [kvOf_false] using this

/-- the view of a row the rule works on -/
def ruleRow (cfg : Cfg) (p : Yaml.Node × Yaml.Node) : Matrix.Row :=
  ⟨cfg.lower p.1.value,
   if p.2.kind = .scalar then
     (if (parseExpression p.2 "array value for matrix variations").1.isSome then none else some [])
   else some (p.2.content.map (docRaw cfg))⟩

/-- **the rows the rule checks are the rows written under `matrix:`**, in order, keyed by the folded key; a row written as
a sequence holds the raw values of its elements, in order (a row written as a scalar holds no value) -/
theorem matrix_rows_written (cfg : Cfg) (pos : Yaml.Pos) (mx : Yaml.Node) (hk : mx.kind ≠ .scalar) (h : (parseMatrix cfg pos mx).2 = []) :
    (Rules.matrixOf (parseMatrix cfg pos mx).1).rows = (docMatrixRows cfg mx).map (ruleRow cfg) := by
  simp only [Rules.matrixOf, parseMatrix_rows cfg pos mx hk h, List.map_map]
  apply List.map_congr_left
  intro p hp
  simp only [Function.comp, rowOf, kvOf_false, ruleRow]
  by_cases hs : p.2.kind = .scalar
  · simp [hs]
  · simp only [hs, if_false, Option.isSome_none, Bool.false_eq_true, Option.getD_some]
    rw [(rawSeq_clean cfg _ (parseMatrix_row_clean cfg pos mx hk h p hp hs)).1]

/-! ## the duplicate report, on the document -/

theorem idx_iff (vs : List Matrix.Raw) (p : Matrix.P) :
    (∃ k, ∃ (hk : k < vs.length), (vs[k]).pos = p ∧ ∃ i, ∃ (hi : i < k), Same (vs[i]'(Nat.lt_trans hi hk)) vs[k]) ↔
    ∃ (k : Nat) (x : Matrix.Raw), vs[k]? = some x ∧ x.pos = p ∧ ∃ (i : Nat) (y : Matrix.Raw), i < k ∧ vs[i]? = some y ∧ Same y x := by
  constructor
  · rintro ⟨k, hk, hp, i, hi, hs⟩
    exact ⟨k, vs[k], List.getElem?_eq_getElem hk, hp, i, vs[i]'(Nat.lt_trans hi hk), hi, List.getElem?_eq_getElem _, hs⟩
  · rintro ⟨k, x, hx, hp, i, y, hi, hy, hs⟩
    obtain ⟨hk, rfl⟩ := List.getElem?_eq_some_iff.1 hx
    obtain ⟨_, rfl⟩ := List.getElem?_eq_some_iff.1 hy
    exact ⟨k, hk, hp, i, hi, hs⟩

/-- **C19 (d) on the document**: for a job whose `matrix:` is written as a mapping, rule matrix reports a duplicate at
position `pos` iff some row written as a sequence has at `pos` an element that is the same value (`DocSame`) as an EARLIER
element written in the same sequence. -/
theorem doc_dup_at_pos (cfg : Cfg) (doc : Yaml.Node) (h : (parse cfg doc).2 = []) (p : Yaml.Node × Yaml.Node) (hp : p ∈ docJobs doc)
    (mx : Yaml.Node) (hmx : docMatrix p.2 = some mx) (hk : mx.kind ≠ .scalar) (pos : Matrix.P) :
    (∃ d ∈ Rules.matrixJob (docJob cfg p), d.code = "matrix-duplicate" ∧ d.pos = pos) ↔
    ∃ row ∈ docMatrixRows cfg mx, row.2.kind ≠ .scalar ∧
      ∃ (k : Nat) (c : Yaml.Node), row.2.content[k]? = some c ∧ c.pos = pos ∧ ∃ (i : Nat) (c' : Yaml.Node), i < k ∧ row.2.content[i]? = some c' ∧ DocSame cfg c' c := by
  obtain ⟨pos0, e, hc⟩ := parseJob_matrix cfg _ _ (job_clean cfg doc h p hp) mx hmx
  have hj : docJob cfg p ∈ Rules.jobsOf (parse cfg doc).1 := by
    have := job_mem cfg doc h p hp
    unfold docJobsAst at this
    exact List.mem_map.2 ⟨_, this, rfl⟩
  obtain ⟨s, hs, hm⟩ := Option.bind_eq_some_iff.1 e
  have he : (parseMatrix cfg pos0 mx).1.expr = none := (parseMatrix_lit cfg pos0 mx hk hc).1
  rw [rule_dup_at_pos cfg doc (docJob cfg p) hj s _ hs hm he pos, matrix_rows_written cfg pos0 mx hk hc]
  simp only [idx_iff, List.mem_map]
  constructor
  · rintro ⟨r, ⟨row, hrow, rfl⟩, vs, hvs, k, x, hx, hpx, i, y, hi, hy, hsame⟩
    by_cases hsc : row.2.kind = .scalar
    · simp only [ruleRow, hsc, if_true] at hvs
      split at hvs
      · cases hvs
      · simp only [Option.some.injEq] at hvs; subst hvs; simp at hx
    · simp only [ruleRow, hsc, if_false, Option.some.injEq] at hvs
      subst hvs
      simp only [List.getElem?_map, Option.map_eq_some_iff] at hx hy
      obtain ⟨c, hc1, rfl⟩ := hx
      obtain ⟨c', hc2, rfl⟩ := hy
      have hposc := (rawSeq_clean cfg _ (parseMatrix_row_clean cfg pos0 mx hk hc row hrow hsc)).2 c (List.mem_of_getElem? hc1)
      exact ⟨row, hrow, hsc, k, c, hc1, by rw [← hposc]; exact hpx, i, c', hi, hc2, hsame⟩
  · rintro ⟨row, hrow, hsc, k, c, hc1, hpc, i, c', hi, hc2, hsame⟩
    have hposc := (rawSeq_clean cfg _ (parseMatrix_row_clean cfg pos0 mx hk hc row hrow hsc)).2 c (List.mem_of_getElem? hc1)
    refine ⟨_, ⟨row, hrow, rfl⟩, row.2.content.map (docRaw cfg), by simp only [ruleRow, hsc, if_false], k, docRaw cfg c, ?_,
      by rw [hposc]; exact hpc, i, docRaw cfg c', hi, ?_, hsame⟩
    · simp [List.getElem?_map, hc1]
    · simp [List.getElem?_map, hc2]

/-- `DocSame` is what `RawYAMLValue.Equals` computes on the raw values of the two elements (decidable on a concrete document) -/
theorem docSame_iff_equals (cfg : Cfg) (a b : Yaml.Node) : DocSame cfg a b ↔ Matrix.equals (docRaw cfg a) (docRaw cfg b) = true :=
  (C19.equals_iff_same_all _ _).symm

/-! ## a concrete document

```
on: push
jobs:
  T:
    runs-on: u
    strategy:
      matrix: { OS: [linux, mac, linux, {k: x, j: y}, {j: y, k: x}],
                ver: [1, 01],
                Include: [{os: win}] }
    steps:
      - run: x
```
-/
section Example

def xCfg : Cfg := ⟨asciiLower, fun _ => none, fun _ => .err⟩
def sc (v : String) (l c : Nat) : Yaml.Node := .mk .scalar "!!str" v false l c []
def mp (l c : Nat) (cs : List Yaml.Node) : Yaml.Node := .mk .mapping "!!map" "" false l c cs
def sq (l c : Nat) (cs : List Yaml.Node) : Yaml.Node := .mk .sequence "!!seq" "" false l c cs
def xM1 : Yaml.Node := mp 6 33 [sc "k" 6 34, sc "x" 6 37, sc "j" 6 40, sc "y" 6 43]
def xM2 : Yaml.Node := mp 6 47 [sc "j" 6 48, sc "y" 6 51, sc "k" 6 54, sc "x" 6 57]
def xOs : Yaml.Node := sq 6 13 [sc "linux" 6 14, sc "mac" 6 21, sc "linux" 6 26, xM1, xM2]
def xVer : Yaml.Node := sq 7 14 [sc "1" 7 15, sc "01" 7 18]
def xMx : Yaml.Node := mp 6 9 [sc "OS" 6 9, xOs, sc "ver" 7 9, xVer, sc "Include" 8 9, sq 8 18 [mp 8 19 [sc "os" 8 20, sc "win" 8 24]]]
def xJob : Yaml.Node := mp 4 5 [sc "runs-on" 4 5, sc "u" 4 14, sc "strategy" 5 5, mp 6 7 [sc "matrix" 6 7, xMx],
  sc "steps" 9 5, sq 10 7 [mp 10 9 [sc "run" 10 9, sc "x" 10 14]]]
def pT : Yaml.Node × Yaml.Node := (sc "T" 3 3, xJob)
def xDoc : Yaml.Node := .mk .document "" "" false 1 1 [mp 1 1 [sc "on" 1 1, sc "push" 1 5, sc "jobs" 2 1, mp 3 3 [pT.1, pT.2]]]

theorem xDoc_clean : (parse xCfg xDoc).2 = [] := by decide +kernel
theorem pT_mem : pT ∈ docJobs xDoc := by rw [show docJobs xDoc = [pT] from rfl]; simp
theorem xMx_written : docMatrix pT.2 = some xMx := by rfl
theorem xMx_kind : xMx.kind ≠ .scalar := by decide
/-- the rows written: `OS` and `ver`; `Include` (folded: `include`) is no row -/
theorem xRows : docMatrixRows xCfg xMx = [(sc "OS" 6 9, xOs), (sc "ver" 7 9, xVer)] := by rfl
theorem xOs_mem : (sc "OS" 6 9, xOs) ∈ docMatrixRows xCfg xMx := by rw [xRows]; simp
theorem xMx_clean : (parseMatrix xCfg ⟨6, 7⟩ xMx).2 = [] := by decide +kernel

/-- what the rule reports on the job (evaluated) -/
theorem xRule : Rules.matrixJob (docJob xCfg pT) =
    [⟨⟨6, 26⟩, "matrix", "matrix-duplicate", ["line:6,col:14"]⟩, ⟨⟨6, 47⟩, "matrix", "matrix-duplicate", ["line:6,col:33"]⟩] := by
  decide +kernel

/-- **from what is written**: the third element of `OS:` is `linux` again — reported at its position -/
theorem example_dup_scalar : ∃ d ∈ Rules.matrixJob (docJob xCfg pT), d.code = "matrix-duplicate" ∧ d.pos = ⟨6, 26⟩ :=
  (doc_dup_at_pos xCfg xDoc xDoc_clean pT pT_mem xMx xMx_written xMx_kind ⟨6, 26⟩).2
    ⟨_, xOs_mem, by decide, 2, sc "linux" 6 26, rfl, rfl, 0, sc "linux" 6 14, by decide, rfl,
      (docSame_scalars xCfg _ _ rfl rfl).2 rfl⟩

/-- `{j: y, k: x}` is the same value as the earlier `{k: x, j: y}` (members in another order) — reported -/
theorem example_dup_mapping : ∃ d ∈ Rules.matrixJob (docJob xCfg pT), d.code = "matrix-duplicate" ∧ d.pos = ⟨6, 47⟩ :=
  (doc_dup_at_pos xCfg xDoc xDoc_clean pT pT_mem xMx xMx_written xMx_kind ⟨6, 47⟩).2
    ⟨_, xOs_mem, by decide, 4, xM2, rfl, rfl, 3, xM1, by decide, rfl, (docSame_iff_equals xCfg xM1 xM2).2 (by decide +kernel)⟩

/-- the other direction: the report at 6:26 comes from an earlier element of a row sequence that is the same value -/
example : ∃ row ∈ docMatrixRows xCfg xMx, row.2.kind ≠ .scalar ∧
    ∃ (k : Nat) (c : Yaml.Node), row.2.content[k]? = some c ∧ c.pos = ⟨6, 26⟩ ∧
      ∃ (i : Nat) (c' : Yaml.Node), i < k ∧ row.2.content[i]? = some c' ∧ DocSame xCfg c' c :=
  (doc_dup_at_pos xCfg xDoc xDoc_clean pT pT_mem xMx xMx_written xMx_kind ⟨6, 26⟩).1
    ⟨_, by rw [xRule]; exact List.mem_cons_self, rfl, rfl⟩

/-- `01` after `1` in `ver:` is NOT a duplicate: the texts differ (no numeric reading), nothing is reported at 7:18 -/
theorem example_no_dup : ¬ DocSame xCfg (sc "1" 7 15) (sc "01" 7 18) ∧
    ¬ ∃ d ∈ Rules.matrixJob (docJob xCfg pT), d.code = "matrix-duplicate" ∧ d.pos = ⟨7, 18⟩ := by
  refine ⟨fun hh => ?_, ?_⟩
  · have := (docSame_scalars xCfg _ _ rfl rfl).1 hh
    simp [sc, Yaml.Node.value] at this
  · rw [xRule]; simp

/-! ### the remaining theorems, on the example -/

example : (docRaw xCfg xM1).pos = xM1.pos := rawValue_pos xCfg xM1 _ rfl
example : (rawSeq xCfg xOs.content).1 = xOs.content.map (docRaw xCfg) ∧ ∀ c ∈ xOs.content, (docRaw xCfg c).pos = c.pos :=
  rawSeq_clean xCfg _ (by decide +kernel)
example : DocSame xCfg (sc "mac" 6 21) (sc "mac" 9 9) := (docSame_scalars xCfg _ _ rfl rfl).2 rfl
example : setAssoc "c" 2 [("a", 0), ("b", 1)] = [("a", 0), ("b", 1)] ++ [("c", 2)] := setAssoc_fresh _ _ _ (by decide)
def xKv : KV := kvOf xCfg false (sc "OS" 6 9, xOs)
def xSt : Ast.Matrix := { rows := some [], pos := ⟨6, 7⟩ }
theorem xKv_clean : (matrixKey xCfg xSt xKv).2 = [] := by decide +kernel
example : (matrixKey xCfg xSt xKv).1.rows.getD [] = xSt.rows.getD [] ++ (if isRowId xKv.id then [rowOf xCfg xKv] else []) :=
  matrixKey_rows xCfg xSt xKv xKv_clean (by simp [rowKeys, xSt])
example : (rawSeq xCfg xKv.val.content).2 = [] := matrixKey_row_clean xCfg xSt xKv xKv_clean (by decide +kernel) (by decide)
example : (loop (matrixKey xCfg) xSt [xKv]).1.rows.getD [] = xSt.rows.getD [] ++ ([xKv].filter fun kv => isRowId kv.id).map (rowOf xCfg) :=
  loop_rows xCfg [xKv] xSt (by decide +kernel) (by simp) (by simp [rowKeys, xSt])
example : (parseMatrix xCfg ⟨6, 7⟩ xMx).1.rows.getD [] = (docMatrixRows xCfg xMx).map fun p => rowOf xCfg (kvOf xCfg false p) :=
  parseMatrix_rows xCfg _ xMx xMx_kind xMx_clean
example : (rawSeq xCfg xOs.content).2 = [] := parseMatrix_row_clean xCfg ⟨6, 7⟩ xMx xMx_kind xMx_clean _ xOs_mem (by decide)
example : (Rules.matrixOf (parseMatrix xCfg ⟨6, 7⟩ xMx).1).rows = (docMatrixRows xCfg xMx).map (ruleRow xCfg) :=
  matrix_rows_written xCfg _ xMx xMx_kind xMx_clean
example : (ruleRow xCfg (sc "ver" 7 9, xVer)) = ⟨"ver", some [.str "1" ⟨7, 15⟩, .str "01" ⟨7, 18⟩]⟩ := by rfl

end Example

end AL.C19D
