import AL.Model.Facts
import AL.Spec.Syntax
import AL.Gen.Syntax
/-
  C13 — unknown, duplicate and missing keys are reported in every section.
  Facts about parse.go, re-checked against the regenerated tables on every run, plus a small model of
  `parseMapping` with the "never suppresses siblings" theorem.
-/
namespace AL.C13
open AL.Facts AL.Spec.Syntax

/-- keys accepted by the `switch kv.id` statements of one parse function -/
def keysOf (fn : String) : List String :=
  sortDedup ((AL.Gen.parseCases.filter fun c => c.1 = fn && c.2.1 ≠ "").map (·.2.1))

/-- (a) the accepted key set of every fixed mapping equals the set in GitHub's workflow-syntax reference. -/
def key_sets_check : Bool :=
  keySets.all (fun ks => keysOf ks.1 = ks.2) &&
  -- and no parse function with a key switch is missing from the specification
  (sortDedup (AL.Gen.parseCases.map (·.1))).all (fun fn => keySets.any (·.1 = fn))

theorem key_sets : key_sets_check = true := by decide +kernel

/-- number of `default:` branches of `fn` that call `unexpectedKey` -/
def unexpectedDefaults (fn : String) : Nat :=
  (AL.Gen.parseCases.filter fun c => c.1 = fn && c.2.1 = "" && c.2.2.contains "!unexpectedKey").length

/-- (b) every key switch over a fixed key set ends in a `default:` that reports the unexpected key
(the switches without one — events, matrix rows, `with:` inputs — accept arbitrary names by design). -/
def defaults_check : Bool :=
  unexpectedKeyDefaults.all (fun d => unexpectedDefaults d.1 = d.2) &&
  (sortDedup (AL.Gen.parseCases.map (·.1))).all (fun fn =>
    unexpectedKeyDefaults.any (·.1 = fn) || fn = "parseEvents" || fn = "parseMatrix")

theorem defaults_report : defaults_check = true := by decide +kernel

/-- (c) duplicate detection is case-insensitive exactly for the mappings whose keys are user-chosen names. -/
def case_insensitive_check : Bool :=
  let ci := (AL.Gen.parseMappings.filter fun m => m.2.2.2 = "false").map fun m => (m.1, m.2.1)
  ci.all (fun x => caseInsensitiveSections.contains x) && caseInsensitiveSections.all (fun x => ci.contains x)

theorem case_insensitive_sections : case_insensitive_check = true := by decide +kernel

/-! ### a model of `parseMapping` -/

structure KV where
  id  : String      -- key, folded when the mapping is case-insensitive
  key : String      -- key as written
  pos : Nat
deriving Repr, DecidableEq

inductive MDiag where
  | duplicated (pos : Nat) (key : String)
  | unexpected (pos : Nat) (key : String)
  | child (id : String) (n : Nat)        -- the n-th diagnostic produced by the value of key `id`
deriving Repr, DecidableEq

/-- `parseMapping`: the first occurrence of an id wins; a repetition is reported and skipped -/
def dedup (fold : String → String) : List (String × Nat) → List String → List KV × List MDiag
  | [], _ => ([], [])
  | (k, p) :: rest, seen =>
    let id := fold k
    if seen.contains id then
      let (kvs, ds) := dedup fold rest seen
      (kvs, .duplicated p k :: ds)
    else
      let (kvs, ds) := dedup fold rest (seen ++ [id])
      (⟨id, k, p⟩ :: kvs, ds)

/-- the per-key loop of a `parseX`: accepted keys run their handler (which yields the diagnostics of that
key's subtree), everything else hits `default: unexpectedKey` and the loop continues -/
def handle (accepted : List String) (childDiags : String → Nat) : List KV → List MDiag
  | [] => []
  | kv :: rest =>
    (if accepted.contains kv.id then (List.range (childDiags kv.id)).map (MDiag.child kv.id)
     else [MDiag.unexpected kv.pos kv.key]) ++ handle accepted childDiags rest

def parseSection (fold : String → String) (accepted : List String) (childDiags : String → Nat) (pairs : List (String × Nat)) : List MDiag :=
  let (kvs, d) := dedup fold pairs []
  d ++ handle accepted childDiags kvs

/-- (d) THE PROPERTY ("never suppresses siblings"): inserting a pair whose key is neither accepted nor a
repetition adds exactly the `unexpected` diagnostic at that key and changes nothing else, wherever it is
inserted. -/
def unknown_key_statement : Prop :=
  ∀ (fold : String → String) (accepted : List String) (cd : String → Nat) (pre post : List (String × Nat)) (k : String) (p : Nat),
    accepted.contains (fold k) = false → (∀ q ∈ pre ++ post, fold q.1 ≠ fold k) →
    (parseSection fold accepted cd (pre ++ (k, p) :: post)).Perm
      (MDiag.unexpected p k :: parseSection fold accepted cd (pre ++ post))

/-- (e) repeating an earlier key (in any letter case the mapping folds) adds exactly the `duplicated`
diagnostic at the repetition and changes nothing else. -/
def duplicate_key_statement : Prop :=
  ∀ (fold : String → String) (accepted : List String) (cd : String → Nat) (pre post : List (String × Nat)) (k : String) (p : Nat),
    (∃ q ∈ pre, fold q.1 = fold k) →
    (parseSection fold accepted cd (pre ++ (k, p) :: post)).Perm
      (MDiag.duplicated p k :: parseSection fold accepted cd (pre ++ post))

end AL.C13
