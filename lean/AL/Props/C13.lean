import AL.Model.Facts
import AL.Spec.Syntax
import AL.Gen.Syntax
import AL.Lemmas.ParseMapping
/-
  C13 — unknown, duplicate and missing keys are reported in every section.
  Facts about parse.go, re-checked against the regenerated tables on every run, plus a small model of
  `parseMapping` with the "never suppresses siblings" theorem.
-/
namespace AL.C13
open AL.Facts AL.Spec.Syntax

/-- keys accepted by the `switch kv.id` statements of one parse function -/
def keysOf (fn : String) : List String :=
  sortDedup ((AL.Gen.parseCases.filter fun c => c.1 = fn && c.2.1 ≠ "").map (·.2.1))

/-- (a) the accepted key set of every fixed mapping equals the set in GitHub's workflow-syntax reference. -/
def key_sets_check : Bool :=
  keySets.all (fun ks => keysOf ks.1 = ks.2) &&
  -- and no parse function with a key switch is missing from the specification
  (sortDedup (AL.Gen.parseCases.map (·.1))).all (fun fn => keySets.any (·.1 = fn))

theorem key_sets : key_sets_check = true := by decide +kernel

/-- number of `default:` branches of `fn` that call `unexpectedKey` -/
def unexpectedDefaults (fn : String) : Nat :=
  (AL.Gen.parseCases.filter fun c => c.1 = fn && c.2.1 = "" && c.2.2.contains "!unexpectedKey").length

/-- (b) every key switch over a fixed key set ends in a `default:` that reports the unexpected key
(the switches without one — events, matrix rows, `with:` inputs — accept arbitrary names by design). -/
def defaults_check : Bool :=
  unexpectedKeyDefaults.all (fun d => unexpectedDefaults d.1 = d.2) &&
  (sortDedup (AL.Gen.parseCases.map (·.1))).all (fun fn =>
    unexpectedKeyDefaults.any (·.1 = fn) || fn = "parseEvents" || fn = "parseMatrix")

theorem defaults_report : defaults_check = true := by decide +kernel

/-- (c) duplicate detection is case-insensitive exactly for the mappings whose keys are user-chosen names. -/
def case_insensitive_check : Bool :=
  let ci := (AL.Gen.parseMappings.filter fun m => m.2.2.2 = "false").map fun m => (m.1, m.2.1)
  ci.all (fun x => caseInsensitiveSections.contains x) && caseInsensitiveSections.all (fun x => ci.contains x)

theorem case_insensitive_sections : case_insensitive_check = true := by decide +kernel

/-! ### a model of `parseMapping` -/

structure KV where
  id  : String      -- key, folded when the mapping is case-insensitive
  key : String      -- key as written
  pos : Nat
deriving Repr, DecidableEq

inductive MDiag where
  | duplicated (pos : Nat) (key : String)
  | unexpected (pos : Nat) (key : String)
  | child (id : String) (n : Nat)        -- the n-th diagnostic produced by the value of key `id`
deriving Repr, DecidableEq

/-- `parseMapping`: the first occurrence of an id wins; a repetition is reported and skipped -/
def dedup (fold : String → String) : List (String × Nat) → List String → List KV × List MDiag
  | [], _ => ([], [])
  | (k, p) :: rest, seen =>
    let id := fold k
    if seen.contains id then
      let (kvs, ds) := dedup fold rest seen
      (kvs, .duplicated p k :: ds)
    else
      let (kvs, ds) := dedup fold rest (seen ++ [id])
      (⟨id, k, p⟩ :: kvs, ds)

/-- the per-key loop of a `parseX`: accepted keys run their handler (which yields the diagnostics of that
key's subtree), everything else hits `default: unexpectedKey` and the loop continues -/
def handle (accepted : List String) (childDiags : String → Nat) : List KV → List MDiag
  | [] => []
  | kv :: rest =>
    (if accepted.contains kv.id then (List.range (childDiags kv.id)).map (MDiag.child kv.id)
     else [MDiag.unexpected kv.pos kv.key]) ++ handle accepted childDiags rest

def parseSection (fold : String → String) (accepted : List String) (childDiags : String → Nat) (pairs : List (String × Nat)) : List MDiag :=
  let (kvs, d) := dedup fold pairs []
  d ++ handle accepted childDiags kvs

/-- (d) THE PROPERTY ("never suppresses siblings"): inserting a pair whose key is neither accepted nor a
repetition adds exactly the `unexpected` diagnostic at that key and changes nothing else, wherever it is
inserted. -/
def unknown_key_statement : Prop :=
  ∀ (fold : String → String) (accepted : List String) (cd : String → Nat) (pre post : List (String × Nat)) (k : String) (p : Nat),
    accepted.contains (fold k) = false → (∀ q ∈ pre ++ post, fold q.1 ≠ fold k) →
    (parseSection fold accepted cd (pre ++ (k, p) :: post)).Perm
      (MDiag.unexpected p k :: parseSection fold accepted cd (pre ++ post))

/-- (e) repeating an earlier key (in any letter case the mapping folds) adds exactly the `duplicated`
diagnostic at the repetition and changes nothing else. -/
def duplicate_key_statement : Prop :=
  ∀ (fold : String → String) (accepted : List String) (cd : String → Nat) (pre post : List (String × Nat)) (k : String) (p : Nat),
    (∃ q ∈ pre, fold q.1 = fold k) →
    (parseSection fold accepted cd (pre ++ (k, p) :: post)).Perm
      (MDiag.duplicated p k :: parseSection fold accepted cd (pre ++ post))

/-! ### proofs of (d) and (e) -/

theorem handle_append (accepted : List String) (cd : String → Nat) (a b : List KV) :
    handle accepted cd (a ++ b) = handle accepted cd a ++ handle accepted cd b := by
  induction a with
  | nil => rfl
  | cons kv rest ih => simp [handle, ih]

/-- `dedup` looks at `seen` only through membership of the folded keys of the list it processes -/
theorem dedup_congr (fold : String → String) (l : List (String × Nat)) :
    ∀ seen seen' : List String, (∀ q ∈ l, seen.contains (fold q.1) = seen'.contains (fold q.1)) →
      dedup fold l seen = dedup fold l seen' := by
  induction l with
  | nil => intros; rfl
  | cons q rest ih =>
    intro seen seen' h
    obtain ⟨k, p⟩ := q
    have hk : seen.contains (fold k) = seen'.contains (fold k) := h (k, p) (by simp)
    have h1 : dedup fold rest seen = dedup fold rest seen' :=
      ih seen seen' (fun q hq => h q (by simp [hq]))
    have h2 : dedup fold rest (seen ++ [fold k]) = dedup fold rest (seen' ++ [fold k]) := by
      apply ih
      intro q hq
      have := h q (by simp [hq])
      simp only [List.contains_eq_mem, List.mem_append, List.mem_singleton, decide_eq_decide] at this ⊢
      rw [this]
    simp only [dedup, hk, h1, h2]

/-- shape of `dedup` when a fresh key is inserted: one more `KV`, same diagnostics -/
theorem dedup_insert_fresh (fold : String → String) (post : List (String × Nat)) (k : String) (p : Nat) :
    ∀ (pre : List (String × Nat)) (seen : List String), seen.contains (fold k) = false →
      (∀ q ∈ pre ++ post, fold q.1 ≠ fold k) →
      ∃ kvs₁ kvs₂ ds, dedup fold (pre ++ post) seen = (kvs₁ ++ kvs₂, ds) ∧
        dedup fold (pre ++ (k, p) :: post) seen = (kvs₁ ++ ⟨fold k, k, p⟩ :: kvs₂, ds) := by
  intro pre
  induction pre with
  | nil =>
    intro seen hs hne
    refine ⟨[], (dedup fold post seen).1, (dedup fold post seen).2, rfl, ?_⟩
    have : dedup fold post (seen ++ [fold k]) = dedup fold post seen := by
      apply dedup_congr
      intro q hq
      exact AL.ParseMapping.contains_snoc_ne (hne q (by simpa using hq))
    simp only [List.nil_append, dedup, hs, this, Bool.false_eq_true, ↓reduceIte]
  | cons q rest ih =>
    intro seen hs hne
    obtain ⟨k', p'⟩ := q
    have hk' : fold k' ≠ fold k := hne (k', p') (by simp)
    have hne' : ∀ q ∈ rest ++ post, fold q.1 ≠ fold k := fun q hq => hne q (by simp only [List.cons_append, List.mem_cons]; exact Or.inr hq)
    by_cases hc : seen.contains (fold k') = true
    · obtain ⟨kvs₁, kvs₂, ds, e₁, e₂⟩ := ih seen hs hne'
      refine ⟨kvs₁, kvs₂, .duplicated p' k' :: ds, ?_, ?_⟩
      · simp only [List.cons_append, dedup, hc, e₁, Bool.false_eq_true, ↓reduceIte, List.nil_append]
      · simp only [List.cons_append, dedup, hc, e₂, Bool.false_eq_true, ↓reduceIte, List.nil_append]
    · have hc := Bool.eq_false_iff.2 hc
      have hs' : (seen ++ [fold k']).contains (fold k) = false := by
        rw [AL.ParseMapping.contains_snoc_ne (Ne.symm hk')]; exact hs
      obtain ⟨kvs₁, kvs₂, ds, e₁, e₂⟩ := ih (seen ++ [fold k']) hs' hne'
      refine ⟨⟨fold k', k', p'⟩ :: kvs₁, kvs₂, ds, ?_, ?_⟩
      · simp only [List.cons_append, dedup, hc, e₁, Bool.false_eq_true, ↓reduceIte, List.nil_append]
      · simp only [List.cons_append, dedup, hc, e₂, Bool.false_eq_true, ↓reduceIte, List.nil_append]

theorem unknown_key : unknown_key_statement := by
  intro fold accepted cd pre post k p hacc hne
  obtain ⟨kvs₁, kvs₂, ds, e₁, e₂⟩ := dedup_insert_fresh fold post k p pre [] (by simp) hne
  simp only [parseSection, e₁, e₂, handle_append, handle, hacc]
  exact AL.ParseMapping.perm_insert_right _ _ _ _

/-- shape of `dedup` when an already seen key is inserted: same `KV`s, one more diagnostic -/
theorem dedup_insert_dup (fold : String → String) (post : List (String × Nat)) (k : String) (p : Nat) :
    ∀ (pre : List (String × Nat)) (seen : List String),
      (seen.contains (fold k) = true ∨ ∃ q ∈ pre, fold q.1 = fold k) →
      ∃ kvs ds₁ ds₂, dedup fold (pre ++ post) seen = (kvs, ds₁ ++ ds₂) ∧
        dedup fold (pre ++ (k, p) :: post) seen = (kvs, ds₁ ++ .duplicated p k :: ds₂) := by
  intro pre
  induction pre with
  | nil =>
    intro seen h
    have hs : seen.contains (fold k) = true := by
      rcases h with h | ⟨q, hq, _⟩
      · exact h
      · cases hq
    exact ⟨(dedup fold post seen).1, [], (dedup fold post seen).2, rfl, by simp only [List.nil_append, dedup, hs, ↓reduceIte]⟩
  | cons q rest ih =>
    intro seen h
    obtain ⟨k', p'⟩ := q
    by_cases hc : seen.contains (fold k') = true
    · have h' : seen.contains (fold k) = true ∨ ∃ q ∈ rest, fold q.1 = fold k := by
        rcases h with h | ⟨q, hq, e⟩
        · exact Or.inl h
        · rcases List.mem_cons.1 hq with rfl | hq
          · left; rw [← e]; exact hc
          · exact Or.inr ⟨q, hq, e⟩
      obtain ⟨kvs, ds₁, ds₂, e₁, e₂⟩ := ih seen h'
      refine ⟨kvs, .duplicated p' k' :: ds₁, ds₂, ?_, ?_⟩
      · simp only [List.cons_append, dedup, hc, e₁, Bool.false_eq_true, ↓reduceIte, List.nil_append]
      · simp only [List.cons_append, dedup, hc, e₂, Bool.false_eq_true, ↓reduceIte, List.nil_append]
    · have hc := Bool.eq_false_iff.2 hc
      have h' : (seen ++ [fold k']).contains (fold k) = true ∨ ∃ q ∈ rest, fold q.1 = fold k := by
        rcases h with h | ⟨q, hq, e⟩
        · left; simp only [List.contains_eq_mem, List.mem_append, decide_eq_true_eq] at h ⊢; exact Or.inl h
        · rcases List.mem_cons.1 hq with rfl | hq
          · left; simp [← e]
          · exact Or.inr ⟨q, hq, e⟩
      obtain ⟨kvs, ds₁, ds₂, e₁, e₂⟩ := ih (seen ++ [fold k']) h'
      refine ⟨⟨fold k', k', p'⟩ :: kvs, ds₁, ds₂, ?_, ?_⟩
      · simp only [List.cons_append, dedup, hc, e₁, Bool.false_eq_true, ↓reduceIte, List.nil_append]
      · simp only [List.cons_append, dedup, hc, e₂, Bool.false_eq_true, ↓reduceIte, List.nil_append]

theorem duplicate_key : duplicate_key_statement := by
  intro fold accepted cd pre post k p h
  obtain ⟨kvs, ds₁, ds₂, e₁, e₂⟩ := dedup_insert_dup fold post k p pre [] (Or.inr h)
  simp only [parseSection, e₁, e₂]
  exact AL.ParseMapping.perm_insert_left _ _ _ _

/-- concrete instance of (d): an unknown key `bogus` between `name` and `on` of a workflow; the
diagnostics of the `on:` subtree are still produced (here the equality even holds on the nose after
moving the new diagnostic). -/
example :
    parseSection lowerAscii ["name", "on", "jobs"] (fun id => if id = "on" then 2 else 0)
      [("name", 1), ("bogus", 2), ("on", 3), ("jobs", 4)]
    = [.unexpected 2 "bogus", .child "on" 0, .child "on" 1] := by decide +kernel

example :
    (parseSection lowerAscii ["name", "on", "jobs"] (fun id => if id = "on" then 2 else 0)
      ([("name", 1)] ++ ("bogus", 2) :: [("on", 3), ("jobs", 4)])).Perm
    (.unexpected 2 "bogus" :: parseSection lowerAscii ["name", "on", "jobs"]
      (fun id => if id = "on" then 2 else 0) ([("name", 1)] ++ [("on", 3), ("jobs", 4)])) :=
  unknown_key _ _ _ _ _ _ _ (by decide +kernel) (by decide +kernel)

/-- concrete instance of (e): `ON` repeats `on` in a case-insensitive mapping; an unknown key that follows
is still reported, after the `duplicated` diagnostic -/
example :
    parseSection lowerAscii ["name", "on", "jobs"] (fun id => if id = "on" then 1 else 0)
      [("on", 1), ("bogus", 2), ("ON", 3), ("jobs", 4)]
    = [.duplicated 3 "ON", .child "on" 0, .unexpected 2 "bogus"] := by decide +kernel

example :
    (parseSection lowerAscii ["name", "on", "jobs"] (fun id => if id = "on" then 1 else 0)
      ([("on", 1), ("bogus", 2)] ++ ("ON", 3) :: [("jobs", 4)])).Perm
    (.duplicated 3 "ON" :: parseSection lowerAscii ["name", "on", "jobs"]
      (fun id => if id = "on" then 1 else 0) ([("on", 1), ("bogus", 2)] ++ [("jobs", 4)])) :=
  duplicate_key _ _ _ _ _ _ _ ⟨("on", 1), by decide +kernel, by decide +kernel⟩

end AL.C13
