import AL.Model.Insecure
import AL.Spec.Untrusted
import AL.Gen.Builtins
import AL.Lemmas.InsecureInv
import AL.Lemmas.InsecureInert
/-
  C11 — script-injection detection is complete and precise.
  Statements; proved theorems are added below by name.
-/
namespace AL.C11
open AL AL.Sema AL.Insecure AL.Spec

def definedIn (Γ : Env) (c : String) : Bool := (lookupFuncs c Γ.funcs).isSome

/-- (a) THE PROPERTY: for every expression, the reports produced by the event machine driven by the
semantic checker are exactly the reports the chain specification assigns — whatever syntactic form
reaches an input (dot / index spelling, nesting inside operators, parentheses, index expressions or
non-sanitising calls, one or several chains). -/
def machine_eq_spec_statement : Prop :=
  ∀ (Γ : Env) (roots : List Trie) (e : E),
    run roots (check Γ e).evs = reports roots Γ.lower (definedIn Γ) e

/-- (b) precision: an expression without a variable that is a trie root has no report. -/
def no_root_no_report_statement : Prop :=
  ∀ (Γ : Env) (roots : List Trie) (e : E), (∀ r ∈ roots, ¬ mentionsVar r.name e) → run roots (check Γ e).evs = []
where
  mentionsVar (n : String) : E → Prop := fun e => n ∈ varsOf e
  varsOf : E → List String
    | .var n => [n]
    | .objDeref r _ => varsOf r
    | .arrDeref r => varsOf r
    | .index r i => varsOf r ++ varsOf i
    | .not e => varsOf e
    | .cmp _ l r => varsOf l ++ varsOf r
    | .logical _ l r => varsOf l ++ varsOf r
    | .call _ args => varsOfList args
    | _ => []
  varsOfList : List E → List String
    | [] => []
    | e :: es => varsOf e ++ varsOfList es

/-- (c) safe calls: nothing under contains / startsWith / endsWith is reported. -/
def safe_call_silent_statement : Prop :=
  ∀ (Γ : Env) (roots : List Trie) (c : String) (args : List E), isSafeCall Γ.lower c = true →
    run roots (check Γ (.call c args)).evs = []

/-- (d) completeness for documented paths, all spellings: a chain `root.s₁.….sₙ` whose folded segments
walk the trie to a leaf is reported with exactly that path, however each segment is spelled
(`.name` or `['NAME']`). -/
def documented_path_reported_statement : Prop :=
  ∀ (roots : List Trie) (root : String) (segs : List Seg) (leaf : Cur),
    (∃ r ∈ roots, r.name = root ∧ followAll [⟨[r.name], r⟩] false segs = [leaf]) → leaf.node.isLeaf = true →
    chainReport roots root segs = [[leaf.pathStr]]

/-- (e) the regenerated trie: every leaf of `Gen.untrustedRoots` is reported when accessed with plain
property segments (`[0]`-style index for `*` nodes). -/
def builtin_leaves_reported_statement : Prop :=
  ∀ p ∈ leafPaths AL.Gen.untrustedRoots, chainReport AL.Gen.untrustedRoots (p.headD "") ((p.drop 1).map fun s => if s = "*" then Seg.idx else Seg.prop s) = [[".".intercalate p]]
where
  leafPaths (roots : List Trie) : List (List String) := roots.flatMap (leavesOf [])
  leavesOf (pre : List String) : Trie → List (List String)
    | .node n [] => [pre ++ [n]]
    | .node n cs => leavesOfList (pre ++ [n]) cs
  leavesOfList (pre : List String) : List Trie → List (List String)
    | [] => []
    | c :: cs => leavesOf pre c ++ leavesOfList pre cs

/-! ## Proofs -/

/-- the evaluation environment of the examples: the generated builtin signatures, real case folding -/
def exΓ : Env :=
  { vars := [], funcs := AL.Gen.funcSigs, specialFuncs := [], availCtx := [], availSpecial := [],
    configVars := none, lower := String.toLower, fromJson := fun _ => .otherErr }

/-- `github.event['PULL_REQUEST'].head.ref == 'x' || contains(github.event.issue.title, 'y') || format('{0}', github.head_ref)` -/
def exBig : E :=
  .logical .or
    (.logical .or
      (.cmp .eq (.objDeref (.objDeref (.index (.objDeref (.var "github") "event") (.str "PULL_REQUEST")) "head") "ref") (.str "x"))
      (.call "contains" [.objDeref (.objDeref (.objDeref (.var "github") "event") "issue") "title", .str "y"]))
    (.call "format" [.str "{0}", .objDeref (.var "github") "head_ref"])

/-- `contains(a, 'b')` -/
def exSafe : E := .call "contains" [.var "a", .str "b"]

/-- evaluate the chain specification on a concrete expression -/
macro "spec_simp" : tactic => `(tactic| simp only [reports, chain, reportsList])

/-! ### (a) the property, full strength

History: against the original Go code (a) was FALSE.  `OnVisitNodeLeave` of a
contains/startsWith/endsWith call only decremented `safeCalls` and returned, so the cursor alive
before the call survived it, and an access segment applied directly to the call moved that stale
cursor (`exMiss`: a read of `github.head_ref` was not reported; `exGhost*`: paths that are never read
were reported).  The Go code was repaired (leaving the outermost safe call now calls `end()`), the
model follows it, and the four former witnesses are kept below as regression theorems. -/

theorem machine_eq_spec : machine_eq_spec_statement :=
  fun Γ roots e => run_eq_reports roots Γ e

example : run AL.Gen.untrustedRoots (check exΓ exBig).evs =
    [["github.event.pull_request.head.ref"], ["github.head_ref"]] := by
  unfold exBig; evs_simp; decide +kernel
example : reports AL.Gen.untrustedRoots exΓ.lower (definedIn exΓ) exBig =
    [["github.event.pull_request.head.ref"], ["github.head_ref"]] := by
  unfold exBig; spec_simp; decide +kernel

/-- `contains(a, 'b')[github.head_ref]` — formerly NOT reported -/
def exMiss : E := .index exSafe (.objDeref (.var "github") "head_ref")
/-- `github.event == contains(a, 'b').issue.title` — formerly reported `github.event.issue.title` -/
def exGhost : E := .cmp .eq (.objDeref (.var "github") "event") (.objDeref (.objDeref exSafe "issue") "title")
/-- `github.event.commits == contains(a, 'b').*.message` — formerly reported `github.event.commits.*.message` -/
def exGhostStar : E :=
  .cmp .eq (.objDeref (.objDeref (.var "github") "event") "commits") (.objDeref (.arrDeref exSafe) "message")
/-- `github.event.pages == contains(a, 'b')[contains(a, 'b')].page_name` — formerly reported
`github.event.pages.*.page_name` -/
def exGhostIdx : E :=
  .cmp .eq (.objDeref (.objDeref (.var "github") "event") "pages") (.objDeref (.index exSafe exSafe) "page_name")

theorem exMiss_fixed : run AL.Gen.untrustedRoots (check exΓ exMiss).evs = [["github.head_ref"]] := by
  unfold exMiss exSafe; evs_simp; decide +kernel
theorem exMiss_spec : reports AL.Gen.untrustedRoots exΓ.lower (definedIn exΓ) exMiss = [["github.head_ref"]] := by
  unfold exMiss exSafe; spec_simp; decide +kernel

theorem exGhost_fixed : run AL.Gen.untrustedRoots (check exΓ exGhost).evs = [] := by
  unfold exGhost exSafe; evs_simp; decide +kernel
theorem exGhost_spec : reports AL.Gen.untrustedRoots exΓ.lower (definedIn exΓ) exGhost = [] := by
  unfold exGhost exSafe; spec_simp; decide +kernel

theorem exGhostStar_fixed : run AL.Gen.untrustedRoots (check exΓ exGhostStar).evs = [] := by
  unfold exGhostStar exSafe; evs_simp; decide +kernel
theorem exGhostStar_spec : reports AL.Gen.untrustedRoots exΓ.lower (definedIn exΓ) exGhostStar = [] := by
  unfold exGhostStar exSafe; spec_simp; decide +kernel

theorem exGhostIdx_fixed : run AL.Gen.untrustedRoots (check exΓ exGhostIdx).evs = [] := by
  unfold exGhostIdx exSafe; evs_simp; decide +kernel
theorem exGhostIdx_spec : reports AL.Gen.untrustedRoots exΓ.lower (definedIn exΓ) exGhostIdx = [] := by
  unfold exGhostIdx exSafe; spec_simp; decide +kernel

/-- the four former witnesses, now instances of the theorem (machine = spec), independently of the
two evaluations above -/
theorem witnesses_agree :
    ∀ e ∈ [exMiss, exGhost, exGhostStar, exGhostIdx],
      run AL.Gen.untrustedRoots (check exΓ e).evs = reports AL.Gen.untrustedRoots exΓ.lower (definedIn exΓ) e :=
  fun e _ => machine_eq_spec exΓ AL.Gen.untrustedRoots e

-- a chain pending BEFORE a safe call is still reported (the call ends it): `github.head_ref == contains(a, 'b')`
example : run AL.Gen.untrustedRoots (check exΓ (.cmp .eq (.objDeref (.var "github") "head_ref") exSafe)).evs =
    [["github.head_ref"]] := by
  unfold exSafe; evs_simp; decide +kernel

/-! ### (c) -/

theorem safe_call_silent : safe_call_silent_statement := by
  intro Γ roots c args hc
  rw [run_eq, safe_finish roots Γ (.call c args) (by simpa [isSafeE] using hc) {} rfl]
  rfl

-- `startsWith(github.head_ref, github.event.issue.title)` — even in upper case, even nested
example : run AL.Gen.untrustedRoots (check exΓ (.call "StartsWith"
    [.objDeref (.var "github") "head_ref",
     .call "format" [.str "{0}", .objDeref (.objDeref (.objDeref (.var "github") "event") "issue") "title"]])).evs = [] := by
  evs_simp; decide +kernel
-- nested safe calls: `contains(endsWith(github.head_ref, 'x'), github.event.issue.title)`
example : run AL.Gen.untrustedRoots (check exΓ (.call "contains"
    [.call "endsWith" [.objDeref (.var "github") "head_ref", .str "x"],
     .objDeref (.objDeref (.objDeref (.var "github") "event") "issue") "title"])).evs = [] := by
  evs_simp; decide +kernel

/-! ### (b) -/

open no_root_no_report_statement in
/-- every variable event of the checker stems from a variable occurring in the expression -/
theorem var_events (Γ : Env) (e : E) : ∀ n, Ev.leave (.var n) ∈ (check Γ e).evs → n ∈ varsOf e := by
  apply check.induct Γ
    (motive1 := fun e => ∀ n, Ev.leave (.var n) ∈ (check Γ e).evs → n ∈ varsOf e)
    (motive2 := fun e x => ∀ n, Ev.leave (.var n) ∈ (narrow Γ e x).evs → n ∈ varsOf e)
    (motive3 := fun args => ∀ n, Ev.leave (.var n) ∈ (checkArgs Γ args).2.2 → n ∈ varsOfList args)
  case case1 => intro n h; simp [evs_null] at h
  case case2 => intro n h; simp [evs_bool] at h
  case case3 => intro n h; simp [evs_num] at h
  case case4 => intro v n h; simp [evs_str] at h
  case case5 => intro name n h; simpa [evs_var, varsOf] using h
  case case6 =>
    intro r p _ _ _ _ _ ih n h
    simp only [evs_objDeref, List.mem_append, List.mem_singleton, Ev.leave.injEq, reduceCtorEq, or_false] at h
    simpa [varsOf] using ih n h
  case case7 =>
    intro r _ _ _ _ ih n h
    simp only [evs_arrDeref, List.mem_append, List.mem_singleton, Ev.leave.injEq, reduceCtorEq, or_false] at h
    simpa [varsOf] using ih n h
  case case8 =>
    intro r i _ _ _ _ _ ihi ihr n h
    simp only [evs_index, List.mem_append, List.mem_singleton, Ev.leave.injEq] at h
    rcases h with (h | h) | h
    · simp [varsOf, ihi n h]
    · simp [varsOf, ihr n h]
    · exact absurd h.symm (leaveOf_index_ne_var _ r i n)
  case case9 =>
    intro c args ih n h
    simp only [evs_call, List.mem_append, List.mem_singleton, Ev.leave.injEq] at h
    rcases h with (h | h) | h
    · exact absurd h (not_mem_enterOf _ _ _)
    · split at h
      · simp at h
      · simpa [varsOf] using ih n h
    · exact absurd h.symm (leaveOf_call_ne_var _ c args n)
  case case10 =>
    intro e ih n h
    simp only [evs_not, List.mem_append, List.mem_singleton, Ev.leave.injEq, reduceCtorEq, or_false] at h
    simpa [varsOf] using ih n h
  case case11 =>
    intro op l r ihl ihr n h
    simp only [evs_cmp, List.mem_append, List.mem_singleton, Ev.leave.injEq, reduceCtorEq, or_false] at h
    rcases h with h | h
    · simp [varsOf, ihl n h]
    · simp [varsOf, ihr n h]
  case case12 =>
    intro op l r ihl ihr n h
    simp only [evs_logical, List.mem_append, List.mem_singleton, Ev.leave.injEq, reduceCtorEq, or_false] at h
    rcases h with h | h
    · have : n ∈ varsOf l := by cases op <;> exact ihl n h
      simp [varsOf, this]
    · simp [varsOf, ihr n h]
  case case13 =>
    intro l r ihl ihr n h
    simp only [evs_narrow_and, List.mem_append] at h
    rcases h with h | h
    · simp [varsOf, ihl n h]
    · simp [varsOf, ihr n h]
  case case14 =>
    intro l r ihl ihr n h
    simp only [evs_narrow_or, List.mem_append] at h
    rcases h with h | h
    · simp [varsOf, ihl n h]
    · simp [varsOf, ihr n h]
  case case15 =>
    intro op l r x h1 h2 ihl ihr n h
    simp only [evs_narrow_logical Γ op l r x h1 h2, List.mem_append] at h
    rcases h with h | h
    · have : n ∈ varsOf l := by cases op <;> exact ihl n h
      simp [varsOf, this]
    · simp [varsOf, ihr n h]
  case case16 =>
    intro e t ih n h
    rw [evs_narrow_not] at h
    simpa [varsOf] using ih n h
  case case17 =>
    intro e x _ _ h3 h4 ih n h
    rw [narrow_other Γ e x h3 h4] at h
    exact ih n h
  case case18 => intro n h; simp [evs_args_nil] at h
  case case19 =>
    intro a rest iha ihr n h
    simp only [evs_args_cons, List.mem_append] at h
    rcases h with h | h
    · simp [varsOfList, iha n h]
    · simp [varsOfList, ihr n h]

theorem no_root_no_report : no_root_no_report_statement := by
  intro Γ roots e h
  apply run_nil_of_no_root_events
  intro n hn
  rw [List.find?_eq_none]
  intro r hr hname
  have hname : r.name = n := by simpa using hname
  exact h r hr (by rw [hname]; exact var_events Γ e n hn)

-- `env.head_ref == inputs.event.issue.title || steps.x.outputs['github']`: the same property names, but no `github` variable
example : run AL.Gen.untrustedRoots (check exΓ (.logical .or
    (.cmp .eq (.objDeref (.var "env") "head_ref") (.objDeref (.objDeref (.objDeref (.var "inputs") "event") "issue") "title"))
    (.index (.objDeref (.objDeref (.var "steps") "x") "outputs") (.str "github")))).evs = [] := by
  evs_simp; decide +kernel

/-! ### (d) is false as stated for a root list with duplicate names

`chainReport` (like the Go `map` lookup `u.roots[v.Name]`) uses the FIRST root of that name, whereas
the statement lets `r` be any root of that name.  With pairwise distinct root names (always the case
for a Go map, and re-checked for the generated trie below) it holds. -/

theorem documented_path_reported_counterexample : ¬ documented_path_reported_statement := by
  intro h
  have := h [.node "a" [.node "x" []], .node "a" []] "a" [] ⟨["a"], .node "a" []⟩
    ⟨.node "a" [], by simp, rfl, rfl⟩ rfl
  exact absurd this (by decide +kernel)

/-- (d′) as (d), for root lists with pairwise distinct names -/
def documented_path_reported_statement' : Prop :=
  ∀ (roots : List Trie), roots.Pairwise (fun a b => a.name ≠ b.name) →
  ∀ (root : String) (segs : List Seg) (leaf : Cur),
    (∃ r ∈ roots, r.name = root ∧ followAll [⟨[r.name], r⟩] false segs = [leaf]) → leaf.node.isLeaf = true →
    chainReport roots root segs = [[leaf.pathStr]]

theorem documented_path_reported' : documented_path_reported_statement' := by
  intro roots hpw root segs leaf ⟨r, hr, hname, hw⟩ hl
  subst hname
  exact chainReport_of_find roots r.name segs r leaf (find?_of_pairwise roots hpw r hr) hw hl

/-- the generated trie has pairwise distinct root names (re-checked on every run) -/
theorem builtin_roots_distinct : AL.Gen.untrustedRoots.Pairwise (fun a b => a.name ≠ b.name) := by
  decide +kernel

-- `github['EVENT'].pull_request['Head'].ref` (segments after folding) and `github.event.commits[0].author.email`
example : chainReport AL.Gen.untrustedRoots "github" [.prop "event", .prop "pull_request", .prop "head", .prop "ref"] =
    [["github.event.pull_request.head.ref"]] := by decide +kernel
example : chainReport AL.Gen.untrustedRoots "github" [.prop "event", .prop "commits", .idx, .prop "author", .prop "email"] =
    [["github.event.commits.*.author.email"]] := by decide +kernel
-- and spelled as an expression, through the machine:
example : run AL.Gen.untrustedRoots (check exΓ
    (.objDeref (.index (.objDeref (.index (.var "github") (.str "EVENT")) "pull_request") (.str "Head")) "ref")).evs =
    [["github.event.pull_request.head.ref"]] := by
  evs_simp; decide +kernel
-- the object filter reports all the leaves it reaches, sorted: `github.event.pull_request.*`
example : chainReport AL.Gen.untrustedRoots "github" [.prop "event", .prop "pull_request", .star] =
    [["github.event.pull_request.body", "github.event.pull_request.title"]] := by decide +kernel

/-! ### (e) -/

/-- re-checked against the regenerated trie on every run -/
theorem builtin_leaves_reported : builtin_leaves_reported_statement := by
  unfold builtin_leaves_reported_statement
  decide +kernel

-- not vacuous
example : builtin_leaves_reported_statement.leafPaths AL.Gen.untrustedRoots ≠ [] := by decide +kernel
example : ["github", "event", "pages", "*", "page_name"] ∈ builtin_leaves_reported_statement.leafPaths AL.Gen.untrustedRoots := by
  decide +kernel

end AL.C11
