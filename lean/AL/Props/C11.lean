import AL.Model.Insecure
import AL.Spec.Untrusted
import AL.Gen.Builtins
/-
  C11 — script-injection detection is complete and precise.
  Statements; proved theorems are added below by name.
-/
namespace AL.C11
open AL AL.Sema AL.Insecure AL.Spec

def definedIn (Γ : Env) (c : String) : Bool := (lookupFuncs c Γ.funcs).isSome

/-- (a) THE PROPERTY: for every expression, the reports produced by the event machine driven by the
semantic checker are exactly the reports the chain specification assigns — whatever syntactic form
reaches an input (dot / index spelling, nesting inside operators, parentheses, index expressions or
non-sanitising calls, one or several chains). -/
def machine_eq_spec_statement : Prop :=
  ∀ (Γ : Env) (roots : List Trie) (e : E),
    run roots (check Γ e).evs = reports roots Γ.lower (definedIn Γ) e

/-- (b) precision: an expression without a variable that is a trie root has no report. -/
def no_root_no_report_statement : Prop :=
  ∀ (Γ : Env) (roots : List Trie) (e : E), (∀ r ∈ roots, ¬ mentionsVar r.name e) → run roots (check Γ e).evs = []
where
  mentionsVar (n : String) : E → Prop := fun e => n ∈ varsOf e
  varsOf : E → List String
    | .var n => [n]
    | .objDeref r _ => varsOf r
    | .arrDeref r => varsOf r
    | .index r i => varsOf r ++ varsOf i
    | .not e => varsOf e
    | .cmp _ l r => varsOf l ++ varsOf r
    | .logical _ l r => varsOf l ++ varsOf r
    | .call _ args => varsOfList args
    | _ => []
  varsOfList : List E → List String
    | [] => []
    | e :: es => varsOf e ++ varsOfList es

/-- (c) safe calls: nothing under contains / startsWith / endsWith is reported. -/
def safe_call_silent_statement : Prop :=
  ∀ (Γ : Env) (roots : List Trie) (c : String) (args : List E), isSafeCall Γ.lower c = true →
    run roots (check Γ (.call c args)).evs = []

/-- (d) completeness for documented paths, all spellings: a chain `root.s₁.….sₙ` whose folded segments
walk the trie to a leaf is reported with exactly that path, however each segment is spelled
(`.name` or `['NAME']`). -/
def documented_path_reported_statement : Prop :=
  ∀ (roots : List Trie) (root : String) (segs : List Seg) (leaf : Cur),
    (∃ r ∈ roots, r.name = root ∧ followAll [⟨[r.name], r⟩] false segs = [leaf]) → leaf.node.isLeaf = true →
    chainReport roots root segs = [[leaf.pathStr]]

/-- (e) the regenerated trie: every leaf of `Gen.untrustedRoots` is reported when accessed with plain
property segments (`[0]`-style index for `*` nodes). -/
def builtin_leaves_reported_statement : Prop :=
  ∀ p ∈ leafPaths AL.Gen.untrustedRoots, chainReport AL.Gen.untrustedRoots (p.headD "") ((p.drop 1).map fun s => if s = "*" then Seg.idx else Seg.prop s) = [[".".intercalate p]]
where
  leafPaths (roots : List Trie) : List (List String) := roots.flatMap (leavesOf [])
  leavesOf (pre : List String) : Trie → List (List String)
    | .node n [] => [pre ++ [n]]
    | .node n cs => leavesOfList (pre ++ [n]) cs
  leavesOfList (pre : List String) : List Trie → List (List String)
    | [] => []
    | c :: cs => leavesOf pre c ++ leavesOfList pre cs

end AL.C11
