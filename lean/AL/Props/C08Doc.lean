import AL.Lemmas.C08DExpr
import AL.Lemmas.C08DPath2
/-
  C08 at the level of the DOCUMENT: "changing the letter case of a name at its definition or at any of its uses does not
  change which diagnostics are reported, only the spelling echoed in messages" — composing the parser (`AL.PW.parse`), the
  rules (`AL.Rules.rules`), the expression rule (`AL.RuleExpr.rule`) and the tail of `Linter.check` (`AL.Rules.lint`).

  * `KeyRecased f n n'` (AL/Lemmas/C08DBase): the same node tree — kinds, tags, texts, positions, values — except that the
    KEY scalars of the mapping `n` may be spelled differently, each still the same name (`SameName f`: equal folds, both or
    neither empty). `KeyAlike f v v'`: one scalar re-spelled (the VALUE of `id:`, an entry of `needs:`).
  * the AST "up to the spelling of names": `nWf F` (AL/Lemmas/C08DNorm) folds the NAME string of every entry of a
    case-insensitive mapping and every id, one fold per kind of name (`Folds`; the identity fold = that kind of name is
    compared as written). Two ASTs with the same `nWf F` have the same ids (the parser's folded keys), the same positions
    and the same values everywhere.
  * `Sim N r r'`: results equal after `N`, diagnostics at the same sites with the same codes in the same order.

  1. PARSER, per section (AL/Lemmas/C08DSect, C08DPath): `parseEnv_recase`, `stepWith_recase`, `callArgs_recase`,
     `parseOutputs_recase`, `parseServices_recase`, `parseMatrix_recase`, `matrixCombos_recase`, `callEventKey_recase`,
     `dispatchInputs_recase`, `parseJobs_recase`; here, lifted to the whole document (`Cong`, the relational counterpart of
     `AL.C13D3.Path`): `step_with_keys_in_document`, `step_id_in_document`, `step_env_keys_in_document`,
     `job_with_keys_in_document`, `job_secrets_keys_in_document`, `job_outputs_keys_in_document`, `job_env_keys_in_document`,
     `job_services_keys_in_document`, `job_needs_in_document`, `job_ids_in_document`, `workflow_env_keys_in_document`,
     `matrix_row_keys_in_document`, `call_names_in_document`, `dispatch_names_in_document`.
  2. RULES: `rules_in_document` (every rule of `AL.Rules.rules` gives the same sites and codes on an AST and on its normal
     form: `AL.C08D.rules_n`).   3. EXPRESSION RULE: `ruleExpr_in_document` (literally the same diagnostics).
  4. `lint`: `lint_in_document` (`stableSort_sig`: the stable sort by position sees sites only).
  End to end (`SameReports`: parser, rules, sorted output): `step_with_keys`, `step_id`, `job_ids`, `job_needs`, `job_with_keys`,
  `job_secrets_keys`, `job_outputs_keys`, `job_services_keys`, `matrix_row_keys`, `call_names`, `dispatch_names`; expression rule:
  `step_with_keys_expr`, `job_with_keys_expr`, `job_secrets_keys_expr`, `job_outputs_keys_expr`, `job_services_keys_expr`,
  `step_id_expr_partial` (ids without placeholders).
  Not covered: the names of environment variables beyond the parser (rule_env_var.go and the expression rule read them as
  written: the theorems take `F.env = id`), job ids under the expression rule, the keys of the elements of `matrix.include`
  and of `env:` of containers beyond their sections.
-/
namespace AL.C08D
open AL.PW AL.Yaml AL.Ast AL.C13P AL.C13D AL.C13D3

/-! ## 1. the parser, on the whole document -/

section
variable (F : Folds) (cfg : Cfg) (mW mJ mK mP : MapCtx) (sS : SeqCtx)

/-- document → `jobs:` → one job -/
theorem cong_job (hW : mW.Keyed cfg "jobs") (hJ : mJ.Free cfg) :
    Cong (parse cfg) (fun v => docNode (mW.at (mJ.at v))) (nWf F) (SimRel (parseJob cfg (parseString mJ.key false).1) (nJob F)) :=
  ((c_root F cfg).trans (c_wf_jobs F cfg mW hW)).trans (c_jobs_job F cfg mJ hJ)

/-- document → job → `steps:` → one step -/
theorem cong_step (hW : mW.Keyed cfg "jobs") (hJ : mJ.Free cfg) (hK : mK.Keyed cfg "steps") :
    Cong (parse cfg) (fun v => docNode (mW.at (mJ.at (mK.at (sS.at v))))) (nWf F) (SimRel (parseStep cfg) (nStep F)) :=
  ((cong_job F cfg mW mJ hW hJ).trans (c_job_steps F cfg _ mK hK)).trans (c_steps_step F cfg sS)

/-- **the keys of `with:` of a step**, anywhere in a document -/
theorem step_with_keys_in_document (hf : ∀ a b, F.input a = F.input b → cfg.lower a = cfg.lower b)
    (hW : mW.Keyed cfg "jobs") (hJ : mJ.Free cfg) (hK : mK.Keyed cfg "steps") (hP : mP.Keyed cfg "with")
    {v v' : Node} (h : KeyRecased F.input v v') :
    Sim (nWf F) (parse cfg (docNode (mW.at (mJ.at (mK.at (sS.at (mP.at v)))))))
      (parse cfg (docNode (mW.at (mJ.at (mK.at (sS.at (mP.at v'))))))) :=
  ((cong_step F cfg mW mJ mK sS hW hJ hK).trans (c_step_with F cfg mP hP hf)) v v' h

/-- **the value of `id:` of a step** -/
theorem step_id_in_document (hW : mW.Keyed cfg "jobs") (hJ : mJ.Free cfg) (hK : mK.Keyed cfg "steps") (hP : mP.Keyed cfg "id")
    {v v' : Node} (h : KeyAlike F.stepId v v') :
    Sim (nWf F) (parse cfg (docNode (mW.at (mJ.at (mK.at (sS.at (mP.at v)))))))
      (parse cfg (docNode (mW.at (mJ.at (mK.at (sS.at (mP.at v'))))))) :=
  ((cong_step F cfg mW mJ mK sS hW hJ hK).trans (c_step_id F cfg mP hP)) v v' h

/-- **the keys of `env:` of a step** -/
theorem step_env_keys_in_document (hf : ∀ a b, F.env a = F.env b → cfg.lower a = cfg.lower b)
    (hW : mW.Keyed cfg "jobs") (hJ : mJ.Free cfg) (hK : mK.Keyed cfg "steps") (hP : mP.Keyed cfg "env")
    {v v' : Node} (h : KeyRecased F.env v v') :
    Sim (nWf F) (parse cfg (docNode (mW.at (mJ.at (mK.at (sS.at (mP.at v)))))))
      (parse cfg (docNode (mW.at (mJ.at (mK.at (sS.at (mP.at v'))))))) :=
  ((cong_step F cfg mW mJ mK sS hW hJ hK).trans (c_step_env F cfg mP hP)) v v' (parseEnv_recase hf h)

/-- **the keys of `with:` of a job that calls a reusable workflow** -/
theorem job_with_keys_in_document (hf : ∀ a b, F.arg a = F.arg b → cfg.lower a = cfg.lower b)
    (hW : mW.Keyed cfg "jobs") (hJ : mJ.Free cfg) (hK : mK.Keyed cfg "with") {v v' : Node} (h : KeyRecased F.arg v v') :
    Sim (nWf F) (parse cfg (docNode (mW.at (mJ.at (mK.at v))))) (parse cfg (docNode (mW.at (mJ.at (mK.at v'))))) :=
  ((cong_job F cfg mW mJ hW hJ).trans (c_job_with F cfg _ mK hK hf)) v v' h

/-- **the keys of `secrets:` of a job that calls a reusable workflow** -/
theorem job_secrets_keys_in_document (hf : ∀ a b, F.arg a = F.arg b → cfg.lower a = cfg.lower b)
    (hW : mW.Keyed cfg "jobs") (hJ : mJ.Free cfg) (hK : mK.Keyed cfg "secrets") {v v' : Node} (h : KeyRecased F.arg v v') :
    Sim (nWf F) (parse cfg (docNode (mW.at (mJ.at (mK.at v))))) (parse cfg (docNode (mW.at (mJ.at (mK.at v'))))) :=
  ((cong_job F cfg mW mJ hW hJ).trans (c_job_secrets F cfg _ mK hK hf)) v v' h

/-- **the keys of `outputs:` of a job** -/
theorem job_outputs_keys_in_document (hf : ∀ a b, F.output a = F.output b → cfg.lower a = cfg.lower b)
    (hW : mW.Keyed cfg "jobs") (hJ : mJ.Free cfg) (hK : mK.Keyed cfg "outputs") {v v' : Node} (h : KeyRecased F.output v v') :
    Sim (nWf F) (parse cfg (docNode (mW.at (mJ.at (mK.at v))))) (parse cfg (docNode (mW.at (mJ.at (mK.at v'))))) :=
  ((cong_job F cfg mW mJ hW hJ).trans (c_job_outputs F cfg _ mK hK)) v v' (parseOutputs_recase hf h)

/-- **the keys of `env:` of a job** -/
theorem job_env_keys_in_document (hf : ∀ a b, F.env a = F.env b → cfg.lower a = cfg.lower b)
    (hW : mW.Keyed cfg "jobs") (hJ : mJ.Free cfg) (hK : mK.Keyed cfg "env") {v v' : Node} (h : KeyRecased F.env v v') :
    Sim (nWf F) (parse cfg (docNode (mW.at (mJ.at (mK.at v))))) (parse cfg (docNode (mW.at (mJ.at (mK.at v'))))) :=
  ((cong_job F cfg mW mJ hW hJ).trans (c_job_env F cfg _ mK hK)) v v' (parseEnv_recase hf h)

/-- **the keys of `services:`** -/
theorem job_services_keys_in_document (hf : ∀ a b, F.service a = F.service b → cfg.lower a = cfg.lower b)
    (hW : mW.Keyed cfg "jobs") (hJ : mJ.Free cfg) (hK : mK.Keyed cfg "services") {v v' : Node} (h : KeyRecased F.service v v') :
    Sim (nWf F) (parse cfg (docNode (mW.at (mJ.at (mK.at v))))) (parse cfg (docNode (mW.at (mJ.at (mK.at v'))))) :=
  ((cong_job F cfg mW mJ hW hJ).trans (c_job_services F cfg _ mK hK)) v v' (parseServices_recase F hf h)

/-- **the entries of `needs:`** (uses of job ids) -/
theorem job_needs_in_document (hW : mW.Keyed cfg "jobs") (hJ : mJ.Free cfg) (hK : mK.Keyed cfg "needs") {v v' : Node}
    (h : NeedsRecased F.jobId v v') :
    Sim (nWf F) (parse cfg (docNode (mW.at (mJ.at (mK.at v))))) (parse cfg (docNode (mW.at (mJ.at (mK.at v'))))) :=
  ((cong_job F cfg mW mJ hW hJ).trans (c_job_needs F cfg _ mK hK)) v v' h

/-- **job ids**: the keys of `jobs:` (definitions of job ids) -/
theorem job_ids_in_document (hf : ∀ a b, F.jobId a = F.jobId b → cfg.lower a = cfg.lower b) (hW : mW.Keyed cfg "jobs")
    {v v' : Node} (h : KeyRecased F.jobId v v') :
    Sim (nWf F) (parse cfg (docNode (mW.at v))) (parse cfg (docNode (mW.at v'))) :=
  ((c_root F cfg).trans (c_wf_jobs F cfg mW hW)) v v' (parseJobs_recase F cfg hf h)

/-- **the keys of `env:` of the workflow** -/
theorem workflow_env_keys_in_document (hf : ∀ a b, F.env a = F.env b → cfg.lower a = cfg.lower b) (hW : mW.Keyed cfg "env")
    {v v' : Node} (h : KeyRecased F.env v v') :
    Sim (nWf F) (parse cfg (docNode (mW.at v))) (parse cfg (docNode (mW.at v'))) :=
  ((c_root F cfg).trans (c_wf_env F cfg mW hW)) v v' (parseEnv_recase hf h)

/-- **the names of the rows of `matrix:`** (`jobs.<id>.strategy.matrix`) -/
theorem matrix_row_keys_in_document (hf : ∀ a b, F.matrix a = F.matrix b → cfg.lower a = cfg.lower b)
    (hW : mW.Keyed cfg "jobs") (hJ : mJ.Free cfg) (hK : mK.Keyed cfg "strategy") (hP : mP.Keyed cfg "matrix")
    {v v' : Node} (h : KeyRecased F.matrix v v') :
    Sim (nWf F) (parse cfg (docNode (mW.at (mJ.at (mK.at (mP.at v)))))) (parse cfg (docNode (mW.at (mJ.at (mK.at (mP.at v')))))) :=
  (((cong_job F cfg mW mJ hW hJ).trans (c_job_strategy F cfg _ mK hK)).trans (c_strategy_matrix F cfg _ mP hP hf)) v v' h

/-- **the declared names of `workflow_call`**: the keys of `on.workflow_call.inputs` / `.secrets` / `.outputs` -/
theorem call_names_in_document (hf : ∀ a b, F.event a = F.event b → cfg.lower a = cfg.lower b) (name : String)
    (hW : mW.Keyed cfg "on") (hJ : mJ.Keyed cfg "workflow_call") (hK : mK.Keyed cfg name) {v v' : Node} (h : KeyRecased F.event v v') :
    Sim (nWf F) (parse cfg (docNode (mW.at (mJ.at (mK.at v))))) (parse cfg (docNode (mW.at (mJ.at (mK.at v'))))) :=
  ((((c_root F cfg).trans (c_wf_on F cfg mW hW)).trans (c_on_call F cfg _ mJ hJ)).trans
    (c_call_section cfg F.event hf _ mK name hK)) v v' h

/-- **the declared names of `workflow_dispatch`**: the keys of `on.workflow_dispatch.inputs` -/
theorem dispatch_names_in_document (hf : ∀ a b, F.event a = F.event b → cfg.lower a = cfg.lower b)
    (hW : mW.Keyed cfg "on") (hJ : mJ.Keyed cfg "workflow_dispatch") (hK : mK.Keyed cfg "inputs") {v v' : Node} (h : KeyRecased F.event v v') :
    Sim (nWf F) (parse cfg (docNode (mW.at (mJ.at (mK.at v))))) (parse cfg (docNode (mW.at (mJ.at (mK.at v'))))) :=
  ((((c_root F cfg).trans (c_wf_on F cfg mW hW)).trans (c_on_dispatch F cfg _ mJ hJ)).trans
    (c_dispatch_inputs cfg F.event hf _ mK hK)) v v' h

end

/-! ## 2. – 4. the rules, the expression rule, `lint` -/

section
open AL.Rules AL.C08R

/-- `ByErrorPosition.Less` on sites -/
def lessK (a b : Rules.Pos × String) : Bool := if a.1.line = b.1.line then a.1.col < b.1.col else a.1.line < b.1.line

def insertK (x : Rules.Pos × String) : List (Rules.Pos × String) → List (Rules.Pos × String)
  | [] => [x]
  | y :: ys => if lessK x y then x :: y :: ys else y :: insertK x ys

/-- the stable sort of `Linter.check`, on sites and codes -/
def sortK (l : List (Rules.Pos × String)) : List (Rules.Pos × String) := l.foldl (fun acc x => insertK x acc) []

theorem insertStable_sig (x : Diag) : ∀ l : List Diag, (insertStable x l).map sig = insertK (sig x) (l.map sig)
  | [] => rfl
  | y :: ys => by
    simp only [insertStable, List.map_cons, insertK]
    have : less x y = lessK (sig x) (sig y) := rfl
    rw [this]
    split
    · rfl
    · simp only [List.map_cons, insertStable_sig x ys]

/-- **the stable sort by position sees sites only**: the sites-and-codes of the sorted list are the sorted sites-and-codes -/
theorem stableSort_sig (l : List Diag) : (stableSort l).map sig = sortK (l.map sig) := by
  have key : ∀ (l acc : List Diag), (l.foldl (fun acc x => insertStable x acc) acc).map sig =
      (l.map sig).foldl (fun acc x => insertK x acc) (acc.map sig) := by
    intro l
    induction l with
    | nil => intro acc; rfl
    | cons x rest ih => intro acc; simp only [List.foldl_cons, List.map_cons, ih, insertStable_sig]
  exact key l []

variable (F : Folds) (cfg : Cfg) (isNum urlOk : String → Bool) (lc : LabelCfg)

/-- **2. the rules**: two documents whose ASTs differ in the spelling of names only are reported at the same sites with the
same codes by every rule of `AL.Rules.rules` — provided the names of environment variables are kept as written and the ids
are folded in a way that keeps what the naming convention reads (`IdFold`) -/
theorem rules_in_document (hE : F.env = id) (hs : IdFold cfg.lower F.stepId) (hj : IdFold cfg.lower F.jobId) {doc doc' : Node}
    (h : Sim (nWf F) (parse cfg doc) (parse cfg doc')) :
    (rules cfg.lower isNum urlOk (parse cfg doc).1 lc).map sig = (rules cfg.lower isNum urlOk (parse cfg doc').1 lc).map sig :=
  rules_recase F isNum urlOk lc hE hs hj _ _ h.1

/-- **4. `lint`**: … and so is the whole output of `Linter.check` (parser and rules, stably sorted by position) -/
theorem lint_in_document (hE : F.env = id) (hs : IdFold cfg.lower F.stepId) (hj : IdFold cfg.lower F.jobId) {doc doc' : Node}
    (h : Sim (nWf F) (parse cfg doc) (parse cfg doc')) :
    (lint cfg isNum urlOk doc lc).map sig = (lint cfg isNum urlOk doc' lc).map sig := by
  have hp : ((parse cfg doc).2.map ofPErr).map sig = ((parse cfg doc').2.map ofPErr).map sig := by
    have := h.2
    simp only [SameSites] at this
    simp only [List.map_map]
    exact this
  simp only [lint, stableSort_sig, List.map_append, hp, rules_in_document F cfg isNum urlOk lc hE hs hj h]

/-- **3. the expression rule**: literally the same diagnostics, when only names the rule never reads were re-spelled (keys of
`with:` of a step or a call, of `secrets:`, of `outputs:` of a job, of `services:`) or step ids that hold no placeholder -/
theorem ruleExpr_in_document (hE : F.env = id) (hJ : F.jobId = id) (hM : F.matrix = id) (hV : F.event = id)
    (hs : IdFold cfg.lower F.stepId) (proj : AL.RuleExpr.ProjView) {doc doc' : Node}
    (h : Sim (nWf F) (parse cfg doc) (parse cfg doc'))
    (hi : IdsOk F.stepId (parse cfg doc).1) (hi' : IdsOk F.stepId (parse cfg doc').1) :
    AL.RuleExpr.rule cfg.lower isNum (parse cfg doc).1 proj = AL.RuleExpr.rule cfg.lower isNum (parse cfg doc').1 proj := by
  have e := nWf_EF F hE hJ hM hV
  have h1 := ruleExpr_n F cfg.lower hs isNum proj _ hi
  have h2 := ruleExpr_n F cfg.lower hs isNum proj _ hi'
  rw [e] at h1 h2
  rw [← h1, ← h2, h.1]

end

/-! ## end to end, name by name -/

section
open AL.Rules AL.C08R
variable (cfg : Cfg) (isNum urlOk : String → Bool) (lc : LabelCfg) (mW mJ mK mP : MapCtx) (sS : SeqCtx)

/-- **what the property asks of two documents**: the parser, the rules and the whole (sorted) output of `Linter.check` report
at the same sites with the same codes -/
structure SameReports (doc doc' : Node) : Prop where
  parser : SameSites (parse cfg doc).2 (parse cfg doc').2
  rules : (rules cfg.lower isNum urlOk (parse cfg doc).1 lc).map sig = (rules cfg.lower isNum urlOk (parse cfg doc').1 lc).map sig
  lint : (lint cfg isNum urlOk doc lc).map sig = (lint cfg isNum urlOk doc' lc).map sig

theorem SameReports.refl (doc : Node) : SameReports cfg isNum urlOk lc doc doc := ⟨rfl, rfl, rfl⟩

theorem SameReports.symm {doc doc' : Node} (h : SameReports cfg isNum urlOk lc doc doc') : SameReports cfg isNum urlOk lc doc' doc :=
  ⟨h.parser.symm, h.rules.symm, h.lint.symm⟩

/-- re-casing a name at its definition AND at its uses: one step after the other -/
theorem SameReports.trans {a b c : Node} (h : SameReports cfg isNum urlOk lc a b) (h' : SameReports cfg isNum urlOk lc b c) :
    SameReports cfg isNum urlOk lc a c :=
  ⟨h.parser.trans h'.parser, h.rules.trans h'.rules, h.lint.trans h'.lint⟩

theorem SameReports.of_sim (F : Folds) (hE : F.env = id) (hs : IdFold cfg.lower F.stepId) (hj : IdFold cfg.lower F.jobId) {doc doc' : Node}
    (h : Sim (nWf F) (parse cfg doc) (parse cfg doc')) : SameReports cfg isNum urlOk lc doc doc' :=
  ⟨h.2, rules_in_document F cfg isNum urlOk lc hE hs hj h, lint_in_document F cfg isNum urlOk lc hE hs hj h⟩

/-- **a key of `with:` of an action step**: re-spelling the keys of `with:` (any number of them) of any step of any job,
`lower` of each key unchanged, changes neither the sites nor the codes of what is reported -/
theorem step_with_keys (hW : mW.Keyed cfg "jobs") (hJ : mJ.Free cfg) (hK : mK.Keyed cfg "steps") (hP : mP.Keyed cfg "with")
    {v v' : Node} (h : KeyRecased cfg.lower v v') :
    SameReports cfg isNum urlOk lc (docNode (mW.at (mJ.at (mK.at (sS.at (mP.at v))))))
      (docNode (mW.at (mJ.at (mK.at (sS.at (mP.at v')))))) :=
  SameReports.of_sim cfg isNum urlOk lc { input := cfg.lower } rfl (IdFold.id _) (IdFold.id _)
    (step_with_keys_in_document { input := cfg.lower } cfg mW mJ mK mP sS (fun _ _ e => e) hW hJ hK hP h)

/-- … and the expression rule reports literally the same -/
theorem step_with_keys_expr (proj : AL.RuleExpr.ProjView) (hW : mW.Keyed cfg "jobs") (hJ : mJ.Free cfg) (hK : mK.Keyed cfg "steps")
    (hP : mP.Keyed cfg "with") {v v' : Node} (h : KeyRecased cfg.lower v v') :
    AL.RuleExpr.rule cfg.lower isNum (parse cfg (docNode (mW.at (mJ.at (mK.at (sS.at (mP.at v))))))).1 proj =
      AL.RuleExpr.rule cfg.lower isNum (parse cfg (docNode (mW.at (mJ.at (mK.at (sS.at (mP.at v'))))))).1 proj :=
  ruleExpr_in_document { input := cfg.lower } cfg isNum rfl rfl rfl rfl (IdFold.id _) proj
    (step_with_keys_in_document { input := cfg.lower } cfg mW mJ mK mP sS (fun _ _ e => e) hW hJ hK hP h) (IdsOk.id _) (IdsOk.id _)

/-- **the value of `id:` of a step**, re-cased (ASCII letters; `lower` must not tell `X` from `x`) -/
theorem step_id (hl : ∀ a, cfg.lower (asciiLower a) = cfg.lower a)
    (hW : mW.Keyed cfg "jobs") (hJ : mJ.Free cfg) (hK : mK.Keyed cfg "steps") (hP : mP.Keyed cfg "id")
    {v v' : Node} (h : KeyAlike asciiLower v v') :
    SameReports cfg isNum urlOk lc (docNode (mW.at (mJ.at (mK.at (sS.at (mP.at v))))))
      (docNode (mW.at (mJ.at (mK.at (sS.at (mP.at v')))))) :=
  SameReports.of_sim cfg isNum urlOk lc { stepId := asciiLower } rfl (IdFold.ascii hl) (IdFold.id _)
    (step_id_in_document { stepId := asciiLower } cfg mW mJ mK mP sS hW hJ hK hP h)

/-
  The full statement for the expression rule would have no `StaticIds` hypothesis. An id that holds a placeholder is
  itself checked as an expression (`VisitStep`: `checkString(n.ID)`), so re-casing it re-cases an expression; that case
  needs the case-insensitivity of the expression checker (`AL.C08R.checkParsed_case_insensitive`) through the lexer and
  is not done here.
-/
/-- … and the expression rule reports literally the same, when no step id of the workflow holds a placeholder (partial: see
the comment above) -/
theorem step_id_expr_partial (proj : AL.RuleExpr.ProjView) (hl : ∀ a, cfg.lower (asciiLower a) = cfg.lower a)
    (hW : mW.Keyed cfg "jobs") (hJ : mJ.Free cfg) (hK : mK.Keyed cfg "steps") (hP : mP.Keyed cfg "id")
    {v v' : Node} (h : KeyAlike asciiLower v v')
    (hst : StaticIds (parse cfg (docNode (mW.at (mJ.at (mK.at (sS.at (mP.at v))))))).1) :
    AL.RuleExpr.rule cfg.lower isNum (parse cfg (docNode (mW.at (mJ.at (mK.at (sS.at (mP.at v))))))).1 proj =
      AL.RuleExpr.rule cfg.lower isNum (parse cfg (docNode (mW.at (mJ.at (mK.at (sS.at (mP.at v'))))))).1 proj := by
  have hsim := step_id_in_document { stepId := asciiLower } cfg mW mJ mK mP sS hW hJ hK hP h
  exact ruleExpr_in_document { stepId := asciiLower } cfg isNum rfl rfl rfl rfl (IdFold.ascii hl) proj hsim
    (hst.idsOk _) ((hst.transfer { stepId := asciiLower } (IdFold.ascii hl) hsim.1).idsOk _)

/-- **job ids at their definition**: the keys of `jobs:` re-cased (any number of them) -/
theorem job_ids (hl : ∀ a, cfg.lower (asciiLower a) = cfg.lower a) (hW : mW.Keyed cfg "jobs") {v v' : Node}
    (h : KeyRecased asciiLower v v') :
    SameReports cfg isNum urlOk lc (docNode (mW.at v)) (docNode (mW.at v')) :=
  SameReports.of_sim cfg isNum urlOk lc { jobId := asciiLower } rfl (IdFold.id _) (IdFold.ascii hl)
    (job_ids_in_document { jobId := asciiLower } cfg mW (fun a b e => by
      have e' : asciiLower a = asciiLower b := e
      rw [← hl a, ← hl b, e']) hW h)

/-- **job ids at their uses**: the entries of `needs:` of a job re-cased -/
theorem job_needs (hl : ∀ a, cfg.lower (asciiLower a) = cfg.lower a) (hW : mW.Keyed cfg "jobs") (hJ : mJ.Free cfg)
    (hK : mK.Keyed cfg "needs") {v v' : Node} (h : NeedsRecased asciiLower v v') :
    SameReports cfg isNum urlOk lc (docNode (mW.at (mJ.at (mK.at v)))) (docNode (mW.at (mJ.at (mK.at v')))) :=
  SameReports.of_sim cfg isNum urlOk lc { jobId := asciiLower } rfl (IdFold.id _) (IdFold.ascii hl)
    (job_needs_in_document { jobId := asciiLower } cfg mW mJ mK hW hJ hK h)

/-- **a key of `with:` of a job that calls a reusable workflow** -/
theorem job_with_keys (hW : mW.Keyed cfg "jobs") (hJ : mJ.Free cfg) (hK : mK.Keyed cfg "with") {v v' : Node}
    (h : KeyRecased cfg.lower v v') :
    SameReports cfg isNum urlOk lc (docNode (mW.at (mJ.at (mK.at v)))) (docNode (mW.at (mJ.at (mK.at v')))) :=
  SameReports.of_sim cfg isNum urlOk lc { arg := cfg.lower } rfl (IdFold.id _) (IdFold.id _)
    (job_with_keys_in_document { arg := cfg.lower } cfg mW mJ mK (fun _ _ e => e) hW hJ hK h)

theorem job_with_keys_expr (proj : AL.RuleExpr.ProjView) (hW : mW.Keyed cfg "jobs") (hJ : mJ.Free cfg) (hK : mK.Keyed cfg "with")
    {v v' : Node} (h : KeyRecased cfg.lower v v') :
    AL.RuleExpr.rule cfg.lower isNum (parse cfg (docNode (mW.at (mJ.at (mK.at v))))).1 proj =
      AL.RuleExpr.rule cfg.lower isNum (parse cfg (docNode (mW.at (mJ.at (mK.at v'))))).1 proj :=
  ruleExpr_in_document { arg := cfg.lower } cfg isNum rfl rfl rfl rfl (IdFold.id _) proj
    (job_with_keys_in_document { arg := cfg.lower } cfg mW mJ mK (fun _ _ e => e) hW hJ hK h) (IdsOk.id _) (IdsOk.id _)

/-- **a key of `secrets:` of a job that calls a reusable workflow** -/
theorem job_secrets_keys (hW : mW.Keyed cfg "jobs") (hJ : mJ.Free cfg) (hK : mK.Keyed cfg "secrets") {v v' : Node}
    (h : KeyRecased cfg.lower v v') :
    SameReports cfg isNum urlOk lc (docNode (mW.at (mJ.at (mK.at v)))) (docNode (mW.at (mJ.at (mK.at v')))) :=
  SameReports.of_sim cfg isNum urlOk lc { arg := cfg.lower } rfl (IdFold.id _) (IdFold.id _)
    (job_secrets_keys_in_document { arg := cfg.lower } cfg mW mJ mK (fun _ _ e => e) hW hJ hK h)

theorem job_secrets_keys_expr (proj : AL.RuleExpr.ProjView) (hW : mW.Keyed cfg "jobs") (hJ : mJ.Free cfg) (hK : mK.Keyed cfg "secrets")
    {v v' : Node} (h : KeyRecased cfg.lower v v') :
    AL.RuleExpr.rule cfg.lower isNum (parse cfg (docNode (mW.at (mJ.at (mK.at v))))).1 proj =
      AL.RuleExpr.rule cfg.lower isNum (parse cfg (docNode (mW.at (mJ.at (mK.at v'))))).1 proj :=
  ruleExpr_in_document { arg := cfg.lower } cfg isNum rfl rfl rfl rfl (IdFold.id _) proj
    (job_secrets_keys_in_document { arg := cfg.lower } cfg mW mJ mK (fun _ _ e => e) hW hJ hK h) (IdsOk.id _) (IdsOk.id _)

/-- **a key of `outputs:` of a job** -/
theorem job_outputs_keys (hW : mW.Keyed cfg "jobs") (hJ : mJ.Free cfg) (hK : mK.Keyed cfg "outputs") {v v' : Node}
    (h : KeyRecased cfg.lower v v') :
    SameReports cfg isNum urlOk lc (docNode (mW.at (mJ.at (mK.at v)))) (docNode (mW.at (mJ.at (mK.at v')))) :=
  SameReports.of_sim cfg isNum urlOk lc { output := cfg.lower } rfl (IdFold.id _) (IdFold.id _)
    (job_outputs_keys_in_document { output := cfg.lower } cfg mW mJ mK (fun _ _ e => e) hW hJ hK h)

theorem job_outputs_keys_expr (proj : AL.RuleExpr.ProjView) (hW : mW.Keyed cfg "jobs") (hJ : mJ.Free cfg) (hK : mK.Keyed cfg "outputs")
    {v v' : Node} (h : KeyRecased cfg.lower v v') :
    AL.RuleExpr.rule cfg.lower isNum (parse cfg (docNode (mW.at (mJ.at (mK.at v))))).1 proj =
      AL.RuleExpr.rule cfg.lower isNum (parse cfg (docNode (mW.at (mJ.at (mK.at v'))))).1 proj :=
  ruleExpr_in_document { output := cfg.lower } cfg isNum rfl rfl rfl rfl (IdFold.id _) proj
    (job_outputs_keys_in_document { output := cfg.lower } cfg mW mJ mK (fun _ _ e => e) hW hJ hK h) (IdsOk.id _) (IdsOk.id _)

/-- **a key of `services:`** -/
theorem job_services_keys (hW : mW.Keyed cfg "jobs") (hJ : mJ.Free cfg) (hK : mK.Keyed cfg "services") {v v' : Node}
    (h : KeyRecased cfg.lower v v') :
    SameReports cfg isNum urlOk lc (docNode (mW.at (mJ.at (mK.at v)))) (docNode (mW.at (mJ.at (mK.at v')))) :=
  SameReports.of_sim cfg isNum urlOk lc { service := cfg.lower } rfl (IdFold.id _) (IdFold.id _)
    (job_services_keys_in_document { service := cfg.lower } cfg mW mJ mK (fun _ _ e => e) hW hJ hK h)

theorem job_services_keys_expr (proj : AL.RuleExpr.ProjView) (hW : mW.Keyed cfg "jobs") (hJ : mJ.Free cfg) (hK : mK.Keyed cfg "services")
    {v v' : Node} (h : KeyRecased cfg.lower v v') :
    AL.RuleExpr.rule cfg.lower isNum (parse cfg (docNode (mW.at (mJ.at (mK.at v))))).1 proj =
      AL.RuleExpr.rule cfg.lower isNum (parse cfg (docNode (mW.at (mJ.at (mK.at v'))))).1 proj :=
  ruleExpr_in_document { service := cfg.lower } cfg isNum rfl rfl rfl rfl (IdFold.id _) proj
    (job_services_keys_in_document { service := cfg.lower } cfg mW mJ mK (fun _ _ e => e) hW hJ hK h) (IdsOk.id _) (IdsOk.id _)

/-- **the name of a row of `matrix:`** -/
theorem matrix_row_keys (hW : mW.Keyed cfg "jobs") (hJ : mJ.Free cfg) (hK : mK.Keyed cfg "strategy") (hP : mP.Keyed cfg "matrix")
    {v v' : Node} (h : KeyRecased cfg.lower v v') :
    SameReports cfg isNum urlOk lc (docNode (mW.at (mJ.at (mK.at (mP.at v))))) (docNode (mW.at (mJ.at (mK.at (mP.at v'))))) :=
  SameReports.of_sim cfg isNum urlOk lc { matrix := cfg.lower } rfl (IdFold.id _) (IdFold.id _)
    (matrix_row_keys_in_document { matrix := cfg.lower } cfg mW mJ mK mP (fun _ _ e => e) hW hJ hK hP h)

/-- **a declared input / secret / output of `workflow_call`** -/
theorem call_names (name : String) (hW : mW.Keyed cfg "on") (hJ : mJ.Keyed cfg "workflow_call") (hK : mK.Keyed cfg name)
    {v v' : Node} (h : KeyRecased cfg.lower v v') :
    SameReports cfg isNum urlOk lc (docNode (mW.at (mJ.at (mK.at v)))) (docNode (mW.at (mJ.at (mK.at v')))) :=
  SameReports.of_sim cfg isNum urlOk lc { event := cfg.lower } rfl (IdFold.id _) (IdFold.id _)
    (call_names_in_document { event := cfg.lower } cfg mW mJ mK (fun _ _ e => e) name hW hJ hK h)

/-- **a declared input of `workflow_dispatch`** -/
theorem dispatch_names (hW : mW.Keyed cfg "on") (hJ : mJ.Keyed cfg "workflow_dispatch") (hK : mK.Keyed cfg "inputs")
    {v v' : Node} (h : KeyRecased cfg.lower v v') :
    SameReports cfg isNum urlOk lc (docNode (mW.at (mJ.at (mK.at v)))) (docNode (mW.at (mJ.at (mK.at v')))) :=
  SameReports.of_sim cfg isNum urlOk lc { event := cfg.lower } rfl (IdFold.id _) (IdFold.id _)
    (dispatch_names_in_document { event := cfg.lower } cfg mW mJ mK (fun _ _ e => e) hW hJ hK h)

end

/-! ## the hypotheses are satisfiable: concrete documents -/

section examples
open AL.Rules AL.C08R

local macro "keyed" : tactic => `(tactic| exact ⟨goodKey_of_scalar _ rfl (by decide), rfl, by decide⟩)

theorem exLower : ∀ a b : String, exCfg.lower a = exCfg.lower b → exCfg.lower a = exCfg.lower b := fun _ _ e => e
theorem exAscii : ∀ a, exCfg.lower (asciiLower a) = exCfg.lower a := asciiLower_idem

/-- `Fetch-Depth: 0` / `FOO: x` / `fetch-depth: 1` -/
def exWith : Node :=
  mapNode "!!map" 8 11 [(sc "Fetch-Depth" 8 11, sc "0" 8 24), (sc "FOO" 9 11, sc "x" 9 16), (sc "fetch-depth" 10 11, sc "1" 10 24)]
/-- `fetch-depth: 0` / `Foo: x` / `FETCH-DEPTH: 1` -/
def exWith' : Node :=
  mapNode "!!map" 8 11 [(sc "fetch-depth" 8 11, sc "0" 8 24), (sc "Foo" 9 11, sc "x" 9 16), (sc "FETCH-DEPTH" 10 11, sc "1" 10 24)]

theorem exWith_recased : KeyRecased exCfg.lower exWith exWith' :=
  KeyRecased.of_pairs "!!map" 8 11
    (.cons ⟨"fetch-depth", rfl, by decide +kernel, by decide⟩
      (.cons ⟨"Foo", rfl, by decide +kernel, by decide⟩ (.cons ⟨"FETCH-DEPTH", rfl, by decide +kernel, by decide⟩ .nil)))

theorem exWith_recased_ascii : KeyRecased asciiLower exWith exWith' := exWith_recased

def exTrue : String → Bool := fun _ => true

/-- the whole document: `on: push` / `jobs: build: runs-on: ubuntu-latest, steps: [{uses: actions/checkout@v4, with: ·}]` -/
def exDocWith (w : Node) : Node := docNode (exRoot.at (exJobs.at (exJobSteps.at (exSeq.at ((exStepKey "with").at w)))))

example : SameReports exCfg exTrue exTrue {} (exDocWith exWith) (exDocWith exWith') :=
  step_with_keys exCfg exTrue exTrue {} exRoot exJobs exJobSteps (exStepKey "with") exSeq (by keyed) (by decide) (by keyed) (by keyed)
    exWith_recased

/-- what the parser reports, in both spellings: the repeated key at the repetition; the spelling is echoed. (`#eval` of `lint` on
the two documents: `input-undefined` at 9:11 for `FOO` / `Foo`, then `key-duplicated` at 10:11.) -/
example : (parse exCfg (exDocWith exWith)).2 =
      [⟨⟨10, 11⟩, "key-duplicated", ["fetch-depth", "«with» section", "line:8,col:11", ". note that this key is case insensitive"]⟩] ∧
    (parse exCfg (exDocWith exWith')).2 =
      [⟨⟨10, 11⟩, "key-duplicated", ["FETCH-DEPTH", "«with» section", "line:8,col:11", ". note that this key is case insensitive"]⟩] := by
  decide +kernel

example : AL.RuleExpr.rule exCfg.lower exTrue (parse exCfg (exDocWith exWith)).1 {} =
    AL.RuleExpr.rule exCfg.lower exTrue (parse exCfg (exDocWith exWith')).1 {} :=
  step_with_keys_expr exCfg exTrue exRoot exJobs exJobSteps (exStepKey "with") exSeq {} (by keyed) (by decide) (by keyed) (by keyed)
    exWith_recased

example : Sim (nWf { input := exCfg.lower }) (parse exCfg (exDocWith exWith)) (parse exCfg (exDocWith exWith')) :=
  step_with_keys_in_document _ exCfg exRoot exJobs exJobSteps (exStepKey "with") exSeq exLower (by keyed) (by decide) (by keyed) (by keyed)
    exWith_recased

/-- two steps: `id: Setup` / `run: echo`, then `id: ·` / `run: echo ${{ steps.setup.outputs.x }}` -/
def exSeqId : SeqCtx := ⟨"!!seq", 6, 7, [mapNode "!!map" 6 9 [(sc "id" 6 9, sc "Setup" 6 13), (sc "run" 7 9, sc "echo" 7 14)]], []⟩
def exStepId : MapCtx := ⟨"!!map", 8, 9, [], sc "id" 8 9, [(sc "run" 9 9, sc "echo ${{ steps.setup.outputs.x }}" 9 14)]⟩
def exDocId (v : Node) : Node := docNode (exRoot.at (exJobs.at (exJobSteps.at (exSeqId.at (exStepId.at v)))))

theorem exId_alike : KeyAlike asciiLower (sc "SETUP" 8 13) (sc "setup" 8 13) := ⟨"setup", rfl, by decide +kernel, by decide⟩

example : SameReports exCfg exTrue exTrue {} (exDocId (sc "SETUP" 8 13)) (exDocId (sc "setup" 8 13)) :=
  step_id exCfg exTrue exTrue {} exRoot exJobs exJobSteps exStepId exSeqId exAscii (by keyed) (by decide) (by keyed) (by keyed) exId_alike

/-- both spellings repeat the id of the first step -/
example : (ruleId exCfg.lower (parse exCfg (exDocId (sc "SETUP" 8 13))).1).map sig = [(⟨8, 13⟩, "step-id-duplicate")] ∧
    (ruleId exCfg.lower (parse exCfg (exDocId (sc "setup" 8 13))).1).map sig = [(⟨8, 13⟩, "step-id-duplicate")] := by
  decide +kernel

theorem exId_static : StaticIds (parse exCfg (exDocId (sc "SETUP" 8 13))).1 := by
  unfold StaticIds
  decide +kernel

example : AL.RuleExpr.rule exCfg.lower exTrue (parse exCfg (exDocId (sc "SETUP" 8 13))).1 {} =
    AL.RuleExpr.rule exCfg.lower exTrue (parse exCfg (exDocId (sc "setup" 8 13))).1 {} :=
  step_id_expr_partial exCfg exTrue exRoot exJobs exJobSteps exStepId exSeqId {} exAscii (by keyed) (by decide) (by keyed) (by keyed)
    exId_alike exId_static

example : Sim (nWf { stepId := asciiLower }) (parse exCfg (exDocId (sc "SETUP" 8 13))) (parse exCfg (exDocId (sc "setup" 8 13))) :=
  step_id_in_document _ exCfg exRoot exJobs exJobSteps exStepId exSeqId (by keyed) (by decide) (by keyed) (by keyed) exId_alike

/-- `env:` of a step, of a job, of the workflow -/
example : Sim (nWf { env := exCfg.lower })
    (parse exCfg (docNode (exRoot.at (exJobs.at (exJobSteps.at (exSeq.at ((exStepKey "env").at exWith)))))))
    (parse exCfg (docNode (exRoot.at (exJobs.at (exJobSteps.at (exSeq.at ((exStepKey "env").at exWith'))))))) :=
  step_env_keys_in_document _ exCfg exRoot exJobs exJobSteps (exStepKey "env") exSeq exLower (by keyed) (by decide) (by keyed) (by keyed)
    exWith_recased

example : Sim (nWf { env := exCfg.lower }) (parse exCfg (docNode (exRoot.at (exJobs.at ((exJobKey "env").at exWith)))))
    (parse exCfg (docNode (exRoot.at (exJobs.at ((exJobKey "env").at exWith'))))) :=
  job_env_keys_in_document _ exCfg exRoot exJobs (exJobKey "env") exLower (by keyed) (by decide) (by keyed) exWith_recased

example : Sim (nWf { env := exCfg.lower }) (parse exCfg (docNode ((exRootKey "env").at exWith)))
    (parse exCfg (docNode ((exRootKey "env").at exWith'))) :=
  workflow_env_keys_in_document _ exCfg (exRootKey "env") exLower (by keyed) exWith_recased

/-- `with:` / `secrets:` of a call, `outputs:`, `services:` of a job -/
example : SameReports exCfg exTrue exTrue {} (docNode (exRoot.at (exJobs.at ((exCallKey "with").at exWith))))
    (docNode (exRoot.at (exJobs.at ((exCallKey "with").at exWith')))) :=
  job_with_keys exCfg exTrue exTrue {} exRoot exJobs (exCallKey "with") (by keyed) (by decide) (by keyed) exWith_recased

example : AL.RuleExpr.rule exCfg.lower exTrue (parse exCfg (docNode (exRoot.at (exJobs.at ((exCallKey "with").at exWith))))).1 {} =
    AL.RuleExpr.rule exCfg.lower exTrue (parse exCfg (docNode (exRoot.at (exJobs.at ((exCallKey "with").at exWith'))))).1 {} :=
  job_with_keys_expr exCfg exTrue exRoot exJobs (exCallKey "with") {} (by keyed) (by decide) (by keyed) exWith_recased

example : Sim (nWf { arg := exCfg.lower }) (parse exCfg (docNode (exRoot.at (exJobs.at ((exCallKey "with").at exWith)))))
    (parse exCfg (docNode (exRoot.at (exJobs.at ((exCallKey "with").at exWith'))))) :=
  job_with_keys_in_document _ exCfg exRoot exJobs (exCallKey "with") exLower (by keyed) (by decide) (by keyed) exWith_recased

example : SameReports exCfg exTrue exTrue {} (docNode (exRoot.at (exJobs.at ((exCallKey "secrets").at exWith))))
    (docNode (exRoot.at (exJobs.at ((exCallKey "secrets").at exWith')))) :=
  job_secrets_keys exCfg exTrue exTrue {} exRoot exJobs (exCallKey "secrets") (by keyed) (by decide) (by keyed) exWith_recased

example : AL.RuleExpr.rule exCfg.lower exTrue (parse exCfg (docNode (exRoot.at (exJobs.at ((exCallKey "secrets").at exWith))))).1 {} =
    AL.RuleExpr.rule exCfg.lower exTrue (parse exCfg (docNode (exRoot.at (exJobs.at ((exCallKey "secrets").at exWith'))))).1 {} :=
  job_secrets_keys_expr exCfg exTrue exRoot exJobs (exCallKey "secrets") {} (by keyed) (by decide) (by keyed) exWith_recased

example : Sim (nWf { arg := exCfg.lower }) (parse exCfg (docNode (exRoot.at (exJobs.at ((exCallKey "secrets").at exWith)))))
    (parse exCfg (docNode (exRoot.at (exJobs.at ((exCallKey "secrets").at exWith'))))) :=
  job_secrets_keys_in_document _ exCfg exRoot exJobs (exCallKey "secrets") exLower (by keyed) (by decide) (by keyed) exWith_recased

example : SameReports exCfg exTrue exTrue {} (docNode (exRoot.at (exJobs.at ((exJobKey "outputs").at exWith))))
    (docNode (exRoot.at (exJobs.at ((exJobKey "outputs").at exWith')))) :=
  job_outputs_keys exCfg exTrue exTrue {} exRoot exJobs (exJobKey "outputs") (by keyed) (by decide) (by keyed) exWith_recased

example : AL.RuleExpr.rule exCfg.lower exTrue (parse exCfg (docNode (exRoot.at (exJobs.at ((exJobKey "outputs").at exWith))))).1 {} =
    AL.RuleExpr.rule exCfg.lower exTrue (parse exCfg (docNode (exRoot.at (exJobs.at ((exJobKey "outputs").at exWith'))))).1 {} :=
  job_outputs_keys_expr exCfg exTrue exRoot exJobs (exJobKey "outputs") {} (by keyed) (by decide) (by keyed) exWith_recased

example : Sim (nWf { output := exCfg.lower }) (parse exCfg (docNode (exRoot.at (exJobs.at ((exJobKey "outputs").at exWith)))))
    (parse exCfg (docNode (exRoot.at (exJobs.at ((exJobKey "outputs").at exWith'))))) :=
  job_outputs_keys_in_document _ exCfg exRoot exJobs (exJobKey "outputs") exLower (by keyed) (by decide) (by keyed) exWith_recased

example : SameReports exCfg exTrue exTrue {} (docNode (exRoot.at (exJobs.at ((exJobKey "services").at exWith))))
    (docNode (exRoot.at (exJobs.at ((exJobKey "services").at exWith')))) :=
  job_services_keys exCfg exTrue exTrue {} exRoot exJobs (exJobKey "services") (by keyed) (by decide) (by keyed) exWith_recased

example : AL.RuleExpr.rule exCfg.lower exTrue (parse exCfg (docNode (exRoot.at (exJobs.at ((exJobKey "services").at exWith))))).1 {} =
    AL.RuleExpr.rule exCfg.lower exTrue (parse exCfg (docNode (exRoot.at (exJobs.at ((exJobKey "services").at exWith'))))).1 {} :=
  job_services_keys_expr exCfg exTrue exRoot exJobs (exJobKey "services") {} (by keyed) (by decide) (by keyed) exWith_recased

example : Sim (nWf { service := exCfg.lower }) (parse exCfg (docNode (exRoot.at (exJobs.at ((exJobKey "services").at exWith)))))
    (parse exCfg (docNode (exRoot.at (exJobs.at ((exJobKey "services").at exWith'))))) :=
  job_services_keys_in_document _ exCfg exRoot exJobs (exJobKey "services") exLower (by keyed) (by decide) (by keyed) exWith_recased

/-- job ids: `jobs: {Build: …, test: {needs: ·, …}}` -/
def exJobBody (needs : Node) : Node :=
  mapNode "!!map" 4 5 [(sc "needs" 4 5, needs), (sc "runs-on" 5 5, sc "ubuntu-latest" 5 14), (sc "steps" 6 5, seqNode "!!seq" 7 7 [exStep0])]
def exTwoJobs (id1 : String) (needs : Node) : Node :=
  mapNode "!!map" 3 3 [(sc id1 3 3, exJobs.at (exJobSteps.at (exSeq.at exStep0)) |> fun _ =>
      mapNode "!!map" 10 5 [(sc "runs-on" 10 5, sc "ubuntu-latest" 10 14), (sc "steps" 11 5, seqNode "!!seq" 12 7 [exStep0])]),
    (sc "test" 14 3, exJobBody needs)]

theorem exJobs_recased : KeyRecased asciiLower (exTwoJobs "Build" (sc "BUILD" 4 12)) (exTwoJobs "build" (sc "BUILD" 4 12)) :=
  KeyRecased.of_pairs "!!map" 3 3 (.cons ⟨"build", rfl, by decide +kernel, by decide⟩ PairsAlike.rfl')

example : SameReports exCfg exTrue exTrue {} (docNode (exRoot.at (exTwoJobs "Build" (sc "BUILD" 4 12))))
    (docNode (exRoot.at (exTwoJobs "build" (sc "BUILD" 4 12)))) :=
  job_ids exCfg exTrue exTrue {} exRoot exAscii (by keyed) exJobs_recased

example : Sim (nWf { jobId := asciiLower }) (parse exCfg (docNode (exRoot.at (exTwoJobs "Build" (sc "BUILD" 4 12)))))
    (parse exCfg (docNode (exRoot.at (exTwoJobs "build" (sc "BUILD" 4 12))))) :=
  job_ids_in_document _ exCfg exRoot (fun _ _ e => e) (by keyed) exJobs_recased

/-- the parser reports nothing, and files the job under the same id: `needs: BUILD` names the job `Build` / `build` -/
example : (parse exCfg (docNode (exRoot.at (exTwoJobs "Build" (sc "BUILD" 4 12))))).2 = [] ∧
    (parse exCfg (docNode (exRoot.at (exTwoJobs "build" (sc "BUILD" 4 12))))).2 = [] ∧
    ((parse exCfg (docNode (exRoot.at (exTwoJobs "Build" (sc "BUILD" 4 12))))).1.jobs.getD []).map (·.1) = ["build", "test"] ∧
    ((parse exCfg (docNode (exRoot.at (exTwoJobs "build" (sc "BUILD" 4 12))))).1.jobs.getD []).map (·.1) = ["build", "test"] := by
  decide +kernel

/-- the job id at its definition (`Build` → `build`) and then at its use (`needs: BUILD` → `needs: build`) -/
example : SameReports exCfg exTrue exTrue {} (docNode (exRoot.at (exTwoJobs "Build" (sc "BUILD" 4 12))))
    (docNode (exRoot.at (exTwoJobs "build" (sc "build" 4 12)))) :=
  (job_ids exCfg exTrue exTrue {} exRoot exAscii (by keyed) exJobs_recased).trans _ _ _ _
    (job_needs exCfg exTrue exTrue {} exRoot
      ⟨"!!map", 3, 3, [(sc "build" 3 3, mapNode "!!map" 10 5 [(sc "runs-on" 10 5, sc "ubuntu-latest" 10 14), (sc "steps" 11 5, seqNode "!!seq" 12 7 [exStep0])])],
        sc "test" 14 3, []⟩
      ⟨"!!map", 4, 5, [], sc "needs" 4 5, [(sc "runs-on" 5 5, sc "ubuntu-latest" 5 14), (sc "steps" 6 5, seqNode "!!seq" 7 7 [exStep0])]⟩
      exAscii (by keyed) (by decide) (by keyed) (Or.inl ⟨"build", rfl, by decide +kernel, by decide⟩))

/-- the job `test` of the examples, `needs: ·` first -/
def exNeedsKey : MapCtx :=
  ⟨"!!map", 4, 5, [], sc "needs" 4 5, [(sc "runs-on" 5 5, sc "ubuntu-latest" 5 14), (sc "steps" 6 5, seqNode "!!seq" 7 7 [exStep0])]⟩

theorem exNeeds_scalar : NeedsRecased asciiLower (sc "BUILD" 4 12) (sc "Build" 4 12) := Or.inl ⟨"Build", rfl, by decide +kernel, by decide⟩

theorem exNeeds_seq : NeedsRecased asciiLower (seqNode "!!seq" 4 12 [sc "BUILD" 4 13, sc "nope" 4 20]) (seqNode "!!seq" 4 12 [sc "build" 4 13, sc "NOPE" 4 20]) :=
  Or.inr ⟨rfl, rfl, rfl, rfl, rfl,
    .cons ⟨"build", rfl, by decide +kernel, by decide⟩ (.cons ⟨"NOPE", rfl, by decide +kernel, by decide⟩ .nil)⟩

example : SameReports exCfg exTrue exTrue {} (docNode (exRoot.at (exJobs.at (exNeedsKey.at (sc "BUILD" 4 12)))))
    (docNode (exRoot.at (exJobs.at (exNeedsKey.at (sc "Build" 4 12))))) :=
  job_needs exCfg exTrue exTrue {} exRoot exJobs exNeedsKey exAscii (by keyed) (by decide) (by keyed) exNeeds_scalar

example : Sim (nWf { jobId := asciiLower })
    (parse exCfg (docNode (exRoot.at (exJobs.at (exNeedsKey.at (seqNode "!!seq" 4 12 [sc "BUILD" 4 13, sc "nope" 4 20]))))))
    (parse exCfg (docNode (exRoot.at (exJobs.at (exNeedsKey.at (seqNode "!!seq" 4 12 [sc "build" 4 13, sc "NOPE" 4 20])))))) :=
  job_needs_in_document _ exCfg exRoot exJobs exNeedsKey (by keyed) (by decide) (by keyed) exNeeds_seq

/-- `needs: [BUILD, nope]` in the only job `build`: needing itself is not reported, the unknown job is; the same re-cased -/
example : (ruleJobNeeds exCfg.lower (parse exCfg (docNode (exRoot.at (exJobs.at (exNeedsKey.at (seqNode "!!seq" 4 12 [sc "BUILD" 4 13, sc "nope" 4 20])))))).1).map sig =
      [(⟨3, 3⟩, "needs-undefined")] ∧
    (ruleJobNeeds exCfg.lower (parse exCfg (docNode (exRoot.at (exJobs.at (exNeedsKey.at (seqNode "!!seq" 4 12 [sc "build" 4 13, sc "NOPE" 4 20])))))).1).map sig =
      [(⟨3, 3⟩, "needs-undefined")] := by decide +kernel

/-- the general theorems -/
example : (rules exCfg.lower exTrue exTrue (parse exCfg (exDocWith exWith)).1).map sig =
    (rules exCfg.lower exTrue exTrue (parse exCfg (exDocWith exWith')).1).map sig :=
  rules_in_document { input := exCfg.lower } exCfg exTrue exTrue {} rfl (IdFold.id _) (IdFold.id _)
    (step_with_keys_in_document _ exCfg exRoot exJobs exJobSteps (exStepKey "with") exSeq exLower (by keyed) (by decide) (by keyed) (by keyed)
      exWith_recased)

example : (lint exCfg exTrue exTrue (exDocWith exWith)).map sig = (lint exCfg exTrue exTrue (exDocWith exWith')).map sig :=
  lint_in_document { input := exCfg.lower } exCfg exTrue exTrue {} rfl (IdFold.id _) (IdFold.id _)
    (step_with_keys_in_document _ exCfg exRoot exJobs exJobSteps (exStepKey "with") exSeq exLower (by keyed) (by decide) (by keyed) (by keyed)
      exWith_recased)

example : IdFold exCfg.lower asciiLower := IdFold.ascii exAscii

/-- why ids need more than `lower`: the naming convention (rule_id.go `validateConvention`) reads the id AS WRITTEN. For a
`lower` that folds a non-ASCII letter onto an ASCII one (Go's `strings.ToLower` maps U+212A KELVIN SIGN to `k`) the two spellings
are the same name for every lookup, yet only one of them matches `^[a-zA-Z_][a-zA-Z0-9_-]*$`. Re-casing in the ASCII sense
(`IdFold.ascii`) never runs into this. -/
theorem id_convention_reads_spelling :
    ∃ (lower : String → String) (a b : Str), lower a.value = lower b.value ∧ a.pos = b.pos ∧
      validateConvention (some a) "step" = [] ∧ validateConvention (some b) "step" ≠ [] :=
  ⟨fun s => if s = "\u212A" then "k" else s, ⟨"k", false, ⟨1, 1⟩⟩, ⟨"\u212A", false, ⟨1, 1⟩⟩, by decide +kernel, rfl, by decide +kernel, by decide +kernel⟩

/-- the sections -/
example : Sim (nAct { input := exCfg.lower })
    (let m := parseSectionMapping exCfg "with" exWith false false; let r := loop withKey { ({} : ExecAction) with inputs := some [] } m.1; (r.1, m.2 ++ r.2))
    (let m := parseSectionMapping exCfg "with" exWith' false false; let r := loop withKey { ({} : ExecAction) with inputs := some [] } m.1; (r.1, m.2 ++ r.2)) :=
  stepWith_recase { input := exCfg.lower } exLower exWith_recased {}
example : Sim (nAssoc (nArg exCfg.lower))
    (let m := parseSectionMapping exCfg "secrets" exWith false false; let r := callArgs m.1; (r.1, m.2 ++ r.2))
    (let m := parseSectionMapping exCfg "secrets" exWith' false false; let r := callArgs m.1; (r.1, m.2 ++ r.2)) :=
  callArgs_recase exLower "secrets" exWith_recased
example : Sim (nEnv exCfg.lower) (parseEnv exCfg exWith) (parseEnv exCfg exWith') := parseEnv_recase exLower exWith_recased
example : Sim (nAssoc (nOutput exCfg.lower)) (parseOutputs exCfg exWith) (parseOutputs exCfg exWith') := parseOutputs_recase exLower exWith_recased
example : Sim (nServices { service := exCfg.lower }) (parseServices exCfg exWith) (parseServices exCfg exWith') :=
  parseServices_recase { service := exCfg.lower } exLower exWith_recased
example : Sim (nMatrix exCfg.lower) (parseMatrix exCfg ⟨7, 7⟩ exWith) (parseMatrix exCfg ⟨7, 7⟩ exWith') :=
  parseMatrix_recase exLower ⟨7, 7⟩ exWith_recased
example : Sim (List.map (nCombo exCfg.lower)) (matrixCombos exCfg "include" ([] ++ exWith :: [])) (matrixCombos exCfg "include" ([] ++ exWith' :: [])) :=
  matrixCombos_recase exLower "include" exWith_recased [] []
example : Sim (nAssoc (nJob { jobId := asciiLower })) (parseJobs exCfg (exTwoJobs "Build" (sc "BUILD" 4 12)))
    (parseJobs exCfg (exTwoJobs "build" (sc "BUILD" 4 12))) :=
  parseJobs_recase { jobId := asciiLower } exCfg (fun _ _ e => e) exJobs_recased
example : Sim (nCallEventSt exCfg.lower) (callEventKey exCfg {} ⟨"inputs", ⟨"inputs", false, ⟨3, 5⟩⟩, exWith⟩)
    (callEventKey exCfg {} ⟨"inputs", ⟨"inputs", false, ⟨3, 5⟩⟩, exWith'⟩) :=
  callEventKey_recase exLower {} "inputs" _ exWith_recased
example : Sim (Option.map (nAssoc (nDispatchInput exCfg.lower))) (dispatchStep exCfg none ⟨"inputs", ⟨"inputs", false, ⟨3, 5⟩⟩, exWith⟩)
    (dispatchStep exCfg none ⟨"inputs", ⟨"inputs", false, ⟨3, 5⟩⟩, exWith'⟩) :=
  dispatchInputs_recase exLower none _ exWith_recased

/-- `strategy: matrix: {Fetch-Depth: 0, …}` (scalars that are not placeholders are reported by the parser, in both spellings) -/
example : SameReports exCfg exTrue exTrue {} (docNode (exRoot.at (exJobs.at ((exJobKey "strategy").at ((exOnly "matrix" 9 7).at exWith)))))
    (docNode (exRoot.at (exJobs.at ((exJobKey "strategy").at ((exOnly "matrix" 9 7).at exWith'))))) :=
  matrix_row_keys exCfg exTrue exTrue {} exRoot exJobs (exJobKey "strategy") (exOnly "matrix" 9 7) (by keyed) (by decide) (by keyed) (by keyed)
    exWith_recased

example : Sim (nWf { matrix := exCfg.lower })
    (parse exCfg (docNode (exRoot.at (exJobs.at ((exJobKey "strategy").at ((exOnly "matrix" 9 7).at exWith))))))
    (parse exCfg (docNode (exRoot.at (exJobs.at ((exJobKey "strategy").at ((exOnly "matrix" 9 7).at exWith')))))) :=
  matrix_row_keys_in_document _ exCfg exRoot exJobs (exJobKey "strategy") (exOnly "matrix" 9 7) exLower (by keyed) (by decide) (by keyed) (by keyed)
    exWith_recased

/-- `on: workflow_call: inputs: {Fetch-Depth: 0, …}` / `on: workflow_dispatch: inputs: …` -/
example : SameReports exCfg exTrue exTrue {} (docNode (exOnRoot.at ((exOnly "workflow_call" 2 3).at ((exOnly "inputs" 3 5).at exWith))))
    (docNode (exOnRoot.at ((exOnly "workflow_call" 2 3).at ((exOnly "inputs" 3 5).at exWith')))) :=
  call_names exCfg exTrue exTrue {} exOnRoot (exOnly "workflow_call" 2 3) (exOnly "inputs" 3 5) "inputs" (by keyed) (by keyed) (by keyed)
    exWith_recased

example : Sim (nWf { event := exCfg.lower })
    (parse exCfg (docNode (exOnRoot.at ((exOnly "workflow_call" 2 3).at ((exOnly "secrets" 3 5).at exWith)))))
    (parse exCfg (docNode (exOnRoot.at ((exOnly "workflow_call" 2 3).at ((exOnly "secrets" 3 5).at exWith'))))) :=
  call_names_in_document _ exCfg exOnRoot (exOnly "workflow_call" 2 3) (exOnly "secrets" 3 5) exLower "secrets" (by keyed) (by keyed) (by keyed)
    exWith_recased

example : SameReports exCfg exTrue exTrue {} (docNode (exOnRoot.at ((exOnly "workflow_dispatch" 2 3).at ((exOnly "inputs" 3 5).at exWith))))
    (docNode (exOnRoot.at ((exOnly "workflow_dispatch" 2 3).at ((exOnly "inputs" 3 5).at exWith')))) :=
  dispatch_names exCfg exTrue exTrue {} exOnRoot (exOnly "workflow_dispatch" 2 3) (exOnly "inputs" 3 5) (by keyed) (by keyed) (by keyed)
    exWith_recased

example : Sim (nWf { event := exCfg.lower })
    (parse exCfg (docNode (exOnRoot.at ((exOnly "workflow_dispatch" 2 3).at ((exOnly "inputs" 3 5).at exWith)))))
    (parse exCfg (docNode (exOnRoot.at ((exOnly "workflow_dispatch" 2 3).at ((exOnly "inputs" 3 5).at exWith'))))) :=
  dispatch_names_in_document _ exCfg exOnRoot (exOnly "workflow_dispatch" 2 3) (exOnly "inputs" 3 5) exLower (by keyed) (by keyed) (by keyed)
    exWith_recased

end examples

end AL.C08D
