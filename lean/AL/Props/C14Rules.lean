import AL.Model.Rules
/-
  C14 on AL.Rules.checkActionInputs (rule_action.go `checkAction` for an action of the bundled data set; tied by `lintwf`,
  the table regenerated from PopularActions on every run): an input is reported iff the action does not declare it; a
  declared required input is reported iff it is not supplied; nothing else is reported.
-/
namespace AL.C14R
open AL.Rules AL.Yaml AL.Ast

variable (spec : String) (declared : List (String × String × Bool)) (e : ExecAction) (usesPos : AL.Rules.Pos)

/-- every supplied input the action does not declare is reported, at the input's name -/
theorem undefined_reported (kv : String × Input) (hk : kv ∈ e.inputs.getD []) (hu : ∀ d ∈ declared, d.1 ≠ kv.1) :
    (⟨kv.2.name.pos, "action", "input-undefined", [kv.2.name.value, spec]⟩ : Diag) ∈ checkActionInputs spec declared e usesPos := by
  simp only [checkActionInputs, List.mem_append, List.mem_flatMap]
  refine Or.inl ⟨kv, hk, ?_⟩
  have : declared.any (fun d => decide (d.1 = kv.1)) = false := by
    simp only [List.any_eq_false, decide_eq_true_eq]
    exact fun d hd => hu d hd
  simp [this]

/-- … and only those: an `input-undefined` report belongs to a supplied input that is not declared -/
theorem undefined_only (d : Diag) (hd : d ∈ checkActionInputs spec declared e usesPos) (hc : d.code = "input-undefined") :
    ∃ kv ∈ e.inputs.getD [], (∀ x ∈ declared, x.1 ≠ kv.1) ∧ d.pos = kv.2.name.pos ∧ d.args = [kv.2.name.value, spec] := by
  simp only [checkActionInputs, List.mem_append, List.mem_flatMap] at hd
  rcases hd with ⟨kv, hk, h⟩ | ⟨id, _, h⟩
  · split at h
    · cases h
    · rename_i hany
      simp only [List.mem_singleton] at h
      subst h
      refine ⟨kv, hk, ?_, rfl, rfl⟩
      intro x hx hxe
      exact hany (List.any_eq_true.2 ⟨x, hx, by simpa using hxe⟩)
  · split at h
    · split at h
      · cases h
      · simp only [List.mem_singleton] at h; subst h; exact absurd (show ("input-missing" : String) = "input-undefined" ∨ ("input-undefined" : String) = "input-missing" from by first | exact Or.inl hc | exact Or.inr hc) (by decide)
    · cases h

/-- a `missing input` report names a declared required input that is not among the supplied ones -/
theorem missing_only (d : Diag) (hd : d ∈ checkActionInputs spec declared e usesPos) (hc : d.code = "input-missing") :
    ∃ x ∈ declared, x.2.2 = true ∧ (∀ kv ∈ e.inputs.getD [], kv.1 ≠ x.1) ∧ d.pos = usesPos ∧ d.args = [x.2.1, spec] := by
  simp only [checkActionInputs, List.mem_append, List.mem_flatMap] at hd
  rcases hd with ⟨kv, _, h⟩ | ⟨id, _, h⟩
  · split at h
    · cases h
    · simp only [List.mem_singleton] at h; subst h; exact absurd (show ("input-missing" : String) = "input-undefined" ∨ ("input-undefined" : String) = "input-missing" from by first | exact Or.inl hc | exact Or.inr hc) (by decide)
  · split at h
    · rename_i i name hf
      split at h
      · cases h
      · rename_i hany
        simp only [List.mem_singleton] at h
        subst h
        have hm := List.mem_of_find?_eq_some hf
        have hi : i = id := by simpa using List.find?_some hf
        refine ⟨(i, name, true), hm, rfl, ?_, rfl, rfl⟩
        intro kv hk hke
        exact hany (List.any_eq_true.2 ⟨kv, hk, by simp [hke, hi]⟩)
    · cases h

end AL.C14R
