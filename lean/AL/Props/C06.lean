import AL.Model.Sema
import AL.Spec.Looser
import AL.Gen.Builtins
/-
  C06 — unknown (any) types never cause a diagnostic.
  Statements; proved theorems are added below by name.
-/
namespace AL.C06
open AL AL.Sema AL.Spec

/-- (a) `any` is assignable to and from everything that matters: a parameter accepts `any`, and `any`
accepts every argument. -/
def any_assignable_statement : Prop :=
  ∀ t : Ty, Ty.assignable t .any = true ∧ Ty.assignable .any t = true

/-- (b) assignability is monotone in the argument: loosening the argument keeps it assignable. -/
def assignable_mono_right_statement : Prop :=
  ∀ p a a' : Ty, Looser a a' → Ty.assignable p a = true → Ty.assignable p a' = true

/-- (c) `Merge` is monotone: loosening either side yields a looser result. -/
def merge_mono_statement : Prop :=
  ∀ l l' r r' : Ty, Looser l l' → Looser r r' → Looser (Ty.merge l r) (Ty.merge l' r')

/-- (d) comparison validity is monotone. -/
def compare_mono_statement : Prop :=
  ∀ op (l l' r r' : Ty), Looser l l' → Looser r r' → validCompare op l r = true → validCompare op l' r' = true

/-- (e) THE PROPERTY: for every expression and every pair of environments Γ ⊑ Γ', if the expression is
accepted under Γ it is accepted under Γ', and its type only gets looser. -/
def mono_statement : Prop :=
  ∀ (Γ Γ' : Env) (e : E), LooserEnv Γ Γ' → SameRet Γ.funcs →
    (check Γ e).errs = [] → (check Γ' e).errs = [] ∧ Looser (check Γ e).ty (check Γ' e).ty

/-- (f) the built-in function table satisfies the hypothesis of (e) (regenerated table). -/
def builtin_same_ret_statement : Prop := SameRet AL.Gen.funcSigs

/-- (g) the untrusted-input events do not depend on the types at all (so loosening never changes
script-injection reports either), as long as the expression is accepted under both. -/
def events_independent_statement : Prop :=
  ∀ (Γ Γ' : Env) (e : E), LooserEnv Γ Γ' → (check Γ e).evs = (check Γ' e).evs

end AL.C06
