import AL.Model.Sema
import AL.Spec.Looser
import AL.Gen.Builtins
import AL.Lemmas.TyLooser
import AL.Lemmas.TyMono
import AL.Lemmas.TyWf
import AL.Lemmas.TyMerge
import AL.Lemmas.SemaMonoCompare
import AL.Lemmas.SemaMonoBasic
import AL.Lemmas.SemaMonoOps
import AL.Lemmas.SemaMono
import AL.Lemmas.SemaMonoJson
/-
  C06 — unknown (any) types never cause a diagnostic.
  Statements; proved theorems are added below by name.

  Summary of what is proved here (model after the repair of `ArrayType.Merge`: in its two
  any-element short-cuts the result's `Deref` flag is `ty.Deref || other.Deref`).
  * (a), (b), (d), (f), (g) hold as stated.
  * THE PROPERTY holds at full strength for the original environment relation: `mono_full`
    (`LooserEnv Γ Γ' → WfEnv Γ → SameRet Γ.funcs → errs = [] → errs' = []`), and the result type only
    gets looser in the sense of `Ty.LooserD` (`mono_full_typed`): like `Looser`, except that the `deref`
    flag of an array may switch on. `Looser ⊆ LooserD` (`Ty.LooserD.of_looser`).
  * (c) and the SECOND conjunct of (e) are still false as literally stated, but only because `Looser`
    demands equal `deref` flags: `array<number> deref .Merge(array<number>)` is a plain array (pinned by a
    test of the Go code), while `array<any> deref .Merge(array<number>)` is dereferenced
    (`merge_mono_counterexample`, `mono_counterexample`; no diagnostic differs).
  * `WfEnv`/`Ty.wf` (property lists sorted by key) is the representation invariant of the model (a Go
    map has no order and no duplicate keys); it is needed because `LooserProps` compares property lists
    position by position while `merge` re-sorts (`merge_mono_needs_wf`, `mono_needs_wf`), and every
    environment the driver builds satisfies it (`driver_env_wf`).
  * Regression: the former counterexample `(matrix.a && github.event.*).foo` (`array<number>` vs
    `array<any>`) is now accepted under both environments (`cex_accepted`, `cex_fixed`).
-/
namespace AL.C06
open AL AL.Sema AL.Spec

/-! ### concrete data for the examples -/

/-- `matrix : {cfg: {a: number}; os: string}`, built-in functions -/
def exΓ : Env :=
  { vars := [("matrix", .obj [("cfg", .obj [("a", .number)] none), ("os", .string)] none)],
    funcs := AL.Gen.funcSigs, specialFuncs := AL.Gen.specialFuncs,
    availCtx := ["matrix"], availSpecial := [], configVars := none,
    lower := id, fromJson := fun _ => .otherErr }

/-- the same with `matrix.cfg : any` -/
def exΓ' : Env := { exΓ with vars := [("matrix", .obj [("cfg", .any), ("os", .string)] none)] }

/-- `matrix.cfg.a == 1 && contains(matrix.os, 'x')` -/
def exE : E :=
  .logical .and (.cmp .eq (.objDeref (.objDeref (.var "matrix") "cfg") "a") .num)
    (.call "contains" [.objDeref (.var "matrix") "os", .str "x"])

theorem ex_looser : LooserEnv exΓ exΓ' :=
  ⟨.cons (.obj (.cons (.toAny _) (.cons (.refl _) .nil)) .none) .nil, rfl, rfl, rfl, rfl, rfl, rfl, rfl⟩

theorem ex_looserD : LooserEnvD exΓ exΓ' :=
  ⟨.cons (.obj (.cons (.any _) (.cons .string .nil)) .none) .nil, rfl, rfl, rfl, rfl, rfl, rfl, rfl⟩

/-! ### (a) -/

/-- (a) `any` is assignable to and from everything that matters: a parameter accepts `any`, and `any`
accepts every argument. -/
def any_assignable_statement : Prop :=
  ∀ t : Ty, Ty.assignable t .any = true ∧ Ty.assignable .any t = true

theorem any_assignable : any_assignable_statement :=
  fun t => ⟨Ty.assignable_any_right t, Ty.assignable_any_left t⟩

example : Ty.assignable (.obj [("a", .arr .string false)] none) .any = true ∧
    Ty.assignable .any (.obj [("a", .arr .string false)] none) = true := any_assignable _

/-! ### (b) -/

/-- (b) assignability is monotone in the argument: loosening the argument keeps it assignable. -/
def assignable_mono_right_statement : Prop :=
  ∀ p a a' : Ty, Looser a a' → Ty.assignable p a = true → Ty.assignable p a' = true

theorem assignable_mono_right : assignable_mono_right_statement :=
  fun _ _ _ h hp => Ty.assignable_mono_looser h hp

/-- a strict object parameter `{a: string}` accepts `{a: number}`, hence also the opened `{a: any; …}` -/
example : Looser (.obj [("a", .number)] none) (.obj [("a", .any)] (some .any)) ∧
    Ty.assignable (.obj [("a", .string)] none) (.obj [("a", .number)] none) = true ∧
    Ty.assignable (.obj [("a", .string)] none) (.obj [("a", .any)] (some .any)) = true :=
  ⟨.obj (.cons (.toAny _) .nil) .opened, by simp [Ty.assignable, Ty.propsCover, Ty.lookupAssignable],
   by simp [Ty.assignable, Ty.propsAssignableTo]⟩

/-! ### (c) -/

/-- (c) `Merge` is monotone: loosening either side yields a looser result. -/
def merge_mono_statement : Prop :=
  ∀ l l' r r' : Ty, Looser l l' → Looser r r' → Looser (Ty.merge l r) (Ty.merge l' r')

/-- (c) is still false as stated, but only in the `deref` flag (which `Looser` wants unchanged):
`array<number> deref .Merge(array<number>)` is the plain `array<number>` (third case of
`ArrayType.Merge`, `Deref: false`), while after loosening the receiver to `array<any> deref` the first
short-cut returns it with the or-ed flag. -/
theorem merge_mono_counterexample : ¬ merge_mono_statement := by
  intro h
  have h1 := h (.arr .number true) (.arr .any true) (.arr .number false) (.arr .number false)
    (.arr true (.toAny _)) (.refl _)
  have e1 : Ty.merge (.arr .number true) (.arr .number false) = .arr .number false := rfl
  have e2 : Ty.merge (.arr .any true) (.arr .number false) = .arr .any true := rfl
  rw [e1, e2] at h1
  cases h1

/-- (c') corrected: for the deref-aware relation `LooserD`, and a well-formed (key-sorted) second
argument. `LooserD` differs from `Looser` only on arrays: `arr e d ⊑ arr e' d'` needs `e ⊑ e'` and
`d = true → d' = true` (the flag may switch on). -/
def merge_mono_statement' : Prop :=
  ∀ l l' r r' : Ty, Ty.wf r = true → Ty.LooserD l l' → Ty.LooserD r r' →
    Ty.LooserD (Ty.merge l r) (Ty.merge l' r')

theorem merge_mono' : merge_mono_statement' :=
  fun l l' r r' hw hl hr => Ty.merge_mono r l l' r' hw hl hr

/-- (c') with the original `Looser` on the arguments -/
theorem merge_mono_of_looser (l l' r r' : Ty) (hw : Ty.wf r = true) (hl : Looser l l') (hr : Looser r r') :
    Ty.LooserD (Ty.merge l r) (Ty.merge l' r') :=
  merge_mono' l l' r r' hw (Ty.LooserD.of_looser hl) (Ty.LooserD.of_looser hr)

/-- The well-formedness hypothesis of (c') cannot be dropped: `{}.Merge({b: number; a: number})`
re-sorts the properties, while opening the argument takes the short-cut that returns it as it is. -/
theorem merge_mono_needs_wf :
    ¬ ∀ l l' r r' : Ty, Ty.LooserD l l' → Ty.LooserD r r' → Ty.LooserD (Ty.merge l r) (Ty.merge l' r') := by
  intro h
  have h1 := h (.obj [] none) (.obj [] none) (.obj [("b", .number), ("a", .number)] none)
    (.obj [("b", .number), ("a", .number)] (some .any)) (Ty.LooserD.refl _)
    (.obj (Ty.LooserDProps.refl _) .opened)
  have e1 : Ty.merge (.obj [] none) (.obj [("b", .number), ("a", .number)] none)
      = .obj [("a", .number), ("b", .number)] none := by ty_eval
  have e2 : Ty.merge (.obj [] none) (.obj [("b", .number), ("a", .number)] (some .any))
      = .obj [("b", .number), ("a", .number)] (some .any) := rfl
  rw [e1, e2] at h1
  cases h1 with
  | obj hp _ => exact absurd hp.head_key (by decide)

/-- (c') on concrete data: `{a: number}.Merge({a: string; b: bool})` against the same with the
receiver's `a` loosened and the argument opened. -/
example :
    Ty.merge (.obj [("a", .number)] none) (.obj [("a", .string), ("b", .bool)] none)
      = .obj [("a", .string), ("b", .bool)] none ∧
    Ty.merge (.obj [("a", .any)] none) (.obj [("a", .string), ("b", .bool)] (some .any))
      = .obj [("a", .any), ("b", .bool)] (some .any) ∧
    Ty.LooserD (Ty.merge (.obj [("a", .number)] none) (.obj [("a", .string), ("b", .bool)] none))
      (Ty.merge (.obj [("a", .any)] none) (.obj [("a", .string), ("b", .bool)] (some .any))) :=
  ⟨by ty_eval, by ty_eval,
   merge_mono' _ _ _ _ (by decide) (.obj (.cons (.any _) .nil) .none)
     (.obj (Ty.LooserDProps.refl _) .opened)⟩

/-! ### (d) -/

/-- (d) comparison validity is monotone. -/
def compare_mono_statement : Prop :=
  ∀ op (l l' r r' : Ty), Looser l l' → Looser r r' → validCompare op l r = true → validCompare op l' r' = true

theorem compare_mono : compare_mono_statement :=
  fun _ _ _ _ _ hl hr h => validCompare_mono_looser hl hr h

example : validCompare .less .number .string = true ∧ validCompare .less .any .string = true ∧
    validCompare .eq (.arr .number false) (.arr .string false) = true ∧
    validCompare .eq (.arr .any false) .any = true := by
  simp [validCompare]

/-! ### (f) -/

/-- (f) the built-in function table satisfies the hypothesis of (e) (regenerated table). -/
def builtin_same_ret_statement : Prop := SameRet AL.Gen.funcSigs

theorem sameRet_iff (fs : List (String × List Sig)) :
    SameRet fs ↔ ∀ p ∈ fs, ∀ s₁ ∈ p.2, ∀ s₂ ∈ p.2, s₁.ret = s₂.ret :=
  ⟨fun h p hp => h p.1 p.2 hp, fun h n sigs hm => h (n, sigs) hm⟩

/-- re-checked against the generated table on every build, whatever its length -/
theorem builtin_same_ret : builtin_same_ret_statement := by
  unfold builtin_same_ret_statement
  rw [sameRet_iff]
  simp [AL.Gen.funcSigs]

/-- the built-in table also has well-formed result types (hypothesis `WfEnv.funcs` of (e')) -/
theorem builtin_rets_wf : ∀ n sigs, (n, sigs) ∈ AL.Gen.funcSigs → ∀ s ∈ sigs, Ty.wf s.ret = true := by
  have h : ∀ p ∈ AL.Gen.funcSigs, ∀ s ∈ p.2, Ty.wf s.ret = true := by
    simp [AL.Gen.funcSigs, Ty.wf]
  exact fun n sigs hm => h (n, sigs) hm

/-- the built-in context types are well formed (sorted by key), so `WfEnv.vars` holds for them -/
theorem builtin_vars_wf : Ty.wfProps AL.Gen.globalVars = true ∧ Ty.sortedKeys AL.Gen.globalVars = true := by
  decide

/-! ### (e) -/

/-- (e) THE PROPERTY: for every expression and every pair of environments Γ ⊑ Γ', if the expression is
accepted under Γ it is accepted under Γ', and its type only gets looser. -/
def mono_statement : Prop :=
  ∀ (Γ Γ' : Env) (e : E), LooserEnv Γ Γ' → SameRet Γ.funcs →
    (check Γ e).errs = [] → (check Γ' e).errs = [] ∧ Looser (check Γ e).ty (check Γ' e).ty

/-- the former counterexample to (e) (before the repair of `ArrayType.Merge`):
`matrix.a : array<number>`, `github.event : object` -/
def cexΓ : Env :=
  { vars := [("github", .obj [("event", .obj [] (some .any))] none),
             ("matrix", .obj [("a", .arr .number false)] none)],
    funcs := AL.Gen.funcSigs, specialFuncs := AL.Gen.specialFuncs,
    availCtx := ["github", "matrix"], availSpecial := [], configVars := none,
    lower := id, fromJson := fun _ => .otherErr }

/-- … loosened to `matrix.a : array<any>` -/
def cexΓ' : Env :=
  { cexΓ with vars := [("github", .obj [("event", .obj [] (some .any))] none),
                        ("matrix", .obj [("a", .arr .any false)] none)] }

/-- `(matrix.a && github.event.*).foo` -/
def cexE : E :=
  .objDeref (.logical .and (.objDeref (.var "matrix") "a") (.arrDeref (.objDeref (.var "github") "event"))) "foo"

theorem cex_looser : LooserEnv cexΓ cexΓ' :=
  ⟨.cons (.refl _) (.cons (.obj (.cons (.arr false (.toAny _)) .nil) .none) .nil),
   rfl, rfl, rfl, rfl, rfl, rfl, rfl⟩

/-- accepted with the precise type: the merge of `array<number>` and the dereferenced `array<any>` is
the latter, `.foo` filters it -/
theorem cex_accepted : (check cexΓ cexE).errs = [] ∧ (check cexΓ cexE).ty = .arr .any true := by
  check_eval [cexΓ, cexE]

/-- REGRESSION for the repaired defect: with the looser `matrix.a : array<any>` the merge is the
receiver, now with the or-ed `deref` flag, so `.foo` is accepted as well (it used to get "receiver of
object dereference "foo" must be type of object but got "array<any>""). -/
theorem cex_fixed : (check cexΓ' cexE).errs = [] ∧ (check cexΓ' cexE).ty = .arr .any true := by
  check_eval [cexΓ, cexΓ', cexE]

/-- witness against the second conjunct of (e): `matrix : {a: array<number>; b: array<number>}` -/
def flagΓ : Env :=
  { vars := [("matrix", .obj [("a", .arr .number false), ("b", .arr .number false)] none)],
    funcs := AL.Gen.funcSigs, specialFuncs := AL.Gen.specialFuncs,
    availCtx := ["matrix"], availSpecial := [], configVars := none,
    lower := id, fromJson := fun _ => .otherErr }

/-- … loosened to `matrix.a : array<any>` -/
def flagΓ' : Env :=
  { flagΓ with vars := [("matrix", .obj [("a", .arr .any false), ("b", .arr .number false)] none)] }

/-- `matrix.a.* && matrix.b` -/
def flagE : E := .logical .and (.arrDeref (.objDeref (.var "matrix") "a")) (.objDeref (.var "matrix") "b")

theorem flag_looser : LooserEnv flagΓ flagΓ' :=
  ⟨.cons (.obj (.cons (.arr false (.toAny _)) (.cons (.refl _) .nil)) .none) .nil,
   rfl, rfl, rfl, rfl, rfl, rfl, rfl⟩

/-- no diagnostic in either environment; the types are `array<number>` (plain) and `array<any>`
(dereferenced) -/
theorem flag_results :
    (check flagΓ flagE).errs = [] ∧ (check flagΓ flagE).ty = .arr .number false ∧
    (check flagΓ' flagE).errs = [] ∧ (check flagΓ' flagE).ty = .arr .any true :=
  ⟨by check_eval [flagΓ, flagE], by check_eval [flagΓ, flagE],
   by check_eval [flagΓ, flagΓ', flagE], by check_eval [flagΓ, flagΓ', flagE]⟩

/-- (e) is false as literally stated, but ONLY in its second conjunct and only because `Looser` wants
equal `deref` flags: for `matrix.a.* && matrix.b` the result type goes from the plain `array<number>`
to the dereferenced `array<any>`; neither environment produces a diagnostic. The FIRST conjunct
(`errs = []`, the property itself) holds: that is `mono_full` below. -/
theorem mono_counterexample : ¬ mono_statement := by
  intro h
  have h1 := (h flagΓ flagΓ' flagE flag_looser builtin_same_ret flag_results.1).2
  rw [flag_results.2.1, flag_results.2.2.2] at h1
  cases h1

/-- (e) at full strength, for the ORIGINAL environment relation: loosening the context types never
introduces a diagnostic. `WfEnv` is the representation invariant of the model (sorted property lists:
context types, function results, types of JSON literals). -/
def mono_full_statement : Prop :=
  ∀ (Γ Γ' : Env) (e : E), LooserEnv Γ Γ' → WfEnv Γ → SameRet Γ.funcs →
    (check Γ e).errs = [] → (check Γ' e).errs = []

theorem mono_full : mono_full_statement :=
  fun _ _ e h hw hs he => (check_mono_full e h hw hs he).1

/-- … and the type only gets looser, up to `deref` flags switching on (`LooserD`). -/
def mono_full_typed_statement : Prop :=
  ∀ (Γ Γ' : Env) (e : E), LooserEnv Γ Γ' → WfEnv Γ → SameRet Γ.funcs →
    (check Γ e).errs = [] → (check Γ' e).errs = [] ∧ Ty.LooserD (check Γ e).ty (check Γ' e).ty

theorem mono_full_typed : mono_full_typed_statement :=
  fun _ _ e h hw hs he => check_mono_full e h hw hs he

/-- (e') the most general form: the context types themselves are only `LooserD`-related (so they may
also differ by `deref` flags switched on); `mono_full_typed` is the special case `LooserEnv`. -/
def mono_statement' : Prop :=
  ∀ (Γ Γ' : Env) (e : E), LooserEnvD Γ Γ' → WfEnv Γ → SameRet Γ.funcs →
    (check Γ e).errs = [] → (check Γ' e).errs = [] ∧ Ty.LooserD (check Γ e).ty (check Γ' e).ty

theorem mono' : mono_statement' :=
  fun _ _ e h hw hs he => check_mono e h hw hs he

/-- `WfEnv` is no restriction in practice: every environment the differential-testing driver builds
(built-in context types overridden by well-formed ones via `setProp`, the generated function table,
the model of `typeOfJSONValue`) is well formed. -/
theorem driver_env_wf (overrides : List (String × Ty)) (hov : ∀ e ∈ overrides, Ty.wf e.2 = true)
    (ctx sp : List String) (cv : Option (List String)) (lower : String → String) :
    WfEnv { vars := overrides.foldl (fun acc kv => Ty.setProp kv.1 kv.2 acc) AL.Gen.globalVars,
            funcs := AL.Gen.funcSigs, specialFuncs := AL.Gen.specialFuncs, availCtx := ctx,
            availSpecial := sp, configVars := cv, lower := lower, fromJson := AL.Json.fromJson lower } :=
  ⟨foldl_setProp_pairs_wfProps overrides hov _ builtin_vars_wf.1, builtin_rets_wf, fromJson_wf lower⟩

theorem ex_wf : WfEnv exΓ :=
  ⟨by decide, builtin_rets_wf, fun _ _ h => by cases h⟩

/-- (e) on concrete data: `matrix.cfg.a == 1 && contains(matrix.os, 'x')` with
`matrix : {cfg: {a: number}; os: string}` and with `matrix.cfg : any`: the hypotheses hold, and the
checker returns `bool` without diagnostics in both. -/
example : LooserEnv exΓ exΓ' ∧ LooserEnvD exΓ exΓ' ∧ WfEnv exΓ ∧ SameRet exΓ.funcs ∧
    (check exΓ exE).errs = [] ∧ (check exΓ exE).ty = .bool ∧
    (check exΓ' exE).errs = [] ∧ (check exΓ' exE).ty = .bool :=
  ⟨ex_looser, ex_looserD, ex_wf, builtin_same_ret,
   by check_eval [exΓ, exE, AL.Gen.funcSigs, AL.Gen.specialFuncs, AL.Gen.specialFuncKeys],
   by check_eval [exΓ, exE, AL.Gen.funcSigs, AL.Gen.specialFuncs, AL.Gen.specialFuncKeys],
   by check_eval [exΓ, exΓ', exE, AL.Gen.funcSigs, AL.Gen.specialFuncs, AL.Gen.specialFuncKeys],
   by check_eval [exΓ, exΓ', exE, AL.Gen.funcSigs, AL.Gen.specialFuncs, AL.Gen.specialFuncKeys]⟩

example : (check exΓ' exE).errs = [] := mono_full exΓ exΓ' exE ex_looser ex_wf builtin_same_ret
  (by check_eval [exΓ, exE, AL.Gen.funcSigs, AL.Gen.specialFuncs, AL.Gen.specialFuncKeys])

/-- the former counterexample, now as an instance of `mono_full` -/
example : (check cexΓ' cexE).errs = [] :=
  mono_full cexΓ cexΓ' cexE cex_looser ⟨by decide, builtin_rets_wf, fun _ _ h => by cases h⟩
    builtin_same_ret cex_accepted.1

/-- The well-formedness hypothesis of `mono_full`/(e') cannot be dropped either (in the model; a Go map cannot
have a duplicate key): with `y : {a: number; a: any}` the merge `{} && y` folds the two `a`s into `any`,
while for the opened `y` the short-cut keeps `y`, whose first `a` is `number`. -/
def wfΓ : Env :=
  { vars := [("x", .obj [] none), ("y", .obj [("a", .number), ("a", .any)] none)],
    funcs := [], specialFuncs := [], availCtx := ["x", "y"], availSpecial := [], configVars := none,
    lower := id, fromJson := fun _ => .otherErr }
def wfΓ' : Env :=
  { wfΓ with vars := [("x", .obj [] none), ("y", .obj [("a", .number), ("a", .any)] (some .any))] }
/-- `(x && y).a.foo` -/
def wfE : E := .objDeref (.objDeref (.logical .and (.var "x") (.var "y")) "a") "foo"

theorem mono_needs_wf :
    ¬ ∀ (Γ Γ' : Env) (e : E), LooserEnv Γ Γ' → SameRet Γ.funcs →
      (check Γ e).errs = [] → (check Γ' e).errs = [] := by
  intro h
  have h1 := h wfΓ wfΓ' wfE
    ⟨.cons (.refl _) (.cons (.obj (.cons (.refl _) (.cons (.refl _) .nil)) .opened) .nil),
     rfl, rfl, rfl, rfl, rfl, rfl, rfl⟩
    (fun _ _ hm => by cases hm)
    (by check_eval [wfΓ, wfE])
  have h2 : (check wfΓ' wfE).errs = [err "deref-not-object" ["foo", tyStr .number]] := by
    check_eval [wfΓ, wfΓ', wfE]
  rw [h2] at h1
  cases h1

/-! ### (g) -/

/-- (g) the untrusted-input events do not depend on the types at all (so loosening never changes
script-injection reports either), as long as the expression is accepted under both. -/
def events_independent_statement : Prop :=
  ∀ (Γ Γ' : Env) (e : E), LooserEnv Γ Γ' → (check Γ e).evs = (check Γ' e).evs

theorem events_independent : events_independent_statement :=
  fun _ _ e h => check_evs e h

/-- the events of `matrix.cfg.a == 1 && contains(matrix.os, 'x')` -/
example : (check exΓ exE).evs = (check exΓ' exE).evs ∧
    (check exΓ exE).evs =
      [.leave (.var "matrix"), .leave (.objDeref "cfg"), .leave (.objDeref "a"), .leave .other, .leave .other,
       .enterSafeCall, .leave (.var "matrix"), .leave (.objDeref "os"), .leave .other, .leave .safeCall,
       .leave .other] :=
  ⟨events_independent exΓ exΓ' exE ex_looser,
   by check_eval [exΓ, exE, AL.Gen.funcSigs, enterOf, leaveOf, isSafeCall]⟩

end AL.C06
