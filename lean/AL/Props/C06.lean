import AL.Model.Sema
import AL.Spec.Looser
import AL.Gen.Builtins
import AL.Lemmas.TyLooser
import AL.Lemmas.TyMono
import AL.Lemmas.TyWf
import AL.Lemmas.TyMerge
import AL.Lemmas.SemaMonoCompare
import AL.Lemmas.SemaMonoBasic
import AL.Lemmas.SemaMonoOps
import AL.Lemmas.SemaMono
import AL.Lemmas.SemaMonoJson
/-
  C06 — unknown (any) types never cause a diagnostic.
  Statements; proved theorems are added below by name.

  Summary of what is proved here.
  * (a), (b), (d), (f), (g) hold as stated.
  * (c) and (e) are FALSE as stated (`merge_mono_counterexample`, `mono_counterexample`): loosening the
    element type of a plain array to `any` (`array<number>` ↦ `array<any>`) changes which side
    `ArrayType.Merge` returns, and with it the `deref` flag that `checkObjectDeref` looks at.  The
    checker (Go code and model alike) then reports `(matrix.a && github.event.*).foo` only in the
    LOOSER environment.  This is a genuine violation of the property by the code.
  * The corrected statements (c'), (e') use the relation `Ty.LooserD` (AL/Lemmas/TyLooser.lean): like
    `Looser`, but a plain array whose element type is `any` on the loose side must have had element
    type `any` before (and the `deref` flag may be switched on).  They also need the representation
    invariant of the model, `Ty.wf`/`WfEnv` (property lists sorted by key; a Go map has no order and no
    duplicate keys): `LooserProps` compares property lists position by position, while `merge` re-sorts.
-/
namespace AL.C06
open AL AL.Sema AL.Spec

/-! ### concrete data for the examples -/

/-- `matrix : {cfg: {a: number}; os: string}`, built-in functions -/
def exΓ : Env :=
  { vars := [("matrix", .obj [("cfg", .obj [("a", .number)] none), ("os", .string)] none)],
    funcs := AL.Gen.funcSigs, specialFuncs := AL.Gen.specialFuncs,
    availCtx := ["matrix"], availSpecial := [], configVars := none,
    lower := id, fromJson := fun _ => .otherErr }

/-- the same with `matrix.cfg : any` -/
def exΓ' : Env := { exΓ with vars := [("matrix", .obj [("cfg", .any), ("os", .string)] none)] }

/-- `matrix.cfg.a == 1 && contains(matrix.os, 'x')` -/
def exE : E :=
  .logical .and (.cmp .eq (.objDeref (.objDeref (.var "matrix") "cfg") "a") .num)
    (.call "contains" [.objDeref (.var "matrix") "os", .str "x"])

theorem ex_looser : LooserEnv exΓ exΓ' :=
  ⟨.cons (.obj (.cons (.toAny _) (.cons (.refl _) .nil)) .none) .nil, rfl, rfl, rfl, rfl, rfl, rfl, rfl⟩

theorem ex_looserD : LooserEnvD exΓ exΓ' :=
  ⟨.cons (.obj (.cons (.any _) (.cons .string .nil)) .none) .nil, rfl, rfl, rfl, rfl, rfl, rfl, rfl⟩

/-! ### (a) -/

/-- (a) `any` is assignable to and from everything that matters: a parameter accepts `any`, and `any`
accepts every argument. -/
def any_assignable_statement : Prop :=
  ∀ t : Ty, Ty.assignable t .any = true ∧ Ty.assignable .any t = true

theorem any_assignable : any_assignable_statement :=
  fun t => ⟨Ty.assignable_any_right t, Ty.assignable_any_left t⟩

example : Ty.assignable (.obj [("a", .arr .string false)] none) .any = true ∧
    Ty.assignable .any (.obj [("a", .arr .string false)] none) = true := any_assignable _

/-! ### (b) -/

/-- (b) assignability is monotone in the argument: loosening the argument keeps it assignable. -/
def assignable_mono_right_statement : Prop :=
  ∀ p a a' : Ty, Looser a a' → Ty.assignable p a = true → Ty.assignable p a' = true

theorem assignable_mono_right : assignable_mono_right_statement :=
  fun _ _ _ h hp => Ty.assignable_mono_looser h hp

/-- a strict object parameter `{a: string}` accepts `{a: number}`, hence also the opened `{a: any; …}` -/
example : Looser (.obj [("a", .number)] none) (.obj [("a", .any)] (some .any)) ∧
    Ty.assignable (.obj [("a", .string)] none) (.obj [("a", .number)] none) = true ∧
    Ty.assignable (.obj [("a", .string)] none) (.obj [("a", .any)] (some .any)) = true :=
  ⟨.obj (.cons (.toAny _) .nil) .opened, by simp [Ty.assignable, Ty.propsCover, Ty.lookupAssignable],
   by simp [Ty.assignable, Ty.propsAssignableTo]⟩

/-! ### (c) -/

/-- (c) `Merge` is monotone: loosening either side yields a looser result. -/
def merge_mono_statement : Prop :=
  ∀ l l' r r' : Ty, Looser l l' → Looser r r' → Looser (Ty.merge l r) (Ty.merge l' r')

/-- (c) is false: `array<number>.Merge(array<any> with deref)` is the argument (deref flag on), but
after loosening the receiver to `array<any>` the receiver wins (deref flag off). -/
theorem merge_mono_counterexample : ¬ merge_mono_statement := by
  intro h
  have h1 := h (.arr .number false) (.arr .any false) (.arr .any true) (.arr .any true)
    (.arr false (.toAny _)) (.refl _)
  have e1 : Ty.merge (.arr .number false) (.arr .any true) = .arr .any true := rfl
  have e2 : Ty.merge (.arr .any false) (.arr .any true) = .arr .any false := rfl
  rw [e1, e2] at h1
  cases h1

/-- (c') corrected: for the deref-aware relation `LooserD`, and a well-formed (key-sorted) second
argument. `LooserD` differs from `Looser` only on arrays: `arr e d ⊑ arr e' d'` needs `e ⊑ e'` and
`d' = true ∨ (d = false ∧ (e' = any → e = any))`. -/
def merge_mono_statement' : Prop :=
  ∀ l l' r r' : Ty, Ty.wf r = true → Ty.LooserD l l' → Ty.LooserD r r' →
    Ty.LooserD (Ty.merge l r) (Ty.merge l' r')

theorem merge_mono' : merge_mono_statement' :=
  fun l l' r r' hw hl hr => Ty.merge_mono r l l' r' hw hl hr

/-- The well-formedness hypothesis of (c') cannot be dropped: `{}.Merge({b: number; a: number})`
re-sorts the properties, while opening the argument takes the short-cut that returns it as it is. -/
theorem merge_mono_needs_wf :
    ¬ ∀ l l' r r' : Ty, Ty.LooserD l l' → Ty.LooserD r r' → Ty.LooserD (Ty.merge l r) (Ty.merge l' r') := by
  intro h
  have h1 := h (.obj [] none) (.obj [] none) (.obj [("b", .number), ("a", .number)] none)
    (.obj [("b", .number), ("a", .number)] (some .any)) (Ty.LooserD.refl _)
    (.obj (Ty.LooserDProps.refl _) .opened)
  have e1 : Ty.merge (.obj [] none) (.obj [("b", .number), ("a", .number)] none)
      = .obj [("a", .number), ("b", .number)] none := by ty_eval
  have e2 : Ty.merge (.obj [] none) (.obj [("b", .number), ("a", .number)] (some .any))
      = .obj [("b", .number), ("a", .number)] (some .any) := rfl
  rw [e1, e2] at h1
  cases h1 with
  | obj hp _ => exact absurd hp.head_key (by decide)

/-- (c') on concrete data: `{a: number}.Merge({a: string; b: bool})` against the same with the
receiver's `a` loosened and the argument opened. -/
example :
    Ty.merge (.obj [("a", .number)] none) (.obj [("a", .string), ("b", .bool)] none)
      = .obj [("a", .string), ("b", .bool)] none ∧
    Ty.merge (.obj [("a", .any)] none) (.obj [("a", .string), ("b", .bool)] (some .any))
      = .obj [("a", .any), ("b", .bool)] (some .any) ∧
    Ty.LooserD (Ty.merge (.obj [("a", .number)] none) (.obj [("a", .string), ("b", .bool)] none))
      (Ty.merge (.obj [("a", .any)] none) (.obj [("a", .string), ("b", .bool)] (some .any))) :=
  ⟨by ty_eval, by ty_eval,
   merge_mono' _ _ _ _ (by decide) (.obj (.cons (.any _) .nil) .none)
     (.obj (Ty.LooserDProps.refl _) .opened)⟩

/-! ### (d) -/

/-- (d) comparison validity is monotone. -/
def compare_mono_statement : Prop :=
  ∀ op (l l' r r' : Ty), Looser l l' → Looser r r' → validCompare op l r = true → validCompare op l' r' = true

theorem compare_mono : compare_mono_statement :=
  fun _ _ _ _ _ hl hr h => validCompare_mono_looser hl hr h

example : validCompare .less .number .string = true ∧ validCompare .less .any .string = true ∧
    validCompare .eq (.arr .number false) (.arr .string false) = true ∧
    validCompare .eq (.arr .any false) .any = true := by
  simp [validCompare]

/-! ### (f) -/

/-- (f) the built-in function table satisfies the hypothesis of (e) (regenerated table). -/
def builtin_same_ret_statement : Prop := SameRet AL.Gen.funcSigs

theorem sameRet_iff (fs : List (String × List Sig)) :
    SameRet fs ↔ ∀ p ∈ fs, ∀ s₁ ∈ p.2, ∀ s₂ ∈ p.2, s₁.ret = s₂.ret :=
  ⟨fun h p hp => h p.1 p.2 hp, fun h n sigs hm => h (n, sigs) hm⟩

/-- re-checked against the generated table on every build, whatever its length -/
theorem builtin_same_ret : builtin_same_ret_statement := by
  unfold builtin_same_ret_statement
  rw [sameRet_iff]
  simp [AL.Gen.funcSigs]

/-- the built-in table also has well-formed result types (hypothesis `WfEnv.funcs` of (e')) -/
theorem builtin_rets_wf : ∀ n sigs, (n, sigs) ∈ AL.Gen.funcSigs → ∀ s ∈ sigs, Ty.wf s.ret = true := by
  have h : ∀ p ∈ AL.Gen.funcSigs, ∀ s ∈ p.2, Ty.wf s.ret = true := by
    simp [AL.Gen.funcSigs, Ty.wf]
  exact fun n sigs hm => h (n, sigs) hm

/-- the built-in context types are well formed (sorted by key), so `WfEnv.vars` holds for them -/
theorem builtin_vars_wf : Ty.wfProps AL.Gen.globalVars = true ∧ Ty.sortedKeys AL.Gen.globalVars = true := by
  decide

/-! ### (e) -/

/-- (e) THE PROPERTY: for every expression and every pair of environments Γ ⊑ Γ', if the expression is
accepted under Γ it is accepted under Γ', and its type only gets looser. -/
def mono_statement : Prop :=
  ∀ (Γ Γ' : Env) (e : E), LooserEnv Γ Γ' → SameRet Γ.funcs →
    (check Γ e).errs = [] → (check Γ' e).errs = [] ∧ Looser (check Γ e).ty (check Γ' e).ty

/-- counterexample to (e): `matrix.a : array<number>`, `github.event : object` -/
def cexΓ : Env :=
  { vars := [("github", .obj [("event", .obj [] (some .any))] none),
             ("matrix", .obj [("a", .arr .number false)] none)],
    funcs := AL.Gen.funcSigs, specialFuncs := AL.Gen.specialFuncs,
    availCtx := ["github", "matrix"], availSpecial := [], configVars := none,
    lower := id, fromJson := fun _ => .otherErr }

/-- … loosened to `matrix.a : array<any>` -/
def cexΓ' : Env :=
  { cexΓ with vars := [("github", .obj [("event", .obj [] (some .any))] none),
                        ("matrix", .obj [("a", .arr .any false)] none)] }

/-- `(matrix.a && github.event.*).foo` -/
def cexE : E :=
  .objDeref (.logical .and (.objDeref (.var "matrix") "a") (.arrDeref (.objDeref (.var "github") "event"))) "foo"

theorem cex_looser : LooserEnv cexΓ cexΓ' :=
  ⟨.cons (.refl _) (.cons (.obj (.cons (.arr false (.toAny _)) .nil) .none) .nil),
   rfl, rfl, rfl, rfl, rfl, rfl, rfl⟩

/-- accepted with the precise type: the merge of `array<number>` and the dereferenced `array<any>` is
the latter, `.foo` filters it -/
theorem cex_accepted : (check cexΓ cexE).errs = [] ∧ (check cexΓ cexE).ty = .arr .any true := by
  check_eval [cexΓ, cexE]

/-- rejected with the looser type: the merge is now the receiver `array<any>`, not dereferenced -/
theorem cex_rejected :
    (check cexΓ' cexE).errs = [err "deref-not-object" ["foo", tyStr (.arr .any false)]] := by
  check_eval [cexΓ, cexΓ', cexE]

/-- (e) is false: THE CHECKER VIOLATES THE PROPERTY. With `matrix.a : array<number>` the expression
`(matrix.a && github.event.*).foo` is accepted; with the less precise `matrix.a : array<any>` it gets
"receiver of object dereference "foo" must be type of object but got "array<any>"". (Reproduced
against the Go code: `ArrayType.Merge` returns the receiver when its element type is `any`, else the
argument when the argument's element type is `any`; only the argument carries `Deref = true`.) -/
theorem mono_counterexample : ¬ mono_statement := by
  intro h
  have h1 := (h cexΓ cexΓ' cexE cex_looser builtin_same_ret cex_accepted.1).1
  rw [cex_rejected] at h1
  cases h1

/-- (e') corrected: the context types are related by the deref-aware `LooserD` (see (c')): everything
`Looser` allows except replacing the element type of a plain array by `any` — `ArrSafe.toD` — and the
environment is well formed (sorted property lists everywhere: context types, function results,
types of JSON literals). -/
def mono_statement' : Prop :=
  ∀ (Γ Γ' : Env) (e : E), LooserEnvD Γ Γ' → WfEnv Γ → SameRet Γ.funcs →
    (check Γ e).errs = [] → (check Γ' e).errs = [] ∧ Ty.LooserD (check Γ e).ty (check Γ' e).ty

theorem mono' : mono_statement' :=
  fun _ _ e h hw hs he => check_mono e h hw hs he

/-- (e') in terms of the original `LooserEnv`: the property holds whenever, in addition, no plain array
among the context types has its element type replaced by `any` (`ArrSafeProps`: a `Looser` derivation
whose `arr` steps satisfy `d = true ∨ (e' = any → e = any)`). -/
def mono_arrSafe_statement : Prop :=
  ∀ (Γ Γ' : Env) (e : E), LooserEnv Γ Γ' → Ty.ArrSafeProps Γ.vars Γ'.vars → WfEnv Γ → SameRet Γ.funcs →
    (check Γ e).errs = [] → (check Γ' e).errs = []

theorem mono_arrSafe : mono_arrSafe_statement :=
  fun _ _ e h hs hw hr he =>
    (check_mono e ⟨hs.toD, h.funcs, h.specialFuncs, h.availCtx, h.availSpecial, h.configVars, h.lower,
      h.fromJson⟩ hw hr he).1

/-- `WfEnv` is no restriction in practice: every environment the differential-testing driver builds
(built-in context types overridden by well-formed ones via `setProp`, the generated function table,
the model of `typeOfJSONValue`) is well formed. -/
theorem driver_env_wf (overrides : List (String × Ty)) (hov : ∀ e ∈ overrides, Ty.wf e.2 = true)
    (ctx sp : List String) (cv : Option (List String)) (lower : String → String) :
    WfEnv { vars := overrides.foldl (fun acc kv => Ty.setProp kv.1 kv.2 acc) AL.Gen.globalVars,
            funcs := AL.Gen.funcSigs, specialFuncs := AL.Gen.specialFuncs, availCtx := ctx,
            availSpecial := sp, configVars := cv, lower := lower, fromJson := AL.Json.fromJson lower } :=
  ⟨foldl_setProp_pairs_wfProps overrides hov _ builtin_vars_wf.1, builtin_rets_wf, fromJson_wf lower⟩

theorem ex_wf : WfEnv exΓ :=
  ⟨by decide, builtin_rets_wf, fun _ _ h => by cases h⟩

/-- (e') on concrete data: `matrix.cfg.a == 1 && contains(matrix.os, 'x')` with
`matrix : {cfg: {a: number}; os: string}` and with `matrix.cfg : any`: the hypotheses hold, and the
checker returns `bool` without diagnostics in both. -/
example : LooserEnvD exΓ exΓ' ∧ WfEnv exΓ ∧ SameRet exΓ.funcs ∧
    (check exΓ exE).errs = [] ∧ (check exΓ exE).ty = .bool ∧
    (check exΓ' exE).errs = [] ∧ (check exΓ' exE).ty = .bool :=
  ⟨ex_looserD, ex_wf, builtin_same_ret,
   by check_eval [exΓ, exE, AL.Gen.funcSigs, AL.Gen.specialFuncs, AL.Gen.specialFuncKeys],
   by check_eval [exΓ, exE, AL.Gen.funcSigs, AL.Gen.specialFuncs, AL.Gen.specialFuncKeys],
   by check_eval [exΓ, exΓ', exE, AL.Gen.funcSigs, AL.Gen.specialFuncs, AL.Gen.specialFuncKeys],
   by check_eval [exΓ, exΓ', exE, AL.Gen.funcSigs, AL.Gen.specialFuncs, AL.Gen.specialFuncKeys]⟩

example : (check exΓ' exE).errs = [] := (mono' exΓ exΓ' exE ex_looserD ex_wf builtin_same_ret
  (by check_eval [exΓ, exE, AL.Gen.funcSigs, AL.Gen.specialFuncs, AL.Gen.specialFuncKeys])).1

/-- The well-formedness hypothesis of (e') cannot be dropped either (in the model; a Go map cannot
have a duplicate key): with `y : {a: number; a: any}` the merge `{} && y` folds the two `a`s into `any`,
while for the opened `y` the short-cut keeps `y`, whose first `a` is `number`. -/
def wfΓ : Env :=
  { vars := [("x", .obj [] none), ("y", .obj [("a", .number), ("a", .any)] none)],
    funcs := [], specialFuncs := [], availCtx := ["x", "y"], availSpecial := [], configVars := none,
    lower := id, fromJson := fun _ => .otherErr }
def wfΓ' : Env :=
  { wfΓ with vars := [("x", .obj [] none), ("y", .obj [("a", .number), ("a", .any)] (some .any))] }
/-- `(x && y).a.foo` -/
def wfE : E := .objDeref (.objDeref (.logical .and (.var "x") (.var "y")) "a") "foo"

theorem mono_needs_wf :
    ¬ ∀ (Γ Γ' : Env) (e : E), LooserEnvD Γ Γ' → SameRet Γ.funcs →
      (check Γ e).errs = [] → (check Γ' e).errs = [] := by
  intro h
  have h1 := h wfΓ wfΓ' wfE
    ⟨.cons (Ty.LooserD.refl _) (.cons (.obj (Ty.LooserDProps.refl _) .opened) .nil),
     rfl, rfl, rfl, rfl, rfl, rfl, rfl⟩
    (fun _ _ hm => by cases hm)
    (by check_eval [wfΓ, wfE])
  have h2 : (check wfΓ' wfE).errs = [err "deref-not-object" ["foo", tyStr .number]] := by
    check_eval [wfΓ, wfΓ', wfE]
  rw [h2] at h1
  cases h1

/-! ### (g) -/

/-- (g) the untrusted-input events do not depend on the types at all (so loosening never changes
script-injection reports either), as long as the expression is accepted under both. -/
def events_independent_statement : Prop :=
  ∀ (Γ Γ' : Env) (e : E), LooserEnv Γ Γ' → (check Γ e).evs = (check Γ' e).evs

theorem events_independent : events_independent_statement :=
  fun _ _ e h => check_evs e h

/-- the events of `matrix.cfg.a == 1 && contains(matrix.os, 'x')` -/
example : (check exΓ exE).evs = (check exΓ' exE).evs ∧
    (check exΓ exE).evs =
      [.leave (.var "matrix"), .leave (.objDeref "cfg"), .leave (.objDeref "a"), .leave .other, .leave .other,
       .enterSafeCall, .leave (.var "matrix"), .leave (.objDeref "os"), .leave .other, .leave .safeCall,
       .leave .other] :=
  ⟨events_independent exΓ exΓ' exE ex_looser,
   by check_eval [exΓ, exE, AL.Gen.funcSigs, enterOf, leaveOf, isSafeCall]⟩

end AL.C06
