import AL.Model.Hex
/-
  Model of the subset of Go's `text/scanner` used by glob.go and expr_lexer.go:
  `Init`, `Peek`, `Next`, `Pos` and the `Error` callback (raised on NUL and on invalid UTF-8 while the
  look-ahead character is read). Positions: `line`, `column` count runes *read* (look-ahead included),
  `offset` counts bytes.

  The look-ahead is loaded eagerly by `init` (Go loads it lazily at the first `Peek`/`Next`; both
  users call `Peek`/`Next` before anything else that could observe the difference, except `Pos()`
  on a never-read scanner, which yields 1:1 in both).
-/
namespace AL

inductive ScanErrKind where | nul | utf8
deriving Repr, DecidableEq, Inhabited

structure Pos where
  line : Nat
  col  : Nat
  off  : Nat
deriving Repr, DecidableEq, Inhabited

structure ScanErr where
  kind : ScanErrKind
  pos  : Pos
deriving Repr, DecidableEq, Inhabited

structure Scanner where
  rest        : List Sym          -- not yet read
  ch          : Option Sym := none  -- look-ahead; `none` = EOF
  srcPos      : Nat := 0          -- bytes read (look-ahead included)
  line        : Nat := 1
  column      : Nat := 0
  lastLineLen : Nat := 0
  lastCharLen : Nat := 0
deriving Repr, Inhabited

def Scanner.pos (s : Scanner) : Pos :=
  let off := s.srcPos - s.lastCharLen
  if s.column > 0 then ⟨s.line, s.column, off⟩
  else if s.lastLineLen > 0 then ⟨s.line - 1, s.lastLineLen, off⟩
  else ⟨1, 1, off⟩

/-- Bookkeeping of `Scanner.next()` (the unexported reader) after character `c` was read. -/
def Scanner.advance (s : Scanner) (c : Sym) (rest : List Sym) : Scanner × List ScanErr :=
  let s1 := { s with rest := rest, ch := some c, srcPos := s.srcPos + c.w, lastCharLen := c.w, column := s.column + 1 }
  if c.bad then (s1, [⟨.utf8, s1.pos⟩])
  else if c.r = 0 then (s1, [⟨.nul, s1.pos⟩])
  else if c.r = 10 then ({ s1 with line := s1.line + 1, lastLineLen := s1.column, column := 0 }, [])
  else (s1, [])

/-- `Scanner.next()`: read one character into the look-ahead; errors are those passed to the `Error`
callback, positioned by `Pos()` at the moment of the call. -/
def Scanner.read (s : Scanner) : Scanner × List ScanErr :=
  match s.rest with
  | [] => ({ s with ch := none, column := if s.lastCharLen > 0 then s.column + 1 else s.column, lastCharLen := 0 }, [])
  | c :: rest => s.advance c rest

@[simp] theorem Scanner.advance_rest (s : Scanner) (c : Sym) (rest : List Sym) : (s.advance c rest).1.rest = rest := by
  unfold Scanner.advance; (repeat' split) <;> rfl

@[simp] theorem Scanner.advance_ch (s : Scanner) (c : Sym) (rest : List Sym) : (s.advance c rest).1.ch = some c := by
  unfold Scanner.advance; (repeat' split) <;> rfl

theorem Scanner.read_rest (s : Scanner) : (s.read).1.rest = s.rest.tail := by
  unfold Scanner.read; cases s.rest <;> simp

theorem Scanner.read_ch (s : Scanner) : (s.read).1.ch = s.rest.head? := by
  unfold Scanner.read; cases s.rest <;> simp

/-- `Init` followed by loading the look-ahead, skipping a BOM at the very beginning. -/
def Scanner.init (src : List Sym) : Scanner × List ScanErr :=
  let s0 : Scanner := { rest := src }
  let (s1, e1) := s0.read
  match s1.ch with
  | some c => if c.r = 0xFEFF && !c.bad then let (s2, e2) := s1.read; (s2, e1 ++ e2) else (s1, e1)
  | none => (s1, e1)

/-- `Peek()`. -/
def Scanner.peek (s : Scanner) : Option Nat := s.ch.map (·.r)

/-- `Next()`: returns the look-ahead and reads one more character unless at EOF. -/
def Scanner.next (s : Scanner) : Option Sym × Scanner × List ScanErr :=
  match s.ch with
  | some c => let (s2, e2) := s.read; (some c, s2, e2)
  | none => (none, s, [])

/-- Number of characters the scanner can still deliver through `Next`. -/
def Scanner.remaining (s : Scanner) : Nat :=
  match s.ch with
  | some _ => s.rest.length + 1
  | none => 0

theorem Scanner.next_remaining_le (s : Scanner) : (s.next).2.1.remaining ≤ s.remaining := by
  unfold Scanner.next Scanner.remaining
  cases hc : s.ch with
  | none => simp [hc]
  | some c =>
    simp only [Scanner.read_ch, Scanner.read_rest]
    cases s.rest <;> simp

theorem Scanner.next_remaining_lt (s : Scanner) (h : s.ch ≠ none) : (s.next).2.1.remaining < s.remaining := by
  unfold Scanner.next Scanner.remaining
  cases hc : s.ch with
  | none => exact absurd hc h
  | some c =>
    simp only [Scanner.read_ch, Scanner.read_rest]
    cases s.rest <;> simp

end AL
