/-
  `-format '{{json .}}'` (error.go: the template function `json` = encoding/json's Encoder with its default HTML escaping,
  applied to `[]*ErrorTemplateFields`): the ENCODER, as Go's `appendString(…, escapeHTML = true)` / `appendInt` write it,
  over strings of Unicode scalar values (Go strings that are valid UTF-8), and an independent flat READER for what it writes
  (RFC 8259 strings, non-negative integers, one level of objects inside one array). AL.C16J proves the reader inverts the
  encoder for every list of records; the `jsonenc` operation ties the encoder to the Go code.
-/
namespace AL.JsonEnc

def hexDigit (n : Nat) : Char := if n < 10 then Char.ofNat (48 + n) else Char.ofNat (87 + n)

/-- one scalar value as `appendString` writes it -/
def encChar (c : Char) : List Char :=
  if c = '"' then ['\\', '"']
  else if c = '\\' then ['\\', '\\']
  else if c.toNat = 8 then ['\\', 'b']
  else if c.toNat = 12 then ['\\', 'f']
  else if c = '\n' then ['\\', 'n']
  else if c = '\r' then ['\\', 'r']
  else if c = '\t' then ['\\', 't']
  else if c.toNat < 0x20 ∨ c = '<' ∨ c = '>' ∨ c = '&' then
    ['\\', 'u', '0', '0', hexDigit (c.toNat / 16), hexDigit (c.toNat % 16)]
  else if c.toNat = 0x2028 then ['\\', 'u', '2', '0', '2', '8']
  else if c.toNat = 0x2029 then ['\\', 'u', '2', '0', '2', '9']
  else [c]

def encBody : List Char → List Char
  | [] => []
  | c :: cs => encChar c ++ encBody cs

def encStr (s : List Char) : List Char := '"' :: encBody s ++ ['"']

/-- `strconv.AppendInt` for a non-negative number -/
def encNat (n : Nat) : List Char :=
  if h : n < 10 then [Char.ofNat (48 + n)] else encNat (n / 10) ++ [Char.ofNat (48 + n % 10)]
termination_by n
decreasing_by omega

/-- `ErrorTemplateFields` -/
structure Fields where
  message : List Char
  filepath : List Char
  line : Nat
  column : Nat
  kind : List Char
  snippet : List Char
  endColumn : Nat
deriving Repr, DecidableEq

/-- a member's name (the struct tags are plain ASCII words, written like any other string) -/
def key (k : String) : List Char := encStr k.toList ++ [':']

/-- one record: fields in declaration order, `filepath` and `snippet` omitted when empty (`omitempty`) -/
def encFields (f : Fields) : List Char :=
  '{' :: key "message" ++ encStr f.message ++
  (if f.filepath = [] then [] else ',' :: key "filepath" ++ encStr f.filepath) ++
  ',' :: key "line" ++ encNat f.line ++
  ',' :: key "column" ++ encNat f.column ++
  ',' :: key "kind" ++ encStr f.kind ++
  (if f.snippet = [] then [] else ',' :: key "snippet" ++ encStr f.snippet) ++
  ',' :: key "end_column" ++ encNat f.endColumn ++ ['}']

def encElems : List Fields → List Char
  | [] => []
  | [f] => encFields f
  | f :: rest => encFields f ++ ',' :: encElems rest

/-- `{{json .}}` for the list of diagnostics of a run: an array and the Encoder's line feed -/
def encAll (fs : List Fields) : List Char := '[' :: encElems fs ++ [']', '\n']

/-! ### an independent reader -/

def isDigit (c : Char) : Bool := '0' ≤ c && c ≤ '9'
def isHex (c : Char) : Bool := isDigit c || ('a' ≤ c && c ≤ 'f') || ('A' ≤ c && c ≤ 'F')
def hexVal (x : Char) : Nat := if isDigit x then x.toNat - 48 else if 'a' ≤ x then x.toNat - 87 else x.toNat - 55

/-- RFC 8259 string body after the opening quote: the decoded text and what follows the closing quote
(`\uXXXX` is read as that code unit; the encoder never writes surrogates) -/
def readStr : List Char → List Char → Option (List Char × List Char)
  | [], _ => none
  | '"' :: rest, acc => some (acc, rest)
  | '\\' :: c :: rest, acc =>
    if c = 'u' then
      match rest with
      | a :: b :: c' :: d :: rest' =>
        if isHex a && isHex b && isHex c' && isHex d then
          readStr rest' (acc ++ [Char.ofNat (hexVal a * 4096 + hexVal b * 256 + hexVal c' * 16 + hexVal d)])
        else none
      | _ => none
    else if c = '"' || c = '\\' || c = '/' then readStr rest (acc ++ [c])
    else if c = 'b' then readStr rest (acc ++ [Char.ofNat 8])
    else if c = 'f' then readStr rest (acc ++ [Char.ofNat 12])
    else if c = 'n' then readStr rest (acc ++ ['\n'])
    else if c = 'r' then readStr rest (acc ++ ['\r'])
    else if c = 't' then readStr rest (acc ++ ['\t'])
    else none
  | ['\\'], _ => none
  | c :: rest, acc => if c.toNat < 0x20 then none else readStr rest (acc ++ [c])

theorem readStr_lt (cs acc s rest : List Char) (h : readStr cs acc = some (s, rest)) : rest.length < cs.length := by
  fun_induction readStr cs acc <;> simp_all <;> omega

/-- a run of decimal digits (at least one) -/
def readDigits : List Char → Nat → List Char × Nat
  | c :: cs, n => if isDigit c then readDigits cs (n * 10 + (c.toNat - 48)) else (c :: cs, n)
  | [], n => ([], n)

def readNat (cs : List Char) : Option (Nat × List Char) :=
  match cs with
  | c :: _ => if isDigit c then let r := readDigits cs 0; some (r.2, r.1) else none
  | [] => none

inductive Val where
  | str (s : List Char)
  | num (n : Nat)
deriving Repr, DecidableEq

def readVal (cs : List Char) : Option (Val × List Char) :=
  match cs with
  | '"' :: rest => (readStr rest []).map fun r => (.str r.1, r.2)
  | _ => (readNat cs).map fun r => (.num r.1, r.2)

/-- the members of an object after `{`: `"key":value` separated by commas, up to `}` -/
def readMembers : Nat → List Char → List (List Char × Val) → Option (List (List Char × Val) × List Char)
  | 0, _, _ => none
  | fuel + 1, cs, acc =>
    match cs with
    | '"' :: rest =>
      match readStr rest [] with
      | some (k, ':' :: rest') =>
        match readVal rest' with
        | some (v, ',' :: rest'') => readMembers fuel rest'' (acc ++ [(k, v)])
        | some (v, '}' :: rest'') => some (acc ++ [(k, v)], rest'')
        | _ => none
      | _ => none
    | _ => none

def lookup (k : String) (ms : List (List Char × Val)) : Option Val := (ms.find? (·.1 = k.toList)).map (·.2)

def strOf : Option Val → Option (List Char) | some (.str s) => some s | _ => none
def numOf : Option Val → Option Nat | some (.num n) => some n | _ => none

/-- a record from its members: `json.Unmarshal` into `ErrorTemplateFields` (absent optional strings are empty) -/
def fieldsOf (ms : List (List Char × Val)) : Option Fields :=
  match strOf (lookup "message" ms), numOf (lookup "line" ms), numOf (lookup "column" ms), strOf (lookup "kind" ms),
        numOf (lookup "end_column" ms) with
  | some m, some l, some c, some k, some e =>
    some { message := m, line := l, column := c, kind := k, endColumn := e,
           filepath := (strOf (lookup "filepath" ms)).getD [], snippet := (strOf (lookup "snippet" ms)).getD [] }
  | _, _, _, _, _ => none

def readObj (cs : List Char) : Option (Fields × List Char) :=
  match cs with
  | '{' :: rest =>
    match readMembers (rest.length + 1) rest [] with
    | some (ms, rest') => (fieldsOf ms).map fun f => (f, rest')
    | none => none
  | _ => none

/-- the elements of the array after `[` -/
def readElems : Nat → List Char → List Fields → Option (List Fields)
  | 0, _, _ => none
  | fuel + 1, cs, acc =>
    match readObj cs with
    | some (f, ',' :: rest) => readElems fuel rest (acc ++ [f])
    | some (f, [']', '\n']) => some (acc ++ [f])
    | _ => none

def readAll (cs : List Char) : Option (List Fields) :=
  match cs with
  | ['[', ']', '\n'] => some []
  | '[' :: rest => readElems (rest.length + 1) rest []
  | _ => none

end AL.JsonEnc
