import AL.Model.Render
/-
  Model of the WHOLE text that the default / -oneline modes (no colours: `-no-color`, or output that is not a terminal) write
  for a list of diagnostics (C16).

  error.go
  ```go
  func (e *Error) PrettyPrint(w io.Writer, source []byte) {
      yellow.Fprint(w, e.Filepath); gray.Fprint(w, ":"); fmt.Fprint(w, e.Line); gray.Fprint(w, ":"); fmt.Fprint(w, e.Column)
      gray.Fprint(w, ": "); bold.Fprint(w, e.Message); gray.Fprintf(w, " [%s]\n", e.Kind)
      if len(source) == 0 || e.Line <= 0 { return }
      line, ok := e.getLine(source)
      if !ok || len(line) < e.Column-1 { return }
      lnum := fmt.Sprintf("%d | ", e.Line)
      indent := strings.Repeat(" ", len(lnum)-2)
      gray.Fprintf(w, "%s|\n", indent)
      gray.Fprint(w, lnum); fmt.Fprintln(w, line)
      gray.Fprintf(w, "%s| ", indent); green.Fprintln(w, e.getIndicator(line))
  }
  ```
  linter.go
  ```go
  func (l *Linter) printErrors(errs []*Error, src []byte) {
      if l.oneline { src = nil }
      for _, err := range errs { err.PrettyPrint(l.out, src) }
  }
  ```
  called by `Lint` / `LintFile` with the errors and the content of the one file, and by `LintFiles` once per file in the order
  of the command line (`for i := range ws { l.printErrors(w.errs, w.src) }`), each file's errors with that file's source.

  So a diagnostic WITH a snippet is FOUR lines (header, an empty gutter line `   |`, `N | source line`, `   | indicator`), one
  WITHOUT is one line.

  Conventions of `AL.Render`: the strings of a diagnostic are `List Char`, the source is a list of bytes, go-runewidth is a pair of
  parameters (`strWidth` on the bytes before the column, `runeWidth`). The output is text (`List Char`); the bytes of the source
  line appear in it decoded as UTF-8 the way `Driver.bytesToString` (and a terminal) reads them — an invalid byte shows as U+FFFD.
-/
namespace AL.Print
open AL.Render

/-- the bytes of a source line as text -/
def text (bs : List Nat) : List Char := (AL.decodeUtf8 bs).map fun s => Char.ofNat s.r

/-- `lnum := fmt.Sprintf("%d | ", e.Line)` -/
def lnum (line : Nat) : List Char := natChars line ++ [' ', '|', ' ']

/-- `indent := strings.Repeat(" ", len(lnum)-2)` -/
def indent (line : Nat) : List Char := List.replicate ((lnum line).length - 2) ' '

/-- the three lines under the header (without their line feeds) -/
def gutterRow (line : Nat) : List Char := indent line ++ ['|']
def snippetRow (line : Nat) (l : List Nat) : List Char := lnum line ++ text l
def indicatorRow (strWidth : List Nat → Nat) (runeWidth : Nat → Nat) (line : Nat) (l : List Nat) (col : Nat) : List Char :=
  indent line ++ ['|', ' '] ++ indicator strWidth runeWidth l col

/-- `(*Error).PrettyPrint(w, source)` with colours off: everything it writes -/
def ppError (strWidth : List Nat → Nat) (runeWidth : Nat → Nat) (source : List Nat) (d : Diag) : List Char :=
  header d ++ ['\n'] ++
    match snippetLine source d.line d.col with
    | none => []
    | some l =>
      gutterRow d.line ++ ['\n'] ++
      snippetRow d.line l ++ ['\n'] ++
      indicatorRow strWidth runeWidth d.line l d.col ++ ['\n']

/-- one iteration of `printErrors`: with `-oneline` the source is dropped (`src = nil`) before `PrettyPrint` is called -/
def prettyPrint (oneline : Bool) (strWidth : List Nat → Nat) (runeWidth : Nat → Nat) (src : List Nat) (d : Diag) : List Char :=
  ppError strWidth runeWidth (if oneline then [] else src) d

/-- `(*Linter).printErrors(errs, src)` -/
def printErrors (oneline : Bool) (strWidth : List Nat → Nat) (runeWidth : Nat → Nat) (src : List Nat) (ds : List Diag) : List Char :=
  ds.flatMap (prettyPrint oneline strWidth runeWidth src)

/-- the output of a whole run over a list of diagnostics, each printed with the source of ITS file (`srcOf`: file name ↦ content) -/
def printAll (oneline : Bool) (strWidth : List Nat → Nat) (runeWidth : Nat → Nat) (srcOf : List Char → List Nat)
    (ds : List Diag) : List Char :=
  ds.flatMap fun d => prettyPrint oneline strWidth runeWidth (srcOf d.file) d

/-- `LintFiles`: one `printErrors` per workspace (file content, its errors), in the order of the files -/
def printWorkspaces (oneline : Bool) (strWidth : List Nat → Nat) (runeWidth : Nat → Nat) (ws : List (List Nat × List Diag)) : List Char :=
  ws.flatMap fun w => printErrors oneline strWidth runeWidth w.1 w.2

/-! ### reading the output back -/

/-- the lines of a text: every `\n` ends a line; a last line without `\n` counts when it is not empty
(`bufio.Scanner` / `strings.Split` minus the empty tail; `\r` is left alone) -/
def linesAux : List Char → List Char → List (List Char)
  | cur, [] => if cur.isEmpty then [] else [cur]
  | cur, c :: cs => if c = '\n' then cur :: linesAux [] cs else linesAux (cur ++ [c]) cs

def lines (s : List Char) : List (List Char) := linesAux [] s

/-- the empty gutter line `   |` that opens every snippet: blanks, then one bar -/
def isGutter (l : List Char) : Bool := l == List.replicate (l.length - 1) ' ' ++ ['|']

/-- a reader of the default-mode output that knows nothing but the text: the first line is a header; when the line after it
is a gutter line the header owns that line and the two after it (snippet and indicator), otherwise nothing; and so on. -/
def headersOf : List (List Char) → List (List Char)
  | [] => []
  | [h] => [h]
  | h :: g :: rest => if isGutter g then h :: headersOf (rest.drop 2) else h :: headersOf (g :: rest)
termination_by l => l.length
decreasing_by
  · simp only [List.length_drop, List.length_cons]; omega
  · simp only [List.length_cons]; omega

/-- the same reader, returning the whole blocks -/
def blocksOf : List (List Char) → List (List (List Char))
  | [] => []
  | [h] => [[h]]
  | h :: g :: rest =>
    if isGutter g then (h :: g :: rest.take 2) :: blocksOf (rest.drop 2) else [h] :: blocksOf (g :: rest)
termination_by l => l.length
decreasing_by
  · simp only [List.length_drop, List.length_cons]; omega
  · simp only [List.length_cons]; omega

end AL.Print
