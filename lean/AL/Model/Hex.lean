/-
  Glue: hex <-> bytes, UTF-8 decoding with Go's `utf8.DecodeRune` semantics
  (an invalid or truncated sequence yields U+FFFD of width 1).
  Used by the driver only; theorems are stated over `List Sym`.
-/
namespace AL

/-- One decoded source character as `text/scanner.next` sees it. -/
structure Sym where
  r   : Nat          -- code point (0xFFFD when `bad`)
  w   : Nat          -- width in bytes
  bad : Bool := false  -- invalid UTF-8 (RuneError with width 1)
deriving Repr, DecidableEq, Inhabited

def hexVal (c : Char) : Option Nat :=
  if '0' ≤ c ∧ c ≤ '9' then some (c.toNat - '0'.toNat)
  else if 'a' ≤ c ∧ c ≤ 'f' then some (c.toNat - 'a'.toNat + 10)
  else if 'A' ≤ c ∧ c ≤ 'F' then some (c.toNat - 'A'.toNat + 10)
  else none

def unhexChars : List Char → Option (List Nat)
  | [] => some []
  | [_] => none
  | a :: b :: rest => do
    let x ← hexVal a
    let y ← hexVal b
    let t ← unhexChars rest
    pure ((x * 16 + y) :: t)

/-- `"-"` encodes the empty string so that every argument is a non-empty word. -/
def unhex (s : String) : Option (List Nat) :=
  if s = "-" then some [] else unhexChars s.toList

def hexDigit (n : Nat) : Char :=
  if n < 10 then Char.ofNat ('0'.toNat + n) else Char.ofNat ('a'.toNat + n - 10)

def hexBytes (bs : List Nat) : String :=
  if bs.isEmpty then "-" else String.ofList (bs.flatMap fun b => [hexDigit (b / 16), hexDigit (b % 16)])

def isCont (b : Nat) : Bool := 0x80 ≤ b && b ≤ 0xBF

/-- Go's `utf8.DecodeRune` on the head of `bs`. -/
def decodeOne : List Nat → Option (Sym × List Nat)
  | [] => none
  | b0 :: rest =>
    let badSym : Sym := { r := 0xFFFD, w := 1, bad := true }
    if b0 < 0x80 then some ({ r := b0, w := 1 }, rest)
    else if b0 < 0xC2 then some (badSym, rest)
    else if b0 < 0xE0 then
      match rest with
      | b1 :: r1 => if isCont b1 then some ({ r := (b0 - 0xC0) * 64 + (b1 - 0x80), w := 2 }, r1) else some (badSym, rest)
      | _ => some (badSym, rest)
    else if b0 < 0xF0 then
      match rest with
      | b1 :: b2 :: r2 =>
        let lo := if b0 = 0xE0 then 0xA0 else 0x80
        let hi := if b0 = 0xED then 0x9F else 0xBF
        if lo ≤ b1 && b1 ≤ hi && isCont b2 then
          some ({ r := (b0 - 0xE0) * 4096 + (b1 - 0x80) * 64 + (b2 - 0x80), w := 3 }, r2)
        else some (badSym, rest)
      | _ => some (badSym, rest)
    else if b0 < 0xF5 then
      match rest with
      | b1 :: b2 :: b3 :: r3 =>
        let lo := if b0 = 0xF0 then 0x90 else 0x80
        let hi := if b0 = 0xF4 then 0x8F else 0xBF
        if lo ≤ b1 && b1 ≤ hi && isCont b2 && isCont b3 then
          some ({ r := (b0 - 0xF0) * 262144 + (b1 - 0x80) * 4096 + (b2 - 0x80) * 64 + (b3 - 0x80), w := 4 }, r3)
        else some (badSym, rest)
      | _ => some (badSym, rest)
    else some (badSym, rest)

theorem decodeOne_shorter {bs : List Nat} {s : Sym} {rest : List Nat}
    (h : decodeOne bs = some (s, rest)) : rest.length < bs.length := by
  unfold decodeOne at h
  split at h
  · simp at h
  · rename_i b0 r0
    simp only at h
    repeat' split at h
    all_goals (simp only [Option.some.injEq, Prod.mk.injEq] at h; obtain ⟨_, rfl⟩ := h; simp_all <;> omega)

def decodeUtf8 (bs : List Nat) : List Sym :=
  match h : decodeOne bs with
  | none => []
  | some (s, rest) => s :: decodeUtf8 rest
termination_by bs.length
decreasing_by exact decodeOne_shorter h

/-- UTF-8 encoding of a code point (for echoing characters back in outputs). -/
def encodeRune (r : Nat) : List Nat :=
  if r < 0x80 then [r]
  else if r < 0x800 then [0xC0 + r / 64, 0x80 + r % 64]
  else if r < 0x10000 then [0xE0 + r / 4096, 0x80 + (r / 64) % 64, 0x80 + r % 64]
  else [0xF0 + r / 262144, 0x80 + (r / 4096) % 64, 0x80 + (r / 64) % 64, 0x80 + r % 64]

end AL
