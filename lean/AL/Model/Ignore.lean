import AL.Model.Lint
import AL.Model.ConfigDecode
/-
  The concrete ignore decision of `Linter.check` (linter.go) on top of `AL.Lint`:

    all = l.filterErrors(all, cfg.PathConfigs(l.pathFromProjectRoot(path, project)))

  * `cfg` is the `-config-file` configuration if there is one, otherwise the configuration of the project the file belongs
    to, otherwise nil (`activeConfig`);
  * `Config.PathConfigs(path)` (config.go): EVERY entry of `paths:` whose glob matches contributes its `ignore:` list (a nil
    configuration contributes nothing). The Go code ranges over a map, so the order of the result is unspecified; the model
    uses the order of the list (`AL.C15D.ignoredBy_perm`: the order cannot be observed);
  * `Linter.filterErrors`: nothing to do when there is neither a `-ignore` pattern nor a matching entry; otherwise a
    diagnostic is skipped when a `-ignore` pattern matches its message, or some pattern of some matching entry does;
  * `Linter.pathFromProjectRoot(path, project)`: for a file outside every project (`project == nil`) the path is returned as
    it is — the display path, relative to the working directory (`matchedPath`).

  The regular-expression engine (`(*regexp.Regexp).MatchString`, unanchored) and `doublestar.MatchUnvalidated` are the
  parameters `reMatch pattern message` and `globMatch glob path`. Paths are '/'-separated (`filepath.ToSlash` is the identity).
-/
namespace AL.Ignore
open AL.Lint AL.ConfigDecode

/-- `Config.PathConfigs(path)` for a non-nil configuration: the `ignore:` lists of all entries whose glob matches -/
def pathConfigs (globMatch : String → String → Bool) (cfg : Config) (relPath : String) : List (List String) :=
  (cfg.paths.filter fun e => globMatch e.1 relPath).map (·.2)

/-- `(*Config).PathConfigs(path)`: the receiver may be nil -/
def pathConfigsOpt (globMatch : String → String → Bool) (cfg : Option Config) (relPath : String) : List (List String) :=
  match cfg with
  | none => []
  | some c => pathConfigs globMatch c relPath

/-- `IgnorePatterns.Match` -/
def patsMatch (reMatch : String → String → Bool) (pats : List String) (msg : String) : Bool :=
  pats.any fun p => reMatch p msg

/-- the decision in the loop of `filterErrors`: the `-ignore` patterns first, then the matching entries in turn -/
def ignoredBy (reMatch : String → String → Bool) (cli : List String) (pcs : List (List String)) (d : D) : Bool :=
  patsMatch reMatch cli d.msg || pcs.any fun ps => patsMatch reMatch ps d.msg

/-- `Linter.filterErrors(errs, cfgs)` with its early return -/
def filterErrs (reMatch : String → String → Bool) (cli : List String) (pcs : List (List String)) (errs : List D) : List D :=
  if cli.isEmpty && pcs.isEmpty then errs
  else errs.filter fun d => !ignoredBy reMatch cli pcs d

/-- the tail of `Linter.check` for a configuration `cfg` and the path `relPath` the globs are matched against: filter, set the
file to the display path `path`, stable sort -/
def lintTail (reMatch globMatch : String → String → Bool) (cli : List String) (cfg : Config) (relPath : String)
    (path : String) (raw : List D) : List D :=
  checkTail (ignoredBy reMatch cli (pathConfigs globMatch cfg relPath)) path raw

/-- the same with a possibly nil configuration, and `filterErrors` as written (early return) -/
def lintTailOpt (reMatch globMatch : String → String → Bool) (cli : List String) (cfg : Option Config) (relPath : String)
    (path : String) (raw : List D) : List D :=
  stableSort ((filterErrs reMatch cli (pathConfigsOpt globMatch cfg relPath) raw).map fun d => { d with file := path })

/-- a project: its root directory and the configuration loaded from `.github/actionlint.y(a)ml`, if there is one -/
structure Project where
  root : FPath
  config : Option Config := none

/-- the choice of `cfg` at the start of `check`: `-config-file` has priority over the project's file -/
def activeConfig (dflt : Option Config) (proj : Option Project) : Option Config :=
  match dflt with
  | some c => some c
  | none =>
    match proj with
    | some pr => pr.config
    | none => none

/-- `l.pathFromProjectRoot(path, project)` with `path` the display path: untouched when there is no project -/
def matchedPath (cwd : FPath) (proj : Option Project) (disp : FPath) : FPath :=
  match proj with
  | none => disp
  | some pr => pathFromProjectRoot cwd pr.root disp

/-- `check` from `LintFile` / `LintFiles` for the file spelled `p` when the working directory is `cwd`: the display path is
computed, the configuration chosen, the diagnostics `raw` of the parser and the rules filtered, labelled and sorted -/
def lintTailAt (reMatch globMatch : String → String → Bool) (cli : List String) (dflt : Option Config) (cwd : FPath)
    (proj : Option Project) (p : FPath) (raw : List D) : List D :=
  lintTailOpt reMatch globMatch cli (activeConfig dflt proj) (matchedPath cwd proj (displayPath cwd p)).toString
    (displayPath cwd p).toString raw

/-- `Command.Main` after the run: what `runLinter` returned decides the exit status -/
def statusOf (out : List D) : Nat := exitStatus (.done out.length)

/-- `NewLinter`: every `-ignore` pattern is compiled; the first failure is an error ("invalid regular expression for
ignore pattern …"), which `Command.Main` turns into the fatal exit status -/
def compileCli (regexOk : String → Bool) (cli : List String) : Option (List String) :=
  if cli.all regexOk then some cli else none

/-- `Command.Main` around a run `run` that is given the compiled `-ignore` patterns -/
def mainStatus (regexOk : String → Bool) (cli : List String) (run : List String → List D) : Nat :=
  match compileCli regexOk cli with
  | none => exitStatus .fatal
  | some c => statusOf (run c)

end AL.Ignore
