/-
  parse.go `parseStep`: how the keys of one step mapping are turned into the Step node. The input is the list of
  key/value pairs `parseMapping` hands out (lower-cased ids, duplicates already removed, in source order); values are
  abstract (`V`, what `parseString` / `parseEnv` / … return for that node), positions are not modelled.

    case "uses", "with":  ExecAction unless the step already is an ExecRun (then: diagnostic, key ignored)
    case "run", "shell":  ExecRun unless the step already is an ExecAction; `exec.WorkingDirectory = workDir`
    case "working-directory": workDir = v; stored into an already existing ExecRun
    final checks: uses / run required, working-directory not available with uses
-/
namespace AL.ParseStep

/-- an abstract parsed value (identified by a number the harness assigns to the scalar) -/
abbrev V := Nat

inductive Exec where
  | none
  | action (uses : Option V) (withV : Option V)
  | run (run shell workDir : Option V)
deriving Repr, DecidableEq

structure Step where
  id : Option V := none
  cond : Option V := none
  name : Option V := none
  env : Option V := none
  continueOnError : Option V := none
  timeoutMinutes : Option V := none
  exec : Exec := .none
deriving Repr, DecidableEq

inductive Diag where
  | runKeyInActionStep (key : String)      -- "this step is for running action … but also contains %q key …"
  | actionKeyInRunStep (key : String)      -- "this step is for running shell command … but also contains %q key …"
  | unexpectedKey (key : String)
  | usesRequired
  | runRequired
  | noExec
  | workDirWithUses
deriving Repr, DecidableEq

structure St where
  step : Step := {}
  workDir : Option V := none
  diags : List Diag := []
deriving Repr, DecidableEq

/-- one iteration of the `for _, kv := range …` loop -/
def stepKey (st : St) (kv : String × V) : St :=
  let (k, v) := kv
  match k with
  | "id" => { st with step := { st.step with id := some v } }
  | "if" => { st with step := { st.step with cond := some v } }
  | "name" => { st with step := { st.step with name := some v } }
  | "env" => { st with step := { st.step with env := some v } }
  | "continue-on-error" => { st with step := { st.step with continueOnError := some v } }
  | "timeout-minutes" => { st with step := { st.step with timeoutMinutes := some v } }
  | "uses" =>
    match st.step.exec with
    | .none => { st with step := { st.step with exec := .action (some v) none } }
    | .action _ w => { st with step := { st.step with exec := .action (some v) w } }
    | .run .. => { st with diags := st.diags ++ [.actionKeyInRunStep k] }
  | "with" =>
    match st.step.exec with
    | .none => { st with step := { st.step with exec := .action none (some v) } }
    | .action u _ => { st with step := { st.step with exec := .action u (some v) } }
    | .run .. => { st with diags := st.diags ++ [.actionKeyInRunStep k] }
  | "run" =>
    match st.step.exec with
    | .none => { st with step := { st.step with exec := .run (some v) none st.workDir } }
    | .run _ s _ => { st with step := { st.step with exec := .run (some v) s st.workDir } }
    | .action .. => { st with diags := st.diags ++ [.runKeyInActionStep k] }
  | "shell" =>
    match st.step.exec with
    | .none => { st with step := { st.step with exec := .run none (some v) st.workDir } }
    | .run r _ _ => { st with step := { st.step with exec := .run r (some v) st.workDir } }
    | .action .. => { st with diags := st.diags ++ [.runKeyInActionStep k] }
  | "working-directory" =>
    match st.step.exec with
    | .run r s _ => { st with workDir := some v, step := { st.step with exec := .run r s (some v) } }
    | _ => { st with workDir := some v }
  | _ => { st with diags := st.diags ++ [.unexpectedKey k] }

/-- the checks after the loop -/
def finish (st : St) : Step × List Diag :=
  match st.step.exec with
  | .action u _ =>
    (st.step, st.diags ++ (if u.isNone then [.usesRequired] else []) ++ (if st.workDir.isSome then [.workDirWithUses] else []))
  | .run r _ _ => (st.step, st.diags ++ (if r.isNone then [.runRequired] else []))
  | .none => (st.step, st.diags ++ [.noExec])

def parseStep (kvs : List (String × V)) : Step × List Diag :=
  finish (kvs.foldl stepKey {})

end AL.ParseStep
