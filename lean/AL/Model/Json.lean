import AL.Model.Sema
/-
  Mini JSON reader (RFC 8259 as accepted by Go's encoding/json) and `typeOfJSONValue`.
  Used for the `fromJSON('…')` special case. Only the accept/reject verdict and the shape of the value
  are modelled (not the error offset, not number values).
-/
namespace AL.Json
open AL AL.Sema

inductive JVal where
  | null | bool | num | str
  | arr (es : List JVal)
  | obj (ms : List (String × JVal))
deriving Repr, Inhabited

def isWs (c : Char) : Bool := c = ' ' || c = '\n' || c = '\r' || c = '\t'
def isDigit (c : Char) : Bool := '0' ≤ c && c ≤ '9'
def isHex (c : Char) : Bool := isDigit c || ('a' ≤ c && c ≤ 'f') || ('A' ≤ c && c ≤ 'F')

def skipWs : List Char → List Char
  | c :: cs => if isWs c then skipWs cs else c :: cs
  | [] => []

theorem skipWs_le (cs : List Char) : (skipWs cs).length ≤ cs.length := by
  induction cs with
  | nil => simp [skipWs]
  | cons c cs ih => simp only [skipWs]; split <;> simp <;> omega

/-- string body after the opening quote: returns the decoded text (escapes resolved only as far as
key comparison needs: `\uXXXX` of ASCII and simple escapes) and the rest after the closing quote -/
def parseStr : List Char → List Char → Option (String × List Char)
  | [], _ => none
  | '"' :: rest, acc => some (String.ofList acc, rest)
  | '\\' :: c :: rest, acc =>
    if c = 'u' then
      match rest with
      | a :: b :: c' :: d :: rest' =>
        if isHex a && isHex b && isHex c' && isHex d then
          let v (x : Char) : Nat := if isDigit x then x.toNat - 48 else if 'a' ≤ x then x.toNat - 87 else x.toNat - 55
          parseStr rest' (acc ++ [Char.ofNat (v a * 4096 + v b * 256 + v c' * 16 + v d)])
        else none
      | _ => none
    else if c = '"' || c = '\\' || c = '/' then parseStr rest (acc ++ [c])
    else if c = 'b' then parseStr rest (acc ++ [Char.ofNat 8])
    else if c = 'f' then parseStr rest (acc ++ [Char.ofNat 12])
    else if c = 'n' then parseStr rest (acc ++ ['\n'])
    else if c = 'r' then parseStr rest (acc ++ ['\r'])
    else if c = 't' then parseStr rest (acc ++ ['\t'])
    else none
  | ['\\'], _ => none
  | c :: rest, acc => if c.toNat < 0x20 then none else parseStr rest (acc ++ [c])

theorem parseStr_lt (cs acc : List Char) (s : String) (rest : List Char) (h : parseStr cs acc = some (s, rest)) :
    rest.length < cs.length := by
  fun_induction parseStr cs acc <;> simp_all <;> omega

def takeDigits : List Char → List Char
  | c :: cs => if isDigit c then takeDigits cs else c :: cs
  | [] => []

theorem takeDigits_le (cs : List Char) : (takeDigits cs).length ≤ cs.length := by
  induction cs with
  | nil => simp [takeDigits]
  | cons c cs ih => simp only [takeDigits]; split <;> simp <;> omega

/-- JSON number: `-? (0 | [1-9][0-9]*) (\.[0-9]+)? ([eE][+-]?[0-9]+)?`; returns the rest -/
def parseNum (cs : List Char) : Option (List Char) :=
  let cs1 := match cs with | '-' :: r => r | _ => cs
  let afterInt : Option (List Char) := match cs1 with
    | '0' :: r => some r
    | c :: r => if isDigit c then some (takeDigits r) else none
    | [] => none
  match afterInt with
  | none => none
  | some r1 =>
    let afterFrac : Option (List Char) := match r1 with
      | '.' :: d :: r => if isDigit d then some (takeDigits r) else none
      | ['.'] => none
      | _ => some r1
    match afterFrac with
    | none => none
    | some r2 =>
      match r2 with
      | e :: r =>
        if e = 'e' || e = 'E' then
          let r' := match r with | '+' :: x => x | '-' :: x => x | _ => r
          match r' with
          | d :: x => if isDigit d then some (takeDigits x) else none
          | [] => none
        else some r2
      | [] => some r2

mutual
/-- value, with `fuel` bounding the nesting depth (callers pass the input length) -/
def parseVal : Nat → List Char → Option (JVal × List Char)
  | 0, _ => none
  | f + 1, cs =>
    match skipWs cs with
    | 'n' :: 'u' :: 'l' :: 'l' :: r => some (.null, r)
    | 't' :: 'r' :: 'u' :: 'e' :: r => some (.bool, r)
    | 'f' :: 'a' :: 'l' :: 's' :: 'e' :: r => some (.bool, r)
    | '"' :: r => (parseStr r []).map fun (_, r') => (.str, r')
    | '[' :: r =>
      (match skipWs r with
      | ']' :: r' => some (.arr [], r')
      | _ => parseElems f r [])
    | '{' :: r =>
      (match skipWs r with
      | '}' :: r' => some (.obj [], r')
      | _ => parseMembers f r [])
    | c :: r => if c = '-' || isDigit c then (parseNum (c :: r)).map fun r' => (.num, r') else none
    | [] => none
def parseElems : Nat → List Char → List JVal → Option (JVal × List Char)
  | 0, _, _ => none
  | f + 1, cs, acc =>
    match parseVal f cs with
    | none => none
    | some (v, r) =>
      match skipWs r with
      | ',' :: r' => parseElems f r' (acc ++ [v])
      | ']' :: r' => some (.arr (acc ++ [v]), r')
      | _ => none
def parseMembers : Nat → List Char → List (String × JVal) → Option (JVal × List Char)
  | 0, _, _ => none
  | f + 1, cs, acc =>
    match skipWs cs with
    | '"' :: r =>
      (match parseStr r [] with
      | none => none
      | some (k, r1) =>
        match skipWs r1 with
        | ':' :: r2 =>
          (match parseVal f r2 with
          | none => none
          | some (v, r3) =>
            match skipWs r3 with
            | ',' :: r4 => parseMembers f r4 (acc ++ [(k, v)])
            | '}' :: r4 => some (.obj (acc ++ [(k, v)]), r4)
            | _ => none)
        | _ => none)
    | _ => none
end

def parse (s : String) : Option JVal :=
  match parseVal (2 * s.length + 2) s.toList with
  | some (v, r) => if (skipWs r).isEmpty then some v else none
  | none => none

mutual
/-- `typeOfJSONValue` (keys folded with `lower`, visited in sorted order so that the later key wins) -/
def typeOf (lower : String → String) : JVal → Ty
  | .null => .null
  | .bool => .bool
  | .num => .number
  | .str => .string
  | .arr es => .arr (elemTy lower es none) false
  | .obj ms => .obj (memberTys lower ms []) none
def elemTy (lower : String → String) : List JVal → Option Ty → Ty
  | [], none => .any
  | [], some t => t
  | e :: es, none => elemTy lower es (some (typeOf lower e))
  | e :: es, some t => elemTy lower es (some (Ty.merge t (typeOf lower e)))
/-- the Go code stores into a map in sorted key order: a later (greater) original key overwrites an
earlier one that folds to the same name. `acc` holds (original key, folded key, type). -/
def memberTys (lower : String → String) : List (String × JVal) → List (String × String × Ty) → List (String × Ty)
  | [], acc =>
    -- resolve collisions: for each folded key keep the binding with the greatest original key; JSON
    -- duplicates (same original key) keep the last one
    let folded := acc.foldl (fun (m : List (String × String × Ty)) (e : String × String × Ty) =>
      match m.find? (fun x => x.2.1 = e.2.1) with
      | some old => if old.1 ≤ e.1 then m.map (fun x => if x.2.1 = e.2.1 then e else x) else m
      | none => m ++ [e]) []
    folded.foldl (fun ps e => Ty.setProp e.2.1 e.2.2 ps) []
  | (k, v) :: rest, acc => memberTys lower rest (acc ++ [(k, lower k, typeOf lower v)])
end

def fromJson (lower : String → String) (s : String) : JsonRes :=
  match parse s with
  | some v => .ok (typeOf lower v)
  | none => .syntaxErr

end AL.Json
