/-
  Model of rule_matrix.go (`checkDuplicateInRow`, `isYAMLValueSubset`, `checkExclude`) and of
  `RawYAMLValue.Equals` / `ContainsExpression` from ast.go.

  `RawYAMLObject.Props` (a Go map with lower-cased keys) is an association list whose keys are
  pairwise distinct (`Raw.WF`); `Matrix.Rows` and `MatrixCombination.Assigns` likewise.
-/
namespace AL.Matrix

structure P where
  line : Nat
  col  : Nat
deriving Repr, DecidableEq, Inhabited

inductive Raw where
  | str (v : String) (pos : P)
  | arr (es : List Raw) (pos : P)
  | obj (props : List (String × Raw)) (pos : P)
deriving Repr, Inhabited

def Raw.pos : Raw → P
  | .str _ p => p
  | .arr _ p => p
  | .obj _ p => p

/-- Index of the first occurrence of `pat` in `s` (`strings.Index`), on character lists. -/
def indexOf (pat : List Char) : List Char → Nat → Option Nat
  | [], i => if pat.isEmpty then some i else none
  | c :: cs, i => if pat.isPrefixOf (c :: cs) then some i else indexOf pat cs (i + 1)

/-- `ContainsExpression`: there is a `}}` at or after the first `${{`. -/
def containsExpr (s : String) : Bool :=
  match indexOf "${{".toList s.toList 0 with
  | some i => (indexOf "}}".toList (s.toList.drop i) 0).isSome
  | none => false

def lookup (k : String) : List (String × Raw) → Option Raw
  | [] => none
  | (k', v) :: rest => if k' = k then some v else lookup k rest

mutual
/-- `Equals` (after the fix that compares the number of properties). -/
def equals : Raw → Raw → Bool
  | .str v _, .str w _ => v == w
  | .arr es _, .arr fs _ => equalsList es fs
  | .obj ps _, .obj qs _ => ps.length == qs.length && equalsProps ps qs
  | _, _ => false
def equalsList : List Raw → List Raw → Bool
  | [], [] => true
  | e :: es, f :: fs => equals e f && equalsList es fs
  | _, _ => false
/-- every property of the receiver has an equal counterpart in `other` -/
def equalsProps : List (String × Raw) → List (String × Raw) → Bool
  | [], _ => true
  | (n, p1) :: rest, other =>
    (match lookup n other with
     | some p2 => equals p1 p2
     | none => false) && equalsProps rest other
end

mutual
/-- `isYAMLValueSubset v sub`. -/
def subset : Raw → Raw → Bool
  | v, .str s _ =>
    if containsExpr s then true
    else match v with
      | .str w _ => if containsExpr w then true else w == s
      | _ => false
  | .obj vps _, .obj sps _ => subsetProps vps sps
  | .arr ves _, .arr ses _ => subsetList ves ses
  | .str w _, _ => if containsExpr w then true else false
  | _, _ => false
def subsetList : List Raw → List Raw → Bool
  | [], [] => true
  | v :: vs, s :: ss => subset v s && subsetList vs ss
  | _, _ => false
/-- every property of the filter `sub` has a `subset` counterpart in the value's properties -/
def subsetProps (vps : List (String × Raw)) : List (String × Raw) → Bool
  | [] => true
  | (n, s) :: rest =>
    (match lookup n vps with
     | some p => subset p s
     | none => false) && subsetProps vps rest
end

structure Row where
  id     : String                 -- lower-cased key
  values : Option (List Raw)      -- `none`: the row is a `${{ }}` expression
deriving Repr, Inhabited

structure Assign where
  id     : String                 -- lower-cased key
  keyPos : P
  value  : Raw
deriving Repr, Inhabited

inductive Combo where
  | expr
  | assigns (as : List Assign)
deriving Repr, Inhabited

inductive Combos where
  | expr
  | list (cs : List Combo)
deriving Repr, Inhabited

structure Mat where
  pos     : P
  rows    : List Row
  incl    : Option Combos
  excl    : Option Combos
deriving Repr, Inhabited

inductive Diag where
  | dup (pos : P) (row : String) (prev : P)
  | noVariation (pos : P)
  | unknownKey (pos : P) (key : String) (available : List String)
  | noMatch (pos : P) (key : String)
deriving Repr, DecidableEq, Inhabited

/-- Inner loops of `checkDuplicateInRow`: the first earlier (kept) value equal to `v`. -/
def firstEqual (v : Raw) : List Raw → Option Raw
  | [] => none
  | p :: ps => if equals p v then some p else firstEqual v ps

def dupRow (row : String) : List Raw → List Raw → List Diag
  | [], _ => []
  | v :: vs, seen =>
    match firstEqual v seen with
    | some p => .dup v.pos row p.pos :: dupRow row vs seen
    | none => dupRow row vs (seen ++ [v])

def checkDuplicates (rows : List Row) : List Diag :=
  rows.flatMap fun r => match r.values with
    | some vs => dupRow r.id vs []
    | none => []

def Combos.containsExpr : Combos → Bool
  | .expr => true
  | .list cs => cs.any fun c => match c with | .expr => true | _ => false

def Combos.combos : Combos → List Combo
  | .expr => []
  | .list cs => cs

abbrev RowMap := List (String × List Raw)

def RowMap.get? (m : RowMap) (k : String) : Option (List Raw) := (m.find? (·.1 = k)).map (·.2)

def RowMap.set (m : RowMap) (k : String) (v : List Raw) : RowMap :=
  if m.any (·.1 = k) then m.map (fun e => if e.1 = k then (k, v) else e) else m ++ [(k, v)]

/-- One `include` assignment: append the value to its row unless an equal value is present. -/
def addInclude (ignored : List String) (rows : RowMap) (a : Assign) : RowMap :=
  if ignored.contains a.id then rows
  else
    let row := (rows.get? a.id).getD []
    if row.any (fun v => equals v a.value) then rows else rows.set a.id (row ++ [a.value])

def excludeAssign (ignored : List String) (rows : RowMap) (a : Assign) : List Diag :=
  if ignored.contains a.id then []
  else match rows.get? a.id with
    | none => [.unknownKey a.keyPos a.id (rows.map (·.1))]
    | some row => if row.any (fun v => subset v a.value) then [] else [.noMatch a.value.pos a.id]

def checkExclude (m : Mat) : List Diag :=
  match m.excl with
  | none => []
  | some ex =>
    if ex.combos.isEmpty || (match m.incl with | some inc => inc.containsExpr | none => false) then []
    else if m.rows.isEmpty && (match m.incl with | some inc => inc.combos.isEmpty | none => true) then
      [.noVariation m.pos]
    else
      let ignored := (m.rows.filter (·.values.isNone)).map (·.id)
      let rows0 : RowMap := m.rows.filterMap fun r => r.values.map fun vs => (r.id, vs)
      let incAssigns : List Assign := match m.incl with
        | some inc => inc.combos.flatMap fun c => match c with | .assigns as => as | .expr => []
        | none => []
      let rows := incAssigns.foldl (addInclude ignored) rows0
      ex.combos.flatMap fun c => match c with
        | .assigns as => as.flatMap (excludeAssign ignored rows)
        | .expr => []

/-- `RuleMatrix.VisitJobPre` for a literal (non-expression) matrix. -/
def check (m : Mat) : List Diag := checkDuplicates m.rows ++ checkExclude m

end AL.Matrix
