import AL.Model.Ast
/-
  parse.go, function by function: from the `yaml.Node` tree to the workflow AST and the list of syntax-check
  diagnostics, in the order the Go code appends them.

  * `(*parser).errors` is threaded explicitly: every `parseX` returns its result together with the diagnostics it
    appended (`R α = α × List PErr`).
  * a `for _, kv := range p.parseMapping(…) { switch kv.id { … } }` loop is `loop step init kvs`, `step` being the body
    of the loop as a function of the state the body reads and writes (the fields of the node under construction and the
    local flags).
  * diagnostics are data: position, template code, arguments (`PErr`); the harness matches the real message against
    one anchored regular expression per template and compares position, code and arguments.
  * `strings.ToLower`, `strconv.Atoi` and `strconv.ParseFloat` are parameters (`Cfg`).
  * Go's nil is `none`; a Go map is an association list in insertion order (keys distinct, see `parseMapping`).
-/
namespace AL.PW
open AL.Yaml AL.Ast

structure PErr where
  pos : Pos
  code : String
  args : List String
deriving Repr, DecidableEq, Inhabited

inductive FloatRes where
  | err | nan | val (positive : Bool)
deriving Repr, DecidableEq

structure Cfg where
  lower : String → String
  /-- `strconv.Atoi`; `none` = error -/
  atoi : String → Option Int
  /-- `strconv.ParseFloat(s, 64)` followed by the `math.IsNaN` test; only the sign of the value is kept -/
  parseFloat : String → FloatRes

abbrev R (α : Type) := α × List PErr

structure KV where
  /-- lower-cased when the mapping is case-insensitive -/
  id : String
  key : Str
  val : Node
deriving Repr, Inhabited

def errAt (n : Node) (code : String) (args : List String) : PErr := ⟨n.pos, code, args⟩

def insertSorted (s : String) : List String → List String
  | [] => [s]
  | x :: rest => if s < x then s :: x :: rest else x :: insertSorted s rest

/-- `sort.Strings` -/
def sortStrings (l : List String) : List String := l.foldr insertSorted []

/-- `(*parser).unexpectedKey` -/
def unexpectedKey (s : Str) (sec : String) (expected : List String) : PErr :=
  match expected with
  | [] => ⟨s.pos, "unexpected-key-0", [s.value, sec]⟩
  | [e] => ⟨s.pos, "unexpected-key-1", [e, sec, s.value]⟩
  | _ => ⟨s.pos, "unexpected-key", [s.value, sec, ",".intercalate (sortStrings expected)]⟩

/-- `checkNotEmpty` -/
def checkNotEmpty (sec : String) (len : Nat) (n : Node) : R Bool :=
  if len = 0 then (false, [errAt n "section-empty" [sec]]) else (true, [])

/-- `checkSequence` -/
def checkSequence (sec : String) (n : Node) (allowEmpty : Bool) : R Bool :=
  if n.kind ≠ .sequence then (false, [errAt n "not-sequence" [sec, n.kind.name, n.tag]])
  else if allowEmpty then (true, [])
  else checkNotEmpty sec n.content.length n

/-- `checkString` -/
def checkString (n : Node) (allowEmpty : Bool) : R Bool :=
  if n.kind ≠ .scalar then (false, [errAt n "not-scalar-string" [n.kind.name, n.tag]])
  else if !allowEmpty && n.value = "" then (false, [errAt n "string-empty" []])
  else (true, [])

/-- `newString` -/
def newString (n : Node) : Str := ⟨n.value, n.quoted, n.pos⟩

/-- `parseExpression` -/
def parseExpression (n : Node) (expecting : String) : R (Option Str) :=
  if !isExprAssigned n.value then (none, [errAt n "missing-expression" [expecting]])
  else (some (newString n), [])

/-- `mayParseExpression` -/
def mayParseExpression (n : Node) : Option Str :=
  if n.tag ≠ "!!str" then none
  else if !isExprAssigned n.value then none
  else some (newString n)

/-- `parseString`: never nil; the empty string at the node's position when the check fails -/
def parseString (n : Node) (allowEmpty : Bool) : R Str :=
  let c := checkString n allowEmpty
  if !c.1 then (⟨"", false, n.pos⟩, c.2) else (newString n, c.2)

def parseStrings (allowElemEmpty : Bool) : List Node → R (List Str)
  | [] => ([], [])
  | c :: cs =>
    let s := parseString c allowElemEmpty
    let r := parseStrings allowElemEmpty cs
    (s.1 :: r.1, s.2 ++ r.2)

/-- `parseStringSequence` -/
def parseStringSequence (sec : String) (n : Node) (allowEmpty allowElemEmpty : Bool) : R (Option (List Str)) :=
  let c := checkSequence sec n allowEmpty
  if !c.1 then (none, c.2)
  else
    let r := parseStrings allowElemEmpty n.content
    (some r.1, c.2 ++ r.2)

/-- `parseStringOrStringSequence` -/
def parseStringOrStringSequence (sec : String) (n : Node) (allowEmpty allowElemEmpty : Bool) : R (Option (List Str)) :=
  if n.kind = .scalar then
    if allowEmpty && n.tag = "!!null" then (some [], [])
    else
      let s := parseString n allowElemEmpty
      (some [s.1], s.2)
  else parseStringSequence sec n allowEmpty allowElemEmpty

def asciiLower (s : String) : String :=
  String.ofList (s.toList.map fun c => if 'A' ≤ c ∧ c ≤ 'Z' then Char.ofNat (c.toNat + 32) else c)

/-- `parseBool`. A `!!str` node without a placeholder yields a diagnostic AND a node whose `Expression` is nil. -/
def parseBool (n : Node) : R (Option BoolV) :=
  if n.kind ≠ .scalar || (n.tag ≠ "!!bool" && n.tag ≠ "!!str") then
    (none, [errAt n "not-bool" [n.kind.name, n.tag]])
  else if n.tag = "!!str" then
    let e := parseExpression n "boolean literal \"true\" or \"false\""
    (some ⟨false, e.1, n.pos⟩, e.2)
  else
    -- strings.EqualFold(n.Value, "true"): none of t, r, u, e has a non-ASCII simple-folding partner
    (some ⟨asciiLower n.value = "true", none, n.pos⟩, [])

/-- `parseInt` -/
def parseInt (cfg : Cfg) (n : Node) : R (Option IntV) :=
  if n.kind ≠ .scalar || (n.tag ≠ "!!int" && n.tag ≠ "!!str") then
    (none, [errAt n "not-int" [n.kind.name, n.tag]])
  else if n.tag = "!!str" then
    let e := parseExpression n "integer literal"
    match e.1 with
    | none => (none, e.2)
    | some s => (some ⟨0, some s, n.pos⟩, e.2)
  else
    match cfg.atoi n.value with
    | none => (none, [errAt n "invalid-int" [n.value]])
    | some i => (some ⟨i, none, n.pos⟩, [])

/-- `parseFloat` -/
def parseFloat (cfg : Cfg) (n : Node) : R (Option FloatV) :=
  if n.kind ≠ .scalar || (n.tag ≠ "!!float" && n.tag ≠ "!!int" && n.tag ≠ "!!str") then
    (none, [errAt n "not-float" [n.kind.name, n.tag]])
  else if n.tag = "!!str" then
    let e := parseExpression n "float number literal"
    match e.1 with
    | none => (none, e.2)
    | some s => (some ⟨false, some s, n.pos⟩, e.2)
  else
    match cfg.parseFloat n.value with
    | .err => (none, [errAt n "invalid-float" [n.value]])
    | .nan => (none, [errAt n "invalid-float" [n.value]])
    | .val p => (some ⟨p, none, n.pos⟩, [])

def posString (p : Pos) : String := s!"line:{p.line},col:{p.col}"

def lookupSeen (id : String) : List (String × Pos) → Option Pos
  | [] => none
  | (k, p) :: rest => if k = id then some p else lookupSeen id rest

/-- the loop of `parseMapping` over the key/value pairs: keys are strings, a key whose (folded) id was seen already is
reported at the repetition and dropped -/
def mappingLoop (cfg : Cfg) (what : String) (caseSensitive : Bool) : List (Node × Node) → List (String × Pos) → R (List KV)
  | [], _ => ([], [])
  | (kn, vn) :: rest, seen =>
    let k := parseString kn false
    let id := if caseSensitive then k.1.value else cfg.lower k.1.value
    match lookupSeen id seen with
    | some pos =>
      let note := if caseSensitive then "" else ". note that this key is case insensitive"
      let r := mappingLoop cfg what caseSensitive rest seen
      (r.1, k.2 ++ [⟨k.1.pos, "key-duplicated", [k.1.value, what, posString pos, note]⟩] ++ r.2)
    | none =>
      let r := mappingLoop cfg what caseSensitive rest (seen ++ [(id, k.1.pos)])
      (⟨id, k.1, vn⟩ :: r.1, k.2 ++ r.2)

/-- `parseMapping` -/
def parseMapping (cfg : Cfg) (what : String) (n : Node) (allowEmpty caseSensitive : Bool) : R (List KV) :=
  if !n.isNull && n.kind ≠ .mapping then ([], [errAt n "not-mapping" [what, n.kind.name]])
  else if !allowEmpty && n.isNull then ([], [errAt n "mapping-empty" [what]])
  else
    let r := mappingLoop cfg what caseSensitive (pairs n.content) []
    (r.1, r.2 ++ (if !allowEmpty && r.1.isEmpty then [errAt n "mapping-empty" [what]] else []))

/-- `fmt.Sprintf("%q section", sec)`; the quoting is left to the comparison («…» stands for the %q form) -/
def sectionWhat (sec : String) : String := "«" ++ sec ++ "» section"

/-- `parseSectionMapping` -/
def parseSectionMapping (cfg : Cfg) (sec : String) (n : Node) (allowEmpty caseSensitive : Bool) : R (List KV) :=
  parseMapping cfg (sectionWhat sec) n allowEmpty caseSensitive

/-- a `for _, kv := range kvs { body }` loop: `step` is the body -/
def loop {σ : Type} (step : σ → KV → σ × List PErr) (init : σ) (kvs : List KV) : σ × List PErr :=
  kvs.foldl (fun acc kv => let r := step acc.1 kv; (r.1, acc.2 ++ r.2)) (init, [])

/-- a loop whose iterations do not depend on each other and each yield one element: `ret[kv.id] = f(kv)` -/
def mapKVs {β : Type} (f : KV → R β) : List KV → R (List (String × β))
  | [] => ([], [])
  | kv :: rest =>
    let x := f kv
    let r := mapKVs f rest
    ((kv.id, x.1) :: r.1, x.2 ++ r.2)

/-! ### events -/

def scheduleItems (cfg : Cfg) : List Node → R (List Str)
  | [] => ([], [])
  | c :: cs =>
    let m := parseMapping cfg "element of \"schedule\" section" c false true
    let r := scheduleItems cfg cs
    match m.1 with
    | [kv] =>
      if kv.id ≠ "cron" then (r.1, m.2 ++ [errAt c "schedule-element" []] ++ r.2)
      else
        let s := parseString kv.val false
        (s.1 :: r.1, m.2 ++ s.2 ++ r.2)
    | _ => (r.1, m.2 ++ [errAt c "schedule-element" []] ++ r.2)

/-- `parseScheduleEvent` -/
def parseScheduleEvent (cfg : Cfg) (pos : Pos) (n : Node) : R (Option Event) :=
  let c := checkSequence "schedule" n false
  if !c.1 then (none, c.2)
  else
    let r := scheduleItems cfg n.content
    (some (.schedule r.1 pos), c.2 ++ r.2)

structure DispatchInputSt where
  desc : Option Str := none
  req : Option BoolV := none
  dflt : Option Str := none
  ty : DispatchInputType := .none
  opts : Option (List Str) := none

def dispatchAttr (st : DispatchInputSt) (attr : KV) : DispatchInputSt × List PErr :=
  match attr.id with
  | "description" => let s := parseString attr.val true; ({ st with desc := some s.1 }, s.2)
  | "required" => let b := parseBool attr.val; ({ st with req := b.1 }, b.2)
  | "default" => let s := parseString attr.val true; ({ st with dflt := some s.1 }, s.2)
  | "type" =>
    let c := checkString attr.val false
    if !c.1 then (st, c.2)
    else match attr.val.value with
      | "string" => ({ st with ty := .string }, c.2)
      | "number" => ({ st with ty := .number }, c.2)
      | "boolean" => ({ st with ty := .boolean }, c.2)
      | "choice" => ({ st with ty := .choice }, c.2)
      | "environment" => ({ st with ty := .environment }, c.2)
      | v => (st, c.2 ++ [errAt attr.val "dispatch-input-type" [v]])
  | "options" => let o := parseStringSequence "options" attr.val false false; ({ st with opts := o.1 }, o.2)
  | _ => (st, [unexpectedKey attr.key "inputs" ["description", "required", "default"]])

def dispatchInput (cfg : Cfg) (input : KV) : R DispatchInput :=
  let m := parseMapping cfg "input settings of workflow_dispatch event" input.val true true
  let r := loop dispatchAttr {} m.1
  (⟨input.key, r.1.desc, r.1.req, r.1.dflt, r.1.ty, r.1.opts⟩, m.2 ++ r.2)

/-- `parseWorkflowDispatchEvent` -/
def parseWorkflowDispatchEvent (cfg : Cfg) (pos : Pos) (n : Node) : R Event :=
  let m := parseSectionMapping cfg "workflow_dispatch" n true true
  let r := loop (σ := Option (List (String × DispatchInput))) (fun st kv =>
    if kv.id ≠ "inputs" then (st, [unexpectedKey kv.key "workflow_dispatch" ["inputs"]])
    else
      let inputs := parseSectionMapping cfg "inputs" kv.val true false
      let is := mapKVs (dispatchInput cfg) inputs.1
      (some is.1, inputs.2 ++ is.2)) none m.1
  (.dispatch r.1 pos, m.2 ++ r.2)

/-- `parseRepositoryDispatchEvent` -/
def parseRepositoryDispatchEvent (cfg : Cfg) (pos : Pos) (n : Node) : R Event :=
  let m := parseSectionMapping cfg "repository_dispatch" n true true
  let r := loop (σ := Option (List Str)) (fun st kv =>
    if kv.id = "types" then
      let t := parseStringOrStringSequence "types" kv.val false false
      (t.1, t.2)
    else (st, [unexpectedKey kv.key "repository_dispatch" ["types"]])) none m.1
  (.repoDispatch r.1 pos, m.2 ++ r.2)

/-- `parseWebhookEventFilter` -/
def parseWebhookEventFilter (name : Str) (n : Node) : R Filter :=
  let v := parseStringOrStringSequence name.value n false false
  (⟨name, v.1⟩, v.2)

def webhookKey (name : Str) (st : WebhookEvent) (kv : KV) : WebhookEvent × List PErr :=
  match kv.id with
  | "types" => let t := parseStringOrStringSequence kv.key.value kv.val false false; ({ st with types := t.1 }, t.2)
  | "branches" => let f := parseWebhookEventFilter kv.key kv.val; ({ st with branches := some f.1 }, f.2)
  | "branches-ignore" => let f := parseWebhookEventFilter kv.key kv.val; ({ st with branchesIgnore := some f.1 }, f.2)
  | "tags" => let f := parseWebhookEventFilter kv.key kv.val; ({ st with tags := some f.1 }, f.2)
  | "tags-ignore" => let f := parseWebhookEventFilter kv.key kv.val; ({ st with tagsIgnore := some f.1 }, f.2)
  | "paths" => let f := parseWebhookEventFilter kv.key kv.val; ({ st with paths := some f.1 }, f.2)
  | "paths-ignore" => let f := parseWebhookEventFilter kv.key kv.val; ({ st with pathsIgnore := some f.1 }, f.2)
  | "workflows" => let t := parseStringOrStringSequence kv.key.value kv.val false false; ({ st with workflows := t.1 }, t.2)
  | _ => (st, [unexpectedKey kv.key name.value
      ["types", "branches", "branches-ignore", "tags", "tags-ignore", "paths", "paths-ignore", "workflows"]])

/-- `parseWebhookEvent` -/
def parseWebhookEvent (cfg : Cfg) (name : Str) (n : Node) : R Event :=
  let m := parseSectionMapping cfg name.value n true true
  let r := loop (webhookKey name) { hook := name, pos := name.pos } m.1
  (.webhook r.1, m.2 ++ r.2)

def callInputAttr (st : CallInput × Bool) (attr : KV) : (CallInput × Bool) × List PErr :=
  match attr.id with
  | "description" => let s := parseString attr.val true; (({ st.1 with description := some s.1 }, st.2), s.2)
  | "required" => let b := parseBool attr.val; (({ st.1 with required := b.1 }, st.2), b.2)
  | "default" =>
    -- a null node sets no default value
    if attr.val.isNull then (st, [])
    else let s := parseString attr.val true; (({ st.1 with dflt := some s.1 }, st.2), s.2)
  | "type" =>
    match attr.val.value with
    | "boolean" => (({ st.1 with type := .boolean }, true), [])
    | "number" => (({ st.1 with type := .number }, true), [])
    | "string" => (({ st.1 with type := .string }, true), [])
    | v => ((st.1, true), [errAt attr.val "call-input-type" [v]])
  | _ => (st, [unexpectedKey attr.key "inputs at workflow_call event" ["description", "required", "default", "type"]])

def callInput (cfg : Cfg) (kv : KV) : R CallInput :=
  let m := parseMapping cfg "input of workflow_call event" kv.val true true
  let r := loop callInputAttr ({ name := kv.key, id := kv.id }, false) m.1
  (r.1.1, m.2 ++ r.2 ++ (if !r.1.2 then [⟨kv.key.pos, "call-input-type-missing", [kv.key.value]⟩] else []))

def callInputs (cfg : Cfg) : List KV → R (List CallInput)
  | [] => ([], [])
  | kv :: rest =>
    let x := callInput cfg kv
    let r := callInputs cfg rest
    (x.1 :: r.1, x.2 ++ r.2)

def callSecretAttr (st : CallSecret) (attr : KV) : CallSecret × List PErr :=
  match attr.id with
  | "description" => let s := parseString attr.val true; ({ st with description := some s.1 }, s.2)
  | "required" => let b := parseBool attr.val; ({ st with required := b.1 }, b.2)
  | _ => (st, [unexpectedKey attr.key "secrets" ["description", "required"]])

def callSecret (cfg : Cfg) (kv : KV) : R CallSecret :=
  let m := parseMapping cfg "secret of workflow_call event" kv.val true true
  let r := loop callSecretAttr { name := kv.key } m.1
  (r.1, m.2 ++ r.2)

def callOutputAttr (st : CallOutput) (attr : KV) : CallOutput × List PErr :=
  match attr.id with
  | "description" => let s := parseString attr.val true; ({ st with description := some s.1 }, s.2)
  | "value" => let s := parseString attr.val false; ({ st with value := some s.1 }, s.2)
  | _ => (st, [unexpectedKey attr.key "outputs at workflow_call event" ["description", "value"]])

def callOutput (cfg : Cfg) (kv : KV) : R CallOutput :=
  let m := parseMapping cfg "output of workflow_call event" kv.val true true
  let r := loop callOutputAttr { name := kv.key } m.1
  (r.1, m.2 ++ r.2 ++ (if r.1.value.isNone then [⟨kv.key.pos, "call-output-value-missing", [kv.key.value]⟩] else []))

structure CallEventSt where
  inputs : Option (List CallInput) := none
  secrets : Option (List (String × CallSecret)) := none
  outputs : Option (List (String × CallOutput)) := none

def callEventKey (cfg : Cfg) (st : CallEventSt) (kv : KV) : CallEventSt × List PErr :=
  match kv.id with
  | "inputs" =>
    let m := parseSectionMapping cfg "inputs" kv.val true false
    let r := callInputs cfg m.1
    ({ st with inputs := some r.1 }, m.2 ++ r.2)
  | "secrets" =>
    let m := parseSectionMapping cfg "secrets" kv.val true false
    let r := mapKVs (callSecret cfg) m.1
    ({ st with secrets := some r.1 }, m.2 ++ r.2)
  | "outputs" =>
    let m := parseSectionMapping cfg "outputs" kv.val true false
    let r := mapKVs (callOutput cfg) m.1
    ({ st with outputs := some r.1 }, m.2 ++ r.2)
  | _ => (st, [unexpectedKey kv.key "workflow_call" ["inputs", "secrets", "outputs"]])

/-- `parseWorkflowCallEvent` -/
def parseWorkflowCallEvent (cfg : Cfg) (pos : Pos) (n : Node) : R Event :=
  let m := parseSectionMapping cfg "workflow_call" n true true
  let r := loop (callEventKey cfg) {} m.1
  (.call r.1.inputs r.1.secrets r.1.outputs pos, m.2 ++ r.2)

def eventOfKey (cfg : Cfg) (st : List Event) (kv : KV) : List Event × List PErr :=
  let pos := kv.key.pos
  match kv.id with
  | "schedule" =>
    let e := parseScheduleEvent cfg pos kv.val
    (match e.1 with | some ev => st ++ [ev] | none => st, e.2)
  | "workflow_dispatch" => let e := parseWorkflowDispatchEvent cfg pos kv.val; (st ++ [e.1], e.2)
  | "repository_dispatch" => let e := parseRepositoryDispatchEvent cfg pos kv.val; (st ++ [e.1], e.2)
  | "workflow_call" => let e := parseWorkflowCallEvent cfg pos kv.val; (st ++ [e.1], e.2)
  | _ => let e := parseWebhookEvent cfg kv.key kv.val; (st ++ [e.1], e.2)

def eventsOfSeq : List Node → R (List Event)
  | [] => ([], [])
  | c :: cs =>
    let s := parseString c false
    let r := eventsOfSeq cs
    match s.1.value with
    | "schedule" => (r.1, s.2 ++ [errAt c "event-in-sequence" [s.1.value]] ++ r.2)
    | "repository_dispatch" => (r.1, s.2 ++ [errAt c "event-in-sequence" [s.1.value]] ++ r.2)
    | "workflow_dispatch" => (.dispatch none c.pos :: r.1, s.2 ++ r.2)
    | "workflow_call" => (.call none none none c.pos :: r.1, s.2 ++ r.2)
    | _ => (.webhook { hook := s.1, pos := c.pos } :: r.1, s.2 ++ r.2)

/-- `parseEvents`; `none` = nil -/
def parseEvents (cfg : Cfg) (pos : Pos) (n : Node) : R (Option (List Event)) :=
  match n.kind with
  | .scalar =>
    (match n.value with
    | "workflow_dispatch" => (some [.dispatch none n.pos], [])
    | "repository_dispatch" => (some [.repoDispatch none n.pos], [])
    | "schedule" => (some [], [⟨pos, "schedule-scalar", []⟩])
    | "workflow_call" => (some [.call none none none n.pos], [])
    | _ =>
      let h := parseString n false
      if h.1.value = "" then (some [], h.2)
      else (some [.webhook { hook := h.1, pos := n.pos }], h.2))
  | .mapping =>
    let m := parseSectionMapping cfg "on" n false true
    let r := loop (eventOfKey cfg) [] m.1
    (some r.1, m.2 ++ r.2)
  | .sequence =>
    let c := checkNotEmpty "on" n.content.length n
    let r := eventsOfSeq n.content
    (some r.1, c.2 ++ r.2)
  | k => (none, [errAt n "on-kind" [k.name]])

/-! ### sections shared by workflow and job -/

/-- `parsePermissions` -/
def parsePermissions (cfg : Cfg) (pos : Pos) (n : Node) : R Permissions :=
  if n.kind = .scalar then
    let s := parseString n false
    (⟨some s.1, none, pos⟩, s.2)
  else
    let m := parseSectionMapping cfg "permissions" n true false
    let r := mapKVs (fun kv => let v := parseString kv.val false; ((⟨kv.key, v.1⟩ : PermissionScope), v.2)) m.1
    (⟨none, some r.1, pos⟩, m.2 ++ r.2)

/-- `parseEnv` -/
def parseEnv (cfg : Cfg) (n : Node) : R Env :=
  if n.kind = .scalar then
    let e := parseExpression n "mapping value for \"env\" section"
    (⟨none, e.1⟩, e.2)
  else
    let m := parseMapping cfg "env" n false false
    let r := mapKVs (fun kv => let v := parseString kv.val true; ((⟨kv.key, v.1⟩ : EnvVar), v.2)) m.1
    (⟨some r.1, none⟩, m.2 ++ r.2)

def defaultsRunKey (st : DefaultsRun) (attr : KV) : DefaultsRun × List PErr :=
  match attr.id with
  | "shell" => let s := parseString attr.val false; ({ st with shell := some s.1 }, s.2)
  | "working-directory" => let s := parseString attr.val false; ({ st with workingDirectory := some s.1 }, s.2)
  | _ => (st, [unexpectedKey attr.key "run" ["shell", "working-directory"]])

/-- `parseDefaults` -/
def parseDefaults (cfg : Cfg) (pos : Pos) (n : Node) : R Defaults :=
  let m := parseSectionMapping cfg "defaults" n false true
  let r := loop (σ := Option DefaultsRun) (fun st kv =>
    if kv.id ≠ "run" then (st, [unexpectedKey kv.key "defaults" ["run"]])
    else
      let mm := parseSectionMapping cfg "run" kv.val false true
      let rr := loop defaultsRunKey { pos := kv.key.pos } mm.1
      (some rr.1, mm.2 ++ rr.2)) none m.1
  (⟨r.1, pos⟩, m.2 ++ r.2 ++ (if r.1.isNone then [errAt n "defaults-no-run" []] else []))

def concurrencyKey (st : Concurrency × Bool) (kv : KV) : (Concurrency × Bool) × List PErr :=
  match kv.id with
  | "group" => let s := parseString kv.val false; (({ st.1 with group := some s.1 }, true), s.2)
  | "cancel-in-progress" => let b := parseBool kv.val; (({ st.1 with cancelInProgress := b.1 }, st.2), b.2)
  | _ => (st, [unexpectedKey kv.key "concurrency" ["group", "cancel-in-progress"]])

/-- `parseConcurrency` -/
def parseConcurrency (cfg : Cfg) (pos : Pos) (n : Node) : R Concurrency :=
  if n.kind = .scalar then
    let s := parseString n false
    ({ group := some s.1, pos := pos }, s.2)
  else
    let m := parseSectionMapping cfg "concurrency" n false true
    let r := loop concurrencyKey ({ pos := pos }, false) m.1
    (r.1.1, m.2 ++ r.2 ++ (if !r.1.2 then [⟨pos, "concurrency-no-group", []⟩] else []))

def environmentKey (st : Environment × Bool) (kv : KV) : (Environment × Bool) × List PErr :=
  match kv.id with
  | "name" => let s := parseString kv.val false; (({ st.1 with name := some s.1 }, true), s.2)
  | "url" => let s := parseString kv.val false; (({ st.1 with url := some s.1 }, st.2), s.2)
  | _ => (st, [unexpectedKey kv.key "environment" ["name", "url"]])

/-- `parseEnvironment` -/
def parseEnvironment (cfg : Cfg) (pos : Pos) (n : Node) : R Environment :=
  if n.kind = .scalar then
    let s := parseString n false
    ({ name := some s.1, pos := pos }, s.2)
  else
    let m := parseSectionMapping cfg "environment" n false true
    let r := loop environmentKey ({ pos := pos }, false) m.1
    (r.1.1, m.2 ++ r.2 ++ (if !r.1.2 then [⟨pos, "environment-no-name", []⟩] else []))

/-- `parseOutputs` -/
def parseOutputs (cfg : Cfg) (n : Node) : R (List (String × Output)) :=
  let m := parseSectionMapping cfg "outputs" n false false
  let r := mapKVs (fun kv => let v := parseString kv.val true; ((⟨kv.key, v.1⟩ : Output), v.2)) m.1
  let c := checkNotEmpty "outputs" r.1.length n
  (r.1, m.2 ++ r.2 ++ c.2)

/-! ### matrix -/

mutual
/-- `parseRawYAMLValue`; `none` = nil -/
def rawValue (cfg : Cfg) : Node → R (Option Raw)
  | .mk .scalar _ v _ l c _ => (some (.str v ⟨l, c⟩), [])
  | .mk .sequence _ _ _ l c cs =>
    let r := rawSeq cfg cs
    (some (.arr r.1 ⟨l, c⟩), r.2)
  | .mk .mapping _ _ _ l c cs =>
    -- `parseMapping("matrix row value", n, true, false)` first (all its diagnostics), then the values
    let r := rawProps cfg cs []
    (some (.obj r.1 ⟨l, c⟩), r.2.1 ++ r.2.2)
  | .mk k _ _ _ l c _ => (none, [⟨⟨l, c⟩, "matrix-value-kind", [k.name]⟩])
def rawSeq (cfg : Cfg) : List Node → R (List Raw)
  | [] => ([], [])
  | c :: cs =>
    let v := rawValue cfg c
    let r := rawSeq cfg cs
    (match v.1 with | some x => x :: r.1 | none => r.1, v.2 ++ r.2)
/-- the key loop of `parseMapping` and the value loop of `parseRawYAMLValue` in one pass over `Content`: the result,
the diagnostics of the keys, the diagnostics of the values -/
def rawProps (cfg : Cfg) : List Node → List (String × Pos) → List (String × Raw) × (List PErr × List PErr)
  | kn :: vn :: rest, seen =>
    let k := parseString kn false
    let id := cfg.lower k.1.value
    match lookupSeen id seen with
    | some pos =>
      let r := rawProps cfg rest seen
      (r.1, (k.2 ++ [⟨k.1.pos, "key-duplicated", [k.1.value, "matrix row value", posString pos, ". note that this key is case insensitive"]⟩] ++ r.2.1, r.2.2))
    | none =>
      let v := rawValue cfg vn
      let r := rawProps cfg rest (seen ++ [(id, k.1.pos)])
      (match v.1 with | some x => (id, x) :: r.1 | none => r.1, (k.2 ++ r.2.1, v.2 ++ r.2.2))
  | _, _ => ([], ([], []))
end

def matrixAssigns (cfg : Cfg) : List KV → R (List (String × MatrixAssign))
  | [] => ([], [])
  | kv :: rest =>
    let v := rawValue cfg kv.val
    let r := matrixAssigns cfg rest
    (match v.1 with | some x => (kv.id, ⟨kv.key, x⟩) :: r.1 | none => r.1, v.2 ++ r.2)

def matrixCombos (cfg : Cfg) (sec : String) : List Node → R (List MatrixCombination)
  | [] => ([], [])
  | c :: cs =>
    let r := matrixCombos cfg sec cs
    if c.kind = .scalar then
      let e := parseExpression c "mapping of matrix combination"
      (match e.1 with | some s => ⟨none, some s⟩ :: r.1 | none => r.1, e.2 ++ r.2)
    else
      let m := parseMapping cfg ("element in \"" ++ sec ++ "\" section") c false false
      let a := matrixAssigns cfg m.1
      (⟨some a.1, none⟩ :: r.1, m.2 ++ a.2 ++ r.2)

/-- `parseMatrixCombinations`; `none` = nil -/
def parseMatrixCombinations (cfg : Cfg) (sec : String) (n : Node) : R (Option MatrixCombinations) :=
  if n.kind = .scalar then
    let e := parseExpression n "array of matrix combination"
    (some ⟨none, e.1⟩, e.2)
  else
    let c := checkSequence sec n false
    if !c.1 then (none, c.2)
    else
      let r := matrixCombos cfg sec n.content
      (some ⟨some r.1, none⟩, c.2 ++ r.2)

def setAssoc {β : Type} (k : String) (v : β) : List (String × β) → List (String × β)
  | [] => [(k, v)]
  | (k', v') :: rest => if k' = k then (k, v) :: rest else (k', v') :: setAssoc k v rest

def matrixKey (cfg : Cfg) (st : Matrix) (kv : KV) : Matrix × List PErr :=
  match kv.id with
  | "include" => let c := parseMatrixCombinations cfg "include" kv.val; ({ st with incl := c.1 }, c.2)
  | "exclude" => let c := parseMatrixCombinations cfg "exclude" kv.val; ({ st with excl := c.1 }, c.2)
  | _ =>
    if kv.val.kind = .scalar then
      let e := parseExpression kv.val "array value for matrix variations"
      ({ st with rows := some (setAssoc kv.id ⟨none, none, e.1⟩ (st.rows.getD [])) }, e.2)
    else
      let c := checkSequence "matrix values" kv.val false
      if !c.1 then (st, c.2)
      else
        let r := rawSeq cfg kv.val.content
        ({ st with rows := some (setAssoc kv.id ⟨some kv.key, some r.1, none⟩ (st.rows.getD [])) }, c.2 ++ r.2)

/-- `parseMatrix` -/
def parseMatrix (cfg : Cfg) (pos : Pos) (n : Node) : R Matrix :=
  if n.kind = .scalar then
    let e := parseExpression n "matrix"
    ({ rows := none, expr := e.1, pos := n.pos }, e.2)
  else
    let m := parseSectionMapping cfg "matrix" n false false
    let r := loop (matrixKey cfg) { rows := some [], pos := pos } m.1
    (r.1, m.2 ++ r.2)

/-- `parseMaxParallel` -/
def parseMaxParallel (cfg : Cfg) (n : Node) : R (Option IntV) :=
  let i := parseInt cfg n
  match i.1 with
  | some iv =>
    if iv.expr.isNone && iv.value ≤ 0 then (i.1, i.2 ++ [errAt n "max-parallel-positive" [toString iv.value]])
    else i
  | none => i

def strategyKey (cfg : Cfg) (st : Strategy) (kv : KV) : Strategy × List PErr :=
  match kv.id with
  | "matrix" => let m := parseMatrix cfg kv.key.pos kv.val; ({ st with matrix := some m.1 }, m.2)
  | "fail-fast" => let b := parseBool kv.val; ({ st with failFast := b.1 }, b.2)
  | "max-parallel" => let i := parseMaxParallel cfg kv.val; ({ st with maxParallel := i.1 }, i.2)
  | _ => (st, [unexpectedKey kv.key "strategy" ["matrix", "fail-fast", "max-parallel"]])

/-- `parseStrategy` -/
def parseStrategy (cfg : Cfg) (pos : Pos) (n : Node) : R Strategy :=
  let m := parseSectionMapping cfg "strategy" n false true
  let r := loop (strategyKey cfg) { pos := pos } m.1
  (r.1, m.2 ++ r.2)

/-! ### container, services -/

def credentialsKey (st : Credentials) (c : KV) : Credentials × List PErr :=
  match c.id with
  | "username" => let s := parseString c.val false; ({ st with username := some s.1 }, s.2)
  | "password" => let s := parseString c.val false; ({ st with password := some s.1 }, s.2)
  | _ => (st, [unexpectedKey c.key "credentials" ["username", "password"]])

def containerKey (cfg : Cfg) (sec : String) (st : Container) (kv : KV) : Container × List PErr :=
  match kv.id with
  | "image" => let s := parseString kv.val false; ({ st with image := some s.1 }, s.2)
  | "credentials" =>
    let m := parseSectionMapping cfg "credentials" kv.val false true
    let r := loop credentialsKey { pos := kv.key.pos } m.1
    if r.1.username.isNone || r.1.password.isNone then
      (st, m.2 ++ r.2 ++ [⟨kv.key.pos, "credentials-pair", []⟩])
    else ({ st with credentials := some r.1 }, m.2 ++ r.2)
  | "env" => let e := parseEnv cfg kv.val; ({ st with env := some e.1 }, e.2)
  | "ports" => let s := parseStringSequence "ports" kv.val true false; ({ st with ports := s.1 }, s.2)
  | "volumes" => let s := parseStringSequence "volumes" kv.val true false; ({ st with volumes := s.1 }, s.2)
  | "options" => let s := parseString kv.val true; ({ st with options := some s.1 }, s.2)
  | _ => (st, [unexpectedKey kv.key sec ["image", "credentials", "env", "ports", "volumes", "options"]])

/-- `parseContainer` -/
def parseContainer (cfg : Cfg) (sec : String) (pos : Pos) (n : Node) : R Container :=
  if n.kind = .scalar then
    let s := parseString n false
    ({ image := some s.1, pos := pos }, s.2)
  else
    let m := parseSectionMapping cfg sec n false true
    let r := loop (containerKey cfg sec) { pos := pos } m.1
    (r.1, m.2 ++ r.2)

/-- `parseServices` -/
def parseServices (cfg : Cfg) (n : Node) : R Services :=
  match mayParseExpression n with
  | some e => (⟨none, some e, n.pos⟩, [])
  | none =>
    let m := parseSectionMapping cfg "services" n false false
    let r := mapKVs (fun s => let c := parseContainer cfg "services" s.key.pos s.val; ((⟨s.key, c.1⟩ : Service), c.2)) m.1
    (⟨some r.1, none, n.pos⟩, m.2 ++ r.2)

/-- `parseTimeoutMinutes` -/
def parseTimeoutMinutes (cfg : Cfg) (n : Node) : R (Option FloatV) :=
  let f := parseFloat cfg n
  match f.1 with
  | some fv =>
    if fv.expr.isNone && !fv.positive then (f.1, f.2 ++ [errAt n "timeout-positive" []])
    else f
  | none => f

/-! ### steps -/

def withKey (st : ExecAction) (input : KV) : ExecAction × List PErr :=
  match input.id with
  | "entrypoint" => let s := parseString input.val false; ({ st with entrypoint := some s.1 }, s.2)
  | "args" => let s := parseString input.val true; ({ st with args := some s.1 }, s.2)
  | _ =>
    let s := parseString input.val true
    ({ st with inputs := some ((st.inputs.getD []) ++ [(input.id, ⟨input.key, s.1⟩)]) }, s.2)

structure StepSt where
  step : Step
  workDir : Option Str := none

def stepKeys : List String :=
  ["id", "if", "name", "env", "continue-on-error", "timeout-minutes", "uses", "with", "run", "working-directory", "shell"]

def stepKey (cfg : Cfg) (st : StepSt) (kv : KV) : StepSt × List PErr :=
  match kv.id with
  | "id" => let s := parseString kv.val false; ({ st with step := { st.step with id := some s.1 } }, s.2)
  | "if" => let s := parseString kv.val false; ({ st with step := { st.step with cond := some s.1 } }, s.2)
  | "name" => let s := parseString kv.val true; ({ st with step := { st.step with name := some s.1 } }, s.2)
  | "env" => let e := parseEnv cfg kv.val; ({ st with step := { st.step with env := some e.1 } }, e.2)
  | "continue-on-error" => let b := parseBool kv.val; ({ st with step := { st.step with continueOnError := b.1 } }, b.2)
  | "timeout-minutes" => let f := parseTimeoutMinutes cfg kv.val; ({ st with step := { st.step with timeoutMinutes := f.1 } }, f.2)
  | "uses" =>
    (match st.step.exec with
    | .run _ => (st, [⟨kv.key.pos, "step-run-but-action-key", [kv.key.value]⟩])
    | .none =>
      let s := parseString kv.val false
      ({ st with step := { st.step with exec := .action { uses := some s.1 } } }, s.2)
    | .action e =>
      let s := parseString kv.val false
      ({ st with step := { st.step with exec := .action { e with uses := some s.1 } } }, s.2))
  | "with" =>
    (match st.step.exec with
    | .run _ => (st, [⟨kv.key.pos, "step-run-but-action-key", [kv.key.value]⟩])
    | .none =>
      let m := parseSectionMapping cfg "with" kv.val false false
      let r := loop withKey { inputs := some [] } m.1
      ({ st with step := { st.step with exec := .action r.1 } }, m.2 ++ r.2)
    | .action e =>
      let m := parseSectionMapping cfg "with" kv.val false false
      let r := loop withKey { e with inputs := some [] } m.1
      ({ st with step := { st.step with exec := .action r.1 } }, m.2 ++ r.2))
  | "run" =>
    (match st.step.exec with
    | .action _ => (st, [⟨kv.key.pos, "step-action-but-run-key", [kv.key.value]⟩])
    | .none =>
      let s := parseString kv.val false
      ({ st with step := { st.step with exec := .run { run := some s.1, runPos := some kv.key.pos, workingDirectory := st.workDir } } }, s.2)
    | .run e =>
      let s := parseString kv.val false
      ({ st with step := { st.step with exec := .run { e with run := some s.1, runPos := some kv.key.pos, workingDirectory := st.workDir } } }, s.2))
  | "shell" =>
    (match st.step.exec with
    | .action _ => (st, [⟨kv.key.pos, "step-action-but-run-key", [kv.key.value]⟩])
    | .none =>
      let s := parseString kv.val false
      ({ st with step := { st.step with exec := .run { shell := some s.1, workingDirectory := st.workDir } } }, s.2)
    | .run e =>
      let s := parseString kv.val false
      ({ st with step := { st.step with exec := .run { e with shell := some s.1, workingDirectory := st.workDir } } }, s.2))
  | "working-directory" =>
    let s := parseString kv.val false
    (match st.step.exec with
    | .run e => ({ workDir := some s.1, step := { st.step with exec := .run { e with workingDirectory := some s.1 } } }, s.2)
    | _ => ({ st with workDir := some s.1 }, s.2))
  | _ => (st, [unexpectedKey kv.key "step" stepKeys])

/-- the checks after the loop of `parseStep` -/
def stepFinish (n : Node) (st : StepSt) : List PErr :=
  match st.step.exec with
  | .action e =>
    (if e.uses.isNone then [errAt n "step-uses-required" []] else []) ++
    (match st.workDir with | some w => [⟨w.pos, "step-workdir-with-uses", []⟩] | none => [])
  | .run e => if e.run.isNone then [errAt n "step-run-required" []] else []
  | .none => [errAt n "step-no-exec" []]

/-- `parseStep` -/
def parseStep (cfg : Cfg) (n : Node) : R Step :=
  let m := parseMapping cfg "element of \"steps\" section" n false true
  let r := loop (stepKey cfg) { step := { pos := n.pos } } m.1
  (r.1.step, m.2 ++ r.2 ++ stepFinish n r.1)

def stepsOf (cfg : Cfg) : List Node → R (List Step)
  | [] => ([], [])
  | c :: cs =>
    let s := parseStep cfg c
    let r := stepsOf cfg cs
    (s.1 :: r.1, s.2 ++ r.2)

/-- `parseSteps`; `none` = nil -/
def parseSteps (cfg : Cfg) (n : Node) : R (Option (List Step)) :=
  let c := checkSequence "steps" n false
  if !c.1 then (none, c.2)
  else
    let r := stepsOf cfg n.content
    (some r.1, c.2 ++ r.2)

/-! ### jobs -/

def runsOnKey (st : Runner) (kv : KV) : Runner × List PErr :=
  match kv.id with
  | "labels" =>
    (match mayParseExpression kv.val with
    | some e => ({ st with labelsExpr := some e }, [])
    | none =>
      let l := parseStringOrStringSequence "labels" kv.val false false
      ({ st with labels := l.1 }, l.2))
  | "group" => let s := parseString kv.val false; ({ st with group := some s.1 }, s.2)
  | _ => (st, [unexpectedKey kv.key "runs-on" ["labels", "group"]])

/-- `parseRunsOn` -/
def parseRunsOn (cfg : Cfg) (n : Node) : R Runner :=
  match mayParseExpression n with
  | some e => ({ labelsExpr := some e }, [])
  | none =>
    if n.kind = .scalar || n.kind = .sequence then
      let l := parseStringOrStringSequence "runs-on" n false false
      ({ labels := l.1 }, l.2)
    else
      let m := parseSectionMapping cfg "runs-on" n false true
      let r := loop runsOnKey {} m.1
      (r.1, m.2 ++ r.2)

structure JobSt where
  job : Job
  call : WorkflowCall := {}
  stepsOnlyKey : Option Str := none
  callOnlyKey : Option Str := none

def jobKeys : List String :=
  ["name", "needs", "runs-on", "permissions", "environment", "concurrency", "outputs", "env", "defaults", "if", "steps",
   "timeout-minutes", "strategy", "continue-on-error", "container", "services", "uses", "with", "secrets"]

def callArgs (kvs : List KV) : R (List (String × CallArg)) :=
  mapKVs (fun i => let v := parseString i.val true; ((⟨i.key, v.1⟩ : CallArg), v.2)) kvs

def jobKey (cfg : Cfg) (st : JobSt) (kv : KV) : JobSt × List PErr :=
  let k := kv.key
  let v := kv.val
  match kv.id with
  | "name" => let s := parseString v true; ({ st with job := { st.job with name := some s.1 } }, s.2)
  | "needs" =>
    if v.kind = .scalar then
      let s := parseString v false
      ({ st with job := { st.job with needs := some [s.1] } }, s.2)
    else
      let s := parseStringSequence "needs" v false false
      ({ st with job := { st.job with needs := s.1 } }, s.2)
  | "runs-on" => let r := parseRunsOn cfg v; ({ st with job := { st.job with runsOn := some r.1 }, stepsOnlyKey := some k }, r.2)
  | "permissions" => let p := parsePermissions cfg k.pos v; ({ st with job := { st.job with permissions := some p.1 } }, p.2)
  | "environment" => let e := parseEnvironment cfg k.pos v; ({ st with job := { st.job with environment := some e.1 }, stepsOnlyKey := some k }, e.2)
  | "concurrency" => let c := parseConcurrency cfg k.pos v; ({ st with job := { st.job with concurrency := some c.1 } }, c.2)
  | "outputs" => let o := parseOutputs cfg v; ({ st with job := { st.job with outputs := some o.1 }, stepsOnlyKey := some k }, o.2)
  | "env" => let e := parseEnv cfg v; ({ st with job := { st.job with env := some e.1 }, stepsOnlyKey := some k }, e.2)
  | "defaults" => let d := parseDefaults cfg k.pos v; ({ st with job := { st.job with defaults := some d.1 }, stepsOnlyKey := some k }, d.2)
  | "if" => let s := parseString v false; ({ st with job := { st.job with cond := some s.1 } }, s.2)
  | "steps" => let s := parseSteps cfg v; ({ st with job := { st.job with steps := s.1 }, stepsOnlyKey := some k }, s.2)
  | "timeout-minutes" => let f := parseTimeoutMinutes cfg v; ({ st with job := { st.job with timeoutMinutes := f.1 }, stepsOnlyKey := some k }, f.2)
  | "strategy" => let s := parseStrategy cfg k.pos v; ({ st with job := { st.job with strategy := some s.1 } }, s.2)
  | "continue-on-error" => let b := parseBool v; ({ st with job := { st.job with continueOnError := b.1 }, stepsOnlyKey := some k }, b.2)
  | "container" => let c := parseContainer cfg "container" k.pos v; ({ st with job := { st.job with container := some c.1 }, stepsOnlyKey := some k }, c.2)
  | "services" => let s := parseServices cfg v; ({ st with job := { st.job with services := some s.1 } }, s.2)
  | "uses" => let s := parseString v false; ({ st with call := { st.call with uses := some s.1 }, callOnlyKey := some k }, s.2)
  | "with" =>
    let m := parseSectionMapping cfg "with" v false false
    let r := callArgs m.1
    ({ st with call := { st.call with inputs := some r.1 }, callOnlyKey := some k }, m.2 ++ r.2)
  | "secrets" =>
    if v.kind = .scalar then
      if v.value = "inherit" then ({ st with call := { st.call with inheritSecrets := true }, callOnlyKey := some k }, [])
      else ({ st with callOnlyKey := some k }, [errAt v "secrets-scalar" [v.value]])
    else
      let m := parseSectionMapping cfg "secrets" v false false
      let r := callArgs m.1
      ({ st with call := { st.call with secrets := some r.1 }, callOnlyKey := some k }, m.2 ++ r.2)
  | _ => (st, [unexpectedKey kv.key "job" jobKeys])

/-- the checks after the loop of `parseJob` -/
def jobFinish (id : Str) (st : JobSt) : Job × List PErr :=
  if st.call.uses.isSome then
    match st.stepsOnlyKey with
    | some k => (st.job, [⟨k.pos, "job-call-with-steps-key", [k.value, id.value]⟩])
    | none => ({ st.job with workflowCall := some st.call }, [])
  else
    (st.job,
      (if st.job.steps.isNone then [⟨id.pos, "job-no-steps", [id.value]⟩] else []) ++
      (if st.job.runsOn.isNone then [⟨id.pos, "job-no-runs-on", [id.value]⟩] else []) ++
      (match st.callOnlyKey with | some k => [⟨k.pos, "job-call-key-without-uses", [k.value, id.value]⟩] | none => []))

/-- `fmt.Sprintf("%q job", id.Value)` -/
def jobWhat (id : String) : String := "«" ++ id ++ "» job"

/-- `parseJob` -/
def parseJob (cfg : Cfg) (id : Str) (n : Node) : R Job :=
  let m := parseMapping cfg (jobWhat id.value) n false true
  let r := loop (jobKey cfg) { job := { id := id, pos := id.pos } } m.1
  let f := jobFinish id r.1
  (f.1, m.2 ++ r.2 ++ f.2)

/-- `parseJobs` -/
def parseJobs (cfg : Cfg) (n : Node) : R (List (String × Job)) :=
  let m := parseSectionMapping cfg "jobs" n false false
  let r := mapKVs (fun kv => parseJob cfg kv.key kv.val) m.1
  (r.1, m.2 ++ r.2)

/-! ### the workflow -/

def workflowKeys : List String := ["name", "run-name", "on", "permissions", "env", "defaults", "concurrency", "jobs"]

def workflowKey (cfg : Cfg) (w : Workflow) (kv : KV) : Workflow × List PErr :=
  let k := kv.key
  let v := kv.val
  match kv.id with
  | "name" => let s := parseString v true; ({ w with name := some s.1 }, s.2)
  | "on" => let e := parseEvents cfg k.pos v; ({ w with on := e.1 }, e.2)
  | "permissions" => let p := parsePermissions cfg k.pos v; ({ w with permissions := some p.1 }, p.2)
  | "env" => let e := parseEnv cfg v; ({ w with env := some e.1 }, e.2)
  | "defaults" => let d := parseDefaults cfg k.pos v; ({ w with defaults := some d.1 }, d.2)
  | "concurrency" => let c := parseConcurrency cfg k.pos v; ({ w with concurrency := some c.1 }, c.2)
  | "jobs" => let j := parseJobs cfg v; ({ w with jobs := some j.1 }, j.2)
  | "run-name" => let s := parseString v false; ({ w with runName := some s.1 }, s.2)
  | _ => (w, [unexpectedKey k "workflow" workflowKeys])

/-- `if n.Line == 0 { n.Line = 1 }; if n.Column == 0 { n.Column = 1 }` -/
def fixDocPos : Node → Node
  | .mk k t v q l c cs => .mk k t v q (if l = 0 then 1 else l) (if c = 0 then 1 else c) cs

/-- `(*parser).parse` on the document node -/
def parse (cfg : Cfg) (doc : Node) : R Workflow :=
  let n := fixDocPos doc
  match n.content with
  | [] => ({}, [errAt n "workflow-empty" []])
  | root :: _ =>
    let m := parseMapping cfg "workflow" root false true
    let r := loop (workflowKey cfg) {} m.1
    (r.1, m.2 ++ r.2 ++
      (if r.1.on.isNone then [errAt n "workflow-no-on" []] else []) ++
      (if r.1.jobs.isNone then [errAt n "workflow-no-jobs" []] else []))

end AL.PW
